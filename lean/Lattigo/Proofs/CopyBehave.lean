/-
  C10 — `copy_behaves_same` as a general theorem of the model.

  An operation of a copyable object is a TEMPLATE program (`Store.Prog`) over symbolic objects: the fields of the
  receiver (template object k = field k) and the objects the caller hands in.  An INSTANCE of the object maps every
  template object to the memory it refers to (`addr` of the field).  A copy constructor following its table row maps
  the fields classified `config` / `sharedRO` / `absent` to the SAME memory and the fields classified `owned` (scratch)
  to fresh memory.  If the operation never reads a scratch field before writing it (`Reads`), the original and the copy
  — run on ONE shared store, whatever the scratch of either holds — produce the same content in every non-scratch
  object the operation writes.
-/
import Lattigo.Proofs.StorePTS
import Lattigo.Proofs.Copy

set_option linter.unusedSimpArgs false
set_option linter.unusedVariables false
namespace Lattigo.Store

variable {α : Type}

/-- an object renaming, on locations -/
def liftObj (ρ : Nat → Nat) (x : Loc) : Loc := ⟨ρ x.obj, x.fld⟩

theorem liftObj_inj (ρ : Nat → Nat) (h : ∀ a b, ρ a = ρ b → a = b) (x y : Loc) (e : liftObj ρ x = liftObj ρ y) : x = y := by
  rcases x with ⟨xo, xf⟩; rcases y with ⟨yo, yf⟩
  simp only [liftObj, Loc.mk.injEq] at e
  rw [h _ _ e.1, e.2]

/-- running an instance of a template = running the template on the pulled-back store -/
theorem run_instance (I : Interp α) (T : Prog) (ρ : Nat → Nat) (h : ∀ a b, ρ a = ρ b → a = b) (σ : Store α) (x : Loc) :
    run I (T.map (Step.ren (liftObj ρ))) σ (liftObj ρ x) = run I T ⟨fun y => σ (liftObj ρ y)⟩ x := by
  have hsim : SimOn (liftObj ρ) (fun _ => True) (⟨fun y => σ (liftObj ρ y)⟩ : Store α) σ := fun y _ => rfl
  -- every read is "synchronised": D = everything
  have hreads : ∀ (p : Prog) (D : Loc → Prop), (∀ y, D y) → Reads D p := by
    intro p
    induction p with
    | nil => intro _ _; trivial
    | cons s p ih => intro D hD; exact ⟨fun a _ => hD a, ih _ (fun y => Or.inl (hD y))⟩
  exact (run_sim I (liftObj ρ) (liftObj_inj ρ h) T (fun _ => True) _ σ (hreads T _ (fun _ => trivial)) hsim x
    (Or.inl trivial)).symm

/-- COPY BEHAVES SAME (general form): two instances `ρ1` (original) and `ρ2` (copy) of one template `T` that refer to
    the same memory outside the scratch objects `S`, a template that reads scratch only after writing it: on ONE shared
    store, every non-scratch location (seen through the respective instance) holds the same content after the two runs
    — in particular every object the caller handed in as output. -/
theorem instances_behave_same (I : Interp α) (T : Prog) (S : Nat → Prop) (ρ1 ρ2 : Nat → Nat)
    (h1 : ∀ a b, ρ1 a = ρ1 b → a = b) (h2 : ∀ a b, ρ2 a = ρ2 b → a = b)
    (hsame : ∀ a, ¬ S a → ρ1 a = ρ2 a)
    (hreads : Reads (fun x => ¬ S x.obj) T) (σ : Store α) (x : Loc) (hx : ¬ S x.obj ∨ Written T x) :
    run I (T.map (Step.ren (liftObj ρ1))) σ (liftObj ρ1 x) = run I (T.map (Step.ren (liftObj ρ2))) σ (liftObj ρ2 x) := by
  rw [run_instance I T ρ1 h1, run_instance I T ρ2 h2]
  apply run_sim_id I T (fun x => ¬ S x.obj) _ _ hreads
  · intro y hy
    show σ (liftObj ρ1 y) = σ (liftObj ρ2 y)
    simp only [liftObj, hsame _ hy]
  · exact hx

end Lattigo.Store

namespace Lattigo.Copy

/-- the classes under which a field of the copy IS the field of the original -/
def FieldClass.keeps : FieldClass → Bool
  | .config | .sharedRO | .absent | .sharedCache | .sharedScratch => true
  | _ => false

/-- a field whose class keeps it is literally the same field (address and content) in the copy -/
theorem copy_keeps_eq (r : Row) (next fresh : Nat) (o : Obj) (k : Nat) (f : Field)
    (hf : o[k]? = some f) (hc : (classOf r f.name).keeps = true) :
    (applyCtor r next fresh o)[k]? = some f := by
  have := copyFrom_get r next fresh 0 o k f hf
  rw [applyCtor, this]
  cases h : classOf r f.name <;> simp [h, FieldClass.keeps] at hc <;> simp [copyField]

/-- the memory a template object refers to in an instance `o`: template object `k < o.length` is field `k`, the others
    are the caller's objects -/
def instMap (o : Obj) (ext : Nat → Nat) (k : Nat) : Nat :=
  match o[k]? with
  | some f => f.addr
  | none => ext (k - o.length)

/-- COPY BEHAVES SAME for a table row: `o` an object, `o' = applyCtor r next fresh o` its copy by a constructor that
    follows row `r`; every field is kept (`config`, `sharedRO`, `absent`) or is `owned` scratch; the operation `T` reads
    scratch only after writing it.  Then on one shared store the original and the copy leave the same content in every
    location of every kept field and of every caller object (inputs, outputs). -/
theorem row_copy_behaves_same {α : Type} (I : Store.Interp α) (r : Row) (next fresh : Nat) (o : Obj) (ext : Nat → Nat)
    (T : Store.Prog)
    (hcls : ∀ f ∈ o, (classOf r f.name).keeps = true ∨ classOf r f.name = .owned)
    (hinj : ∀ a b, instMap o ext a = instMap o ext b → a = b)
    (hinj' : ∀ a b, instMap (applyCtor r next fresh o) ext a = instMap (applyCtor r next fresh o) ext b → a = b)
    (hreads : Store.Reads (fun x => ¬ (∃ f, o[x.obj]? = some f ∧ classOf r f.name = .owned)) T)
    (σ : Store.Store α) (x : Store.Loc) (hx : ¬ (∃ f, o[x.obj]? = some f ∧ classOf r f.name = .owned)) :
    Store.run I (T.map (Store.Step.ren (Store.liftObj (instMap o ext)))) σ (Store.liftObj (instMap o ext) x) =
    Store.run I (T.map (Store.Step.ren (Store.liftObj (instMap (applyCtor r next fresh o) ext)))) σ
      (Store.liftObj (instMap (applyCtor r next fresh o) ext) x) := by
  apply Store.instances_behave_same I T (fun k => ∃ f, o[k]? = some f ∧ classOf r f.name = .owned) _ _ hinj hinj' ?_ hreads σ x
    (Or.inl hx)
  intro a ha
  unfold instMap
  have hlen : (applyCtor r next fresh o).length = o.length := by simp [applyCtor, copyFrom_length]
  cases hoa : o[a]? with
  | none =>
    have : (applyCtor r next fresh o)[a]? = none := by
      rw [List.getElem?_eq_none_iff] at hoa ⊢
      omega
    simp [this, hlen]
  | some f =>
    have hmem : f ∈ o := List.mem_of_getElem? hoa
    have hk : (classOf r f.name).keeps = true := by
      rcases hcls f hmem with h | h
      · exact h
      · exact absurd ⟨f, hoa, h⟩ ha
    simp [copy_keeps_eq r next fresh o a f hoa hk]

/-! ### a concrete instance -/
open Lattigo.Store (st L) in
section
/-- Decryptor as an object: field 0 `buff` (scratch), 1 `params`, 2 `ringQ`, 3 `sk` -/
def exDec : Obj := [⟨"buff", 100, 0⟩, ⟨"params", 102, 0⟩, ⟨"ringQ", 104, 0⟩, ⟨"sk", 106, 0⟩]
def exRow : Row := [("buff", .owned), ("params", .sharedRO), ("ringQ", .sharedRO), ("sk", .sharedRO)]
def exExt (k : Nat) : Nat := 2 * k + 1001   -- the caller's objects live at odd addresses, fields at even ones
/-- Decrypt of a coefficient-domain ciphertext (template objects: 0 = buff, 3 = sk, 4 = ct, 5 = pt) -/
def exT : Store.Prog :=
  [ st (L 5 0) .ntt [L 4 1], st (L 5 0) .mulM [L 5 0, L 3 0], st (L 0 0) .ntt [L 4 0], st (L 5 0) .add [L 5 0, L 0 0],
    st (L 5 0) .reduce [L 5 0], st (L 5 0) .intt [L 5 0] ]

theorem exMap (o : Obj) (h : o.length = 4) (a0 a1 a2 a3 : Nat)
    (e : o.map (·.addr) = [a0, a1, a2, a3]) (k : Nat) :
    instMap o exExt k = if k = 0 then a0 else if k = 1 then a1 else if k = 2 then a2 else if k = 3 then a3 else 2 * (k - 4) + 1001 := by
  match o, h, e with
  | [f0, f1, f2, f3], _, e =>
    simp at e
    match k with
    | 0 => simp [instMap, e.1]
    | 1 => simp [instMap, e.2.1]
    | 2 => simp [instMap, e.2.2.1]
    | 3 => simp [instMap, e.2.2.2]
    | k + 4 => simp [instMap, exExt]

theorem piecewise_inj' (a0 a1 a2 a3 : Nat) (hd : a0 ≠ a1 ∧ a0 ≠ a2 ∧ a0 ≠ a3 ∧ a1 ≠ a2 ∧ a1 ≠ a3 ∧ a2 ≠ a3)
    (h0 : a0 % 2 = 0) (h1 : a1 % 2 = 0) (h2 : a2 % 2 = 0) (h3 : a3 % 2 = 0) (a b : Nat)
    (e : (if a = 0 then a0 else if a = 1 then a1 else if a = 2 then a2 else if a = 3 then a3 else 2 * (a - 4) + 1001) =
         (if b = 0 then a0 else if b = 1 then a1 else if b = 2 then a2 else if b = 3 then a3 else 2 * (b - 4) + 1001)) :
    a = b := by
  (repeat' split at e) <;> omega

/-- non-vacuity: `rlwe.Decryptor.ShallowCopy` (row of the table) and Decrypt of a coefficient-domain ciphertext, which
    uses the scratch polynomial `buff`: the plaintext the caller receives (template object 5, memory 1003) is the same -/
theorem exDec_behaves_same (α : Type) (I : Store.Interp α) (σ : Store.Store α) (f : Nat) :
    Store.run I (exT.map (Store.Step.ren (Store.liftObj (instMap exDec exExt)))) σ ⟨1003, f⟩ =
    Store.run I (exT.map (Store.Step.ren (Store.liftObj (instMap (applyCtor exRow 300 0 exDec) exExt)))) σ ⟨1003, f⟩ := by
  have m1 := exMap exDec rfl 100 102 104 106 rfl
  have m2 := exMap (applyCtor exRow 300 0 exDec) rfl 300 102 104 106 (by decide)
  have h := row_copy_behaves_same I exRow 300 0 exDec exExt exT (by decide)
    (by intro a b e; rw [m1 a, m1 b] at e; exact piecewise_inj' 100 102 104 106 (by decide) (by decide) (by decide) (by decide) (by decide) a b e)
    (by intro a b e; rw [m2 a, m2 b] at e; exact piecewise_inj' 300 102 104 106 (by decide) (by decide) (by decide) (by decide) (by decide) a b e)
    (by simp (config := {decide := true}) [exT, Store.Reads, exDec, exRow, classOf, L, st]) σ ⟨5, f⟩
    (by simp (config := {decide := true}) [exDec, exRow, classOf])
  simpa [Store.liftObj, m1, m2] using h
end

end Lattigo.Copy
