/-
  C11 proofs, part 9: the scheme-level wrappers — `Replicate`, `ckks.InnerSum`, `bgv.InnerSum`
  (two-row layout), and their advertised lists.
-/
import Lattigo.Proofs.InnerSum
import Lattigo.Proofs.InnerSumKeys

namespace Lattigo.Proofs.InnerSum
open Lattigo Lattigo.Model.Galois Lattigo.Model.InnerSum Lattigo.Proofs.Galois
open Finset

variable {α : Type}

/-! ### keys -/

/-- for a power of two count the loop only makes the doubling look-ups -/
theorem req_pow2 (N s : Nat) (off : Int) (r : Nat) (h : Req N (2 ^ s) off r) :
    ∃ i, i < s ∧ r = galEl N (wrapInt (((2 ^ i : Nat) : Int) * off)) := by
  obtain ⟨i, hlt, hr⟩ := h
  have his : i < s := (Nat.pow_lt_pow_iff_right (by norm_num)).mp hlt
  rcases hr with hr | ⟨hodd, _, _⟩
  · exact ⟨i, his, hr⟩
  · exfalso
    have : 2 ^ s / 2 ^ i = 2 ^ (s - i - 1) * 2 := by
      rw [Nat.pow_div (by omega) (by norm_num), ← pow_succ]; congr 1; omega
    rw [this, Nat.mul_mod_left] at hodd; omega

theorem toU64_of_nonneg (x : Int) (h0 : 0 ≤ x) (h1 : x < 9223372036854775808) : toU64 x = x.toNat := by
  unfold toU64; omega

/-- Go's `l&(l-1) == 0` for a positive `int`: `l` is a power of two. -/
theorem pow2_of_and_pred (x : Nat) (hx : 0 < x) (h : x &&& (x - 1) = 0) : ∃ i, x = 2 ^ i := by
  refine ⟨Nat.log2 x, ?_⟩
  have h1 : 2 ^ Nat.log2 x ≤ x := Nat.log2_self_le (by omega)
  have h2 : x < 2 ^ (Nat.log2 x + 1) := Nat.lt_log2_self
  exact (and_pred_eq_zero_iff x _ h1 h2).mp h

/-- **`keys_sufficient` for `bgv.Evaluator.InnerSum`** (two-row layout, `ctIn.Slots() = MaxSlots`):
    for all `batch, n > 0` the list `bgv.Parameters.GaloisElementsForInnerSum(batch, n)` contains
    every key the call looks up — including the row swap and the rotations for `(batch, n/2)`
    it uses when `n·batch` equals the slot count. -/
theorem innerSumBGV_keys (S : Ops α) (N maxSlots : Nat) (hms : 1 ≤ maxSlots) (hasP : Bool) (v out0 acc0 : α)
    (batch n : Int) (hn : 0 < n) (hb : 0 < batch) (hnb : n * batch < 4611686018427387904) :
    ∃ l, galoisElementsForInnerSumBGV N maxSlots batch n = some l ∧
      ∀ r ∈ (innerSumBGV S N maxSlots hasP v out0 acc0 batch n).reqs, r ∈ l := by
  have hn62 : n ≤ 4611686018427387904 := by nlinarith
  have hnat' : ((n.toNat : Nat) : Int) = n := by omega
  obtain ⟨l, hl, hmem⟩ := req_mem_adv N batch n hn62
  have hw : wrapInt (n * batch) = n * batch :=
    wrapInt_of_small _ (by nlinarith) (by omega)
  unfold galoisElementsForInnerSumBGV
  rw [hl]
  refine ⟨_, rfl, ?_⟩
  intro r hr
  beta_reduce
  rw [hw]
  unfold innerSumBGV at hr
  simp only [hw] at hr
  rw [if_neg (by omega)] at hr
  by_cases h1 : n * batch > (maxSlots : Int)
  · rw [if_pos h1] at hr; simp [Res.reqs] at hr
  · rw [if_neg h1] at hr
    by_cases h2 : (toU64 (n * batch) &&& toU64 (wrapInt (n * batch - 1))) ≠ 0
    · rw [if_pos h2] at hr; simp [Res.reqs] at hr
    · rw [if_neg h2] at hr
      have hpos : 0 < n * batch := by positivity
      by_cases h3 : n * batch = (maxSlots : Int)
      · rw [if_pos h3] at hr
        by_cases h4 : n = 1
        · rw [if_pos h4] at hr; simp [Res.reqs] at hr
        · rw [if_neg h4] at hr
          -- n·batch is a power of two, hence so is n, hence so is n/2
          have hl2 : (n * batch).toNat &&& ((n * batch).toNat - 1) = 0 := by
            have := not_not.mp h2
            rw [toU64_of_nonneg _ (by omega) (by omega),
              wrapInt_of_small _ (by omega) (by omega),
              toU64_of_nonneg _ (by omega) (by omega)] at this
            have e : (n * batch - 1).toNat = (n * batch).toNat - 1 := by omega
            rw [e] at this; exact this
          obtain ⟨e, he⟩ := pow2_of_and_pred _ (by omega) hl2
          have hdvd : n.toNat ∣ 2 ^ e := by
            rw [← he]
            refine ⟨batch.toNat, ?_⟩
            have : ((n * batch).toNat : Int) = ((n.toNat * batch.toNat : Nat) : Int) := by
              push_cast; rw [Int.toNat_of_nonneg (by omega), Int.toNat_of_nonneg (by omega),
                Int.toNat_of_nonneg (by omega)]
            exact_mod_cast this
          obtain ⟨s, _, hs⟩ := (Nat.dvd_prime_pow Nat.prime_two).mp hdvd
          have hs1 : 1 ≤ s := by
            rcases Nat.eq_zero_or_pos s with h | h
            · rw [h] at hs; simp at hs; omega
            · exact h
          have hhalf : (n / 2).toNat = 2 ^ (s - 1) := by
            have h2s : (2 : Nat) ^ s = 2 ^ (s - 1) * 2 := by
              rw [← pow_succ]; congr 1; omega
            have : n = ((2 ^ (s - 1) : Nat) : Int) * 2 := by
              rw [← hnat', hs, h2s]; push_cast; ring
            rw [this, Int.mul_ediv_cancel _ (by norm_num)]
            exact Int.toNat_natCast _
          -- the look-ups of PartialTracesSum(batch, n/2)
          have hsub : ∀ r ∈ (partialTracesSum S N hasP v out0 acc0 batch (n / 2)).reqs, r ∈ l := by
            intro r hr
            unfold partialTracesSum at hr
            split at hr
            · simp [Res.reqs] at hr
            · split at hr
              · simp [Res.reqs] at hr
              · split at hr
                · simp [Res.reqs] at hr
                · simp only [Res.reqs] at hr
                  have := ptsLoop_reqs S S.add true N (n / 2).toNat batch 64 0 _ r (by simpa using hr)
                  rcases this with h | h
                  · simp at h
                  · rw [hhalf] at h
                    obtain ⟨i, his, hri⟩ := req_pow2 N (s - 1) batch r h
                    apply hmem r
                    refine ⟨i, ?_, Or.inl hri⟩
                    rw [hs]; exact Nat.pow_lt_pow_right (by norm_num) (by omega)
          have hrow : (n * batch > ((maxSlots >>> 1 : Nat) : Int)) := by
            rw [h3, Nat.shiftRight_eq_div_pow]
            have : maxSlots / 2 ^ 1 < maxSlots := Nat.div_lt_self (by omega) (by norm_num)
            exact_mod_cast this
          rw [if_pos hrow]
          cases hp : partialTracesSum S N hasP v out0 acc0 batch (n / 2) with
          | err => rw [hp] at hr; simp [Res.reqs] at hr
          | panic => rw [hp] at hr; simp [Res.reqs] at hr
          | ok u reqs =>
            rw [hp] at hr hsub
            simp only [Res.reqs] at hr hsub
            rcases mem_request hr with h | h
            · exact List.mem_append_left _ (hsub r h)
            · rw [h]; simp
      · rw [if_neg h3] at hr
        obtain ⟨l', hl', hmem'⟩ := partialTracesSum_keys S N hasP v out0 acc0 batch n hn62
        rw [hl] at hl'; injection hl' with hl'
        have := hmem' r hr
        rw [← hl'] at this
        split
        · exact List.mem_append_left _ this
        · exact this

/-- `bgv.Parameters.GaloisElementsForReplicate` only extends the rlwe list. -/
theorem replicateBGV_keys (S : Ops α) (N ringN : Nat) (hasP : Bool) (v out0 acc0 : α) (batch n : Int)
    (hn : n ≤ 4611686018427387904) :
    ∃ l, galoisElementsForReplicateBGV N ringN batch n = some l ∧
      ∀ r ∈ (replicate S N hasP v out0 acc0 batch n).reqs, r ∈ l := by
  obtain ⟨l, hl, hmem⟩ := replicate_keys S N hasP v out0 acc0 batch n hn
  unfold galoisElementsForReplicateBGV
  rw [hl]
  refine ⟨_, rfl, ?_⟩
  intro r hr
  split
  · exact List.mem_append_left _ (hmem r hr)
  · exact hmem r hr

/-- single rotations look up at most the key of `GaloisElement(k)` -/
theorem rotate_keys (S : Ops α) (N : Nat) (v : α) (k : Int) :
    ∀ r ∈ (rotate S N v k).reqs, r = galEl N k := by
  intro r hr
  unfold rotate at hr
  simp only [Res.reqs] at hr
  rcases mem_request hr with h | h
  · simp at h
  · exact h

theorem rotateHoisted_keys (S : Ops α) (N : Nat) (hasP : Bool) (v : α) (ks : List Int) :
    ∀ res, rotateHoisted S N hasP v ks = some res → ∀ r ∈ res.2, r ∈ galEls N ks := by
  intro res hres
  unfold rotateHoisted at hres
  split at hres
  · exact absurd hres (by simp)
  · injection hres with hres
    rw [← hres]
    unfold galEls
    suffices h : ∀ (ks : List Int) (acc : List α × List Nat),
        ∀ r ∈ (ks.foldl (fun (acc : List α × List Nat) k =>
          (acc.1 ++ [S.aut (galEl N k) v], request false (galEl N k) acc.2)) acc).2,
          r ∈ acc.2 ∨ r ∈ ks.map (galEl N) by
      intro r hr
      rcases h ks ([], []) r hr with h | h
      · simp at h
      · exact h
    intro ks
    induction ks with
    | nil => intro acc r hr; exact Or.inl hr
    | cons k ks ih =>
      intro acc r hr
      rw [List.foldl_cons] at hr
      rcases ih _ r hr with h | h
      · rcases mem_request h with h | h
        · exact Or.inl h
        · right; rw [h]; simp
      · right; simp only [List.map_cons, List.mem_cons]; exact Or.inr h

/-! ### values -/

variable [AddCommMonoid α] {S : Ops α} {m : Nat}

/-- **`replicate_spec`.** `Replicate(ct, batch, n) = Σ_{r<n} rot(-(r·batch)) ct`. -/
theorem replicate_spec (hS : Lawful S (2 ^ m)) (hm1 : 1 ≤ m) (hm : m ≤ 64)
    (v out0 acc0 : α) (batch n : Int) (hn : 1 ≤ n) (hb : batch ≠ 0)
    (hsmall : n * |batch| < 9223372036854775808) :
    (replicate S (2 ^ m) true v out0 acc0 batch n).val?
      = some (∑ r ∈ range n.toNat, rot S (2 ^ m) (-((r : Int) * batch)) v) := by
  have habs : |batch| < 9223372036854775808 := by nlinarith [abs_nonneg batch]
  have hb' := abs_lt.mp habs
  have hw : wrapInt (-batch) = -batch := wrapInt_of_small _ (by omega) (by omega)
  have hnat : ((n.toNat : Nat) : Int) = n := by omega
  unfold replicate
  rw [hw, partialTracesSum_spec hS hm1 hm v out0 acc0 (-batch) n hn (by nlinarith [abs_pos.mpr hb])
    (by omega)]
  congr 1
  apply Finset.sum_congr rfl
  intro r _
  congr 1; ring

/-- **`innerSum_spec` for `ckks.Evaluator.InnerSum`**: whenever the call is accepted (no error),
    the result is `Σ_{r<n} rot(r·batch) ct`.  For all `batch, n > 0` with `n·batch < 2^63`. -/
theorem innerSumCKKS_spec (hS : Lawful S (2 ^ m)) (hm1 : 1 ≤ m) (hm : m ≤ 64) (slots : Nat)
    (v out0 acc0 : α) (batch n : Int) (hn : 0 < n) (hb : 0 < batch)
    (hnb : n * batch < 9223372036854775808) :
    ∀ x, (innerSumCKKS S (2 ^ m) slots true v out0 acc0 batch n).val? = some x →
      x = ∑ r ∈ range n.toNat, rot S (2 ^ m) ((r : Int) * batch) v := by
  intro x hx
  have hnat : ((n.toNat : Nat) : Int) = n := by omega
  have hspec := partialTracesSum_spec hS hm1 hm v out0 acc0 batch n (by omega) (by nlinarith) (by omega)
  unfold innerSumCKKS at hx
  simp only at hx
  split at hx
  · simp [Res.val?] at hx
  · split at hx
    · simp [Res.val?] at hx
    · split at hx
      · simp [Res.val?] at hx
      · rw [hspec] at hx; injection hx with hx; exact hx.symm

/-- **`innerSum_spec` for `bgv.Evaluator.InnerSum`** (two rows).  Whenever the call is accepted:
    * if `n·batch` is smaller than the slot count: `Σ_{r<n} rot(r·batch) ct` (row-wise);
    * if `n·batch` equals the slot count and `n > 1`: `u + swap(u)` with
      `u = Σ_{r<n/2} rot(r·batch) ct` and `swap = aut(nthRoot-1)` the row swap — i.e. the sum over
      both rows, the plaintext being read as one vector of `slots` entries. -/
theorem innerSumBGV_spec (hS : Lawful S (2 ^ m)) (hm1 : 1 ≤ m) (hm : m ≤ 64) (slots : Nat)
    (v out0 acc0 : α) (batch n : Int) (hn : 0 < n) (hb : 0 < batch)
    (hnb : n * batch < 9223372036854775808) :
    ∀ x, (innerSumBGV S (2 ^ m) slots true v out0 acc0 batch n).val? = some x →
      x = if n * batch = slots ∧ n ≠ 1 then
            (let u := ∑ r ∈ range (n / 2).toNat, rot S (2 ^ m) ((r : Int) * batch) v
             u + S.aut (2 ^ m - 1) u)
          else ∑ r ∈ range n.toNat, rot S (2 ^ m) ((r : Int) * batch) v := by
  intro x hx
  have hnat : ((n.toNat : Nat) : Int) = n := by omega
  have hw : wrapInt (n * batch) = n * batch :=
    wrapInt_of_small _ (by nlinarith) (by omega)
  have hspec := partialTracesSum_spec hS hm1 hm v out0 acc0 batch n (by omega) (by nlinarith) (by omega)
  unfold innerSumBGV at hx
  simp only [hw] at hx
  rw [if_neg (by omega)] at hx
  by_cases h1 : n * batch > (slots : Int)
  · rw [if_pos h1] at hx; simp [Res.val?] at hx
  · rw [if_neg h1] at hx
    by_cases h2 : (toU64 (n * batch) &&& toU64 (wrapInt (n * batch - 1))) ≠ 0
    · rw [if_pos h2] at hx; simp [Res.val?] at hx
    · rw [if_neg h2] at hx
      by_cases h3 : n * batch = (slots : Int)
      · rw [if_pos h3] at hx
        by_cases h4 : n = 1
        · rw [if_pos h4] at hx
          rw [if_neg (by simp [h4])]
          simp only [Res.val?] at hx
          injection hx with hx
          subst h4
          simp [← hx, rot_zero hS hm1 hm]
        · rw [if_neg h4] at hx
          rw [if_pos ⟨h3, h4⟩]
          have hn2 : 1 ≤ n / 2 := by omega
          have hnat2 : (((n / 2).toNat : Nat) : Int) = n / 2 := by omega
          have hle : n / 2 ≤ n := by omega
          have hspec2 := partialTracesSum_spec hS hm1 hm v out0 acc0 batch (n / 2) hn2 (by nlinarith) (by omega)
          cases hp : partialTracesSum S (2 ^ m) true v out0 acc0 batch (n / 2) with
          | err => rw [hp] at hspec2; simp [Res.val?] at hspec2
          | panic => rw [hp] at hspec2; simp [Res.val?] at hspec2
          | ok u reqs =>
            rw [hp] at hx hspec2
            simp only [Res.val?] at hx hspec2
            injection hspec2 with hu
            injection hx with hx
            rw [← hx, hS.add_eq, hu]
      · rw [if_neg h3] at hx
        rw [if_neg (by tauto)]
        rw [hspec] at hx; injection hx with hx; exact hx.symm

end Lattigo.Proofs.InnerSum
