/-
  Full refinement for `DivFloorByLastModulus{,Many}` / `DivRoundByLastModulus{,Many}` (coefficient
  domain): the limb-level twin (Montgomery constants, lazy values, uint64 wrap) of Model/Scaling.lean
  computes, limb for limb, the residues of the integer quotient.
  Composition of  Proofs/ScalingLimb.lean (limb = residue formula, from MRed_spec/MForm_spec/BRedAdd_spec)
  with            Proofs/ScalingInt.lean  (residue formula = quotient, from Fermat + x − x mod q = q·⌊x/q⌋).
-/
import Lattigo.Proofs.ScalingInt
import Lattigo.Proofs.ScalingLimb

namespace Lattigo.Scaling
open Lattigo Lattigo.Gen

/-- An admissible moduli chain: distinct odd primes below 2^61. -/
structure Chain (qs : List Nat) : Prop where
  prime : ∀ q ∈ qs, Nat.Prime q
  odd   : ∀ q ∈ qs, q % 2 = 1
  small : ∀ q ∈ qs, q < 2 ^ 61
  nodup : qs.Nodup

theorem modulus_eq (qs : List Nat) (i : Nat) (h : i < qs.length) : modulus qs i = qs[i] := by
  unfold modulus
  simp [List.getD_eq_getElem?_getD, h]

theorem modulus_mem (qs : List Nat) (i : Nat) (h : i < qs.length) : modulus qs i ∈ qs := by
  rw [modulus_eq qs i h]; exact List.getElem_mem h

theorem modulus_ne (qs : List Nat) (hnd : qs.Nodup) (i j : Nat) (hi : i < qs.length) (hj : j < qs.length)
    (hij : i ≠ j) : modulus qs i ≠ modulus qs j := by
  rw [modulus_eq qs i hi, modulus_eq qs j hj]
  intro h
  exact hij ((List.Nodup.getElem_inj_iff hnd).mp h)

theorem Chain.not_dvd {qs : List Nat} (hC : Chain qs) (i j : Nat) (hi : i < qs.length) (hj : j < qs.length)
    (hij : i ≠ j) : ¬ modulus qs i ∣ modulus qs j := by
  intro h
  have hpi := hC.prime _ (modulus_mem qs i hi)
  have hpj := hC.prime _ (modulus_mem qs j hj)
  exact modulus_ne qs hC.nodup i j hi hj hij ((Nat.prime_dvd_prime_iff_eq hpi hpj).mp h)

theorem Chain.inv {qs : List Nat} (hC : Chain qs) (i j : Nat) (hi : i < qs.length) (hj : j < qs.length)
    (hij : i ≠ j) :
    (modulus qs j * invMod (modulus qs j) (modulus qs i)) % modulus qs i = 1
    ∧ invMod (modulus qs j) (modulus qs i) < modulus qs i := by
  have hpi := hC.prime _ (modulus_mem qs i hi)
  have hsm := hC.small _ (modulus_mem qs i hi)
  refine ⟨invMod_spec _ _ hpi (by omega) (hC.not_dvd i j hi hj hij), invMod_lt _ _ hpi.pos⟩

theorem row_map_range (n : Nat) (f : Nat → List Nat) (i : Nat) (h : i < n) :
    row ((List.range n).map f) i = f i := by
  unfold row
  simp [List.getD_eq_getElem?_getD, h]

/-- **DivFloorByLastModulus, limb level = integer quotient.**  If the rows of `p0` are the residues of the
integer coefficients `X` then every limb of every output row `i < level` is `⌊x / q_level⌋ mod q_i`. -/
theorem divFloor_limbs (qs : List Nat) (hC : Chain qs) (level : Nat) (hl : level < qs.length)
    (p0 : Rows) (X : List Nat)
    (hrows : ∀ i, i ≤ level → row p0 i = X.map (· % modulus qs i)) :
    divFloor qs level p0 = (List.range level).map fun i => X.map fun x =>
      (x / modulus qs level) % modulus qs i := by
  rw [divFloor_rows qs level p0 X hrows
    (fun i hi => hC.odd _ (modulus_mem qs i (by omega)))
    (fun i hi => (hC.prime _ (modulus_mem qs i (by omega))).one_lt)
    (fun i hi => hC.small _ (modulus_mem qs i (by omega)))
    (fun i hi => (hC.inv i level (by omega) hl (by omega)).1)
    (fun i hi => (hC.inv i level (by omega) hl (by omega)).2)]
  apply List.map_congr_left
  intro i hi
  have hi' : i < level := List.mem_range.mp hi
  apply List.map_congr_left
  intro x _
  exact divFloorRes_spec _ _ _ x (hC.prime _ (modulus_mem qs i (by omega))).pos
    (hC.inv i level (by omega) hl (by omega)).1

/-- **DivRoundByLastModulus, limb level = rounded quotient** `⌊(x + (q_level−1)/2) / q_level⌋ mod q_i`. -/
theorem divRound_limbs (qs : List Nat) (hC : Chain qs) (level : Nat) (hl : level < qs.length)
    (p0 : Rows) (X : List Nat)
    (hrows : ∀ i, i ≤ level → row p0 i = X.map (· % modulus qs i)) :
    divRound qs level p0 = (List.range level).map fun i => X.map fun x =>
      ((x + half (modulus qs level)) / modulus qs level) % modulus qs i := by
  rw [divRound_rows qs level p0 X hrows
    (fun i hi => hC.odd _ (modulus_mem qs i (by omega)))
    (fun i hi => (hC.prime _ (modulus_mem qs i (by omega))).one_lt)
    (fun i hi => hC.small _ (modulus_mem qs i (by omega)))
    (fun i hi => (hC.inv i level (by omega) hl (by omega)).1)
    (fun i hi => (hC.inv i level (by omega) hl (by omega)).2)]
  apply List.map_congr_left
  intro i hi
  have hi' : i < level := List.mem_range.mp hi
  apply List.map_congr_left
  intro x _
  have h := divFloorRes_spec (modulus qs i) (modulus qs level)
    (invMod (modulus qs level) (modulus qs i)) (x + half (modulus qs level))
    (hC.prime _ (modulus_mem qs i (by omega))).pos (hC.inv i level (by omega) hl (by omega)).1
  rw [← h]
  congr 1
  · exact (Nat.add_mod _ _ _).symm
  · simp [Nat.add_mod]

/-- the product of the `nb` moduli `q_level, q_{level-1}, …` that `nb` successive divisions remove -/
def lastProd (qs : List Nat) : Nat → Nat → Nat
  | _, 0 => 1
  | level, nb + 1 => modulus qs level * lastProd qs (level - 1) nb

/-- `nb` successive round-half-up divisions by `q_level, q_{level-1}, …` of an integer -/
def roundSeq (qs : List Nat) : Nat → Nat → Nat → Nat
  | _, 0, x => x
  | level, nb + 1, x => roundSeq qs (level - 1) nb ((x + half (modulus qs level)) / modulus qs level)

/-- **DivFloorByLastModulusMany (iterated part), limb level**: after `nb ≤ level` divisions every limb of row
`i ≤ level − nb` is `⌊x / (q_level ⋯ q_{level−nb+1})⌋ mod q_i`. -/
theorem iterFloor_limbs (qs : List Nat) (hC : Chain qs) :
    ∀ (nb level : Nat) (p0 : Rows) (X : List Nat), level < qs.length → nb ≤ level →
    (∀ i, i ≤ level → row p0 i = X.map (· % modulus qs i)) →
    ∀ i, i ≤ level - nb →
      row (iterFloor qs nb level p0) i = X.map fun x => (x / lastProd qs level nb) % modulus qs i := by
  intro nb
  induction nb with
  | zero =>
    intro level p0 X _ _ hrows i hi
    simp only [iterFloor, lastProd, Nat.div_one]
    exact hrows i (by omega)
  | succ nb ih =>
    intro level p0 X hl hnb hrows i hi
    simp only [iterFloor, lastProd]
    have hstep := divFloor_limbs qs hC level hl p0 X hrows
    have hrows' : ∀ k, k ≤ level - 1 →
        row (divFloor qs level p0) k = (X.map (· / modulus qs level)).map (· % modulus qs k) := by
      intro k hk
      rw [hstep, row_map_range level _ k (by omega), List.map_map]
      rfl
    have := ih (level - 1) (divFloor qs level p0) (X.map (· / modulus qs level)) (by omega) (by omega)
      hrows' i (by omega)
    rw [this, List.map_map]
    apply List.map_congr_left
    intro x _
    simp only [Function.comp]
    rw [Nat.div_div_eq_div_mul]

/-- **DivRoundByLastModulusMany (iterated part), limb level**: `nb` successive round-half-up divisions. -/
theorem iterRound_limbs (qs : List Nat) (hC : Chain qs) :
    ∀ (nb level : Nat) (p0 : Rows) (X : List Nat), level < qs.length → nb ≤ level →
    (∀ i, i ≤ level → row p0 i = X.map (· % modulus qs i)) →
    ∀ i, i ≤ level - nb →
      row (iterRound qs nb level p0) i = X.map fun x => roundSeq qs level nb x % modulus qs i := by
  intro nb
  induction nb with
  | zero =>
    intro level p0 X _ _ hrows i hi
    simp only [iterRound, roundSeq]
    exact hrows i (by omega)
  | succ nb ih =>
    intro level p0 X hl hnb hrows i hi
    simp only [iterRound, roundSeq]
    have hstep := divRound_limbs qs hC level hl p0 X hrows
    have hrows' : ∀ k, k ≤ level - 1 →
        row (divRound qs level p0) k
          = (X.map (fun x => (x + half (modulus qs level)) / modulus qs level)).map (· % modulus qs k) := by
      intro k hk
      rw [hstep, row_map_range level _ k (by omega), List.map_map]
      rfl
    have := ih (level - 1) (divRound qs level p0)
      (X.map (fun x => (x + half (modulus qs level)) / modulus qs level)) (by omega) (by omega)
      hrows' i (by omega)
    rw [this, List.map_map]
    rfl

/-- for odd moduli sequential round-half-up is round-half-up by the product -/
theorem roundSeq_eq (qs : List Nat) :
    ∀ (nb level x : Nat), (∀ s, s < nb → modulus qs (level - s) % 2 = 1) →
      roundSeq qs level nb x = (x + half (lastProd qs level nb)) / lastProd qs level nb := by
  intro nb
  induction nb with
  | zero => intro level x _; simp [roundSeq, lastProd, half]
  | succ nb ih =>
    intro level x h
    simp only [roundSeq, lastProd]
    have hrest : ∀ s, s < nb → modulus qs (level - 1 - s) % 2 = 1 := by
      intro s hs
      have := h (s + 1) (by omega)
      rwa [show level - (s + 1) = level - 1 - s by omega] at this
    rw [ih (level - 1) _ hrest]
    have hprod_odd : lastProd qs (level - 1) nb % 2 = 1 := by
      clear ih h
      induction nb generalizing level with
      | zero => simp [lastProd]
      | succ nb ih2 =>
        simp only [lastProd]
        have h0 := hrest 0 (by omega)
        have hr : ∀ s, s < nb → modulus qs (level - 1 - 1 - s) % 2 = 1 := by
          intro s hs
          have := hrest (s + 1) (by omega)
          rwa [show level - 1 - (s + 1) = level - 1 - 1 - s by omega] at this
        have := ih2 (level - 1) hr
        rw [Nat.mul_mod, show level - 1 - 0 = level - 1 by omega] at *
        rw [h0, this]
    exact round_round (modulus qs level) (lastProd qs (level - 1) nb) x hprod_odd

theorem row_take (p : Rows) (n i : Nat) (h : i < n) : row (p.take n) i = row p i := by
  unfold row
  simp [List.getD_eq_getElem?_getD, h]

/-- **DivFloorByLastModulusMany, limb level** (all `nbRescales ≤ level`, including 0): the function does not
panic and every limb of row `i ≤ level − nb` of `p1` is `⌊x / (q_level ⋯ q_{level−nb+1})⌋ mod q_i`. -/
theorem divFloorMany_limbs (qs : List Nat) (hC : Chain qs) (level nb : Nat) (hl : level < qs.length)
    (hnb : nb ≤ level) (p0 : Rows) (X : List Nat)
    (hrows : ∀ i, i ≤ level → row p0 i = X.map (· % modulus qs i)) :
    ∃ p1, divFloorMany qs level nb p0 = some p1 ∧ ∀ i, i ≤ level - nb →
      row p1 i = X.map fun x => (x / lastProd qs level nb) % modulus qs i := by
  unfold divFloorMany
  by_cases h0 : nb = 0
  · subst h0
    refine ⟨p0.take (level + 1), by simp, ?_⟩
    intro i hi
    rw [row_take p0 (level + 1) i (by omega), hrows i (by omega)]
    simp [lastProd]
  · by_cases h1 : nb = 1
    · subst h1
      refine ⟨divFloor qs level p0, by simp, ?_⟩
      exact iterFloor_limbs qs hC 1 level p0 X hl hnb hrows
    · refine ⟨iterFloor qs nb level p0, ?_, iterFloor_limbs qs hC nb level p0 X hl hnb hrows⟩
      simp [h0, h1, Nat.not_lt.mpr hnb]

/-- **DivRoundByLastModulusMany, limb level**: no panic, `p0` untouched, and every limb of row `i ≤ level − nb` of `p1` is the
residue of the `nb`-fold round-half-up quotient. -/
theorem divRoundMany_limbs (qs : List Nat) (hC : Chain qs) (level nb : Nat) (hl : level < qs.length)
    (hnb : nb ≤ level) (p0 : Rows) (X : List Nat)
    (hrows : ∀ i, i ≤ level → row p0 i = X.map (· % modulus qs i)) :
    ∃ p1, divRoundMany qs level nb p0 = some p1 ∧ ∀ i, i ≤ level - nb →
      row p1 i = X.map fun x => roundSeq qs level nb x % modulus qs i := by
  unfold divRoundMany
  by_cases h0 : nb = 0
  · subst h0
    refine ⟨p0.take (level + 1), by simp, ?_⟩
    intro i hi
    simp only [roundSeq]
    rw [row_take p0 (level + 1) i (by omega), hrows i (by omega)]
  · by_cases h1 : nb = 1
    · subst h1
      refine ⟨divRound qs level p0, by simp, ?_⟩
      exact iterRound_limbs qs hC 1 level p0 X hl hnb hrows
    · refine ⟨iterRound qs nb level p0, ?_, iterRound_limbs qs hC nb level p0 X hl hnb hrows⟩
      simp [h0, h1, Nat.not_lt.mpr hnb]

end Lattigo.Scaling
