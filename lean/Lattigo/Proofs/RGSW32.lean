/-
  C20 — the 64-bit accumulator of `externalProduct32Bit` (`acc32`, `slot32` of Model/RGSW.lean):
  it is the exact sum modulo 2^64; followed by `IMForm` it is the Montgomery-domain inner product
  the general path computes PROVIDED the exact sum is below 2^64.
-/
import Lattigo.Model.RGSW
import Mathlib.Data.Nat.ModEq

namespace Lattigo.RGSW
open Lattigo

theorem foldl_acc (rs cs : List Nat) : ∀ (a0 : Nat), a0 < W →
    (List.zip rs cs).foldl (fun a (xy : Nat × Nat) => u64add a (u64mul xy.1 xy.2)) a0
      = (a0 + sum32 rs cs) % W := by
  induction rs generalizing cs with
  | nil => intro a0 h; simp [sum32, Nat.mod_eq_of_lt h]
  | cons r rs ih =>
    intro a0 h
    cases cs with
    | nil => simp [sum32, Nat.mod_eq_of_lt h]
    | cons c cs =>
      simp only [List.zip_cons_cons, List.foldl_cons, sum32]
      rw [ih cs _ (by simp only [u64add]; exact Nat.mod_lt _ (by unfold W; omega))]
      simp only [u64add, u64mul]
      rw [Nat.add_mod a0 (r * c % W) W, Nat.mod_mod]
      rw [Nat.add_mod _ (sum32 rs cs) W, Nat.mod_mod, ← Nat.add_mod a0 (r * c) W,
        ← Nat.add_mod (a0 + r * c) (sum32 rs cs) W, Nat.add_assoc]

/-- the accumulator is the exact sum modulo 2^64 -/
theorem acc32_eq (rs cs : List Nat) : acc32 rs cs = sum32 rs cs % W := by
  cases rs with
  | nil => simp [acc32, sum32]
  | cons r rs =>
    cases cs with
    | nil => simp [acc32, sum32]
    | cons c cs =>
      have h := foldl_acc rs cs (u64mul r c) (by simp only [u64mul]; exact Nat.mod_lt _ (by unfold W; omega))
      simp only [acc32, sum32]
      rw [show (fun (a : Nat) (x : Nat × Nat) => match x with | (x, y) => u64add a (u64mul x y))
            = (fun a (xy : Nat × Nat) => u64add a (u64mul xy.1 xy.2)) from by
              funext a x; cases x; rfl]
      rw [h]
      simp only [u64mul]
      rw [Nat.add_mod, Nat.mod_mod, ← Nat.add_mod]

/-- no wrap: the accumulator IS the sum -/
theorem acc32_of_lt (rs cs : List Nat) (h : sum32 rs cs < W) : acc32 rs cs = sum32 rs cs := by
  rw [acc32_eq, Nat.mod_eq_of_lt h]

/-- the arithmetic of `IMForm` with `2^64` abstracted to any `w > q` -/
theorem imform_arith (w a q m : Nat) (ha : a < w) (hq0 : 0 < q) (hq : q < w) (hm : m < w)
    (hlo : m * q % w = a) :
    let h := m * q / w % w
    let r := (q + w - h % w) % w
    let res := if decide (q ≤ r) = true then (r + w - q % w) % w else r
    res < q ∧ res * w % q = a % q := by
  intro h r res
  have hdm := Nat.div_add_mod (m * q) w
  rw [hlo] at hdm
  have hh' : m * q / w < q := by
    apply Nat.div_lt_of_lt_mul
    exact Nat.mul_lt_mul_of_pos_right hm hq0
  have hhw : m * q / w % w = m * q / w := Nat.mod_eq_of_lt (Nat.lt_trans hh' hq)
  have hh : h < q := by show m * q / w % w < q; rw [hhw]; exact hh'
  have hhdm : w * h + a = m * q := by show w * (m * q / w % w) + a = m * q; rw [hhw]; exact hdm
  have hr : r = q - h := by
    show (q + w - h % w) % w = q - h
    rw [Nat.mod_eq_of_lt (Nat.lt_trans hh hq)]
    have : q + w - h = (q - h) + w := by omega
    rw [this, Nat.add_mod_right, Nat.mod_eq_of_lt (by omega)]
  by_cases h0 : h = 0
  · have hr' : r = q := by rw [hr, h0, Nat.sub_zero]
    have hres : res = 0 := by
      show (if decide (q ≤ r) = true then (r + w - q % w) % w else r) = 0
      rw [hr', if_pos (decide_eq_true (Nat.le_refl q)), Nat.mod_eq_of_lt hq,
        Nat.add_sub_cancel_left, Nat.mod_self]
    rw [hres]
    refine ⟨hq0, ?_⟩
    have : m * q = a := by rw [← hhdm, h0, Nat.mul_zero, Nat.zero_add]
    rw [Nat.zero_mul, Nat.zero_mod, ← this, Nat.mul_mod_left]
  · have hres : res = q - h := by
      show (if decide (q ≤ r) = true then (r + w - q % w) % w else r) = q - h
      have : ¬ (q ≤ r) := by rw [hr]; omega
      rw [if_neg (by simpa using this), hr]
    rw [hres]
    refine ⟨by omega, ?_⟩
    have key : (q - h) * w + m * q = q * w + a := by
      have e1 : (q - h) * w = q * w - h * w := Nat.sub_mul q h w
      have hle : h * w ≤ q * w := Nat.mul_le_mul_right w (Nat.le_of_lt hh)
      rw [e1, ← hhdm, Nat.mul_comm w h]
      generalize h * w = B at *
      generalize q * w = A at *
      omega
    calc (q - h) * w % q = ((q - h) * w + m * q) % q := by rw [Nat.add_mul_mod_self_right]
      _ = (q * w + a) % q := by rw [key]
      _ = a % q := by rw [Nat.add_comm, Nat.add_mul_mod_self_left]

/-- `IMForm(a) · 2^64 ≡ a (mod q)` and `IMForm(a) < q`, for every `a < 2^64`, given the Montgomery
    constant `q·mrc ≡ 1 (mod 2^64)` (`GenMRedConstant`). -/
theorem imform_spec (a q mrc : Nat) (ha : a < W) (hq0 : 0 < q) (hq : q < W)
    (hmrc : q * mrc % W = 1) :
    Gen.IMForm a q mrc < q ∧ Gen.IMForm a q mrc * W % q = a % q := by
  have hWpos : 0 < W := Nat.lt_of_le_of_lt (Nat.zero_le _) hq
  have hm : a * mrc % W < W := Nat.mod_lt _ hWpos
  have hlo : (a * mrc % W) * q % W = a := by
    rw [Nat.mod_mul_mod, Nat.mul_assoc, Nat.mul_comm mrc q, Nat.mul_mod, hmrc,
      Nat.mul_one, Nat.mod_mod, Nat.mod_eq_of_lt ha]
  exact imform_arith W a q (a * mrc % W) ha hq0 hq hm hlo

/-- `path_eq`, slot level: if the exact sum of the `2·⌈log q / w⌉` products fits 64 bits, the 32-bit
    path returns THE value `y < q` with `y·2^64 ≡ Σ_k r_k c_k (mod q)` — which is what the general path
    (`Σ_k MRed(r_k, c_k) mod q`) returns. -/
theorem slot32_unique (q mrc : Nat) (rs cs : List Nat) (hq1 : 1 < q) (hq : q < W)
    (hodd : Nat.gcd q W = 1) (hmrc : q * mrc % W = 1) (hsum : sum32 rs cs < W)
    (y : Nat) (hy : y < q) (hyspec : y * W % q = sum32 rs cs % q) :
    slot32 q mrc rs cs = y := by
  have hs := imform_spec (sum32 rs cs) q mrc hsum (by omega) hq hmrc
  simp only [slot32, acc32_of_lt rs cs hsum]
  have hmod : Gen.IMForm (sum32 rs cs) q mrc * W ≡ y * W [MOD q] := by
    unfold Nat.ModEq; rw [hs.2, hyspec]
  have := Nat.ModEq.cancel_right_of_coprime hodd hmod
  unfold Nat.ModEq at this
  rwa [Nat.mod_eq_of_lt hs.1, Nat.mod_eq_of_lt hy] at this

/-- the exact sum is bounded by `#terms · R · C` -/
theorem sum32_le (R C : Nat) : ∀ (rs cs : List Nat), (∀ r ∈ rs, r ≤ R) → (∀ c ∈ cs, c ≤ C) →
    sum32 rs cs ≤ rs.length * (R * C)
  | [], _, _, _ => by simp [sum32]
  | _ :: _, [], _, _ => by simp [sum32]
  | r :: rs, c :: cs, hr, hc => by
      have ih := sum32_le R C rs cs (fun x hx => hr x (List.mem_cons_of_mem _ hx))
        (fun x hx => hc x (List.mem_cons_of_mem _ hx))
      have h1 : r * c ≤ R * C := Nat.mul_le_mul (hr r List.mem_cons_self) (hc c List.mem_cons_self)
      simp only [sum32, List.length_cons]
      calc r * c + sum32 rs cs ≤ R * C + rs.length * (R * C) := Nat.add_le_add h1 ih
        _ = (rs.length + 1) * (R * C) := by rw [Nat.add_mul, Nat.one_mul, Nat.add_comm]

/-- the guard `acc32BitFits(q, d)` of the 32-bit path makes its accumulation exact: with at most `2d` terms,
    stored values `≤ q − 1` and transformed digits `≤ 6q − 2`, the exact sum is below `2^64` -/
theorem acc32Fits_no_wrap (q d : Nat) (hfit : acc32Fits q d = true) (rs cs : List Nat)
    (hlen : rs.length ≤ 2 * d) (hr : ∀ r ∈ rs, r ≤ q - 1) (hc : ∀ c ∈ cs, c ≤ 6 * q - 2) :
    sum32 rs cs < W := by
  simp only [acc32Fits, Bool.and_eq_true, beq_iff_eq, decide_eq_true_eq] at hfit
  obtain ⟨⟨_, _⟩, h2d⟩ := hfit
  have hle := sum32_le (q - 1) (6 * q - 2) rs cs hr hc
  have h1 : rs.length * ((q - 1) * (6 * q - 2)) ≤ 2 * d * ((q - 1) * (6 * q - 2)) :=
    Nat.mul_le_mul_right _ hlen
  have h2 : 2 * d * ((q - 1) * (6 * q - 2)) ≤ (W - 1) / ((q - 1) * (6 * q - 2)) * ((q - 1) * (6 * q - 2)) :=
    Nat.mul_le_mul_right _ h2d
  have h3 : (W - 1) / ((q - 1) * (6 * q - 2)) * ((q - 1) * (6 * q - 2)) ≤ W - 1 := Nat.div_mul_le_self _ _
  have hW : 0 < W := by unfold W; omega
  omega

end Lattigo.RGSW
