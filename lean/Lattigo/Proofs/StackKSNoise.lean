/-
  Stack closure, part 6: ingredients of the CLOSED noise bound of key switching.

  * `decomposeZ`               — the signed coefficient lists behind the digits: `KS.decompose = map (map ofInts) decomposeZ`
                                 (`decompose_eq_ofInts`), all of length `n` (`decomposeZ_length`);
  * `partP_hom`, `partP_constQ`, `constQ_P_zero` — the reduction `R_{QP} → R_P` preserves `+ − *`, and `P = 0` there;
  * `ofInts_eq_zero_dvd`, `prodN_dvd_int`         — a coefficient list that reduces to `0` modulo every `p_k` is
                                 divisible by `P = Π p_k` (pairwise coprime);
  * `digitsBounded_decomposeZ_*` — the digit magnitudes, from `Props/C04Noise`'s `centerSingle`/`bitDigit` bounds.
-/
import Lattigo.Proofs.StackKSZ
import Lattigo.Proofs.StackKSGadget

set_option linter.unusedSectionVars false

namespace Lattigo.StackKS
open Lattigo Lattigo.RPolyRing Lattigo.Transport Lattigo.Scaling Lattigo.BasisExt Lattigo.KS Lattigo.ZPoly

/-! ## the integer digits -/

/-- signed coefficients of the RNS digit `i` (`DecomposeAndSplit`, both branches) -/
def decomposeRNSZ (nbPi i : ℕ) (c : RPoly) : List ℤ :=
  if dLvl c.qs.length nbPi i < 0 then
    (c.c.getD (i * nbPi) []).map fun x => centerSingle (c.qs.getD (i * nbPi) 1) x
  else
    (List.range (c.c.headD []).length).map fun t =>
      centerHalf ((c.qs.drop (i * nbPi)).take (min (i * nbPi + nbPi) (c.qs.length - 1 + 1) - i * nbPi))
        (colOf ((c.c.drop (i * nbPi)).take (min (i * nbPi + nbPi) (c.qs.length - 1 + 1) - i * nbPi)) t)

theorem decomposeRNS_eq (ps : List ℕ) (nbPi i : ℕ) (c : RPoly) :
    decomposeRNS ps nbPi i c = RPoly.ofInts (c.qs ++ ps) (decomposeRNSZ nbPi i c) := by
  rw [decomposeRNS_unfold]
  unfold decomposeRNSZ
  split <;> rfl

/-- coefficients of the base-`2^w` digit `j` of row `i` -/
def decomposeBitsZ (w i j : ℕ) (c : RPoly) : List ℤ := (c.c.getD i []).map fun x => ((bitDigit w j x : ℕ) : ℤ)

theorem decomposeBits_eq (ps : List ℕ) (w i j : ℕ) (c : RPoly) :
    decomposeBits ps w i j c = RPoly.ofInts (c.qs ++ ps) (decomposeBitsZ w i j c) := rfl

/-- the integer digit matrix of `KS.decompose` (`nP = #ps`) -/
def decomposeZ (nP w : ℕ) (nJ : List ℕ) (c : RPoly) : List (List (List ℤ)) :=
  if nP ≥ 2 then
    (List.range (baseRNSDecompositionVectorSize (c.qs.length - 1) nP)).map fun i => [decomposeRNSZ nP i c]
  else
    (List.range (c.qs.length - 1 + 1)).map fun i =>
      if 2 ^ w - 1 = 0 then List.replicate (nJ.getD i 0) (decomposeRNSZ 1 i c)
      else (List.range (nJ.getD i 0)).map fun j => decomposeBitsZ w i j c

/-- **the digits are the reductions of `decomposeZ`** -/
theorem decompose_eq_ofInts (ps : List ℕ) (w : ℕ) (nJ : List ℕ) (c : RPoly) :
    decompose ps w nJ c = (decomposeZ ps.length w nJ c).map (List.map (RPoly.ofInts (c.qs ++ ps))) := by
  unfold decompose decomposeZ
  simp only []
  split
  · rw [List.map_map]
    apply List.map_congr_left
    intro i _
    simp only [Function.comp, List.map_cons, List.map_nil, decomposeRNS_eq]
  · rw [List.map_map]
    apply List.map_congr_left
    intro i _
    simp only [Function.comp]
    split
    · rw [List.map_replicate, decomposeRNS_eq]
    · rw [List.map_map]
      apply List.map_congr_left
      intro j _
      simp only [Function.comp, decomposeBits_eq]

section lengths
variable {qs : List ℕ} {n : ℕ}

theorem decomposeRNSZ_length (nbPi i : ℕ) {c : RPoly} (hc : WFq qs n c) (hi : i * nbPi < qs.length) :
    (decomposeRNSZ nbPi i c).length = n := by
  have hqs : qs ≠ [] := by intro h; rw [h] at hi; exact absurd hi (Nat.not_lt_zero _)
  unfold decomposeRNSZ
  split
  · rw [List.length_map]
    exact (hc.2.2 (i * nbPi) (by rw [hc.1]; exact hi)).len
  · rw [List.length_map, List.length_range]
    exact headD_length hc hqs

theorem decomposeBitsZ_length (w i j : ℕ) {c : RPoly} (hc : WFq qs n c) (hi : i < qs.length) :
    (decomposeBitsZ w i j c).length = n := by
  unfold decomposeBitsZ
  rw [List.length_map]
  exact (hc.2.2 i (by rw [hc.1]; exact hi)).len

theorem decomposeZ_length (hqs : qs ≠ []) (nP w : ℕ) (nJ : List ℕ) {c : RPoly} (hc : WFq qs n c) :
    ∀ r ∈ decomposeZ nP w nJ c, ∀ d ∈ r, d.length = n := by
  have hlen : 0 < qs.length := List.length_pos_of_ne_nil hqs
  intro r hr d hd
  unfold decomposeZ at hr
  simp only [hc.1] at hr
  split at hr
  · rename_i hnP
    simp only [List.mem_map, List.mem_range] at hr
    obtain ⟨i, hi, rfl⟩ := hr
    simp only [List.mem_singleton] at hd
    subst hd
    refine decomposeRNSZ_length _ i hc ?_
    unfold baseRNSDecompositionVectorSize at hi
    rw [if_neg (by omega)] at hi
    have := (Nat.le_div_iff_mul_le (by omega : 0 < nP)).mp (Nat.succ_le_of_lt hi)
    rw [Nat.succ_mul] at this
    omega
  · simp only [List.mem_map, List.mem_range] at hr
    obtain ⟨i, hi, rfl⟩ := hr
    split at hd
    · rw [List.mem_replicate] at hd
      rw [hd.2]
      exact decomposeRNSZ_length 1 i hc (by omega)
    · simp only [List.mem_map, List.mem_range] at hd
      obtain ⟨j, _, rfl⟩ := hd
      exact decomposeBitsZ_length w i j hc (by omega)

end lengths

/-! ## the reduction `R_{QP} → R_P` -/

theorem drop_zip' {α β : Type} : ∀ (k : ℕ) (a : List α) (b : List β), (a.zip b).drop k = (a.drop k).zip (b.drop k)
  | 0, _, _ => by simp
  | _ + 1, [], _ => by simp
  | _ + 1, _ :: _, [] => by simp
  | k + 1, x :: a, y :: b => by simp [drop_zip' k a b]

theorem partP_zipRows (f : ℕ → List ℕ → List ℕ → List ℕ) (k : ℕ) (a b : RPoly) :
    partP k (RPoly.zipRows f a b) = RPoly.zipRows f (partP k a) (partP k b) := by
  simp only [partP, RPoly.zipRows, ← List.map_drop, drop_zip']

theorem partP_mapRows (f : ℕ → List ℕ → List ℕ) (k : ℕ) (a : RPoly) :
    partP k (RPoly.mapRows f a) = RPoly.mapRows f (partP k a) := by
  simp only [partP, RPoly.mapRows, ← List.map_drop, drop_zip']

/-- keeping the rows of `P` preserves `+ * − neg` -/
theorem partP_hom (k : ℕ) : OpsHom (partP k) :=
  ⟨partP_zipRows _ k, partP_zipRows _ k, partP_mapRows _ k, partP_zipRows _ k⟩

theorem partP_constQ (qs ps : List ℕ) (n k : ℕ) :
    partP qs.length (constQ (qs ++ ps) n k) = constQ ps n k := by
  unfold constQ KS.constPoly partP
  rw [zip_map_self, zip_map_self, List.map_append, List.drop_left' (by simp)]
  simp

/-- `P = 0` in `R_P` -/
theorem constQ_P_zero {ps : List ℕ} {n : ℕ} [hg : Good ps n] : constQ ps n (RPoly.prod ps) = RPoly.zero ps n := by
  rw [constQ_eq]
  show val _ = val (0 : WFPoly ps n)
  congr 1
  apply WFPoly.toProd_injective
  funext i
  rw [WFPoly.toProd_constNat, WFPoly.toProd_zero, Pi.zero_apply, ← cast_mod_eq natCast_q_Rq, prod_eq_prodN,
    Nat.mod_eq_zero_of_dvd (dvd_prodN ps _ (List.get_mem ps i)), Nat.cast_zero]

/-! ## divisibility by `P` -/

theorem prodN_dvd_int : ∀ (ps : List ℕ), ps.Pairwise Nat.Coprime → ∀ (w : ℤ), (∀ p ∈ ps, (p : ℤ) ∣ w) →
    (prodN ps : ℤ) ∣ w
  | [], _, w, _ => by simp [prodN]
  | p :: ps, hc, w, h => by
    rcases List.pairwise_cons.mp hc with ⟨hcp, hcl⟩
    have h1 : (p : ℤ) ∣ w := h p (by simp)
    have h2 : (prodN ps : ℤ) ∣ w := prodN_dvd_int ps hcl w (fun a ha => h a (by simp [ha]))
    have hco : IsCoprime (p : ℤ) (prodN ps : ℤ) := Nat.isCoprime_iff_coprime.mpr (coprime_prodN hcp)
    show ((p * prodN ps : ℕ) : ℤ) ∣ w
    rw [Nat.cast_mul]
    exact hco.mul_dvd h1 h2

theorem ofInts_eq_zero_dvd {ps : List ℕ} {n : ℕ} (hge : ∀ p ∈ ps, 2 ≤ p) (W : List ℤ)
    (h : RPoly.ofInts ps W = RPoly.zero ps n) : ∀ p ∈ ps, ∀ x ∈ W, (p : ℤ) ∣ x := by
  intro p hp x hx
  have hc := congrArg RPoly.c h
  have hrow := (List.map_inj_left.mp hc) p hp
  have hmem : (x % (p : ℤ)).toNat ∈ W.map (fun (x : ℤ) => (x % (p : ℤ)).toNat) := List.mem_map_of_mem hx
  rw [hrow] at hmem
  have h0 : (x % (p : ℤ)).toNat = 0 := List.eq_of_mem_replicate hmem
  have hp2 := hge p hp
  have hnn : 0 ≤ x % (p : ℤ) := Int.emod_nonneg _ (by omega)
  exact Int.dvd_of_emod_eq_zero (by omega)

/-- exact coefficientwise division -/
theorem smul_div (P : ℕ) (W : List ℤ) (h : ∀ x ∈ W, (P : ℤ) ∣ x) :
    ZPoly.smul (P : ℤ) (W.map (· / (P : ℤ))) = W := by
  unfold ZPoly.smul
  rw [List.map_map]
  conv_rhs => rw [← List.map_id W]
  apply List.map_congr_left
  intro x hx
  exact Int.mul_ediv_cancel' (h x hx)

/-! ## small shared algebra -/

theorem two_normInf_le_of {l : List ℤ} {P : ℕ} (h : ∀ c ∈ l, 2 * c.natAbs ≤ P) : 2 * normInf l ≤ P := by
  have : normInf l ≤ P / 2 := normInf_le_iff.mpr (fun x hx => by have := h x hx; omega)
  omega

section alg
variable {qs : List ℕ} {n : ℕ} [Good qs n]

/-- `P⁻¹·P = 1` -/
theorem pinvElt_mul_constQ {ps : List ℕ} (hcop : ∀ q ∈ qs, Nat.Coprime (RPoly.prod ps) q) :
    pinvElt qs ps n * constQ qs n (RPoly.prod ps) = rpOne qs n := by
  have h := hP_closed (qs := qs) (n := n) ps hcop
  obtain ⟨P, hP⟩ := exists_lift _ (constQ_wf (qs := qs) (n := n) (RPoly.prod ps))
  obtain ⟨I, hI⟩ := exists_lift _ (pinvElt_wf (qs := qs) (n := n) ps)
  rw [← hP, ← hI] at h ⊢
  have h' : P * I = 1 := val_injective h
  show val (I * P) = val (1 : WFPoly qs n)
  rw [mul_comm, h']

/-- `P·A = P·B ⟹ A = B` when `P` is invertible -/
theorem cancel_P {P pinv A B : RPoly} (hPw : WFq qs n P) (hpw : WFq qs n pinv) (hA : WFq qs n A)
    (hB : WFq qs n B) (hP : pinv * P = rpOne qs n) (h : P * A = P * B) : A = B := by
  obtain ⟨P, rfl⟩ := exists_lift P hPw
  obtain ⟨pinv, rfl⟩ := exists_lift pinv hpw
  obtain ⟨A, rfl⟩ := exists_lift A hA
  obtain ⟨B, rfl⟩ := exists_lift B hB
  have hP' : pinv * P = 1 := val_injective hP
  have h' : P * A = P * B := val_injective h
  congr 1
  calc A = (pinv * P) * A := by rw [hP', one_mul]
    _ = pinv * (P * A) := by ring
    _ = pinv * (P * B) := by rw [h']
    _ = (pinv * P) * B := by ring
    _ = B := by rw [hP', one_mul]

end alg

/-! ## the digit magnitudes `D_ij` -/

/-- the bound matrix the decomposition parameters fix: `⌈q_i/2⌉` for a single-prime RNS digit (copy branch),
`⌊Q_i/2⌋` for a multi-prime digit (`Q_i` the product of its moduli; HPS branch with the exact index),
`2^w − 1` for a base-`2^w` digit -/
def digitBounds (qs : List ℕ) (nP w : ℕ) (nJ : List ℕ) : List (List ℕ) :=
  if nP ≥ 2 then
    (List.range (baseRNSDecompositionVectorSize (qs.length - 1) nP)).map fun i =>
      [if dLvl qs.length nP i < 0 then (qs.getD (i * nP) 1 + 1) / 2
       else prodN ((qs.drop (i * nP)).take (min (i * nP + nP) (qs.length - 1 + 1) - i * nP)) / 2]
  else
    (List.range (qs.length - 1 + 1)).map fun i =>
      if 2 ^ w - 1 = 0 then List.replicate (nJ.getD i 0) ((qs.getD i 1 + 1) / 2)
      else List.replicate (nJ.getD i 0) (2 ^ w - 1)

theorem forall₂_map_map {α β γ : Type} {R : β → γ → Prop} (f : α → β) (g : α → γ) :
    ∀ l : List α, (∀ x ∈ l, R (f x) (g x)) → List.Forall₂ R (l.map f) (l.map g)
  | [], _ => List.Forall₂.nil
  | a :: l, h => List.Forall₂.cons (h a (by simp)) (forall₂_map_map f g l (fun x hx => h x (by simp [hx])))

theorem forall₂_replicate' {β γ : Type} {R : β → γ → Prop} (b : β) (c : γ) (h : R b c) :
    ∀ k : ℕ, List.Forall₂ R (List.replicate k b) (List.replicate k c)
  | 0 => List.Forall₂.nil
  | k + 1 => List.Forall₂.cons h (forall₂_replicate' b c h k)

theorem normInf_centerSingle (q : ℕ) (row : List ℕ) (h : ∀ x ∈ row, x < q) :
    normInf (row.map fun x => centerSingle q x) ≤ (q + 1) / 2 :=
  normInf_map_le _ _ _ fun x hx => by
    have := h x hx
    unfold centerSingle
    split <;> omega

theorem normInf_bits (w j : ℕ) (row : List ℕ) :
    normInf (row.map fun x => ((bitDigit w j x : ℕ) : ℤ)) ≤ 2 ^ w - 1 :=
  normInf_map_le _ _ _ fun x _ => by
    have := bitDigit_lt w j x
    omega

section bounds
variable {qs : List ℕ} {n : ℕ} [hg : Good qs n]

theorem row_lt {c : RPoly} (hc : WFq qs n c) (k : ℕ) (hk : k < qs.length) :
    ∀ x ∈ c.c.getD k [], x < c.qs.getD k 1 := by
  have hw := hc.2.2 k (by rw [hc.1]; exact hk)
  have e : c.qs[k]'(by rw [hc.1]; exact hk) = c.qs.getD k 1 := by
    simp [List.getD_eq_getElem?_getD, hc.1, hk]
  rw [e] at hw
  exact hw.lt

/-- **the digits `decompose` produces respect `digitBounds`** — for a key with several special primes under the named
IEEE hypothesis on the blocks of the multi-prime digits (`FloatExactPoly (block …)`); for at most one special prime
(RNS digits of one prime, base-`2^w` digits) unconditionally. -/
theorem digitsBounded_decomposeZ (hqs : qs ≠ []) (hco : qs.Pairwise Nat.Coprime) (hodd : ∀ q ∈ qs, q % 2 = 1)
    (nP w : ℕ) (nJ : List ℕ) {c : RPoly} (hc : WFq qs n c)
    (hf : nP ≥ 2 → ∀ i, ¬ dLvl qs.length nP i < 0 →
      FloatExactPoly (block (i * nP) (min (i * nP + nP) (qs.length - 1 + 1) - i * nP) c)) :
    DigitsBounded n (decomposeZ nP w nJ c) (digitBounds qs nP w nJ) := by
  have hlen : 0 < qs.length := List.length_pos_of_ne_nil hqs
  unfold DigitsBounded decomposeZ digitBounds
  simp only [hc.1]
  split
  · rename_i hnP
    refine forall₂_map_map _ _ _ (fun i hi => ?_)
    have hi' := List.mem_range.mp hi
    have hst : i * nP < qs.length := by
      unfold baseRNSDecompositionVectorSize at hi'
      rw [if_neg (by omega)] at hi'
      have := (Nat.le_div_iff_mul_le (by omega : 0 < nP)).mp (Nat.succ_le_of_lt hi')
      rw [Nat.succ_mul] at this
      omega
    refine List.Forall₂.cons ⟨Nat.le_of_eq (decomposeRNSZ_length nP i hc hst), ?_⟩ List.Forall₂.nil
    unfold decomposeRNSZ
    rw [hc.1]
    by_cases hneg : dLvl qs.length nP i < 0
    · rw [if_pos hneg, if_pos hneg]
      have := normInf_centerSingle (qs.getD (i * nP) 1) (c.c.getD (i * nP) []) (by
        have := row_lt hc (i * nP) hst; rw [hc.1] at this; exact this)
      exact this
    · rw [if_neg hneg, if_neg hneg]
      set st := i * nP with hstd
      set len := min (st + nP) (qs.length - 1 + 1) - st with hlend
      have hb : WFq ((qs.drop st).take len) n (block st len c) := block_wf hc st len
      have hbne : (qs.drop st).take len ≠ [] := by
        intro h
        have := congrArg List.length h
        simp only [List.length_take, List.length_drop, List.length_nil] at this
        omega
      have hsub := sublist_drop_take qs st len
      have hbco : ((qs.drop st).take len).Pairwise Nat.Coprime := hco.sublist hsub
      have hbge : ∀ p ∈ (qs.drop st).take len, 2 ≤ p := fun p hp => hg.q_ge p (hsub.subset hp)
      have hbodd : prodN ((qs.drop st).take len) % 2 = 1 :=
        Scaling.prodN_odd _ (fun p hp => hodd p (hsub.subset hp))
      have hbn : ((block st len c).c.headD []).length = n := headD_length hb hbne
      have hn : (c.c.headD []).length = n := headD_length hc hqs
      have hv : ((List.range (c.c.headD []).length).map fun t =>
            centerHalf ((qs.drop st).take len) (colOf ((c.c.drop st).take len) t))
          = remZ (block st len c) := by
        unfold remZ
        rw [hbn, hn]
        have : (block st len c).qs = (qs.drop st).take len := by simp [block, hc.1]
        rw [this]
        rfl
      rw [hv]
      have hbd := remZ_bound hb hbco hbge hbodd (hf hnP i hneg)
      rw [ZPoly.normInf_le_iff]
      intro x hx
      have := hbd x hx
      omega
  · refine forall₂_map_map _ _ _ (fun i hi => ?_)
    have hi' : i < qs.length := by have := List.mem_range.mp hi; omega
    split
    · refine forall₂_replicate' _ _ ⟨Nat.le_of_eq (decomposeRNSZ_length 1 i hc (by omega)), ?_⟩ _
      unfold decomposeRNSZ
      have hneg : dLvl c.qs.length 1 i < 0 := by
        unfold dLvl; split <;> simp [Nat.mod_one]
      rw [if_pos hneg, Nat.mul_one, hc.1]
      exact normInf_centerSingle _ _ (by have := row_lt hc i hi'; rw [hc.1] at this; exact this)
    · have : List.replicate (nJ.getD i 0) (2 ^ w - 1) = (List.range (nJ.getD i 0)).map fun _ => 2 ^ w - 1 := by
        rw [List.map_const', List.length_range]
      rw [this]
      refine forall₂_map_map _ _ _ (fun j _ => ⟨Nat.le_of_eq (decomposeBitsZ_length w i j hc hi'), ?_⟩)
      exact normInf_bits w j _

end bounds

end Lattigo.StackKS
