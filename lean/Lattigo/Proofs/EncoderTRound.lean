/-
  Integer encoder (schemes/bgv/encoder.go), closing the named gaps of `Proofs/EncoderT.lean`:

  * `nttStd_inttStd`      NTT ∘ INTT = id on reduced vectors over Z_t (the direction the decoder needs),
                          derived from C01's `inttStd_nttStd` (INTT ∘ NTT = id) by finiteness: an
                          injective self-map of the finite set of reduced vectors is surjective;
  * `modExp_fermat`       `s · ModExp(s, t−2, t) ≡ 1 (mod t)` for prime `t < 2^64`, `t ∤ s`;
  * `decode_encode_T_valid`  `DecodeRingT ∘ EncodeRingT = id (mod t)` (uint64 path) with only `Valid T K`
                          and an index table without repetition as hypotheses;
  * `decode_encode_TI_valid` the int64 path (no `Reduce`; residues in `[0, t]`, `t` included);
  * `modInv_spec`, `crt_spec`  `RPoly.modInv` (extended Euclid with fuel `2(log₂ m + 2)`) and `RPoly.crt`;
  * `ringQ2T_ringT2Q`     `RingQ2T ∘ RingT2Q = id` for every level (CRT branches included) and every gap;
  * `decode_encode_*`     `Decoder.Decode ∘ Encoder.Encode` through `R_Q`, batched and coefficient domain.
-/
import Lattigo.Proofs.EncoderT
import Lattigo.Proofs.NTTTables
import Lattigo.Proofs.BasisExtInt
import Mathlib.Data.Set.Finite.List
import Mathlib.Data.List.Perm.Subperm
import Mathlib.Data.Int.GCD
import Mathlib.Tactic.Ring
import Mathlib.Tactic.Linarith

namespace Lattigo.EncoderT
open Lattigo Lattigo.Gen Lattigo.NTT

/-! ### NTT ∘ INTT = id -/

/-- reduced vectors of length `n` over `Z_q` -/
def RedVec (n q : ℕ) : Set (List ℕ) := {l | l.length = n ∧ ∀ x ∈ l, x < q}

theorem redVec_finite (n q : ℕ) : (RedVec n q).Finite := by
  have h : RedVec n q ⊆ (fun l : List (Fin q) => l.map Fin.val) '' {l | l.length = n} := by
    rintro l ⟨hl, hlt⟩
    refine ⟨l.pmap (fun x h => ⟨x, h⟩) hlt, by simp [hl], ?_⟩
    simp only [List.map_pmap]
    simp
  exact ((List.finite_length_eq (Fin q) n).image _).subset h

section
variable {T : Tables} {K : ℕ}

theorem nttStd_length (hT : Valid T K) (a : List ℕ) (hlen : a.length = T.n) :
    (nttStd T a).length = T.n := by
  unfold nttStd nttCoreLazy
  rw [List.length_map, hT.n_eq, log2n_two_pow]
  exact fwdRec_length _ _ _ _ K 0 1 a (by rw [hlen, hT.n_eq])

/-- `nttStd` is a bijection of the reduced vectors of length `n` -/
theorem nttStd_bijOn (hT : Valid T K) : Set.BijOn (nttStd T) (RedVec T.n T.q) (RedVec T.n T.q) := by
  have : Fact T.q.Prime := ⟨hT.prime⟩
  have hmaps : Set.MapsTo (nttStd T) (RedVec T.n T.q) (RedVec T.n T.q) :=
    fun a h => ⟨nttStd_length hT a h.1, (nttStd_cast hT a h.2).2⟩
  have hinj : Set.InjOn (nttStd T) (RedVec T.n T.q) := by
    intro a ha b hb h
    rw [← inttStd_nttStd hT a ha.1 ha.2, ← inttStd_nttStd hT b hb.1 hb.2, h]
  exact (Set.Finite.injOn_iff_bijOn_of_mapsTo (redVec_finite _ _) hmaps).1 hinj

/-- **ntt_intt**: `NTT(INTT(x)) = x` for every `x` of length `N` with entries `< q`; `INTT(x)` is
    again a reduced vector of length `N`. -/
theorem nttStd_inttStd (hT : Valid T K) (x : List ℕ) (hlen : x.length = T.n) (hx : ∀ e ∈ x, e < T.q) :
    nttStd T (inttStd T x) = x ∧ (inttStd T x).length = T.n ∧ ∀ e ∈ inttStd T x, e < T.q := by
  obtain ⟨a, ha, rfl⟩ := (nttStd_bijOn hT).surjOn ⟨hlen, hx⟩
  rw [inttStd_nttStd hT a ha.1 ha.2]
  exact ⟨rfl, ha.1, ha.2⟩

/-- `inttStd`, read in `Z_q`, is the exact inverse network followed by the multiplication by
    `nInv·W⁻¹` (inputs `< 2q`: the lazy range the word-level network accepts); outputs `< q`. -/
theorem inttStd_cast (hT : Valid T K) [Fact T.q.Prime] (a : List ℕ) (ha : ∀ x ∈ a, x < 2 * T.q) :
    (inttStd T a).map (Nat.cast : ℕ → ZMod T.q)
      = (invZ (rho T.q T.rootsB) K 1 (a.map (Nat.cast : ℕ → ZMod T.q))).map
          (fun z => z * (T.nInv : ZMod T.q) * (W : ZMod T.q)⁻¹)
    ∧ ∀ y ∈ inttStd T a, y < T.q := by
  have h8 := hT.h8
  have h6 : 6 * T.q ≤ W := by omega
  have e : inttCoreLazy T a = invRec T.rootsB T.q T.qinv K 1 a := by
    unfold inttCoreLazy; rw [hT.n_eq, log2n_two_pow]
  obtain ⟨_, hilt⟩ := invRec_ok T.rootsB T.q T.qinv h6 hT.mont hT.rootsB_lt K 1 _ ha
  have hic := invRec_cast T.rootsB T.qinv h6 hT.mont hT.rootsB_lt K 1 _ ha
  constructor
  · unfold inttStd
    rw [List.map_map]
    have hstep : ∀ x ∈ invRec T.rootsB T.q T.qinv K 1 a,
        ((Nat.cast : ℕ → ZMod T.q) ∘ fun x => MRed x T.nInv T.q T.qinv) x
          = ((fun z : ZMod T.q => z * (T.nInv : ZMod T.q) * (W : ZMod T.q)⁻¹) ∘ (Nat.cast : ℕ → ZMod T.q)) x := by
      intro x hx
      have hxW : x < W := by have := hilt x hx; omega
      exact MRed_cast x T.nInv T.qinv (by omega) hT.mont
        (by rw [Nat.mul_comm T.q W]; exact Nat.mul_lt_mul'' hxW hT.nInv_lt)
    rw [e, List.map_congr_left hstep, ← List.map_map, hic]
  · intro y hy
    unfold inttStd at hy
    rw [List.mem_map] at hy
    obtain ⟨x, hx, rfl⟩ := hy
    rw [e] at hx
    have hxW : x < W := by have := hilt x hx; omega
    exact (MRed_spec x T.nInv T.q T.qinv (by omega) hT.mont
      (by rw [Nat.mul_comm T.q W]; exact Nat.mul_lt_mul'' hxW hT.nInv_lt)).2

/-- `INTT` of a lazy vector (entries `< 2q`) equals `INTT` of its reduction -/
theorem inttStd_mod (hT : Valid T K) (a : List ℕ) (ha : ∀ x ∈ a, x < 2 * T.q) :
    inttStd T a = inttStd T (a.map (· % T.q)) := by
  have : Fact T.q.Prime := ⟨hT.prime⟩
  have hq := hT.q_pos
  have ha' : ∀ x ∈ a.map (· % T.q), x < 2 * T.q := by
    intro x hx
    rw [List.mem_map] at hx
    obtain ⟨y, _, rfl⟩ := hx
    have := Nat.mod_lt y hq; omega
  obtain ⟨h1, h1lt⟩ := inttStd_cast hT a ha
  obtain ⟨h2, h2lt⟩ := inttStd_cast hT _ ha'
  apply map_cast_inj (q := T.q) _ _ h1lt h2lt
  rw [h1, h2, List.map_map]
  congr 2
  apply List.map_congr_left
  intro x _
  simp only [Function.comp]
  exact (ZMod.natCast_mod x T.q).symm

end

/-! ### the Fermat inverse `ring.ModExp(scale, t − 2, t)` -/

/-- **modExp_fermat**: for a prime `t < 2^64` (so that the 64 rounds of `ModExp` consume the whole
    exponent) and `t ∤ s`, `s · ModExp(s, t−2, t) ≡ 1 (mod t)`. -/
theorem modExp_fermat (t s : ℕ) (ht : t.Prime) (h64 : t < 2 ^ 64) (hs : ¬ t ∣ s) :
    s * NTT.modExp s (t - 2) t % t = 1 := by
  rw [modExp_spec s (t - 2) t ht.pos (by omega), Nat.mul_mod_mod, ← pow_succ']
  have h2 : t - 2 + 1 = t - 1 := by have := ht.two_le; omega
  have hc : Nat.Coprime s t := ((Nat.Prime.coprime_iff_not_dvd ht).2 hs).symm
  have := Nat.ModEq.pow_totient hc
  rw [Nat.totient_prime ht] at this
  rw [h2, this, Nat.mod_eq_of_lt ht.one_lt]

theorem scaleInv_spec (t s : ℕ) (ht : t.Prime) (h64 : t < 2 ^ 64) (hs : ¬ t ∣ s) :
    s * scaleInv t s % t = 1 := modExp_fermat t s ht h64 hs

/-! ### DecodeRingT ∘ EncodeRingT, uint64 path, from `Valid` alone -/

/-- **decode_encode_T** (uint64 path) with the transform hypotheses discharged: only `Valid T K`
    (prime modulus, `8t ≤ 2^64`, Montgomery/Barrett constants, consistent tables), an index table
    without repetition and a scale not divisible by `t` remain. -/
theorem decode_encode_T_valid (T : NTT.Tables) (K : ℕ) (hT : Valid T K) (perm vals buf p : List ℕ)
    (scale len : ℕ) (hperm : perm.Nodup) (hplt : ∀ q ∈ perm, q < T.n) (hbuf : buf.length = T.n)
    (hs : ¬ T.q ∣ scale) (hlen : len ≤ perm.length)
    (henc : encodeRingTU T perm vals scale buf = some p) :
    decodeRingTU T perm scale p len
      = ((vals.map (· % T.q)) ++ List.replicate (perm.length - vals.length) 0).take len := by
  have h8 := hT.h8
  have h64 : T.q < 2 ^ 64 := by unfold W at h8; omega
  have hs' := scaleInv_spec T.q scale hT.prime h64 hs
  unfold encodeRingTU at henc
  by_cases hvl : vals.length > perm.length
  · rw [if_pos hvl] at henc; cases henc
  · rw [if_neg hvl] at henc
    have hvl' : vals.length ≤ perm.length := by omega
    have hx : p = mulScalar T.q scale (NTT.inttStd T (slotsU T.q perm vals buf)) := by
      simp only [Option.some.injEq] at henc; exact henc.symm
    have hxl : (slotsU T.q perm vals buf).length = T.n := by rw [slotsU_length, hbuf]
    have hxlt := slotsU_lt T.q hT.q_pos perm vals buf
    obtain ⟨hntt, _, hlt⟩ := nttStd_inttStd hT _ hxl hxlt
    unfold decodeRingTU
    rw [hx, mulScalar_inv T.q scale _ hs' _ hlt, hntt]
    apply List.ext_getElem
    · simp; omega
    · intro i h1 h2
      have hi : i < perm.length := by simp at h1; omega
      have hil : i < len := by simp at h1; omega
      simp only [List.getElem_map, List.getElem_take]
      rw [slotsU_get T.q perm vals buf hperm (by intro q hq; rw [hbuf]; exact hplt q hq) hvl' i hi]
      by_cases h : i < vals.length
      · rw [dif_pos h, List.getElem_append_left (by simpa using h)]; simp
      · rw [dif_neg h, List.getElem_append_right (by simpa using h)]; simp

/-! ### the int64 path -/

/-- the slot vector the int64 path hands to INTT (NOT reduced: entries may equal `t`, and stale
    buffer content survives at positions outside the index table) -/
def slotsI (perm vals buf : List ℕ) : List ℕ := zeroFill perm vals.length (scatter perm vals buf)

theorem slotsI_length (perm vals buf : List ℕ) : (slotsI perm vals buf).length = buf.length := by
  simp [slotsI, zeroFill, scatter, setAll_length]

theorem slotsI_get (perm vals buf : List ℕ) (hnd : perm.Nodup)
    (hlt : ∀ p ∈ perm, p < buf.length) (hvl : vals.length ≤ perm.length) (i : ℕ) (hi : i < perm.length) :
    (slotsI perm vals buf).getD perm[i] 0 = if h : i < vals.length then vals[i] else 0 := by
  unfold slotsI zeroFill scatter
  by_cases h : i < vals.length
  · rw [dif_pos h]
    have hnot : perm[i] ∉ perm.drop vals.length := by
      intro hm
      obtain ⟨j, hj, hje⟩ := List.getElem_of_mem hm
      rw [List.getElem_drop] at hje
      have := (List.Nodup.getElem_inj_iff hnd).mp hje
      omega
    rw [setAll_getD_of_not_mem _ _ _ _ hnot]
    exact setAll_getD perm vals buf hnd hlt i hi h
  · rw [dif_neg h]
    have hj : i - vals.length < (perm.drop vals.length).length := by simp; omega
    have hpe : perm[i] = (perm.drop vals.length)[i - vals.length] := by
      rw [List.getElem_drop]; congr 1; omega
    rw [hpe]
    have := setAll_getD (perm.drop vals.length) (List.replicate (perm.length - vals.length) 0)
      (setAll perm vals buf) (List.Nodup.sublist (List.drop_sublist _ _) hnd)
      (by intro p hp; simp only [setAll_length]; exact hlt p (List.mem_of_mem_drop hp))
      (i - vals.length) hj (by simp; omega)
    rw [this]; simp

theorem getD_of_lt (l : List ℕ) (k : ℕ) (h : k < l.length) : l.getD k 0 = l[k] := by
  simp [List.getD_eq_getElem?_getD, h]

/-- a table of `n` pairwise distinct positions `< n` hits every position -/
theorem perm_full (perm : List ℕ) (n : ℕ) (hnd : perm.Nodup) (hlt : ∀ p ∈ perm, p < n)
    (hlen : perm.length = n) (k : ℕ) (hk : k < n) : ∃ i, ∃ h : i < perm.length, perm[i] = k := by
  have hsub : perm ⊆ List.range n := fun p hp => List.mem_range.2 (hlt p hp)
  have hp : perm.Perm (List.range n) :=
    (List.subperm_of_subset hnd hsub).perm_of_length_le (by simp [hlen])
  have : k ∈ perm := hp.mem_iff.2 (List.mem_range.2 hk)
  obtain ⟨i, hi, he⟩ := List.getElem_of_mem this
  exact ⟨i, hi, he⟩

/-- with a FULL index table every position is overwritten: the slot vector is what the uint64 path
    would have produced before its `Reduce`, whatever the buffer held -/
theorem slotsI_mod (t : ℕ) (perm vals buf : List ℕ) (hnd : perm.Nodup)
    (hlt : ∀ p ∈ perm, p < buf.length) (hfull : perm.length = buf.length)
    (hvl : vals.length ≤ perm.length) :
    (slotsI perm vals buf).map (· % t) = slotsU t perm (vals.map (· % t)) buf := by
  apply List.ext_getElem
  · simp [slotsI_length, slotsU_length]
  · intro k h1 h2
    have hk : k < buf.length := by simpa [slotsI_length] using h1
    obtain ⟨i, hi, rfl⟩ := perm_full perm buf.length hnd hlt hfull k hk
    have e1 := slotsI_get perm vals buf hnd hlt hvl i hi
    have e2 := slotsU_get t perm (vals.map (· % t)) buf hnd hlt (by simpa using hvl) i hi
    rw [getD_of_lt _ _ (by simpa [slotsI_length] using hk)] at e1
    rw [getD_of_lt _ _ (by simpa [slotsU_length] using hk)] at e2
    rw [List.getElem_map, e1, e2]
    by_cases h : i < vals.length
    · have h' : i < (vals.map (· % t)).length := by simpa using h
      rw [dif_pos h, dif_pos h']; simp
    · have h' : ¬ i < (vals.map (· % t)).length := by simpa using h
      rw [dif_neg h, dif_neg h']; simp

theorem slotsI_le (t : ℕ) (perm vals buf : List ℕ) (hnd : perm.Nodup)
    (hlt : ∀ p ∈ perm, p < buf.length) (hfull : perm.length = buf.length)
    (hvl : vals.length ≤ perm.length) (hv : ∀ v ∈ vals, v ≤ t) :
    ∀ e ∈ slotsI perm vals buf, e ≤ t := by
  intro e he
  obtain ⟨k, hk, rfl⟩ := List.getElem_of_mem he
  have hk' : k < buf.length := by simpa [slotsI_length] using hk
  obtain ⟨i, hi, rfl⟩ := perm_full perm buf.length hnd hlt hfull k hk'
  have e1 := slotsI_get perm vals buf hnd hlt hvl i hi
  rw [getD_of_lt _ _ hk] at e1
  rw [e1]
  by_cases h : i < vals.length
  · rw [dif_pos h]; exact hv _ (List.getElem_mem h)
  · rw [dif_neg h]; exact Nat.zero_le _

theorem i64Slot_mod (t : ℕ) (c : ℤ) (ht : 0 < t) (hlo : -(2 ^ 63 : ℤ) ≤ c) (hhi : c < (2 ^ 63 : ℤ)) :
    i64Slot t c % t = (c % (t : ℤ)).toNat := by
  have h := (i64Slot_spec t c ht hlo hhi).1
  have h2 : ((i64Slot t c % t : ℕ) : ℤ) = c % (t : ℤ) := by
    rw [Int.natCast_mod]; exact h
  rw [← h2, Int.toNat_natCast]

/-- **decode_encode_T, int64 path**: for every vector of Go `int64` values no longer than the slot
    count, every FULL index table (as `permuteMatrix` produces), every scale not divisible by `t` and
    any stale buffer content, `DecodeRingT(EncodeRingT(v))` read as `[]uint64` is `v mod t` (the
    Euclidean residue in `[0,t)`), zero in the unspecified slots.  The value `t` the sign trick
    produces for negative multiples of `t` is inside the lazy input range of INTT. -/
theorem decode_encode_TI_valid (T : NTT.Tables) (K : ℕ) (hT : Valid T K) (perm buf p : List ℕ)
    (vals : List ℤ) (scale len : ℕ) (hperm : perm.Nodup) (hplt : ∀ q ∈ perm, q < T.n)
    (hfull : perm.length = T.n) (hbuf : buf.length = T.n)
    (hv : ∀ c ∈ vals, -(2 ^ 63 : ℤ) ≤ c ∧ c < (2 ^ 63 : ℤ))
    (hs : ¬ T.q ∣ scale) (hlen : len ≤ perm.length)
    (henc : encodeRingTI T perm vals scale buf = some p) :
    decodeRingTU T perm scale p len
      = ((vals.map fun c => (c % (T.q : ℤ)).toNat) ++ List.replicate (perm.length - vals.length) 0).take len := by
  have hq := hT.q_pos
  unfold encodeRingTI at henc
  by_cases hvl : vals.length > perm.length
  · rw [if_pos hvl] at henc; cases henc
  · rw [if_neg hvl] at henc
    have hvl' : (vals.map (i64Slot T.q)).length ≤ perm.length := by simp; omega
    have hplt' : ∀ q ∈ perm, q < buf.length := by intro q hq; rw [hbuf]; exact hplt q hq
    have hfull' : perm.length = buf.length := by rw [hfull, hbuf]
    have hx : p = mulScalar T.q scale (NTT.inttStd T (slotsI perm (vals.map (i64Slot T.q)) buf)) := by
      simp only [Option.some.injEq] at henc
      rw [← henc]; simp [slotsI]
    have hle := slotsI_le T.q perm (vals.map (i64Slot T.q)) buf hperm hplt' hfull' hvl'
      (by intro v hv'
          rw [List.mem_map] at hv'
          obtain ⟨c, hc, rfl⟩ := hv'
          exact (i64Slot_spec T.q c hq (hv c hc).1 (hv c hc).2).2)
    have hmod := inttStd_mod hT (slotsI perm (vals.map (i64Slot T.q)) buf)
      (by intro x hx; have := hle x hx; omega)
    rw [slotsI_mod T.q perm _ buf hperm hplt' hfull' hvl'] at hmod
    have hvals : (vals.map (i64Slot T.q)).map (· % T.q) = vals.map fun c => (c % (T.q : ℤ)).toNat := by
      rw [List.map_map]
      apply List.map_congr_left
      intro c hc
      exact i64Slot_mod T.q c hq (hv c hc).1 (hv c hc).2
    -- the uint64 path on the reduced residues produces the same polynomial
    have hencU : encodeRingTU T perm ((vals.map (i64Slot T.q)).map (· % T.q)) scale buf = some p := by
      unfold encodeRingTU
      have : ¬ ((vals.map (i64Slot T.q)).map (· % T.q)).length > perm.length := by simp; omega
      rw [if_neg this, hx, hmod]
      simp [slotsU]
    have := decode_encode_T_valid T K hT perm _ buf p scale len hperm hplt hbuf hs hlen hencU
    rw [this, hvals]
    have hmm : (vals.map fun c => (c % (T.q : ℤ)).toNat).map (· % T.q)
        = vals.map fun c => (c % (T.q : ℤ)).toNat := by
      rw [List.map_map]
      apply List.map_congr_left
      intro c _
      simp only [Function.comp]
      apply Nat.mod_eq_of_lt
      have h1 := Int.emod_lt_of_pos c (show (0 : ℤ) < T.q by exact_mod_cast hq)
      have h0 := Int.emod_nonneg c (show (T.q : ℤ) ≠ 0 by exact_mod_cast (Nat.pos_iff_ne_zero.1 hq))
      omega
    rw [hmm]; simp

/-- the centring returns the input itself on `[−(t − ⌊t/2⌋), ⌊t/2⌋)` -/
theorem centerI64_exact (t : ℕ) (c : ℤ) (ht : 0 < t) (hlo : -((t : ℤ) - ((t / 2 : ℕ) : ℤ)) ≤ c)
    (hhi : c < ((t / 2 : ℕ) : ℤ)) : centerI64 t (c % (t : ℤ)).toNat = c := by
  unfold centerI64
  have ht' : (0 : ℤ) < t := by exact_mod_cast ht
  have hh : ((t / 2 : ℕ) : ℤ) ≤ t := by exact_mod_cast Nat.div_le_self t 2
  by_cases hc : 0 ≤ c
  · have : c % (t : ℤ) = c := Int.emod_eq_of_lt hc (by omega)
    rw [this]
    have : ¬ (c.toNat ≥ t / 2) := by omega
    rw [if_neg this]; omega
  · have : c % (t : ℤ) = c + t := by
      rw [← Int.add_mul_emod_self_left c t 1]
      simp only [mul_one]
      exact Int.emod_eq_of_lt (by omega) (by omega)
    rw [this]
    have : (c + t).toNat ≥ t / 2 := by omega
    rw [if_pos this]; omega

/-! ### `RPoly.modInv` (extended Euclid with fuel) -/

theorem egcd_spec (a m : ℤ) : ∀ (f n0 n1 : ℕ) (s0 t0 s1 t1 : ℤ), n1 ≤ n0 → n0 * n1 < 2 ^ f →
    (n0 : ℤ) = s0 * a + t0 * m → (n1 : ℤ) = s1 * a + t1 * m →
    (RPoly.egcd f n0 s0 t0 n1 s1 t1).1 = (Nat.gcd n0 n1 : ℤ)
    ∧ (RPoly.egcd f n0 s0 t0 n1 s1 t1).1
        = (RPoly.egcd f n0 s0 t0 n1 s1 t1).2.1 * a + (RPoly.egcd f n0 s0 t0 n1 s1 t1).2.2 * m := by
  intro f
  induction f with
  | zero =>
    intro n0 n1 s0 t0 s1 t1 hle hlt h0 h1
    have : n1 = 0 := by
      simp only [pow_zero, Nat.lt_one_iff, Nat.mul_eq_zero] at hlt
      rcases hlt with h | h <;> omega
    subst this
    simp [RPoly.egcd, h0]
  | succ f ih =>
    intro n0 n1 s0 t0 s1 t1 hle hlt h0 h1
    unfold RPoly.egcd
    by_cases hz : n1 = 0
    · subst hz; simp [h0]
    · have hb : ((n1 : ℤ) == 0) = false := by
        rw [beq_eq_false_iff_ne]; exact_mod_cast hz
      simp only [hb, Bool.false_eq_true, if_false]
      have hdiv : (n0 : ℤ) / (n1 : ℤ) = ((n0 / n1 : ℕ) : ℤ) := by norm_cast
      have hrem : (n0 : ℤ) - (n0 : ℤ) / (n1 : ℤ) * (n1 : ℤ) = ((n0 % n1 : ℕ) : ℤ) := by
        rw [hdiv]
        have := Nat.div_add_mod n0 n1
        have h' : ((n1 * (n0 / n1) + n0 % n1 : ℕ) : ℤ) = (n0 : ℤ) := by exact_mod_cast this
        push_cast at h' ⊢
        linarith
      rw [hrem]
      have hn1 : 0 < n1 := Nat.pos_of_ne_zero hz
      have hmod : n0 % n1 < n1 := Nat.mod_lt _ hn1
      have hprod : n1 * (n0 % n1) < 2 ^ f := by
        have h1' : n1 + n0 % n1 ≤ n0 := by
          have := Nat.div_add_mod n0 n1
          have hq : 1 ≤ n0 / n1 := Nat.div_pos hle hn1
          nlinarith
        have : 2 * (n1 * (n0 % n1)) ≤ n0 * n1 := by nlinarith
        rw [pow_succ] at hlt
        omega
      have hbz : ((n0 % n1 : ℕ) : ℤ) = (s0 - (n0 : ℤ) / (n1 : ℤ) * s1) * a + (t0 - (n0 : ℤ) / (n1 : ℤ) * t1) * m := by
        rw [← hrem, h0, h1]; ring
      obtain ⟨e1, e2⟩ := ih n1 (n0 % n1) s1 t1 _ _ (le_of_lt hmod) hprod h1 hbz
      refine ⟨?_, e2⟩
      rw [e1, Nat.gcd_comm n0 n1, Nat.gcd_rec n1 n0, Nat.gcd_comm]

theorem modInv_spec (a m : ℕ) (hm : 1 < m) (hc : Nat.Coprime a m) : (a * RPoly.modInv a m) % m = 1 := by
  have hm0 : 0 < m := by omega
  have hlog : m < 2 ^ (Nat.log2 m + 1) := Nat.lt_log2_self
  have ham : a % m < m := Nat.mod_lt _ hm0
  -- first step by hand: (a % m, m) ↦ (m, a % m)
  obtain ⟨F, hF⟩ : ∃ F, 2 * (Nat.log2 m + 2) = F + 1 := ⟨2 * (Nat.log2 m + 2) - 1, by omega⟩
  have hstep : RPoly.egcd (2 * (Nat.log2 m + 2)) ((a % m : ℕ) : ℤ) 1 0 (m : ℤ) 0 1
      = RPoly.egcd F (m : ℤ) 0 1 ((a % m : ℕ) : ℤ) 1 0 := by
    rw [hF]
    have hb : ((m : ℤ) == 0) = false := by rw [beq_eq_false_iff_ne]; exact_mod_cast (by omega : m ≠ 0)
    have hq : ((a % m : ℕ) : ℤ) / (m : ℤ) = 0 := by
      have : ((a % m : ℕ) : ℤ) / (m : ℤ) = ((a % m / m : ℕ) : ℤ) := by norm_cast
      rw [this, Nat.div_eq_of_lt ham]; rfl
    simp only [RPoly.egcd, hb, Bool.false_eq_true, if_false, hq]
    simp
  have hprod : m * (a % m) < 2 ^ F := by
    have h1 : m * (a % m) < 2 ^ (Nat.log2 m + 1) * 2 ^ (Nat.log2 m + 1) :=
      Nat.mul_lt_mul'' hlog (lt_trans ham hlog)
    rw [← pow_add] at h1
    exact lt_of_lt_of_le h1 (Nat.pow_le_pow_right (by decide) (by omega))
  obtain ⟨e1, e2⟩ := egcd_spec ((a % m : ℕ) : ℤ) (m : ℤ) F m (a % m) 0 1 1 0
    (le_of_lt ham) hprod (by ring) (by ring)
  have hg : Nat.gcd m (a % m) = 1 := by
    rw [Nat.gcd_comm, ← Nat.gcd_rec, Nat.gcd_comm]; exact hc
  unfold RPoly.modInv
  rw [hstep]
  generalize RPoly.egcd F (m : ℤ) 0 1 ((a % m : ℕ) : ℤ) 1 0 = R at e1 e2
  obtain ⟨g, s, t⟩ := R
  simp only at e1 e2 ⊢
  rw [hg] at e1
  subst e1
  simp only [Nat.cast_one, beq_self_eq_true, if_true]
  -- 1 = s·(a % m) + t·m
  have hmz : (0 : ℤ) < m := by exact_mod_cast hm0
  have hnn : 0 ≤ s % (m : ℤ) := Int.emod_nonneg _ (ne_of_gt hmz)
  have key : ((a * (s % (m : ℤ)).toNat : ℕ) : ℤ) % (m : ℤ) = 1 % (m : ℤ) := by
    push_cast
    rw [Int.toNat_of_nonneg hnn]
    have h1 : ((a : ℤ) * (s % m)) ≡ ((a % m : ℕ) : ℤ) * s [ZMOD m] :=
      Int.ModEq.mul (by rw [Int.natCast_mod]; exact (Int.mod_modEq _ _).symm) (Int.mod_modEq _ _)
    have h2 : ((a % m : ℕ) : ℤ) * s ≡ 1 [ZMOD m] := by
      have : ((a % m : ℕ) : ℤ) * s = 1 + (-t) * m := by
        have e2' : (1 : ℤ) = s * ((a % m : ℕ) : ℤ) + t * m := by exact_mod_cast e2
        linarith
      rw [this]
      unfold Int.ModEq
      rw [Int.add_mul_emod_self_right]
    exact h1.trans h2
  have h1m : (1 : ℤ) % (m : ℤ) = 1 := Int.emod_eq_of_lt (by norm_num) (by exact_mod_cast hm)
  rw [h1m] at key
  have : ((a * (s % (m : ℤ)).toNat % m : ℕ) : ℤ) = 1 := by rw [Int.natCast_mod]; exact key
  exact_mod_cast this

/-! ### `RPoly.crt` -/

theorem foldl_mul_eq : ∀ (l : List ℕ) (a : ℕ), l.foldl (· * ·) a = a * l.prod
  | [], a => by simp
  | x :: l, a => by rw [List.foldl_cons, foldl_mul_eq l, List.prod_cons, mul_assoc]

theorem rprod_eq (qs : List ℕ) : RPoly.prod qs = qs.prod := by
  unfold RPoly.prod; rw [foldl_mul_eq, one_mul]

theorem rprod_eq_prodN (qs : List ℕ) : RPoly.prod qs = Scaling.prodN qs := by
  rw [rprod_eq, BasisExt.prodN_eq_prod]

theorem foldl_addmod {α : Type} (g : α → ℕ) (Q : ℕ) : ∀ (l : List α) (a : ℕ),
    (l.foldl (fun acc p => (acc + g p) % Q) a) % Q = (a + (l.map g).sum) % Q
  | [], a => by simp
  | p :: l, a => by
    rw [List.foldl_cons, foldl_addmod g Q l, List.map_cons, List.sum_cons, Nat.add_mod, Nat.mod_mod,
      ← Nat.add_mod, add_assoc]

theorem foldl_addmod_lt {α : Type} (g : α → ℕ) (Q : ℕ) (hQ : 0 < Q) : ∀ (l : List α) (a : ℕ), a < Q →
    l.foldl (fun acc p => (acc + g p) % Q) a < Q
  | [], a, h => by simpa using h
  | p :: l, a, _ => by
    rw [List.foldl_cons]; exact foldl_addmod_lt g Q hQ l _ (Nat.mod_lt _ hQ)

/-- the CRT coefficient of `x` at the modulus `q` -/
def crtY (Q x q : ℕ) : ℕ := x % q % q * RPoly.modInv (Q / q % q) q % q

theorem foldl_zip_map {β : Type} (f : ℕ → ℕ) (step : β → ℕ × ℕ → β) : ∀ (l : List ℕ) (a : β),
    (l.zip (l.map f)).foldl step a = l.foldl (fun acc q => step acc (q, f q)) a
  | [], _ => rfl
  | q :: l, a => by simp only [List.map_cons, List.zip_cons_cons, List.foldl_cons]; exact foldl_zip_map f step l _

theorem crt_mod (qs : List ℕ) (x : ℕ) :
    RPoly.crt qs (qs.map (x % ·)) % RPoly.prod qs
      = (qs.map fun q => crtY (RPoly.prod qs) x q * (RPoly.prod qs / q)).sum % RPoly.prod qs := by
  unfold RPoly.crt
  simp only
  rw [foldl_zip_map (x % ·)]
  have := foldl_addmod (fun q => crtY (RPoly.prod qs) x q * (RPoly.prod qs / q)) (RPoly.prod qs) qs 0
  rw [Nat.zero_add] at this
  rw [← this]
  rfl

theorem coprime_prod_div (qs : List ℕ) (hc : qs.Pairwise Nat.Coprime) (hpos : ∀ q ∈ qs, 0 < q) (q : ℕ)
    (hq : q ∈ qs) : Nat.Coprime (qs.prod / q) q := by
  obtain ⟨l1, l2, rfl⟩ := List.append_of_mem hq
  have hq0 : 0 < q := hpos q hq
  rw [List.pairwise_append] at hc
  obtain ⟨_, h2, h12⟩ := hc
  rw [List.pairwise_cons] at h2
  have e : (l1 ++ q :: l2).prod = q * (l1.prod * l2.prod) := by
    rw [List.prod_append, List.prod_cons]; ring
  rw [e, Nat.mul_div_cancel_left _ hq0]
  apply Nat.Coprime.mul_left
  · exact Nat.coprime_list_prod_left_iff.mpr (fun a ha => h12 a ha q List.mem_cons_self)
  · exact Nat.coprime_list_prod_left_iff.mpr (fun a ha => (h2.1 a ha).symm)

/-- **crt_spec**: `RPoly.crt` inverts the residue map on `[0, Q)` for pairwise coprime moduli `> 1` -/
theorem crt_spec (qs : List ℕ) (hc : qs.Pairwise Nat.Coprime) (h1 : ∀ q ∈ qs, 1 < q) (x : ℕ)
    (hx : x < RPoly.prod qs) : RPoly.crt qs (qs.map (x % ·)) = x := by
  have hpos : ∀ q ∈ qs, 0 < q := fun q hq => by have := h1 q hq; omega
  have hQ : 0 < RPoly.prod qs := by omega
  have hlt : RPoly.crt qs (qs.map (x % ·)) < RPoly.prod qs := by
    unfold RPoly.crt
    exact foldl_addmod_lt _ _ hQ _ 0 hQ
  have hmod := crt_mod qs x
  have hF : List.Forall₂ (fun qi yi => (yi * (1 * Scaling.prodN qs / qi)) % qi = x % qi) qs
      (qs.map (crtY (RPoly.prod qs) x)) := by
    rw [List.forall₂_map_right_iff, List.forall₂_same]
    intro q hq
    have hq1 := h1 q hq
    have hcop : Nat.Coprime (RPoly.prod qs / q % q) q := by
      rw [rprod_eq]
      have := coprime_prod_div qs hc hpos q hq
      show Nat.gcd (qs.prod / q % q) q = 1
      rw [← Nat.gcd_rec, Nat.gcd_comm]; exact this
    have hinv := modInv_spec (RPoly.prod qs / q % q) q hq1 hcop
    rw [Nat.one_mul, ← rprod_eq_prodN]
    unfold crtY
    generalize RPoly.modInv (RPoly.prod qs / q % q) q = iv at hinv ⊢
    generalize RPoly.prod qs / q = Qi at hinv ⊢
    have h' : Qi * iv ≡ 1 [MOD q] := by
      unfold Nat.ModEq; rw [← Nat.mod_mul_mod, hinv, Nat.mod_eq_of_lt hq1]
    have h2 : (x % q % q * iv % q) * Qi ≡ x [MOD q] :=
      calc (x % q % q * iv % q) * Qi ≡ (x * iv) * Qi [MOD q] :=
            Nat.ModEq.mul_right _ ((Nat.mod_modEq _ _).trans
              (Nat.ModEq.mul_right _ ((Nat.mod_modEq _ _).trans (Nat.mod_modEq _ _))))
        _ = x * (Qi * iv) := by ring
        _ ≡ x * 1 [MOD q] := Nat.ModEq.mul_left _ h'
        _ = x := mul_one x
    exact h2
  have hme := BasisExt.sumQ_modEq qs _ 1 x hc hpos hF
  rw [Nat.one_mul, ← rprod_eq_prodN] at hme
  have hsum : BasisExt.sumQ (RPoly.prod qs) qs (qs.map (crtY (RPoly.prod qs) x))
      = (qs.map fun q => crtY (RPoly.prod qs) x q * (RPoly.prod qs / q)).sum := by
    unfold BasisExt.sumQ
    rw [List.zipWith_map_right, List.zipWith_self]
    rfl
  rw [hsum] at hme
  unfold Nat.ModEq at hme
  rw [← hmod, Nat.mod_eq_of_lt hlt, Nat.mod_eq_of_lt hx] at hme
  exact hme

/-! ### `RingQ2T ∘ RingT2Q`, every level, every gap -/

/-- `AddScalar(Q/2)`, reduce mod `t`, `SubScalar(Q/2 mod t)` returns a reduced residue when `2(t−1) < Q` -/
theorem half_trick (t Q p : ℕ) (ht : 0 < t) (hp : p < t) (hq : 2 * (t - 1) < Q) :
    ((p + Q / 2) % Q % t + t - Q / 2 % t) % t = p := by
  have h2 : (p + Q / 2) % Q = p + Q / 2 := Nat.mod_eq_of_lt (by omega)
  rw [h2]
  have ha : Q / 2 % t < t := Nat.mod_lt _ ht
  have hb : (p + Q / 2) % t = (p + Q / 2 % t) % t := by
    rw [Nat.add_mod, Nat.mod_eq_of_lt hp]
  rw [hb]
  generalize Q / 2 % t = a at ha ⊢
  by_cases hlt : p + a < t
  · rw [Nat.mod_eq_of_lt hlt]
    have : p + a + t - a = p + t := by omega
    rw [this, Nat.add_mod_right, Nat.mod_eq_of_lt hp]
  · have h3 : (p + a) % t = p + a - t := by
      rw [Nat.mod_eq_sub_mod (by omega), Nat.mod_eq_of_lt (by omega)]
    rw [h3]
    have : p + a - t + t - a = p := by omega
    rw [this, Nat.mod_eq_of_lt hp]

theorem zip_map_self {β γ : Type} (F : ℕ → β) (G : ℕ × β → γ) : ∀ (l : List ℕ),
    (l.zip (l.map F)).map G = l.map fun q => G (q, F q)
  | [] => rfl
  | q :: l => by simp only [List.map_cons, List.zip_cons_cons, zip_map_self F G l]

theorem gapEmbed_length (g N : ℕ) (p : List ℕ) : (gapEmbed g N p).length = N := by simp [gapEmbed]

theorem gapEmbed_get (g N : ℕ) (p : List ℕ) (hg : 0 < g) (j : ℕ) (hj : j * g < N) :
    (gapEmbed g N p).getD (j * g) 0 = p.getD j 0 := by
  unfold gapEmbed
  rw [List.getD_eq_getElem?_getD, List.getElem?_map, List.getElem?_range hj]
  simp [Nat.mul_div_cancel _ hg]

/-- the lift by `T⁻¹ mod Q` followed by the multiplication by `T`, limb by limb, is the reduction -/
theorem tinv_t_cancel (t Q q tinv x : ℕ) (hq : 1 < q) (hdvd : q ∣ Q) (hinv : (t % Q * tinv) % Q = 1) :
    x * (tinv % q) % q * (t % q) % q = x % q := by
  have h1 : (t * tinv) % q = 1 := by
    have := congrArg (· % q) hinv
    simp only [Nat.mod_mod_of_dvd _ hdvd] at this
    rw [← Nat.mod_mul_mod, Nat.mod_mod_of_dvd _ hdvd, Nat.mod_mul_mod] at this
    rw [this, Nat.mod_eq_of_lt hq]
  have h' : tinv * t ≡ 1 [MOD q] := by
    unfold Nat.ModEq; rw [mul_comm, h1, Nat.mod_eq_of_lt hq]
  have h2 : x * (tinv % q) % q * (t % q) ≡ x [MOD q] :=
    calc x * (tinv % q) % q * (t % q) ≡ (x * tinv) * t [MOD q] :=
          Nat.ModEq.mul ((Nat.mod_modEq _ _).trans (Nat.ModEq.mul_left _ (Nat.mod_modEq _ _)))
            (Nat.mod_modEq _ _)
      _ = x * (tinv * t) := by ring
      _ ≡ x * 1 [MOD q] := Nat.ModEq.mul_left _ h'
      _ = x := mul_one x
  exact h2

theorem rprod_gt_one (qs : List ℕ) (hne : qs ≠ []) (h1 : ∀ q ∈ qs, 1 < q) : 1 < RPoly.prod qs := by
  rw [rprod_eq]
  obtain ⟨q, l, rfl⟩ := List.exists_cons_of_ne_nil hne
  rw [List.prod_cons]
  have hq := h1 q List.mem_cons_self
  have hl : 0 < l.prod := by
    rw [← BasisExt.prodN_eq_prod]
    exact BasisExt.prodN_pos l (fun a ha => by have := h1 a (List.mem_cons_of_mem _ ha); omega)
  nlinarith

/-- the rows `RingQ2T` works on after `MulScalar(pQ, T)`: the plain residues of the embedded polynomial -/
theorem rows_eq (qs : List ℕ) (t : ℕ) (e : List ℕ) (hne : qs ≠ []) (h1 : ∀ q ∈ qs, 1 < q)
    (hct : ∀ q ∈ qs, Nat.Coprime t q) :
    ((qs.zip (qs.map fun q => e.map fun x =>
        x * (RPoly.modInv (t % RPoly.prod qs) (RPoly.prod qs) % q) % q)).map
      fun (q, r) => r.map fun x => x * (t % q) % q)
      = qs.map fun q => e.map (· % q) := by
  have hQ1 := rprod_gt_one qs hne h1
  have hcop : Nat.Coprime (t % RPoly.prod qs) (RPoly.prod qs) := by
    show Nat.gcd (t % RPoly.prod qs) (RPoly.prod qs) = 1
    rw [← Nat.gcd_rec, Nat.gcd_comm, rprod_eq]
    exact Nat.coprime_list_prod_right_iff.mpr hct
  have hinv := modInv_spec (t % RPoly.prod qs) (RPoly.prod qs) hQ1 hcop
  rw [zip_map_self]
  apply List.map_congr_left
  intro q hq
  simp only [List.map_map]
  apply List.map_congr_left
  intro x _
  simp only [Function.comp]
  exact tinv_t_cancel t (RPoly.prod qs) q _ x (h1 q hq)
    (by rw [rprod_eq]; exact List.dvd_prod hq) hinv

theorem column_rows (qs e : List ℕ) (k : ℕ) (hk : k < e.length) :
    column (qs.map fun q => e.map (· % q)) k = qs.map (e.getD k 0 % ·) := by
  unfold column
  rw [List.map_map]
  apply List.map_congr_left
  intro q _
  simp only [Function.comp]
  rw [List.getD_eq_getElem?_getD, List.getElem?_map, List.getD_eq_getElem?_getD,
    List.getElem?_eq_getElem hk]
  simp

/-- **RingQ2T ∘ RingT2Q = id** on reduced plaintext polynomials, for every level (one modulus: the
    `AddScalar/Reduce/SubScalar` branch; several moduli: the CRT branches), every gap `g = N/n ≥ 1`.
    Moduli pairwise coprime, `> 1`, coprime to `t`; `2(t−1) < Q`; and, ONLY for the branch
    `level > 0 ∧ gap > 1` (`PolyToBigintCentered`, which centres with `x ≥ Q>>1`), `t ≤ ⌊Q/2⌋`. -/
theorem ringQ2T_ringT2Q (qs : List ℕ) (t n g : ℕ) (p : List ℕ) (hne : qs ≠ [])
    (hc : qs.Pairwise Nat.Coprime) (h1 : ∀ q ∈ qs, 1 < q) (hct : ∀ q ∈ qs, Nat.Coprime t q)
    (ht : 0 < t) (hn : 0 < n) (hg : 0 < g) (hpl : p.length = n) (hp : ∀ e ∈ p, e < t)
    (hQ : 2 * (t - 1) < RPoly.prod qs)
    (hQ' : 1 < qs.length → g ≠ 1 → t ≤ RPoly.prod qs / 2) :
    ringQ2T t n (ringT2Q qs t (n * g) true p) = p := by
  have hgap : n * g / p.length = g := by rw [hpl, Nat.mul_div_cancel_left _ hn]
  have hgap' : n * g / n = g := Nat.mul_div_cancel_left _ hn
  have hel : (gapEmbed g (n * g) p).length = n * g := gapEmbed_length _ _ _
  have hA : ringT2Q qs t (n * g) true p = { qs := qs, c := qs.map fun q => (gapEmbed g (n * g) p).map fun x =>
      x * (RPoly.modInv (t % RPoly.prod qs) (RPoly.prod qs) % q) % q } := by
    unfold ringT2Q
    simp only [hgap, if_true]
  have hhead : ((qs.map fun q => (gapEmbed g (n * g) p).map fun x =>
      x * (RPoly.modInv (t % RPoly.prod qs) (RPoly.prod qs) % q) % q).headD []).length
      = n * g := by
    obtain ⟨q0, l, rfl⟩ := List.exists_cons_of_ne_nil hne
    simp [hel]
  have hpget : ∀ j, j < n → p.getD j 0 < t := by
    intro j hj
    rw [List.getD_eq_getElem?_getD, List.getElem?_eq_getElem (by omega)]
    exact hp _ (List.getElem_mem _)
  have hjg : ∀ j, j < n → j * g < n * g := fun j hj => Nat.mul_lt_mul_of_pos_right hj hg
  have hfin : (List.range n).map (fun j => p.getD j 0) = p := by
    apply List.ext_getElem
    · simp [hpl]
    · intro i h1 h2
      simp [List.getD_eq_getElem?_getD, h2]
  rw [hA]
  unfold ringQ2T
  simp only [hhead, hgap', rows_eq qs t _ hne h1 hct]
  conv_rhs => rw [← hfin]
  split_ifs with hlen hg1
  · -- level > 0, gap = 1
    apply List.map_congr_left
    intro j hj
    have hj' : j < n := List.mem_range.1 hj
    have hjlt : j < (gapEmbed g (n * g) p).length := by rw [hel, hg1]; omega
    have hget : (gapEmbed g (n * g) p).getD j 0 = p.getD j 0 := by
      have h := gapEmbed_get g (n * g) p hg j (hjg j hj')
      have e1 : j * g = j := by rw [hg1, Nat.mul_one]
      rw [e1] at h; exact h
    rw [column_rows qs _ j hjlt, hget, crt_spec qs hc h1 _ (by have := hpget j hj'; omega)]
    exact half_trick t _ _ ht (hpget j hj') hQ
  · -- level > 0, gap > 1
    apply List.map_congr_left
    intro j hj
    have hj' : j < n := List.mem_range.1 hj
    have hjlt : j * g < (gapEmbed g (n * g) p).length := by rw [hel]; exact hjg j hj'
    rw [column_rows qs _ (j * g) hjlt, gapEmbed_get g (n * g) p hg j (hjg j hj'),
      crt_spec qs hc h1 _ (by have := hpget j hj'; omega)]
    have hle := hQ' hlen hg1
    have hpj := hpget j hj'
    have : ¬ (p.getD j 0 ≥ RPoly.prod qs / 2) := by omega
    rw [if_neg this]
    have : ((p.getD j 0 : ℕ) : ℤ) % (t : ℤ) = ((p.getD j 0 : ℕ) : ℤ) :=
      Int.emod_eq_of_lt (by positivity) (by exact_mod_cast hpj)
    rw [this, Int.toNat_natCast]
  · -- level 0
    obtain ⟨q0, l, rfl⟩ := List.exists_cons_of_ne_nil hne
    have hl : l = [] := by
      cases l with
      | nil => rfl
      | cons a l => simp at hlen
    subst hl
    have hprod : RPoly.prod [q0] = q0 := by simp [RPoly.prod]
    rw [hprod] at hQ
    apply List.map_congr_left
    intro j hj
    have hj' : j < n := List.mem_range.1 hj
    have hjlt : j * g < (gapEmbed g (n * g) p).length := by rw [hel]; exact hjg j hj'
    have hpj := hpget j hj'
    simp only [List.map_cons, List.map_nil, List.headD_cons]
    have hx : (List.map (fun x => x % q0) (gapEmbed g (n * g) p)).getD (j * g) 0 = p.getD j 0 := by
      have h := gapEmbed_get g (n * g) p hg j (hjg j hj')
      rw [List.getD_eq_getElem?_getD, List.getElem?_eq_getElem hjlt] at h
      rw [List.getD_eq_getElem?_getD, List.getElem?_map, List.getElem?_eq_getElem hjlt]
      simp only [Option.getD_some, Option.map_some] at h ⊢
      rw [h]; exact Nat.mod_eq_of_lt (by omega)
    rw [hx]
    exact half_trick t q0 _ ht hpj hQ


/-! ### `Decode ∘ Encode` through `R_Q` -/

theorem mulScalar_lt (t s : ℕ) (ht : 0 < t) (a : List ℕ) : ∀ e ∈ mulScalar t s a, e < t := by
  intro e he
  unfold mulScalar at he
  rw [List.mem_map] at he
  obtain ⟨x, _, rfl⟩ := he
  exact Nat.mod_lt _ ht

theorem mulScalar_length (t s : ℕ) (a : List ℕ) : (mulScalar t s a).length = a.length := by
  simp [mulScalar]

/-- `s⁻¹·(s·y) = y mod t` (no reducedness needed) -/
theorem mulScalar_inv_mod (t s si : ℕ) (h : s * si % t = 1) (y : List ℕ) :
    mulScalar t si (mulScalar t s y) = y.map (· % t) := by
  unfold mulScalar
  rw [List.map_map]
  apply List.map_congr_left
  intro e _
  simp only [Function.comp]
  rw [Nat.mod_mul_mod, mul_assoc, Nat.mul_mod, h, mul_one, Nat.mod_mod]

/-- what the theorems below assume about an encoder instance: valid plaintext tables, a full index table,
    ciphertext ring degree `N = n·g`, and a chain `qs` (the moduli at the plaintext's level) of pairwise
    coprime moduli `> 1`, coprime to `t`, with `2(t−1) < Q` (and `t ≤ ⌊Q/2⌋` on the
    `level > 0 ∧ gap > 1` branch). -/
structure ParamsOK (P : Params) (K g : ℕ) : Prop where
  valid : Valid P.T K
  perm_nodup : P.perm.Nodup
  perm_lt : ∀ q ∈ P.perm, q < P.T.n
  perm_full : P.perm.length = P.T.n
  bigN_eq : P.bigN = P.T.n * g
  g_pos : 0 < g
  qs_ne : P.qs ≠ []
  qs_coprime : P.qs.Pairwise Nat.Coprime
  qs_gt : ∀ q ∈ P.qs, 1 < q
  qs_t : ∀ q ∈ P.qs, Nat.Coprime P.T.q q
  hQ : 2 * (P.T.q - 1) < RPoly.prod P.qs
  hQ' : 1 < P.qs.length → g ≠ 1 → P.T.q ≤ RPoly.prod P.qs / 2

theorem ParamsOK.n_pos {P : Params} {K g : ℕ} (h : ParamsOK P K g) : 0 < P.T.n := by
  rw [h.valid.n_eq]; positivity

/-- the round trip through `R_Q` of a reduced plaintext polynomial of length `n` -/
theorem ParamsOK.roundQ {P : Params} {K g : ℕ} (h : ParamsOK P K g) (pT : List ℕ)
    (hl : pT.length = P.T.n) (hlt : ∀ e ∈ pT, e < P.T.q) :
    ringQ2T P.T.q P.T.n (ringT2Q P.qs P.T.q P.bigN true pT) = pT := by
  rw [h.bigN_eq]
  exact ringQ2T_ringT2Q P.qs P.T.q P.T.n g pT h.qs_ne h.qs_coprime h.qs_gt h.qs_t h.valid.q_pos
    h.n_pos h.g_pos hl hlt h.hQ h.hQ'

theorem encodeRingTU_shape (T : NTT.Tables) (K : ℕ) (hT : Valid T K) (perm vals buf p : List ℕ) (scale : ℕ)
    (hbuf : buf.length = T.n) (henc : encodeRingTU T perm vals scale buf = some p) :
    p.length = T.n ∧ ∀ e ∈ p, e < T.q := by
  unfold encodeRingTU at henc
  by_cases hvl : vals.length > perm.length
  · rw [if_pos hvl] at henc; cases henc
  · rw [if_neg hvl] at henc
    simp only [Option.some.injEq] at henc
    subst henc
    have hxl : (slotsU T.q perm vals buf).length = T.n := by rw [slotsU_length, hbuf]
    obtain ⟨_, hl, _⟩ := nttStd_inttStd hT _ hxl (slotsU_lt T.q hT.q_pos perm vals buf)
    refine ⟨?_, mulScalar_lt _ _ hT.q_pos _⟩
    rw [mulScalar_length]; exact hl

theorem encodeRingTI_shape (T : NTT.Tables) (K : ℕ) (hT : Valid T K) (perm buf p : List ℕ) (vals : List ℤ)
    (scale : ℕ) (hperm : perm.Nodup) (hplt : ∀ q ∈ perm, q < T.n) (hfull : perm.length = T.n)
    (hbuf : buf.length = T.n) (hv : ∀ c ∈ vals, -(2 ^ 63 : ℤ) ≤ c ∧ c < (2 ^ 63 : ℤ))
    (henc : encodeRingTI T perm vals scale buf = some p) :
    encodeRingTU T perm ((vals.map (i64Slot T.q)).map (· % T.q)) scale buf = some p := by
  have hq := hT.q_pos
  unfold encodeRingTI at henc
  by_cases hvl : vals.length > perm.length
  · rw [if_pos hvl] at henc; cases henc
  · rw [if_neg hvl] at henc
    have hvl' : (vals.map (i64Slot T.q)).length ≤ perm.length := by simp; omega
    have hplt' : ∀ q ∈ perm, q < buf.length := by intro q hq; rw [hbuf]; exact hplt q hq
    have hfull' : perm.length = buf.length := by rw [hfull, hbuf]
    have hx : p = mulScalar T.q scale (NTT.inttStd T (slotsI perm (vals.map (i64Slot T.q)) buf)) := by
      simp only [Option.some.injEq] at henc
      rw [← henc]; simp [slotsI]
    have hle := slotsI_le T.q perm (vals.map (i64Slot T.q)) buf hperm hplt' hfull' hvl'
      (by intro v hv'
          rw [List.mem_map] at hv'
          obtain ⟨c, hc, rfl⟩ := hv'
          exact (i64Slot_spec T.q c hq (hv c hc).1 (hv c hc).2).2)
    have hmod := inttStd_mod hT (slotsI perm (vals.map (i64Slot T.q)) buf)
      (by intro x hx; have := hle x hx; omega)
    rw [slotsI_mod T.q perm _ buf hperm hplt' hfull' hvl'] at hmod
    unfold encodeRingTU
    have : ¬ ((vals.map (i64Slot T.q)).map (· % T.q)).length > perm.length := by simp; omega
    rw [if_neg this, hx, hmod]
    simp [slotsU]

theorem i64Slot_map_mod (t : ℕ) (ht : 0 < t) (vals : List ℤ)
    (hv : ∀ c ∈ vals, -(2 ^ 63 : ℤ) ≤ c ∧ c < (2 ^ 63 : ℤ)) :
    (vals.map (i64Slot t)).map (· % t) = vals.map fun c => (c % (t : ℤ)).toNat := by
  rw [List.map_map]
  apply List.map_congr_left
  intro c hc
  exact i64Slot_mod t c ht (hv c hc).1 (hv c hc).2

/-- **Decode ∘ Encode, batched, `[]uint64`**: through `EncodeRingT`, `RingT2Q` (lift by `T⁻¹ mod Q`), the
    canonical plaintext polynomial at ANY level, `RingQ2T`, `DecodeRingT`. -/
theorem decode_encode_batched_U (P : Params) (K g : ℕ) (h : ParamsOK P K g) (v : List ℕ) (scale len : ℕ)
    (a : RPoly) (hs : ¬ P.T.q ∣ scale) (hlen : len ≤ P.T.n)
    (henc : encode P true scale (.u v) = some a) :
    decodeU P true scale a len = ((v.map (· % P.T.q)) ++ List.replicate (P.T.n - v.length) 0).take len := by
  unfold encode at henc
  simp only [if_true, Option.map_eq_some_iff] at henc
  obtain ⟨pT, hpT, rfl⟩ := henc
  obtain ⟨hl, hlt⟩ := encodeRingTU_shape P.T K h.valid P.perm v _ pT scale (by simp) hpT
  unfold decodeU
  simp only [if_true]
  rw [h.roundQ pT hl hlt,
    decode_encode_T_valid P.T K h.valid P.perm v _ pT scale len h.perm_nodup h.perm_lt (by simp) hs
      (by rw [h.perm_full]; exact hlen) hpT, h.perm_full]

/-- **Decode ∘ Encode, batched, `[]int64` in, `[]uint64` out** -/
theorem decode_encode_batched_I (P : Params) (K g : ℕ) (h : ParamsOK P K g) (v : List ℤ) (scale len : ℕ)
    (a : RPoly) (hv : ∀ c ∈ v, -(2 ^ 63 : ℤ) ≤ c ∧ c < (2 ^ 63 : ℤ)) (hs : ¬ P.T.q ∣ scale)
    (hlen : len ≤ P.T.n) (henc : encode P true scale (.i v) = some a) :
    decodeU P true scale a len
      = ((v.map fun c => (c % (P.T.q : ℤ)).toNat) ++ List.replicate (P.T.n - v.length) 0).take len := by
  unfold encode at henc
  simp only [if_true, Option.map_eq_some_iff] at henc
  obtain ⟨pT, hpT, rfl⟩ := henc
  have hU := encodeRingTI_shape P.T K h.valid P.perm _ pT v scale h.perm_nodup h.perm_lt h.perm_full
    (by simp) hv hpT
  have := decode_encode_batched_U P K g h ((v.map (i64Slot P.T.q)).map (· % P.T.q)) scale len
    (ringT2Q P.qs P.T.q P.bigN true pT) hs hlen
    (by unfold encode; simp only [if_true]; rw [hU]; rfl)
  rw [this, i64Slot_map_mod P.T.q h.valid.q_pos v hv]
  have hmm : (v.map fun c => (c % (P.T.q : ℤ)).toNat).map (· % P.T.q)
      = v.map fun c => (c % (P.T.q : ℤ)).toNat := by
    rw [List.map_map]
    apply List.map_congr_left
    intro c _
    simp only [Function.comp]
    apply Nat.mod_eq_of_lt
    have hq := h.valid.q_pos
    have h1 := Int.emod_lt_of_pos c (show (0 : ℤ) < P.T.q by exact_mod_cast hq)
    have h0 := Int.emod_nonneg c (show (P.T.q : ℤ) ≠ 0 by exact_mod_cast (Nat.pos_iff_ne_zero.1 hq))
    omega
  rw [hmm]; simp

/-- **Decode ∘ Encode, coefficient domain (`IsBatched = false`), `[]uint64`** -/
theorem decode_encode_coeff_U (P : Params) (K g : ℕ) (h : ParamsOK P K g) (v : List ℕ) (scale len : ℕ)
    (a : RPoly) (hs : ¬ P.T.q ∣ scale) (henc : encode P false scale (.u v) = some a) :
    decodeU P false scale a len = ((v.map (· % P.T.q)) ++ List.replicate (P.T.n - v.length) 0).take len := by
  have h8 := h.valid.h8
  have h64 : P.T.q < 2 ^ 64 := by unfold W at h8; omega
  have hsi := scaleInv_spec P.T.q scale h.valid.prime h64 hs
  unfold encode at henc
  simp only [Bool.false_eq_true, if_false] at henc
  by_cases hvl : v.length > P.T.n
  · simp [hvl] at henc
  · simp only [hvl, if_false, Option.map_some, Option.some.injEq] at henc
    subst henc
    unfold decodeU
    simp only [Bool.false_eq_true, if_false]
    rw [h.roundQ _ (by rw [mulScalar_length]; simp; omega) (mulScalar_lt _ _ h.valid.q_pos _),
      mulScalar_inv_mod _ _ _ hsi]
    simp

/-- **Decode ∘ Encode, coefficient domain, `[]int64` in, `[]uint64` out** -/
theorem decode_encode_coeff_I (P : Params) (K g : ℕ) (h : ParamsOK P K g) (v : List ℤ) (scale len : ℕ)
    (a : RPoly) (hv : ∀ c ∈ v, -(2 ^ 63 : ℤ) ≤ c ∧ c < (2 ^ 63 : ℤ)) (hs : ¬ P.T.q ∣ scale)
    (henc : encode P false scale (.i v) = some a) :
    decodeU P false scale a len
      = ((v.map fun c => (c % (P.T.q : ℤ)).toNat) ++ List.replicate (P.T.n - v.length) 0).take len := by
  have h8 := h.valid.h8
  have h64 : P.T.q < 2 ^ 64 := by unfold W at h8; omega
  have hsi := scaleInv_spec P.T.q scale h.valid.prime h64 hs
  unfold encode at henc
  simp only [Bool.false_eq_true, if_false] at henc
  by_cases hvl : v.length > P.T.n
  · simp [hvl] at henc
  · simp only [hvl, if_false, Option.map_some, Option.some.injEq] at henc
    subst henc
    unfold decodeU
    simp only [Bool.false_eq_true, if_false]
    rw [h.roundQ _ (by rw [mulScalar_length]; simp; omega) (mulScalar_lt _ _ h.valid.q_pos _),
      mulScalar_inv_mod _ _ _ hsi, List.map_append, i64Slot_map_mod P.T.q h.valid.q_pos v hv]
    simp

end Lattigo.EncoderT
