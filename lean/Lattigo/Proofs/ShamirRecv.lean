/-
  C15: receiver independence.  `evalPolyScalarInto` / `genShamirSecretShareInto` (the model with the
  receiver's previous content as an explicit argument, `p2.Copy(p1[last])` kept as a step) do not
  depend on that content when the receiver has the shape of the coefficient polynomials, and equal
  the receiver-free functions the headline theorems are about.
-/
import Lattigo.Proofs.ShamirRun

namespace Lattigo.Proofs.Shamir
open Lattigo.Model.Shamir

theorem copyWords_eq (dst src : List ℕ) (h : dst.length = src.length) : copyWords dst src = src := by
  unfold copyWords
  rw [h, List.take_length, ← h, List.drop_length, List.append_nil]

theorem copyRows_eq_aux : ∀ (dst src : Rows), dst.length = src.length →
    (∀ m, m < src.length → (dst.getD m []).length = (src.getD m []).length) → copyRows dst src = src := by
  intro dst
  induction dst with
  | nil =>
    intro src hl _
    cases src with
    | nil => rfl
    | cons _ _ => simp at hl
  | cons d dst ih =>
    intro src hl hrow
    cases src with
    | nil => simp at hl
    | cons s src =>
      have h0 := hrow 0 (by simp)
      simp only [List.getD_cons_zero] at h0
      have ht := ih src (by simpa using hl) (fun m hm => by
        have := hrow (m + 1) (by simpa using hm)
        simpa only [List.getD_cons_succ] using this)
      unfold copyRows at ht ⊢
      simp only [List.zipWith_cons_cons, List.length_cons, List.drop_succ_cons, List.cons_append]
      rw [copyWords_eq d s h0, ht]

/-- copying into a receiver of the same shape leaves nothing of the receiver. -/
theorem copyRows_eq {nr N : ℕ} (dst src : Rows) (hd : Shaped nr N dst) (hs : Shaped nr N src) :
    copyRows dst src = src :=
  copyRows_eq_aux dst src (by rw [hd.1, hs.1]) (fun m hm => by
    rw [hs.1] at hm
    rw [hd.2 m hm, hs.2 m hm])

/-- **`ring.EvalPolyScalar` does not depend on the receiver's previous content.** -/
theorem evalPolyScalarInto_eq {nr N : ℕ} (ms : List ℕ) (x : ℕ) (polys : List Rows)
    (hsh : ∀ p ∈ polys, Shaped nr N p) (recv : Rows) (hr : Shaped nr N recv) :
    evalPolyScalarInto ms x polys recv = evalPolyScalarRows ms x polys := by
  induction polys with
  | nil => rfl
  | cons p rest ih =>
    cases rest with
    | nil =>
      simp only [evalPolyScalarInto, evalPolyScalarRows]
      rw [copyRows_eq recv p hr (hsh p List.mem_cons_self)]
    | cons p' rest' =>
      have := ih (fun c hc => hsh c (List.mem_cons_of_mem _ hc))
      simp only [evalPolyScalarInto, evalPolyScalarRows, this]

/-- `GenShamirSecretShare` into any receiver of the ring's shape = into a fresh one. -/
theorem genShamirSecretShareInto_eq (r : RingQP) (N x : ℕ) (sp : ShamirPoly)
    (hsh : ∀ c ∈ sp, ShapedQP r N c) (recv : QP) (hr : ShapedQP r N recv) :
    genShamirSecretShareInto r x sp recv = genShamirSecretShare r x sp := by
  unfold genShamirSecretShareInto genShamirSecretShare
  rw [evalPolyScalarInto_eq r.ms x (sp.map (·.rows)) (by
    intro p hp
    rw [List.mem_map] at hp
    obtain ⟨c, hc, rfl⟩ := hp
    exact (hsh c hc).2) recv.rows hr.2]

/-- a model of the regression C15-r3m1 (Horner loop from the receiver's content, no initial copy):
`p3 ← p3·x + pol[i]` for `i = last … 0`. -/
def evalPolyScalarNoCopy (ms : List ℕ) (x : ℕ) : List Rows → Rows → Rows
  | [], recv => recv
  | p :: rest, recv => addRows ms (mulScalarRows ms x (evalPolyScalarNoCopy ms x rest recv)) p

end Lattigo.Proofs.Shamir
