/-
  C12 — lemmas about `Lattigo.Model.LinTrans`: sorted index lists, sums over the abstract slot
  carrier, the baby-step/giant-step regrouping.
-/
import Lattigo.Model.LinTrans
import Mathlib.Tactic.Ring
import Mathlib.Tactic.Linarith

namespace Lattigo.Model.LinTrans

/-! ## `sortU`, `sortS` -/

theorem mem_insertU (a x : Int) (l : List Int) : a ∈ insertU x l ↔ a = x ∨ a ∈ l := by
  induction l with
  | nil => simp [insertU]
  | cons y ys ih =>
    unfold insertU
    split
    · simp
    · split
      · rename_i h1 h2; subst h2; simp
      · simp [ih]; tauto

theorem mem_sortU (a : Int) (l : List Int) : a ∈ sortU l ↔ a ∈ l := by
  induction l with
  | nil => simp [sortU]
  | cons x xs ih =>
    have : sortU (x :: xs) = insertU x (sortU xs) := rfl
    rw [this, mem_insertU, ih]; simp

theorem insertU_sorted (x : Int) (l : List Int) (h : l.Pairwise (· < ·)) :
    (insertU x l).Pairwise (· < ·) := by
  induction l with
  | nil => simp [insertU]
  | cons y ys ih =>
    unfold insertU
    rw [List.pairwise_cons] at h
    split
    · rename_i hxy
      refine List.pairwise_cons.2 ⟨?_, List.pairwise_cons.2 h⟩
      intro a ha
      rcases List.mem_cons.1 ha with rfl | ha
      · exact hxy
      · exact lt_trans hxy (h.1 a ha)
    · split
      · exact List.pairwise_cons.2 h
      · rename_i h1 h2
        refine List.pairwise_cons.2 ⟨?_, ih h.2⟩
        intro a ha
        rcases (mem_insertU a x ys).1 ha with rfl | ha
        · omega
        · exact h.1 a ha

theorem sortU_sorted (l : List Int) : (sortU l).Pairwise (· < ·) := by
  induction l with
  | nil => simp [sortU]
  | cons x xs ih => exact insertU_sorted x _ ih

theorem sortU_nodup (l : List Int) : (sortU l).Nodup :=
  (sortU_sorted l).imp (fun h => ne_of_lt h)

theorem insertS_perm (x : Int) (l : List Int) : (insertS x l).Perm (x :: l) := by
  induction l with
  | nil => simp [insertS]
  | cons y ys ih =>
    unfold insertS
    split
    · exact List.Perm.refl _
    · exact (List.Perm.cons y ih).trans (List.Perm.swap x y ys)

theorem sortS_perm (l : List Int) : (sortS l).Perm l := by
  induction l with
  | nil => simp [sortS]
  | cons x xs ih =>
    have : sortS (x :: xs) = insertS x (sortS xs) := rfl
    rw [this]
    exact (insertS_perm x _).trans (List.Perm.cons x ih)

/-! ## laws of the slot carrier -/

/-- what the theorems assume about the slot carrier: a commutative monoid under `add`, `rot` an
    action of `(ℤ,+)` by endomorphisms of `add`/`mul`, of period `n` (the number of columns). -/
structure SlotLaws {α : Type} (O : SlotOps α) (n : Nat) : Prop where
  add_comm : ∀ a b, O.add a b = O.add b a
  add_assoc : ∀ a b c, O.add (O.add a b) c = O.add a (O.add b c)
  zero_add : ∀ a, O.add O.zero a = a
  rot_add : ∀ k a b, O.rot k (O.add a b) = O.add (O.rot k a) (O.rot k b)
  rot_mul : ∀ k a b, O.rot k (O.mul a b) = O.mul (O.rot k a) (O.rot k b)
  rot_rot : ∀ j k a, O.rot j (O.rot k a) = O.rot (j + k) a
  rot_zero : ∀ a, O.rot 0 a = a
  rot_zeroElem : ∀ k, O.rot k O.zero = O.zero
  rot_period : ∀ a, O.rot (n : Int) a = a

/-- `Σ` over a list -/
def sumL {α : Type} (O : SlotOps α) (l : List α) : α := l.foldr O.add O.zero

section
variable {α : Type} {O : SlotOps α} {n : Nat}

theorem SlotLaws.add_zero (L : SlotLaws O n) (a : α) : O.add a O.zero = a := by
  rw [L.add_comm, L.zero_add]

theorem SlotLaws.add_left_comm (L : SlotLaws O n) (a b c : α) :
    O.add a (O.add b c) = O.add b (O.add a c) := by
  rw [← L.add_assoc, L.add_comm a b, L.add_assoc]

theorem SlotLaws.rot_mul_period (L : SlotLaws O n) (m : Int) (a : α) :
    O.rot ((n : Int) * m) a = a := by
  induction m using Int.induction_on with
  | zero => simpa using L.rot_zero a
  | succ i ih =>
    have : (n : Int) * ((i : Int) + 1) = (n : Int) + (n : Int) * i := by ring
    rw [this, ← L.rot_rot, ih, L.rot_period]
  | pred i ih =>
    have h1 : O.rot ((n : Int) * (-(i : Int) - 1)) a
        = O.rot ((n : Int) * (-(i : Int) - 1)) (O.rot (n : Int) a) := by rw [L.rot_period]
    rw [h1, L.rot_rot]
    have : (n : Int) * (-(i : Int) - 1) + (n : Int) = (n : Int) * (-(i : Int)) := by ring
    rw [this, ih]

theorem foldl_add_eq (L : SlotLaws O n) (x : α) (xs : List α) :
    xs.foldl O.add x = O.add x (sumL O xs) := by
  induction xs generalizing x with
  | nil => simp [sumL, L.add_zero]
  | cons y ys ih =>
    simp only [List.foldl_cons, sumL, List.foldr_cons]
    rw [ih, L.add_assoc]; rfl

theorem accum_eq (L : SlotLaws O n) (l : List α) (h : l ≠ []) : accum O l = some (sumL O l) := by
  cases l with
  | nil => exact absurd rfl h
  | cons x xs => simp [accum, foldl_add_eq L, sumL]

theorem sumL_cons (x : α) (l : List α) : sumL O (x :: l) = O.add x (sumL O l) := rfl

theorem sumL_perm (L : SlotLaws O n) {l l' : List α} (h : l.Perm l') : sumL O l = sumL O l' := by
  induction h with
  | nil => rfl
  | cons x _ ih => simp [sumL_cons, ih]
  | swap x y l => simp [sumL_cons, L.add_left_comm]
  | trans _ _ ih1 ih2 => exact ih1.trans ih2

theorem rot_sumL (L : SlotLaws O n) (k : Int) (l : List α) :
    O.rot k (sumL O l) = sumL O (l.map (O.rot k)) := by
  induction l with
  | nil => simp [sumL, L.rot_zeroElem]
  | cons x xs ih => simp [sumL_cons, L.rot_add, ih]

theorem sumL_zeros (L : SlotLaws O n) {β : Type} (J : List β) :
    sumL O (J.map fun _ => O.zero) = O.zero := by
  induction J with
  | nil => rfl
  | cons _ _ ih => simp [sumL_cons, ih, L.zero_add]

/-- pulling one summand out of the group it belongs to -/
theorem sumL_single_out (L : SlotLaws O n) (J : List Int) (hJ : J.Nodup) (a : Int) (ha : a ∈ J)
    (x : α) (h : Int → α) :
    sumL O (J.map fun j => if a = j then O.add x (h j) else h j) = O.add x (sumL O (J.map h)) := by
  induction J with
  | nil => simp at ha
  | cons j js ih =>
    rw [List.nodup_cons] at hJ
    simp only [List.map_cons, sumL_cons]
    by_cases hj : a = j
    · subst hj
      have : (js.map fun j => if a = j then O.add x (h j) else h j) = js.map h := by
        apply List.map_congr_left
        intro j' hj'
        have : a ≠ j' := fun e => hJ.1 (e ▸ hj')
        simp [this]
      rw [this, if_pos rfl, L.add_assoc]
    · have ha' : a ∈ js := by
        rcases List.mem_cons.1 ha with e | e
        · exact absurd e hj
        · exact e
      rw [if_neg hj, ih hJ.2 ha', L.add_left_comm]

/-- fibre-wise regrouping of a sum -/
theorem sumL_fiberwise (L : SlotLaws O n) (g : Int → Int) (F : Int → α) (J : List Int)
    (hJ : J.Nodup) (ds : List Int) (hds : ∀ r ∈ ds, g r ∈ J) :
    sumL O (J.map fun j => sumL O ((ds.filter fun r => g r == j).map F)) = sumL O (ds.map F) := by
  induction ds with
  | nil =>
    have h0 : sumL O ([] : List α) = O.zero := rfl
    simp only [List.filter_nil, List.map_nil, h0]
    exact sumL_zeros L J
  | cons r rs ih =>
    have hr : g r ∈ J := hds r (List.mem_cons_self ..)
    have hrs : ∀ r' ∈ rs, g r' ∈ J := fun r' h => hds r' (List.mem_cons_of_mem _ h)
    have : (J.map fun j => sumL O (((r :: rs).filter fun r => g r == j).map F))
        = J.map fun j => if g r = j then O.add (F r) (sumL O ((rs.filter fun r => g r == j).map F))
            else sumL O ((rs.filter fun r => g r == j).map F) := by
      apply List.map_congr_left
      intro j _
      by_cases h : g r = j
      · simp [h, sumL_cons]
      · simp [h]
    rw [this, sumL_single_out L J hJ (g r) hr, ih hrs]
    rfl

end

/-! ## `mapM` over `Option` -/

theorem mapM_eq_some_map {β γ : Type} (f : β → Option γ) (g : β → γ) (l : List β)
    (h : ∀ x ∈ l, f x = some (g x)) : l.mapM f = some (l.map g) := by
  induction l with
  | nil => simp
  | cons x xs ih =>
    rw [List.mapM_cons, h x (List.mem_cons_self ..), ih (fun y hy => h y (List.mem_cons_of_mem _ hy))]
    rfl

theorem lookupI_map {β : Type} (ks : List Int) (enc : Int → β) (k : Int) (hk : k ∈ ks) :
    lookupI k (ks.map fun k => (k, enc k)) = some (enc k) := by
  induction ks with
  | nil => simp at hk
  | cons x xs ih =>
    simp only [List.map_cons, lookupI]
    by_cases hx : x = k
    · simp [hx]
    · rw [if_neg hx]
      rcases List.mem_cons.1 hk with e | e
      · exact absurd e.symm hx
      · exact ih e

/-! ## index arithmetic -/

theorem normIdx_of_range (n : Nat) (k : Int) (h0 : 0 ≤ k) (h1 : k < n) : normIdx n k = k :=
  Int.emod_eq_of_lt h0 h1

theorem giant_eq (n N1 : Nat) (hN : 0 < N1) (r : Int) (h0 : 0 ≤ r) (h1 : r < n) :
    giant n N1 r = r / (N1 : Int) * (N1 : Int) := by
  have hN' : (0 : Int) < (N1 : Int) := by exact_mod_cast hN
  have hq : 0 ≤ r / (N1 : Int) := Int.ediv_nonneg h0 (le_of_lt hN')
  have h2 : r / (N1 : Int) * (N1 : Int) ≤ r := Int.ediv_mul_le r (ne_of_gt hN')
  exact normIdx_of_range n _ (Int.mul_nonneg hq (le_of_lt hN')) (lt_of_le_of_lt h2 h1)

theorem giant_add_baby (n N1 : Nat) (hN : 0 < N1) (r : Int) (h0 : 0 ≤ r) (h1 : r < n) :
    giant n N1 r + baby N1 r = r := by
  rw [giant_eq n N1 hN r h0 h1]; exact Int.ediv_mul_add_emod r N1

end Lattigo.Model.LinTrans
