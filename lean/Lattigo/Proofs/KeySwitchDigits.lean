/-
  C04 — the RNS digits of the single-prime path (`DecomposeAndSplit(…, nbPi = 1, i, …)`, used for keys with
  at most one special prime and `BaseTwoDecomposition = 0`, in particular keys WITHOUT `P` after fix
  C04-2): digit `i` agrees with `c` on row `i`.  This is the row-wise recombination hypothesis of
  `gadget_identity` for `b_0 = 1` (group of row `k` = `k`).
-/
import Lattigo.Model.KeySwitch
import Mathlib.Tactic.Ring
import Mathlib.Tactic.Linarith

namespace Lattigo.KS
open RPoly

theorem centerSingle_emod (q x : Nat) (hx : x < q) : (centerSingle q x % (q : Int)).toNat = x := by
  have hq : (0 : Int) < q := by exact_mod_cast Nat.lt_of_le_of_lt (Nat.zero_le x) hx
  have hx0 : (0 : Int) ≤ (x : Int) := Int.natCast_nonneg x
  have hxq : (x : Int) < q := by exact_mod_cast hx
  unfold centerSingle
  split
  · rw [Int.sub_emod_right, Int.emod_eq_of_lt hx0 hxq, Int.toNat_natCast]
  · rw [Int.emod_eq_of_lt hx0 hxq, Int.toNat_natCast]

theorem map_centerSingle (q : Nat) : ∀ (row : List Nat), (∀ x ∈ row, x < q) →
    (row.map fun x => centerSingle q x).map (fun (x : Int) => (x % (q : Int)).toNat) = row
  | [], _ => rfl
  | x :: rest, h => by
      simp only [List.map_cons]
      rw [centerSingle_emod q x (h x (by simp)), map_centerSingle q rest (fun y hy => h y (by simp [hy]))]

theorem ofInts_row (qs : List Nat) (v : List Int) (i : Nat) (hi : i < qs.length) :
    (ofInts qs v).c.getD i [] = v.map fun (x : Int) => (x % ((qs.getD i 1 : Nat) : Int)).toNat := by
  simp [ofInts, List.getD, hi]

/-- **noP_gadget_identity (row-wise)**: with `nbPi = 1` (what the patched `gadgetProductSinglePAndBitDecompLazy`
    passes, with or without `P`), the RNS digit `i` of a canonical `c` coincides with `c` on row `i`. -/
theorem decomposeRNS_one_row (qsP : List Nat) (i : Nat) (c : RPoly) (hi : i < c.qs.length)
    (hcanon : ∀ x ∈ c.c.getD i [], x < c.qs.getD i 1) :
    (decomposeRNS qsP 1 i c).c.getD i [] = c.c.getD i [] := by
  have hneg : (if c.qs.length - 1 + 1 > 1 * (i + 1) then ((1 : Nat) : Int) - 2
      else (((c.qs.length - 1) % 1 : Nat) : Int) - 1) < 0 := by
    split <;> simp [Nat.mod_one]
  simp only [decomposeRNS, hneg, if_true, Nat.mul_one]
  rw [ofInts_row _ _ i (by simp; omega)]
  have hq : (c.qs ++ qsP).getD i 1 = c.qs.getD i 1 := by
    simp [List.getD, List.getElem?_append_left hi]
  rw [hq]
  exact map_centerSingle _ _ hcanon

end Lattigo.KS
