/-
  C04 — hoisted = plain on the executable `RPoly` model: for a key with `BaseTwoDecomposition = 0`
  and at least one special prime, `GadgetProductLazy` (digits computed on the fly) and
  `GadgetProductHoistedLazy` fed with `DecomposeNTT(levelQ, levelP, nbPi = levelP+1, c)` are the SAME
  function of `(key, c)`.
-/
import Lattigo.Proofs.KeySwitch

namespace Lattigo.KS
open RPoly

theorem evkAtLevel_rowLength (nQkey l : Nat) (evk : List (List (RPoly × RPoly)))
    (h : ∀ r ∈ evk, r.length = 1) : ∀ r ∈ evkAtLevel nQkey l evk, r.length = 1 := by
  intro r hr
  simp only [evkAtLevel, List.mem_map] at hr
  obtain ⟨r0, hr0, rfl⟩ := hr
  simpa using h r0 hr0

/-- the digit matrix of the plain path is the singleton-row matrix of the hoisted digits -/
theorem decompose_eq_decomposeNTT (qsP : List Nat) (evk : List (List (RPoly × RPoly))) (c : RPoly)
    (hP : 1 ≤ qsP.length) (hrow : ∀ r ∈ evk, r.length = 1)
    (hc : 1 ≤ c.qs.length) (hlen : qsP.length = 1 → c.qs.length ≤ evk.length) :
    decompose qsP 0 (evk.map List.length) c = (decomposeNTT qsP qsP.length c).map fun d => [d] := by
  simp only [decompose, decomposeNTT, List.map_map]
  by_cases h2 : qsP.length ≥ 2
  · simp only [h2, if_true]
    rfl
  · have h1 : qsP.length = 1 := by omega
    simp only [h1, baseRNSDecompositionVectorSize]
    have hl : c.qs.length - 1 + 1 = c.qs.length := by omega
    simp only [if_true, Nat.div_one, hl, if_neg (by decide : ¬ (1 = 0))]
    apply List.map_congr_left
    intro i hi
    have hi' : i < evk.length := Nat.lt_of_lt_of_le (List.mem_range.mp hi) (hlen h1)
    have hmem : evk[i] ∈ evk := List.getElem_mem hi'
    simp [List.getElem?_eq_getElem hi', hrow _ hmem]

/-- **hoisted_eq_plain** on the executable model -/
theorem hoisted_eq_plain_R (qsP : List Nat) (nQkey : Nat) (evk : List (List (RPoly × RPoly)))
    (c : RPoly) (hP : 1 ≤ qsP.length) (hrow : ∀ r ∈ evk, r.length = 1)
    (hc : 1 ≤ c.qs.length) (hlen : qsP.length = 1 → c.qs.length ≤ evk.length) :
    gadgetProductLazyR qsP 0 nQkey evk c = gadgetProductHoistedLazyR qsP qsP.length nQkey evk c := by
  simp only [gadgetProductLazyR, gadgetProductHoistedLazyR]
  rw [gadgetProductHoistedLazy_eq _ _ _ (evkAtLevel_rowLength nQkey _ evk hrow),
    decompose_eq_decomposeNTT qsP evk c hP hrow hc hlen]

/-- hence also after `ModDown` -/
theorem hoisted_eq_plain_modDown_R (qsP : List Nat) (nQkey : Nat) (evk : List (List (RPoly × RPoly)))
    (c : RPoly) (hP : 1 ≤ qsP.length) (hrow : ∀ r ∈ evk, r.length = 1)
    (hc : 1 ≤ c.qs.length) (hlen : qsP.length = 1 → c.qs.length ≤ evk.length) :
    gadgetProductR qsP 0 nQkey evk c = gadgetProductHoistedR qsP qsP.length nQkey evk c := by
  simp only [gadgetProductR, gadgetProductHoistedR, hoisted_eq_plain_R qsP nQkey evk c hP hrow hc hlen]

end Lattigo.KS
