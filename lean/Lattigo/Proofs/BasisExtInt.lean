/-
  Integer-level theorems about the HPS fast RNS base conversion
  (https://eprint.iacr.org/2018/117, ring/basis_extension.go), ModDown and the small-norm extension.

  * `hps_sum`      : `Σ y_i·(Q/q_i) = x + v·Q` with `v = hpsV < k`
  * `hpsY_ok`      : the `y_i` the code computes satisfy the hypothesis of `hps_sum`
  * `modUp_exact`, `modUp_off_by_one_hi`, `modUp_off_by_one_lo` : what `hpsOut` is for `v`, `v ± 1`
  * `modDownRes_spec`, `modDown_floor`, `modDown_round`, `modDown_err`
  * `extendSmallLimb_nonneg`, `extendSmallLimb_neg`, `extendSmall_spec`, `extendSmall_wraps`

  The rational statements (`hps_v_rat`, `hpsV_eq_floor`, the floor lemmas) are in `BasisExtFloor.lean`.
-/
import Mathlib.Data.Nat.GCD.BigOperators
import Mathlib.Data.Nat.ModEq
import Mathlib.Data.Int.ModEq
import Mathlib.Tactic.Ring
import Mathlib.Tactic.Linarith
import Lattigo.Model.BasisExt

namespace Lattigo.BasisExt
open Lattigo Lattigo.Scaling

/-! ## generalities on `prodN` -/

/-- `hpsSum` with the big modulus `Q` a free parameter (so that induction on the list is possible) -/
def sumQ (Q : Nat) (l ys : List Nat) : Nat :=
  (List.zipWith (fun qi yi => yi * (Q / qi)) l ys).foldr (· + ·) 0

theorem hpsSum_eq_sumQ (qs ys : List Nat) : hpsSum qs ys = sumQ (prodN qs) qs ys := rfl

@[simp] theorem sumQ_nil_left (Q : Nat) (ys : List Nat) : sumQ Q [] ys = 0 := by
  simp [sumQ]

@[simp] theorem sumQ_nil_right (Q : Nat) (l : List Nat) : sumQ Q l [] = 0 := by
  simp [sumQ]

@[simp] theorem sumQ_cons (Q q y : Nat) (l ys : List Nat) :
    sumQ Q (q :: l) (y :: ys) = y * (Q / q) + sumQ Q l ys := by
  simp [sumQ]

theorem prodN_pos : ∀ (l : List Nat), (∀ q ∈ l, 0 < q) → 0 < prodN l
  | [], _ => by simp [prodN]
  | q :: l, h => by
    have h1 : 0 < q := h q (by simp)
    have h2 : 0 < prodN l := prodN_pos l (fun a ha => h a (by simp [ha]))
    simpa [prodN] using Nat.mul_pos h1 h2

theorem dvd_prodN : ∀ (l : List Nat) (q : Nat), q ∈ l → q ∣ prodN l
  | [], q, h => by simp at h
  | a :: l, q, h => by
    rcases List.mem_cons.mp h with h | h
    · subst h; exact Dvd.intro _ rfl
    · exact Dvd.dvd.mul_left (dvd_prodN l q h) a

theorem prodN_eq_prod : ∀ (l : List Nat), prodN l = l.prod
  | [] => by simp [prodN]
  | a :: l => by simp [prodN, prodN_eq_prod l]

theorem coprime_prodN {q : Nat} {l : List Nat} (h : ∀ a ∈ l, Nat.Coprime q a) :
    Nat.Coprime q (prodN l) := by
  rw [prodN_eq_prod]
  exact Nat.coprime_list_prod_right_iff.mpr h

/-! ## 1. `Σ y_i·(Q/q_i) = x + v·Q` -/

/-- every term of `sumQ` is a multiple of `q` when `q ∣ Q / q_j` for all `q_j` of the list -/
theorem dvd_sumQ (Q q : Nat) : ∀ (l ys : List Nat), (∀ qj ∈ l, q ∣ Q / qj) → q ∣ sumQ Q l ys
  | [], _, _ => by simp
  | _ :: _, [], _ => by simp
  | a :: l, y :: ys, h => by
    rw [sumQ_cons]
    exact Nat.dvd_add (Dvd.dvd.mul_left (h a (by simp)) y)
      (dvd_sumQ Q q l ys (fun qj hj => h qj (by simp [hj])))

/-- the bound: every term is at most `Q − 1` -/
theorem sumQ_bound (Q : Nat) (hQ : 0 < Q) : ∀ (l ys : List Nat),
    (∀ q ∈ l, q ∣ Q) → List.Forall₂ (fun qi yi => yi < qi) l ys →
    sumQ Q l ys + l.length ≤ l.length * Q
  | [], _, _, _ => by simp
  | _ :: _, [], _, h => by cases h
  | q :: l, y :: ys, hd, h => by
    rcases List.forall₂_cons.mp h with ⟨hy, hrest⟩
    have ih := sumQ_bound Q hQ l ys (fun a ha => hd a (by simp [ha])) hrest
    obtain ⟨d, rfl⟩ := hd q (by simp)
    have hq : 0 < q := Nat.pos_of_ne_zero (by rintro rfl; simp at hQ)
    have hdpos : 0 < d := Nat.pos_of_ne_zero (by rintro rfl; simp at hQ)
    have hdiv : q * d / q = d := Nat.mul_div_cancel_left d hq
    rw [sumQ_cons, hdiv, List.length_cons]
    have h1 : (y + 1) * d ≤ q * d := Nat.mul_le_mul_right d hy
    have h2 : y * d + 1 ≤ q * d := by
      have : y * d + d ≤ q * d := by simpa [Nat.add_mul] using h1
      omega
    have h3 : (l.length + 1) * (q * d) = l.length * (q * d) + q * d := by ring
    omega

/-- the congruence, with `Q = m · prodN l` so that the induction goes through -/
theorem sumQ_modEq : ∀ (l ys : List Nat) (m x : Nat),
    l.Pairwise Nat.Coprime → (∀ q ∈ l, 0 < q) →
    List.Forall₂ (fun qi yi => (yi * (m * prodN l / qi)) % qi = x % qi) l ys →
    sumQ (m * prodN l) l ys ≡ x [MOD prodN l]
  | [], _, m, x, _, _, _ => by simp [prodN, Nat.modEq_one]
  | q :: l, [], _, _, _, _, h => by cases h
  | q :: l, y :: ys, m, x, hc, hpos, h => by
    rcases List.forall₂_cons.mp h with ⟨hy, hrest⟩
    rcases List.pairwise_cons.mp hc with ⟨hcq, hcl⟩
    have hq : 0 < q := hpos q (by simp)
    have hposl : ∀ a ∈ l, 0 < a := fun a ha => hpos a (by simp [ha])
    have hQ : m * prodN (q :: l) = (m * q) * prodN l := by simp [prodN, Nat.mul_assoc]
    have hQdiv : m * prodN (q :: l) / q = m * prodN l := by
      have : m * prodN (q :: l) = q * (m * prodN l) := by simp [prodN]; ring
      rw [this, Nat.mul_div_cancel_left _ hq]
    -- modulo prodN l
    have ih : sumQ ((m * q) * prodN l) l ys ≡ x [MOD prodN l] :=
      sumQ_modEq l ys (m * q) x hcl hposl (by rw [← hQ]; exact hrest)
    have hA : sumQ (m * prodN (q :: l)) (q :: l) (y :: ys) ≡ x [MOD prodN l] := by
      rw [sumQ_cons, hQdiv, hQ]
      have h0 : y * (m * prodN l) ≡ 0 [MOD prodN l] :=
        (Nat.modEq_zero_iff_dvd).mpr (Dvd.dvd.mul_left (Dvd.intro_left m rfl) y)
      simpa using Nat.ModEq.add h0 ih
    -- modulo q
    have hB : sumQ (m * prodN (q :: l)) (q :: l) (y :: ys) ≡ x [MOD q] := by
      rw [sumQ_cons]
      have h0 : sumQ (m * prodN (q :: l)) l ys ≡ 0 [MOD q] := by
        apply (Nat.modEq_zero_iff_dvd).mpr
        apply dvd_sumQ
        intro qj hj
        obtain ⟨d, hd⟩ := dvd_prodN l qj hj
        have hqj : 0 < qj := hposl qj hj
        have : m * prodN (q :: l) = qj * (q * (m * d)) := by
          simp only [prodN]; rw [hd]; ring
        rw [this, Nat.mul_div_cancel_left _ hqj]
        exact Dvd.intro _ rfl
      have h1 : y * (m * prodN (q :: l) / q) ≡ x [MOD q] := hy
      simpa using Nat.ModEq.add h1 h0
    have hcop : Nat.Coprime q (prodN l) := coprime_prodN hcq
    show _ ≡ _ [MOD q * prodN l]
    exact (Nat.modEq_and_modEq_iff_modEq_mul hcop).mp ⟨hB, hA⟩

/-- `Σ y_i·(Q/q_i) = x + v·Q` -/
theorem hps_sum_eq (qs ys : List Nat) (x : Nat)
    (hc : qs.Pairwise Nat.Coprime) (hpos : ∀ q ∈ qs, 0 < q) (hx : x < prodN qs)
    (hy : List.Forall₂ (fun qi yi => yi < qi ∧ (yi * qStar qs qi) % qi = x % qi) qs ys) :
    hpsSum qs ys = x + hpsV qs ys * prodN qs := by
  have hme : sumQ (1 * prodN qs) qs ys ≡ x [MOD prodN qs] := by
    apply sumQ_modEq qs ys 1 x hc hpos
    refine List.Forall₂.imp ?_ hy
    intro qi yi h
    simpa [qStar] using h.2
  rw [Nat.one_mul] at hme
  have hmod : hpsSum qs ys % prodN qs = x := by
    rw [hpsSum_eq_sumQ]
    have := hme
    unfold Nat.ModEq at this
    rw [this, Nat.mod_eq_of_lt hx]
  unfold hpsV
  have := Nat.div_add_mod (hpsSum qs ys) (prodN qs)
  rw [hmod] at this
  rw [Nat.mul_comm] at this
  omega

/-- `v < k` -/
theorem hpsV_lt (qs ys : List Nat) (hne : qs ≠ []) (hpos : ∀ q ∈ qs, 0 < q)
    (hy : List.Forall₂ (fun qi yi => yi < qi) qs ys) : hpsV qs ys < qs.length := by
  have hQ := prodN_pos qs hpos
  have hb := sumQ_bound (prodN qs) hQ qs ys (dvd_prodN qs) hy
  have hlen : 0 < qs.length := List.length_pos_iff.mpr hne
  unfold hpsV
  rw [hpsSum_eq_sumQ]
  apply Nat.div_lt_of_lt_mul
  rw [Nat.mul_comm]
  omega

/-- HPS, the integer identity: `Σ y_i·(Q/q_i) = x + v·Q` and `0 ≤ v < k`.
    (`qs ≠ []` is needed for `v < k` only: for `qs = []`, `v = 0 = k`.) -/
theorem hps_sum (qs ys : List Nat) (x : Nat) (hne : qs ≠ [])
    (hc : qs.Pairwise Nat.Coprime) (hpos : ∀ q ∈ qs, 0 < q) (hx : x < prodN qs)
    (hy : List.Forall₂ (fun qi yi => yi < qi ∧ (yi * qStar qs qi) % qi = x % qi) qs ys) :
    hpsSum qs ys = x + hpsV qs ys * prodN qs ∧ hpsV qs ys < qs.length :=
  ⟨hps_sum_eq qs ys x hc hpos hx hy,
   hpsV_lt qs ys hne hpos (List.Forall₂.imp (fun _ _ h => h.1) hy)⟩

-- test: Q = 105, x = 52: y = (52·(35⁻¹) mod 3, 52·(21⁻¹) mod 5, 52·(15⁻¹) mod 7) = (2, 2, 3)
example : hpsSum [3, 5, 7] [2, 2, 3] = 52 + 1 * 105 ∧ hpsV [3, 5, 7] [2, 2, 3] = 1 := by decide
example : ([3, 5, 7] : List Nat) ≠ [] ∧ (52 : Nat) < prodN [3, 5, 7] ∧
    List.Forall₂ (fun qi yi => yi < qi ∧ (yi * qStar [3, 5, 7] qi) % qi = 52 % qi) [3, 5, 7] [2, 2, 3] := by
  refine ⟨by simp, by decide, ?_⟩
  repeat (first | exact List.Forall₂.nil | refine List.Forall₂.cons (by decide) ?_)
example : ([3, 5, 7] : List Nat).Pairwise Nat.Coprime := by decide

/-! ## 2. the `y_i` of the code -/

theorem hpsY_ok_aux (Q x : Nat) : ∀ (l : List Nat),
    (∀ qi ∈ l, ((Q / qi) % qi * invMod ((Q / qi) % qi) qi) % qi = 1) → (∀ q ∈ l, 0 < q) →
    List.Forall₂ (fun qi yi => yi < qi ∧ (yi * (Q / qi)) % qi = x % qi) l
      (List.zipWith (fun qi xi => (xi * invMod ((Q / qi) % qi) qi) % qi) l (l.map (x % ·)))
  | [], _, _ => by simp
  | q :: l, hinv, hpos => by
    have hq : 0 < q := hpos q (by simp)
    have h1 := hinv q (by simp)
    simp only [List.map_cons, List.zipWith_cons_cons]
    refine List.Forall₂.cons ⟨Nat.mod_lt _ hq, ?_⟩
      (hpsY_ok_aux Q x l (fun a ha => hinv a (by simp [ha])) (fun a ha => hpos a (by simp [ha])))
    generalize invMod ((Q / q) % q) q = c at h1
    generalize Q / q = s at h1
    have h2 : (c * s) % q = 1 := by
      rw [Nat.mod_mul_mod] at h1
      rw [Nat.mul_comm]; exact h1
    calc (x % q * c % q * s) % q = (x % q * (c * s)) % q := by
            rw [Nat.mod_mul_mod, Nat.mul_assoc]
      _ = (x % q % q * ((c * s) % q)) % q := by rw [← Nat.mul_mod]
      _ = x % q := by rw [h2, Nat.mod_mod, Nat.mul_one, Nat.mod_mod]

/-- the `y_i = [x_i · (Q/q_i)⁻¹]_{q_i}` computed from the residues of `x` meet the hypothesis of `hps_sum` -/
theorem hpsY_ok (qs : List Nat) (x : Nat)
    (hinv : ∀ qi ∈ qs, (qStar qs qi % qi * invMod (qStar qs qi % qi) qi) % qi = 1)
    (hpos : ∀ q ∈ qs, 0 < q) :
    List.Forall₂ (fun qi yi => yi < qi ∧ (yi * qStar qs qi) % qi = x % qi) qs
      (hpsY qs (residues qs x)) :=
  hpsY_ok_aux (prodN qs) x qs hinv hpos

-- test
example : ∀ qi ∈ ([3, 5, 7] : List Nat),
    (qStar [3, 5, 7] qi % qi * invMod (qStar [3, 5, 7] qi % qi) qi) % qi = 1 := by decide
example : hpsY [3, 5, 7] (residues [3, 5, 7] 52) = [2, 2, 3] := by decide

/-! ## 4. what `hpsOut` is -/

theorem out_aux (z v Q p : Nat) (hp : 0 < p) : (z + v * Q + v * (p - Q % p)) % p = z % p := by
  have hlt : Q % p < p := Nat.mod_lt _ hp
  have hQ := Nat.div_add_mod Q p
  have h1 : Q + (p - Q % p) = p * (Q / p + 1) := by
    rw [Nat.mul_add, Nat.mul_one]; omega
  have h2 : z + v * Q + v * (p - Q % p) = z + p * (v * (Q / p + 1)) := by
    rw [Nat.add_assoc, ← Nat.mul_add, h1]; ring
  rw [h2, Nat.add_mul_mod_self_left]

/-- with the exact correction index the output is `x mod p` -/
theorem modUp_exact (qs ys : List Nat) (x p : Nat)
    (hc : qs.Pairwise Nat.Coprime) (hpos : ∀ q ∈ qs, 0 < q) (hx : x < prodN qs)
    (hy : List.Forall₂ (fun qi yi => yi < qi ∧ (yi * qStar qs qi) % qi = x % qi) qs ys)
    (hp : 0 < p) :
    hpsOut qs ys (hpsV qs ys) p = x % p := by
  unfold hpsOut
  rw [hps_sum_eq qs ys x hc hpos hx hy]
  exact out_aux x _ _ p hp

/-- with `v` one too large the output is `≡ x − Q` -/
theorem modUp_off_by_one_hi (qs ys : List Nat) (x p v : Nat)
    (hc : qs.Pairwise Nat.Coprime) (hpos : ∀ q ∈ qs, 0 < q) (hx : x < prodN qs)
    (hy : List.Forall₂ (fun qi yi => yi < qi ∧ (yi * qStar qs qi) % qi = x % qi) qs ys)
    (hp : 0 < p) (hv : v = hpsV qs ys + 1) :
    (hpsOut qs ys v p + prodN qs) % p = x % p := by
  unfold hpsOut
  rw [Nat.mod_add_mod, hps_sum_eq qs ys x hc hpos hx hy]
  subst hv
  have : x + hpsV qs ys * prodN qs + (hpsV qs ys + 1) * (p - prodN qs % p) + prodN qs
      = x + (hpsV qs ys + 1) * prodN qs + (hpsV qs ys + 1) * (p - prodN qs % p) := by ring
  rw [this]
  exact out_aux x _ _ p hp

/-- with `v` one too small the output is `≡ x + Q` -/
theorem modUp_off_by_one_lo (qs ys : List Nat) (x p v : Nat)
    (hc : qs.Pairwise Nat.Coprime) (hpos : ∀ q ∈ qs, 0 < q) (hx : x < prodN qs)
    (hy : List.Forall₂ (fun qi yi => yi < qi ∧ (yi * qStar qs qi) % qi = x % qi) qs ys)
    (hp : 0 < p) (hv : v + 1 = hpsV qs ys) :
    hpsOut qs ys v p = (x + prodN qs) % p := by
  unfold hpsOut
  rw [hps_sum_eq qs ys x hc hpos hx hy, ← hv]
  have : x + (v + 1) * prodN qs + v * (p - prodN qs % p)
      = (x + prodN qs) + v * prodN qs + v * (p - prodN qs % p) := by ring
  rw [this]
  exact out_aux _ _ _ p hp

-- test: x = 52, Q = 105, v = 1, p = 11: 52 % 11 = 8
example : hpsOut [3, 5, 7] [2, 2, 3] 1 11 = 52 % 11 := by decide
example : (hpsOut [3, 5, 7] [2, 2, 3] 2 11 + 105) % 11 = 52 % 11 := by decide
example : hpsOut [3, 5, 7] [2, 2, 3] 0 11 = (52 + 105) % 11 := by decide

/-! ## 6. ModDown -/

theorem P_pos_of_inv {P c qi : Nat} (hc : (P * c) % qi = 1) : 0 < P := by
  rcases Nat.eq_zero_or_pos P with h | h
  · subst h; simp at hc
  · exact h

/-- the Nat subtraction `x_i + q_i − e_i mod q_i` as an integer -/
theorem modDownRes_cast (qi c xi ei : Nat) (hqi : 0 < qi) :
    ((modDownRes qi c xi ei : Nat) : Int) = (((xi : Int) + qi - ((ei % qi : Nat) : Int)) * c) % qi := by
  unfold modDownRes
  have h : ei % qi ≤ xi + qi := Nat.le_trans (Nat.le_of_lt (Nat.mod_lt _ hqi)) (Nat.le_add_left _ _)
  push_cast [Nat.cast_sub h]
  rfl

/-- ModDown, one residue: if `e_i ≡ r + δ·P (mod q_i)` where `r ≡ x (mod P)` is the representative of
    `[x]_P` the extension is meant to produce and `δ` the error of the extension (in multiples of `P`),
    the result is `(x − r)/P − δ  (mod q_i)`. -/
theorem modDownRes_spec (qi P c x : Nat) (r δ : Int) (ei : Nat) (hqi : 0 < qi)
    (hc : (P * c) % qi = 1) (hr : (P : Int) ∣ (x : Int) - r)
    (he : (ei : Int) % qi = (r + δ * P) % qi) :
    ((modDownRes qi c (x % qi) ei : Nat) : Int) % qi = (((x : Int) - r) / P - δ) % qi := by
  rw [modDownRes_cast qi c (x % qi) ei hqi, Int.emod_emod_of_dvd _ (dvd_refl _)]
  obtain ⟨k, hk⟩ := hr
  have hxr : (x : Int) = r + P * k := by linarith
  -- `P·c ≡ 1`
  have hc' : ((P : Int) * c) ≡ 1 [ZMOD qi] := by
    have h1 : (((P * c) % qi : Nat) : Int) = 1 := by rw [hc]; rfl
    have h2 : ((P : Int) * c) % qi = 1 := by
      rw [← h1]; push_cast; rfl
    unfold Int.ModEq
    rw [h2]
    by_cases hq1 : qi = 1
    · rw [hq1] at hc; omega
    · have : (1 : Int) < qi := by
        have : 1 < qi := by omega
        exact_mod_cast this
      exact (Int.emod_eq_of_lt (by norm_num) this).symm
  -- the quotient
  have hquot : ((x : Int) - r) / P = k ∨ (P : Int) = 0 := by
    by_cases hP : (P : Int) = 0
    · exact Or.inr hP
    · left; rw [hk]; exact Int.mul_ediv_cancel_left k hP
  rcases hquot with hquot | hP0
  · rw [hquot]
    have hx : ((x % qi : Nat) : Int) ≡ x [ZMOD qi] := by
      push_cast; exact Int.mod_modEq _ _
    have hei : (((ei % qi : Nat) : Int)) ≡ r + δ * P [ZMOD qi] := by
      push_cast
      exact (Int.mod_modEq _ _).trans he
    have h1 : (((x % qi : Nat) : Int) + qi - ((ei % qi : Nat) : Int)) * c
        ≡ ((x : Int) + 0 - (r + δ * P)) * c [ZMOD qi] := by
      apply Int.ModEq.mul_right
      apply Int.ModEq.sub _ hei
      apply Int.ModEq.add hx
      exact (Int.modEq_zero_iff_dvd).mpr (dvd_refl _)
    have h2 : ((x : Int) + 0 - (r + δ * P)) * c = (P * c) * (k - δ) := by
      rw [hxr]; ring
    have h3 : ((P : Int) * c) * (k - δ) ≡ 1 * (k - δ) [ZMOD qi] := Int.ModEq.mul_right _ hc'
    rw [h2] at h1
    have := h1.trans h3
    rw [one_mul] at this
    exact this
  · -- `P = 0` contradicts `P·c ≡ 1` unless `q_i = 1`, where everything is `0`
    have hP : P = 0 := by exact_mod_cast hP0
    subst hP
    simp at hc

/-- the result of `modDownRes` is already reduced -/
theorem modDownRes_lt (qi c xi ei : Nat) (hqi : 0 < qi) : modDownRes qi c xi ei < qi :=
  Nat.mod_lt _ hqi

theorem nat_of_int_emod {a b qi : Nat} (ha : a < qi) (h : (a : Int) % qi = (b : Int) % qi) :
    a = b % qi := by
  have h1 : ((a % qi : Nat) : Int) = ((b % qi : Nat) : Int) := by push_cast; exact h
  have h2 : a % qi = b % qi := by exact_mod_cast h1
  rw [Nat.mod_eq_of_lt ha] at h2
  exact h2

/-- exact extension of `[x]_P ∈ [0, P)`: the FLOORED quotient -/
theorem modDown_floor (qi P c x ei : Nat) (hqi : 0 < qi)
    (hc : (P * c) % qi = 1) (he : ei % qi = (x % P) % qi) :
    modDownRes qi c (x % qi) ei = (x / P) % qi := by
  apply nat_of_int_emod (modDownRes_lt _ _ _ _ hqi)
  have h2 : (x : Int) = P * (x / P : Nat) + (x % P : Nat) := by
    exact_mod_cast (Nat.div_add_mod x P).symm
  have hr : (P : Int) ∣ (x : Int) - ((x % P : Nat) : Int) :=
    ⟨((x / P : Nat) : Int), by linarith⟩
  have he' : (ei : Int) % qi = (((x % P : Nat) : Int) + 0 * P) % qi := by
    have : ((ei % qi : Nat) : Int) = (((x % P) % qi : Nat) : Int) := by rw [he]
    push_cast at this
    simpa using this
  have := modDownRes_spec qi P c x ((x % P : Nat) : Int) 0 ei hqi hc hr he'
  rw [this]
  have hP : (P : Int) ≠ 0 := by
    have := P_pos_of_inv hc
    exact_mod_cast (Nat.pos_iff_ne_zero.mp this)
  have hq : ((x : Int) - ((x % P : Nat) : Int)) / P = ((x / P : Nat) : Int) := by
    have : (x : Int) - ((x % P : Nat) : Int) = P * ((x / P : Nat) : Int) := by linarith
    rw [this, Int.mul_ediv_cancel_left _ hP]
  rw [hq, sub_zero]

-- test: q_i = 7, P = 15, c = 15⁻¹ mod 7 = 1, x = 100: ⌊100/15⌋ = 6
example : (15 * 1) % 7 = 1 ∧ (100 % 15) % 7 = (100 % 15) % 7 ∧
    modDownRes 7 1 (100 % 7) (100 % 15) = (100 / 15) % 7 := by decide

/-- the centred representative of `[x]_P`, `((x + ⌊P/2⌋) mod P) − ⌊P/2⌋ ∈ [−⌊P/2⌋, P − ⌊P/2⌋)` -/
def centeredRep (P x : Nat) : Int := (((x + P / 2) % P : Nat) : Int) - ((P / 2 : Nat) : Int)

/-- extension of the CENTRED representative of `[x]_P` with an error of `δ` multiples of `P`
    (HPS without the exactness condition: `δ ∈ {−1, 0, 1}`, see `modUp_never_off_by_more_than_one`):
    the result is the ROUNDED quotient `⌊(x + ⌊P/2⌋)/P⌋` minus `δ`.  The proof does not use `|δ| ≤ 1`. -/
theorem modDown_err (qi P c x ei : Nat) (δ : Int) (hqi : 0 < qi)
    (hc : (P * c) % qi = 1) (he : (ei : Int) % qi = (centeredRep P x + δ * P) % qi) :
    ((modDownRes qi c (x % qi) ei : Nat) : Int) % qi = ((((x + P / 2) / P : Nat) : Int) - δ) % qi := by
  have h2 : ((x + P / 2 : Nat) : Int) = P * ((x + P / 2) / P : Nat) + ((x + P / 2) % P : Nat) := by
    exact_mod_cast (Nat.div_add_mod (x + P / 2) P).symm
  have hdiff : (x : Int) - centeredRep P x = P * (((x + P / 2) / P : Nat) : Int) := by
    unfold centeredRep
    push_cast at h2 ⊢
    linarith
  have hr : (P : Int) ∣ (x : Int) - centeredRep P x := ⟨_, hdiff⟩
  have hP : (P : Int) ≠ 0 := by
    have := P_pos_of_inv hc
    exact_mod_cast (Nat.pos_iff_ne_zero.mp this)
  rw [modDownRes_spec qi P c x (centeredRep P x) δ ei hqi hc hr he, hdiff,
    Int.mul_ediv_cancel_left _ hP]

/-- the error is at most one when `|δ| ≤ 1` -/
theorem modDown_err_le_one (qi P c x ei : Nat) (δ : Int) (hqi : 0 < qi)
    (hc : (P * c) % qi = 1) (he : (ei : Int) % qi = (centeredRep P x + δ * P) % qi)
    (hδ : δ = -1 ∨ δ = 0 ∨ δ = 1) :
    ∃ e : Int, |e| ≤ 1 ∧
      ((modDownRes qi c (x % qi) ei : Nat) : Int) % qi = ((((x + P / 2) / P : Nat) : Int) + e) % qi := by
  refine ⟨-δ, ?_, ?_⟩
  · rcases hδ with h | h | h <;> subst h <;> norm_num
  · rw [modDown_err qi P c x ei δ hqi hc he, sub_eq_add_neg]

/-- exact extension of the CENTRED representative of `[x]_P` (what `ModUpPtoQ` produces under the
    exactness condition): the ROUNDED quotient -/
theorem modDown_round (qi P c x ei : Nat) (hqi : 0 < qi)
    (hc : (P * c) % qi = 1) (he : (ei : Int) % qi = centeredRep P x % qi) :
    modDownRes qi c (x % qi) ei = ((x + P / 2) / P) % qi := by
  apply nat_of_int_emod (modDownRes_lt _ _ _ _ hqi)
  have he' : (ei : Int) % qi = (centeredRep P x + 0 * P) % qi := by simpa using he
  rw [modDown_err qi P c x ei 0 hqi hc he', sub_zero]

-- test: q_i = 7, P = 15, c = 1, x = 100: round(100/15) = 7 ≡ 0; centred [100]_15 = 10 − 15 = −5 ≡ 2 (mod 7)
example : centeredRep 15 100 = -5 := by decide
example : (15 * 1) % 7 = 1 ∧ ((2 : Nat) : Int) % (7 : Nat) = centeredRep 15 100 % (7 : Nat) ∧
    modDownRes 7 1 (100 % 7) 2 = ((100 + 15 / 2) / 15) % 7 := by decide
-- test (δ = 1): e_i ≡ −5 + 15 = 10 ≡ 3: the result is 7 − 1 = 6
example : ((3 : Nat) : Int) % (7 : Nat) = (centeredRep 15 100 + 1 * (15 : Nat)) % (7 : Nat) ∧
    ((modDownRes 7 1 (100 % 7) 3 : Nat) : Int) % (7 : Nat) = ((((100 + 15 / 2) / 15 : Nat) : Int) - 1) % (7 : Nat) := by
  decide

/-! ## 7. small-norm extension -/

theorem u64xor_one_one : u64xor 1 1 = 0 := by simp [u64xor]
theorem u64xor_zero_one : u64xor 0 1 = 1 := by simp [u64xor]
theorem u64mul_one_right (a : Nat) : u64mul a 1 = a % W := by
  unfold u64mul; rw [Nat.mul_one]
theorem u64mul_zero_right (a : Nat) : u64mul a 0 = 0 := by
  unfold u64mul; rw [Nat.mul_zero]; exact Nat.zero_mod W
theorem u64or_zero_right (a : Nat) : u64or a 0 = a := by
  unfold u64or; exact Nat.or_zero a
theorem u64or_zero_left (a : Nat) : u64or 0 a = a := by
  unfold u64or; exact Nat.zero_or a

/-! ### the repaired limb code of `ringqp.Ring.ExtendBasisSmallNormAndCenter` (C03-9): `|coeff| mod p`, `−0 = 0` -/

theorem u64neg_zero : u64neg 0 = 0 := by decide
theorem u64neg_pos (a : Nat) (h0 : 0 < a) (hW : a < W) : u64neg a = W - a := by
  unfold u64neg
  rw [Nat.mod_eq_of_lt hW, Nat.mod_eq_of_lt (by omega)]

/-- `(c | -c) >> 63` is the "non-zero" bit of a uint64 -/
theorem nonzero_bit (a : Nat) (hW : a < W) : u64shr (u64or a (u64neg a)) 63 = if a = 0 then 0 else 1 := by
  by_cases h : a = 0
  · subst h; rw [if_pos rfl, u64neg_zero]; decide
  · rw [if_neg h, u64neg_pos a (Nat.pos_of_ne_zero h) hW]
    unfold u64shr u64or
    have h1 : a ≤ a ||| (W - a) := Nat.left_le_or
    have h2 : W - a ≤ a ||| (W - a) := Nat.right_le_or
    have h3 : a ||| (W - a) < 2 ^ 64 := Nat.or_lt_two_pow (by unfold W at hW; omega) (by unfold W; omega)
    generalize a ||| (W - a) = x at *
    unfold W at *
    omega

theorem extendSmallLimb_nonneg (q0 p c : Nat) (hc : c ≤ q0 / 2) (hcW : c < W) :
    extendSmallLimb q0 p c = c % p := by
  have hneg : ¬ (q0 / 2 < c) := Nat.not_lt.mpr hc
  simp only [extendSmallLimb, u64shr, Nat.pow_one, hneg, decide_false, Bool.false_eq_true, if_false,
    u64xor_one_one]
  rw [u64mul_zero_right, u64mul_one_right, u64or_zero_right]
  exact Nat.mod_eq_of_lt (Nat.lt_of_le_of_lt (Nat.mod_le c p) hcW)

theorem extendSmallLimb_neg (q0 p c : Nat) (hc : q0 / 2 < c) (hcq : c < q0) (hq : q0 < W) (hp0 : 0 < p)
    (hp : p < W) :
    extendSmallLimb q0 p c = if (q0 - c) % p = 0 then 0 else p - (q0 - c) % p := by
  have hsub : u64sub q0 c = q0 - c := by
    unfold u64sub; unfold W at *; omega
  have hcc : (q0 - c) % p < p := Nat.mod_lt _ hp0
  have hsub2 : u64sub p ((q0 - c) % p) = p - (q0 - c) % p := by
    unfold u64sub; unfold W at *; omega
  have hbit := nonzero_bit ((q0 - c) % p) (by omega)
  simp only [extendSmallLimb, hsub]
  rw [show u64shr q0 1 = q0 / 2 from by unfold u64shr; rw [Nat.pow_one]] at *
  simp only [hc, decide_true, if_true, hsub2, hbit, u64xor_zero_one]
  rw [u64mul_zero_right, u64mul_one_right, u64or_zero_left]
  by_cases h0 : (q0 - c) % p = 0
  · rw [if_pos h0, if_pos h0, u64mul_zero_right]; rfl
  · rw [if_neg h0, if_neg h0, u64mul_one_right, Nat.mod_mod]
    apply Nat.mod_eq_of_lt
    unfold W at *; omega

/-- **the small-norm extension writes the centred value modulo `p`, for EVERY residue `c < q0`** (no size
    condition between the value and `p` any more). -/
theorem extendSmall_spec (q0 p c : Nat) (hcq : c < q0) (hq : q0 < W) (hp0 : 0 < p) (hp : p < W) :
    ((extendSmallLimb q0 p c : Nat) : Int) % p = centerInt q0 c % p := by
  unfold centerInt
  by_cases hc : q0 / 2 < c
  · rw [extendSmallLimb_neg q0 p c hc hcq hq hp0 hp, if_pos hc]
    have hdm := Nat.div_add_mod (q0 - c) p
    have hlt : (q0 - c) % p < p := Nat.mod_lt _ hp0
    have hcast : ((c : Int) - q0) = -((q0 - c : Nat) : Int) := by
      rw [Nat.cast_sub (Nat.le_of_lt hcq)]; ring
    by_cases h0 : (q0 - c) % p = 0
    · rw [if_pos h0, hcast]
      have hd : (p : Int) ∣ ((q0 - c : Nat) : Int) := by
        exact_mod_cast Nat.dvd_of_mod_eq_zero h0
      rw [Int.emod_eq_zero_of_dvd ((Int.dvd_neg).mpr hd)]
      rfl
    · rw [if_neg h0, hcast]
      have e : ((q0 - c : Nat) : Int) = p * ((q0 - c) / p : Nat) + ((q0 - c) % p : Nat) := by
        exact_mod_cast hdm.symm
      rw [Nat.cast_sub (Nat.le_of_lt hlt), e]
      have : -((p : Int) * ((q0 - c) / p : Nat) + ((q0 - c) % p : Nat))
          = ((p : Int) - ((q0 - c) % p : Nat)) + p * (-((q0 - c) / p : Nat) - 1) := by ring
      rw [this, Int.add_mul_emod_self_left]
  · rw [extendSmallLimb_nonneg q0 p c (Nat.not_lt.mp hc) (Nat.lt_trans hcq hq), if_neg hc]
    push_cast
    exact Int.emod_emod_of_dvd _ (dvd_refl _)

-- test
example : extendSmallLimb 97 17 3 = 3 ∧ centerInt 97 3 = 3 := by decide
example : extendSmallLimb 97 17 90 = 10 ∧ centerInt 97 90 = -7 ∧ ((10 : Int) % 17 = (-7) % 17) := by decide
example : extendSmallLimb 97 17 (97 - 34) = 0 := by decide   -- −34 ≡ −0 = 0 (mod 17)

/-- the former witness of the wrap (`q0 = 97, p = 17, c = 60`, centred value `−37`): the repaired code writes
    `14 ≡ −37 (mod 17)`. -/
theorem extendSmall_large_repaired :
    extendSmallLimb 97 17 60 = 14 ∧
    ((extendSmallLimb 97 17 60 : Nat) : Int) % (17 : Nat) = centerInt 97 60 % (17 : Nat) := by
  decide

/-! ### the unrepaired limb code (`rlwe.ExtendBasisSmallNormAndCenterNTTMontgomery`) -/

theorem extendSmallLimbWrap_nonneg (q0 p c : Nat) (hc : c ≤ q0 / 2) (hcW : c < W) :
    extendSmallLimbWrap q0 p c = c := by
  have hneg : ¬ (q0 / 2 < c) := Nat.not_lt.mpr hc
  simp only [extendSmallLimbWrap, u64shr, Nat.pow_one, hneg, decide_false, Bool.false_eq_true, if_false,
    u64xor_one_one]
  rw [u64mul_zero_right, u64mul_one_right, u64or_zero_right]
  exact Nat.mod_eq_of_lt hcW

theorem extendSmallLimbWrap_neg (q0 p c : Nat) (hc : q0 / 2 < c) (hcq : c < q0) (hq : q0 < W) (hp : p < W)
    (hfit : q0 - c ≤ p) : extendSmallLimbWrap q0 p c = p - (q0 - c) := by
  have hcW : c < W := Nat.lt_trans hcq hq
  have hsub : u64sub q0 c = q0 - c := by
    unfold u64sub; unfold W at *; omega
  have hsub2 : u64sub p (q0 - c) = p - (q0 - c) := by
    unfold u64sub; unfold W at *; omega
  simp only [extendSmallLimbWrap, u64shr, Nat.pow_one, hc, decide_true, if_true, u64xor_zero_one, hsub, hsub2]
  rw [u64mul_zero_right, u64mul_one_right, u64or_zero_left]
  apply Nat.mod_eq_of_lt
  unfold W at *; omega

/-- `rlwe.ExtendBasisSmallNormAndCenterNTTMontgomery` (old limb code, still in core/rlwe/utils.go) writes the centred value modulo `p`, PROVIDED `q0 − c ≤ p` for the
    negative residues (`|centred value| ≤ p`) -/
theorem extendSmallWrap_spec (q0 p c : Nat) (hcq : c < q0) (hq : q0 < W) (hp : p < W)
    (hfit : q0 / 2 < c → q0 - c ≤ p) :
    ((extendSmallLimbWrap q0 p c : Nat) : Int) % p = centerInt q0 c % p := by
  unfold centerInt
  by_cases hc : q0 / 2 < c
  · rw [extendSmallLimbWrap_neg q0 p c hc hcq hq hp (hfit hc), if_pos hc]
    have h1 : q0 - c ≤ p := hfit hc
    have h2 : c ≤ q0 := Nat.le_of_lt hcq
    push_cast [Nat.cast_sub h1, Nat.cast_sub h2]
    have : (p : Int) - ((q0 : Int) - c) = (c - q0) + p := by ring
    rw [this, Int.add_emod_right]
  · rw [extendSmallLimbWrap_nonneg q0 p c (Nat.not_lt.mp hc) (Nat.lt_trans hcq hq), if_neg hc]

-- test
example : extendSmallLimbWrap 97 17 3 = 3 ∧ centerInt 97 3 = 3 := by decide
example : extendSmallLimbWrap 97 17 90 = 10 ∧ centerInt 97 90 = -7 ∧ ((10 : Int) % 17 = (-7) % 17) := by decide

/-- when `q0 − c > p` the uint64 subtraction `p − (q0 − c)` WRAPS and the result is not the centred
    value modulo `p`: `q0 = 97, p = 17, c = 60`: centred value `−37 ≡ 14`, the code writes
    `2^64 − 20 ≡ 15 (mod 17)`. -/
theorem extendSmallWrap_wraps :
    extendSmallLimbWrap 97 17 60 = W - 20 ∧
    ((extendSmallLimbWrap 97 17 60 : Nat) : Int) % (17 : Nat) ≠ centerInt 97 60 % (17 : Nat) := by
  decide

/-- contract form: the unrepaired limb code is right whenever the centred value fits, `|x| ≤ p` (the "small norm"
    contract of `rlwe.ExtendBasisSmallNormAndCenterNTTMontgomery`: its in-tree callers pass secret keys) -/
theorem extendSmallWrap_contract (q0 p c : Nat) (hcq : c < q0) (hq : q0 < W) (hp : p < W)
    (hfit : (centerInt q0 c).natAbs ≤ p) :
    ((extendSmallLimbWrap q0 p c : Nat) : Int) % p = centerInt q0 c % p := by
  apply extendSmallWrap_spec q0 p c hcq hq hp
  intro hc
  unfold centerInt at hfit
  rw [if_pos hc] at hfit
  omega

-- test: a ternary secret coefficient `−1` (`c = q0 − 1`) with any `p ≥ 1`
example : (centerInt 97 96).natAbs ≤ 17 := by decide

end Lattigo.BasisExt

#print axioms Lattigo.BasisExt.hps_sum
#print axioms Lattigo.BasisExt.hps_sum_eq
#print axioms Lattigo.BasisExt.hpsV_lt
#print axioms Lattigo.BasisExt.hpsY_ok
#print axioms Lattigo.BasisExt.modUp_exact
#print axioms Lattigo.BasisExt.modUp_off_by_one_hi
#print axioms Lattigo.BasisExt.modUp_off_by_one_lo
#print axioms Lattigo.BasisExt.modDownRes_spec
#print axioms Lattigo.BasisExt.modDown_floor
#print axioms Lattigo.BasisExt.modDown_round
#print axioms Lattigo.BasisExt.modDown_err
#print axioms Lattigo.BasisExt.modDown_err_le_one
#print axioms Lattigo.BasisExt.extendSmallLimb_nonneg
#print axioms Lattigo.BasisExt.extendSmallLimb_neg
#print axioms Lattigo.BasisExt.extendSmall_spec
#print axioms Lattigo.BasisExt.extendSmall_large_repaired
#print axioms Lattigo.BasisExt.extendSmallWrap_spec
#print axioms Lattigo.BasisExt.extendSmallWrap_wraps
#print axioms Lattigo.BasisExt.extendSmallWrap_contract
