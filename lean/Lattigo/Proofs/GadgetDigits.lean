/-
  C04/C02 — integer digit recombination and the digit COUNT the code allots.

  * `digits_recombine_mod : Σ_{j<n} digit_j(x)·2^{wj} = x mod 2^{wn}` (unconditional), hence
    `digits_recombine` (`x < 2^{wn}` ⇒ exact) and `digits_drop_top` (`x ≥ 2^{wn}` ⇒ NOT exact).
  * `digitCount_sufficient`: the code's count `⌈bitlen(q)/w⌉` (fix C04-1) always covers `q`.
  * regression (PRE-FIX formula `⌈round(log2 q)/w⌉`, `baseTwoDigitsRoundLog2`): `roundLog2` facts;
    `digitCountRoundLog2_sufficient_iff`: for `2^k < q < 2^{k+1}` it covers `q` iff `q ≥ 2^{k+1/2}` or
    `w ∤ k`; `digitCountRoundLog2_counterexample` (q = 1207959937, w = 10).
-/
import Lattigo.Model.KeySwitch
import Mathlib.Algebra.BigOperators.Group.Finset.Basic
import Mathlib.Tactic.Ring
import Mathlib.Tactic.Linarith

namespace Lattigo.KS
open Finset

/-- the value reassembled from the first `n` base-`2^w` digits of `x` -/
def recombine (w n x : Nat) : Nat := ∑ j ∈ range n, bitDigit w j x * 2 ^ (w * j)

theorem bitDigit_eq (w j x : Nat) : bitDigit w j x = x / 2 ^ (w * j) % 2 ^ w := by
  simp only [bitDigit, Nat.and_two_pow_sub_one_eq_mod, Nat.shiftRight_eq_div_pow, Nat.mul_comm j w]

theorem bitDigit_lt (w j x : Nat) : bitDigit w j x < 2 ^ w := by
  rw [bitDigit_eq]; exact Nat.mod_lt _ (Nat.two_pow_pos w)

/-- the first `n` digits reassemble `x mod 2^{w·n}` — always -/
theorem digits_recombine_mod (w : Nat) : ∀ (n x : Nat), recombine w n x = x % 2 ^ (w * n)
  | 0, x => by simp [recombine, Nat.mod_one]
  | n + 1, x => by
      have ih := digits_recombine_mod w n x
      simp only [recombine] at ih ⊢
      rw [sum_range_succ, ih, bitDigit_eq]
      have : w * (n + 1) = w * n + w := by ring
      rw [this, Nat.pow_add, Nat.mod_mul]
      ring

/-- **digits_recombine**: if the `n` digits cover `x` (`x < 2^{w·n}`), they reassemble `x` exactly -/
theorem digits_recombine (w n x : Nat) (h : x < 2 ^ (w * n)) : recombine w n x = x := by
  rw [digits_recombine_mod, Nat.mod_eq_of_lt h]

/-- the form of the task statement: `q ≤ 2^{w·n}` and `x < q` -/
theorem digits_recombine_of_modulus (w n q x : Nat) (hq : q ≤ 2 ^ (w * n)) (hx : x < q) :
    recombine w n x = x :=
  digits_recombine w n x (Nat.lt_of_lt_of_le hx hq)

/-- if the digits do NOT cover `x`, the reassembled value is strictly smaller: the top part is lost -/
theorem digits_drop_top (w n x : Nat) (h : 2 ^ (w * n) ≤ x) : recombine w n x < x := by
  rw [digits_recombine_mod]
  exact Nat.lt_of_lt_of_le (Nat.mod_lt _ (Nat.two_pow_pos _)) h

/-! ### `roundLog2` and the allotted digit count -/

theorem log2_eq_of_bounds {q k : Nat} (h1 : 2 ^ k ≤ q) (h2 : q < 2 ^ (k + 1)) : Nat.log2 q = k := by
  have hq : q ≠ 0 := by
    intro h0; subst h0; exact absurd h1 (Nat.not_le.mpr (Nat.two_pow_pos k))
  have a : Nat.log2 q < k + 1 := (Nat.log2_lt hq).mpr h2
  have b : ¬ Nat.log2 q < k := by
    intro hlt
    have := (Nat.log2_lt hq).mp hlt
    omega
  omega

theorem roundLog2_eq_low {q k : Nat} (h1 : 2 ^ k ≤ q) (h2 : q < 2 ^ (k + 1))
    (h3 : q * q < 2 ^ (2 * k + 1)) : roundLog2 q = k := by
  simp only [roundLog2, log2_eq_of_bounds h1 h2]
  rw [if_neg (Nat.not_le.mpr h3)]

theorem roundLog2_eq_high {q k : Nat} (h1 : 2 ^ k ≤ q) (h2 : q < 2 ^ (k + 1))
    (h3 : 2 ^ (2 * k + 1) ≤ q * q) : roundLog2 q = k + 1 := by
  simp only [roundLog2, log2_eq_of_bounds h1 h2]
  rw [if_pos h3]

/-- `w·⌈r/w⌉ ≥ r`, with equality iff `w ∣ r` -/
theorem mul_ceilDiv_ge (r w : Nat) (hw : 0 < w) : r ≤ w * ((r + w - 1) / w) := by
  have h := Nat.div_add_mod (r + w - 1) w
  have hm := Nat.mod_lt (r + w - 1) hw
  omega

theorem mul_ceilDiv_gt_of_not_dvd (r w : Nat) (hw : 0 < w) (hd : ¬ w ∣ r) :
    r + 1 ≤ w * ((r + w - 1) / w) := by
  have h := mul_ceilDiv_ge r w hw
  rcases Nat.lt_or_ge r (w * ((r + w - 1) / w)) with hlt | hge
  · exact hlt
  · exact absurd ⟨(r + w - 1) / w, by omega⟩ hd

theorem mul_ceilDiv_eq_of_dvd (r w : Nat) (hw : 0 < w) (hd : w ∣ r) :
    w * ((r + w - 1) / w) = r := by
  obtain ⟨t, rfl⟩ := hd
  have : (w * t + w - 1) / w = t := by
    have h1 : w * t + w - 1 = (w - 1) + w * t := by omega
    rw [h1, Nat.add_mul_div_left _ _ hw, Nat.div_eq_of_lt (by omega)]
    omega
  rw [this]

/-- **regression, pre-fix formula**: for a modulus with `2^k < q < 2^{k+1}` and a base `2^w` (`w > 0`), the
    number of digits `n = ⌈round(log2 q)/w⌉` the code USED to allot satisfies `q ≤ 2^{w·n}`
    (every residue below `q` is covered) IFF `q ≥ 2^{k+1/2}` or `w ∤ k`.
    So the pre-fix code was wrong exactly for the primes in `(2^k, 2^{k+1/2})` with `w ∣ k`. -/
theorem digitCountRoundLog2_sufficient_iff (q k w : Nat) (hw : 0 < w) (h1 : 2 ^ k < q) (h2 : q < 2 ^ (k + 1)) :
    q ≤ 2 ^ (w * baseTwoDigitsRoundLog2 q w) ↔ (2 ^ (2 * k + 1) ≤ q * q ∨ ¬ w ∣ k) := by
  constructor
  · intro h
    by_contra hc
    rw [not_or, not_not] at hc
    obtain ⟨hlow, hd⟩ := hc
    have hr := roundLog2_eq_low (Nat.le_of_lt h1) h2 (Nat.not_le.mp hlow)
    simp only [baseTwoDigitsRoundLog2, hr, mul_ceilDiv_eq_of_dvd k w hw hd] at h
    omega
  · rintro (hhigh | hnd)
    · have hr := roundLog2_eq_high (Nat.le_of_lt h1) h2 hhigh
      simp only [baseTwoDigitsRoundLog2, hr]
      have := mul_ceilDiv_ge (k + 1) w hw
      exact Nat.le_trans (Nat.le_of_lt h2) (Nat.pow_le_pow_right (by decide) this)
    · rcases Nat.lt_or_ge (q * q) (2 ^ (2 * k + 1)) with hlow | hhigh
      · have hr := roundLog2_eq_low (Nat.le_of_lt h1) h2 hlow
        simp only [baseTwoDigitsRoundLog2, hr]
        have := mul_ceilDiv_gt_of_not_dvd k w hw hnd
        exact Nat.le_trans (Nat.le_of_lt h2) (Nat.pow_le_pow_right (by decide) this)
      · have hr := roundLog2_eq_high (Nat.le_of_lt h1) h2 hhigh
        simp only [baseTwoDigitsRoundLog2, hr]
        have := mul_ceilDiv_ge (k + 1) w hw
        exact Nat.le_trans (Nat.le_of_lt h2) (Nat.pow_le_pow_right (by decide) this)

/-- the witness prime: `2^30 < 1207959937 < 2^30.5`, `round(log2) = 30`, bit length 31 -/
theorem roundLog2_witness : roundLog2 1207959937 = 30 :=
  roundLog2_eq_low (k := 30) (by norm_num) (by norm_num) (by norm_num)

theorem baseTwoDigitsRoundLog2_witness : baseTwoDigitsRoundLog2 1207959937 10 = 3 := by
  simp only [baseTwoDigitsRoundLog2, roundLog2_witness]

/-- the PRE-FIX count does not always cover the modulus (the defect fixed by C04-1): witness
    `q = 1207959937` (an NTT-friendly prime for `N ≤ 64`), `w = 10` (also 15, and every divisor of 30) -/
theorem digitCountRoundLog2_counterexample :
    ¬ (∀ q w : Nat, 0 < w → q ≤ 2 ^ (w * baseTwoDigitsRoundLog2 q w)) := by
  intro h
  have := h 1207959937 10 (by decide)
  rw [baseTwoDigitsRoundLog2_witness] at this
  norm_num at this

/-- …and its consequence on the digits: a residue `x < q` whose top bit was lost -/
theorem digitsRoundLog2_recombine_counterexample :
    ∃ q w x : Nat, 0 < w ∧ x < q ∧ recombine w (baseTwoDigitsRoundLog2 q w) x ≠ x := by
  refine ⟨1207959937, 10, 2 ^ 30, by decide, by norm_num, ?_⟩
  rw [baseTwoDigitsRoundLog2_witness, digits_recombine_mod]
  norm_num

/-! ### the code's count (after fix C04-1) -/

theorem lt_two_pow_bitLen (q : Nat) : q < 2 ^ bitLen q := by
  unfold bitLen
  split
  · next h => subst h; decide
  · exact Nat.lt_log2_self

/-- **digitCount_sufficient**: the number of digits `BaseTwoDecompositionVectorSize` allots to `q`
    always covers `q`: `q ≤ 2^{w·n}` for every `q` and every `w > 0`. -/
theorem digitCount_sufficient (q w : Nat) (hw : 0 < w) : q ≤ 2 ^ (w * baseTwoDigits q w) := by
  have h := mul_ceilDiv_ge (bitLen q) w hw
  exact Nat.le_trans (Nat.le_of_lt (lt_two_pow_bitLen q))
    (Nat.pow_le_pow_right (by decide) (by simpa [baseTwoDigits] using h))

/-- hence every residue `x < q` is reassembled exactly from the digits the code extracts -/
theorem digits_recombine_code (q w x : Nat) (hw : 0 < w) (hx : x < q) :
    recombine w (baseTwoDigits q w) x = x :=
  digits_recombine_of_modulus w _ q x (digitCount_sufficient q w hw) hx

theorem bitLen_witness : bitLen 1207959937 = 31 := by
  have : Nat.log2 1207959937 = 30 := log2_eq_of_bounds (k := 30) (by norm_num) (by norm_num)
  simp [bitLen, this]

theorem baseTwoDigits_witness : baseTwoDigits 1207959937 10 = 4 := by
  simp only [baseTwoDigits, bitLen_witness]

end Lattigo.KS
