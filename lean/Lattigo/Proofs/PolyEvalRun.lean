/-
  C13 — reasoning about the machine (layer (B) of `Lattigo.Model.PolyEval`): `ex m st` runs a
  computation of the monad `M = ExceptT String (StateM St)` from a state; `Sat P m Q` is partial
  correctness ("from a state with `P`, IF `m` succeeds then `Q` holds of its result and final state").
-/
import Lattigo.Proofs.PolyEvalCheb

namespace Lattigo.Model.PolyEval

def ex {α : Type} (m : M α) (st : St) : Except String α × St := (ExceptT.run m).run st

@[simp] theorem ex_pure {α : Type} (a : α) (st : St) : ex (pure a : M α) st = (.ok a, st) := rfl

theorem ex_bind {α β : Type} (m : M α) (f : α → M β) (st : St) :
    ex (m >>= f) st = match ex m st with
      | (.ok a, s) => ex (f a) s
      | (.error e, s) => (.error e, s) := by
  simp only [ex, bind, ExceptT.bind, ExceptT.run, ExceptT.mk, StateT.bind, StateT.run]
  cases h : m st with
  | mk r s =>
    cases r with
    | ok a => simp [ExceptT.bindCont]
    | error e => simp [ExceptT.bindCont, pure, StateT.pure]

theorem ex_map {α β : Type} (f : α → β) (m : M α) (st : St) :
    ex (f <$> m) st = match ex m st with
      | (.ok a, s) => (.ok (f a), s)
      | (.error e, s) => (.error e, s) := by
  rw [map_eq_pure_bind, ex_bind]
  cases ex m st with
  | mk r s => cases r <;> rfl

@[simp] theorem ex_throw {α : Type} (e : String) (st : St) : ex (throw e : M α) st = (.error e, st) := rfl
@[simp] theorem ex_get (st : St) : ex (get : M St) st = (.ok st, st) := rfl
@[simp] theorem ex_modify (f : St → St) (st : St) : ex (modify f : M Unit) st = (.ok (), f st) := rfl
@[simp] theorem ex_log (s : String) (st : St) : ex (log s) st = (.ok (), { st with tr := st.tr ++ [s] }) := rfl
@[simp] theorem ex_setP (n : Nat) (o : Opd) (st : St) :
    ex (setP n o) st = (.ok (), { st with pb := (n, o) :: st.pb.filter (·.1 != n) }) := rfl
@[simp] theorem ex_hasP (n : Nat) (st : St) : ex (hasP n) st = (.ok ((st.pb.find? (·.1 == n)).isSome), st) := rfl

theorem ex_getP (n : Nat) (st : St) :
    ex (getP n) st = match st.pb.find? (·.1 == n) with
      | some (_, o) => (.ok o, st)
      | none => (.error "panic", st) := by
  unfold getP
  rw [ex_bind]
  simp only [ex_get]
  cases st.pb.find? (·.1 == n) with
  | none => rfl
  | some p => rfl

theorem ex_ite {α : Type} (c : Prop) [Decidable c] (a b : M α) (st : St) :
    ex (if c then a else b) st = if c then ex a st else ex b st := by
  split <;> rfl

theorem run_eq (env : Env) (polys : List (List Int)) (mapping : Option (List (List Nat)))
    (lazy : Bool) (inLevel inScale tScale : Nat) (x : List Int) :
    run env polys mapping lazy inLevel inScale tScale x =
      match ex (evaluate env polys mapping lazy inLevel inScale tScale x) {} with
      | (.ok o, st) => (st.tr, "ok", some o)
      | (.error e, st) => (st.tr, e, none) := by
  unfold run ex
  cases h : (ExceptT.run (evaluate env polys mapping lazy inLevel inScale tScale x)).run ({} : St) with
  | mk r st => cases r <;> rfl

end Lattigo.Model.PolyEval
