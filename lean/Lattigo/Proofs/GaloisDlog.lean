/-
  C11 proofs, part 4: `SolveDiscreteLogGaloisElement` inverts `GaloisElement`.
-/
import Lattigo.Proofs.Galois

namespace Lattigo.Proofs.Galois
open Lattigo Lattigo.Model.Galois

/-- The comparison made in every turn of the loop, in terms of exponents:
    `5^A ≡ g^X (mod 2^(t+3))` iff `A ≡ κ·X (mod 2^(t+1))` when `g ≡ 5^κ`. -/
theorem dlog_test_iff (t : Nat) (ht : t + 3 ≤ 64) (g κ A X : Nat) (hA : A < 2 ^ 64) (hX : X < 2 ^ 64)
    (hg : (g : ZMod (2 ^ (t + 3))) = (((five (t + 3)) ^ κ : (ZMod (2 ^ (t + 3)))ˣ) : ZMod (2 ^ (t + 3)))) :
    modExpPow2 galoisGen A (2 ^ (t + 3)) = modExpPow2 g X (2 ^ (t + 3)) ↔
      A ≡ κ * X [MOD 2 ^ (t + 1)] := by
  rw [modExpPow2_eq _ _ _ ht hA, modExpPow2_eq _ _ _ ht hX, ← orderOf_five t, ← pow_eq_pow_iff_modEq]
  unfold galoisGen
  constructor
  · intro h
    apply Units.ext
    have h2 : ((5 ^ A : Nat) : ZMod (2 ^ (t + 3))) = ((g ^ X : Nat) : ZMod (2 ^ (t + 3))) := by
      rw [ZMod.natCast_eq_natCast_iff]; exact h
    rw [pow_mul, Units.val_pow_eq_pow_val, Units.val_pow_eq_pow_val _ X, ← hg]
    simpa using h2
  · intro h
    have h2 := congrArg Units.val h
    rw [pow_mul, Units.val_pow_eq_pow_val, Units.val_pow_eq_pow_val _ X, ← hg] at h2
    have h3 : ((5 ^ A : Nat) : ZMod (2 ^ (t + 3))) = ((g ^ X : Nat) : ZMod (2 ^ (t + 3))) := by
      simpa using h2
    rw [ZMod.natCast_eq_natCast_iff] at h3
    exact h3

/-- arithmetic core: with `a = κ mod 2^e` the test succeeds iff bit `e` of `κ` is clear. -/
theorem bit_test (κ e s : Nat) :
    (κ % 2 ^ e) * 2 ^ s ≡ κ * 2 ^ s [MOD 2 ^ (e + s + 1)] ↔ κ / 2 ^ e % 2 = 0 := by
  have hsplit : κ % 2 ^ (e + 1) = κ % 2 ^ e + 2 ^ e * (κ / 2 ^ e % 2) := Nat.mod_pow_succ
  have hpow : 2 ^ (e + s + 1) = 2 ^ (e + 1) * 2 ^ s := by ring
  have hlt : κ % 2 ^ e < 2 ^ e := Nat.mod_lt _ (by positivity)
  have hle : 2 ^ e < 2 ^ (e + 1) := by rw [pow_succ]; omega
  rw [hpow]
  constructor
  · intro h
    have h1 := Nat.ModEq.mul_right_cancel' (by positivity) h
    unfold Nat.ModEq at h1
    rw [Nat.mod_eq_of_lt (by omega), hsplit] at h1
    have hp : 0 < 2 ^ e := by positivity
    rcases Nat.mod_two_eq_zero_or_one (κ / 2 ^ e) with h0 | h0
    · exact h0
    · rw [h0] at h1; omega
  · intro h
    apply Nat.ModEq.mul_right'
    unfold Nat.ModEq
    rw [Nat.mod_eq_of_lt (by omega), hsplit, h]; simp

/-- Loop invariant ⇒ result.  `x = 2^s`, the `e` low bits of `κ` are already known and sit in
    `kuint = (κ mod 2^e)·2^s`; `e + s = t`. -/
theorem dlogLoop_spec (t : Nat) (ht : t + 3 ≤ 64) (g κ : Nat) (hκ : κ < 2 ^ (t + 1))
    (hg : (g : ZMod (2 ^ (t + 3))) = (((five (t + 3)) ^ κ : (ZMod (2 ^ (t + 3)))ˣ) : ZMod (2 ^ (t + 3)))) :
    ∀ (s e fuel : Nat), e + s = t → s + 1 ≤ fuel →
      dlogLoop (2 ^ (t + 3)) g fuel (2 ^ s) ((κ % 2 ^ e) * 2 ^ s) = some κ := by
  intro s
  induction s with
  | zero =>
    intro e fuel hes hf
    obtain ⟨f, rfl⟩ : ∃ f, fuel = f + 1 := ⟨fuel - 1, by omega⟩
    have he : e = t := by omega
    subst he
    unfold dlogLoop
    simp only [pow_zero, Nat.mul_one, if_true]
    have hA : κ % 2 ^ e < 2 ^ 64 := by
      have : κ % 2 ^ e < 2 ^ e := Nat.mod_lt _ (by positivity)
      have : (2:Nat) ^ e ≤ 2 ^ 64 := Nat.pow_le_pow_right (by norm_num) (by omega)
      omega
    have htest := dlog_test_iff e ht g κ (κ % 2 ^ e) 1 hA (by norm_num) hg
    have hbit := bit_test κ e 0
    simp only [pow_zero, Nat.mul_one, Nat.add_zero] at hbit
    rw [Nat.mul_one] at htest
    have hsplit : κ % 2 ^ (e + 1) = κ % 2 ^ e + 2 ^ e * (κ / 2 ^ e % 2) := Nat.mod_pow_succ
    rw [Nat.mod_eq_of_lt hκ] at hsplit
    have hshift : 2 ^ (e + 3) >>> 3 = 2 ^ e := by
      rw [Nat.shiftRight_eq_div_pow, pow_add]; simp
    rw [hshift]
    by_cases hc : modExpPow2 galoisGen (κ % 2 ^ e) (2 ^ (e + 3)) = modExpPow2 g 1 (2 ^ (e + 3))
    · simp only [ne_eq, hc, not_true_eq_false, if_false]
      have := hbit.mp (htest.mp hc)
      rw [this] at hsplit; simp at hsplit; rw [← hsplit]
    · simp only [ne_eq, hc, not_false_eq_true, if_true]
      have hb : κ / 2 ^ e % 2 = 1 := by
        rcases Nat.mod_two_eq_zero_or_one (κ / 2 ^ e) with h0 | h0
        · exact absurd (htest.mpr (hbit.mpr h0)) hc
        · exact h0
      rw [hb] at hsplit
      have hlt : κ % 2 ^ e < 2 ^ e := Nat.mod_lt _ (by positivity)
      have := Nat.two_pow_add_eq_or_of_lt hlt 1
      rw [Nat.mul_one] at this
      rw [Nat.or_comm, ← this]; congr 1; omega
  | succ s ih =>
    intro e fuel hes hf
    obtain ⟨f, rfl⟩ : ∃ f, fuel = f + 1 := ⟨fuel - 1, by omega⟩
    unfold dlogLoop
    have hx1 : (2:Nat) ^ (s + 1) ≠ 1 := by
      have : 1 < 2 ^ (s + 1) := Nat.one_lt_two_pow (by omega)
      omega
    simp only [hx1, if_false]
    have hlt : κ % 2 ^ e < 2 ^ e := Nat.mod_lt _ (by positivity)
    have hkl : (κ % 2 ^ e) * 2 ^ (s + 1) < 2 ^ t := by
      rw [← hes, pow_add 2 e (s + 1)]
      exact Nat.mul_lt_mul_of_pos_right hlt (Nat.two_pow_pos _)
    have h64 : (2:Nat) ^ t ≤ 2 ^ 64 := Nat.pow_le_pow_right (by norm_num) (by omega)
    have hX : (2:Nat) ^ (s + 1) < 2 ^ 64 := Nat.pow_lt_pow_right (by norm_num) (by omega)
    have htest := dlog_test_iff t ht g κ ((κ % 2 ^ e) * 2 ^ (s + 1)) (2 ^ (s + 1)) (by omega) hX hg
    have hbit := bit_test κ e (s + 1)
    have hes' : e + (s + 1) + 1 = t + 1 := by omega
    rw [hes'] at hbit
    have hsplit : κ % 2 ^ (e + 1) = κ % 2 ^ e + 2 ^ e * (κ / 2 ^ e % 2) := Nat.mod_pow_succ
    have hshift : 2 ^ (t + 3) >>> 3 = 2 ^ t := by
      rw [Nat.shiftRight_eq_div_pow, pow_add]; simp
    rw [hshift, shr_one, shr_one]
    have hhalf : (2:Nat) ^ (s + 1) / 2 = 2 ^ s := by rw [pow_succ]; simp
    rw [hhalf]
    have key : (if modExpPow2 galoisGen (κ % 2 ^ e * 2 ^ (s + 1)) (2 ^ (t + 3)) ≠
          modExpPow2 g (2 ^ (s + 1)) (2 ^ (t + 3)) then κ % 2 ^ e * 2 ^ (s + 1) ||| 2 ^ t
        else κ % 2 ^ e * 2 ^ (s + 1)) / 2 = (κ % 2 ^ (e + 1)) * 2 ^ s := by
      by_cases hc : modExpPow2 galoisGen (κ % 2 ^ e * 2 ^ (s + 1)) (2 ^ (t + 3)) =
          modExpPow2 g (2 ^ (s + 1)) (2 ^ (t + 3))
      · simp only [ne_eq, hc, not_true_eq_false, if_false]
        have := hbit.mp (htest.mp hc)
        rw [hsplit, this, pow_succ, ← Nat.mul_assoc]; simp
      · simp only [ne_eq, hc, not_false_eq_true, if_true]
        have hb : κ / 2 ^ e % 2 = 1 := by
          rcases Nat.mod_two_eq_zero_or_one (κ / 2 ^ e) with h0 | h0
          · exact absurd (htest.mpr (hbit.mpr h0)) hc
          · exact h0
        have := Nat.two_pow_add_eq_or_of_lt hkl 1
        rw [Nat.mul_one] at this
        rw [Nat.or_comm, ← this, hsplit, hb]
        have ht2 : (2:Nat) ^ t = 2 ^ e * 2 ^ s * 2 := by rw [← hes]; ring
        rw [ht2, pow_succ, ← Nat.mul_assoc]
        have : 2 ^ e * 2 ^ s * 2 + κ % 2 ^ e * 2 ^ s * 2 = ((κ % 2 ^ e + 2 ^ e * 1) * 2 ^ s) * 2 := by ring
        rw [this]; simp
    rw [key]
    exact ih (e + 1) f (by omega) (by omega)

/-- `dlog_galEl`: `SolveDiscreteLogGaloisElement(GaloisElement(k)) = k mod (nthRoot/4)` for every
    Go `int` `k` and every `nthRoot = 2^(t+3)`, `8 ≤ nthRoot ≤ 2^64`. -/
theorem dlog_galEl (t : Nat) (ht : t + 3 ≤ 64) (k : Int) :
    solveDiscreteLog (2 ^ (t + 3)) (galEl (2 ^ (t + 3)) k) = some (k % ((2 ^ (t + 1) : Nat) : Int)).toNat := by
  unfold solveDiscreteLog
  have hpos : (0 : Int) < ((2 ^ (t + 1) : Nat) : Int) := by positivity
  have hnn : 0 ≤ k % ((2 ^ (t + 1) : Nat) : Int) := Int.emod_nonneg _ (by omega)
  have hlt : k % ((2 ^ (t + 1) : Nat) : Int) < ((2 ^ (t + 1) : Nat) : Int) := Int.emod_lt_of_pos _ hpos
  set κ := (k % ((2 ^ (t + 1) : Nat) : Int)).toNat with hκdef
  have hκc : ((κ : Nat) : Int) = k % ((2 ^ (t + 1) : Nat) : Int) := by omega
  have hκ : κ < 2 ^ (t + 1) := by omega
  have hg : ((galEl (2 ^ (t + 3)) k : Nat) : ZMod (2 ^ (t + 3))) =
      (((five (t + 3)) ^ κ : (ZMod (2 ^ (t + 3)))ˣ) : ZMod (2 ^ (t + 3))) := by
    rw [galEl_mod_slots t ht, galEl_cast _ (by omega) ht, ← hκc, zpow_natCast]
  have hshift : 2 ^ (t + 3) >>> 3 = 2 ^ t := by
    rw [Nat.shiftRight_eq_div_pow, pow_add]; simp
  rw [hshift]
  have := dlogLoop_spec t ht _ κ hκ hg t 0 64 (by omega) (by omega)
  simpa [Nat.mod_one] using this

end Lattigo.Proofs.Galois
