/-
  C01: closed form of the REGENERATED `Gen.AutomorphismNTTIndex` (ring/automorphism.go) and of the
  primitive `bitRev64` (utils.BitReverse64) it uses.
-/
import Lattigo.Gen.Automorphism
import Lattigo.Proofs.NTTTables
import Mathlib.Data.Nat.Bitwise

namespace Lattigo.NTT
open Lattigo Lattigo.Gen

/-! ### `utils.BitReverse64` -/

theorem reverse64_eq (x : ℕ) : reverse64 x = bitRev x 64 := rfl

theorem bitRev_shift (x k : ℕ) : ∀ d : ℕ, bitRev x (k + d) / 2 ^ d = bitRev x k
  | 0 => by simp
  | d + 1 => by
    rw [← Nat.add_assoc, bitRev_succ_last, Nat.pow_succ, Nat.mul_comm (2 ^ d) 2,
      ← Nat.div_div_eq_div_mul]
    have : (bitRev x (k + d) * 2 + x / 2 ^ (k + d) % 2) / 2 = bitRev x (k + d) := by omega
    rw [this, bitRev_shift x k d]

/-- **`utils.BitReverse64(x, k)` is the reversal of the `k` low bits of `x`** (the Model's
    `NTT.bitRev`), for every `x` and every `k ≤ 64`. -/
theorem bitRev64_eq (x k : ℕ) (hk : k ≤ 64) : bitRev64 x k = bitRev x k := by
  unfold bitRev64 u64shr u64sub
  have h1 : (64 + W - k % W) % W = 64 - k := by unfold W; omega
  rw [h1, reverse64_eq]
  have := bitRev_shift x k (64 - k)
  rwa [show k + (64 - k) = 64 by omega] at this

/-! ### `bits.Len64` of a mask -/

theorem len64_two_pow_sub_one (m : ℕ) (hm : 1 ≤ m) : len64 (2 ^ m - 1) = m := by
  unfold len64
  have h2 : 2 ≤ 2 ^ m := by
    calc 2 = 2 ^ 1 := by norm_num
      _ ≤ 2 ^ m := Nat.pow_le_pow_right (by norm_num) hm
  have hpos : 2 ^ m - 1 ≠ 0 := by omega
  rw [if_neg hpos]
  have h1 : (2 ^ m - 1).log2 < m := (Nat.log2_lt hpos).mpr (by omega)
  have h3 : m - 1 ≤ (2 ^ m - 1).log2 := (Nat.le_log2 hpos).mpr (by
    have : 2 ^ m = 2 ^ (m - 1) * 2 := by rw [← pow_succ]; congr 1; omega
    have : 0 < 2 ^ (m - 1) := by positivity
    omega)
  omega

/-! ### one entry of the table -/

/-- entry `i` of the index table in plain arithmetic (`L = m − 1 = logNthRoot`, `NthRoot = 2^m`) -/
def autIdx (m gal i : ℕ) : ℕ :=
  bitRev ((gal * (2 * bitRev i (m - 1) + 1) % 2 ^ m - 1) / 2) (m - 1)

theorem autIdx_entry (m gal i : ℕ) (hm1 : 1 ≤ m) (hm : m ≤ 64) (hodd : gal % 2 = 1) :
    bitRev64 (u64shr (u64sub (u64and (u64mul gal (u64add (u64mul 2 (bitRev64 i (m - 1))) 1))
        (u64sub (2 ^ m) 1)) 1) 1) (m - 1) = autIdx m gal i := by
  unfold autIdx
  rw [bitRev64_eq _ (m - 1) (by omega), bitRev64_eq i (m - 1) (by omega)]
  apply congrArg (fun t => bitRev t (m - 1))
  have hW : W = 2 ^ 64 := W_eq
  have hr := bitRev_lt (m - 1) i
  have h63 : 2 ^ (m - 1) ≤ 2 ^ 63 := Nat.pow_le_pow_right (by norm_num) (by omega)
  have hle : 2 ^ m ≤ 2 ^ 64 := Nat.pow_le_pow_right (by norm_num) hm
  have hpos : 0 < 2 ^ m := by positivity
  have ht1 : u64add (u64mul 2 (bitRev i (m - 1))) 1 = 2 * bitRev i (m - 1) + 1 := by
    unfold u64add u64mul
    rw [Nat.mod_eq_of_lt (by rw [hW]; omega), Nat.mod_eq_of_lt (by rw [hW]; omega)]
  have hmask1 : u64sub (2 ^ m) 1 = 2 ^ m - 1 := by
    unfold u64sub
    rw [hW, show (1 : ℕ) % 2 ^ 64 = 1 by norm_num, show 2 ^ m + 2 ^ 64 - 1 = (2 ^ m - 1) + 2 ^ 64 by omega,
      Nat.add_mod_right, Nat.mod_eq_of_lt (by omega)]
  rw [ht1, hmask1]
  have hmask : u64and (u64mul gal (2 * bitRev i (m - 1) + 1)) (2 ^ m - 1)
      = gal * (2 * bitRev i (m - 1) + 1) % 2 ^ m := by
    unfold u64and u64mul
    rw [Nat.and_two_pow_sub_one_eq_mod, hW, Nat.mod_mod_of_dvd _ (Nat.pow_dvd_pow 2 hm)]
  rw [hmask]
  have hoddv : gal * (2 * bitRev i (m - 1) + 1) % 2 ^ m % 2 = 1 := by
    have hd : 2 ∣ 2 ^ m := dvd_pow_self 2 (by omega)
    rw [Nat.mod_mod_of_dvd _ hd, Nat.mul_mod, hodd]; simp [Nat.add_mod]
  have hlt : gal * (2 * bitRev i (m - 1) + 1) % 2 ^ m < 2 ^ m := Nat.mod_lt _ hpos
  generalize gal * (2 * bitRev i (m - 1) + 1) % 2 ^ m = a at *
  unfold u64shr u64sub
  rw [hW, show (1 : ℕ) % 2 ^ 64 = 1 by norm_num, show a + 2 ^ 64 - 1 = (a - 1) + 2 ^ 64 by omega,
    Nat.add_mod_right, Nat.mod_eq_of_lt (by omega)]

/-- **`autIndex_spec`** (general `NthRoot = 2^m`, `N = 2^K`): the regenerated
`ring.AutomorphismNTTIndex(N, NthRoot, GalEl)` returns no error and, for odd `GalEl`,
`index[i] = brv((GalEl·(2·brv(i)+1) mod NthRoot − 1)/2)` with `brv` on `log2(NthRoot) − 1` bits. -/
theorem AutomorphismNTTIndex_eq (K m gal : ℕ) (hK : K < 64) (hm1 : 1 ≤ m) (hm : m ≤ 64)
    (hodd : gal % 2 = 1) :
    AutomorphismNTTIndex (2 ^ K) (2 ^ m) gal = some ((List.range (2 ^ K)).map (autIdx m gal)) := by
  have hW : W = 2 ^ 64 := W_eq
  have hsub : ∀ e : ℕ, e ≤ 64 → u64sub (2 ^ e) 1 = 2 ^ e - 1 := by
    intro e he
    have hle : 2 ^ e ≤ 2 ^ 64 := Nat.pow_le_pow_right (by norm_num) he
    have hpos : 0 < 2 ^ e := by positivity
    unfold u64sub
    rw [hW, show (1 : ℕ) % 2 ^ 64 = 1 by norm_num, show 2 ^ e + 2 ^ 64 - 1 = (2 ^ e - 1) + 2 ^ 64 by omega,
      Nat.add_mod_right, Nat.mod_eq_of_lt (by omega)]
  have hand : ∀ e : ℕ, e ≤ 64 → u64and (2 ^ e) (u64sub (2 ^ e) 1) = 0 := by
    intro e he
    rw [hsub e he]; unfold u64and
    rw [Nat.and_two_pow_sub_one_eq_mod]; simp
  have hlog : u64sub (len64 (u64sub (2 ^ m) 1)) 1 = m - 1 := by
    rw [hsub m hm, len64_two_pow_sub_one m hm1]
    unfold u64sub; unfold W; omega
  unfold AutomorphismNTTIndex
  rw [hand K (by omega), hand m hm, hlog]
  simp only []
  refine congrArg some (List.map_congr_left ?_)
  intro i _
  exact autIdx_entry m gal i hm1 hm hodd

theorem autIdx_lt (m gal i : ℕ) : autIdx m gal i < 2 ^ (m - 1) := bitRev_lt _ _

/-- `2·brv(index[i]) + 1 = GalEl·(2·brv(i)+1) mod NthRoot`: the index table transports the odd
    exponent `2·brv(i)+1` of the `i`-th evaluation point to the exponent multiplied by `GalEl` -/
theorem autIdx_exponent (m gal i : ℕ) (hm1 : 1 ≤ m) (hodd : gal % 2 = 1) :
    2 * bitRev (autIdx m gal i) (m - 1) + 1 = gal * (2 * bitRev i (m - 1) + 1) % 2 ^ m := by
  unfold autIdx
  have hoddv : gal * (2 * bitRev i (m - 1) + 1) % 2 ^ m % 2 = 1 := by
    have hd : 2 ∣ 2 ^ m := dvd_pow_self 2 (by omega)
    rw [Nat.mod_mod_of_dvd _ hd, Nat.mul_mod, hodd]; simp [Nat.add_mod]
  have hlt : gal * (2 * bitRev i (m - 1) + 1) % 2 ^ m < 2 ^ m := Nat.mod_lt _ (by positivity)
  have h2m : 2 ^ m = 2 ^ (m - 1) * 2 := by rw [← pow_succ]; congr 1; omega
  generalize gal * (2 * bitRev i (m - 1) + 1) % 2 ^ m = a at *
  rw [bitRev_invol (m - 1) ((a - 1) / 2) (by omega)]
  omega

end Lattigo.NTT
