/-
  Proofs about `Lattigo.EncoderC`: fixed-point conversion error, `decodePublic` rounding, the
  `rotGroup` table is the orbit `5^i mod m` and, for `m = 2^k`, its `m/4` entries are pairwise distinct
  (5 has order `2^(k-2)` modulo `2^k`).
-/
import Lattigo.Model.EncoderC
import Mathlib.Data.Nat.ModEq
import Mathlib.Data.Nat.Prime.Basic
import Mathlib.Algebra.Order.Field.Power
import Mathlib.Tactic.Ring
import Mathlib.Tactic.Linarith
import Mathlib.Tactic.Positivity
import Mathlib.Tactic.FieldSimp
import Mathlib.Tactic.Push
import Mathlib.Tactic.IntervalCases

namespace Lattigo.EncoderC

/-! ## fixed point -/

/-- round half away from zero is within `1/2`. -/
theorem roundHalfAway_spec (num : ℤ) (den : ℕ) (hd : 0 < den) :
    |(roundHalfAway num den : ℚ) - (num : ℚ) / den| ≤ 1 / 2 := by
  unfold roundHalfAway
  have hdq : (0 : ℚ) < (den : ℚ) := by exact_mod_cast hd
  set n := num.natAbs with hn
  set q := (2 * n + den) / (2 * den) with hq
  have h2d : 0 < 2 * den := by omega
  have hdm := Nat.div_add_mod (2 * n + den) (2 * den)
  have hmod := Nat.mod_lt (2 * n + den) h2d
  set r := (2 * n + den) % (2 * den) with hr
  have hq1 : (2 * (n : ℚ) + den) = (2 * den) * (q : ℚ) + (r : ℚ) := by exact_mod_cast hdm.symm
  have hr1 : (r : ℚ) < 2 * den := by exact_mod_cast hmod
  have hr0 : (0 : ℚ) ≤ (r : ℚ) := by positivity
  -- |q - n/den| ≤ 1/2
  have key : |(q : ℚ) - (n : ℚ) / den| ≤ 1 / 2 := by
    rw [abs_le]
    constructor
    · rw [neg_le_sub_iff_le_add, div_le_iff₀ hdq]; nlinarith
    · rw [sub_le_iff_le_add, ← sub_le_iff_le_add', le_div_iff₀ hdq]; nlinarith
  by_cases hneg : num < 0
  · simp only [hneg, if_true]
    have : (num : ℚ) = -(n : ℚ) := by
      have : num = -(n : ℤ) := by omega
      rw [this]; push_cast; ring
    rw [this]; push_cast
    have e : -(q : ℚ) - -(n : ℚ) / den = -((q : ℚ) - (n : ℚ) / den) := by ring
    rw [e, abs_neg]; exact key
  · simp only [hneg, if_false]
    have : (num : ℚ) = (n : ℚ) := by
      have : num = (n : ℤ) := by omega
      rw [this]; push_cast; ring
    rw [this]; push_cast; exact key

/-- **fixed-point round trip** on exact rationals: encoding `x = xn/xd` at scale `Δ = sn/sd` and
    dividing the integer by `Δ` returns `x` up to `1/(2Δ)`. -/
theorem fixedpoint_roundtrip (xn : ℤ) (xd sn sd : ℕ) (hxd : 0 < xd) (hsn : 0 < sn) (hsd : 0 < sd) :
    |(encodeFP xn xd sn sd : ℚ) / ((sn : ℚ) / sd) - (xn : ℚ) / xd| ≤ 1 / (2 * ((sn : ℚ) / sd)) := by
  unfold encodeFP
  have h := roundHalfAway_spec (xn * sn) (xd * sd) (Nat.mul_pos hxd hsd)
  have hΔ : (0 : ℚ) < (sn : ℚ) / sd := by positivity
  have hxdq : (xd : ℚ) ≠ 0 := by positivity
  have hsdq : (sd : ℚ) ≠ 0 := by positivity
  have hsnq : (sn : ℚ) ≠ 0 := by positivity
  set c : ℚ := (roundHalfAway (xn * sn) (xd * sd) : ℚ) with hc
  have e1 : ((xn * sn : ℤ) : ℚ) / ((xd * sd : ℕ) : ℚ) = (xn : ℚ) / xd * ((sn : ℚ) / sd) := by
    push_cast; field_simp
  rw [e1] at h
  have e2 : c / ((sn : ℚ) / sd) - (xn : ℚ) / xd = (c - (xn : ℚ) / xd * ((sn : ℚ) / sd)) / ((sn : ℚ) / sd) := by
    field_simp
  rw [e2, abs_div, abs_of_pos hΔ, div_le_iff₀ hΔ]
  calc |c - (xn : ℚ) / xd * ((sn : ℚ) / sd)| ≤ 1 / 2 := h
    _ = 1 / (2 * ((sn : ℚ) / sd)) * ((sn : ℚ) / sd) := by field_simp

/-- `decodePublic`: the published value `k / 2^logprec` is a multiple of `2^-logprec` within
    `2^-(logprec+1)` of the decoded value. -/
theorem roundToPrec_spec (num : ℤ) (den logprec : ℕ) (hd : 0 < den) :
    ((roundToPrec num den logprec : ℚ) / 2 ^ logprec) * 2 ^ logprec = (roundToPrec num den logprec : ℚ) ∧
    |(roundToPrec num den logprec : ℚ) / 2 ^ logprec - (num : ℚ) / den| ≤ 1 / (2 * 2 ^ logprec) := by
  have hp : (0 : ℚ) < 2 ^ logprec := by positivity
  constructor
  · field_simp
  · unfold roundToPrec
    have h := roundHalfAway_spec (num * 2 ^ logprec) den hd
    set c : ℚ := (roundHalfAway (num * 2 ^ logprec) den : ℚ)
    have e1 : ((num * 2 ^ logprec : ℤ) : ℚ) / den = (num : ℚ) / den * 2 ^ logprec := by push_cast; ring
    rw [e1] at h
    have e2 : c / 2 ^ logprec - (num : ℚ) / den = (c - (num : ℚ) / den * 2 ^ logprec) / 2 ^ logprec := by
      field_simp
    rw [e2, abs_div, abs_of_pos hp, div_le_iff₀ hp]
    calc |c - (num : ℚ) / den * 2 ^ logprec| ≤ 1 / 2 := h
      _ = 1 / (2 * 2 ^ logprec) * 2 ^ logprec := by field_simp

/-- the centred lift inverts the reduction on the centred range. -/
theorem centerLift_mod (c : ℤ) (Q : ℕ) (hQ : 0 < Q) (hlo : -((Q : ℤ) - (Q / 2 : ℕ)) ≤ c) (hhi : c < ((Q / 2 : ℕ) : ℤ)) :
    centerLift (c % (Q : ℤ)).toNat Q = c := by
  unfold centerLift
  have hQ' : (0 : ℤ) < Q := by exact_mod_cast hQ
  have h0 := Int.emod_nonneg c (ne_of_gt hQ')
  have h1 := Int.emod_lt_of_pos c hQ'
  have hh : ((Q / 2 : ℕ) : ℤ) ≤ Q := by exact_mod_cast Nat.div_le_self Q 2
  by_cases hc : 0 ≤ c
  · have : c % (Q : ℤ) = c := Int.emod_eq_of_lt hc (by omega)
    rw [this]
    have : ¬ (Q / 2 ≤ c.toNat) := by omega
    rw [if_neg this]; omega
  · have hc' : c < 0 := by omega
    have : c % (Q : ℤ) = c + Q := by
      rw [← Int.add_mul_emod_self_left c Q 1]
      simp only [mul_one]
      exact Int.emod_eq_of_lt (by omega) (by omega)
    rw [this]
    have : Q / 2 ≤ (c + Q).toNat := by omega
    rw [if_pos this]; omega

/-! ## index tables -/

theorem rotGroupFrom_eq (m : ℕ) : ∀ (n cur : ℕ), cur < m →
    rotGroupFrom m n cur = (List.range n).map (fun i => cur * 5 ^ i % m)
  | 0, cur, _ => rfl
  | n + 1, cur, h => by
    have hm : 0 < m := by omega
    rw [rotGroupFrom, rotGroupFrom_eq m n (cur * 5 % m) (Nat.mod_lt _ hm), List.range_succ_eq_map,
      List.map_cons, List.map_map]
    congr 1
    · simp [Nat.mod_eq_of_lt h]
    · apply List.map_congr_left
      intro i _
      simp only [Function.comp]
      rw [pow_succ, Nat.mod_mul_mod]
      congr 1; ring

/-- the table built by `NewEncoder` is `i ↦ 5^i mod m`. -/
theorem rotGroup_eq (m : ℕ) (hm : 1 < m) :
    rotGroup m = (List.range (m / 4)).map (fun i => 5 ^ i % m) := by
  unfold rotGroup
  rw [rotGroupFrom_eq m _ _ (Nat.mod_lt _ (by omega))]
  apply List.map_congr_left
  intro i _
  rw [Nat.mod_eq_of_lt hm, one_mul]

theorem rotGroup_getElem (m : ℕ) (hm : 1 < m) (i : ℕ) (hi : i < m / 4) :
    (rotGroup m)[i]? = some (5 ^ i % m) := by
  rw [rotGroup_eq m hm]
  simp [hi]

/-- odd powers of 5 are `5 mod 8`, all powers are `1 mod 4`. -/
theorem five_pow_mod4 (d : ℕ) : 5 ^ d % 4 = 1 := by
  induction d with
  | zero => rfl
  | succ d ih => rw [pow_succ, Nat.mul_mod, ih]

theorem five_pow_odd_mod8 (s : ℕ) : 5 ^ (2 * s + 1) % 8 = 5 := by
  induction s with
  | zero => rfl
  | succ s ih =>
    have : 5 ^ (2 * (s + 1) + 1) = 5 ^ (2 * s + 1) * 25 := by ring
    rw [this, Nat.mul_mod, ih]

/-- 5 has order `2^(k-2)` modulo `2^k`: no smaller positive exponent gives 1. -/
theorem five_pow_ne_one : ∀ (k : ℕ), 2 ≤ k → ∀ d, 0 < d → d < 2 ^ (k - 2) → 5 ^ d % 2 ^ k ≠ 1
  | 0, h, _, _, _ => by omega
  | 1, h, _, _, _ => by omega
  | 2, _, d, hd, hlt => by simp at hlt; omega
  | k + 3, _, d, hd, hlt => by
    have ih := five_pow_ne_one (k + 2) (by omega)
    intro h1
    have h8 : 2 ^ (k + 3) = 8 * 2 ^ k := by ring
    rcases Nat.even_or_odd' d with ⟨s, hs | hs⟩
    · -- d = 2s
      have hs0 : 0 < s := by omega
      have hslt : s < 2 ^ (k + 2 - 2) := by
        have : 2 ^ (k + 3 - 2) = 2 * 2 ^ (k + 2 - 2) := by
          have : k + 3 - 2 = (k + 2 - 2) + 1 := by omega
          rw [this, pow_succ]; ring
        omega
      apply ih s hs0 hslt
      set y := 5 ^ s with hy
      have hy4 : y % 4 = 1 := five_pow_mod4 s
      have hyd : 5 ^ d = y * y := by rw [hs, hy, two_mul, pow_add]
      -- 2^(k+3) ∣ y² − 1 = (y−1)(y+1)
      have hy1 : 1 ≤ y := Nat.one_le_pow _ _ (by norm_num)
      have hdvd : 2 ^ (k + 3) ∣ y * y - 1 := by
        rw [← hyd]
        exact (Nat.modEq_iff_dvd' (Nat.one_le_pow _ _ (by norm_num))).mp
          (by unfold Nat.ModEq; rw [h1, Nat.mod_eq_of_lt]; exact Nat.one_lt_two_pow (by omega))
      -- y + 1 = 2 w with w odd
      obtain ⟨w, hw⟩ : ∃ w, y + 1 = 2 * (2 * w + 1) := ⟨y / 4, by omega⟩
      have hfac : y * y - 1 = (y - 1) * (y + 1) := by
        have : y * y = (y - 1) * (y + 1) + 1 := by
          obtain ⟨z, hz⟩ : ∃ z, y = z + 1 := ⟨y - 1, by omega⟩
          rw [hz]; simp; ring
        omega
      rw [hfac, hw] at hdvd
      have h2 : 2 ^ (k + 3) = 2 * 2 ^ (k + 2) := by ring
      rw [h2, show (y - 1) * (2 * (2 * w + 1)) = 2 * ((y - 1) * (2 * w + 1)) by ring] at hdvd
      have hdvd' : 2 ^ (k + 2) ∣ (y - 1) * (2 * w + 1) := Nat.dvd_of_mul_dvd_mul_left (by norm_num) hdvd
      have hcop : Nat.Coprime (2 ^ (k + 2)) (2 * w + 1) := by
        apply Nat.Coprime.pow_left
        exact (Nat.Prime.coprime_iff_not_dvd Nat.prime_two).mpr (by omega)
      have hfin : 2 ^ (k + 2) ∣ y - 1 := hcop.dvd_of_dvd_mul_right hdvd'
      have := (Nat.modEq_iff_dvd' hy1).mpr hfin
      unfold Nat.ModEq at this
      rw [← this, Nat.mod_eq_of_lt]
      exact Nat.one_lt_two_pow (by omega)
    · -- d odd: 5^d ≡ 5 (mod 8)
      have h5 := five_pow_odd_mod8 s
      rw [← hs] at h5
      have : 5 ^ d % 2 ^ (k + 3) % 8 = 5 ^ d % 8 := by
        rw [h8]; exact Nat.mod_mul_right_mod _ _ _
      rw [h1, h5] at this
      omega

/-- **orbit property**: for `m = 2^k` the `m/4` entries `5^i mod m` of `rotGroup` are pairwise
    distinct, i.e. the slot index ↦ Galois element map is injective (a permutation of the orbit of 5). -/
theorem five_pow_injective (k : ℕ) (hk : 2 ≤ k) (i j : ℕ) (hi : i < 2 ^ (k - 2)) (hj : j < 2 ^ (k - 2))
    (h : 5 ^ i % 2 ^ k = 5 ^ j % 2 ^ k) : i = j := by
  wlog hij : i ≤ j with H
  · exact (H k hk j i hj hi h.symm (by omega)).symm
  by_contra hne
  have hd : 0 < j - i := by omega
  have hlt : j - i < 2 ^ (k - 2) := by omega
  apply five_pow_ne_one k hk (j - i) hd hlt
  have hcop : Nat.gcd (2 ^ k) (5 ^ i) = 1 := by
    apply Nat.Coprime.pow; decide
  have hmod : 5 ^ i * 5 ^ (j - i) ≡ 5 ^ i * 1 [MOD 2 ^ k] := by
    unfold Nat.ModEq
    rw [← pow_add, mul_one, show i + (j - i) = j by omega]
    exact h.symm
  have := Nat.ModEq.cancel_left_of_coprime hcop hmod
  unfold Nat.ModEq at this
  rw [this, Nat.mod_eq_of_lt]
  exact Nat.one_lt_two_pow (by omega)

/-- `rotGroup (2^k)` has no repeated entry. -/
theorem rotGroup_nodup (k : ℕ) (hk : 2 ≤ k) : (rotGroup (2 ^ k)).Nodup := by
  rw [rotGroup_eq _ (Nat.one_lt_two_pow (by omega))]
  have h4 : 2 ^ k / 4 = 2 ^ (k - 2) := by
    have : 2 ^ k = 2 ^ (k - 2) * 4 := by
      have : k = (k - 2) + 2 := by omega
      conv_lhs => rw [this, pow_add]
      norm_num
    rw [this, Nat.mul_div_cancel _ (by norm_num)]
  rw [h4]
  apply List.Nodup.map_on _ List.nodup_range
  intro i hi j hj h
  exact five_pow_injective k hk i j (List.mem_range.mp hi) (List.mem_range.mp hj) h

end Lattigo.EncoderC

namespace Lattigo.EncoderC

/-! ## bit reversal -/

theorem bitRev_lt : ∀ (b i : ℕ), bitRev b i < 2 ^ b
  | 0, _ => by simp [bitRev]
  | b + 1, i => by
    have ih := bitRev_lt b (i / 2)
    have h2 : i % 2 < 2 := Nat.mod_lt _ (by norm_num)
    unfold bitRev
    rw [pow_succ]
    rcases Nat.lt_succ_iff.mp h2 with h
    interval_cases (i % 2) <;> omega

/-- `bitRev b` is injective on `[0, 2^b)`, hence (with `bitRev_lt`) a permutation of `[0, 2^b)`. -/
theorem bitRev_injOn : ∀ (b i j : ℕ), i < 2 ^ b → j < 2 ^ b → bitRev b i = bitRev b j → i = j
  | 0, i, j, hi, hj, _ => by simp at hi hj; omega
  | b + 1, i, j, hi, hj, h => by
    unfold bitRev at h
    have hi' : i / 2 < 2 ^ b := by rw [pow_succ] at hi; omega
    have hj' : j / 2 < 2 ^ b := by rw [pow_succ] at hj; omega
    have li := bitRev_lt b (i / 2)
    have lj := bitRev_lt b (j / 2)
    have hi2 : i % 2 < 2 := Nat.mod_lt _ (by norm_num)
    have hj2 : j % 2 < 2 := Nat.mod_lt _ (by norm_num)
    have hmod : i % 2 = j % 2 ∧ bitRev b (i / 2) = bitRev b (j / 2) := by
      generalize bitRev b (i / 2) = x at *
      generalize bitRev b (j / 2) = y at *
      generalize 2 ^ b = p at *
      interval_cases hi3 : (i % 2) <;> interval_cases hj3 : (j % 2) <;> simp_all <;> omega
    have := bitRev_injOn b (i / 2) (j / 2) hi' hj' hmod.2
    omega

end Lattigo.EncoderC

namespace Lattigo.EncoderC

/-! ## nearest-multiple contract of `decodePublic`, conjugate exponents -/

/-- `roundHalfAway num den` is a nearest integer to `num/den`: no integer is strictly closer. -/
theorem roundHalfAway_nearest_int (num : ℤ) (den : ℕ) (hd : 0 < den) (k' : ℤ) :
    |(roundHalfAway num den : ℚ) - (num : ℚ) / den| ≤ |(k' : ℚ) - (num : ℚ) / den| := by
  have h := roundHalfAway_spec num den hd
  by_contra hlt
  push Not at hlt
  have h1 : |(k' : ℚ) - (roundHalfAway num den : ℚ)| < 1 := by
    calc |(k' : ℚ) - (roundHalfAway num den : ℚ)|
        = |((k' : ℚ) - (num : ℚ) / den) - ((roundHalfAway num den : ℚ) - (num : ℚ) / den)| := by congr 1; ring
      _ ≤ |(k' : ℚ) - (num : ℚ) / den| + |(roundHalfAway num den : ℚ) - (num : ℚ) / den| := abs_sub _ _
      _ < 1 := by linarith
  have h2 : |k' - roundHalfAway num den| < 1 := by exact_mod_cast h1
  have h3 : k' = roundHalfAway num den := by
    have := abs_lt.mp h2; omega
  rw [h3] at hlt
  exact lt_irrefl _ hlt

/-- **DecodePublic contract**: the published value `k/2^logprec` is a NEAREST multiple of `2^-logprec`. -/
theorem roundToPrec_nearest (num : ℤ) (den logprec : ℕ) (hd : 0 < den) (k' : ℤ) :
    |(roundToPrec num den logprec : ℚ) / 2 ^ logprec - (num : ℚ) / den|
      ≤ |(k' : ℚ) / 2 ^ logprec - (num : ℚ) / den| := by
  unfold roundToPrec
  have h := roundHalfAway_nearest_int (num * 2 ^ logprec) den hd k'
  have hp : (0 : ℚ) < 2 ^ logprec := by positivity
  have e : ∀ c : ℚ, c / 2 ^ logprec - (num : ℚ) / den = (c - ((num * 2 ^ logprec : ℤ) : ℚ) / den) / 2 ^ logprec := by
    intro c; push_cast; field_simp
  rw [e, e, abs_div, abs_div, abs_of_pos hp]
  exact div_le_div_of_nonneg_right h hp.le

/-- ties go away from zero (`math.Round`, resp. `±0.5` then truncation). -/
theorem roundHalfAway_tie (h : ℤ) : roundHalfAway (2 * h + 1) 2 = if 0 ≤ 2 * h + 1 then h + 1 else h := by
  unfold roundHalfAway
  dsimp only
  split <;> split <;> omega

/-- slot `i` and the conjugate of slot `j` never share an exponent: `5^i ≢ −5^j (mod 2^k)`, `k ≥ 2`. -/
theorem five_pow_ne_neg_five_pow (k : ℕ) (hk : 2 ≤ k) (i j : ℕ) : (5 ^ i + 5 ^ j) % 2 ^ k ≠ 0 := by
  intro h
  have h4 : (2 : ℕ) ^ k = 4 * 2 ^ (k - 2) := by
    have : k = (k - 2) + 2 := by omega
    conv_lhs => rw [this, pow_add]
    ring
  have hd : 4 ∣ 5 ^ i + 5 ^ j := by
    have : 2 ^ k ∣ 5 ^ i + 5 ^ j := Nat.dvd_of_mod_eq_zero h
    exact Dvd.dvd.trans ⟨2 ^ (k - 2), h4⟩ this
  have hi := five_pow_mod4 i
  have hj := five_pow_mod4 j
  omega

end Lattigo.EncoderC
