/-
  C20 — the accumulator loop of the blind rotation (`Lattigo/Model/BlindRot.lean`): exponent
  semantics of the schedule AS CODED, by induction over the loops.
-/
import Lattigo.Model.BlindRot
import Mathlib.Data.ZMod.Basic
import Mathlib.Tactic.Ring
import Mathlib.Tactic.Linarith

namespace Lattigo.RGSW.BlindRot

/-! ## Exponents in `ZMod (2N)` -/

section zmod
variable {m : Nat}

/-- `runExp` modulo `m` -/
def runZ (s : Nat → ZMod m) : List Step → ZMod m × ZMod m → ZMod m × ZMod m
  | [], x => x
  | Step.aut g :: rest, x => runZ s rest ((g : ZMod m) * x.1, (g : ZMod m) * x.2)
  | Step.mul j :: rest, x => runZ s rest (x.1, x.2 + s j)

theorem runZ_append (s : Nat → ZMod m) : ∀ (a b : List Step) (x : ZMod m × ZMod m),
    runZ s (a ++ b) x = runZ s b (runZ s a x)
  | [], _, _ => rfl
  | Step.aut g :: rest, b, x => by simp only [List.cons_append, runZ]; exact runZ_append s rest b _
  | Step.mul j :: rest, b, x => by simp only [List.cons_append, runZ]; exact runZ_append s rest b _

/-- the integer semantics of the model reduces to `runZ` -/
theorem runExp_cast (sI : Nat → Int) : ∀ (st : List Step) (x : Int × Int),
    (((runExp sI st x).1 : ZMod m), ((runExp sI st x).2 : ZMod m)) =
      runZ (fun j => ((sI j : Int) : ZMod m)) st ((x.1 : ZMod m), (x.2 : ZMod m))
  | [], x => rfl
  | Step.aut g :: rest, (t, u) => by
      simp only [runExp, stepExp, runZ]
      rw [runExp_cast sI rest]
      simp only [Int.cast_mul, Int.cast_natCast]
  | Step.mul j :: rest, (t, u) => by
      simp only [runExp, stepExp, runZ]
      rw [runExp_cast sI rest]
      simp only [Int.cast_add]

theorem runZ_muls (s : Nat → ZMod m) : ∀ (l : List Nat) (x : ZMod m × ZMod m),
    runZ s (l.map Step.mul) x = (x.1, x.2 + (l.map s).sum)
  | [], x => by simp [runZ]
  | j :: l, x => by
      simp only [List.map_cons, runZ, List.sum_cons]
      rw [runZ_muls s l]
      simp only [Prod.mk.injEq, true_and]; ring

end zmod

/-! ## One level, one loop -/

section loops
variable (N : Nat) (a : List Nat) (s : Nat → ZMod (2 * N))

/-- the generator `5` in `ZMod (2N)` -/
def gz : ZMod (2 * N) := (galoisGen : ZMod (2 * N))

/-- the sum of the secret coefficients of class `k` -/
def classSum (k : Int) : ZMod (2 * N) := ((setOf N a k).map s).sum

/-- the state the accumulator WILL have once the pending automorphism `5^v` is applied -/
def effState (x : ZMod (2 * N) × ZMod (2 * N)) (v : Nat) : ZMod (2 * N) × ZMod (2 * N) :=
  (gz N ^ v * x.1, gz N ^ v * x.2)

theorem galEl_cast (v : Nat) : ((galEl N v : Nat) : ZMod (2 * N)) = gz N ^ v := by
  simp only [galEl, powG, gz]
  rw [ZMod.natCast_mod]
  simp only [Nat.cast_pow]

theorem evalLevel_empty (k : Int) (v : Nat) (h : setOf N a k = []) :
    evalLevel N a k v =
      if v + 1 = windowSize ∨ k = 1 then ([Step.aut (galEl N (v + 1))], 0) else ([], v + 1) := by
  simp only [evalLevel, h, List.isEmpty_nil, if_true, List.nil_append]

theorem evalLevel_nonempty (k : Int) (v : Nat) (h : setOf N a k ≠ []) :
    evalLevel N a k v =
      if 0 + 1 = windowSize ∨ k = 1 then
        (((if v ≠ 0 then [Step.aut (galEl N v)] else []) ++ (setOf N a k).map Step.mul)
          ++ [Step.aut (galEl N (0 + 1))], 0)
      else ((if v ≠ 0 then [Step.aut (galEl N v)] else []) ++ (setOf N a k).map Step.mul, 0 + 1) := by
  have : (setOf N a k).isEmpty = false := by
    cases hh : setOf N a k with
    | nil => exact absurd hh h
    | cons _ _ => rfl
  simp only [evalLevel, this, Bool.false_eq_true, if_false]

/-- One call of `evaluateFromDiscreteLogSets`: whatever the window state, the effective state moves by
    one Horner step `(T, U) ↦ (5·T, 5·(U + S_k))`. -/
theorem evalLevel_eff (k : Int) (v : Nat) (x : ZMod (2 * N) × ZMod (2 * N)) :
    effState N (runZ s (evalLevel N a k v).1 x) (evalLevel N a k v).2 =
      (gz N * (effState N x v).1, gz N * ((effState N x v).2 + classSum N a s k)) := by
  by_cases hset : setOf N a k = []
  · rw [evalLevel_empty N a k v hset]
    simp only [classSum, hset, List.map_nil, List.sum_nil, add_zero]
    by_cases hc : v + 1 = windowSize ∨ k = 1
    · simp only [hc, if_true, runZ, effState, galEl_cast, pow_zero, one_mul]
      simp only [Prod.mk.injEq]; constructor <;> ring
    · simp only [hc, if_false, runZ, effState]
      simp only [Prod.mk.injEq]; constructor <;> ring
  · rw [evalLevel_nonempty N a k v hset]
    have hpre : ∀ y : ZMod (2 * N) × ZMod (2 * N),
        runZ s ((if v ≠ 0 then [Step.aut (galEl N v)] else []) ++ (setOf N a k).map Step.mul) y =
          (gz N ^ v * y.1, gz N ^ v * y.2 + ((setOf N a k).map s).sum) := by
      intro y
      rw [runZ_append, runZ_muls]
      by_cases hv : v = 0
      · subst hv; simp [runZ]
      · simp only [ne_eq, hv, not_false_eq_true, if_true, runZ, galEl_cast]
    by_cases hc : 0 + 1 = windowSize ∨ k = 1
    · simp only [hc, if_true]
      rw [runZ_append, hpre]
      simp only [runZ, effState, galEl_cast, pow_zero, one_mul, zero_add, pow_one, classSum]
    · simp only [hc, if_false]
      rw [hpre]
      simp only [effState, zero_add, pow_one, classSum]

/-- Horner sum of the classes `sgn·1 … sgn·i` -/
def hornerSum (sgn : Int) : Nat → ZMod (2 * N)
  | 0 => 0
  | i + 1 => gz N ^ (i + 1) * classSum N a s (sgn * ((i : Int) + 1)) + hornerSum sgn i

/-- One `for i := top; i > 0; i--` loop. -/
theorem loopLevels_eff (sgn : Int) : ∀ (i v : Nat) (x : ZMod (2 * N) × ZMod (2 * N)),
    effState N (runZ s (loopLevels N a sgn i v).1 x) (loopLevels N a sgn i v).2 =
      (gz N ^ i * (effState N x v).1, gz N ^ i * (effState N x v).2 + hornerSum N a s sgn i)
  | 0, v, x => by simp [loopLevels, runZ, hornerSum]
  | i + 1, v, x => by
      simp only [loopLevels, runZ_append]
      rw [loopLevels_eff sgn i, evalLevel_eff]
      simp only [hornerSum, Prod.mk.injEq]; constructor <;> ring

/-! ### facts about the discrete-log table -/

theorem dlogTable_bound (kv : Nat × Int) (h : kv ∈ dlogTable N) :
    (-((N / 2 : Nat) : Int) < kv.2 ∧ kv.2 < ((N / 2 : Nat) : Int)) ∨ kv.2 = ((2 * N : Nat) : Int) := by
  simp only [dlogTable, List.mem_append, List.mem_flatMap, List.mem_range, List.mem_singleton] at h
  rcases h with ⟨i, hi, hmem⟩ | h
  · left
    simp only [List.mem_cons, List.mem_nil_iff, or_false] at hmem
    rcases hmem with h1 | h1 <;> subst h1 <;> simp only <;> omega
  · right; subst h; rfl

theorem dlog_bound (x : Nat) (hN : 0 < N / 2) :
    (-((N / 2 : Nat) : Int) < dlog N x ∧ dlog N x < ((N / 2 : Nat) : Int)) ∨
      dlog N x = ((2 * N : Nat) : Int) := by
  unfold dlog
  split
  · rename_i kv hfind
    have hmem : kv ∈ (dlogTable N).reverse := List.mem_of_find?_eq_some hfind
    exact dlogTable_bound N kv (List.mem_reverse.mp hmem)
  · left; omega

/-- `−5^0 = 2N − 1` is filed under the key `2N` (the last assignment wins) -/
theorem dlog_minus_one : dlog N (2 * N - 1) = ((2 * N : Nat) : Int) := by
  unfold dlog dlogTable
  rw [List.reverse_append]
  simp

theorem evalLevel_one_v (v : Nat) : (evalLevel N a 1 v).2 = 0 := by
  by_cases hset : setOf N a 1 = []
  · rw [evalLevel_empty N a 1 v hset]; simp
  · rw [evalLevel_nonempty N a 1 v hset]; simp

/-- the positive loop ends with `k = 1`, which forces the pending automorphism: `v = 0` afterwards -/
theorem loopLevels_pos_v : ∀ (i v : Nat), 0 < i → (loopLevels N a 1 i v).2 = 0
  | 0, _, h => absurd h (Nat.lt_irrefl 0)
  | i + 1, v, _ => by
      simp only [loopLevels]
      cases i with
      | zero =>
        simp only [loopLevels]
        have := evalLevel_one_v N a v
        simpa using this
      | succ j => exact loopLevels_pos_v (j + 1) _ (Nat.succ_pos j)

/-- the class of `−5^0` (key `2N`): the effective state gains `S_{2N}`, no power of `5` -/
theorem midLevel_eff (v : Nat) (x : ZMod (2 * N) × ZMod (2 * N)) :
    effState N (runZ s (midLevel N a v).1 x) (midLevel N a v).2 =
      ((effState N x v).1, (effState N x v).2 + classSum N a s ((2 * N : Nat) : Int)) := by
  unfold midLevel classSum
  by_cases hset : setOf N a ((2 * N : Nat) : Int) = []
  · simp only [hset, List.isEmpty_nil, if_true, runZ, List.map_nil, List.sum_nil, add_zero]
  · have hne : (setOf N a ((2 * N : Nat) : Int)).isEmpty = false := by
      cases hh : setOf N a ((2 * N : Nat) : Int) with
      | nil => exact absurd hh hset
      | cons _ _ => rfl
    simp only [hne, Bool.false_eq_true, if_false]
    rw [runZ_append, runZ_muls]
    by_cases hv : v = 0
    · subst hv; simp [runZ, effState]
    · simp only [ne_eq, hv, not_false_eq_true, if_true, runZ, galEl_cast, effState, pow_zero, one_mul]

end loops

/-! ## `5^(N/2) = 1` in `ZMod (2N)` for `N` a power of two -/

theorem five_pow_two_pow (k : Nat) : ∃ t : Nat, 5 ^ (2 ^ k) = 1 + 2 ^ (k + 2) * t := by
  induction k with
  | zero => exact ⟨1, by norm_num⟩
  | succ k ih =>
    obtain ⟨t, ht⟩ := ih
    refine ⟨t + 2 ^ (k + 1) * t ^ 2, ?_⟩
    rw [pow_succ 2 k, pow_mul, ht]
    ring

theorem gz_pow_half (k : Nat) : gz (2 ^ (k + 1)) ^ (2 ^ k) = 1 := by
  obtain ⟨t, ht⟩ := five_pow_two_pow k
  have h2 : 2 * 2 ^ (k + 1) = 2 ^ (k + 2) := by ring
  have : ((5 ^ (2 ^ k) : Nat) : ZMod (2 * 2 ^ (k + 1))) = 1 := by
    rw [ht]
    push_cast
    have hz : ((2 : ZMod (2 * 2 ^ (k + 1))) ^ (k + 2)) = 0 := by
      have h0 : ((2 ^ (k + 2) : Nat) : ZMod (2 * 2 ^ (k + 1))) = 0 := by
        rw [← h2]; exact ZMod.natCast_self (2 * 2 ^ (k + 1))
      exact_mod_cast h0
    rw [hz]; ring
  simpa [gz, galoisGen] using this

/-! ## The whole schedule -/

section core
variable (k : Nat) (a : List Nat)

/-- `blindrot exponent identity`: for `N = 2^(k+1) ≥ 4`, running `BlindRotateCore`'s schedule on the
    accumulator `φ_{−5}(F·X^b)` (exponents `(t, u) = (−5, −5·b)`) ends with `t = 1` and
    `u = b + Σ_{ℓ=1}^{N/2−1} 5^ℓ·(S_ℓ − S_{−ℓ}) − S_{2N} + S_0`, `S_c` the sum of the secret coefficients whose
    (non-zero) mask coefficient is in class `c` (`2N` the class of `−1`). -/
theorem coreSchedule_exp (hk : 1 ≤ k) (s : Nat → ZMod (2 * 2 ^ (k + 1))) (b : ZMod (2 * 2 ^ (k + 1))) :
    let N := 2 ^ (k + 1)
    runZ s (coreSchedule N a) (((2 * N - galoisGen : Nat) : ZMod (2 * N)), ((2 * N - galoisGen : Nat) : ZMod (2 * N)) * b) =
      (1, b + hornerSum N a s 1 (N / 2 - 1) - hornerSum N a s (-1) (N / 2 - 1)
            - classSum N a s ((2 * N : Nat) : Int) + classSum N a s 0) := by
  intro N
  have hNhalf : N / 2 = 2 ^ k := by
    show 2 ^ (k + 1) / 2 = 2 ^ k
    rw [pow_succ]; exact Nat.mul_div_cancel _ (by norm_num)
  have hL2 : 2 ≤ N / 2 := by
    rw [hNhalf]
    calc 2 = 2 ^ 1 := by norm_num
      _ ≤ 2 ^ k := Nat.pow_le_pow_right (by norm_num) hk
  have h5 : galoisGen ≤ 2 * N := by
    have : 4 ≤ N := by omega
    simp only [galoisGen]; omega
  have hc : ((2 * N - galoisGen : Nat) : ZMod (2 * N)) = - gz N := by
    rw [Nat.cast_sub h5, ZMod.natCast_self, zero_sub]; rfl
  have hgL : gz N ^ (N / 2) = 1 := by rw [hNhalf]; exact gz_pow_half k
  have hcs : coreSchedule N a =
      (loopLevels N a (-1) (N / 2 - 1) 0).1 ++ (midLevel N a (loopLevels N a (-1) (N / 2 - 1) 0).2).1
        ++ [Step.aut (2 * N - galoisGen)]
        ++ (loopLevels N a 1 (N / 2 - 1) (midLevel N a (loopLevels N a (-1) (N / 2 - 1) 0).2).2).1
        ++ (evalLevel N a 0 0).1 := rfl
  rw [hcs]
  simp only [runZ_append, runZ]
  generalize hx0 : (((2 * N - galoisGen : Nat) : ZMod (2 * N)), ((2 * N - galoisGen : Nat) : ZMod (2 * N)) * b) = x0
  -- negative loop
  have hneg := loopLevels_eff N a s (-1) (N / 2 - 1) 0 x0
  generalize hx1 : runZ s (loopLevels N a (-1) (N / 2 - 1) 0).1 x0 = x1 at hneg ⊢
  generalize hv1 : (loopLevels N a (-1) (N / 2 - 1) 0).2 = v1 at hneg ⊢
  -- the class of -1
  have hmid := midLevel_eff N a s v1 x1
  generalize hx2 : runZ s (midLevel N a v1).1 x1 = x2 at hmid ⊢
  generalize hv2 : (midLevel N a v1).2 = v2 at hmid ⊢
  -- positive loop
  have hpos := loopLevels_eff N a s 1 (N / 2 - 1) v2
    (((2 * N - galoisGen : Nat) : ZMod (2 * N)) * x2.1, ((2 * N - galoisGen : Nat) : ZMod (2 * N)) * x2.2)
  rw [loopLevels_pos_v N a (N / 2 - 1) v2 (by omega)] at hpos
  generalize hx4 : runZ s (loopLevels N a 1 (N / 2 - 1) v2).1
    (((2 * N - galoisGen : Nat) : ZMod (2 * N)) * x2.1, ((2 * N - galoisGen : Nat) : ZMod (2 * N)) * x2.2) = x4 at hpos ⊢
  -- last call
  have hlast : runZ s (evalLevel N a 0 0).1 x4 = (x4.1, x4.2 + classSum N a s 0) := by
    have h1 : ¬ (0 + 1 = windowSize ∨ (0 : Int) = 1) := by simp [windowSize]
    by_cases hset : setOf N a 0 = []
    · rw [evalLevel_empty N a 0 0 hset]
      simp only [h1, if_false, runZ, classSum, hset, List.map_nil, List.sum_nil, add_zero]
    · rw [evalLevel_nonempty N a 0 0 hset]
      simp only [h1, if_false, ne_eq, not_true_eq_false, List.nil_append, runZ_muls, classSum]
  rw [hlast]
  -- assemble
  simp only [effState, pow_zero, one_mul, hc] at hneg hmid hpos
  have e1 : x4.1 = gz N ^ (N / 2 - 1) * (gz N ^ v2 * (-gz N * x2.1)) := congrArg Prod.fst hpos
  have e2 : x4.2 = gz N ^ (N / 2 - 1) * (gz N ^ v2 * (-gz N * x2.2)) + hornerSum N a s 1 (N / 2 - 1) :=
    congrArg Prod.snd hpos
  have m1 : gz N ^ v2 * x2.1 = gz N ^ v1 * x1.1 := congrArg Prod.fst hmid
  have m2 : gz N ^ v2 * x2.2 = gz N ^ v1 * x1.2 + classSum N a s ((2 * N : Nat) : Int) :=
    congrArg Prod.snd hmid
  have n1 : gz N ^ v1 * x1.1 = gz N ^ (N / 2 - 1) * x0.1 := congrArg Prod.fst hneg
  have n2 : gz N ^ v1 * x1.2 = gz N ^ (N / 2 - 1) * x0.2 + hornerSum N a s (-1) (N / 2 - 1) :=
    congrArg Prod.snd hneg
  have hx01 : x0.1 = - gz N := by rw [← hx0, hc]
  have hx02 : x0.2 = - gz N * b := by rw [← hx0, hc]
  have hpw : gz N ^ (N / 2 - 1) * gz N = 1 := by
    rw [← pow_succ, Nat.sub_add_cancel (by omega), hgL]
  have t1 : x4.1 = 1 := by
    rw [e1]
    calc gz N ^ (N / 2 - 1) * (gz N ^ v2 * (-gz N * x2.1))
        = -(gz N ^ (N / 2 - 1) * gz N) * (gz N ^ v2 * x2.1) := by ring
      _ = -(gz N ^ (N / 2 - 1) * gz N) * (gz N ^ (N / 2 - 1) * x0.1) := by rw [m1, n1]
      _ = (gz N ^ (N / 2 - 1) * gz N) * (gz N ^ (N / 2 - 1) * gz N) := by rw [hx01]; ring
      _ = 1 := by rw [hpw]; ring
  have t2 : x4.2 = b + hornerSum N a s 1 (N / 2 - 1) - hornerSum N a s (-1) (N / 2 - 1)
      - classSum N a s ((2 * N : Nat) : Int) := by
    rw [e2]
    calc gz N ^ (N / 2 - 1) * (gz N ^ v2 * (-gz N * x2.2)) + hornerSum N a s 1 (N / 2 - 1)
        = -(gz N ^ (N / 2 - 1) * gz N) * (gz N ^ v2 * x2.2) + hornerSum N a s 1 (N / 2 - 1) := by ring
      _ = -(gz N ^ (N / 2 - 1) * gz N) * (gz N ^ (N / 2 - 1) * x0.2 + hornerSum N a s (-1) (N / 2 - 1)
              + classSum N a s ((2 * N : Nat) : Int))
            + hornerSum N a s 1 (N / 2 - 1) := by rw [m2, n2]
      _ = (gz N ^ (N / 2 - 1) * gz N) * (gz N ^ (N / 2 - 1) * gz N) * b
            - (gz N ^ (N / 2 - 1) * gz N) * (hornerSum N a s (-1) (N / 2 - 1) + classSum N a s ((2 * N : Nat) : Int))
            + hornerSum N a s 1 (N / 2 - 1) := by rw [hx02]; ring
      _ = _ := by rw [hpw]; ring
  rw [t1, t2]

end core

/-! ## From class sums to the inner product -/

section fiber
variable {R : Type} [CommRing R]

/-- `G 0 + Σ_{ℓ=1}^{i} (G ℓ + G (−ℓ))` -/
def kSum (G : Int → R) : Nat → R
  | 0 => G 0
  | i + 1 => kSum G i + G ((i : Int) + 1) + G (-((i : Int) + 1))

theorem kSum_add (G1 G2 : Int → R) : ∀ i, kSum (fun k => G1 k + G2 k) i = kSum G1 i + kSum G2 i
  | 0 => rfl
  | i + 1 => by simp only [kSum, kSum_add G1 G2 i]; ring

theorem kSum_zero_of_gt (F : Int → R) (c : R) (κ : Int) : ∀ i : Nat, (i : Int) < |κ| →
    kSum (fun k => F k * (if κ = k then c else 0)) i = 0
  | 0, h => by
      have : κ ≠ 0 := by intro h0; simp [h0] at h
      simp [kSum, this]
  | i + 1, h => by
      have h' : (i : Int) < |κ| := by push_cast at h; omega
      have h1 : κ ≠ (i : Int) + 1 := by
        intro e; rw [e] at h; push_cast at h
        have : |(i : Int) + 1| = (i : Int) + 1 := abs_of_nonneg (by omega)
        omega
      have h2 : κ ≠ -((i : Int) + 1) := by
        intro e; rw [e] at h; push_cast at h
        have : |(-((i : Int) + 1))| = (i : Int) + 1 := by rw [abs_neg]; exact abs_of_nonneg (by omega)
        omega
      simp only [kSum, kSum_zero_of_gt F c κ i h', h1, h2, if_false, mul_zero, add_zero]

/-- a key within range is picked exactly once -/
theorem kSum_pick (F : Int → R) (c : R) (κ : Int) : ∀ i : Nat, |κ| ≤ (i : Int) →
    kSum (fun k => F k * (if κ = k then c else 0)) i = F κ * c
  | 0, h => by
      have : κ = 0 := by
        have := abs_nonneg κ
        have h0 : |κ| = 0 := by push_cast at h; omega
        exact abs_eq_zero.mp h0
      simp [kSum, this]
  | i + 1, h => by
      by_cases hle : |κ| ≤ (i : Int)
      · have h1 : κ ≠ (i : Int) + 1 := by
          intro e; rw [e] at hle
          have : |(i : Int) + 1| = (i : Int) + 1 := abs_of_nonneg (by omega)
          omega
        have h2 : κ ≠ -((i : Int) + 1) := by
          intro e; rw [e] at hle
          have : |(-((i : Int) + 1))| = (i : Int) + 1 := by rw [abs_neg]; exact abs_of_nonneg (by omega)
          omega
        simp only [kSum, kSum_pick F c κ i hle, h1, h2, if_false, mul_zero, add_zero]
      · have hgt : (i : Int) < |κ| := by omega
        have habs : |κ| = (i : Int) + 1 := by push_cast at h; omega
        simp only [kSum, kSum_zero_of_gt F c κ i hgt, zero_add]
        rcases abs_eq (by omega : (0 : Int) ≤ (i : Int) + 1) |>.mp habs with e | e
        · have hne : ¬ ((i : Int) + 1 = -((i : Int) + 1)) := by omega
          rw [e]; simp only [if_true, hne, if_false, mul_zero, add_zero]
        · have hne : ¬ (-((i : Int) + 1) = (i : Int) + 1) := by omega
          rw [e]; simp only [if_true, hne, if_false, mul_zero, zero_add]

/-- fibrewise regrouping of a sum by the key `κ` -/
theorem sum_by_class (F : Int → R) (κ : Nat → Int) (s : Nat → R) (i : Nat) :
    ∀ l : List Nat, (∀ j ∈ l, |κ j| ≤ (i : Int)) →
      (l.map fun j => F (κ j) * s j).sum =
        kSum (fun k => F k * ((l.filter fun j => κ j == k).map s).sum) i
  | [], _ => by
      have h0 : ∀ n, kSum (fun _ : Int => (0 : R)) n = 0 := by
        intro n; induction n with
        | zero => simp [kSum]
        | succ n ih => simp [kSum, ih]
      simp [h0]
  | j :: l, h => by
      have hj : |κ j| ≤ (i : Int) := h j (List.mem_cons_self)
      have hl : ∀ j' ∈ l, |κ j'| ≤ (i : Int) := fun j' hj' => h j' (List.mem_cons_of_mem _ hj')
      have hsplit : (fun k : Int => F k * (((j :: l).filter fun j => κ j == k).map s).sum) =
          fun k => F k * (if κ j = k then s j else 0) + F k * ((l.filter fun j => κ j == k).map s).sum := by
        funext k
        by_cases e : κ j = k
        · simp [List.filter_cons, e]; ring
        · have : (κ j == k) = false := by simpa using e
          simp [List.filter_cons, this, e]
      rw [hsplit, kSum_add, kSum_pick F (s j) (κ j) i hj, ← sum_by_class F κ s i l hl]
      simp only [List.map_cons, List.sum_cons]

end fiber

/-- classes beyond `i` that are empty do not contribute -/
theorem kSum_extend {R : Type} [CommRing R] (G : Int → R) (i : Nat) : ∀ d : Nat,
    (∀ k : Int, (i : Int) < |k| → |k| ≤ ((i + d : Nat) : Int) → G k = 0) → kSum G (i + d) = kSum G i
  | 0, _ => rfl
  | d + 1, h => by
      have hd : ∀ k : Int, (i : Int) < |k| → |k| ≤ ((i + d : Nat) : Int) → G k = 0 := by
        intro k h1 h2; exact h k h1 (by push_cast at h2 ⊢; omega)
      have e1 : G (((i + d : Nat) : Int) + 1) = 0 := by
        apply h
        · rw [abs_of_nonneg (by omega)]; omega
        · rw [abs_of_nonneg (by omega)]; push_cast; omega
      have e2 : G (-(((i + d : Nat) : Int) + 1)) = 0 := by
        apply h
        · rw [abs_neg, abs_of_nonneg (by omega)]; omega
        · rw [abs_neg, abs_of_nonneg (by omega)]; push_cast; omega
      show kSum G (i + d + 1) = kSum G i
      simp only [kSum, e1, e2, add_zero]
      exact kSum_extend G i d hd

/-- all classes between `i` and `M` are empty except `M` itself -/
theorem kSum_top {R : Type} [CommRing R] (G : Int → R) (i M : Nat) (hiM : i < M)
    (hz : ∀ k : Int, (i : Int) < |k| → |k| ≤ (M : Int) → k ≠ (M : Int) → G k = 0) :
    kSum G M = kSum G i + G (M : Int) := by
  obtain ⟨d, rfl⟩ : ∃ d, M = i + d + 1 := ⟨M - 1 - i, by omega⟩
  have hext := kSum_extend G i d (by
    intro k h1 h2
    apply hz k h1 (by push_cast at h2 ⊢; omega)
    intro e; rw [e, abs_of_nonneg (by positivity)] at h2; push_cast at h2; omega)
  have hneg : G (-(((i + d : Nat) : Int) + 1)) = 0 := by
    apply hz
    · rw [abs_neg, abs_of_nonneg (by omega)]; omega
    · rw [abs_neg, abs_of_nonneg (by omega)]; push_cast; omega
    · push_cast; omega
  show kSum G (i + d) + G (((i + d : Nat) : Int) + 1) + G (-(((i + d : Nat) : Int) + 1)) = _
  rw [hext, hneg, add_zero]
  congr 2

/-- a sum whose terms vanish outside a filter -/
theorem sum_map_filter {R : Type} [CommRing R] (p : Nat → Bool) (f : Nat → R) :
    ∀ l : List Nat, (∀ j ∈ l, p j = false → f j = 0) → (l.map f).sum = ((l.filter p).map f).sum
  | [], _ => rfl
  | j :: l, h => by
      have hl := sum_map_filter p f l (fun j' hj' => h j' (List.mem_cons_of_mem _ hj'))
      by_cases hp : p j = true
      · simp only [List.map_cons, List.sum_cons, List.filter_cons, hp, if_true, hl]
      · have hp' : p j = false := by simpa using hp
        simp only [List.map_cons, List.sum_cons, List.filter_cons, hp', Bool.false_eq_true, if_false, hl,
          h j List.mem_cons_self hp', zero_add]

/-! ## The exponent identity in terms of the mask -/

section final
variable (N : Nat)

/-- `−1` for the class `2N`, `±5^{|k|}` for the class `k` -/
def fk (k : Int) : ZMod (2 * N) :=
  if k = ((2 * N : Nat) : Int) then -1 else if k < 0 then -(gz N ^ k.natAbs) else gz N ^ k.natAbs

/-- the value a mask coefficient is treated as, in `ZMod (2N)` -/
def effZ (x : Nat) : ZMod (2 * N) := ((eff N x : Int) : ZMod (2 * N))

theorem effZ_zero : effZ N 0 = 0 := by simp [effZ, eff]

theorem effZ_eq_fk (x : Nat) (hx : x ≠ 0) : effZ N x = fk N (dlog N x) := by
  unfold effZ eff fk
  simp only [hx, if_false]
  by_cases h2 : dlog N x = ((2 * N : Nat) : Int)
  · simp only [h2, if_true]; push_cast; ring
  · simp only [h2, if_false]
    by_cases h : dlog N x < 0
    · simp only [h, if_true, Int.cast_neg, Int.cast_natCast]
      rw [← galEl_cast]; rfl
    · simp only [h, if_false, Int.cast_natCast]
      rw [← galEl_cast]; rfl

theorem hornerSums_eq_kSum (hN : 0 < N) (a : List Nat) (s : Nat → ZMod (2 * N)) : ∀ i : Nat, i < 2 * N →
    hornerSum N a s 1 i - hornerSum N a s (-1) i + classSum N a s 0 =
      kSum (fun k => fk N k * classSum N a s k) i
  | 0, _ => by
      have h0 : ¬ ((0 : Int) = ((2 * N : Nat) : Int)) := by push_cast; omega
      have hf : fk N 0 = 1 := by
        unfold fk
        rw [if_neg h0, if_neg (by omega)]
        simp
      simp only [hornerSum, kSum, hf, one_mul, sub_self, zero_add]
  | i + 1, hi => by
      have hp : fk N ((i : Int) + 1) = gz N ^ (i + 1) := by
        have h0 : ¬ ((i : Int) + 1 = ((2 * N : Nat) : Int)) := by push_cast; omega
        have : ¬ ((i : Int) + 1 < 0) := by omega
        simp only [fk, h0, this, if_false]
        congr 1
      have hn : fk N (-((i : Int) + 1)) = -(gz N ^ (i + 1)) := by
        have h0 : ¬ (-((i : Int) + 1) = ((2 * N : Nat) : Int)) := by push_cast; omega
        have : (-((i : Int) + 1) < 0) := by omega
        simp only [fk, h0, this, if_true, if_false]
        congr 2
      simp only [hornerSum, kSum, ← hornerSums_eq_kSum hN a s i (by omega), hp, hn, one_mul, neg_one_mul]
      ring

/-- `blindrot_invariant`, exponent form (the algorithm AS CODED): for `N = 2^(k+1) ≥ 4`, any mask `a` (entries
    arbitrary naturals), secret coefficients `s`, and `b`: the schedule of `BlindRotateCore` turns the
    exponents `(−5, −5·b)` of the initial accumulator into `(1, b + Σ_j eff(a_j)·s_j)` modulo `2N`,
    `eff(a_j)` the value the coefficient is TREATED as (`0` for a zero coefficient, `−1` for the class `2N`,
    `±5^{dlog(a_j)}` otherwise). -/
theorem coreSchedule_inner (k : Nat) (hk : 1 ≤ k) (a : List Nat) (s : Nat → ZMod (2 * 2 ^ (k + 1)))
    (b : ZMod (2 * 2 ^ (k + 1))) :
    let N := 2 ^ (k + 1)
    runZ s (coreSchedule N a) (((2 * N - galoisGen : Nat) : ZMod (2 * N)), ((2 * N - galoisGen : Nat) : ZMod (2 * N)) * b) =
      (1, b + ((List.range a.length).map fun j => effZ N (a.getD j 0) * s j).sum) := by
  intro N
  have hmain := coreSchedule_exp k a hk s b
  simp only at hmain
  rw [hmain]
  have hNhalf : N / 2 = 2 ^ k := by
    show 2 ^ (k + 1) / 2 = 2 ^ k
    rw [pow_succ]; exact Nat.mul_div_cancel _ (by norm_num)
  have hpos : 0 < N / 2 := by rw [hNhalf]; exact Nat.pow_pos (by norm_num)
  have hN : 0 < N := by omega
  -- drop the zero coefficients
  have hz := sum_map_filter (fun j => a.getD j 0 != 0) (fun j => effZ N (a.getD j 0) * s j) (List.range a.length)
    (by
      intro j _ hj
      have : a.getD j 0 = 0 := by simpa using hj
      simp only [this, effZ_zero, zero_mul])
  rw [hz]
  -- regroup by class, keys up to 2N
  have hfk : ((List.range a.length).filter fun j => a.getD j 0 != 0).map (fun j => effZ N (a.getD j 0) * s j)
      = ((List.range a.length).filter fun j => a.getD j 0 != 0).map
          (fun j => fk N (dlog N (a.getD j 0)) * s j) := by
    apply List.map_congr_left
    intro j hj
    have : a.getD j 0 ≠ 0 := by
      have := (List.mem_filter.mp hj).2
      simpa using this
    rw [effZ_eq_fk N _ this]
  rw [hfk]
  have hsum := sum_by_class (fk N) (fun j => dlog N (a.getD j 0)) s (2 * N)
    ((List.range a.length).filter fun j => a.getD j 0 != 0)
    (by
      intro j _
      rcases dlog_bound N (a.getD j 0) hpos with h | h
      · rw [abs_le]; constructor <;> push_cast <;> omega
      · rw [h, abs_of_nonneg (by positivity)])
  rw [hsum]
  have hcls : (fun k' : Int => fk N k' * ((List.filter (fun j => dlog N (a.getD j 0) == k')
        ((List.range a.length).filter fun j => a.getD j 0 != 0)).map s).sum)
      = fun k' => fk N k' * classSum N a s k' := rfl
  rw [hcls]
  -- the classes between N/2 and 2N are empty, except 2N
  have hcast : ((N / 2 - 1 : Nat) : Int) = ((N / 2 : Nat) : Int) - 1 := by omega
  have hempty : ∀ k' : Int, ((N / 2 - 1 : Nat) : Int) < |k'| → k' ≠ ((2 * N : Nat) : Int) →
      classSum N a s k' = 0 := by
    intro k' h1 h2
    have : setOf N a k' = [] := by
      unfold setOf
      rw [List.filter_eq_nil_iff]
      intro j _
      simp only [beq_iff_eq]
      intro e
      rcases dlog_bound N (a.getD j 0) hpos with h | h
      · rw [e] at h
        have : |k'| ≤ ((N / 2 : Nat) : Int) - 1 := abs_le.mpr ⟨by omega, by omega⟩
        omega
      · exact h2 (e ▸ h)
    simp only [classSum, this, List.map_nil, List.sum_nil]
  have hsplit : kSum (fun k' => fk N k' * classSum N a s k') (2 * N) =
      kSum (fun k' => fk N k' * classSum N a s k') (N / 2 - 1)
        - classSum N a s ((2 * N : Nat) : Int) := by
    rw [kSum_top (fun k' => fk N k' * classSum N a s k') (N / 2 - 1) (2 * N) (by omega)
      (by
        intro k' h1 _ h3
        rw [hempty k' h1 h3, mul_zero])]
    have hf : fk N ((2 * N : Nat) : Int) = -1 := by simp [fk]
    rw [hf]; ring
  rw [hsplit, ← hornerSums_eq_kSum N hN a s (N / 2 - 1) (by omega)]
  simp only [Prod.mk.injEq, true_and]
  ring

/-- the same statement about the model's integer semantics `runExp` / `initExp` -/
theorem runExp_coreSchedule (k : Nat) (hk : 1 ≤ k) (a : List Nat) (sI : Nat → Int) (b : Nat) :
    let N := 2 ^ (k + 1)
    let r := runExp sI (coreSchedule N a) (initExp N b)
    ((r.1 : Int) : ZMod (2 * N)) = 1 ∧
    ((r.2 : Int) : ZMod (2 * N)) =
      (b : ZMod (2 * N)) + ((List.range a.length).map fun j => effZ N (a.getD j 0) * ((sI j : Int) : ZMod (2 * N))).sum := by
  intro N r
  have h := runExp_cast (m := 2 * N) sI (coreSchedule N a) (initExp N b)
  have h2 := coreSchedule_inner k hk a (fun j => ((sI j : Int) : ZMod (2 * 2 ^ (k + 1)))) (b : ZMod (2 * 2 ^ (k + 1)))
  simp only at h2
  have hinit : ((((initExp N b).1 : Int) : ZMod (2 * N)), (((initExp N b).2 : Int) : ZMod (2 * N))) =
      (((2 * N - galoisGen : Nat) : ZMod (2 * N)), ((2 * N - galoisGen : Nat) : ZMod (2 * N)) * (b : ZMod (2 * N))) := by
    simp only [initExp, Int.cast_mul, Int.cast_natCast]
  rw [hinit, h2] at h
  exact ⟨congrArg Prod.fst h, congrArg Prod.snd h⟩

end final

end Lattigo.RGSW.BlindRot
