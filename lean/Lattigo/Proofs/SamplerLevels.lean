/-
  C17 — the sampled integer vector is a function of the PRNG bytes (and buffer pointer) ALONE: it
  does not depend on the moduli of the view that asks for it.  Hence `AtLevel(l)` returns the
  first `l+1` limbs of the same signed integers.  Also: the signs of the fixed-weight sampler
  are the bits of its sign bytes, in order; the `p = 0.5` branch uses every bit exactly once.
-/
import Lattigo.Proofs.SamplerGaussian
namespace Lattigo.Sampler
open Lattigo Lattigo.Gen

/-! ### Gaussian: expose the sampling call -/

theorem gaussReadPlain_small_ok {orc : Slow} {fuel : Nat} {m : Mode} {sigma bound N : Nat} {qs : List Nat}
    {pol r : Poly} {s s' : Bytes} {b b' : Buf} {slow : Bool}
    (hpath : isBigPath sigma bound = false)
    (h : gaussReadPlain orc fuel m sigma bound N qs pol s b = .ok (r, slow, s', b')) :
    ∃ d s1 cs, prngRead s bufLen = .ok (d, s1) ∧
      gaussSmall orc fuel sigma bound N s1 { data := d, ptr := b.ptr } = .ok (cs, slow, s', b') ∧
      mapRowsLvl (fun q row => List.zipWith (fun a c => m.f a (gaussLimb q c) q) row cs) qs pol = .ok r := by
  unfold gaussReadPlain at h
  obtain ⟨⟨d, s1⟩, h1, h⟩ := Res.bind_eq_ok h
  dsimp only at h
  by_cases hl : pol.length < qs.length
  · rw [if_pos hl, hpath] at h
    simp only [Bool.false_eq_true, if_false] at h
    obtain ⟨_, _, h⟩ := Res.bind_eq_ok h
    cases h
  · rw [if_neg hl, hpath] at h
    simp only [Bool.false_eq_true, if_false] at h
    obtain ⟨⟨cs, sl2, s2, b2⟩, h2, h⟩ := Res.bind_eq_ok h
    dsimp only at h
    obtain ⟨r1, h3, h⟩ := Res.bind_eq_ok h
    simp only [Res.ok.injEq, Prod.mk.injEq] at h
    obtain ⟨e1, e2, e3, e4⟩ := h
    subst e1; subst e2; subst e3; subst e4
    exact ⟨d, s1, cs, h1, h2, h3⟩

theorem gaussReadPlain_big_ok {orc : Slow} {fuel : Nat} {m : Mode} {sigma bound N : Nat} {qs : List Nat}
    {pol r : Poly} {s s' : Bytes} {b b' : Buf} {slow : Bool}
    (hpath : isBigPath sigma bound = true)
    (h : gaussReadPlain orc fuel m sigma bound N qs pol s b = .ok (r, slow, s', b')) :
    ∃ d s1 xs, prngRead s bufLen = .ok (d, s1) ∧
      gaussBig orc fuel sigma bound N s1 { data := d, ptr := b.ptr } = .ok (xs, slow, s', b') ∧
      mapRowsLvl (fun q row => List.zipWith (fun a x => m.f a (gaussLimbBig q x) q) row xs) qs pol = .ok r := by
  unfold gaussReadPlain at h
  obtain ⟨⟨d, s1⟩, h1, h⟩ := Res.bind_eq_ok h
  dsimp only at h
  by_cases hl : pol.length < qs.length
  · rw [if_pos hl, hpath] at h
    simp only [if_true] at h
    obtain ⟨_, _, h⟩ := Res.bind_eq_ok h
    cases h
  · rw [if_neg hl, hpath] at h
    simp only [if_true] at h
    obtain ⟨⟨xs, sl2, s2, b2⟩, h2, h⟩ := Res.bind_eq_ok h
    dsimp only at h
    obtain ⟨r1, h3, h⟩ := Res.bind_eq_ok h
    simp only [Res.ok.injEq, Prod.mk.injEq] at h
    obtain ⟨e1, e2, e3, e4⟩ := h
    subst e1; subst e2; subst e3; subst e4
    exact ⟨d, s1, xs, h1, h2, h3⟩

/-- `read` refills the buffer before anything else: the old buffer CONTENT is irrelevant, only the
    pointer is carried over (no stale byte is ever used) -/
theorem gaussReadPlain_old_buffer_irrelevant (orc : Slow) (fuel : Nat) (m : Mode) (sigma bound N : Nat)
    (qs : List Nat) (pol : Poly) (s : Bytes) (b₁ b₂ : Buf) (hptr : b₁.ptr = b₂.ptr) :
    gaussReadPlain orc fuel m sigma bound N qs pol s b₁ =
      gaussReadPlain orc fuel m sigma bound N qs pol s b₂ := by
  unfold gaussReadPlain
  rw [hptr]

/-! ### fixed weight: the signs are the bits of the sign bytes, in order -/

/-- bit `t` (LSB first) of a byte string -/
def bitAt (bs : Bytes) (t : Nat) : Nat := u64and (u64shr (bs.getD (t / 8) 0) (t % 8)) 1

/-- the loop at iteration `i` holds the sign bytes from byte `i / 8` on: the sign of the `t`-th
    position selected from now on is bit `i % 8 + t` of what is left -/
theorem sparseLoop_signs (fuel N : Nat) : ∀ (n i : Nat) (index rbs : List Nat) (s : Bytes)
    (sel : List (Nat × Nat)) (rest : List Nat) (s' : Bytes),
    sparseLoop fuel N n i index rbs s = .ok (sel, rest, s') →
    ∀ t (ht : t < sel.length), (sel[t]).2 = bitAt rbs (i % 8 + t) := by
  intro n
  induction n with
  | zero =>
    intro i index rbs s sel rest s' h t ht
    simp only [sparseLoop, Res.ok.injEq, Prod.mk.injEq] at h
    obtain ⟨h1, _⟩ := h
    subst h1
    simp at ht
  | succ n ih =>
    intro i index rbs s sel rest s' h t ht
    simp only [sparseLoop] at h
    obtain ⟨⟨j, s1⟩, _, h⟩ := Res.bind_eq_ok h
    dsimp only at h
    obtain ⟨⟨tl, rest1, s2⟩, h2, h⟩ := Res.bind_eq_ok h
    simp only [Res.pure_eq, Res.ok.injEq, Prod.mk.injEq] at h
    obtain ⟨h3, _, _⟩ := h
    subst h3
    have hi8 : i % 8 < 8 := Nat.mod_lt _ (by decide)
    cases t with
    | zero =>
      simp only [List.getElem_cons_zero, Nat.add_zero]
      unfold bitAt
      rw [Nat.div_eq_of_lt hi8, Nat.mod_mod]
    | succ t =>
      simp only [List.getElem_cons_succ]
      have ht' : t < tl.length := by simpa using ht
      rw [ih (i + 1) _ _ s1 tl rest1 s2 h2 t ht']
      unfold bitAt
      by_cases h7 : i % 8 = 7
      · rw [if_pos h7]
        have e1 : (i + 1) % 8 = 0 := by omega
        rw [e1, h7, Nat.zero_add]
        have e2 : (7 + (t + 1)) / 8 = t / 8 + 1 := by omega
        have e3 : (7 + (t + 1)) % 8 = t % 8 := by omega
        rw [e2, e3]
        congr 2
        cases rbs with
        | nil => simp
        | cons x xs => simp
      · rw [if_neg h7]
        have e1 : (i + 1) % 8 = i % 8 + 1 := by omega
        rw [e1]
        have e2 : i % 8 + 1 + t = i % 8 + (t + 1) := by omega
        rw [e2]

/-! ### `p = 0.5`: one coefficient bit and one sign bit per coefficient, each used once -/

theorem probaHalfIdx_spec {N : Nat} {s s' : Bytes} {idx : List Nat}
    (h : probaHalfIdx N s = .ok (idx, s')) :
    ∃ cb sb, cb.length = N / 8 ∧ sb.length = N / 8 ∧ s = cb ++ sb ++ s' ∧
      idx = (List.range N).map fun i => ternIndex (bitAt cb i) (bitAt sb i) := by
  unfold probaHalfIdx at h
  obtain ⟨⟨cb, s1⟩, h1, h⟩ := Res.bind_eq_ok h
  dsimp only at h
  obtain ⟨⟨sb, s2⟩, h2, h⟩ := Res.bind_eq_ok h
  simp only [Res.pure_eq, Res.ok.injEq, Prod.mk.injEq] at h
  obtain ⟨e1, e2⟩ := h
  subst e1; subst e2
  obtain ⟨_, _, _, hs1, hl1⟩ := prngRead_ok h1
  obtain ⟨_, _, _, hs2, hl2⟩ := prngRead_ok h2
  refine ⟨cb, sb, hl1, hl2, by rw [hs1, hs2, List.append_assoc], rfl⟩

/-- the value table of one coefficient: of the four (coefficient bit, sign bit) pairs two give 0,
    one gives +1 and one gives −1 -/
theorem ternIndex_table :
    ternVal (ternIndex 0 0) = 0 ∧ ternVal (ternIndex 0 1) = 0 ∧
    ternVal (ternIndex 1 0) = 1 ∧ ternVal (ternIndex 1 1) = -1 := by decide

end Lattigo.Sampler
