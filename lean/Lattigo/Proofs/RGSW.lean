/-
  C20 — lemmas about the generic RGSW layer (`Lattigo/Model/RGSW.lean`), for every commutative ring.
-/
import Lattigo.Model.RGSW
import Mathlib.Tactic.Ring
import Mathlib.Algebra.Ring.Hom.Defs

namespace Lattigo.RGSW

variable {α : Type} [CommRing α]

/-- `Σ_k d_k · x_k` over two lists (truncated to the shorter one) -/
def wsum : List α → List α → α
  | d :: ds, x :: xs => d * x + wsum ds xs
  | _, _ => 0

@[simp] theorem wsum_nil_left (xs : List α) : wsum ([] : List α) xs = 0 := by
  cases xs <;> rfl
@[simp] theorem wsum_nil_right (ds : List α) : wsum ds ([] : List α) = 0 := by
  cases ds <;> rfl
@[simp] theorem wsum_cons (d x : α) (ds xs : List α) :
    wsum (d :: ds) (x :: xs) = d * x + wsum ds xs := rfl

/-! ### encryptions of zero -/

theorem phase_encZero (a e s : α) : phase (encZero a e s) s = e := by
  simp only [phase, encZero]; ring

theorem phase_addMsg0 (z : α × α) (m s : α) : phase (addMsg0 z m) s = phase z s + m := by
  simp only [phase, addMsg0]; ring

theorem phase_addMsg1 (z : α × α) (m s : α) : phase (addMsg1 z m) s = phase z s + m * s := by
  simp only [phase, addMsg1]; ring

/-! ### the rows of an RGSW ciphertext -/

/-- the list of row errors `phase (ez a_k e_k s) s = e_k` -/
def rowNoise (ez : α → α → α → α × α) (s : α) (smp : List (α × α)) : List α :=
  smp.map fun ae => phase (ez ae.1 ae.2 s) s

/-- phases of the rows of `Value[0]`: `P·w_k·g + noise_k` -/
theorem rows0_phase (ez : α → α → α → α × α) (s g : α) :
    ∀ (pgs : List α) (smp : List (α × α)),
      (rows0 ez s g pgs smp).map (fun r => phase r s) =
        List.zipWith (fun pg n => n + pg * g) pgs (rowNoise ez s smp)
  | [], _ => by simp [rows0]
  | _ :: _, [] => by simp [rows0, rowNoise]
  | pg :: pgs, (a, e) :: rest => by
      simp only [rows0, List.map_cons, rowNoise, List.zipWith_cons_cons, phase_addMsg0]
      congr 1
      exact rows0_phase ez s g pgs rest

/-- phases of the rows of `Value[1]`: `P·w_k·g·s + noise_k` -/
theorem rows1_phase (ez : α → α → α → α × α) (s g : α) :
    ∀ (pgs : List α) (smp : List (α × α)),
      (rows1 ez s g pgs smp).map (fun r => phase r s) =
        List.zipWith (fun pg n => n + pg * g * s) pgs (rowNoise ez s smp)
  | [], _ => by simp [rows1]
  | _ :: _, [] => by simp [rows1, rowNoise]
  | pg :: pgs, (a, e) :: rest => by
      simp only [rows1, List.map_cons, rowNoise, List.zipWith_cons_cons, phase_addMsg1]
      congr 1
      exact rows1_phase ez s g pgs rest

/-! ### the inner product -/

theorem dot_phase (s : α) : ∀ (ds : List α) (rows : List (α × α)) (z : α × α),
    phase (dot z ds rows) s = phase z s + wsum ds (rows.map fun r => phase r s)
  | [], rows, z => by cases rows <;> simp [dot]
  | _ :: _, [], z => by simp [dot]
  | d :: ds, r :: rs, z => by
      simp only [dot, List.map_cons, wsum_cons]
      rw [dot_phase s ds rs]
      simp only [phase]; ring

theorem wsum_zipWith_add_mul (g : α) : ∀ (ds pgs ns : List α), pgs.length = ns.length →
    wsum ds (List.zipWith (fun pg n => n + pg * g) pgs ns) = wsum ds ns + g * wsum ds pgs
  | [], _, _, _ => by simp
  | _ :: _, [], [], _ => by simp
  | _ :: _, [], _ :: _, h => by simp at h
  | _ :: _, _ :: _, [], h => by simp at h
  | d :: ds, pg :: pgs, n :: ns, h => by
      simp only [List.zipWith_cons_cons, wsum_cons]
      rw [wsum_zipWith_add_mul g ds pgs ns (by simpa using h)]
      ring

theorem wsum_zipWith_add_mul_s (g s : α) : ∀ (ds pgs ns : List α), pgs.length = ns.length →
    wsum ds (List.zipWith (fun pg n => n + pg * g * s) pgs ns) = wsum ds ns + g * s * wsum ds pgs
  | [], _, _, _ => by simp
  | _ :: _, [], [], _ => by simp
  | _ :: _, [], _ :: _, h => by simp at h
  | _ :: _, _ :: _, [], h => by simp at h
  | d :: ds, pg :: pgs, n :: ns, h => by
      simp only [List.zipWith_cons_cons, wsum_cons]
      rw [wsum_zipWith_add_mul_s g s ds pgs ns (by simpa using h)]
      ring

/-- The external product before the division by `P`: its phase is
    `g · (Σ d0_k·P w_k + (Σ d1_k·P w_k)·s) + Σ d0_k·n0_k + Σ d1_k·n1_k`. -/
theorem extProdLazy_phase (ez : α → α → α → α × α) (s g : α) (pgs : List α)
    (smp0 smp1 : List (α × α)) (d0 d1 : List α)
    (h0 : pgs.length = smp0.length) (h1 : pgs.length = smp1.length) :
    phase (extProdLazy 0 d0 d1 (encrypt ez s g pgs smp0 smp1)) s =
      g * (wsum d0 pgs + wsum d1 pgs * s)
        + (wsum d0 (rowNoise ez s smp0) + wsum d1 (rowNoise ez s smp1)) := by
  simp only [extProdLazy, encrypt]
  rw [dot_phase, dot_phase, rows0_phase, rows1_phase]
  rw [wsum_zipWith_add_mul g d0 pgs _ (by simpa [rowNoise] using h0)]
  rw [wsum_zipWith_add_mul_s g s d1 pgs _ (by simpa [rowNoise] using h1)]
  simp only [phase]; ring

/-! ### homomorphisms -/

theorem rows0_add (ez : α → α → α → α × α) (s g1 g2 : α)
    (hez : ∀ a e a' e', ez (a + a') (e + e') s = padd (ez a e s) (ez a' e' s)) :
    ∀ (pgs : List α) (A B : List (α × α)), A.length = B.length →
      List.zipWith padd (rows0 ez s g1 pgs A) (rows0 ez s g2 pgs B) =
        rows0 ez s (g1 + g2) pgs (List.zipWith padd A B)
  | [], _, _, _ => by simp [rows0]
  | _ :: _, [], [], _ => by simp [rows0]
  | _ :: _, [], _ :: _, h => by simp at h
  | _ :: _, _ :: _, [], h => by simp at h
  | pg :: pgs, (a, e) :: A, (a', e') :: B, h => by
      simp only [rows0, List.zipWith_cons_cons, padd]
      rw [← rows0_add ez s g1 g2 hez pgs A B (by simpa using h)]
      congr 1
      have := hez a e a' e'
      simp only [padd] at this
      simp only [addMsg0, this, Prod.mk.injEq]
      constructor <;> first | trivial | ring

theorem rows1_add (ez : α → α → α → α × α) (s g1 g2 : α)
    (hez : ∀ a e a' e', ez (a + a') (e + e') s = padd (ez a e s) (ez a' e' s)) :
    ∀ (pgs : List α) (A B : List (α × α)), A.length = B.length →
      List.zipWith padd (rows1 ez s g1 pgs A) (rows1 ez s g2 pgs B) =
        rows1 ez s (g1 + g2) pgs (List.zipWith padd A B)
  | [], _, _, _ => by simp [rows1]
  | _ :: _, [], [], _ => by simp [rows1]
  | _ :: _, [], _ :: _, h => by simp at h
  | _ :: _, _ :: _, [], h => by simp at h
  | pg :: pgs, (a, e) :: A, (a', e') :: B, h => by
      simp only [rows1, List.zipWith_cons_cons, padd]
      rw [← rows1_add ez s g1 g2 hez pgs A B (by simpa using h)]
      congr 1
      have := hez a e a' e'
      simp only [padd] at this
      simp only [addMsg1, this, Prod.mk.injEq]
      constructor <;> first | trivial | ring

theorem encZero_add (s a e a' e' : α) :
    encZero (a + a') (e + e') s = padd (encZero a e s) (encZero a' e' s) := by
  simp only [encZero, padd, Prod.mk.injEq]; constructor <;> first | trivial | ring

theorem rows0_mul (ez : α → α → α → α × α) (s g x : α)
    (hez : ∀ a e, ez (a * x) (e * x) s = pscale x (ez a e s)) :
    ∀ (pgs : List α) (A : List (α × α)),
      (rows0 ez s g pgs A).map (pscale x) =
        rows0 ez s (g * x) pgs (A.map fun ae => (ae.1 * x, ae.2 * x))
  | [], _ => by simp [rows0]
  | _ :: _, [] => by simp [rows0]
  | pg :: pgs, (a, e) :: A => by
      simp only [rows0, List.map_cons]
      rw [rows0_mul ez s g x hez pgs A]
      congr 1
      have := hez a e
      simp only [pscale] at this
      simp only [addMsg0, pscale, this, Prod.mk.injEq]
      constructor <;> first | trivial | ring

theorem rows1_mul (ez : α → α → α → α × α) (s g x : α)
    (hez : ∀ a e, ez (a * x) (e * x) s = pscale x (ez a e s)) :
    ∀ (pgs : List α) (A : List (α × α)),
      (rows1 ez s g pgs A).map (pscale x) =
        rows1 ez s (g * x) pgs (A.map fun ae => (ae.1 * x, ae.2 * x))
  | [], _ => by simp [rows1]
  | _ :: _, [] => by simp [rows1]
  | pg :: pgs, (a, e) :: A => by
      simp only [rows1, List.map_cons]
      rw [rows1_mul ez s g x hez pgs A]
      congr 1
      have := hez a e
      simp only [pscale] at this
      simp only [addMsg1, pscale, this, Prod.mk.injEq]
      constructor <;> first | trivial | ring

theorem encZero_mul (s x a e : α) : encZero (a * x) (e * x) s = pscale x (encZero a e s) := by
  simp only [encZero, pscale, Prod.mk.injEq]; constructor <;> first | trivial | ring

theorem rows0_addPlain (ez : α → α → α → α × α) (s g m : α) :
    ∀ (pgs : List α) (A : List (α × α)), pgs.length = A.length →
      List.zipWith addMsg0 (rows0 ez s g pgs A) (pgs.map (· * m)) = rows0 ez s (g + m) pgs A
  | [], _, _ => by simp [rows0]
  | _ :: _, [], h => by simp at h
  | pg :: pgs, (a, e) :: A, h => by
      simp only [rows0, List.map_cons, List.zipWith_cons_cons]
      rw [rows0_addPlain ez s g m pgs A (by simpa using h)]
      congr 1
      simp only [addMsg0, Prod.mk.injEq]; constructor <;> first | trivial | ring

theorem rows1_addPlain (ez : α → α → α → α × α) (s g m : α) :
    ∀ (pgs : List α) (A : List (α × α)), pgs.length = A.length →
      List.zipWith addMsg1 (rows1 ez s g pgs A) (pgs.map (· * m)) = rows1 ez s (g + m) pgs A
  | [], _, _ => by simp [rows1]
  | _ :: _, [], h => by simp at h
  | pg :: pgs, (a, e) :: A, h => by
      simp only [rows1, List.map_cons, List.zipWith_cons_cons]
      rw [rows1_addPlain ez s g m pgs A (by simpa using h)]
      congr 1
      simp only [addMsg1, Prod.mk.injEq]; constructor <;> first | trivial | ring

end Lattigo.RGSW
