/-
  C12 — `Diagonals.At` finds every allocated key: for a diagonal map whose indices lie in `(-n, n)`
  and are distinct modulo `n`, the key `i mod n` is found under the spelling the user chose
  (`i` itself, or `i - n` for a negative `i`).  This is the hypothesis `hAt` of the former
  `lintrans_bsgs_spec`, derived here from the index-set hypotheses alone.
-/
import Lattigo.Proofs.LinTransMatrix

namespace Lattigo.Model.LinTrans

variable {β : Type}

theorem lookupI_none_of_not_mem (m : List (Int × β)) (i : Int) (h : ∀ d ∈ m, d.1 ≠ i) :
    lookupI i m = none := by
  induction m with
  | nil => rfl
  | cons d rest ih =>
    obtain ⟨k, v⟩ := d
    have hk : k ≠ i := h (k, v) (by simp)
    simp only [lookupI, if_neg hk]
    exact ih fun d hd => h d (by simp [hd])

theorem lookupI_of_mem (m : List (Int × β)) (i : Int) (v : β) (hmem : (i, v) ∈ m)
    (hnd : (m.map (·.1)).Nodup) : lookupI i m = some v := by
  induction m with
  | nil => simp at hmem
  | cons d rest ih =>
    obtain ⟨k, w⟩ := d
    simp only [List.map_cons, List.nodup_cons] at hnd
    rcases List.mem_cons.1 hmem with h | h
    · cases h
      simp [lookupI]
    · have hk : k ≠ i := by
        intro hki
        apply hnd.1
        rw [hki]
        exact List.mem_map.2 ⟨(i, v), h, rfl⟩
      simp only [lookupI, if_neg hk]
      exact ih h hnd.2

theorem nodup_of_nodup_mod (m : List (Int × β)) (n : Nat)
    (hnd : (m.map fun d => d.1 % (n : Int)).Nodup) : (m.map (·.1)).Nodup := by
  have : (m.map fun d => d.1 % (n : Int)) = (m.map (·.1)).map (· % (n : Int)) := by
    simp [List.map_map, Function.comp_def]
  rw [this] at hnd
  exact List.Nodup.of_map _ hnd

theorem eq_of_mod_eq (m : List (Int × β)) (n : Nat)
    (hnd : (m.map fun d => d.1 % (n : Int)).Nodup) (d e : Int × β) (hd : d ∈ m) (he : e ∈ m)
    (h : d.1 % (n : Int) = e.1 % (n : Int)) : d = e :=
  List.inj_on_of_nodup_map hnd hd he h

/-- **at_finds_key**: indices in `(-n, n)`, distinct modulo `n`: the entry `(i, v)` is found by
    `Diagonals.At` under the normalised key `i mod n` -/
theorem diagAt_of_mem (m : List (Int × β)) (n : Nat)
    (hrange : ∀ d ∈ m, -(n : Int) < d.1 ∧ d.1 < (n : Int))
    (hnd : (m.map fun d => d.1 % (n : Int)).Nodup) (i : Int) (v : β) (hmem : (i, v) ∈ m) :
    diagAt m (normIdx n i) n = some v := by
  have hnd' := nodup_of_nodup_mod m n hnd
  obtain ⟨hlo, hhi⟩ := hrange (i, v) hmem
  simp only at hlo hhi
  by_cases hi : 0 ≤ i
  · have hk : normIdx n i = i := by
      unfold normIdx; exact Int.emod_eq_of_lt hi hhi
    rw [hk]
    simp [diagAt, lookupI_of_mem m i v hmem hnd']
  · have hi' : i < 0 := by omega
    have hk : normIdx n i = i + n := by
      unfold normIdx
      have h1 : (i + (n : Int)) % (n : Int) = i % (n : Int) := by simp
      rw [← h1]
      exact Int.emod_eq_of_lt (by omega) (by omega)
    rw [hk]
    have hnone : lookupI (i + (n : Int)) m = none := by
      apply lookupI_none_of_not_mem
      intro d hd hdi
      have hmod : d.1 % (n : Int) = (i, v).1 % (n : Int) := by
        rw [hdi]; simp
      have := eq_of_mod_eq m n hnd d (i, v) hd hmem hmod
      rw [this] at hdi
      simp only at hdi
      omega
    have hpos : i + (n : Int) > 0 := by omega
    simp only [diagAt, hnone, hpos, if_true]
    have : i + (n : Int) - (n : Int) = i := by omega
    rw [this]
    exact lookupI_of_mem m i v hmem hnd'

/-- the diagonal the user supplied for the residue class of `k` (zero if there is none) -/
def diagOf (n : Nat) (m : List (Int × Slots n)) (k : Int) : Slots n :=
  match m.find? (fun d => d.1 % (n : Int) == k % (n : Int)) with
  | some d => d.2
  | none => fun _ _ => 0

theorem diagOf_of_mem (n : Nat) (m : List (Int × Slots n))
    (hnd : (m.map fun d => d.1 % (n : Int)).Nodup) (i : Int) (v : Slots n) (hmem : (i, v) ∈ m) :
    diagOf n m (normIdx n i) = v := by
  unfold diagOf
  cases hf : m.find? (fun d => d.1 % (n : Int) == normIdx n i % (n : Int)) with
  | none =>
    have := List.find?_eq_none.1 hf (i, v) hmem
    simp [normIdx] at this
  | some d =>
    have hd := List.mem_of_find?_eq_some hf
    have hp := List.find?_some hf
    simp only [normIdx, Int.emod_emod_of_dvd _ (dvd_refl _), beq_iff_eq] at hp
    have := eq_of_mod_eq m n hnd d (i, v) hd hmem hp
    simp [this]

/-- every allocated key is found by `At`, with the value `diagOf` names -/
theorem diagAt_keys (n : Nat) (m : List (Int × Slots n))
    (hrange : ∀ d ∈ m, -(n : Int) < d.1 ∧ d.1 < (n : Int))
    (hnd : (m.map fun d => d.1 % (n : Int)).Nodup) (keys : List Int)
    (hkeys : ∀ k ∈ keys, ∃ d ∈ m, k = normIdx n d.1) :
    ∀ k ∈ keys, diagAt m k n = some (diagOf n m k) := by
  intro k hk
  obtain ⟨d, hd, rfl⟩ := hkeys k hk
  obtain ⟨i, v⟩ := d
  rw [diagAt_of_mem m n hrange hnd i v hd, diagOf_of_mem n m hnd i v hd]

/-! ## the naive branch of `Encode` -/

/-- for an index in `(-n, n)` the naive branch's own normalisation `if i < 0 { i + cols }` is `normIdx` -/
theorem naiveNorm_eq (n : Nat) (i : Int) (hlo : -(n : Int) < i) (hhi : i < (n : Int)) :
    (if i < 0 then i + (n : Int) else i) = normIdx n i := by
  unfold normIdx
  split
  · have h1 : (i + (n : Int)) % (n : Int) = i % (n : Int) := by simp
    rw [← h1]; exact (Int.emod_eq_of_lt (by omega) (by omega)).symm
  · exact (Int.emod_eq_of_lt (by omega) hhi).symm

theorem getLast?_filter_unique {γ : Type} (l : List γ) (p : γ → Bool) (d : γ) (hd : d ∈ l) (hp : p d = true)
    (huniq : ∀ e ∈ l, p e = true → e = d) : (l.filter p).getLast? = some d := by
  have hne : l.filter p ≠ [] := by
    intro h
    have : d ∈ l.filter p := List.mem_filter.2 ⟨hd, hp⟩
    rw [h] at this; simp at this
  cases hl : (l.filter p).getLast? with
  | none => exact absurd (List.getLast?_eq_none_iff.1 hl) hne
  | some e =>
    have he : e ∈ l.filter p := List.mem_of_getLast? hl
    rw [List.mem_filter] at he
    rw [huniq e he.1 he.2]

/-- `Encode` (naive branch) on a diagonal map with indices in `(-n, n)`, distinct modulo `n`, all of them
    allocated: every allocated key that is the normalised index of a diagonal receives that diagonal -/
theorem encode_naive (n : Nat) (m : List (Int × Slots n))
    (hrange : ∀ d ∈ m, -(n : Int) < d.1 ∧ d.1 < (n : Int))
    (hnd : (m.map fun d => d.1 % (n : Int)).Nodup) (keys : List Int)
    (hall : ∀ d ∈ m, normIdx n d.1 ∈ keys)
    (hkeys : ∀ k ∈ keys, ∃ d ∈ m, k = normIdx n d.1) :
    encode (fnOps n) n 0 keys m = some (keys.map fun k => (k, diagOf n m k)) := by
  unfold encode
  simp only [if_true]
  have hallb : (m.all fun d => keys.contains (if d.1 < 0 then d.1 + (n : Int) else d.1)) = true := by
    rw [List.all_eq_true]
    intro d hd
    rw [naiveNorm_eq n d.1 (hrange d hd).1 (hrange d hd).2]
    simpa using hall d hd
  rw [if_pos hallb]
  congr 1
  apply List.map_congr_left
  intro k hk
  obtain ⟨d, hd, rfl⟩ := hkeys k hk
  have hlast : (m.filter fun e => (if e.1 < 0 then e.1 + (n : Int) else e.1) == normIdx n d.1).getLast? = some d := by
    apply getLast?_filter_unique m _ d hd
    · rw [naiveNorm_eq n d.1 (hrange d hd).1 (hrange d hd).2]; simp
    · intro e he hpe
      rw [naiveNorm_eq n e.1 (hrange e he).1 (hrange e he).2] at hpe
      have : e.1 % (n : Int) = d.1 % (n : Int) := by simpa [normIdx] using hpe
      exact eq_of_mod_eq m n hnd e d he hd this
  rw [hlast]
  simp only
  rw [diagOf_of_mem n m hnd d.1 d.2 hd]

end Lattigo.Model.LinTrans
