/-
  Phase-level semantics of the CKKS evaluator operations over an arbitrary commutative ring
  (think `α = Z_Q[X]/(X^N+1)`), and the integer identity behind `Rescale`.

  A ciphertext of degree ≤ 2 is a triple `(c0, c1, c2)`; its phase under the secret `s` is
  `c0 + c1·s + c2·s²`.  The evaluator computes exactly the component formulas below
  (`evaluateInPlace`, `mulRelin`, `mulRelinThenAdd`, `evaluateWithScalar`); the *effects* `k0, k1, kOut`
  and the RNS constants are the integers `Lattigo.CKKS.step` returns and the harness reads back.
-/
import Lattigo.Model.CKKS
import Mathlib.Tactic.Ring
import Mathlib.Tactic.Linarith
import Mathlib.Algebra.Ring.Basic

namespace Lattigo.CKKS

section Phase
variable {α : Type*} [CommRing α]

/-- degree ≤ 2 ciphertext -/
structure Ct (α : Type*) where
  c0 : α
  c1 : α
  c2 : α

/-- `⟨ct, (1, s, s²)⟩` -/
def phase (s : α) (c : Ct α) : α := c.c0 + c.c1 * s + c.c2 * s ^ 2

/-- `evaluateInPlace`: `opOut = k0·op0 ± k1·op1` component-wise (`k0, k1` the alignment multipliers). -/
def Ct.lin (k0 k1 : α) (a b : Ct α) : Ct α := ⟨k0 * a.c0 + k1 * b.c0, k0 * a.c1 + k1 * b.c1, k0 * a.c2 + k1 * b.c2⟩

/-- `mulRelin` without relinearisation on two degree-1 ciphertexts (the tensor product). -/
def Ct.tensor (a b : Ct α) : Ct α := ⟨a.c0 * b.c0, a.c0 * b.c1 + a.c1 * b.c0, a.c1 * b.c1⟩

/-- multiplication by a constant (`evaluateWithScalar`, `MulDoubleRNSScalar`; for a complex constant
    `c = re + im·X^{N/2}` as a ring element). -/
def Ct.smul (c : α) (a : Ct α) : Ct α := ⟨c * a.c0, c * a.c1, c * a.c2⟩

/-- addition of a constant to `c0` (`AddDoubleRNSScalar`). -/
def Ct.addConst (c : α) (a : Ct α) : Ct α := ⟨a.c0 + c, a.c1, a.c2⟩

/-- relinearisation: `(k0, k1)` is the output of the gadget product of `c2` with the
    relinearisation key. -/
def Ct.relin (k0 k1 : α) (a : Ct α) : Ct α := ⟨a.c0 + k0, a.c1 + k1, 0⟩

theorem phase_lin (s k0 k1 : α) (a b : Ct α) :
    phase s (Ct.lin k0 k1 a b) = k0 * phase s a + k1 * phase s b := by
  simp only [phase, Ct.lin]; ring

/-- `Add` with equal scales. -/
theorem phase_add (s : α) (a b : Ct α) : phase s (Ct.lin 1 1 a b) = phase s a + phase s b := by
  rw [phase_lin]; ring

theorem phase_sub (s : α) (a b : Ct α) : phase s (Ct.lin 1 (-1) a b) = phase s a - phase s b := by
  rw [phase_lin]; ring

/-- `Mul` of two degree-1 ciphertexts: the phase of the degree-2 tensor is the product of the phases. -/
theorem phase_tensor (s : α) (a b : Ct α) (ha : a.c2 = 0) (hb : b.c2 = 0) :
    phase s (Ct.tensor a b) = phase s a * phase s b := by
  simp only [phase, Ct.tensor, ha, hb]; ring

/-- relinearisation adds the key-switch error `k0 + k1·s − c2·s²` as an explicit summand. -/
theorem phase_relin (s k0 k1 : α) (a : Ct α) :
    phase s (Ct.relin k0 k1 a) = phase s a + (k0 + k1 * s - a.c2 * s ^ 2) := by
  simp only [phase, Ct.relin]; ring

/-- `MulRelin`: product of the phases plus the key-switch error term. -/
theorem phase_mulRelin (s k0 k1 : α) (a b : Ct α) (ha : a.c2 = 0) (hb : b.c2 = 0) :
    phase s (Ct.relin k0 k1 (Ct.tensor a b)) =
      phase s a * phase s b + (k0 + k1 * s - a.c1 * b.c1 * s ^ 2) := by
  rw [phase_relin, phase_tensor s a b ha hb]; rfl

theorem phase_smul (s c : α) (a : Ct α) : phase s (Ct.smul c a) = c * phase s a := by
  simp only [phase, Ct.smul]; ring

theorem phase_addConst (s c : α) (a : Ct α) : phase s (Ct.addConst c a) = phase s a + c := by
  simp only [phase, Ct.addConst]; ring

/-- `MulThenAdd` (element operand): `opOut ← kOut·opOut + op0 ⊗ op1`. -/
theorem phase_mulThenAdd (s kOut : α) (o a b : Ct α) (ha : a.c2 = 0) (hb : b.c2 = 0) :
    phase s (Ct.lin kOut 1 o (Ct.tensor a b)) = kOut * phase s o + phase s a * phase s b := by
  rw [phase_lin, phase_tensor s a b ha hb]; ring

/-- `MulThenAdd` (scalar operand): `opOut ← kOut·opOut + c·op0`. -/
theorem phase_mulThenAddScalar (s kOut c : α) (o a : Ct α) :
    phase s (Ct.lin kOut c o a) = kOut * phase s o + c * phase s a := phase_lin s kOut c o a

/-- `Rescale` at the ring level: if `q·c0' = c0 − r0` and `q·c1' = c1 − r1` (the component-wise rounded
    division, `r0, r1` the remainder polynomials with coefficients in `[-q/2, q/2]`, see `divRound_spec`)
    then `q·phase' = phase − (r0 + r1·s)`: the rounding error of the phase is `(r0 + r1·s)/q`, a `c0`
    part bounded by `1/2` per coefficient plus the `s`-dependent part (`≤ h_s/2` per coefficient for a
    ternary secret of Hamming weight `h_s`). -/
theorem phase_rescale (s q c0 c1 c0' c1' r0 r1 : α)
    (h0 : q * c0' = c0 - r0) (h1 : q * c1' = c1 - r1) :
    q * phase s ⟨c0', c1', 0⟩ = phase s ⟨c0, c1, 0⟩ - (r0 + r1 * s) := by
  simp only [phase]
  have : q * (c0' + c1' * s + 0 * s ^ 2) = q * c0' + (q * c1') * s := by ring
  rw [this, h0, h1]; ring

end Phase

/-! ## the integer rounding of `DivRoundByLastModulus` -/

/-- `divRound x q = ⌊(x + ⌊q/2⌋)/q⌋` is `x/q` rounded to nearest: the remainder `r = x − q·divRound x q`
    satisfies `−⌊q/2⌋ ≤ r < q − ⌊q/2⌋`, hence `|2r| ≤ q`. -/
theorem divRound_spec (x : Int) (q : Nat) (hq : 0 < q) :
    ∃ r : Int, x = (q : Int) * divRound x q + r ∧ -((q / 2 : Nat) : Int) ≤ r ∧ r < (q : Int) - ((q / 2 : Nat) : Int) := by
  unfold divRound
  refine ⟨x - (q : Int) * ((x + ((q / 2 : Nat) : Int)) / (q : Int)), by ring, ?_, ?_⟩
  · have h1 := Int.emod_nonneg (x + ((q / 2 : Nat) : Int)) (by omega : (q : Int) ≠ 0)
    have h2 := Int.mul_ediv_add_emod (x + ((q / 2 : Nat) : Int)) (q : Int)
    linarith
  · have h1 := Int.emod_lt_of_pos (x + ((q / 2 : Nat) : Int)) (by omega : (0 : Int) < q)
    have h2 := Int.mul_ediv_add_emod (x + ((q / 2 : Nat) : Int)) (q : Int)
    linarith

theorem divRound_abs (x : Int) (q : Nat) (hq : 0 < q) :
    |2 * (x - (q : Int) * divRound x q)| ≤ (q : Int) := by
  obtain ⟨r, hx, hlo, hhi⟩ := divRound_spec x q hq
  have hr : x - (q : Int) * divRound x q = r := by linarith
  rw [hr, abs_le]
  have : ((q / 2 : Nat) : Int) * 2 ≤ q := by exact_mod_cast Nat.div_mul_le_self q 2
  have h3 : (q : Int) < ((q / 2 : Nat) : Int) * 2 + 2 := by
    have := Nat.lt_div_mul_add (a := q) (b := 2) (by omega); push_cast; omega
  constructor <;> linarith

/-- exact multiples are divided exactly (no rounding error). -/
theorem divRound_mul (k : Int) (q : Nat) (hq : 0 < q) : divRound ((q : Int) * k) q = k := by
  unfold divRound
  have hq' : (0 : Int) < q := by exact_mod_cast hq
  have h := Int.add_mul_ediv_left ((q / 2 : Nat) : Int) k (ne_of_gt hq')
  rw [show (q : Int) * k + ((q / 2 : Nat) : Int) = ((q / 2 : Nat) : Int) + (q : Int) * k by ring, h]
  have : ((q / 2 : Nat) : Int) / (q : Int) = 0 := by
    apply Int.ediv_eq_zero_of_lt (by positivity)
    exact_mod_cast Nat.div_lt_self hq (by norm_num)
  omega

end Lattigo.CKKS
