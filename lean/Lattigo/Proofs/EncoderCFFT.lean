/-
  The special (odd-exponent) DFT of the CKKS encoder in EXACT arithmetic.

  `K` a field, `ζ` a primitive `2N`-th root of unity, `(N : K) ≠ 0`.  A plaintext polynomial `m(X) = Σ_{k<N} m_k X^k`
  is decoded by evaluating it at the `N` roots of `X^N + 1`, i.e. at the odd powers `ζ^(2t+1)`, `t < N`
  (`evalOdd`); the encoder inverts this map (`interpOdd`: the inverse transform the special IFFT computes).

    `evalOdd_interpOdd`  decode ∘ encode = id   on every slot vector
    `interpOdd_evalOdd`  encode ∘ decode = id   on every coefficient vector

  * ordering of the slots: lattigo stores slot `j` at the exponent `5^j mod 2N` and its conjugate at `−5^j`;
    `Props.C07CKKS.orbit_injective` + `five_pow_ne_neg_five_pow` show these `N` exponents are pairwise distinct
    odd residues, so they are a re-indexing of `t ↦ 2t+1`;
  * sparse packing (`n` slots, `gap = N/(2n)`): the plaintext is a polynomial in `Y = X^gap` and `ζ^gap` is a
    primitive `2·(N/gap)`-th root: `evalOdd_interpOdd_sparse` is the same statement for `N/gap`;
  * conjugate-invariant ring of degree `N`: its elements are the polynomials of degree `< 2N` in a `4N`-th root
    with `p_{2N−k} = −p_k`; the statement is the one for `2N` (real slots are the conjugation-fixed vectors).

  Rounding: if every coefficient of the encoded polynomial is off by at most `B` (`B = 1/(2Δ)`,
  `fixedpoint_roundtrip`), every slot is off by at most `N·B` (`slot_error_of_coeff_error`).
-/
import Mathlib.RingTheory.RootsOfUnity.PrimitiveRoots
import Mathlib.Analysis.Normed.Field.Basic
import Mathlib.Algebra.Field.GeomSum
import Mathlib.Tactic.FieldSimp
import Mathlib.Tactic.Ring
import Mathlib.Tactic.Linarith

namespace Lattigo.EncoderC
open Finset

section exact
variable {K : Type*} [Field K]

/-- value of the polynomial with coefficients `m` at the `t`-th odd power of `ζ` (Decode, exact). -/
def evalOdd (ζ : K) (N : ℕ) (m : ℕ → K) (t : ℕ) : K := ∑ k ∈ range N, m k * ζ ^ ((2 * t + 1) * k)

/-- the inverse transform (Encode before rounding, exact). -/
def interpOdd (ζ : K) (N : ℕ) (v : ℕ → K) (k : ℕ) : K :=
  (N : K)⁻¹ * ∑ t ∈ range N, v t * ζ⁻¹ ^ ((2 * t + 1) * k)

open Classical in
/-- orthogonality: for `x^N = 1`, `Σ_{k<N} x^k` is `N` if `x = 1` and `0` otherwise. -/
theorem geom_sum_root (x : K) (N : ℕ) (hx : x ^ N = 1) :
    ∑ k ∈ range N, x ^ k = if x = 1 then (N : K) else 0 := by
  split
  · rename_i h; simp [h]
  · rename_i h
    have := geom_sum_mul x N
    rw [hx, sub_self] at this
    rcases mul_eq_zero.mp this with h0 | h0
    · exact h0
    · exact absurd (sub_eq_zero.mp h0) h

variable {ζ : K} {N : ℕ}

theorem sq_primitive (hζ : IsPrimitiveRoot ζ (2 * N)) (hN : 0 < N) : IsPrimitiveRoot (ζ ^ 2) N := by
  exact hζ.pow (by omega) rfl

/-- `ω^t·ω⁻¹^u = 1 ↔ t = u` for `t, u < N`, `ω` a primitive `N`-th root. -/
theorem ratio_eq_one_iff {ω : K} (hω : IsPrimitiveRoot ω N) {t u : ℕ} (ht : t < N) (hu : u < N) :
    ω ^ t * ω⁻¹ ^ u = 1 ↔ t = u := by
  have hne : ω ≠ 0 := hω.ne_zero (by omega)
  rw [inv_pow, mul_inv_eq_one₀ (pow_ne_zero _ hne)]
  exact ⟨fun h => hω.pow_inj ht hu h, fun h => by rw [h]⟩

theorem ratio_pow_N {ω : K} (hω : IsPrimitiveRoot ω N) (t u : ℕ) : (ω ^ t * ω⁻¹ ^ u) ^ N = 1 := by
  rw [mul_pow, ← pow_mul, ← pow_mul, mul_comm t, mul_comm u, pow_mul, pow_mul, inv_pow, hω.pow_eq_one]
  simp

/-- **decode ∘ encode = id** (exact arithmetic, every slot vector). -/
theorem evalOdd_interpOdd (hζ : IsPrimitiveRoot ζ (2 * N)) (hN : 0 < N) (hNK : (N : K) ≠ 0) (v : ℕ → K)
    (t : ℕ) (ht : t < N) : evalOdd ζ N (interpOdd ζ N v) t = v t := by
  have hω := sq_primitive hζ hN
  have hz : ζ ≠ 0 := hζ.ne_zero (by omega)
  unfold evalOdd interpOdd
  -- swap the sums
  have h1 : ∀ k ∈ range N, (N : K)⁻¹ * (∑ u ∈ range N, v u * ζ⁻¹ ^ ((2 * u + 1) * k)) * ζ ^ ((2 * t + 1) * k)
      = ∑ u ∈ range N, (N : K)⁻¹ * v u * ((ζ ^ 2) ^ t * (ζ ^ 2)⁻¹ ^ u) ^ k := by
    intro k _
    rw [mul_assoc, sum_mul, mul_sum]
    apply sum_congr rfl
    intro u _
    have hzw : ζ * ζ⁻¹ = 1 := mul_inv_cancel₀ hz
    have : ζ⁻¹ ^ ((2 * u + 1) * k) * ζ ^ ((2 * t + 1) * k) = ((ζ ^ 2) ^ t * (ζ ^ 2)⁻¹ ^ u) ^ k := by
      rw [show (ζ ^ 2)⁻¹ = ζ⁻¹ ^ 2 from (inv_pow ζ 2).symm]
      calc ζ⁻¹ ^ ((2 * u + 1) * k) * ζ ^ ((2 * t + 1) * k)
          = ((ζ ^ 2) ^ t * (ζ⁻¹ ^ 2) ^ u) ^ k * (ζ * ζ⁻¹) ^ k := by ring
        _ = _ := by rw [hzw, one_pow, mul_one]
    rw [mul_assoc, mul_assoc, this]
  rw [sum_congr rfl h1, sum_comm]
  have h2 : ∀ u ∈ range N, ∑ k ∈ range N, (N : K)⁻¹ * v u * ((ζ ^ 2) ^ t * (ζ ^ 2)⁻¹ ^ u) ^ k
      = if t = u then v u else 0 := by
    intro u hu
    rw [← mul_sum, geom_sum_root _ N (ratio_pow_N hω t u)]
    simp only [ratio_eq_one_iff hω ht (mem_range.mp hu)]
    split
    · field_simp
    · simp
  rw [sum_congr rfl h2]
  simp [ht]

/-- **encode ∘ decode = id** (exact arithmetic, every coefficient vector). -/
theorem interpOdd_evalOdd (hζ : IsPrimitiveRoot ζ (2 * N)) (hN : 0 < N) (hNK : (N : K) ≠ 0) (m : ℕ → K)
    (k : ℕ) (hk : k < N) : interpOdd ζ N (evalOdd ζ N m) k = m k := by
  have hω := sq_primitive hζ hN
  have hz : ζ ≠ 0 := hζ.ne_zero (by omega)
  unfold evalOdd interpOdd
  have h1 : ∀ t ∈ range N, (∑ l ∈ range N, m l * ζ ^ ((2 * t + 1) * l)) * ζ⁻¹ ^ ((2 * t + 1) * k)
      = ∑ l ∈ range N, m l * (ζ ^ l * ζ⁻¹ ^ k) * ((ζ ^ 2) ^ l * (ζ ^ 2)⁻¹ ^ k) ^ t := by
    intro t _
    rw [sum_mul]
    apply sum_congr rfl
    intro l _
    have : ζ ^ ((2 * t + 1) * l) * ζ⁻¹ ^ ((2 * t + 1) * k) = (ζ ^ l * ζ⁻¹ ^ k) * ((ζ ^ 2) ^ l * (ζ ^ 2)⁻¹ ^ k) ^ t := by
      rw [show (ζ ^ 2)⁻¹ = ζ⁻¹ ^ 2 from (inv_pow ζ 2).symm]
      ring
    rw [mul_assoc, this]
    ring
  rw [sum_congr rfl h1, sum_comm]
  have h2 : ∀ l ∈ range N, ∑ t ∈ range N, m l * (ζ ^ l * ζ⁻¹ ^ k) * ((ζ ^ 2) ^ l * (ζ ^ 2)⁻¹ ^ k) ^ t
      = if l = k then (N : K) * m l else 0 := by
    intro l hl
    rw [← mul_sum, geom_sum_root _ N (ratio_pow_N hω l k)]
    simp only [ratio_eq_one_iff hω (mem_range.mp hl) hk]
    split
    · rename_i h; rw [h, inv_pow, mul_inv_cancel₀ (pow_ne_zero _ hz)]; ring
    · simp
  rw [sum_congr rfl h2]
  simp [hk]
  field_simp

/-- sparse packing: a plaintext in `Y = X^gap` with `N = gap·N'`: the same inversion with the root `ζ^gap`. -/
theorem evalOdd_interpOdd_sparse {gap N' : ℕ} (hζ : IsPrimitiveRoot ζ (2 * (gap * N'))) (hg : 0 < gap) (hN : 0 < N')
    (hNK : (N' : K) ≠ 0) (v : ℕ → K) (t : ℕ) (ht : t < N') :
    evalOdd (ζ ^ gap) N' (interpOdd (ζ ^ gap) N' v) t = v t := by
  have h : IsPrimitiveRoot (ζ ^ gap) (2 * N') := by
    apply hζ.pow (by positivity)
    ring
  exact evalOdd_interpOdd h hN hNK v t ht

end exact

section rounding
variable {K : Type*} [NormedField K]

theorem evalOdd_add (ζ : K) (N : ℕ) (m δ : ℕ → K) (t : ℕ) :
    evalOdd ζ N (fun k => m k + δ k) t = evalOdd ζ N m t + evalOdd ζ N δ t := by
  unfold evalOdd; rw [← sum_add_distrib]; apply sum_congr rfl; intro k _; ring

/-- **slot error from coefficient error**: coefficients off by at most `B` each (`B = 1/(2Δ)` for the
    fixed-point rounding of `Encode`) ⇒ every decoded slot off by at most `N·B`. -/
theorem slot_error_of_coeff_error (ζ : K) (N : ℕ) (hζ : ‖ζ‖ = 1) (m δ : ℕ → K) (B : ℝ)
    (hδ : ∀ k < N, ‖δ k‖ ≤ B) (t : ℕ) :
    ‖evalOdd ζ N (fun k => m k + δ k) t - evalOdd ζ N m t‖ ≤ N * B := by
  rw [evalOdd_add, add_sub_cancel_left]
  unfold evalOdd
  calc ‖∑ k ∈ range N, δ k * ζ ^ ((2 * t + 1) * k)‖ ≤ ∑ k ∈ range N, ‖δ k * ζ ^ ((2 * t + 1) * k)‖ := norm_sum_le _ _
    _ = ∑ k ∈ range N, ‖δ k‖ := by
        apply sum_congr rfl; intro k _; rw [norm_mul, norm_pow, hζ, one_pow, mul_one]
    _ ≤ ∑ _k ∈ range N, B := sum_le_sum (fun k hk => hδ k (mem_range.mp hk))
    _ = N * B := by rw [sum_const, card_range, nsmul_eq_mul]

/-- a root of unity of a normed field has norm one. -/
theorem norm_root_eq_one {ζ : K} {n : ℕ} (hn : 0 < n) (h : ζ ^ n = 1) : ‖ζ‖ = 1 := by
  have h1 : ‖ζ‖ ^ n = 1 := by rw [← norm_pow, h, norm_one]
  exact (pow_eq_one_iff_of_nonneg (norm_nonneg ζ) (by omega)).mp h1

end rounding
end Lattigo.EncoderC
