import Lattigo.Proofs.BasisExtNTT

/-!
  # `rlwe.Evaluator.ModDown`: the four (input domain, output domain) combinations compute ONE quotient (C02)

  `BasisExt.evalModDown` is the twin of `Evaluator.ModDown(levelQ, levelP, ctQP, ct)` (core/rlwe/evaluator_gadget_product.go)
  on one polynomial, for distinct buffers.  For the standard ring of degree `N = 2^K ≥ 16`:
  * `evalModDown_domains` — with a special modulus (`levelP = some lp`): whatever the flags `(ctQP.IsNTT, ct.IsNTT)`,
    when the input rows represent the integer vector `X` in the input's domain, the output rows read in the
    coefficient domain (`readCoeff`) ARE the rows of `modDownQPtoQ` on the coefficient-domain rows of `X` — limb for
    limb, for every value of the IEEE index; `modDownQPtoQ_limbs` / `modDownQPtoQ_err_le_one` then say these are the
    rounded quotient `⌊(x + ⌊P/2⌋)/P⌋` up to an error of at most one;
  * `evalModDown_noP` — without special modulus (`levelP = none`, Go's `-1`): the output read in the coefficient
    domain is `X mod q_i` (a copy / change of domain; the copy direction was wrong before repair C02-5 of /repo).
  (`N ≥ 16`: the NTT → coefficient branch uses `INTTLazy`, which is `INTT` only there; the NTT → NTT branch is
  `modDownQPtoQNTT_eq`.)
-/
set_option linter.unusedVariables false

namespace Lattigo.BasisExt
open Lattigo Lattigo.Gen Lattigo.Scaling Lattigo.NTT

/-- the rows of the integer vector `X` in the NTT domain (bit-exact reduced forward transforms) -/
def nttDomRows (T : Tabs) (Q : List ℕ) (level : ℕ) (X : List ℕ) : Rows :=
  (List.range (level + 1)).map fun i => nttStd (tab T i) (X.map (· % Q.getD i 0))

/-- the rows of `X` in the domain given by the flag -/
def domRows (ntt : Bool) (T : Tabs) (Q : List ℕ) (level : ℕ) (X : List ℕ) : Rows :=
  if ntt then nttDomRows T Q level X else coeffRows Q level X

/-- read a row of the output in the coefficient domain -/
def readCoeff (ntt : Bool) (T : Tables) (r : List ℕ) : List ℕ := if ntt then inttStd T r else r

theorem nttDomRows_row (T : Tabs) (Q : List ℕ) (level : ℕ) (X : List ℕ) (i : ℕ) (hi : i ≤ level) :
    row (nttDomRows T Q level X) i = nttStd (tab T i) (X.map (· % Q.getD i 0)) :=
  row_map_range _ _ i (by omega)

/-- `INTT(NTT(X mod q))` on valid tables -/
theorem intt_ntt_mod {T : Tables} {K : ℕ} (hv : Valid T K) (X : List ℕ) (hX : X.length = 2 ^ K) :
    inttStd T (nttStd T (X.map (· % T.q))) = X.map (· % T.q) :=
  inttStd_nttStd hv _ (by rw [List.length_map, hX, hv.n_eq])
    (by intro x hx; rw [List.mem_map] at hx; obtain ⟨y, _, rfl⟩ := hx; exact Nat.mod_lt _ hv.q_pos)

/-- `INTTLazy` (resp. `INTT`) of the NTT-domain rows of `X` = the coefficient-domain rows (`N ≥ 16`) -/
theorem inttLazy_domRows (T : Tabs) (Q : List ℕ) (level K : ℕ) (hK : 4 ≤ K)
    (hT : ∀ i, i ≤ level → Valid (tab T i) K ∧ (tab T i).q = Q.getD i 0) (X : List ℕ) (hX : X.length = 2 ^ K) :
    (List.range (level + 1)).map (fun i => xfStd.inttLazy (tab T i) (row (nttDomRows T Q level X) i))
      = coeffRows Q level X := by
  unfold coeffRows
  apply List.map_congr_left
  intro i hi
  have hi' : i ≤ level := by have := List.mem_range.mp hi; omega
  obtain ⟨hv, hq⟩ := hT i hi'
  show inttStdLazy (tab T i) _ = _
  rw [nttDomRows_row T Q level X i hi', inttStdLazy_eq_inttStd _ (not_lt_unrollMin hv hK), ← hq]
  exact intt_ntt_mod hv X hX

/-- every row of `ModDownQPtoQ` on coefficient-domain rows is `zipWith modDownRes` of the extended buffer row and the
input row — in particular REDUCED (`< q_i`) and of the ring's length — for EVERY value of the IEEE index -/
theorem modDownQPtoQ_row_red (Q P : List ℕ) (levelQ levelP : ℕ) (hlQ : levelQ < Q.length) (hlP : levelP < P.length)
    (hCP : Chain (P.take (levelP + 1))) (k : ℕ) (hk : (P.take (levelP + 1)).sum ≤ k * W)
    (hTgt : Target Q (k + 2)) (X : List ℕ) (i : ℕ) (hi : i ≤ levelQ) :
    (row (modDownQPtoQ Q P levelQ levelP (coeffRows Q levelQ X) (coeffRows P levelP X)) i).length = X.length
    ∧ ∀ z ∈ row (modDownQPtoQ Q P levelQ levelP (coeffRows Q levelQ X) (coeffRows P levelP X)) i,
        z < Q.getD i 0 := by
  have hmem := getD_mem Q i (by omega)
  have hp := hTgt.prime _ hmem
  have hodd := hTgt.odd _ hmem
  have hsm := hTgt.small _ hmem
  have hq2 : 2 * Q.getD i 0 ≤ W := by
    have : 2 * Q.getD i 0 ≤ (k + 2 + 2) * Q.getD i 0 := Nat.mul_le_mul_right _ (by omega)
    omega
  obtain ⟨hBlen, hBlt⟩ := modUp_row_lt P Q levelP levelQ hlP hlQ hCP k hk (hTgt.mono (by omega))
    (coeffRows P levelP X) X (fun j hj => coeffRows_row P levelP X j hj) i hi
  have hcspec := modDownConst_spec (Q.getD i 0) hp hodd hq2 P levelP (by intro h; rw [h] at hlP; simp at hlP)
  have hR : row (modDownQPtoQ Q P levelQ levelP (coeffRows Q levelQ X) (coeffRows P levelP X)) i
      = List.zipWith (fun b x => modDownRes (Q.getD i 0) (pinvN (Q.getD i 0) (P.take (levelP + 1))) x b)
          (row (modUp P Q levelP levelQ (coeffRows P levelP X)) i) (X.map (· % Q.getD i 0)) := by
    unfold modDownQPtoQ modDownRows modUpPtoQ
    rw [row_map_range _ _ i (by omega), coeffRows_row Q levelQ X i hi]
    apply zipWith_congr_mem
    intro b hb x hx
    rw [List.mem_map] at hx
    obtain ⟨y, _, rfl⟩ := hx
    have hb' := hBlt b hb
    have h4 : (k + 2 + 2) * Q.getD i 0 = (k + 2) * Q.getD i 0 + 2 * Q.getD i 0 := by
      rw [Nat.add_mul]
    exact modDownLane_spec (Q.getD i 0) _ _ b _ hp hodd hq2 hcspec (Nat.mod_lt _ hp.pos) (by omega)
  rw [hR]
  refine ⟨by rw [List.length_zipWith, hBlen, List.length_map, Nat.min_self], ?_⟩
  exact forall_zipWith _ (fun z => z < Q.getD i 0) _ _ (fun u _ v _ => modDownRes_lt _ _ v u hp.pos)

/-- **`Evaluator.ModDown` with a special modulus: all four domain combinations compute the same limbs.**
Standard ring, `N = 2^K ≥ 16`.  `X` the integer coefficients; the input rows are `X` in the domain `qpNTT`; the
output rows, read in the coefficient domain when `ctNTT`, are the rows of `modDownQPtoQ` on the coefficient-domain
rows of `X` — whatever the flags, whatever the IEEE index. -/
theorem evalModDown_domains (TQ TP : Tabs) (Q P : List ℕ) (levelQ levelP K : ℕ) (hK : 4 ≤ K)
    (hlQ : levelQ < Q.length) (hlP : levelP < P.length)
    (hTQ : ∀ i, i ≤ levelQ → Valid (tab TQ i) K ∧ (tab TQ i).q = Q.getD i 0)
    (hTP : ∀ j, j ≤ levelP → Valid (tab TP j) K ∧ (tab TP j).q = P.getD j 0)
    (hCP : Chain (P.take (levelP + 1))) (k : ℕ) (hk : (P.take (levelP + 1)).sum ≤ k * W)
    (hTgt : Target Q (k + 4)) (X : List ℕ) (hX : X.length = 2 ^ K) (qpNTT ctNTT : Bool)
    (i : ℕ) (hi : i ≤ levelQ) :
    readCoeff ctNTT (tab TQ i)
        (row (evalModDown xfStd TQ TP Q P levelQ (some levelP) qpNTT ctNTT
          (domRows qpNTT TQ Q levelQ X) (domRows qpNTT TP P levelP X)).1 i)
      = row (modDownQPtoQ Q P levelQ levelP (coeffRows Q levelQ X) (coeffRows P levelP X)) i := by
  obtain ⟨hv, hq⟩ := hTQ i hi
  obtain ⟨hDlen, hDlt⟩ := modDownQPtoQ_row_red Q P levelQ levelP hlQ hlP hCP k hk (hTgt.mono (by omega)) X i hi
  have hback : inttStd (tab TQ i)
      (nttStd (tab TQ i) (row (modDownQPtoQ Q P levelQ levelP (coeffRows Q levelQ X) (coeffRows P levelP X)) i))
      = row (modDownQPtoQ Q P levelQ levelP (coeffRows Q levelQ X) (coeffRows P levelP X)) i :=
    inttStd_nttStd hv _ (by rw [hDlen, hX, hv.n_eq]) (by rw [hq]; exact hDlt)
  cases qpNTT <;> cases ctNTT
  · -- coefficient → coefficient
    rfl
  · -- coefficient → NTT
    show inttStd (tab TQ i) (row (nttRowsX xfStd TQ levelQ _) i) = _
    unfold nttRowsX
    rw [row_map_range _ _ i (by omega)]
    exact hback
  · -- NTT → coefficient: `INTTLazy` in place, then `ModDownQPtoQ`
    show row (modDownQPtoQ Q P levelQ levelP
        ((List.range (levelQ + 1)).map fun i => xfStd.inttLazy (tab TQ i) (row (nttDomRows TQ Q levelQ X) i))
        ((List.range (levelP + 1)).map fun j => xfStd.inttLazy (tab TP j) (row (nttDomRows TP P levelP X) j))) i = _
    rw [inttLazy_domRows TQ Q levelQ K hK hTQ X hX, inttLazy_domRows TP P levelP K hK hTP X hX]
  · -- NTT → NTT: `ModDownQPtoQNTT`
    show inttStd (tab TQ i) (row (modDownQPtoQNTT TQ TP Q P levelQ levelP (nttDomRows TQ Q levelQ X)
        (nttDomRows TP P levelP X)) i) = _
    rw [modDownQPtoQNTT_eq TQ TP Q P levelQ levelP K hK hlQ hlP hTQ hTP hCP k hk hTgt _ _ X hX
      (fun i hi => nttDomRows_row TQ Q levelQ X i hi) (fun j hj => nttDomRows_row TP P levelP X j hj) i hi]
    exact hback

/-- **`Evaluator.ModDown` without special modulus** (`levelP = -1`): the output, read in the coefficient domain, is
`X mod q_i` for all four domain combinations (every ring degree). -/
theorem evalModDown_noP (TQ TP : Tabs) (Q P : List ℕ) (levelQ K : ℕ)
    (hTQ : ∀ i, i ≤ levelQ → Valid (tab TQ i) K ∧ (tab TQ i).q = Q.getD i 0)
    (X : List ℕ) (hX : X.length = 2 ^ K) (qpNTT ctNTT : Bool) (pP : Rows) (i : ℕ) (hi : i ≤ levelQ) :
    readCoeff ctNTT (tab TQ i)
        (row (evalModDown xfStd TQ TP Q P levelQ none qpNTT ctNTT (domRows qpNTT TQ Q levelQ X) pP).1 i)
      = X.map (· % Q.getD i 0) := by
  obtain ⟨hv, hq⟩ := hTQ i hi
  have hback : inttStd (tab TQ i) (nttStd (tab TQ i) (X.map (· % Q.getD i 0))) = X.map (· % Q.getD i 0) := by
    rw [← hq]; exact intt_ntt_mod hv X hX
  have htake : ∀ (p : Rows), p.length = levelQ + 1 → p.take (levelQ + 1) = p :=
    fun p h => List.take_of_length_le (by omega)
  have hlen1 : (coeffRows Q levelQ X).length = levelQ + 1 := by unfold coeffRows; simp
  have hlen2 : (nttDomRows TQ Q levelQ X).length = levelQ + 1 := by unfold nttDomRows; simp
  cases qpNTT <;> cases ctNTT
  · show row ((coeffRows Q levelQ X).take (levelQ + 1)) i = _
    rw [htake _ hlen1, coeffRows_row Q levelQ X i hi]
  · show inttStd (tab TQ i) (row (nttRowsX xfStd TQ levelQ (coeffRows Q levelQ X)) i) = _
    unfold nttRowsX
    rw [row_map_range _ _ i (by omega), coeffRows_row Q levelQ X i hi]
    exact hback
  · show row (inttRowsX xfStd TQ levelQ (nttDomRows TQ Q levelQ X)) i = _
    unfold inttRowsX
    rw [row_map_range _ _ i (by omega), nttDomRows_row TQ Q levelQ X i hi]
    exact hback
  · show inttStd (tab TQ i) (row ((nttDomRows TQ Q levelQ X).take (levelQ + 1)) i) = _
    rw [htake _ hlen2, nttDomRows_row TQ Q levelQ X i hi]
    exact hback

end Lattigo.BasisExt

#print axioms Lattigo.BasisExt.modDownQPtoQ_row_red
#print axioms Lattigo.BasisExt.evalModDown_domains
#print axioms Lattigo.BasisExt.evalModDown_noP
