import Lattigo.Proofs.NTTInv

/-!
  # Range / no-wrap of the lazy forward NTT on LARGE inputs, and linearity of the exact network
  (used by property C02: `Div{Floor,Round}ByLastModulusNTT` feed `NTTLazy` of ring `q_i` with
  residues modulo the possibly much larger `q_ℓ`, resp. with values `< q_ℓ + q_i`)

  The C01 range theorems (`fwdRec_ok`, `BoundOK`) measure everything in multiples of `q`, capped at `8q`,
  and cover inputs `< 2q` only.  Here the bounds are ABSOLUTE: a sequence `b : ℕ → ℕ` with
  * reducing stage `d`  : inputs `< b d ≤ 2^64`, outputs `< max (min (b d) 4q) (b d − 4q) + 2q ≤ b (d+1)`
                          (the reducing butterfly subtracts `4q` ONCE when `u ≥ 4q`),
  * non-reducing stage  : inputs `< b d`, outputs `< b d + 2q ≤ b (d+1) ≤ 2^64`.
  For the unrolled schedule `flagStd (2^K)`, `K ≥ 4`, and inputs `< M` with `M + 4q ≤ 2^64`, `8q ≤ 2^64`:
  `M, M+2q, M+4q`, then alternately `m+2q` / `m+4q` with `m = max M 4q`, and `< m + 2q` at the output.
-/
namespace Lattigo.NTT
open Lattigo Lattigo.Gen

/-! ### one butterfly, absolute bound -/

/-- One forward butterfly with an ABSOLUTE bound `u < bu` (no `u < 8q`): reducing needs `bu ≤ 2^64`,
non-reducing `bu + 2q ≤ 2^64`.  The word-level result is the ideal one (no wrap) and both outputs are
`< max (min bu 4q) (bu − 4q) + 2q` resp. `< bu + 2q`. -/
theorem bfly_eq_bflyN_abs (r : Bool) (psi q qinv u v bu : Nat) (h8 : 8 * q ≤ W)
    (hm : MontConst q qinv) (hpsi : psi < q) (hv : v < W) (hu : u < bu)
    (hb : if r then bu ≤ W else bu + 2 * q ≤ W) :
    bfly r psi q qinv u v = bflyN r psi q qinv u v
    ∧ (bflyN r psi q qinv u v).1 < (if r then max (min bu (4 * q)) (bu - 4 * q) else bu) + 2 * q
    ∧ (bflyN r psi q qinv u v).2 < (if r then max (min bu (4 * q)) (bu - 4 * q) else bu) + 2 * q := by
  have hq0 := hm.pos
  have hVP : v * psi < q * W := by
    rw [Nat.mul_comm q W]; exact Nat.mul_lt_mul'' hv hpsi
  obtain ⟨_, hlt, hpos⟩ := MRedLazy_eq v psi q qinv (by unfold W at *; omega) hm hVP
  have h2 := twoQ_eq q (by unfold W at *; omega)
  have h4 := fourQ_eq q (by unfold W at *; omega)
  unfold bfly bflyN butterfly
  rw [h2, h4]
  simp only []
  generalize MRedLazy v psi q qinv = v' at *
  cases r with
  | true =>
    simp only [if_true, Bool.true_and] at hb ⊢
    by_cases h : 4 * q ≤ u
    · have hU' : u64sub u (4 * q) = u - 4 * q := by
        simp only [u64sub]; unfold W at *; omega
      rw [if_pos (decide_eq_true h), if_pos (decide_eq_true h), hU']
      simp only [u64add, u64sub, Nat.min_def, Nat.max_def]
      unfold W at *
      refine ⟨?_, ?_, ?_⟩
      · congr 1 <;> omega
      · (repeat' split) <;> omega
      · (repeat' split) <;> omega
    · rw [if_neg (by simpa using h), if_neg (by simpa using h)]
      simp only [u64add, u64sub, Nat.min_def, Nat.max_def]
      unfold W at *
      refine ⟨?_, ?_, ?_⟩
      · congr 1 <;> omega
      · (repeat' split) <;> omega
      · (repeat' split) <;> omega
  | false =>
    simp only [Bool.false_and, if_false, Bool.false_eq_true] at hb ⊢
    simp only [u64add, u64sub]
    unfold W at *
    refine ⟨?_, ?_, ?_⟩
    · congr 1 <;> omega
    · omega
    · omega

/-- the absolute per-depth bounds `b d` are compatible with the reduce schedule `flag` on depths `< K` -/
def BoundOKA (flag : Nat → Bool) (b : Nat → Nat) (q K : Nat) : Prop :=
  ∀ d, d < K →
    (flag d = true → b d ≤ W ∧ max (min (b d) (4 * q)) (b d - 4 * q) + 2 * q ≤ b (d + 1)) ∧
    (flag d = false → b d + 2 * q ≤ b (d + 1) ∧ b (d + 1) ≤ W)

theorem BoundOKA.le_W {flag : Nat → Bool} {b : Nat → Nat} {q K : Nat} (hB : BoundOKA flag b q K)
    (d : Nat) (hd : d < K) : b d ≤ W := by
  obtain ⟨h1, h2⟩ := hB d hd
  cases hf : flag d with
  | true => exact (h1 hf).1
  | false => have := h2 hf; omega

/-- one stage, absolute bounds: no wrap and outputs `< b (d+1)` -/
theorem fwdStage_okA (roots : Array Nat) (q qinv : Nat) (flag : Nat → Bool) (b : Nat → Nat) (K : Nat)
    (h8 : 8 * q ≤ W) (hm : MontConst q qinv) (hr : RootsLt roots q) (hB : BoundOKA flag b q K)
    (d j : Nat) (hd : d < K) (a : List Nat) (ha : ∀ x ∈ a, x < b d) :
    fwdStage roots q qinv flag d j a = fwdStageN roots q qinv flag d j a
    ∧ (∀ p ∈ fwdStageN roots q qinv flag d j a, p.1 < b (d + 1) ∧ p.2 < b (d + 1)) := by
  obtain ⟨hB1, hB2⟩ := hB d hd
  have hW := hB.le_W d hd
  have hside : (if flag d then b d ≤ W else b d + 2 * q ≤ W)
      ∧ (if flag d then max (min (b d) (4 * q)) (b d - 4 * q) else b d) + 2 * q ≤ b (d + 1) := by
    cases hf : flag d with
    | true =>
      obtain ⟨h1, h2⟩ := hB1 hf
      simp only [if_true]
      exact ⟨h1, h2⟩
    | false =>
      obtain ⟨h1, h2⟩ := hB2 hf
      simp only [Bool.false_eq_true, if_false]
      exact ⟨by omega, h1⟩
  have key : ∀ u ∈ a.take (a.length / 2), ∀ v ∈ a.drop (a.length / 2),
      bfly (flag d) roots[j]! q qinv u v = bflyN (flag d) roots[j]! q qinv u v
      ∧ (bflyN (flag d) roots[j]! q qinv u v).1 < b (d + 1)
      ∧ (bflyN (flag d) roots[j]! q qinv u v).2 < b (d + 1) := by
    intro u hu v hv
    have hvW : v < W := by have := ha v (mem_drop_of hv); omega
    obtain ⟨e, b1, b2⟩ := bfly_eq_bflyN_abs (flag d) roots[j]! q qinv u v (b d) h8 hm (hr j)
      hvW (ha u (mem_take_of hu)) hside.1
    exact ⟨e, Nat.lt_of_lt_of_le b1 hside.2, Nat.lt_of_lt_of_le b2 hside.2⟩
  constructor
  · exact zipWith_congr_mem _ _ _ _ (fun u hu v hv => (key u hu v hv).1)
  · exact forall_zipWith _ (fun p : Nat × Nat => p.1 < b (d + 1) ∧ p.2 < b (d + 1)) _ _
      (fun u hu v hv => (key u hu v hv).2)

section
variable {q : ℕ} [hp : Fact q.Prime]

/-- **Stage-wise exactness and range of the forward network, absolute bounds**: under `BoundOKA`, the
word-level network on inputs `< b d`, read in `Z_q`, IS the exact Cooley–Tukey network on the inputs read
in `Z_q` (inputs need NOT be `< 2q`), and its outputs are `< b (d + k)`. -/
theorem fwdRec_castA (roots : Array ℕ) (qinv : ℕ) (flag : ℕ → Bool) (b : ℕ → ℕ) (K : ℕ)
    (h8 : 8 * q ≤ W) (hm : MontConst q qinv) (hr : RootsLt roots q) (hB : BoundOKA flag b q K) :
    ∀ (k d j : ℕ) (a : List ℕ), d + k ≤ K → (∀ x ∈ a, x < b d) →
      (fwdRec roots q qinv flag k d j a).map (Nat.cast : ℕ → ZMod q)
        = fwdZ (rho q roots) k j (a.map (Nat.cast : ℕ → ZMod q))
      ∧ ∀ y ∈ fwdRec roots q qinv flag k d j a, y < b (d + k)
  | 0, _, _, _, _, ha => ⟨rfl, ha⟩
  | k + 1, d, j, a, hdk, ha => by
    obtain ⟨e, hb⟩ := fwdStage_okA roots q qinv flag b K h8 hm hr hB d j (by omega) a ha
    have hW : ∀ x ∈ a, x < W := by
      intro x hx
      have := ha x hx
      have := hB.le_W d (by omega)
      omega
    have key : ∀ u ∈ a.take (a.length / 2), ∀ v ∈ a.drop (a.length / 2),
        (((bflyN (flag d) roots[j]! q qinv u v).1 : ℕ) : ZMod q) = (u : ZMod q) + rho q roots j * v
        ∧ (((bflyN (flag d) roots[j]! q qinv u v).2 : ℕ) : ZMod q) = (u : ZMod q) - rho q roots j * v :=
      fun u _ v hv => bflyN_cast (flag d) roots[j]! qinv u v h8 hm (hr j) (hW v (mem_drop_of hv))
    have h1 : ∀ x ∈ (fwdStage roots q qinv flag d j a).map Prod.fst, x < b (d + 1) := by
      intro x hx
      rw [e, List.mem_map] at hx
      obtain ⟨p, hp, rfl⟩ := hx
      exact (hb p hp).1
    have h2 : ∀ x ∈ (fwdStage roots q qinv flag d j a).map Prod.snd, x < b (d + 1) := by
      intro x hx
      rw [e, List.mem_map] at hx
      obtain ⟨p, hp, rfl⟩ := hx
      exact (hb p hp).2
    obtain ⟨c1, r1⟩ := fwdRec_castA roots qinv flag b K h8 hm hr hB k (d + 1) (2 * j) _ (by omega) h1
    obtain ⟨c2, r2⟩ := fwdRec_castA roots qinv flag b K h8 hm hr hB k (d + 1) (2 * j + 1) _ (by omega) h2
    constructor
    · rw [fwdRec_succ, List.map_append, c1, c2, e]
      unfold fwdStageN
      simp only [fwdZ, List.map_map, List.length_map, ← List.map_take, ← List.map_drop]
      congr 2
      · exact map_zipWith_mem _ _ _ (fun u v => u + rho q roots j * v) _ _
          (fun u hu v hv => (key u hu v hv).1)
      · exact map_zipWith_mem _ _ _ (fun u v => u - rho q roots j * v) _ _
          (fun u hu v hv => (key u hu v hv).2)
    · intro y hy
      rw [fwdRec_succ, List.mem_append] at hy
      have e' : d + (k + 1) = d + 1 + k := by omega
      rw [e']
      rcases hy with hy | hy
      · exact r1 y hy
      · exact r2 y hy

end

/-! ### the unrolled schedule (`N ≥ 16`) on inputs `< M` -/

/-- absolute bound on the values ENTERING depth `d` of the standard forward transform of degree
`2^K ≥ 16` for inputs `< M`: `M, M+2q, M+4q`, then `m+2q` (odd depth, and after the last stage) /
`m+4q` (even depth), `m = max M 4q`. -/
def bBig (M q K d : Nat) : Nat :=
  if d = 0 then M else if d = 1 then M + 2 * q else if d = 2 then M + 4 * q
  else if d = K then max M (4 * q) + 2 * q
  else if d % 2 = 1 then max M (4 * q) + 2 * q else max M (4 * q) + 4 * q

theorem flagStd_true_iff (K d : Nat) (hK : 4 ≤ K) :
    flagStd (2 ^ K) d = true ↔ d ≠ 0 ∧ (d + 1 = K ∨ d % 2 = 0) := by
  have h16 : ¬ 2 ^ K < 16 := fun h => by have := (two_pow_lt_16 K).1 h; omega
  unfold flagStd
  rw [unrollMin_eq]
  simp only [h16, if_false, two_pow_eq_iff]
  by_cases h0 : d = 0
  · simp [h0]
  · by_cases h1 : d + 1 = K
    · simp [h0, h1]
    · simp only [h0, h1, if_false, decide_eq_true_eq]
      constructor
      · intro h; exact ⟨h0, Or.inr (by omega)⟩
      · rintro ⟨_, h | h⟩
        · exact absurd h (by simp)
        · omega

theorem bBig_zero (M q K : Nat) : bBig M q K 0 = M := by simp [bBig]
theorem bBig_one (M q K : Nat) : bBig M q K 1 = M + 2 * q := by simp [bBig]
theorem bBig_two (M q K : Nat) : bBig M q K 2 = M + 4 * q := by simp [bBig]
theorem bBig_ge3 (M q K d : Nat) (hd : 3 ≤ d) :
    bBig M q K d = if d = K then max M (4 * q) + 2 * q
      else if d % 2 = 1 then max M (4 * q) + 2 * q else max M (4 * q) + 4 * q := by
  unfold bBig
  rw [if_neg (by omega), if_neg (by omega), if_neg (by omega)]

theorem bBig_ok (M q K : Nat) (hK : 4 ≤ K) (h8 : 8 * q ≤ W) (hM : M + 4 * q ≤ W) :
    BoundOKA (flagStd (2 ^ K)) (bBig M q K) q K := by
  intro d hd
  obtain ⟨m, hm⟩ : ∃ m, m = max M (4 * q) := ⟨_, rfl⟩
  have hm1 : M ≤ m := by rw [hm]; exact Nat.le_max_left _ _
  have hm2 : 4 * q ≤ m := by rw [hm]; exact Nat.le_max_right _ _
  have hm3 : m + 4 * q ≤ W := by
    rw [hm, Nat.max_def]; split <;> omega
  constructor
  · intro hf
    obtain ⟨h0, h1⟩ := (flagStd_true_iff K d hK).1 hf
    have hd2 : 2 ≤ d := by omega
    have hy : bBig M q K (d + 1) = m + 2 * q := by
      rw [bBig_ge3 M q K (d + 1) (by omega), ← hm]
      split_ifs <;> omega
    have hx : bBig M q K d ≤ m + 4 * q := by
      rcases Nat.eq_or_lt_of_le hd2 with h2 | h3
      · rw [← h2, bBig_two]; omega
      · rw [bBig_ge3 M q K d (by omega), ← hm]
        split_ifs <;> omega
    rw [hy]
    generalize bBig M q K d = x at hx
    simp only [Nat.max_def, Nat.min_def]
    constructor
    · omega
    · (repeat' split) <;> omega
  · intro hf
    have hn : ¬ (d ≠ 0 ∧ (d + 1 = K ∨ d % 2 = 0)) := by
      intro h; rw [(flagStd_true_iff K d hK).2 h] at hf; exact absurd hf (by simp)
    have h' : d = 0 ∨ (d + 1 ≠ K ∧ d % 2 = 1) := by omega
    rcases Nat.eq_zero_or_pos d with h0 | h0
    · subst h0
      rw [bBig_zero, Nat.zero_add, bBig_one]; omega
    · rcases Nat.eq_or_lt_of_le h0 with h1 | h2
      · rw [← h1, bBig_one, bBig_two]; omega
      · have hx : bBig M q K d = m + 2 * q := by
          rw [bBig_ge3 M q K d (by omega), ← hm]
          split_ifs <;> omega
        have hy : bBig M q K (d + 1) = m + 4 * q := by
          rw [bBig_ge3 M q K (d + 1) (by omega), ← hm]
          split_ifs <;> omega
        rw [hx, hy]; omega

theorem bBig_last (M q K : Nat) (hK : 4 ≤ K) : bBig M q K K = max M (4 * q) + 2 * q := by
  unfold bBig
  have h0 : ¬ K = 0 := by omega
  have h1 : ¬ K = 1 := by omega
  have h2 : ¬ K = 2 := by omega
  simp only [h0, h1, h2, if_false, if_true]

section
variable {T : Tables} {K : ℕ}

/-- **`nttCoreLazy` (= `NTTLazy`) on large inputs**, degree `N = 2^K ≥ 16`: for inputs `< M` with
`M + 4q ≤ 2^64` (no relation between `M` and `q` otherwise) there is no uint64 wrap-around: read in `Z_q`
the output is the exact network applied to the inputs read in `Z_q`, and every output is
`< max M 4q + 2q`. -/
theorem nttCoreLazy_big (hT : Valid T K) [Fact T.q.Prime] (hK : 4 ≤ K) (M : ℕ)
    (hM : M + 4 * T.q ≤ W) (a : List ℕ) (ha : ∀ x ∈ a, x < M) :
    (nttCoreLazy T a).map (Nat.cast : ℕ → ZMod T.q)
      = fwdZ (rho T.q T.rootsF) K 1 (a.map (Nat.cast : ℕ → ZMod T.q))
    ∧ ∀ y ∈ nttCoreLazy T a, y < max M (4 * T.q) + 2 * T.q := by
  have e : nttCoreLazy T a = fwdRec T.rootsF T.q T.qinv (flagStd (2 ^ K)) K 0 1 a := by
    unfold nttCoreLazy; rw [hT.n_eq, log2n_two_pow]
  have hB := bBig_ok M T.q K hK hT.h8 hM
  obtain ⟨c, r⟩ := fwdRec_castA T.rootsF T.qinv (flagStd (2 ^ K)) (bBig M T.q K) K hT.h8 hT.mont
    hT.rootsF_lt hB K 0 1 a (by omega) (by rw [bBig_zero]; exact ha)
  rw [e]
  refine ⟨c, ?_⟩
  intro y hy
  have := r y hy
  rwa [Nat.zero_add, bBig_last M T.q K hK] at this

end

/-! ### linearity of the exact network -/
section
variable {F : Type} [CommRing F]

theorem zipWith_interchange {α : Type} (f g : α → α → α)
    (h : ∀ a b c d, g (f a b) (f c d) = f (g a c) (g b d)) :
    ∀ (A B C D : List α),
      List.zipWith g (List.zipWith f A B) (List.zipWith f C D)
        = List.zipWith f (List.zipWith g A C) (List.zipWith g B D)
  | [], _, _, _ => by simp
  | _ :: _, [], _, _ => by simp
  | _ :: _, _ :: _, [], _ => by simp
  | _ :: _, _ :: _, _ :: _, [] => by simp
  | a :: A, b :: B, c :: C, d :: D => by
    simp only [List.zipWith_cons_cons, h, zipWith_interchange f g h A B C D]

/-- **The exact network is linear**: `fwdZ ((A − B)·c) = (fwdZ A − fwdZ B)·c` entry-wise. -/
theorem fwdZ_zipWith_lin (ρ : ℕ → F) (c : F) : ∀ (k j : ℕ) (A B : List F),
    A.length = 2 ^ k → B.length = 2 ^ k →
    fwdZ ρ k j (List.zipWith (fun a b => (a - b) * c) A B)
      = List.zipWith (fun a b => (a - b) * c) (fwdZ ρ k j A) (fwdZ ρ k j B)
  | 0, _, _, _, _, _ => rfl
  | k + 1, j, A, B, hA, hB => by
    have hA2 : A.length / 2 = 2 ^ k := by rw [hA, Nat.pow_succ]; omega
    have hB2 : B.length / 2 = 2 ^ k := by rw [hB, Nat.pow_succ]; omega
    have hAl : (A.take (2 ^ k)).length = 2 ^ k := by
      rw [List.length_take, hA, Nat.pow_succ]; omega
    have hAr : (A.drop (2 ^ k)).length = 2 ^ k := by
      rw [List.length_drop, hA, Nat.pow_succ]; omega
    have hBl : (B.take (2 ^ k)).length = 2 ^ k := by
      rw [List.length_take, hB, Nat.pow_succ]; omega
    have hBr : (B.drop (2 ^ k)).length = 2 ^ k := by
      rw [List.length_drop, hB, Nat.pow_succ]; omega
    have hL : (List.zipWith (fun a b => (a - b) * c) A B).length / 2 = 2 ^ k := by
      rw [List.length_zipWith, hA, hB, Nat.min_self, Nat.pow_succ]; omega
    have hz : ∀ (g : F → F → F) (U V : List F), U.length = 2 ^ k → V.length = 2 ^ k →
        (List.zipWith g U V).length = 2 ^ k := by
      intro g U V hU hV; rw [List.length_zipWith, hU, hV, Nat.min_self]
    simp only [fwdZ]
    rw [hL, hA2, hB2, List.take_zipWith, List.drop_zipWith]
    rw [zipWith_interchange (fun a b => (a - b) * c) (fun u v => u + ρ j * v)
        (by intro a b c' d; ring),
      zipWith_interchange (fun a b => (a - b) * c) (fun u v => u - ρ j * v)
        (by intro a b c' d; ring)]
    rw [fwdZ_zipWith_lin ρ c k (2 * j) _ _ (hz _ _ _ hAl hAr) (hz _ _ _ hBl hBr),
      fwdZ_zipWith_lin ρ c k (2 * j + 1) _ _ (hz _ _ _ hAl hAr) (hz _ _ _ hBl hBr)]
    rw [List.zipWith_append]
    rw [fwdZ_length ρ k _ _ (hz _ _ _ hAl hAr), fwdZ_length ρ k _ _ (hz _ _ _ hBl hBr)]

end

#print axioms bfly_eq_bflyN_abs
#print axioms fwdRec_castA
#print axioms bBig_ok
#print axioms nttCoreLazy_big
#print axioms fwdZ_zipWith_lin

end Lattigo.NTT
