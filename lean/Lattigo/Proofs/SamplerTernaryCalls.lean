/-
  C17 — call-level statements for the ternary sampler (both variants), assembled from
  SamplerTernary.lean and SamplerSparse.lean.
-/
import Lattigo.Proofs.SamplerSparse
namespace Lattigo.Sampler
open Lattigo Lattigo.Gen

/-! ### generic: `ReadAndAdd` rows are `a + Read` rows -/

theorem zipWith_zipWith_left {α β γ δ : Type} (f : α → γ → δ) (g : α → β → γ) :
    ∀ (a : List α) (b : List β),
      List.zipWith f a (List.zipWith g a b) = List.zipWith (fun x y => f x (g x y)) a b := by
  intro a
  induction a with
  | nil => intro b; rfl
  | cons x a ih =>
    intro b
    cases b with
    | nil => rfl
    | cons y b => simp [ih]

theorem mapRowsLvl_add {N : Nat} (g g' : Nat → List Nat → List Nat)
    (hyp : ∀ q row, row.length = N →
      g' q row = List.zipWith (fun x w => CRed (u64add x w) q) row (g q row)) :
    ∀ (qs : List Nat) (pol r : Poly), (∀ row ∈ pol, row.length = N) →
      mapRowsLvl g qs pol = .ok r → mapRowsLvl g' qs pol = .ok (addPoly qs pol r) := by
  intro qs
  induction qs with
  | nil =>
    intro pol r _ h
    simp only [mapRowsLvl] at h ⊢
    injection h with h
    subst h
    cases pol <;> rfl
  | cons q qs ih =>
    intro pol r hrows h
    cases pol with
    | nil => simp [mapRowsLvl] at h
    | cons row rest =>
      simp only [mapRowsLvl] at h ⊢
      obtain ⟨t, h1, h⟩ := Res.bind_eq_ok h
      simp only [Res.pure_eq] at h
      injection h with h
      subst h
      rw [ih rest t (fun row' hr => hrows row' (List.mem_cons_of_mem _ hr)) h1]
      simp only [Res.bind_ok, Res.pure_eq]
      rw [hyp q row (hrows row List.mem_cons_self)]
      rfl

/-! ### density sampler -/

/-- rows of `Read`, plain output, written from an index vector: residues of `ternVal` -/
theorem ternApply_read_plain (qs : List Nat) (pol r : Poly) (idx : List Nat) (N : Nat)
    (hq : ∀ q ∈ qs, 2 ≤ q ∧ q < W) (hrows : ∀ row ∈ pol, row.length = N) (hlen : idx.length = N)
    (hidx : ∀ ix ∈ idx, ix ≤ 2) (h : ternApply .read false qs pol idx = .ok r) :
    ∀ i, i < qs.length → r[i]? = some ((idx.map ternVal).map (resOf (qs.getD i 0))) := by
  intro i hi
  unfold ternApply at h
  obtain ⟨_, hle, hlow, _⟩ := mapRowsLvl_ok _ qs pol r h
  rw [hlow i hi]
  have hip : i < pol.length := by omega
  rw [List.getElem?_eq_getElem hip]
  simp only [Option.map_some]
  congr 1
  have hrow : pol[i].length = N := hrows _ (List.getElem_mem hip)
  have hqi := hq (qs.getD i 0) (by rw [getD_of_lt _ _ hi]; exact List.getElem_mem hi)
  apply List.ext_getElem
  · simp [hrow, hlen]
  · intro p h1 h2
    simp only [List.getElem_zipWith, List.getElem_map, Mode.f]
    have hp : p < idx.length := by simp at h2; exact h2
    exact ternLut_plain _ hqi.1 hqi.2 _ (hidx _ (List.getElem_mem hp))

theorem ternVal_support (ix : Nat) : ternVal ix = -1 ∨ ternVal ix = 0 ∨ ternVal ix = 1 := by
  unfold ternVal
  split
  · simp
  · split <;> simp

/-- `ReadAndAdd = add ∘ Read` for the density sampler -/
theorem ternApply_add (mont : Bool) (qs : List Nat) (pol r : Poly) (idx : List Nat) (N : Nat)
    (hrows : ∀ row ∈ pol, row.length = N) (h : ternApply .read mont qs pol idx = .ok r) :
    ternApply .readAndAdd mont qs pol idx = .ok (addPoly qs pol r) := by
  unfold ternApply at h ⊢
  refine mapRowsLvl_add (N := N) _ _ ?_ qs pol r hrows h
  intro q row _
  rw [zipWith_zipWith_left]
  rfl

/-- Montgomery output = `MForm` of the plain output (any mode `Read`) -/
theorem ternApply_mont (qs : List Nat) (pol r : Poly) (idx : List Nat)
    (h : ternApply .read false qs pol idx = .ok r) :
    ∃ r', mformPoly qs r = .ok r' ∧ ternApply .read true qs pol idx = .ok r' := by
  unfold ternApply at h ⊢
  unfold mformPoly
  rw [mapRowsLvl_comp _ _ qs pol r h]
  have hg : (fun q row => List.map (fun a => MForm a q (brc q))
      (List.zipWith (fun a ix => Mode.read.f a ((ternLut false q).getD ix 0) q) row idx)) =
      (fun q row => List.zipWith (fun a ix => Mode.read.f a ((ternLut true q).getD ix 0) q) row idx) := by
    funext q row
    rw [List.map_zipWith]
    congr 1
    funext a ix
    simp only [Mode.f]
    exact (ternLut_mont q ix).symm
  rw [hg]
  -- the plain call succeeded, so the polynomial has enough rows: the Montgomery call succeeds too
  have hle := (mapRowsLvl_ok _ qs pol r h).2.1
  have : ∀ (g : Nat → List Nat → List Nat) (qs : List Nat) (pol : Poly), qs.length ≤ pol.length →
      ∃ r', mapRowsLvl g qs pol = .ok r' := by
    intro g qs
    induction qs with
    | nil => intro pol _; exact ⟨pol, rfl⟩
    | cons q qs ih =>
      intro pol hl
      cases pol with
      | nil => simp at hl
      | cons row rest =>
        obtain ⟨t, ht⟩ := ih rest (by simpa using hl)
        exact ⟨g q row :: t, by simp [mapRowsLvl, ht]⟩
  obtain ⟨r', hr'⟩ := this _ qs pol hle
  exact ⟨r', hr', hr'⟩

/-! ### fixed Hamming weight -/

/-- a successful `sampleSparse` call: the selection and what is written -/
theorem ternSparse_ok {fuel : Nat} {m : Mode} {mont : Bool} {hw N : Nat} {qs : List Nat} {pol r : Poly}
    {s s' : Bytes} (h : ternSparse fuel m mont hw N qs pol s = .ok (r, s')) :
    ∃ rbs s1 sel rest,
      prngRead s ((clipHW hw N + 7) / 8) = .ok (rbs, s1) ∧
      sparseLoop fuel N (clipHW hw N) 0 (List.range N) rbs s1 = .ok (sel, rest, s') ∧
      sel.length = clipHW hw N ∧ (sel.map Prod.fst ++ rest).Perm (List.range N) ∧
      (∀ pc ∈ sel, pc.2 ≤ 1) ∧
      mapRowsLvl (fun q row => sparseRow m (ternLut mont q) q sel rest row) qs pol = .ok r := by
  unfold ternSparse at h
  obtain ⟨⟨rbs, s1⟩, h1, h⟩ := Res.bind_eq_ok h
  dsimp only at h
  by_cases hl : pol.length < qs.length
  · rw [if_pos hl] at h
    obtain ⟨_, _, h⟩ := Res.bind_eq_ok h
    cases h
  · rw [if_neg hl] at h
    obtain ⟨⟨sel, rest, s2⟩, h2, h⟩ := Res.bind_eq_ok h
    dsimp only at h
    obtain ⟨r1, h3, h⟩ := Res.bind_eq_ok h
    injection h with h
    injection h with h4 h5
    subst h4; subst h5
    obtain ⟨hlen, hperm, hbits⟩ :=
      sparseLoop_inv fuel N (clipHW hw N) 0 (List.range N) rbs s1 sel rest s2 (by simp) h2
    exact ⟨rbs, s1, sel, rest, h1, h2, hlen, hperm, hbits, h3⟩

theorem ternSparse_of {fuel : Nat} {m : Mode} {mont : Bool} {hw N : Nat} {qs : List Nat} {pol r : Poly}
    {s s1 s' rbs : Bytes} {sel : List (Nat × Nat)} {rest : List Nat}
    (h1 : prngRead s ((clipHW hw N + 7) / 8) = .ok (rbs, s1))
    (h2 : sparseLoop fuel N (clipHW hw N) 0 (List.range N) rbs s1 = .ok (sel, rest, s'))
    (h3 : mapRowsLvl (fun q row => sparseRow m (ternLut mont q) q sel rest row) qs pol = .ok r) :
    ternSparse fuel m mont hw N qs pol s = .ok (r, s') := by
  have hlen : ¬ pol.length < qs.length := by
    have := (mapRowsLvl_ok _ qs pol r h3).2.1
    omega
  unfold ternSparse
  rw [h1]
  simp only [Res.bind_ok]
  rw [if_neg hlen, h2]
  simp only [Res.bind_ok]
  rw [h3]
  rfl

/-! ### Montgomery output of the fixed-weight sampler -/

theorem mapRowsLvl_congr_rows (g g' : Nat → List Nat → List Nat) :
    ∀ (qs : List Nat) (pol : Poly), (∀ q row, row ∈ pol → g q row = g' q row) →
      mapRowsLvl g qs pol = mapRowsLvl g' qs pol := by
  intro qs
  induction qs with
  | nil => intro pol _; rfl
  | cons q qs ih =>
    intro pol h
    cases pol with
    | nil => rfl
    | cons row rest =>
      simp only [mapRowsLvl]
      rw [ih rest (fun q' row' hr => h q' row' (List.mem_cons_of_mem _ hr)), h q row List.mem_cons_self]

theorem mapRowsLvl_total (g : Nat → List Nat → List Nat) :
    ∀ (qs : List Nat) (pol : Poly), qs.length ≤ pol.length → ∃ r', mapRowsLvl g qs pol = .ok r' := by
  intro qs
  induction qs with
  | nil => intro pol _; exact ⟨pol, rfl⟩
  | cons q qs ih =>
    intro pol hl
    cases pol with
    | nil => simp at hl
    | cons row rest =>
      obtain ⟨t, ht⟩ := ih rest (by simpa using hl)
      exact ⟨g q row :: t, by simp [mapRowsLvl, ht]⟩

theorem sparseRow_mont {N : Nat} {sel : List (Nat × Nat)} {rest : List Nat} (q : Nat) (row : List Nat)
    (hperm : (sel.map Prod.fst ++ rest).Perm (List.range N)) (hrow : row.length = N) :
    sparseRow .read (ternLut true q) q sel rest row =
      (sparseRow .read (ternLut false q) q sel rest row).map (fun a => MForm a q (brc q)) := by
  apply List.ext_getElem
  · simp [sparseRow_length]
  · intro p h1 h2
    have hp : p < N := by rw [sparseRow_length, hrow] at h1; exact h1
    obtain ⟨o, _, _, hfind, hval⟩ := sparseRow_getD .read (ternLut true q) q row hperm hrow p hp
    obtain ⟨o', _, _, hfind', hval'⟩ := sparseRow_getD .read (ternLut false q) q row hperm hrow p hp
    have hoo : o = o' := by rw [hfind] at hfind'; exact Option.some.inj hfind'
    subst hoo
    have hpr' : p < (sparseRow .read (ternLut false q) q sel rest row).length := by
      rw [sparseRow_length, hrow]; exact hp
    rw [List.getElem_map, ← getD_of_lt _ _ h1, hval, ← getD_of_lt _ _ hpr', hval']
    cases o.2 with
    | some c => exact ternLut_mont q (c + 1)
    | none => exact (MForm_zero q (brc q)).symm

/-- Montgomery output = `MForm` of the plain output, same bytes consumed (fixed weight) -/
theorem ternSparse_mont {fuel hw N : Nat} {qs : List Nat} {pol r : Poly} {s s' : Bytes}
    (hrows : ∀ row ∈ pol, row.length = N)
    (h : ternSparse fuel .read false hw N qs pol s = .ok (r, s')) :
    ∃ r', mformPoly qs r = .ok r' ∧ ternSparse fuel .read true hw N qs pol s = .ok (r', s') := by
  obtain ⟨rbs, s1, sel, rest, h1, h2, _, hperm, _, hm⟩ := ternSparse_ok h
  have hle := (mapRowsLvl_ok _ qs pol r hm).2.1
  obtain ⟨r', hr'⟩ := mapRowsLvl_total
    (fun q row => sparseRow .read (ternLut true q) q sel rest row) qs pol hle
  refine ⟨r', ?_, ternSparse_of h1 h2 hr'⟩
  unfold mformPoly
  rw [mapRowsLvl_comp _ _ qs pol r hm, ← hr']
  apply mapRowsLvl_congr_rows
  intro q row hrow
  exact (sparseRow_mont q row hperm (hrows row hrow)).symm

end Lattigo.Sampler
