/-
  `rlwe.Evaluator.DecomposeNTT` (core/rlwe/evaluator_gadget_product.go), twin `Decomp.decomposeNTT`:
  the digits of `DecomposeAndSplit` moved to the NTT domain.

  * `nttStd_unreduced`: for every degree `N = 2^K` the reduced forward NTT of an UNREDUCED row (entries `< M`, `M + 4q ≤ 2^64`) is the
    NTT of the row reduced modulo `q` — the rows `DecomposeAndSplit` writes are not reduced (`< 3q`, resp. `≤ q`);
  * `decomposeNTT_rows`: every digit of `decomposeNTT` is, row by row, the NTT of the residues of the limbs of
    `decomposeAndSplit` (rows inside the digit's own moduli: copied from the NTT-domain input), so
    `decompose_single_limbs` / `decompose_multi_limbs` describe `INTT` of every row.
-/
import Lattigo.Proofs.DecompLimb
import Lattigo.Proofs.ScalingNTT

set_option linter.unusedVariables false

namespace Lattigo.Decomp
open Lattigo Lattigo.Gen Lattigo.Scaling Lattigo.BasisExt Lattigo.NTT

/-- **NTT of an unreduced row** (every `N = 2^K`): `nttStd T a = nttStd T (a mod q)` for entries `< M`,
`M + 4q ≤ 2^64`. -/
theorem nttStd_unreduced {T : Tables} {K : ℕ} (hT : Valid T K) (M : ℕ) (hM : M + 4 * T.q ≤ W)
    (a : List ℕ) (ha : ∀ x ∈ a, x < M) : nttStd T a = nttStd T (a.map (· % T.q)) := by
  have : Fact T.q.Prime := ⟨hT.prime⟩
  have hq0 := hT.q_pos
  obtain ⟨hc, hr⟩ := nttCoreLazy_big_all hT M hM a ha
  obtain ⟨hrc, hrlt⟩ := nttStd_cast hT (a.map (· % T.q)) (by
    intro x hx; rw [List.mem_map] at hx; obtain ⟨y, _, rfl⟩ := hx; exact Nat.mod_lt _ hq0)
  have hW : ∀ y ∈ nttCoreLazy T a, y < W := by
    intro y hy
    have h1 := hr y hy
    have h8 := hT.h8
    have : max M (4 * T.q) ≤ M + 4 * T.q := Nat.max_le.2 ⟨Nat.le_add_right _ _, Nat.le_add_left _ _⟩
    by_cases h : M ≤ 4 * T.q
    · rw [Nat.max_eq_right h] at h1; omega
    · rw [Nat.max_eq_left (by omega)] at h1; omega
  have hred : ∀ y ∈ nttCoreLazy T a, BRedAdd y T.q T.bred = y % T.q := by
    intro y hy
    rw [hT.bred]; exact BRedAdd_spec y T.q hT.prime.one_lt (hW y hy)
  apply map_cast_inj (q := T.q) _ _ _ hrlt
  · rw [hrc]
    unfold nttStd
    rw [List.map_map]
    have : ((nttCoreLazy T a).map ((Nat.cast : ℕ → ZMod T.q) ∘ fun x => BRedAdd x T.q T.bred))
        = (nttCoreLazy T a).map (Nat.cast : ℕ → ZMod T.q) := by
      apply List.map_congr_left
      intro y hy
      simp only [Function.comp, hred y hy]
      exact ZMod.natCast_mod y T.q
    rw [this, hc]
    congr 1
    rw [List.map_map]
    apply List.map_congr_left
    intro x _
    simp only [Function.comp]
    exact (ZMod.natCast_mod x T.q).symm
  · intro y hy
    unfold nttStd at hy
    rw [List.mem_map] at hy
    obtain ⟨x, hx, rfl⟩ := hy
    rw [hred x hx]; exact Nat.mod_lt _ hq0

/-- `mapM` in `Option` of a function that succeeds everywhere -/
theorem mapM_some {α β : Type} (f : α → Option β) (g : α → β) :
    ∀ (l : List α), (∀ x ∈ l, f x = some (g x)) → l.mapM f = some (l.map g)
  | [], _ => rfl
  | x :: l, h => by
    rw [List.mapM_cons, h x (List.mem_cons_self ..), mapM_some f g l (fun y hy => h y (List.mem_cons_of_mem _ hy))]
    rfl

/-- the coefficient-domain input of `decomposeNTT` -/
def dnInv (TQ : Tabs) (levelQ : ℕ) (isNTT : Bool) (c2 : Rows) : Rows :=
  if isNTT then inttRows TQ levelQ c2 else c2
/-- the NTT-domain input of `decomposeNTT` -/
def dnNtt (TQ : Tabs) (levelQ : ℕ) (isNTT : Bool) (c2 : Rows) : Rows :=
  if isNTT then c2 else nttRows TQ levelQ c2

/-- one digit of `decomposeNTT`, given the output `(a, b)` of `decomposeAndSplit` -/
def dnOut (TQ TP : Tabs) (levelQ levelP nbPi d : ℕ) (ntt a b : Rows) : Rows × Rows :=
  ((List.range (levelQ + 1)).map fun x =>
      if d * nbPi ≤ x ∧ x < d * nbPi + nbPi then row ntt x else nttStd (tab TQ x) (row a x),
   (List.range (levelP + 1)).map fun j => nttStd (tab TP j) (row b j))

theorem decomposeNTT_eq (TQ TP : Tabs) (Q P : List ℕ) (levelQ levelP nbPi size : ℕ) (isNTT : Bool) (c2 : Rows) :
    decomposeNTT TQ TP Q P levelQ levelP nbPi size isNTT c2 =
      (List.range size).mapM fun d =>
        match decomposeAndSplit Q P true levelQ levelP nbPi d (dnInv TQ levelQ isNTT c2)
            ((List.range (levelQ + 1)).map fun _ => []) with
        | none => none
        | some (a, b) => some (dnOut TQ TP levelQ levelP nbPi d (dnNtt TQ levelQ isNTT c2) a b) := rfl

/-- **`DecomposeNTT`**: if `DecomposeAndSplit` succeeds for every digit `d < size` (it does under the hypotheses of
`decompose_single_limbs` / `decompose_multi_limbs`) the function succeeds and digit `d` is `dnOut` of that output:
rows inside the digit's own moduli are the NTT-domain input rows, every other Q-row and every P-row is the forward
NTT of the row `DecomposeAndSplit` wrote. -/
theorem decomposeNTT_some (TQ TP : Tabs) (Q P : List ℕ) (levelQ levelP nbPi size : ℕ) (isNTT : Bool) (c2 : Rows)
    (A B : ℕ → Rows)
    (h : ∀ d, d < size → decomposeAndSplit Q P true levelQ levelP nbPi d (dnInv TQ levelQ isNTT c2)
        ((List.range (levelQ + 1)).map fun _ => []) = some (A d, B d)) :
    decomposeNTT TQ TP Q P levelQ levelP nbPi size isNTT c2
      = some ((List.range size).map fun d =>
          dnOut TQ TP levelQ levelP nbPi d (dnNtt TQ levelQ isNTT c2) (A d) (B d)) := by
  rw [decomposeNTT_eq]
  apply mapM_some
  intro d hd
  rw [h d (List.mem_range.mp hd)]

/-- the rows of a digit of `DecomposeNTT`, semantically (every `N = 2^K`): outside the digit's own moduli the row is
the (reduced) forward NTT of the residues `limb mod q_x` of the limbs `DecomposeAndSplit` wrote (`< M`, unreduced),
so `INTT` of it is exactly those residues — the residues of the digit value by `decompose_*_limbs`. -/
theorem dnOut_rows (TQ TP : Tabs) (Q P : List ℕ) (levelQ levelP nbPi d K : ℕ) (ntt a b : Rows)
    (hTQ : ∀ i, i ≤ levelQ → Valid (tab TQ i) K ∧ (tab TQ i).q = Q.getD i 0)
    (hTP : ∀ j, j ≤ levelP → Valid (tab TP j) K ∧ (tab TP j).q = P.getD j 0)
    (M : ℕ → ℕ)
    (ha : ∀ x, x ≤ levelQ → ¬ (d * nbPi ≤ x ∧ x < d * nbPi + nbPi) →
      M (Q.getD x 0) + 4 * Q.getD x 0 ≤ W ∧ ∀ y ∈ row a x, y < M (Q.getD x 0))
    (hb : ∀ j, j ≤ levelP → M (P.getD j 0) + 4 * P.getD j 0 ≤ W ∧ ∀ y ∈ row b j, y < M (P.getD j 0)) :
    (∀ x, x ≤ levelQ → row (dnOut TQ TP levelQ levelP nbPi d ntt a b).1 x =
        if d * nbPi ≤ x ∧ x < d * nbPi + nbPi then row ntt x
        else nttStd (tab TQ x) ((row a x).map (· % Q.getD x 0)))
    ∧ (∀ j, j ≤ levelP → row (dnOut TQ TP levelQ levelP nbPi d ntt a b).2 j =
        nttStd (tab TP j) ((row b j).map (· % P.getD j 0))) := by
  unfold dnOut
  constructor
  · intro x hx
    rw [row_map_range _ _ x (by omega)]
    by_cases hin : d * nbPi ≤ x ∧ x < d * nbPi + nbPi
    · rw [if_pos hin, if_pos hin]
    · rw [if_neg hin, if_neg hin]
      obtain ⟨hv, hq⟩ := hTQ x hx
      obtain ⟨h1, h2⟩ := ha x hx hin
      rw [nttStd_unreduced hv (M (Q.getD x 0)) (by rw [hq]; exact h1) _ h2, hq]
  · intro j hj
    rw [row_map_range _ _ j (by omega)]
    obtain ⟨hv, hq⟩ := hTP j hj
    obtain ⟨h1, h2⟩ := hb j hj
    rw [nttStd_unreduced hv (M (P.getD j 0)) (by rw [hq]; exact h1) _ h2, hq]

end Lattigo.Decomp

#print axioms Lattigo.Decomp.nttStd_unreduced
#print axioms Lattigo.Decomp.decomposeNTT_some
#print axioms Lattigo.Decomp.dnOut_rows
