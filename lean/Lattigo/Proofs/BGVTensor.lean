/-
  Scale-invariant (BFV-style) tensoring, `tensorScaleInvariant` of schemes/bgv/evaluator.go: `round(t/Q · ct0 ⊗ ct1)`.

  * `kSI_spec`: the factor the model (and `MulScaleInvariant`, evaluator.go:1045) puts on the scale,
    `k = (t − Q_ℓ mod t)⁻¹ mod t`, satisfies `t ∣ 1 + k·Q_ℓ`; hence `T⁻¹ mod Q_ℓ = (1 + k·Q_ℓ)/t` as an integer.
  * `phase_mul_si`: over ANY commutative ring (in particular `Z[X]/(X^N+1)`), with `T·T⁻¹ = 1 + k·Q`,
      `T·(T⁻¹x₀ + e₀)(T⁻¹x₁ + e₁) = Q·(T⁻¹·(k·x₀x₁) + k·(x₀e₁ + x₁e₀)) + (T⁻¹x₀x₁ + x₀e₁ + x₁e₀ + T·e₀e₁)`:
    the quotient by `Q` is a `T⁻¹`-encoding of `k·x₀x₁` — the factor `k` the model multiplies slots and scale by —
    with noise `k(x₀e₁ + x₁e₀)`, and the remainder is what rounding turns into at most `‖rem‖/Q + 1/2` per coefficient
    (`round_div_error`, `floor_div_error`).
-/
import Lattigo.Proofs.BGVStep
import Mathlib.Tactic.Ring
import Mathlib.Tactic.LinearCombination
import Mathlib.Tactic.Linarith

namespace Lattigo.BGV

theorem foldl_qmod_cast (t : Nat) : ∀ (l : List Nat) (acc : Nat),
    ((l.foldl (fun acc q => acc * (q % t) % t) acc : Nat) : ZMod t) = (acc : ZMod t) * ((l.prod : Nat) : ZMod t)
  | [], acc => by simp
  | q :: l, acc => by
    simp only [List.foldl_cons, List.prod_cons]
    rw [foldl_qmod_cast t l, mulmod_cast, ZMod.natCast_mod]
    push_cast
    ring

/-- `Q_ℓ mod t`, as the model computes it, is the residue of the product of the first `ℓ+1` moduli -/
theorem qModT_cast (c : Cfg) (l : Nat) :
    ((qModT c l : Nat) : ZMod c.t) = (((c.qs.take (l + 1)).prod : Nat) : ZMod c.t) := by
  unfold qModT
  rw [foldl_qmod_cast, ZMod.natCast_mod]
  simp

/-- **kSI_spec.**  `k = inv t (t − Q_ℓ mod t)` — the factor of `tensorSI` / `MulScaleInvariant` — is `(−Q_ℓ)⁻¹ mod t`:
    `t ∣ 1 + k·Q_ℓ`. -/
theorem kSI_spec (c : Cfg) [Fact c.t.Prime] (ht : c.t < 2 ^ 64) (hQ : ∀ q ∈ c.qs, (q : ZMod c.t) ≠ 0) (l : Nat) :
    c.t ∣ 1 + inv c.t (c.t - qModT c l) * (c.qs.take (l + 1)).prod := by
  obtain ⟨hlt, hne⟩ := qModT_spec c hQ l
  have hcast := tq_ne c hQ l
  have hk := inv_cast ht _ hcast
  rw [← ZMod.natCast_eq_zero_iff, Nat.cast_add, Nat.cast_one, Nat.cast_mul, hk, ← qModT_cast,
    Nat.cast_sub (le_of_lt hlt)]
  have hne' : ((c.t : ZMod c.t) - (qModT c l : ZMod c.t)) ≠ 0 := by
    rw [← Nat.cast_sub (le_of_lt hlt)]; exact hcast
  simp only [ZMod.natCast_self, zero_sub] at hne' ⊢
  field_simp
  ring

/-- **phase_mul_si.**  Scale-invariant tensoring before the division by `Q`, over any commutative ring. -/
theorem phase_mul_si {α : Type} [CommRing α] (T Tinv k Q x0 x1 e0 e1 : α) (h : T * Tinv = 1 + k * Q) :
    T * (Tinv * x0 + e0) * (Tinv * x1 + e1)
      = Q * (Tinv * (k * (x0 * x1)) + k * (x0 * e1 + x1 * e0))
        + (Tinv * (x0 * x1) + (x0 * e1 + x1 * e0) + T * e0 * e1) := by
  linear_combination (Tinv * x0 * x1 + x0 * e1 + x1 * e0) * h

/-- flooring division of `Q·B + R` by `Q` (one coefficient): exactly `B + ⌊R/Q⌋` -/
theorem floor_div_error (A B R Q : ℤ) (hQ : 0 < Q) (h : A = Q * B + R) : A / Q = B + R / Q := by
  rw [h, add_comm, Int.add_mul_ediv_left _ _ (ne_of_gt hQ), add_comm]

/-- rounding division `⌊(2A + Q)/(2Q)⌋` of `A = Q·B + R`, `|R| ≤ M`: the result differs from `B` by at most
    `M/Q + 1/2`, i.e. `2Q·|round(A/Q) − B| ≤ 2M + Q`. -/
theorem round_div_error (A B R Q M : ℤ) (hQ : 0 < Q) (h : A = Q * B + R) (hlo : -M ≤ R) (hhi : R ≤ M) :
    -(2 * M + Q) ≤ 2 * Q * ((2 * A + Q) / (2 * Q) - B) ∧ 2 * Q * ((2 * A + Q) / (2 * Q) - B) ≤ 2 * M + Q := by
  have h2Q : 0 < 2 * Q := by linarith
  have hdm := Int.mul_ediv_add_emod (2 * A + Q) (2 * Q)
  have hnn := Int.emod_nonneg (2 * A + Q) (ne_of_gt h2Q)
  have hlt := Int.emod_lt_of_pos (2 * A + Q) h2Q
  have key : 2 * Q * ((2 * A + Q) / (2 * Q) - B) = 2 * R + Q - (2 * A + Q) % (2 * Q) := by
    rw [h] at hdm ⊢
    linarith
  rw [key]
  constructor <;> linarith

end Lattigo.BGV
