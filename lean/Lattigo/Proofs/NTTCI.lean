import Lattigo.Proofs.NTTTables
import Mathlib.Algebra.BigOperators.Intervals

/-!
  # The conjugate-invariant transforms: semantics and `INTT_ci (NTT_ci a) = a` (property C01, WP-N)

  `nttCI` = twist by `ρ_1` (`a'_0 = a_0`, `a'_j = a_j − ρ_1 a_{N−j}`), then the exact network from node
  `2` of a table of `2N` entries; `inttCI` = inverse network from node `2`, twist by `ρ_1⁻¹`,
  `p[0] ← 2p[0]`, multiplication by `(2N)⁻¹`.  With `ρ_1² = −1` the two twists compose to `2·id`
  (`twist_inv_twist`), whence `inttCI_nttCI`.
-/
namespace Lattigo.NTT
open Lattigo Lattigo.Gen

section
variable {F : Type} [CommRing F]

/-- exact twist: `a'_0 = a_0`, `a'_j = a_j − i·a_{n−j}` -/
def twistZ (i : F) (a : List F) : List F :=
  (List.range a.length).map fun j =>
    if j = 0 then a.getD 0 0 else a.getD j 0 - i * a.getD (a.length - j) 0

theorem twistZ_length (i : F) (a : List F) : (twistZ i a).length = a.length := by
  simp [twistZ]

theorem twistZ_getD (i : F) (a : List F) (j : ℕ) (hj : j < a.length) :
    (twistZ i a).getD j 0 = if j = 0 then a.getD 0 0 else a.getD j 0 - i * a.getD (a.length - j) 0 := by
  simp [twistZ, List.getD, hj]

theorem ext_getD (l1 l2 : List F) (hl : l1.length = l2.length)
    (h : ∀ j, j < l1.length → l1.getD j 0 = l2.getD j 0) : l1 = l2 := by
  apply List.ext_getElem hl
  intro j h1 h2
  have := h j h1
  simpa [List.getD, h1, h2] using this

theorem getD_map_mul (c : F) (l : List F) (j : ℕ) : (l.map (c * ·)).getD j 0 = c * l.getD j 0 := by
  by_cases h : j < l.length
  · simp [List.getD, h]
  · simp [List.getD, h]

/-- **twisting back**: with `i·i' = 1` and `i + i' = 0` (i.e. `i² = −1`, `i' = i⁻¹`), scaling by `c`
in between, the second twist — with its head replaced by twice the head of its input, as
`inttCoreConjugateInvariantLazy` does — returns `2c·a`. -/
theorem twist_inv_twist (i i' c : F) (hii : i * i' = 1) (hs : i + i' = 0) (a : List F) :
    (2 * ((twistZ i a).map (c * ·)).getD 0 0) :: (twistZ i' ((twistZ i a).map (c * ·))).tail
      = a.map (2 * c * ·) ∨ a = [] := by
  rcases Nat.eq_zero_or_pos a.length with h0 | hn
  · right; exact List.length_eq_zero_iff.1 h0
  left
  have hlen1 : (twistZ i a).length = a.length := twistZ_length i a
  have hlenb : ((twistZ i a).map (c * ·)).length = a.length := by rw [List.length_map, hlen1]
  have hlen2 : (twistZ i' ((twistZ i a).map (c * ·))).length = a.length := by
    rw [twistZ_length, hlenb]
  apply ext_getD
  · rw [List.length_cons, List.length_tail, hlen2, List.length_map]; omega
  intro j hj
  rw [List.length_cons, List.length_tail, hlen2] at hj
  have hj' : j < a.length := by omega
  rw [getD_map_mul (2 * c) a j]
  rcases j with _ | j
  · simp only [List.getD_cons_zero]
    rw [getD_map_mul, twistZ_getD i a 0 hn, if_pos rfl]; ring
  · simp only [List.getD_cons_succ]
    have htail : (twistZ i' ((twistZ i a).map (c * ·))).tail.getD j 0
        = (twistZ i' ((twistZ i a).map (c * ·))).getD (j + 1) 0 := by
      cases h : twistZ i' ((twistZ i a).map (c * ·)) with
      | nil => rw [h] at hlen2; simp at hlen2; omega
      | cons x l => simp
    rw [htail, twistZ_getD i' _ (j + 1) (by rw [hlenb]; exact hj'), if_neg (by omega), hlenb,
      getD_map_mul, getD_map_mul,
      twistZ_getD i a (j + 1) hj', if_neg (by omega),
      twistZ_getD i a (a.length - (j + 1)) (by omega), if_neg (by omega)]
    have e : a.length - (a.length - (j + 1)) = j + 1 := by omega
    rw [e]
    have h1 : i' * i = 1 := by rw [mul_comm]; exact hii
    calc c * (a.getD (j + 1) 0 - i * a.getD (a.length - (j + 1)) 0)
          - i' * (c * (a.getD (a.length - (j + 1)) 0 - i * a.getD (j + 1) 0))
        = c * ((1 + i' * i) * a.getD (j + 1) 0 - (i + i') * a.getD (a.length - (j + 1)) 0) := by ring
      _ = 2 * c * a.getD (j + 1) 0 := by rw [h1, hs]; ring

end

section
variable {q : ℕ} [Fact q.Prime]

theorem toArray_get!_eq_getD (a : List ℕ) (j : ℕ) : a.toArray[j]! = a.getD j 0 := by
  by_cases h : j < a.length
  · simp [List.getD, h]
  · simp [List.getD, h]

/-- the ideal twist, read in `Z_q`, is the exact twist by `ρ_1 = roots[1]·W⁻¹` -/
theorem twistN_cast (T : Tables) (roots : Array ℕ) (a : List ℕ) (bu : ℕ) (hq : T.q = q)
    (h2 : bu + 2 * T.q ≤ W) (hm : MontConst T.q T.qinv) (hr : RootsLt roots T.q)
    (ha : ∀ x ∈ a, x < bu) :
    (twistN T roots a).map (Nat.cast : ℕ → ZMod q)
      = twistZ (rho q roots 1) (a.map (Nat.cast : ℕ → ZMod q)) := by
  subst hq
  have hq0 := hm.pos
  unfold twistN twistZ
  simp only [List.map_map, List.length_map]
  apply List.map_congr_left
  intro j _
  simp only [Function.comp, getD_map_cast, toArray_get!_eq_getD]
  by_cases hj0 : j = 0
  · rw [if_pos hj0, if_pos hj0]
  · rw [if_neg hj0, if_neg hj0]
    have hbu : 0 < bu ∨ a = [] := by
      cases a with
      | nil => exact Or.inr rfl
      | cons x _ => left; have := ha x (List.mem_cons_self ..); omega
    have hlt : ∀ k, a.getD k 0 < W := by
      intro k
      rcases hbu with hb | rfl
      · have := toArray_getElem!_lt a bu hb ha k
        rw [toArray_get!_eq_getD] at this
        unfold W at *; omega
      · simp
    have hVP : a.getD (a.length - j) 0 * roots[1]! < T.q * W := by
      rw [Nat.mul_comm T.q W]; exact Nat.mul_lt_mul'' (hlt _) (hr 1)
    have h2q : 2 * T.q ≤ W := by unfold W at *; omega
    obtain ⟨_, hl, _⟩ := MRedLazy_eq _ _ T.q T.qinv h2q hm hVP
    rw [Nat.cast_sub (by omega), Nat.cast_add, Nat.cast_mul, ZMod.natCast_self, mul_zero, add_zero,
      MRedLazy_cast _ _ T.qinv h2q hm hVP]
    unfold rho
    ring

end

/-! ### the conjugate-invariant transforms of the Model -/

/-- Hypotheses on a `Tables` value for the conjugate-invariant ring of degree `n = 2^K`
(`nthRoot = 4n`, tables of `2n` entries): as `Valid`, with the inverse-pair condition on the node
indices `1 ≤ j < 2n`, `rootsF[1]² ≡ −W²` (`ρ_1² = −1`), and `nInv ≡ (2n)⁻¹·W`. -/
structure ValidCI (T : Tables) (K : ℕ) : Prop where
  n_eq : T.n = 2 ^ K
  prime : T.q.Prime
  h8 : 8 * T.q ≤ W
  mont : MontConst T.q T.qinv
  bred : T.bred = brc T.q
  rootsF_lt : RootsLt T.rootsF T.q
  rootsB_lt : RootsLt T.rootsB T.q
  roots_inv : ∀ j, 1 ≤ j → j < 2 ^ (K + 1) → (T.rootsF[j]! * T.rootsB[j]!) % T.q = (W * W) % T.q
  root1 : (T.rootsF[1]! * T.rootsF[1]! + W * W) % T.q = 0
  nInv_lt : T.nInv < T.q
  nInv_eq : (T.nInv * (2 * T.n)) % T.q = W % T.q

section
variable {T : Tables} {K : ℕ}

theorem ValidCI.rho_inv (hT : ValidCI T K) [Fact T.q.Prime] (j : ℕ) (h1 : 1 ≤ j)
    (h2 : j < 2 ^ (K + 1)) : rho T.q T.rootsF j * rho T.q T.rootsB j = 1 := by
  have h := (ZMod.natCast_eq_natCast_iff' _ _ T.q).2 (hT.roots_inv j h1 h2)
  simp only [Nat.cast_mul] at h
  have hW := W_ne_zero (q := T.q) hT.mont.odd
  unfold rho
  calc (T.rootsF[j]! : ZMod T.q) * (W : ZMod T.q)⁻¹ * ((T.rootsB[j]! : ZMod T.q) * (W : ZMod T.q)⁻¹)
      = ((T.rootsF[j]! : ZMod T.q) * (T.rootsB[j]! : ZMod T.q)) * ((W : ZMod T.q)⁻¹ * (W : ZMod T.q)⁻¹) := by ring
    _ = 1 := by
        rw [h, mul_assoc, ← mul_assoc (W : ZMod T.q) (W : ZMod T.q)⁻¹, mul_inv_cancel₀ hW, one_mul,
          mul_inv_cancel₀ hW]

theorem ValidCI.rho1_sq (hT : ValidCI T K) [Fact T.q.Prime] :
    rho T.q T.rootsF 1 * rho T.q T.rootsF 1 = -1 := by
  have hW := W_ne_zero (q := T.q) hT.mont.odd
  have hWW : (W : ZMod T.q)⁻¹ * (W : ZMod T.q) = 1 := inv_mul_cancel₀ hW
  have e := (ZMod.natCast_eq_zero_iff _ T.q).2 (Nat.dvd_of_mod_eq_zero hT.root1)
  simp only [Nat.cast_add, Nat.cast_mul] at e
  have e' : (T.rootsF[1]! : ZMod T.q) * (T.rootsF[1]! : ZMod T.q)
      = -((W : ZMod T.q) * (W : ZMod T.q)) := eq_neg_of_add_eq_zero_left e
  unfold rho
  calc (T.rootsF[1]! : ZMod T.q) * (W : ZMod T.q)⁻¹ * ((T.rootsF[1]! : ZMod T.q) * (W : ZMod T.q)⁻¹)
      = ((T.rootsF[1]! : ZMod T.q) * (T.rootsF[1]! : ZMod T.q)) * ((W : ZMod T.q)⁻¹ * (W : ZMod T.q)⁻¹) := by ring
    _ = -(((W : ZMod T.q)⁻¹ * (W : ZMod T.q)) * ((W : ZMod T.q)⁻¹ * (W : ZMod T.q))) := by rw [e']; ring
    _ = -1 := by rw [hWW, mul_one]

/-- `nttCI`, read in `Z_q`: exact twist by `ρ_1`, then the exact network from node `2`; entries `< q`. -/
theorem nttCI_cast (hT : ValidCI T K) [Fact T.q.Prime] (a : List ℕ) (ha : ∀ x ∈ a, x < T.q) :
    (nttCI T a).map (Nat.cast : ℕ → ZMod T.q)
      = fwdZ (rho T.q T.rootsF) K 2 (twistZ (rho T.q T.rootsF 1) (a.map (Nat.cast : ℕ → ZMod T.q)))
    ∧ ∀ y ∈ nttCI T a, y < T.q := by
  have hq1 : 1 < T.q := hT.prime.one_lt
  have h8 := hT.h8
  have ha1 : ∀ x ∈ a, x < 1 * T.q := by rw [Nat.one_mul]; exact ha
  obtain ⟨et, ok, _, _⟩ := nttCICoreLazy_range T K hT.n_eq hT.h8 hT.mont hT.rootsF_lt 1 (by omega) a ha1
  obtain ⟨_, ht⟩ := twist_ok T T.rootsF a (1 * T.q) (by omega) hT.mont hT.rootsF_lt ha1
  have hB : BoundOK (flagCI T.n) (BCI T.n (1 + 2)) K := by
    rw [hT.n_eq]; exact BCI_ok K (1 + 2) (by omega)
  have ha' : ∀ x ∈ twistN T T.rootsF a, x < BCI T.n (1 + 2) 0 * T.q := by
    rw [BCI_zero _ _ (by omega), Nat.add_mul]; exact ht
  have hc := fwdRec_cast T.rootsF T.qinv (flagCI T.n) (BCI T.n (1 + 2)) K hT.h8 hT.mont hT.rootsF_lt
    hB K 0 2 _ (by omega) ha'
  rw [twistN_cast T T.rootsF a (1 * T.q) rfl (by omega) hT.mont hT.rootsF_lt ha1] at hc
  have e : nttCICoreLazy T a = fwdRec T.rootsF T.q T.qinv (flagCI T.n) K 0 2 (twistN T T.rootsF a) := by
    unfold nttCICoreLazy; rw [hT.n_eq, log2n_two_pow, ← hT.n_eq, et]
  have hlt : ∀ y ∈ nttCICoreLazy T a, y < W := by
    intro y hy
    rw [e] at hy
    have h1 := fwdRec_out_lt _ _ _ _ _ K 0 2 _ ok y hy
    have h2 : BCI T.n (1 + 2) (0 + K) * T.q ≤ 8 * T.q := by
      apply Nat.mul_le_mul_right
      rcases Nat.eq_zero_or_pos K with h0 | h0
      · subst h0; rw [BCI_zero _ _ (by omega)]; omega
      · have := BCI_last K (1 + 2) h0 (by omega)
        rw [hT.n_eq, Nat.zero_add]; omega
    omega
  have hred : ∀ y ∈ nttCICoreLazy T a, BRedAdd y T.q T.bred = y % T.q := by
    intro y hy
    rw [hT.bred]; exact BRedAdd_spec y T.q hq1 (hlt y hy)
  constructor
  · rw [← hc, ← e]
    unfold nttCI
    rw [List.map_map]
    apply List.map_congr_left
    intro y hy
    simp only [Function.comp, hred y hy]
    exact ZMod.natCast_mod y T.q
  · intro y hy
    unfold nttCI at hy
    rw [List.mem_map] at hy
    obtain ⟨x, hx, rfl⟩ := hy
    rw [hred x hx]; exact Nat.mod_lt _ (by omega)


/-- one conditional subtraction does not change the residue -/
theorem CRed_cast (y q : ℕ) (hy : y < W) (hq : q ≤ W) : ((CRed y q : ℕ) : ZMod q) = (y : ZMod q) := by
  unfold CRed
  split
  · rename_i h
    have h' : q ≤ y := by simpa using h
    have : u64sub y q = y - q := by
      have hqW : q % W = q ∨ q = W := by
        rcases Nat.lt_or_ge q W with h1 | h1
        · left; exact Nat.mod_eq_of_lt h1
        · right; omega
      rcases hqW with h1 | h1
      · have e2 : y + W - q = (y - q) + W := by omega
        simp only [u64sub]
        rw [h1, e2, Nat.add_mod_right, Nat.mod_eq_of_lt (by omega)]
      · omega
    rw [this, Nat.cast_sub h', ZMod.natCast_self, sub_zero]
  · rfl

theorem inttCICoreLazy_unfold (T : Tables) (a : List ℕ) :
    inttCICoreLazy T a
      = if twist T T.rootsB (invRec T.rootsB T.q T.qinv (log2n T.n) 2 a) = [] then []
        else CRed (u64shl ((invRec T.rootsB T.q T.qinv (log2n T.n) 2 a).headD 0) 1) T.q
          :: (twist T T.rootsB (invRec T.rootsB T.q T.qinv (log2n T.n) 2 a)).tail := by
  unfold inttCICoreLazy
  simp only []
  cases twist T T.rootsB (invRec T.rootsB T.q T.qinv (log2n T.n) 2 a) with
  | nil => simp
  | cons x l => simp

/-- **intt_ntt, conjugate-invariant ring**: `inttCI T (nttCI T a) = a` for every `a` of length `n`
with entries `< q`. -/
theorem inttCI_nttCI (hT : ValidCI T K) (a : List ℕ) (hlen : a.length = T.n)
    (ha : ∀ x ∈ a, x < T.q) : inttCI T (nttCI T a) = a := by
  have : Fact T.q.Prime := ⟨hT.prime⟩
  have hq0 : 0 < T.q := hT.prime.pos
  have h8 := hT.h8
  have h6 : 6 * T.q ≤ W := by omega
  have hW := W_ne_zero (q := T.q) hT.mont.odd
  have hK : 0 < 2 ^ K := Nat.two_pow_pos K
  obtain ⟨hfc, hflt⟩ := nttCI_cast hT a ha
  have hb2 : ∀ x ∈ nttCI T a, x < 2 * T.q := fun x hx => by have := hflt x hx; omega
  -- the inverse network
  obtain ⟨_, hrlt⟩ := invRec_ok T.rootsB T.q T.qinv h6 hT.mont hT.rootsB_lt K 2 _ hb2
  have hic := invRec_cast T.rootsB T.qinv h6 hT.mont hT.rootsB_lt K 2 _ hb2
  have hlen' : (twistZ (rho T.q T.rootsF 1) (a.map (Nat.cast : ℕ → ZMod T.q))).length = 2 ^ K := by
    rw [twistZ_length, List.length_map, hlen, hT.n_eq]
  rw [hfc, invZ_fwdZ (rho T.q T.rootsF) (rho T.q T.rootsB) (2 ^ (K + 1))
    (fun i h1 h2 => hT.rho_inv i h1 h2) K 2 _ hlen' (by omega)
    (by rw [Nat.pow_succ]; omega)] at hic
  generalize hr : invRec T.rootsB T.q T.qinv K 2 (nttCI T a) = r at *
  -- the second twist
  obtain ⟨et, htlt⟩ := twist_ok T T.rootsB r (2 * T.q) (by omega) hT.mont hT.rootsB_lt hrlt
  have htc := twistN_cast T T.rootsB r (2 * T.q) rfl (by omega) hT.mont hT.rootsB_lt hrlt
  have hrlen : r.length = 2 ^ K := by
    have := congrArg List.length hic
    rw [List.length_map, List.length_map, hlen'] at this
    exact this
  have hne : twistN T T.rootsB r ≠ [] := by
    intro h
    rw [h] at htc
    have := congrArg List.length htc
    simp only [twistZ_length, List.length_map, hrlen, List.length_nil] at this
    omega
  -- the algebra
  have hi1 := hT.rho_inv 1 (by omega) (by rw [Nat.pow_succ]; omega)
  have hsq := hT.rho1_sq
  have hsum : rho T.q T.rootsF 1 + rho T.q T.rootsB 1 = 0 := by
    calc rho T.q T.rootsF 1 + rho T.q T.rootsB 1
        = rho T.q T.rootsB 1 * (rho T.q T.rootsF 1 * rho T.q T.rootsF 1)
            * (rho T.q T.rootsF 1 * rho T.q T.rootsB 1) + rho T.q T.rootsB 1
            + (rho T.q T.rootsF 1 - rho T.q T.rootsF 1 * (rho T.q T.rootsF 1 * rho T.q T.rootsB 1)
                * (rho T.q T.rootsF 1 * rho T.q T.rootsB 1)) := by ring
      _ = 0 := by rw [hsq, hi1]; ring
  have halg := twist_inv_twist (rho T.q T.rootsF 1) (rho T.q T.rootsB 1) ((2 : ZMod T.q) ^ K) hi1 hsum
    (a.map (Nat.cast : ℕ → ZMod T.q))
  have ha_ne : a.map (Nat.cast : ℕ → ZMod T.q) ≠ [] := by
    intro h
    have := congrArg List.length h
    rw [List.length_map, hlen, hT.n_eq] at this
    simp at this
  rcases halg with halg | h
  swap
  · exact absurd h ha_ne
  rw [← hic] at halg
  -- the core, read in `Z_q`
  have hcore : (inttCICoreLazy T (nttCI T a)).map (Nat.cast : ℕ → ZMod T.q)
      = (a.map (Nat.cast : ℕ → ZMod T.q)).map (fun x => 2 * 2 ^ K * x) := by
    rw [inttCICoreLazy_unfold, hT.n_eq, log2n_two_pow, hr, et, if_neg hne, List.map_cons, ← halg,
      ← htc, List.map_tail]
    congr 1
    have hh : r.headD 0 < 2 * T.q := by
      cases r with
      | nil => simp at hrlen; omega
      | cons x _ => simp; exact hrlt x (List.mem_cons_self ..)
    have hhd : ((r.headD 0 : ℕ) : ZMod T.q) = (r.map (Nat.cast : ℕ → ZMod T.q)).getD 0 0 := by
      cases r with
      | nil => simp
      | cons x _ => simp
    rw [← hhd]
    generalize r.headD 0 = x at hh
    have e : u64shl x 1 = 2 * x := by
      simp only [u64shl]; rw [Nat.mod_eq_of_lt (by unfold W at *; omega)]; omega
    rw [e, CRed_cast (2 * x) T.q (by unfold W at *; omega) (by unfold W at *; omega),
      Nat.cast_mul, Nat.cast_ofNat]
  -- the final multiplication by `nInv`
  have hn : ((T.nInv : ZMod T.q)) * (2 * (2 : ZMod T.q) ^ K) * (W : ZMod T.q)⁻¹ = 1 := by
    have h := (ZMod.natCast_eq_natCast_iff' _ _ T.q).2 hT.nInv_eq
    rw [hT.n_eq] at h
    simp only [Nat.cast_mul, Nat.cast_pow, Nat.cast_ofNat] at h
    rw [h]; exact mul_inv_cancel₀ hW
  have hcl := (inttCICoreLazy_range T K hT.n_eq h6 hT.mont hT.rootsB_lt _ hb2).2.2
  apply map_cast_inj (q := T.q) _ _ (inttCI_lt T K hT.n_eq h6 hT.mont hT.rootsB_lt hT.nInv_lt _ hb2) ha
  unfold inttCI
  rw [List.map_map]
  have hstep : ∀ x ∈ inttCICoreLazy T (nttCI T a),
      ((Nat.cast : ℕ → ZMod T.q) ∘ fun x => MRed x T.nInv T.q T.qinv) x
        = ((fun z : ZMod T.q => z * (T.nInv : ZMod T.q) * (W : ZMod T.q)⁻¹) ∘ (Nat.cast : ℕ → ZMod T.q)) x := by
    intro x hx
    have hxW : x < W := by have := hcl x hx; unfold W at *; omega
    exact MRed_cast x T.nInv T.qinv (by omega) hT.mont
      (by rw [Nat.mul_comm T.q W]; exact Nat.mul_lt_mul'' hxW hT.nInv_lt)
  rw [List.map_congr_left hstep, ← List.map_map, hcore, List.map_map, List.map_map]
  apply List.map_congr_left
  intro x _
  simp only [Function.comp]
  calc 2 * (2 : ZMod T.q) ^ K * (x : ZMod T.q) * (T.nInv : ZMod T.q) * (W : ZMod T.q)⁻¹
      = (x : ZMod T.q) * ((T.nInv : ZMod T.q) * (2 * (2 : ZMod T.q) ^ K) * (W : ZMod T.q)⁻¹) := by ring
    _ = x := by rw [hn, mul_one]

end

/-- the tables generated for the conjugate-invariant ring of degree `N = 2^K` (`nthRoot = 4N`)
satisfy `ValidCI` -/
theorem mkTables_validCI (K q g : ℕ) (hq : q.Prime) (h8 : 8 * q ≤ W) (hdiv : 2 ^ (K + 2) ∣ q - 1)
    (hg : g ^ ((q - 1) / 2) % q = q - 1) :
    ValidCI (mkTables (2 ^ K) q (2 ^ (K + 2)) g) K := by
  have : Fact q.Prime := ⟨hq⟩
  obtain ⟨hm, hF, hB, hinv, hN1, hN2, hT, _, _⟩ := mkTables_core (2 ^ K) (K + 1) q g hq h8 hdiv hg
  have hW := W_ne_zero (q := q) hm.odd
  refine ⟨rfl, hq, h8, hm, rfl, hF, hB, fun j _ hj => hinv j hj, ?_, hN1, ?_⟩
  · have h1 := hT 1 (by omega) (by
      calc 1 < 2 ^ 1 := by decide
        _ ≤ 2 ^ (K + 1) := Nat.pow_le_pow_right (by decide) (by omega))
    rw [cnode_one] at h1
    unfold rho at h1
    show ((mkTables (2 ^ K) q (2 ^ (K + 2)) g).rootsF[1]! * (mkTables (2 ^ K) q (2 ^ (K + 2)) g).rootsF[1]!
      + W * W) % q = 0
    generalize (mkTables (2 ^ K) q (2 ^ (K + 2)) g).rootsF[1]! = r at *
    apply Nat.mod_eq_zero_of_dvd
    rw [← ZMod.natCast_eq_zero_iff, Nat.cast_add, Nat.cast_mul, Nat.cast_mul]
    have : (r : ZMod q) * (r : ZMod q)
        = ((r : ZMod q) * (W : ZMod q)⁻¹) ^ 2 * ((W : ZMod q) * (W : ZMod q)) := by
      have hWW : (W : ZMod q)⁻¹ * (W : ZMod q) = 1 := inv_mul_cancel₀ hW
      calc (r : ZMod q) * (r : ZMod q)
          = (r : ZMod q) * (r : ZMod q) * (((W : ZMod q)⁻¹ * (W : ZMod q)) * ((W : ZMod q)⁻¹ * (W : ZMod q))) := by
            rw [hWW]; ring
        _ = ((r : ZMod q) * (W : ZMod q)⁻¹) ^ 2 * ((W : ZMod q) * (W : ZMod q)) := by ring
    rw [this, h1]; ring
  · show ((mkTables (2 ^ K) q (2 ^ (K + 2)) g).nInv * (2 * 2 ^ K)) % q = W % q
    have e : 2 * 2 ^ K = 2 ^ (K + 1) := by rw [Nat.pow_succ]; omega
    rw [e]; exact hN2

theorem mkTables_tableInvCI (K q g : ℕ) (hq : q.Prime) (h8 : 8 * q ≤ W) (hdiv : 2 ^ (K + 2) ∣ q - 1)
    (hg : g ^ ((q - 1) / 2) % q = q - 1) :
    TableInv (rho q (mkTables (2 ^ K) q (2 ^ (K + 2)) g).rootsF) (2 ^ (K + 1)) :=
  (mkTables_core (2 ^ K) (K + 1) q g hq h8 hdiv hg).2.2.2.2.2.2.1

/-! ### semantics of `nttCI` -/
open Finset

section
variable {F : Type} [CommRing F]

/-- **Meaning of the twist**: if `x^N = i`, `i² = −1` and `y = x⁻¹`, evaluating the twisted vector at
`x` evaluates the conjugate-invariant polynomial `a_0 + Σ_{m≥1} a_m (X^m + X^{−m})` at `x`. -/
theorem evalL_twistZ (i x y : F) (hxy : x * y = 1) (a : List F) (hx : x ^ a.length = i)
    (hi : i * i = -1) (hN : 0 < a.length) :
    evalL (twistZ i a) x
      = ∑ j ∈ range a.length, a.getD j 0 * x ^ j
        + ∑ m ∈ range (a.length - 1), a.getD (m + 1) 0 * y ^ (m + 1) := by
  unfold twistZ
  rw [evalL_map_range]
  have hsplit : ∀ j ∈ range a.length,
      (if j = 0 then a.getD 0 0 else a.getD j 0 - i * a.getD (a.length - j) 0) * x ^ j
        = a.getD j 0 * x ^ j - (if j = 0 then 0 else i * a.getD (a.length - j) 0 * x ^ j) := by
    intro j _
    by_cases h : j = 0
    · subst h; simp
    · rw [if_neg h, if_neg h]; ring
  rw [sum_congr rfl hsplit, sum_sub_distrib, sub_eq_add_neg]
  congr 1
  obtain ⟨n, hn⟩ : ∃ n, a.length = n + 1 := ⟨a.length - 1, by omega⟩
  rw [hn, sum_range_succ', Nat.add_sub_cancel]
  simp only [if_true, add_zero, Nat.add_one_ne_zero, if_false]
  rw [← sum_neg_distrib, ← sum_range_reflect (fun m => a.getD (m + 1) 0 * y ^ (m + 1)) n]
  apply sum_congr rfl
  intro k hk
  have hk' : k < n := mem_range.1 hk
  have e1 : n + 1 - (k + 1) = n - 1 - k + 1 := by omega
  rw [e1]
  -- `x^(k+1) = i · y^(n-1-k+1)`
  have hpow : x ^ (k + 1) = i * y ^ (n - 1 - k + 1) := by
    have hxy' : x ^ (n - 1 - k + 1) * y ^ (n - 1 - k + 1) = 1 := by rw [← mul_pow, hxy, one_pow]
    have hsum : x ^ (k + 1) * x ^ (n - 1 - k + 1) = i := by
      rw [← pow_add, ← hx, hn]; congr 1; omega
    calc x ^ (k + 1) = x ^ (k + 1) * (x ^ (n - 1 - k + 1) * y ^ (n - 1 - k + 1)) := by
          rw [hxy', mul_one]
      _ = (x ^ (k + 1) * x ^ (n - 1 - k + 1)) * y ^ (n - 1 - k + 1) := by ring
      _ = i * y ^ (n - 1 - k + 1) := by rw [hsum]
  rw [hpow]
  calc -(i * a.getD (n - 1 - k + 1) 0 * (i * y ^ (n - 1 - k + 1)))
      = -(i * i) * (a.getD (n - 1 - k + 1) 0 * y ^ (n - 1 - k + 1)) := by ring
    _ = a.getD (n - 1 - k + 1) 0 * y ^ (n - 1 - k + 1) := by rw [hi]; ring

end

section
variable {T : Tables} {K : ℕ}

/-- **Semantics of `nttCI`**: entry `t` is the evaluation of the conjugate-invariant polynomial
`a_0 + Σ_{m=1}^{N−1} a_m (X^m + X^{−m})` at `x_t = pt ρ K 2 t`, where `x_t^N = ρ_1` and `ρ_1² = −1`
(so `x_t^{2N} = −1`: the `x_t` are primitive `4N`-th roots of unity — the left half of the
`2N`-point negacyclic transform of the folded polynomial). -/
theorem nttCI_eval (hT : ValidCI T K) [Fact T.q.Prime]
    (hinv : TableInv (rho T.q T.rootsF) (2 ^ (K + 1)))
    (a : List ℕ) (hlen : a.length = T.n) (ha : ∀ x ∈ a, x < T.q) :
    (nttCI T a).map (Nat.cast : ℕ → ZMod T.q)
      = (List.range (2 ^ K)).map (fun t =>
          ∑ j ∈ range (2 ^ K), ((a.getD j 0 : ℕ) : ZMod T.q) * pt (rho T.q T.rootsF) K 2 t ^ j
          + ∑ m ∈ range (2 ^ K - 1),
              ((a.getD (m + 1) 0 : ℕ) : ZMod T.q) * (pt (rho T.q T.rootsF) K 2 t)⁻¹ ^ (m + 1))
    ∧ (∀ t, pt (rho T.q T.rootsF) K 2 t ^ 2 ^ K = rho T.q T.rootsF 1)
    ∧ rho T.q T.rootsF 1 * rho T.q T.rootsF 1 = -1 := by
  have hK : 0 < 2 ^ K := Nat.two_pow_pos K
  have hsq := hT.rho1_sq
  have hb : (2 + 1) * 2 ^ K ≤ 2 * 2 ^ (K + 1) := by rw [Nat.pow_succ]; omega
  have hpt : ∀ t, pt (rho T.q T.rootsF) K 2 t ^ 2 ^ K = rho T.q T.rootsF 1 := by
    intro t
    rw [pt_pow _ _ hinv K 2 t (by omega) hb]
    exact cnode_even _ 1 (by omega)
  refine ⟨?_, hpt, hsq⟩
  have hl : (a.map (Nat.cast : ℕ → ZMod T.q)).length = 2 ^ K := by
    rw [List.length_map, hlen, hT.n_eq]
  rw [(nttCI_cast hT a ha).1, fwdZ_eval _ _ hinv K 2 _ (by rw [twistZ_length, hl]) (by omega) hb]
  apply List.map_congr_left
  intro t _
  have hi0 : rho T.q T.rootsF 1 ≠ 0 := by
    intro h0
    rw [h0, mul_zero] at hsq
    exact one_ne_zero (α := ZMod T.q) (by
      have := congrArg (fun z : ZMod T.q => -z) hsq
      simpa using this.symm)
  have hx0 : pt (rho T.q T.rootsF) K 2 t ≠ 0 := by
    intro h0
    have := hpt t
    rw [h0, zero_pow (by omega)] at this
    exact hi0 this.symm
  rw [evalL_twistZ (rho T.q T.rootsF 1) _ (pt (rho T.q T.rootsF) K 2 t)⁻¹ (mul_inv_cancel₀ hx0) _
    (by rw [hl]; exact hpt t) hsq (by rw [hl]; exact hK), hl]
  congr 1
  · apply sum_congr rfl
    intro j _
    rw [getD_map_cast]
  · apply sum_congr rfl
    intro m _
    rw [getD_map_cast]

end
end Lattigo.NTT
