import Lattigo.Gen.Butterfly
import Lattigo.Proofs.ModRed
/-!
  Butterflies of `ring/ntt.go` (regenerated as `Gen.butterfly`, `Gen.invbutterfly`).

  Bounds on `q` found by the proofs:
  * reducing `butterfly` (inputs `U < 8q`):            `6q ≤ 2^64` (no wrap of `U' + V'`, `U' + 2q`),
    plus `U < 2^64`; the caller's range `U < 8q` is only representable for all `U` when `8q ≤ 2^64`.
  * non-reducing step `U < B ↦ < B + 2q`:               `B + 2q ≤ 2^64`; with `B = 6q` this is the
    `8q ≤ 2^64` (`q < 2^61`) requirement of the lazy NTT.
  * `invbutterfly` (inputs `U, V < 2q`):                `6q ≤ 2^64` (no wrap of `U + 4q`).
  * in every case the multiplicand `V < 2^64`, `Psi < q` (so `V·Psi < q·2^64`) and `2q ≤ 2^64`
    for `MRedLazy`.
-/
namespace Lattigo
open Lattigo.Gen

/-- The non-reducing Cooley–Tukey step `X = U + V'`, `Y = U + 2q - V'` used inline by the NTT
(`V' = MRedLazy V Psi`, so `V' < 2q`, and `0 < V'`): for `U < B` with `B + 2q ≤ 2^64` neither
expression wraps and both outputs are `< B + 2q` (indeed `≤ B + 2q - 2`). -/
theorem bfly_noreduce_range (U V' q B : Nat) (hU : U < B) (hV : V' < 2 * q) (hB : B + 2 * q ≤ W) :
    u64add U V' = U + V'
    ∧ u64sub (u64add U (2 * q)) V' = U + 2 * q - V'
    ∧ U + V' + 2 ≤ B + 2 * q
    ∧ U + 2 * q - V' < B + 2 * q
    ∧ (0 < V' → U + 2 * q - V' + 2 ≤ B + 2 * q) := by
  simp only [u64add, u64sub]
  unfold W at *
  omega

/-- `U < 6q ↦ X, Y < 8q` (needs `8q ≤ 2^64`). -/
theorem bfly_noreduce_6q (U V' q : Nat) (hU : U < 6 * q) (hV : V' < 2 * q) (h8 : 8 * q ≤ W) :
    u64add U V' = U + V' ∧ u64sub (u64add U (2 * q)) V' = U + 2 * q - V'
    ∧ U + V' < 8 * q ∧ U + 2 * q - V' < 8 * q := by
  obtain ⟨a, b, c, d, _⟩ := bfly_noreduce_range U V' q (6 * q) hU hV (by omega)
  exact ⟨a, b, by omega, by omega⟩

/-- `U < q ↦ X, Y < 3q` (needs `3q ≤ 2^64`). -/
theorem bfly_noreduce_q (U V' q : Nat) (hU : U < q) (hV : V' < 2 * q) (h3 : 3 * q ≤ W) :
    u64add U V' = U + V' ∧ u64sub (u64add U (2 * q)) V' = U + 2 * q - V'
    ∧ U + V' < 3 * q ∧ U + 2 * q - V' < 3 * q := by
  obtain ⟨a, b, c, d, _⟩ := bfly_noreduce_range U V' q q hU hV (by omega)
  exact ⟨a, b, by omega, by omega⟩

/-- `U < 3q ↦ X, Y < 5q` (needs `5q ≤ 2^64`). -/
theorem bfly_noreduce_3q (U V' q : Nat) (hU : U < 3 * q) (hV : V' < 2 * q) (h5 : 5 * q ≤ W) :
    u64add U V' = U + V' ∧ u64sub (u64add U (2 * q)) V' = U + 2 * q - V'
    ∧ U + V' < 5 * q ∧ U + 2 * q - V' < 5 * q := by
  obtain ⟨a, b, c, d, _⟩ := bfly_noreduce_range U V' q (3 * q) hU hV (by omega)
  exact ⟨a, b, by omega, by omega⟩

/-- Congruences of the non-reducing step, given the Montgomery identity for `V'`. -/
theorem bfly_noreduce_congr (U V V' Psi q m : Nat) (hV' : V' ≤ U + 2 * q)
    (hmont : V' * W + m * q = V * Psi + q * W) :
    ((U + V') * W) % q = (U * W + V * Psi) % q
    ∧ ((U + 2 * q - V') * W + V * Psi) % q = (U * W) % q := by
  constructor
  · apply mod_eq_of_add_mul_eq (k1 := m) (k2 := W)
    generalize m * q = A at *; generalize V * Psi = B at *
    unfold W at *
    apply Nat.le_antisymm <;> omega
  · apply mod_eq_of_add_mul_eq (k1 := 0) (k2 := m + W)
    rw [Nat.add_mul m W q]
    generalize m * q = A at *; generalize V * Psi = B at *
    unfold W at *
    apply Nat.le_antisymm <;> omega

/-- **butterfly** (reducing, `ring/ntt.go:155`) with `twoQ = 2q`, `fourQ = 4q`:
`U < 8q ↦ X, Y ≤ 6q - 2`, no uint64 wrap, `X·2^64 ≡ U·2^64 + V·Psi`, `Y·2^64 + V·Psi ≡ U·2^64 (mod q)`.
Needs `6q ≤ 2^64` (implied by the NTT's `8q ≤ 2^64`). -/
theorem butterfly_spec (U V Psi q qinv : Nat) (h6 : 6 * q ≤ W) (hm : MontConst q qinv)
    (hPsi : Psi < q) (hV : V < W) (hUW : U < W) (hU : U < 8 * q) :
    (butterfly U V Psi (2 * q) (4 * q) q qinv).1 + 2 ≤ 6 * q
    ∧ (butterfly U V Psi (2 * q) (4 * q) q qinv).2 + 2 ≤ 6 * q
    ∧ ((butterfly U V Psi (2 * q) (4 * q) q qinv).1 * W) % q = (U * W + V * Psi) % q
    ∧ ((butterfly U V Psi (2 * q) (4 * q) q qinv).2 * W + V * Psi) % q = (U * W) % q := by
  have hVP : V * Psi < q * W := by
    rw [Nat.mul_comm q W]; exact Nat.mul_lt_mul'' hV hPsi
  obtain ⟨hmont, hlt, hpos⟩ := MRedLazy_eq V Psi q qinv (by omega) hm hVP
  unfold butterfly
  simp only []
  generalize MRedLazy V Psi q qinv = V' at *
  generalize (V * Psi) % W * qinv % W = m at *
  by_cases h : 4 * q ≤ U
  · rw [if_pos (decide_eq_true h)]
    have hU' : u64sub U (4 * q) = U - 4 * q := by
      simp only [u64sub]; unfold W at *; omega
    rw [hU']
    obtain ⟨e1, e2, b1, _, b2⟩ := bfly_noreduce_range (U - 4 * q) V' q (4 * q) (by omega) hlt (by omega)
    obtain ⟨c1, c2⟩ := bfly_noreduce_congr (U - 4 * q) V V' Psi q m (by omega) hmont
    rw [e1, e2]
    have hUq : ((U - 4 * q) * W) % q = (U * W) % q := by
      apply mod_eq_of_add_mul_eq (k1 := 4 * W) (k2 := 0)
      have : U = (U - 4 * q) + 4 * q := by omega
      generalize U - 4 * q = d at *
      subst this; ring
    refine ⟨by omega, b2 hpos |> fun h => by omega, ?_, ?_⟩
    · rw [c1, Nat.add_mod, hUq, ← Nat.add_mod]
    · rw [c2, hUq]
  · rw [if_neg (by simpa using h)]
    obtain ⟨e1, e2, b1, _, b2⟩ := bfly_noreduce_range U V' q (4 * q) (by omega) hlt (by omega)
    obtain ⟨c1, c2⟩ := bfly_noreduce_congr U V V' Psi q m (by omega) hmont
    rw [e1, e2]
    exact ⟨by omega, by have := b2 hpos; omega, c1, c2⟩

/-- **invbutterfly** (Gentleman–Sande, `ring/ntt.go:164`) with `twoQ = 2q`, `fourQ = 4q`:
`U, V < 2q ↦ X < 2q, X ≡ U + V`, `0 < Y < 2q`, `Y·2^64 ≡ (U + 4q - V)·Psi (mod q)`.
Needs `6q ≤ 2^64` (no wrap of `U + 4q`): this is the "not possible if Q > 61 bits" of the Go comment. -/
theorem invbutterfly_spec (U V Psi q qinv : Nat) (h6 : 6 * q ≤ W) (hm : MontConst q qinv)
    (hPsi : Psi < q) (hU : U < 2 * q) (hV : V < 2 * q) :
    (invbutterfly U V Psi (2 * q) (4 * q) q qinv).1 < 2 * q
    ∧ (invbutterfly U V Psi (2 * q) (4 * q) q qinv).1 % q = (U + V) % q
    ∧ (invbutterfly U V Psi (2 * q) (4 * q) q qinv).2 < 2 * q
    ∧ 0 < (invbutterfly U V Psi (2 * q) (4 * q) q qinv).2
    ∧ ((invbutterfly U V Psi (2 * q) (4 * q) q qinv).2 * W) % q = ((U + 4 * q - V) * Psi) % q := by
  have hD : u64sub (u64add U (4 * q)) V = U + 4 * q - V := by
    simp only [u64add, u64sub]; unfold W at *; omega
  have hDW : U + 4 * q - V < W := by omega
  have hDP : (U + 4 * q - V) * Psi < q * W := by
    rw [Nat.mul_comm q W]; exact Nat.mul_lt_mul'' hDW hPsi
  obtain ⟨hc, hlt, hpos⟩ := MRedLazy_spec (U + 4 * q - V) Psi q qinv (by omega) hm hDP
  unfold invbutterfly
  simp only []
  rw [hD]
  have hX : u64add U V = U + V := by simp only [u64add]; unfold W at *; omega
  rw [hX]
  by_cases h : 2 * q ≤ U + V
  · rw [if_pos (decide_eq_true h)]
    have : u64sub (U + V) (2 * q) = U + V - 2 * q := by
      simp only [u64sub]; unfold W at *; omega
    rw [this]
    refine ⟨by omega, ?_, hlt, hpos, hc⟩
    apply mod_eq_of_add_mul_eq (k1 := 2) (k2 := 0); omega
  · rw [if_neg (by simpa using h)]
    exact ⟨by omega, rfl, hlt, hpos, hc⟩
