/-
  C17 — sessions: the buffer-pointer invariant holds for every sampler after any sequence of
  calls on any level views (`interleaving`).
-/
import Lattigo.Proofs.SamplerGaussian
import Lattigo.Model.SamplerSession
namespace Lattigo.Sampler
open Lattigo Lattigo.Gen

theorem gaussReadPlain_inv {orc : Slow} {fuel : Nat} {m : Mode} {sigma bound N : Nat} {qs : List Nat}
    {pol r : Poly} {s s' : Bytes} {b b' : Buf} {slow : Bool} (hb : BufInv b)
    (h : gaussReadPlain orc fuel m sigma bound N qs pol s b = .ok (r, slow, s', b')) : BufInv b' := by
  cases hp : isBigPath sigma bound with
  | false => exact (gaussReadPlain_small hb hp h).choose_spec.2.2.2
  | true => exact (gaussReadPlain_big hb hp h).choose_spec.2.2.2

theorem gaussRead_inv {orc : Slow} {fuel : Nat} {m : Mode} {mont : Bool} {sigma bound N : Nat}
    {qs : List Nat} {pol r : Poly} {s s' : Bytes} {b b' : Buf} {slow : Bool} (hb : BufInv b)
    (h : gaussRead orc fuel m mont sigma bound N qs pol s b = .ok (r, slow, s', b')) : BufInv b' := by
  unfold gaussRead at h
  cases mont with
  | false =>
    simp only [Bool.false_eq_true, if_false] at h
    exact gaussReadPlain_inv hb h
  | true =>
    simp only [if_true] at h
    cases m with
    | read =>
      dsimp only at h
      obtain ⟨⟨r1, sl1, s1, b1⟩, h1, h⟩ := Res.bind_eq_ok h
      dsimp only at h
      obtain ⟨r2, _, h⟩ := Res.bind_eq_ok h
      simp only [Res.ok.injEq, Prod.mk.injEq] at h
      obtain ⟨_, _, _, e4⟩ := h
      subst e4
      exact gaussReadPlain_inv hb h1
    | readAndAdd =>
      dsimp only at h
      obtain ⟨⟨r1, sl1, s1, b1⟩, h1, h⟩ := Res.bind_eq_ok h
      dsimp only at h
      obtain ⟨r2, _, h⟩ := Res.bind_eq_ok h
      obtain ⟨r3, _, h⟩ := Res.bind_eq_ok h
      simp only [Res.ok.injEq, Prod.mk.injEq] at h
      obtain ⟨_, _, _, e4⟩ := h
      subst e4
      exact gaussReadPlain_inv hb h1

theorem callKind_inv {cfg : Cfg} {k : Kind} {m : Mode} {qs : List Nat} {pol r : Poly} {s s' : Bytes}
    {b b' : Buf} {slow : Bool} (hb : BufInv b)
    (h : callKind cfg k m qs pol s b = .ok (r, slow, s', b')) : BufInv b' := by
  unfold callKind at h
  cases k with
  | uniform =>
    dsimp only at h
    obtain ⟨⟨r1, s1, b1⟩, h1, h⟩ := Res.bind_eq_ok h
    simp only [Res.pure_eq, Res.ok.injEq, Prod.mk.injEq] at h
    obtain ⟨_, _, _, e4⟩ := h
    subst e4
    exact (uniformRead_spec _ _ _ _ _ _ _ _ _ hb h1).1
  | ternP pBits mont =>
    dsimp only at h
    obtain ⟨⟨r1, s1⟩, _, h⟩ := Res.bind_eq_ok h
    simp only [Res.pure_eq, Res.ok.injEq, Prod.mk.injEq] at h
    obtain ⟨_, _, _, e4⟩ := h
    subst e4
    exact hb
  | ternH hw mont =>
    dsimp only at h
    obtain ⟨⟨r1, s1⟩, _, h⟩ := Res.bind_eq_ok h
    simp only [Res.pure_eq, Res.ok.injEq, Prod.mk.injEq] at h
    obtain ⟨_, _, _, e4⟩ := h
    subst e4
    exact hb
  | gauss sg bd mont =>
    exact gaussRead_inv hb h

/-- all buffers of the session satisfy the invariant -/
def St.Inv (st : St) : Prop := ∀ b ∈ st.bufs, BufInv b

theorem St.init_inv (cfg : Cfg) (stream : Bytes) (regs : List Poly) : (St.init cfg stream regs).Inv := by
  intro b hb
  simp only [St.init, List.mem_map] at hb
  obtain ⟨_, _, rfl⟩ := hb
  exact BufInv.new

theorem step_inv {cfg : Cfg} {st st' : St} {c : Call} {r : Poly} (hinv : st.Inv)
    (h : step cfg st c = .ok (r, st')) : st'.Inv := by
  unfold step at h
  split at h
  · rename_i k b hk hbuf
    split at h
    · cases h
    · dsimp only at h
      obtain ⟨⟨r1, sl1, s1, b1⟩, h1, h⟩ := Res.bind_eq_ok h
      simp only [Res.ok.injEq, Prod.mk.injEq] at h
      obtain ⟨_, e2⟩ := h
      subst e2
      have hb : BufInv b := hinv b (List.mem_of_getElem? hbuf)
      have hb1 : BufInv b1 := callKind_inv hb h1
      intro b' hb'
      dsimp only at hb'
      rcases List.mem_or_eq_of_mem_set hb' with hmem | heq
      · exact hinv b' hmem
      · rw [heq]; exact hb1
  · cases h

/-- **interleaving (invariant part).**  Whatever the sequence of `Read/ReadNew/ReadAndAdd` calls on
    whatever level views of whatever samplers, every random buffer keeps `len = 1024`,
    `ptr ≤ 1024`, `8 ∣ ptr`. -/
theorem run_inv (cfg : Cfg) : ∀ (calls : List Call) (st : St), st.Inv → (run cfg st calls).2.2.Inv := by
  intro calls
  induction calls with
  | nil => intro st h; exact h
  | cons c cs ih =>
    intro st h
    unfold run
    cases hs : step cfg st c with
    | ok v =>
      obtain ⟨r, st'⟩ := v
      dsimp only
      exact ih st' (step_inv h hs)
    | exhausted => exact h
    | panic => exact h

end Lattigo.Sampler
