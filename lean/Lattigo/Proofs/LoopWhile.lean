/-
  Generic facts about the fuel-bounded loop primitive `loopWhile` of `Lattigo/Word.lean`
  (printed by the typed mode of tools/go2lean for general `for` loops).
-/
import Lattigo.Word

namespace Lattigo.Proofs.LoopWhile
open Lattigo

variable {σ : Type}

theorem loopWhile_zero (c : σ → Bool) (f : σ → σ) (s : σ) : loopWhile 0 c f s = s := rfl

theorem loopWhile_succ (n : Nat) (c : σ → Bool) (f : σ → σ) (s : σ) :
    loopWhile (n + 1) c f s = if c s then loopWhile n c f (f s) else s := rfl

/-- a state on which the condition is false is returned unchanged, whatever the fuel. -/
theorem loopWhile_of_false (n : Nat) (c : σ → Bool) (f : σ → σ) (s : σ) (h : c s = false) :
    loopWhile n c f s = s := by
  cases n with
  | zero => rfl
  | succ n => rw [loopWhile_succ, h]; rfl

/-- **fuel adequacy**: if the states are ranked by levels `P n` such that the condition is false at
    level `0` and one iteration goes from level `n+1` to level `n`, then from a state of level `n`
    every fuel `m ≥ n` gives the same result as the fuel `n`: the cut-off is never reached with the
    condition still true.  (Instances: a loop that halves a word `< 2^n` and runs while it is `> 0`.) -/
theorem loopWhile_fuel (c : σ → Bool) (f : σ → σ) (P : Nat → σ → Prop)
    (h0 : ∀ s, P 0 s → c s = false)
    (hs : ∀ n s, P (n + 1) s → c s = true → P n (f s)) :
    ∀ n s, P n s → ∀ m, n ≤ m → loopWhile m c f s = loopWhile n c f s := by
  intro n
  induction n with
  | zero =>
    intro s hP m _
    rw [loopWhile_of_false m c f s (h0 s hP)]; rfl
  | succ n ih =>
    intro s hP m hm
    obtain ⟨m', rfl⟩ : ∃ m', m = m' + 1 := ⟨m - 1, by omega⟩
    rw [loopWhile_succ, loopWhile_succ]
    cases hc : c s with
    | false => rfl
    | true =>
      simp only [if_true]
      exact ih (f s) (hs n s hP hc) m' (by omega)

end Lattigo.Proofs.LoopWhile
