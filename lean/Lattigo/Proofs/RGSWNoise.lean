/-
  C20 — ingredients of the CLOSED noise bound of the external product (`Props/C20.extprod_noise_closed`):
  the signed coefficient lists behind `RGSW.digitsOf` (`digitsZ`, `digitsOf_eq_ofInts`), their lengths and
  magnitudes (`digitBoundsR`, `digitsZ_bounded`), and that the `P` rows of the gadget vector vanish.
-/
import Lattigo.Props.C20Stack
import Lattigo.Props.C20Noise
import Lattigo.Props.C04Stack
import Lattigo.Proofs.StackKSNoise
import Lattigo.Proofs.RGSWShape

set_option linter.unusedSectionVars false
set_option linter.unusedSimpArgs false
set_option linter.unusedVariables false

namespace Lattigo.RGSWNoise
open Lattigo Lattigo.RGSW Lattigo.RPolyRing Lattigo.Transport Lattigo.Props.C20Ring Lattigo.StackKS Lattigo.ZPoly
open Lattigo.Scaling (prodN)

/-! ## the integer digits -/

/-- signed coefficients of digit `(i, j)` of `RGSW.digitsOf` (`StackKS.dgt`) -/
def dgtZ (p : Par) (c : RPoly) (i j : ℕ) : List ℤ :=
  if p.nP ≤ 1 then (maskDigit p.w j (c.c.getD i [])).map fun x => ((x : ℕ) : ℤ)
  else (RPoly.transpose ((p.group i).map fun k => c.c.getD k [])).map
    fun col => centredDigit ((p.group i).map fun k => p.qsQ.getD k 1) col

theorem natsToPoly_eq_ofInts (L : List ℕ) (v : List ℕ) :
    natsToPoly L v = RPoly.ofInts L (v.map fun x => ((x : ℕ) : ℤ)) := by
  unfold natsToPoly RPoly.ofInts
  congr 1
  apply List.map_congr_left
  intro q _
  rw [List.map_map]
  apply List.map_congr_left
  intro x _
  simp only [Function.comp]
  rw [← Int.natCast_mod, Int.toNat_natCast]

theorem dgt_eq_ofInts (p : Par) (c : RPoly) (i j : ℕ) : dgt p c i j = RPoly.ofInts p.qsQP (dgtZ p c i j) := by
  unfold dgt dgtZ
  split
  · exact natsToPoly_eq_ofInts _ _
  · rfl

/-- the flat list of integer digits, in the order of `RGSW.digitsOf` -/
def digitsZ (p : Par) (c : RPoly) : List (List ℤ) :=
  ((List.range p.rnsSize).map fun i => (List.range (p.rowLen i)).map fun j => dgtZ p c i j).flatten

theorem digitsOf_eq_ofInts (p : Par) (c : RPoly) :
    digitsOf p c = (digitsZ p c).map (RPoly.ofInts p.qsQP) := by
  rw [digitsOf_eq, digitsZ, List.map_flatten, List.map_map]
  congr 1
  apply List.map_congr_left
  intro i _
  simp only [Function.comp, List.map_map]
  apply List.map_congr_left
  intro j _
  exact dgt_eq_ofInts p c i j

/-- the magnitude allotted to digit `(i, j)`: `2^w − 1` (base two), `q_i − 1` (`w = 0`, the whole coefficient),
    `⌊Q_i/2⌋ + 1` (centred digit of the group `Q_i`) -/
def dgtBound (p : Par) (i : ℕ) : ℕ :=
  if p.nP ≤ 1 then (if p.w = 0 then p.qsQ.getD i 1 - 1 else 2 ^ p.w - 1)
  else RPoly.prod ((p.group i).map fun k => p.qsQ.getD k 1) / 2 + 1

def digitBoundsR (p : Par) : List ℕ :=
  ((List.range p.rnsSize).map fun i => (List.range (p.rowLen i)).map fun _ => dgtBound p i).flatten

theorem forall₂_flatten_map {ι β γ : Type} {R : β → γ → Prop} (f : ι → List β) (g : ι → List γ) :
    ∀ l : List ι, (∀ i ∈ l, List.Forall₂ R (f i) (g i)) →
      List.Forall₂ R (l.map f).flatten (l.map g).flatten
  | [], _ => by simp
  | a :: l, h => by
      simp only [List.map_cons, List.flatten_cons]
      exact List.rel_append (h a (by simp)) (forall₂_flatten_map f g l (fun i hi => h i (by simp [hi])))

theorem forall₂_map_same {ι β γ : Type} {R : β → γ → Prop} (f : ι → β) (g : ι → γ) :
    ∀ l : List ι, (∀ i ∈ l, R (f i) (g i)) → List.Forall₂ R (l.map f) (l.map g)
  | [], _ => by simp
  | a :: l, h => by
      simp only [List.map_cons]
      exact List.Forall₂.cons (h a (by simp)) (forall₂_map_same f g l (fun i hi => h i (by simp [hi])))

/-- `|centredDigit| ≤ ⌊Π ms / 2⌋ + 1` -/
theorem centredDigit_natAbs_le (ms col : List ℕ) (hpos : 0 < RPoly.prod ms)
    (hsingle : List.Forall₂ (fun q x => x < q) ms col) :
    (centredDigit ms col).natAbs ≤ RPoly.prod ms / 2 + 1 := by
  unfold centredDigit
  split
  · rename_i q x
    have hx : x < q := by
      cases hsingle with
      | cons h _ => exact h
    have hp : RPoly.prod [q] = q := by simp [RPoly.prod]
    rw [hp]
    split <;> omega
  · have hlt := Nat.mod_lt (RPoly.crt ms col + RPoly.prod ms / 2) hpos
    dsimp only
    generalize (RPoly.crt ms col + RPoly.prod ms / 2) % RPoly.prod ms = r at *
    omega

theorem ofInts_len_of_wf {L : List ℕ} {n : ℕ} (v : List ℤ) (hL : L ≠ []) (h : WFq L n (RPoly.ofInts L v)) :
    v.length = n := by
  obtain ⟨q, L', rfl⟩ := List.exists_cons_of_ne_nil hL
  have hw := h.2.2 0 (by rw [h.1]; simp)
  have : ((RPoly.ofInts (q :: L') v).c[0]'(by simp [RPoly.ofInts])).length = v.length := by
    simp [RPoly.ofInts]
  rw [← this]
  exact hw.len

section bounds
variable {qs ps : List ℕ} {n : ℕ} [hgq : Good qs n] [hg : Good (qs ++ ps) n]

theorem dgtZ_length (hqs : qs ≠ []) (w : ℕ) {c : RPoly} (hc : WFq qs n c) (i j : ℕ)
    (hi : i < (⟨qs, ps, n, w⟩ : Par).rnsSize) : (dgtZ ⟨qs, ps, n, w⟩ c i j).length = n := by
  have h := dgt_wf (ps := ps) hqs w hc i j hi
  rw [dgt_eq_ofInts] at h
  exact ofInts_len_of_wf _ (by intro e; exact hqs (List.append_eq_nil_iff.mp e).1) h

theorem prod_pos_of (ms : List ℕ) (h : ∀ m ∈ ms, 0 < m) : 0 < RPoly.prod ms := by
  rw [prod_eq_prodN]; exact BasisExt.prodN_pos ms h

theorem dgtZ_bound (hqs : qs ≠ []) (w : ℕ) {c : RPoly} (hc : WFq qs n c) (i j : ℕ)
    (hi : i < (⟨qs, ps, n, w⟩ : Par).rnsSize) :
    normInf (dgtZ ⟨qs, ps, n, w⟩ c i j) ≤ dgtBound ⟨qs, ps, n, w⟩ i := by
  set p : Par := ⟨qs, ps, n, w⟩ with hp
  unfold dgtZ dgtBound
  by_cases h : p.nP ≤ 1
  · rw [if_pos h, if_pos h]
    have hiq : i < qs.length := by
      have hi' : i < (if ps.length = 0 then qs.length else (qs.length - 1 + ps.length) / ps.length) := hi
      have h' : ps.length ≤ 1 := h
      by_cases h0 : ps.length = 0
      · rw [if_pos h0] at hi'; exact hi'
      · rw [if_neg h0, (by omega : ps.length = 1), Nat.div_one] at hi'
        have := List.length_pos_of_ne_nil hqs; omega
    apply normInf_map_le
    intro x hx
    rw [Int.natAbs_natCast]
    unfold maskDigit at hx
    by_cases hw0 : p.w = 0
    · rw [if_pos hw0] at hx
      rw [if_pos hw0]
      have := row_lt hc i hiq x hx
      rw [hc.1] at this
      show x ≤ qs.getD i 1 - 1
      omega
    · rw [if_neg hw0] at hx
      rw [if_neg hw0]
      simp only [List.mem_map] at hx
      obtain ⟨y, _, rfl⟩ := hx
      have : y / 2 ^ (j * p.w) % 2 ^ p.w < 2 ^ p.w := Nat.mod_lt _ (Nat.pow_pos (by norm_num))
      omega
  · rw [if_neg h, if_neg h]
    apply normInf_map_le
    intro col hcol
    rw [transpose_eq] at hcol
    simp only [List.mem_map, List.mem_range] at hcol
    obtain ⟨t, ht, rfl⟩ := hcol
    have hmem : ∀ k ∈ p.group i, k < qs.length := fun k hk => ((p.mem_group_iff i k).mp hk).1
    -- the number of coefficients
    have htn : ∀ k ∈ p.group i, (c.c.getD k []).length = n := fun k hk =>
      (hc.2.2 k (by rw [hc.1]; exact hmem k hk)).len
    apply centredDigit_natAbs_le
    · apply prod_pos_of
      intro m hm
      simp only [List.mem_map] at hm
      obtain ⟨k, hk, rfl⟩ := hm
      have hk' := hmem k hk
      have : qs.getD k 1 = qs[k] := by simp [List.getD_eq_getElem?_getD, hk']
      show 0 < qs.getD k 1
      rw [this]
      have := hgq.q_ge _ (List.getElem_mem hk'); omega
    · unfold KS.colOf
      rw [List.map_map]
      apply forall₂_map_same
      intro k hk
      have hk' := hmem k hk
      simp only [Function.comp]
      by_cases htk : t < n
      · have := (wf_entry_lt hc k hk' t htk).2
        have e : qs.getD k 0 = qs.getD k 1 := by simp [List.getD_eq_getElem?_getD, hk']
        show (c.c.getD k []).getD t 0 < qs.getD k 1
        rw [← e]; exact this
      · have : (c.c.getD k []).getD t 0 = 0 := by
          rw [List.getD_eq_getElem?_getD, List.getElem?_eq_none (by rw [htn k hk]; omega)]; rfl
        show (c.c.getD k []).getD t 0 < qs.getD k 1
        rw [this]
        have e : qs.getD k 1 = qs[k] := by simp [List.getD_eq_getElem?_getD, hk']
        rw [e]
        have := hgq.q_ge _ (List.getElem_mem hk'); omega

/-- **the digits `RGSW.digitsOf` produces respect `digitBoundsR`**, unconditionally -/
theorem digitsZ_bounded (hqs : qs ≠ []) (w : ℕ) {c : RPoly} (hc : WFq qs n c) :
    Lattigo.Props.C20.RowBounded n (digitsZ ⟨qs, ps, n, w⟩ c) (digitBoundsR ⟨qs, ps, n, w⟩)
      ∧ ∀ d ∈ digitsZ ⟨qs, ps, n, w⟩ c, d.length = n := by
  constructor
  · unfold digitsZ digitBoundsR Lattigo.Props.C20.RowBounded
    apply forall₂_flatten_map
    intro i hi
    apply forall₂_map_same
    intro j _
    have hi' := List.mem_range.mp hi
    exact ⟨Nat.le_of_eq (dgtZ_length hqs w hc i j hi'), dgtZ_bound hqs w hc i j hi'⟩
  · intro d hd
    simp only [digitsZ, List.mem_flatten, List.mem_map, List.mem_range] at hd
    obtain ⟨l, ⟨i, hi, rfl⟩, hd⟩ := hd
    simp only [List.mem_map, List.mem_range] at hd
    obtain ⟨j, _, rfl⟩ := hd
    exact dgtZ_length hqs w hc i j hi

end bounds

/-! ## the `P` rows -/

section prow
variable {qs ps : List ℕ} {n : ℕ} [hgq : Good qs n] [hg : Good (qs ++ ps) n]

/-- the gadget vector has no component on the `P` rows -/
theorem partP_pgElt (w i j : ℕ) : KS.partP qs.length (pgElt ⟨qs, ps, n, w⟩ i j) = RPoly.zero ps n := by
  have hn : 1 ≤ n := hg.n_pos
  unfold pgElt constPoly KS.partP RPoly.zero
  simp only [Par.qsQP]
  congr 1
  · simp
  · rw [List.zip_append (by simp), List.map_append, List.drop_left' (by simp)]
    rw [List.zip_map_right, List.map_map]
    have : ∀ l : List ℕ, (l.zip l).map ((fun x : ℕ × ℕ => (x.2 % x.1) :: List.replicate (n - 1) 0) ∘ Prod.map id fun _ => 0)
        = l.map fun _ => List.replicate n 0 := by
      intro l
      induction l with
      | nil => rfl
      | cons a l ih =>
        simp only [List.zip_cons_cons, List.map_cons, ih, Function.comp, Prod.map_apply, id, Nat.zero_mod]
        congr 1
        rw [← List.replicate_succ, Nat.sub_add_cancel hn]
    exact this ps

theorem wsumZ_partP (k : ℕ) : ∀ (ds xs : List RPoly) (z : RPoly),
    KS.partP k (wsumZ z ds xs) = wsumZ (KS.partP k z) (ds.map (KS.partP k)) (xs.map (KS.partP k))
  | [], xs, z => by cases xs <;> rfl
  | _ :: _, [], z => rfl
  | d :: ds, x :: xs, z => by
      simp only [wsumZ, List.map_cons]
      rw [(partP_hom k).add, (partP_hom k).mul, wsumZ_partP k ds xs z]

theorem wsumZ_zero_right [Good ps n] : ∀ (ds xs : List RPoly), (∀ d ∈ ds, WFq ps n d) →
    (∀ x ∈ xs, x = RPoly.zero ps n) → wsumZ (RPoly.zero ps n) ds xs = RPoly.zero ps n
  | [], xs, _, _ => by cases xs <;> rfl
  | _ :: _, [], _, _ => rfl
  | d :: ds, x :: xs, hd, hx => by
      simp only [wsumZ]
      rw [wsumZ_zero_right ds xs (fun d' h => hd d' (by simp [h])) (fun x' h => hx x' (by simp [h])),
        hx x (by simp)]
      obtain ⟨d', rfl⟩ := exists_lift d (hd d (by simp))
      show val (d' * 0 + 0) = val (0 : WFPoly ps n)
      congr 1
      ring

theorem partP_zero' : KS.partP qs.length (RPoly.zero (qs ++ ps) n) = RPoly.zero ps n := by
  unfold KS.partP RPoly.zero
  simp [List.drop_left']

theorem wsumZ_eq_wsumRow (z : RPoly) : ∀ (ds xs : List RPoly), wsumZ z ds xs = KS.wsumRow z ds xs
  | [], xs => by cases xs <;> rfl
  | _ :: _, [] => rfl
  | d :: ds, x :: xs => by simp only [wsumZ, KS.wsumRow, wsumZ_eq_wsumRow z ds xs]

theorem wsumZ_wf : ∀ (ds xs : List RPoly), WFlist (qs ++ ps) n ds → WFlist (qs ++ ps) n xs →
    WFq (qs ++ ps) n (wsumZ (RPoly.zero (qs ++ ps) n) ds xs) := by
  intro ds xs hd hx
  obtain ⟨ds, rfl⟩ := exists_lift_list ds hd
  obtain ⟨xs, rfl⟩ := exists_lift_list xs hx
  have := val_wsum ds xs
  rw [← this]
  exact val_wf _

/-- ring algebra behind the vanishing of the `P` rows -/
theorem residual_rgsw {u1 u2 s g A B E : RPoly} (hu1 : WFq (qs ++ ps) n u1) (hu2 : WFq (qs ++ ps) n u2)
    (hs : WFq (qs ++ ps) n s) (hg' : WFq (qs ++ ps) n g) (hA : WFq (qs ++ ps) n A) (hB : WFq (qs ++ ps) n B)
    (hE : WFq (qs ++ ps) n E) (h : u1 + u2 * s = g * (A + B * s) + E) :
    (E - u1) - s * u2 = -(g * (A + B * s)) := by
  obtain ⟨u1, rfl⟩ := exists_lift u1 hu1
  obtain ⟨u2, rfl⟩ := exists_lift u2 hu2
  obtain ⟨s, rfl⟩ := exists_lift s hs
  obtain ⟨g, rfl⟩ := exists_lift g hg'
  obtain ⟨A, rfl⟩ := exists_lift A hA
  obtain ⟨B, rfl⟩ := exists_lift B hB
  obtain ⟨E, rfl⟩ := exists_lift E hE
  have h' : u1 + u2 * s = g * (A + B * s) + E := val_injective h
  show val ((E - u1) - s * u2) = val (-(g * (A + B * s)))
  congr 1
  have : u1 = g * (A + B * s) + E - u2 * s := by rw [← h']; ring
  rw [this]; ring

theorem neg_mul_zero_rows [Good ps n] {g s : RPoly} (hg' : WFq ps n g) (hs : WFq ps n s) :
    -(g * (RPoly.zero ps n + RPoly.zero ps n * s)) = RPoly.zero ps n := by
  obtain ⟨g, rfl⟩ := exists_lift g hg'
  obtain ⟨s, rfl⟩ := exists_lift s hs
  show val (-(g * (0 + 0 * s))) = val (0 : WFPoly ps n)
  congr 1
  ring

/-- **extprod_noise_closed.**  `RGSW.extProdR p (c0, c1) (encryptR p s g smp0 smp1)` (what the driver's `extprod` handler
evaluates) with an auxiliary modulus, the secret and the errors of the RGSW rows given by signed coefficient lists
(`s = ofInts s^Z`, `‖s^Z‖₁ ≤ h`; `e_k = ofInts e^Z_k`, `‖e^Z_k‖∞ ≤ B`): the noise added by the external product is the
reduction of an INTEGER polynomial `ν^Z` with

      `2·P·‖ν^Z‖∞ ≤ 2·n·B·(ΣD + ΣD) + P·(1 + h)`,     `D = digitBoundsR p` (`2^w − 1`, `q_i − 1`, `⌊Q_i/2⌋ + 1`).

`Props/C20Noise.extprod_noise_bound` with ALL its hypotheses discharged: the exact division by `P` (`hrel`) is derived
from `C20Stack.extprod_phase_full`, `C20Ring.extprod_phase_rpoly`, the vanishing of the gadget vector on the `P` rows and
`ofInts : Z[X]/(X^n+1) → R_q`; the digit bounds from `digitsZ_bounded`; the rounding bounds from the exact centred
remainder.  No IEEE hypothesis (the model's `modDown` and `digitsGroup` reconstruct with `RPoly.crt`). -/
theorem extprod_noise_closed (hqs : qs ≠ []) (hps : ps ≠ []) (hco : (qs ++ ps).Pairwise Nat.Coprime)
    (hPodd : prodN ps % 2 = 1) (w : ℕ) (sZ : List ℤ) (g : RPoly) (smp0 smp1 : List (RPoly × RPoly))
    (eZ0 eZ1 : List (List ℤ)) (c0 c1 : RPoly) (B h : ℕ)
    (hsZ : sZ.length = n) (hgw : WFq (qs ++ ps) n g)
    (hw0 : WFplist (qs ++ ps) n smp0) (hw1 : WFplist (qs ++ ps) n smp1)
    (hc0w : WFq qs n c0) (hc1w : WFq qs n c1)
    (h0 : (pgList ⟨qs, ps, n, w⟩).length = smp0.length) (h1 : (pgList ⟨qs, ps, n, w⟩).length = smp1.length)
    (he0 : smp0.map Prod.snd = eZ0.map (RPoly.ofInts (qs ++ ps)))
    (he1 : smp1.map Prod.snd = eZ1.map (RPoly.ofInts (qs ++ ps)))
    (hel0 : ∀ e ∈ eZ0, e.length = n) (hel1 : ∀ e ∈ eZ1, e.length = n)
    (heB0 : ∀ e ∈ eZ0, normInf e ≤ B) (heB1 : ∀ e ∈ eZ1, normInf e ≤ B) (hsn : norm1 sZ ≤ h) :
    let p : Par := ⟨qs, ps, n, w⟩
    let s := RPoly.ofInts (qs ++ ps) sZ
    ∃ νZ : List ℤ, νZ.length = n
      ∧ phase (extProdR p (c0, c1) (encryptR p s g smp0 smp1)) (takeRows qs.length s)
          = takeRows qs.length g * phase (c0, c1) (takeRows qs.length s) + RPoly.ofInts qs νZ
      ∧ 2 * (prodN ps * normInf νZ)
          ≤ 2 * (n * B * ((digitBoundsR p).sum + (digitBoundsR p).sum)) + prodN ps * (1 + h) := by
  intro p s
  have hs : WFq (qs ++ ps) n s := ofInts_wf _ hsZ
  obtain ⟨hphase, hp0, hp1, hb0, hb1⟩ :=
    Lattigo.Props.C20Stack.extprod_phase_full hqs hps hco hPodd w s g smp0 smp1 c0 c1 hs hgw hw0 hw1 hc0w hc1w h0 h1
  -- bookkeeping
  have hcop := coprime_prod_of_pairwise hco
  have hpsc := pairwise_right hco
  have hpge : ∀ p' ∈ ps, 2 ≤ p' := (good_right hg).q_ge
  have hgp : Good ps n := good_right hg
  set z := RPoly.zero (qs ++ ps) n with hz
  have hpgs : WFlist (qs ++ ps) n (pgList p) := by
    intro x hx
    simp only [pgList, List.mem_map] at hx
    obtain ⟨⟨i, j⟩, _, rfl⟩ := hx
    exact pgElt_wf' w i j
  -- the integer digits
  obtain ⟨hdb0, hdl0⟩ := digitsZ_bounded (ps := ps) hqs w hc0w
  obtain ⟨hdb1, hdl1⟩ := digitsZ_bounded (ps := ps) hqs w hc1w
  set dZ0 := digitsZ p c0 with hdZ0
  set dZ1 := digitsZ p c1 with hdZ1
  have hd0eq : digitsOf p c0 = dZ0.map (RPoly.ofInts (qs ++ ps)) := digitsOf_eq_ofInts p c0
  have hd1eq : digitsOf p c1 = dZ1.map (RPoly.ofInts (qs ++ ps)) := digitsOf_eq_ofInts p c1
  have hd0 : WFlist (qs ++ ps) n (digitsOf p c0) := by
    intro x hx; rw [hd0eq] at hx
    obtain ⟨v, hv, rfl⟩ := List.mem_map.mp hx
    exact ofInts_wf _ (hdl0 v hv)
  have hd1 : WFlist (qs ++ ps) n (digitsOf p c1) := by
    intro x hx; rw [hd1eq] at hx
    obtain ⟨v, hv, rfl⟩ := List.mem_map.mp hx
    exact ofInts_wf _ (hdl1 v hv)
  -- the error sums
  obtain ⟨hE0, hE0l⟩ := wsumRow_ofInts (qs := qs ++ ps) (n := n) dZ0 eZ0 hdl0 hel0
  obtain ⟨hE1, hE1l⟩ := wsumRow_ofInts (qs := qs ++ ps) (n := n) dZ1 eZ1 hdl1 hel1
  set E0Z := dotZ n dZ0 eZ0 with hE0Z
  set E1Z := dotZ n dZ1 eZ1 with hE1Z
  set EZ := ZPoly.add E0Z E1Z with hEZ
  have hEZl : EZ.length = n := add_length _ _ hE0l hE1l
  set u := extProdLazy z (digitsOf p c0) (digitsOf p c1) (encryptR p s g smp0 smp1) with hu
  set E := wsumZ z (digitsOf p c0) (smp0.map Prod.snd) + wsumZ z (digitsOf p c1) (smp1.map Prod.snd) with hEdef
  have hE : E = RPoly.ofInts (qs ++ ps) EZ := by
    rw [hEdef, hEZ, ofInts_add _ _ hE0l hE1l, ← hE0, ← hE1, wsumZ_eq_wsumRow, wsumZ_eq_wsumRow, hd0eq, hd1eq, he0, he1]
  have hEw : WFq (qs ++ ps) n E := by rw [hE]; exact ofInts_wf _ hEZl
  obtain ⟨hu1, hu2⟩ := Lattigo.Props.C20Stack.extProdLazy_wf s g (pgList p) smp0 smp1 (digitsOf p c0) (digitsOf p c1)
    hs hgw hpgs hw0 hw1 hd0 hd1
  have hu1' : WFq (qs ++ ps) n u.1 := hu1
  have hu2' : WFq (qs ++ ps) n u.2 := hu2
  -- the remainders
  set ρ0 := cenZ (KS.partP qs.length u.1) with hρ0
  set ρ1 := cenZ (KS.partP qs.length u.2) with hρ1
  have hρ0l : ρ0.length = n := cenZ_length (partP_wf hu1') hps
  have hρ1l : ρ1.length = n := cenZ_length (partP_wf hu2') hps
  have hr0 : remC qs ps u.1 = RPoly.ofInts (qs ++ ps) ρ0 := rfl
  have hr1 : remC qs ps u.2 = RPoly.ofInts (qs ++ ps) ρ1 := rfl
  set W := ZPoly.sub (ZPoly.sub EZ ρ0) (ZPoly.mul sZ ρ1) with hW
  have hWl : W.length = n := sub_length _ _ (sub_length _ _ hEZl hρ0l) (by rw [mul_length, hsZ])
  have hWQP : RPoly.ofInts (qs ++ ps) W = (E - remC qs ps u.1) - s * remC qs ps u.2 := by
    rw [hW, ofInts_sub _ _ (sub_length _ _ hEZl hρ0l) (by rw [mul_length, hsZ]), ofInts_sub _ _ hEZl hρ0l,
      ofInts_mul _ _ hsZ hρ1l, ← hE, hr0, hr1]
  -- the `P` rows vanish
  have hQP := extprod_phase_rpoly (qs := qs ++ ps) (n := n) s g (pgList p) smp0 smp1 (digitsOf p c0) (digitsOf p c1)
    _ _ hs hgw hpgs hw0 hw1 hd0 hd1 h0 h1 rfl rfl
  have hA : WFq (qs ++ ps) n (wsumZ z (digitsOf p c0) (pgList p)) := wsumZ_wf _ _ hd0 hpgs
  have hB : WFq (qs ++ ps) n (wsumZ z (digitsOf p c1) (pgList p)) := wsumZ_wf _ _ hd1 hpgs
  have hres := residual_rgsw hu1' hu2' hs hgw hA hB hEw hQP
  have hpgz : ∀ x ∈ (pgList p).map (KS.partP qs.length), x = RPoly.zero ps n := by
    intro x hx
    simp only [pgList, List.map_map, List.mem_map] at hx
    obtain ⟨⟨i, j⟩, _, rfl⟩ := hx
    exact partP_pgElt w i j
  have hPz : KS.partP qs.length z = RPoly.zero ps n := partP_zero'
  have hpA : KS.partP qs.length (wsumZ z (digitsOf p c0) (pgList p)) = RPoly.zero ps n := by
    rw [wsumZ_partP, hPz]
    exact wsumZ_zero_right _ _ (fun d hd => by
      obtain ⟨x, hx, rfl⟩ := List.mem_map.mp hd; exact partP_wf (hd0 x hx)) hpgz
  have hpB : KS.partP qs.length (wsumZ z (digitsOf p c1) (pgList p)) = RPoly.zero ps n := by
    rw [wsumZ_partP, hPz]
    exact wsumZ_zero_right _ _ (fun d hd => by
      obtain ⟨x, hx, rfl⟩ := List.mem_map.mp hd; exact partP_wf (hd1 x hx)) hpgz
  have hPW : RPoly.ofInts ps W = RPoly.zero ps n := by
    have h1' : KS.partP qs.length (RPoly.ofInts (qs ++ ps) W) = RPoly.ofInts ps W := partP_ofInts _ _ _
    have hh := partP_hom qs.length
    rw [← h1', hWQP, hh.sub, hh.sub, hh.mul, hp0, hp1, ← hh.mul, ← hh.sub, ← hh.sub, hres, hh.neg, hh.mul, hh.add,
      hh.mul, hpA, hpB]
    exact neg_mul_zero_rows (partP_wf hgw) (partP_wf hs)
  have hdvd : ∀ x ∈ W, ((prodN ps : ℕ) : ℤ) ∣ x := fun x hx =>
    prodN_dvd_int ps hpsc x (fun p' hp' => ofInts_eq_zero_dvd hpge W hPW p' hp' x hx)
  refine ⟨W.map (· / ((prodN ps : ℕ) : ℤ)), by rw [List.length_map, hWl], ?_, ?_⟩
  · have hsm' := smul_div (prodN ps) W hdvd
    set νZ := W.map (· / ((prodN ps : ℕ) : ℤ)) with hνZ
    have hνl : νZ.length = n := by rw [hνZ, List.length_map, hWl]
    have hY : takeRows qs.length E
          - (takeRows qs.length (remC qs ps u.1) + takeRows qs.length (remC qs ps u.2) * takeRows qs.length s)
        = constQ qs n (RPoly.prod ps) * RPoly.ofInts qs νZ := by
      have ht := takeRows_hom qs.length
      rw [Lattigo.KS.C04Stack.sub_add_mul_comm (takeRows_wf hEw) (takeRows_wf (remC_wf hu1' hps))
        (takeRows_wf (remC_wf hu2' hps)) (takeRows_wf hs), ← ht.mul, ← ht.sub, ← ht.sub, ← hWQP, takeRows_ofInts,
        ← hsm', ofInts_smul _ _ hνl, prod_eq_prodN]
    rw [hphase]
    congr 1
    rw [hY]
    have hP := Lattigo.Props.C20Stack.pinv_mul_P (qs := qs) (n := n) hcop
    exact Lattigo.KS.C04Stack.pinv_cancel (constQ_wf _) (pinvElt_wf ps) (ofInts_wf _ hνl) hP
  · have hrel : ZPoly.smul ((prodN ps : ℕ) : ℤ) (W.map (· / ((prodN ps : ℕ) : ℤ)))
        = ZPoly.sub (ZPoly.sub (ZPoly.add (dotZ n dZ0 eZ0) (dotZ n dZ1 eZ1)) ρ0) (ZPoly.mul sZ ρ1) :=
      smul_div _ W hdvd
    have hh0 : 2 * normInf ρ0 ≤ prodN ps := two_normInf_le_of hb0
    have hh1 : 2 * normInf ρ1 ≤ prodN ps := two_normInf_le_of hb1
    exact Lattigo.Props.C20.extprod_noise_bound n (prodN ps) B h dZ0 dZ1 eZ0 eZ1 _ _ _ ρ0 ρ1 sZ hdb0 hdb1 heB0 heB1
      hrel hh0 hh1 hsn

end prow

end Lattigo.RGSWNoise
