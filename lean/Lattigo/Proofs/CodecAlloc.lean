/-
  C08 — allocation requests of the Go decoders (`allocs` of `Model/Codec.lean`), for the code
  with the fixes C08-C/K/P applied and the unread bytes known (`UnmarshalBinary`).
    * `allocs_bounded`: on EVERY input, every request is at most `max bs.length blockMax`;
    * `allocs_honest` : on the encoding of a well-typed value the requests are exactly the
      element counts present in the value (the check never rejects an honest input).
-/
import Lattigo.Proofs.Codec

namespace Lattigo.Codec

/-! ### the decoder only moves forward -/

theorem readFlat_suffix {n : Nat} {bs xs r : List Nat} (h : readFlat n bs = some (xs, r)) :
    r.length ≤ bs.length := by
  unfold readFlat at h
  split at h
  · simp only [Option.some.injEq, Prod.mk.injEq] at h
    rw [← h.2]; simp
  · simp at h

theorem decN_suffix (d : List Nat → Option (Val × List Nat))
    (hd : ∀ s v r, d s = some (v, r) → r.length ≤ s.length) :
    ∀ n s vs r, decN d n s = some (vs, r) → r.length ≤ s.length := by
  intro n
  induction n with
  | zero => intro s vs r h; simp [decN] at h; rw [← h.2]; exact Nat.le_refl _
  | succ n ih =>
    intro s vs r h
    simp only [decN] at h
    cases hs : d s with
    | none => simp [hs] at h
    | some p =>
      obtain ⟨v, s'⟩ := p
      simp only [hs] at h
      cases hs' : decN d n s' with
      | none => simp [hs'] at h
      | some q =>
        obtain ⟨vs', s''⟩ := q
        simp only [hs', Option.some.injEq, Prod.mk.injEq] at h
        have h1 := hd s v s' hs
        have h2 := ih s' vs' s'' hs'
        rw [← h.2]; omega

theorem dec_suffix (f : Fmt) : ∀ bs v r, dec f bs = some (v, r) → r.length ≤ bs.length := by
  unfold dec
  induction f with
  | unit => intro bs v r h; simp [decG] at h; rw [← h.2]; exact Nat.le_refl _
  | uint w =>
    intro bs v r h
    simp only [decG] at h
    cases hr : readFlat w bs with
    | none => simp [hr] at h
    | some p => obtain ⟨xs, s'⟩ := p; simp [hr] at h; rw [← h.2]; exact readFlat_suffix hr
  | raw n =>
    intro bs v r h
    simp only [decG] at h
    cases hr : readFlat n bs with
    | none => simp [hr] at h
    | some p => obtain ⟨xs, s'⟩ := p; simp [hr] at h; rw [← h.2]; exact readFlat_suffix hr
  | hex2 m =>
    intro bs v r h
    simp only [decG] at h
    cases hr : readFlat 2 bs with
    | none => simp [hr] at h
    | some p =>
      obtain ⟨xs, s'⟩ := p
      have hs := readFlat_suffix hr
      simp only [hr] at h
      split at h
      · rename_i a b s1 heq
        simp only [Option.some.injEq, Prod.mk.injEq] at heq
        split at h
        · simp only [Option.some.injEq, Prod.mk.injEq] at h; rw [← h.2, ← heq.2]; exact hs
        · simp at h
      · simp at h
  | shex2 =>
    intro bs v r h
    simp only [decG] at h
    cases hr : readFlat 2 bs with
    | none => simp [hr] at h
    | some p =>
      obtain ⟨xs, s'⟩ := p
      have hs := readFlat_suffix hr
      simp only [hr] at h
      split at h
      · rename_i a b s1 heq
        simp only [Option.some.injEq, Prod.mk.injEq] at heq
        split at h
        · simp only [Option.some.injEq, Prod.mk.injEq] at h; rw [← h.2, ← heq.2]; exact hs
        · simp at h
      · simp at h
  | framed pre f post ih =>
    intro bs v r h
    simp only [decG] at h
    cases hr : readFlat pre.length bs with
    | none => simp [hr] at h
    | some p =>
      obtain ⟨xs, s1⟩ := p
      have h1 := readFlat_suffix hr
      simp only [hr] at h
      split at h
      · cases hf : decG readFlat f s1 with
        | none => simp [hf] at h
        | some q =>
          obtain ⟨v', s2⟩ := q
          have h2 := ih s1 v' s2 hf
          simp only [hf] at h
          cases hr2 : readFlat post.length s2 with
          | none => simp [hr2] at h
          | some q2 =>
            obtain ⟨cs, s3⟩ := q2
            have h3 := readFlat_suffix hr2
            simp only [hr2] at h
            split at h
            · simp only [Option.some.injEq, Prod.mk.injEq] at h; rw [← h.2]; omega
            · simp at h
      · simp at h
  | pair a b iha ihb =>
    intro bs v r h
    simp only [decG] at h
    cases ha : decG readFlat a bs with
    | none => simp [ha] at h
    | some p =>
      obtain ⟨x, s1⟩ := p
      have h1 := iha bs x s1 ha
      simp only [ha] at h
      cases hb : decG readFlat b s1 with
      | none => simp [hb] at h
      | some q =>
        obtain ⟨y, s2⟩ := q
        have h2 := ihb s1 y s2 hb
        simp only [hb, Option.some.injEq, Prod.mk.injEq] at h
        rw [← h.2]; omega
  | vec k w f ih =>
    intro bs v r h
    simp only [decG] at h
    cases hr : readFlat w bs with
    | none => simp [hr] at h
    | some p =>
      obtain ⟨xs, s1⟩ := p
      have h1 := readFlat_suffix hr
      simp only [hr] at h
      split at h
      · simp at h
      · cases hn : decN (decG readFlat f) (leVal xs) s1 with
        | none => simp [hn] at h
        | some q =>
          obtain ⟨vs, s2⟩ := q
          have h2 := decN_suffix (decG readFlat f) ih _ _ _ _ hn
          simp only [hn, Option.some.injEq, Prod.mk.injEq] at h
          rw [← h.2]; omega
  | opt kp ru f ih =>
    intro bs v r h
    simp only [decG] at h
    cases hr : readFlat 1 bs with
    | none => simp [hr] at h
    | some p =>
      obtain ⟨xs, s1⟩ := p
      have h1 := readFlat_suffix hr
      simp only [hr] at h
      split at h
      · rename_i b s1' heq
        simp only [Option.some.injEq, Prod.mk.injEq] at heq
        obtain ⟨_, hs1⟩ := heq
        subst hs1
        split at h
        · cases hf : decG readFlat f s1 with
          | none => simp [hf] at h
          | some q =>
            obtain ⟨v', s2⟩ := q
            have h2 := ih s1 v' s2 hf
            simp only [hf, Option.some.injEq, Prod.mk.injEq] at h
            rw [← h.2]; omega
        · split at h
          · simp only [Option.some.injEq, Prod.mk.injEq] at h; rw [← h.2]; exact h1
          · simp at h
      · simp at h
  | tailIf kp a p b iha ihb =>
    intro bs v r h
    simp only [decG] at h
    cases ha : decG readFlat a bs with
    | none => simp [ha] at h
    | some q =>
      obtain ⟨x, s1⟩ := q
      have h1 := iha bs x s1 ha
      simp only [ha] at h
      split at h
      · cases hb : decG readFlat b s1 with
        | none => simp [hb] at h
        | some q2 =>
          obtain ⟨y, s2⟩ := q2
          have h2 := ihb s1 y s2 hb
          simp only [hb, Option.some.injEq, Prod.mk.injEq] at h
          rw [← h.2]; omega
      · simp only [Option.some.injEq, Prod.mk.injEq] at h; rw [← h.2]; exact h1

/-! ### every request is bounded by the input -/

theorem allocsN_bounded (d : List Nat → Option (Val × List Nat)) (al : List Nat → List Nat)
    (hd : ∀ s v r, d s = some (v, r) → r.length ≤ s.length)
    (hal : ∀ s, ∀ a ∈ al s, a ≤ max s.length blockMax) :
    ∀ n s, ∀ a ∈ allocsN d al n s, a ≤ max s.length blockMax := by
  intro n
  induction n with
  | zero => intro s a ha; simp [allocsN] at ha
  | succ n ih =>
    intro s a ha
    simp only [allocsN, List.mem_append] at ha
    rcases ha with ha | ha
    · exact hal s a ha
    · cases hs : d s with
      | none => simp [hs] at ha
      | some p =>
        obtain ⟨v, s'⟩ := p
        simp only [hs] at ha
        have h1 := hd s v s' hs
        have h2 := ih s' a ha
        omega

/-- **allocs_bounded.** Whatever the input, no allocation request exceeds the larger of the
    input length and `blockMax` (2^20). -/
theorem allocs_bounded (f : Fmt) : ∀ bs, ∀ a ∈ allocs f bs, a ≤ max bs.length blockMax := by
  induction f with
  | unit => intro bs a ha; simp [allocs] at ha
  | uint w => intro bs a ha; simp [allocs] at ha
  | raw n => intro bs a ha; simp [allocs] at ha
  | hex2 m => intro bs a ha; simp [allocs] at ha
  | shex2 => intro bs a ha; simp [allocs] at ha
  | framed pre f post ih =>
    intro bs a ha
    simp only [allocs] at ha
    cases hr : readFlat pre.length bs with
    | none => simp [hr] at ha
    | some p =>
      obtain ⟨xs, s1⟩ := p
      have h1 := readFlat_suffix hr
      simp only [hr] at ha
      split at ha
      · have := ih s1 a ha; omega
      · simp at ha
  | pair x y ihx ihy =>
    intro bs a ha
    simp only [allocs, List.mem_append] at ha
    rcases ha with ha | ha
    · exact ihx bs a ha
    · cases hd : dec x bs with
      | none => simp [hd] at ha
      | some p =>
        obtain ⟨v, s1⟩ := p
        have h1 := dec_suffix x bs v s1 hd
        simp only [hd] at ha
        have := ihy s1 a ha; omega
  | vec k w f ih =>
    intro bs a ha
    simp only [allocs] at ha
    cases hr : readFlat w bs with
    | none => simp [hr] at ha
    | some p =>
      obtain ⟨xs, s1⟩ := p
      have h1 := readFlat_suffix hr
      have hN := allocsN_bounded (dec f) (allocs f) (dec_suffix f) ih (leVal xs) s1
      simp only [hr] at ha
      cases k <;> simp only [] at ha
      · split at ha
        · simp only [List.mem_cons] at ha
          rcases ha with ha | ha
          · omega
          · have := hN a ha; omega
        · simp at ha
      · have := hN a ha; omega
      · have := hN a ha; omega
      · split at ha
        · simp only [List.mem_cons] at ha
          rcases ha with ha | ha
          · omega
          · have := hN a ha; omega
        · simp at ha
  | opt kp ru f ih =>
    intro bs a ha
    simp only [allocs] at ha
    cases hr : readFlat 1 bs with
    | none => simp [hr] at ha
    | some p =>
      obtain ⟨xs, s1⟩ := p
      have h1 := readFlat_suffix hr
      simp only [hr] at ha
      split at ha
      · rename_i b s1' heq
        simp only [Option.some.injEq, Prod.mk.injEq] at heq
        obtain ⟨_, hs1⟩ := heq
        subst hs1
        split at ha
        · have := ih s1 a ha; omega
        · simp at ha
      · simp at ha
  | tailIf kp x p y ihx ihy => intro bs a ha; simp only [allocs] at ha; exact ihx bs a ha

/-! ### honest inputs are never rejected -/

theorem minSize_le (f : Fmt) : ∀ v, WT f v → minSize f ≤ (enc f v).length := by
  induction f with
  | unit => intro v _; simp [minSize]
  | uint w => intro v ⟨n, hv, _⟩; subst hv; simp [minSize, enc, leBytes_length]
  | raw n => intro v ⟨bs, hv, hl⟩; subst hv; simp [minSize, enc, hl]
  | hex2 m => intro v ⟨n, hv, _⟩; subst hv; simp [minSize, enc]
  | shex2 => intro v ⟨z, hv, _⟩; subst hv; simp [minSize, enc]
  | framed pre f post ih =>
    intro v h
    simp only [WT] at h
    have := ih v h
    simp only [minSize, enc, List.length_append]; omega
  | pair a b iha ihb =>
    intro v ⟨x, y, hv, hx, hy⟩; subst hv
    have := iha x hx; have := ihb y hy
    simp only [minSize, enc, List.length_append]; omega
  | vec k w f ih =>
    intro v ⟨vs, hv, _, _, _⟩; subst hv
    simp only [minSize, enc, List.length_append, leBytes_length]; omega
  | opt kp ru f ih =>
    intro v h
    rcases h with hv | ⟨x, hv, _⟩ <;> subst hv <;> simp [minSize, enc]
  | tailIf kp a p b iha ihb =>
    intro v ⟨x, y, hv, hx, _⟩; subst hv
    have := iha x hx
    simp only [minSize, enc, List.length_append]; omega

theorem length_le_flatten (e : Val → List Nat) (vs : List Val)
    (h : ∀ x ∈ vs, 1 ≤ (e x).length) : vs.length ≤ ((vs.map e).flatten).length := by
  induction vs with
  | nil => simp
  | cons x xs ih =>
    have h1 := h x (List.mem_cons_self ..)
    have h2 := ih (fun y hy => h y (List.mem_cons_of_mem _ hy))
    simp only [List.map_cons, List.flatten_cons, List.length_cons, List.length_append]; omega

theorem allocsN_flatten (f : Fmt) (vs : List Val)
    (hrt : ∀ x ∈ vs, ∀ r, dec f (enc f x ++ r) = some (x, r))
    (hal : ∀ x ∈ vs, ∀ r, allocs f (enc f x ++ r) = lens f x) (rest : List Nat) :
    allocsN (dec f) (allocs f) vs.length ((vs.map (enc f)).flatten ++ rest)
      = (vs.map (lens f)).flatten := by
  induction vs with
  | nil => simp [allocsN]
  | cons x xs ih =>
    have h1 := hal x (List.mem_cons_self ..) ((xs.map (enc f)).flatten ++ rest)
    have h2 := hrt x (List.mem_cons_self ..) ((xs.map (enc f)).flatten ++ rest)
    have ih' := ih (fun y hy => hrt y (List.mem_cons_of_mem _ hy))
      (fun y hy => hal y (List.mem_cons_of_mem _ hy))
    simp only [List.map_cons, List.flatten_cons, List.length_cons, List.append_assoc, allocsN,
      h1, h2, ih']

/-- **allocs_honest.** On `enc f v ++ rest` the requests are exactly the element counts of
    the slices and blocks of `v`: the length checks never reject an honest input. -/
theorem allocs_honest (f : Fmt) :
    PosElems f → ∀ v rest, WT f v → allocs f (enc f v ++ rest) = lens f v := by
  induction f with
  | unit => intro _ v rest h; simp [allocs, lens]
  | uint w => intro _ v rest ⟨n, hv, _⟩; subst hv; simp [allocs, lens]
  | raw n => intro _ v rest ⟨bs, hv, _⟩; subst hv; simp [allocs, lens]
  | hex2 m => intro _ v rest ⟨n, hv, _⟩; subst hv; simp [allocs, lens]
  | shex2 => intro _ v rest ⟨z, hv, _⟩; subst hv; simp [allocs, lens]
  | framed pre f post ih =>
    intro hp v rest h
    simp only [WT] at h
    simp only [PosElems] at hp
    simp only [enc, allocs, lens, List.append_assoc, readFlat_append, if_true, ih hp v _ h]
  | pair a b iha ihb =>
    intro hp v rest ⟨x, y, hv, hx, hy⟩; subst hv
    simp only [PosElems] at hp
    simp only [enc, allocs, lens, List.append_assoc, iha hp.1 x _ hx, roundtrip a x _ hx,
      ihb hp.2 y _ hy]
  | vec k w f ih =>
    intro hp v rest ⟨vs, hv, hlen, hblk, hall⟩; subst hv
    simp only [PosElems] at hp
    obtain ⟨hpf, hpos⟩ := hp
    have hN := allocsN_flatten f vs (fun x hx r => roundtrip f x r (hall x hx))
      (fun x hx r => ih hpf x r (hall x hx)) rest
    simp only [enc, allocs, lens, List.append_assoc,
      readFlat_append' w _ _ (leBytes_length w vs.length), leVal_leBytes w _ hlen, hN]
    cases k with
    | slice =>
      have h1 : vs.length ≤ ((vs.map (enc f)).flatten ++ rest).length := by
        have := length_le_flatten (enc f) vs (fun x hx => by
          have := minSize_le f x (hall x hx); have := hpos rfl; omega)
        simp only [List.length_append]; omega
      simp only [h1, if_true]
    | block => simp only [hblk rfl, if_true]
    | map => rfl
    | mapKeep => rfl
  | opt kp ru f ih =>
    intro hp v rest h
    simp only [PosElems] at hp
    rcases h with hv | ⟨x, hv, hx⟩
    · subst hv
      have hr : readFlat 1 ([0] ++ rest) = some ([0], rest) := readFlat_append' 1 _ rest rfl
      simp only [enc, allocs, lens, hr]; simp
    · subst hv
      have hr : readFlat 1 ([1] ++ (enc f x ++ rest)) = some ([1], enc f x ++ rest) :=
        readFlat_append' 1 _ _ rfl
      have : (1 :: enc f x) ++ rest = [1] ++ (enc f x ++ rest) := rfl
      simp only [enc, allocs, lens, this, hr, if_true, ih hp x _ hx]
  | tailIf kp a p b iha ihb =>
    intro hp v rest ⟨x, y, hv, hx, hy⟩; subst hv
    simp only [PosElems] at hp
    simp only [enc, allocs, lens, List.append_assoc, iha hp.1 x _ hx]

/-! every lattigo format has non-empty slice elements -/

theorem posElems_poly : PosElems poly := by simp [poly, matOf, u64, PosElems, minSize]
theorem posElems_polyQP : PosElems polyQP := by simp [polyQP, posElems_poly, PosElems]
theorem posElems_vectorQP : PosElems vectorQP := by
  simp [vectorQP, vecOf, polyQP, poly, matOf, u64, PosElems, minSize]
theorem posElems_metaData : PosElems metaData := by
  simp [metaData, ptMeta, ctMeta, scale, PosElems]
theorem posElems_ciphertext : PosElems ciphertext := by
  simp [ciphertext, element, optFlag, vecOf, poly, matOf, u64, posElems_metaData, PosElems, minSize]
theorem posElems_gadget : PosElems gadget := by
  simp [gadget, matOf, vectorQP, vecOf, polyQP, poly, u64, PosElems, minSize]
theorem posElems_evalKey : PosElems evalKey := by
  simp [evalKey, posElems_gadget, PosElems]
theorem posElems_paramsBlock : PosElems paramsBlock := by simp [paramsBlock, u8, PosElems]

end Lattigo.Codec
