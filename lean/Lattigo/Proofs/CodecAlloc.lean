/-
  C08 — allocation requests of the Go decoders (`allocs` of `Model/Codec.lean`).
    * `allocs_honest`: on the encoding of a well-typed value the decoder requests exactly the
      element counts present in the value (so never more slots than the input carries);
    * `allocs_unchecked`: on an arbitrary 8-byte input it requests whatever the 8 bytes say.
-/
import Lattigo.Proofs.Codec

namespace Lattigo.Codec

theorem allocsN_flatten (f : Fmt) (vs : List Val)
    (hrt : ∀ x ∈ vs, ∀ r, dec f (enc f x ++ r) = some (x, r))
    (hal : ∀ x ∈ vs, ∀ r, allocs f (enc f x ++ r) = lens f x) (rest : List Nat) :
    allocsN (dec f) (allocs f) vs.length ((vs.map (enc f)).flatten ++ rest)
      = (vs.map (lens f)).flatten := by
  induction vs with
  | nil => simp [allocsN]
  | cons x xs ih =>
    have h1 := hal x (List.mem_cons_self ..) ((xs.map (enc f)).flatten ++ rest)
    have h2 := hrt x (List.mem_cons_self ..) ((xs.map (enc f)).flatten ++ rest)
    have ih' := ih (fun y hy => hrt y (List.mem_cons_of_mem _ hy))
      (fun y hy => hal y (List.mem_cons_of_mem _ hy))
    simp only [List.map_cons, List.flatten_cons, List.length_cons, List.append_assoc, allocsN,
      h1, h2, ih']

/-- **allocs_honest.** On `enc f v ++ rest` the decoder's allocation requests are exactly
    the element counts of `v`. -/
theorem allocs_honest (f : Fmt) :
    ∀ v rest, WT f v → allocs f (enc f v ++ rest) = lens f v := by
  induction f with
  | unit => intro v rest h; simp [allocs, lens]
  | uint w => intro v rest ⟨n, hv, _⟩; subst hv; simp [allocs, lens]
  | raw n => intro v rest ⟨bs, hv, _⟩; subst hv; simp [allocs, lens]
  | hex2 m => intro v rest ⟨n, hv, _⟩; subst hv; simp [allocs, lens]
  | framed pre f post ih =>
    intro v rest h
    simp only [WT] at h
    simp only [enc, allocs, lens, List.append_assoc, readFlat_append, if_true, ih v _ h]
  | pair a b iha ihb =>
    intro v rest ⟨x, y, hv, hx, hy⟩; subst hv
    simp only [enc, allocs, lens, List.append_assoc, iha x _ hx, roundtrip a x _ hx, ihb y _ hy]
  | vec mg w f ih =>
    intro v rest ⟨vs, hv, hlen, hall⟩; subst hv
    simp only [enc, allocs, lens, List.append_assoc,
      readFlat_append' w _ _ (leBytes_length w vs.length), leVal_leBytes w _ hlen]
    rw [allocsN_flatten f vs (fun x hx r => roundtrip f x r (hall x hx))
      (fun x hx r => ih x r (hall x hx))]
  | opt kp ru f ih =>
    intro v rest h
    rcases h with hv | ⟨x, hv, hx⟩
    · subst hv
      have hr : readFlat 1 ([0] ++ rest) = some ([0], rest) := readFlat_append' 1 _ rest rfl
      simp only [enc, allocs, lens, hr]; simp
    · subst hv
      have hr : readFlat 1 ([1] ++ (enc f x ++ rest)) = some ([1], enc f x ++ rest) :=
        readFlat_append' 1 _ _ rfl
      have : (1 :: enc f x) ++ rest = [1] ++ (enc f x ++ rest) := rfl
      simp only [enc, allocs, lens, this, hr, if_true, ih x _ hx]
  | tailIf kp a p b iha ihb =>
    intro v rest ⟨x, y, hv, hx, hy⟩; subst hv
    simp only [enc, allocs, lens, List.append_assoc, iha x _ hx]

theorem allocsN_nil (d : List Nat → Option (Val × List Nat)) (hd : d [] = none) (n : Nat) :
    allocsN d (fun _ => []) n [] = [] := by
  cases n with
  | zero => rfl
  | succ n => simp [allocsN, hd]

/-- **allocs_unchecked.** An 8-byte input announcing `n` elements makes the decoder of a
    `Vector[uint64]` request `n` slots — for every `n < 2^64` — although there is not a
    single element in the input (and the decode then fails for `n > 0`). -/
theorem allocs_unchecked (n : Nat) (hn : n < 256 ^ 8) :
    (leBytes 8 n).length = 8 ∧ allocs (vecOf u64) (leBytes 8 n) = [n] ∧
      (0 < n → dec (vecOf u64) (leBytes 8 n) = none) := by
  have hr : readFlat 8 (leBytes 8 n) = some (leBytes 8 n, []) := by
    have := readFlat_append' 8 (leBytes 8 n) [] (leBytes_length 8 n)
    simpa using this
  have hfun : allocs u64 = fun _ => [] := by funext s; simp [u64, allocs]
  have hd : dec u64 [] = none := by simp [dec, u64, decG, readFlat]
  refine ⟨leBytes_length 8 n, ?_, ?_⟩
  · simp only [vecOf, allocs, hr, leVal_leBytes 8 n hn, hfun, allocsN_nil (dec u64) hd]
  · intro hpos
    obtain ⟨k, hk⟩ : ∃ k, n = k + 1 := ⟨n - 1, by omega⟩
    have hd' : decG readFlat u64 [] = none := hd
    simp only [dec, vecOf, decG, hr, leVal_leBytes 8 n hn]
    rw [hk]
    simp only [decN, hd']

end Lattigo.Codec
