/-
  Completion of the metadata table of `Lattigo.CKKS.step`: vector operands, the `…New` forms (the receiver
  matters only through its level — and, for automorphisms, its degree), and the scale-matching arithmetic of
  `MulThenAdd` / `MulRelinThenAdd`.
-/
import Lattigo.Proofs.CKKSMeta
import Lattigo.Proofs.CKKSDyadic

namespace Lattigo.CKKS

/-! ## vector operands -/

/-- `Mul` with a vector: encoded at the `lcpr` current primes, degree and dimensions of `op0`. -/
theorem mulVec_meta {P : Params} {a o : Meta} {len : Nat} {r : Res} (h : mulVec P a o len = .ok r) :
    ∃ s, primeScale P (min a.level o.level) = .ok s ∧
      r.md = ⟨min a.level o.level, a.degree, smul a.scale s, a.logSlots⟩ ∧ len ≤ 2 ^ a.logSlots ∧
      0 < a.degree := by
  unfold mulVec at h
  simp only [bind, Except.bind] at h
  cases hs : primeScale P (min a.level o.level) with
  | error e => simp [hs] at h
  | ok s =>
    simp only [hs] at h
    split at h
    · cases h
    · rename_i hok
      obtain ⟨hl, hsc, hls, hd, hpos, -⟩ := mulElt_meta h
      simp [encodeOk] at hok
      refine ⟨s, rfl, ?_, hok.2, by simpa using hpos⟩
      cases r with | mk md eff =>
      cases md with | mk l d sc ls =>
      simp only at hl hsc hls hd
      have hd' : d = a.degree := by
        rw [hd]; split
        · rename_i h11; omega
        · simp
      simp [hl, hsc, hls, hd']

/-! ## the receiver matters only through its level: the `…New` forms -/

theorem addElt_receiver {P : Params} {sub : Bool} {a b o o' : Meta} (h : o.level = o'.level) :
    addElt P sub a b o = addElt P sub a b o' := by unfold addElt; simp [h]

theorem addScalar_receiver {P : Params} {sub : Bool} {a o o' : Meta} {re im : SD} (h : o.level = o'.level) :
    addScalar P sub a o re im = addScalar P sub a o' re im := by unfold addScalar; simp [h]

theorem addVec_receiver {P : Params} {a o o' : Meta} {len : Nat} (h : o.level = o'.level) :
    addVec P a o len = addVec P a o' len := by unfold addVec; simp [h]

theorem mulElt_receiver {P : Params} {relin : Bool} {a b o o' : Meta} (h : o.level = o'.level) :
    mulElt P relin a b o = mulElt P relin a b o' := by unfold mulElt; simp [h]

theorem mulScalar_receiver {P : Params} {a o o' : Meta} {re im : SD} (h : o.level = o'.level) :
    mulScalar P a o re im = mulScalar P a o' re im := by unfold mulScalar; simp [h]

theorem mulVec_receiver {P : Params} {a o o' : Meta} {len : Nat} (h : o.level = o'.level) :
    mulVec P a o len = mulVec P a o' len := by unfold mulVec mulElt; simp [h]

theorem scaleUp_receiver {P : Params} {a o o' : Meta} {s : Dy} (h : o.level = o'.level) :
    scaleUp P a o s = scaleUp P a o' s := by unfold scaleUp; simp [h]

theorem automorphism_receiver {P : Params} {g : Nat} {a o o' : Meta} (h : o.level = o'.level)
    (hd : o.degree = o'.degree) : automorphism P g a o = automorphism P g a o' := by
  unfold automorphism; simp [h, hd]

theorem relinearize_receiver {P : Params} {a o o' : Meta} (h : o.level = o'.level) :
    relinearize P a o = relinearize P a o' := by unfold relinearize; simp [h]

/-- the receiver `NewCiphertext(params, op0.Degree(), op0.Level())` of the `…New` methods. -/
def newRecv (a : Meta) (defaultScale : Dy) (logMaxSlots : Nat) : Meta := ⟨a.level, a.degree, defaultScale, logMaxSlots⟩

/-- `AddNew/SubNew`: the result sits at the lower of the operands' levels. -/
theorem addNew_level {P : Params} {sub : Bool} {a b : Meta} {ds : Dy} {lm : Nat} {r : Res}
    (h : addElt P sub a b (newRecv a ds lm) = .ok r) : r.md.level = min a.level b.level := by
  have := (addElt_meta h).1
  simp [newRecv] at this; omega

theorem mulNew_level {P : Params} {relin : Bool} {a b : Meta} {ds : Dy} {lm : Nat} {r : Res}
    (h : mulElt P relin a b (newRecv a ds lm) = .ok r) : r.md.level = min a.level b.level := by
  have := (mulElt_meta h).1
  simp [newRecv] at this; omega

/-- `AddNew(ct, scalar)` etc.: all of `op0`'s metadata. -/
theorem addScalarNew_meta {P : Params} {sub : Bool} {a : Meta} {ds : Dy} {lm : Nat} {re im : SD} {r : Res}
    (h : addScalar P sub a (newRecv a ds lm) re im = .ok r) : r.md = a := by
  obtain ⟨h1, h2, h3, h4⟩ := addScalar_meta h
  cases r with | mk md eff => cases md; cases a; simp_all [newRecv]

/-! ## `MulThenAdd`: scale matching -/

/-- element operands, receiver scale not below the product scale: nothing is rescaled. -/
theorem mtaEltScale_ge {P : Params} {level : Nat} {a b o : Meta}
    (h : o.scale.lt (smul a.scale b.scale) = false) : mtaEltScale P level a b o = .ok (1, o.scale) := by
  unfold mtaEltScale; simp [h, pure, Except.pure]

/-- ratio below 2 (as a float64): nothing is rescaled although the scales differ (known finding). -/
theorem mtaEltScale_lt2 {P : Params} {level : Nat} {a b o : Meta}
    (h : o.scale.lt (smul a.scale b.scale) = true)
    (h2 : (toF64 (sdiv (smul a.scale b.scale) o.scale)).cmp (Dy.ofNat 2) = .lt) :
    mtaEltScale P level a b o = .ok (1, o.scale) := by
  unfold mtaEltScale; simp [h, h2, pure, Except.pure]

/-- ratio ≥ 2: the receiver is multiplied by the RNS constant of the ratio (at factor `1` if the ratio is an
    integer, at the current prime(s) otherwise — the known finding) and recorded at the product scale. -/
theorem mtaEltScale_scaleUp {P : Params} {level : Nat} {a b o : Meta} {s : Dy}
    (h : o.scale.lt (smul a.scale b.scale) = true)
    (h2 : (toF64 (sdiv (smul a.scale b.scale) o.scale)).cmp (Dy.ofNat 2) ≠ .lt)
    (hs : scalarScale P level ⟨false, sdiv (smul a.scale b.scale) o.scale⟩ ⟨false, Dy.zero⟩ = .ok s) :
    mtaEltScale P level a b o
      = .ok ((consts P ⟨false, sdiv (smul a.scale b.scale) o.scale⟩ ⟨false, Dy.zero⟩ s).1, smul a.scale b.scale) := by
  unfold mtaEltScale
  have : ((toF64 (sdiv (smul a.scale b.scale) o.scale)).cmp (Dy.ofNat 2) != .lt) = true := by
    simpa using h2
  simp [h, this, hs, bind, Except.bind, pure, Except.pure]

/-- scalar / vector operands: the three cases of `op0.Scale` vs `opOut.Scale`. -/
theorem mtaScale_eq_int {P : Params} {level : Nat} {a o : Meta} (h : a.scale.cmp o.scale = .eq) :
    mtaScale P level true a o = .ok (Dy.one, 1, o.scale) := by unfold mtaScale; simp [h]

theorem mtaScale_lt {P : Params} {level : Nat} {isInt : Bool} {a o : Meta} (h : a.scale.cmp o.scale = .lt) :
    mtaScale P level isInt a o = .ok (sdiv o.scale a.scale, 1, o.scale) := by unfold mtaScale; simp [h]

theorem mtaScale_gt {P : Params} {level : Nat} {isInt : Bool} {a o : Meta} (h : a.scale.cmp o.scale = .gt) :
    mtaScale P level isInt a o = .error .err := by unfold mtaScale; simp [h]

theorem mtaScale_eq_nonint {P : Params} {level : Nat} {a o : Meta} {s : Dy} (h : a.scale.cmp o.scale = .eq)
    (hs : primeScale P level = .ok s) :
    mtaScale P level false a o = .ok (s, bigIntConst P s.toNat, smul (smul o.scale Dy.one) s) := by
  unfold mtaScale; simp [h, hs, bind, Except.bind]

/-- **scale matching** in the case `op0.Scale < opOut.Scale`: the constant is encoded at
    `S = opOut.Scale / op0.Scale` (rounded to 128 bits), so the product `op0·c` lands at `op0.Scale·S`, which
    equals the receiver's scale up to a relative `2^-128`. -/
theorem mtaScale_lt_match (a o : Dy) (ha : 0 < a.m) (ho : 0 < o.m) :
    |a.val * (sdiv o a).val - o.val| ≤ o.val * (2 : ℚ) ^ (-(128 : ℤ)) := by
  have h := sdiv_spec o a ho ha
  have hapos : 0 < a.val := by
    unfold Dy.val
    have : (0 : ℚ) < (a.m : ℚ) := by exact_mod_cast ha
    positivity
  have e : a.val * (sdiv o a).val - o.val = a.val * ((sdiv o a).val - o.val / a.val) := by
    field_simp
  rw [e, abs_mul, abs_of_pos hapos]
  calc a.val * |(sdiv o a).val - o.val / a.val| ≤ a.val * (o.val / a.val * (2 : ℚ) ^ (-(128 : ℤ))) :=
        mul_le_mul_of_nonneg_left h hapos.le
    _ = o.val * (2 : ℚ) ^ (-(128 : ℤ)) := by field_simp

end Lattigo.CKKS

namespace Lattigo.CKKS

/-- `MulThenAdd` with a vector: fresh receiver required, minimum level, `op0`'s dimensions, length check. -/
theorem mulThenAddVec_meta {P : Params} {al : Alias} {a o : Meta} {len : Nat} {r : Res}
    (h : mulThenAddVec P al a o len = .ok r) :
    al = .fresh ∧ r.md.level = min a.level o.level ∧ r.md.logSlots = a.logSlots ∧ len ≤ 2 ^ a.logSlots ∧
    a.scale.cmp o.scale ≠ .gt := by
  unfold mulThenAddVec at h
  simp only [bind, Except.bind] at h
  split at h
  · cases h
  · rename_i hal
    split at h
    · cases h
    · rename_i v hv
      split at h
      · cases h
      · rename_i hok
        split at h
        · cases h
        · rename_i r' hr'
          split at h
          · cases h
          · cases h
            obtain ⟨hfresh, -, -, hl, hls, -⟩ := mulThenAddElt_meta hr'
            have hlen : len ≤ 2 ^ a.logSlots := by
              have : encodeOk P a.logSlots len = true := by simpa using hok
              simp [encodeOk] at this; exact this.2
            refine ⟨hfresh, ?_, ?_, hlen, ?_⟩
            · rw [hl]; simp
            · rw [hls]; simp
            · intro hgt
              unfold mtaScale at hv
              simp [hgt] at hv

theorem conjugate_meta {P : Params} {a o : Meta} {r : Res} (h : conjugate P a o = .ok r) :
    P.conjInv = false ∧ a.degree = 1 ∧ o.degree = 1 ∧ r.md.scale = a.scale ∧ r.md.degree = 1 ∧
    r.md.logSlots = a.logSlots ∧ r.md.level = (if P.nthRoot - 1 = 1 then a.level else min a.level o.level) := by
  unfold conjugate at h
  split at h
  · cases h
  · rename_i hci
    obtain ⟨h1, h2, h3, h4, h5, h6, -⟩ := automorphism_meta h
    exact ⟨by simpa using hci, h1, h2, h3, h4, h5, h6⟩

end Lattigo.CKKS
