/-
  `BasisExtender.ModDownQPtoQNTT` (ring/basis_extension.go) commutes with the NTT: on inputs that are the
  bit-exact forward NTTs of the rows of an integer coefficient vector, the twin `modDownQPtoQNTT` returns, limb
  for limb, the forward NTT of what the coefficient-domain twin `modDownQPtoQ` returns (ring degree `N ≥ 16`,
  where `INTTLazy` returns reduced values).  Hence `modDownQPtoQ_limbs` applies to `INTT` of every row.

  Ingredients: `inttStd_nttStd`, `inttStdLazy_eq_inttStd` (C01 / ScalingNTT), `modUp_row_lt` (the buffer limbs
  are `< (k+2)·q_i` whatever the IEEE index), `nttCoreLazy_big` (no wrap of `NTTLazy` on such unreduced limbs),
  `fwdZ_zipWith_lin` (linearity), `modDownLane_spec`.
-/
import Lattigo.Proofs.BasisExtLimb
import Lattigo.Proofs.ScalingNTT

set_option linter.unusedVariables false

namespace Lattigo.BasisExt
open Lattigo Lattigo.Gen Lattigo.Scaling Lattigo.NTT

/-- `modDownRes` read in `Z_q`: `(x − e)·c` -/
theorem modDownRes_zcast (q c x e : ℕ) (hq : 0 < q) :
    ((modDownRes q c x e : ℕ) : ZMod q) = ((x : ZMod q) - (e : ZMod q)) * (c : ZMod q) := by
  unfold modDownRes
  have hv : e % q ≤ x + q := by have := Nat.mod_lt e hq; omega
  rw [ZMod.natCast_mod, Nat.cast_mul, Nat.cast_sub hv, Nat.cast_add, ZMod.natCast_self, add_zero,
    ZMod.natCast_mod]

/-- **Core**: the closing loop of `ModDown` applied to NTT-domain rows is the NTT of the closing loop applied to the
coefficient-domain rows.  `a = NTT(g(X))` reduced; `b1` any word vector that read in `Z_q` is the exact network
applied to the coefficient-domain buffer row `B`, with `y + 2q < 2^64`. -/
theorem modDownNTT_core (Ti : Tables) (K : ℕ) (hTi : Valid Ti K) (c mdc : ℕ)
    (hmdc : mdc = (c * W) % Ti.q) (X : List ℕ) (hX : X.length = 2 ^ K) (g : ℕ → ℕ)
    (hg : ∀ x, g x < Ti.q) (B b1 : List ℕ) (hB : B.length = 2 ^ K)
    (hb1c : b1.map (Nat.cast : ℕ → ZMod Ti.q)
      = fwdZ (rho Ti.q Ti.rootsF) K 1 (B.map (Nat.cast : ℕ → ZMod Ti.q)))
    (hb1 : ∀ y ∈ b1, y + 2 * Ti.q < W) :
    List.zipWith (fun b x => subthenmulscalarmontgomeryTwoModulusvec_lane b x (u64sub Ti.q mdc) 0 Ti.q
        (GenMRedConstant Ti.q)) b1 (nttStd Ti (X.map g))
      = nttStd Ti (List.zipWith (fun b x => modDownRes Ti.q c x b) B (X.map g)) := by
  have : Fact Ti.q.Prime := ⟨hTi.prime⟩
  have hq0 : 0 < Ti.q := hTi.q_pos
  have h2 : 2 * Ti.q ≤ W := by have := hTi.h8; omega
  obtain ⟨hac, halt⟩ := nttStd_cast hTi (X.map g) (by
    intro x hx; rw [List.mem_map] at hx; obtain ⟨y, _, rfl⟩ := hx; exact hg y)
  have hLlt : ∀ z ∈ List.zipWith (fun b x => modDownRes Ti.q c x b) B (X.map g), z < Ti.q :=
    forall_zipWith _ (fun z => z < Ti.q) _ _ (fun u _ v _ => modDownRes_lt _ _ v u hq0)
  obtain ⟨hrc, hrlt⟩ := nttStd_cast hTi _ hLlt
  have step1 : List.zipWith (fun b x => subthenmulscalarmontgomeryTwoModulusvec_lane b x (u64sub Ti.q mdc) 0 Ti.q
        (GenMRedConstant Ti.q)) b1 (nttStd Ti (X.map g))
      = List.zipWith (fun b x => modDownRes Ti.q c x b) b1 (nttStd Ti (X.map g)) :=
    zipWith_congr_mem _ _ _ _ (fun u hu v hv =>
      modDownLane_spec Ti.q c mdc u v hTi.prime hTi.mont.odd h2 hmdc (halt v hv) (hb1 u hu))
  rw [step1]
  apply map_cast_inj (q := Ti.q) _ _
    (forall_zipWith _ (fun z => z < Ti.q) _ _ (fun u _ v _ => modDownRes_lt _ _ v u hq0)) hrlt
  rw [hrc]
  -- casts of the two zipWith's
  have hz : ∀ (l1 l2 : List ℕ),
      (List.zipWith (fun b x => modDownRes Ti.q c x b) l1 l2).map (Nat.cast : ℕ → ZMod Ti.q)
        = List.zipWith (fun a b => (a - b) * ((c : ℕ) : ZMod Ti.q))
            (l2.map (Nat.cast : ℕ → ZMod Ti.q)) (l1.map (Nat.cast : ℕ → ZMod Ti.q)) := by
    intro l1 l2
    induction l1 generalizing l2 with
    | nil => simp
    | cons u l1 ih =>
      cases l2 with
      | nil => simp
      | cons v l2 =>
        simp only [List.zipWith_cons_cons, List.map_cons, ih l2, modDownRes_zcast Ti.q c v u hq0]
  rw [hz, hz, hac, hb1c, ← fwdZ_zipWith_lin (rho Ti.q Ti.rootsF) _ K 1 _ _
    (by rw [List.length_map, List.length_map, hX]) (by rw [List.length_map, hB])]

/-- the coefficient-domain rows of the integer vector `X` in a basis -/
def coeffRows (Q : List ℕ) (level : ℕ) (X : List ℕ) : Rows :=
  (List.range (level + 1)).map fun i => X.map (· % Q.getD i 0)

theorem coeffRows_row (Q : List ℕ) (level : ℕ) (X : List ℕ) (i : ℕ) (hi : i ≤ level) :
    row (coeffRows Q level X) i = X.map (· % Q.getD i 0) :=
  row_map_range _ _ i (by omega)

/-- **`ModDownQPtoQNTT` = NTT ∘ `ModDownQPtoQ` ∘ INTT** (ring degree `N = 2^K ≥ 16`).  If the rows of `p1Q`, `p1P`
are the bit-exact forward NTTs of `X mod q_i`, `X mod p_j`, then every row `i ≤ levelQ` of the result is the forward
NTT (`nttStd`, reduced) of row `i` of `modDownQPtoQ` applied to the coefficient-domain rows; so
`modDownQPtoQ_limbs` describes `INTT` of every output row.  No hypothesis on the IEEE index is needed here. -/
theorem modDownQPtoQNTT_eq (TQ TP : Tabs) (Q P : List ℕ) (levelQ levelP K : ℕ) (hK : 4 ≤ K)
    (hlQ : levelQ < Q.length) (hlP : levelP < P.length)
    (hTQ : ∀ i, i ≤ levelQ → Valid (tab TQ i) K ∧ (tab TQ i).q = Q.getD i 0)
    (hTP : ∀ j, j ≤ levelP → Valid (tab TP j) K ∧ (tab TP j).q = P.getD j 0)
    (hCP : Chain (P.take (levelP + 1))) (k : ℕ) (hk : (P.take (levelP + 1)).sum ≤ k * W)
    (hTgt : Target Q (k + 4)) (p1Q p1P : Rows) (X : List ℕ) (hX : X.length = 2 ^ K)
    (hQ : ∀ i, i ≤ levelQ → row p1Q i = nttStd (tab TQ i) (X.map (· % Q.getD i 0)))
    (hP : ∀ j, j ≤ levelP → row p1P j = nttStd (tab TP j) (X.map (· % P.getD j 0)))
    (i : ℕ) (hi : i ≤ levelQ) :
    row (modDownQPtoQNTT TQ TP Q P levelQ levelP p1Q p1P) i
      = nttStd (tab TQ i)
          (row (modDownQPtoQ Q P levelQ levelP (coeffRows Q levelQ X) (coeffRows P levelP X)) i) := by
  -- the INTT of the P rows
  have hbuffP : (List.range (levelP + 1)).map (fun j => inttStdLazy (tab TP j) (row p1P j))
      = coeffRows P levelP X := by
    unfold coeffRows
    apply List.map_congr_left
    intro j hj
    have hj' : j ≤ levelP := by have := List.mem_range.mp hj; omega
    obtain ⟨hv, hq⟩ := hTP j hj'
    rw [hP j hj', inttStdLazy_eq_inttStd _ (not_lt_unrollMin hv hK),
      inttStd_nttStd hv _ (by rw [List.length_map, hX, hv.n_eq])
        (by intro x hx; rw [List.mem_map] at hx; obtain ⟨y, _, rfl⟩ := hx
            rw [hq]; exact Nat.mod_lt _ (by rw [← hq]; exact hv.q_pos))]
  obtain ⟨hv, hq⟩ := hTQ i hi
  have hF : Fact (tab TQ i).q.Prime := ⟨hv.prime⟩
  have hmem := getD_mem Q i (by omega)
  have hsm := hTgt.small _ hmem
  -- the coefficient-domain buffer row
  obtain ⟨hBlen, hBlt⟩ := modUp_row_lt P Q levelP levelQ hlP hlQ hCP k hk (hTgt.mono (by omega))
    (coeffRows P levelP X) X (fun j hj => coeffRows_row P levelP X j hj) i hi
  have h6 : (k + 4 + 2) * Q.getD i 0 = (k + 2) * Q.getD i 0 + 4 * Q.getD i 0 := by
    rw [Nat.add_mul, Nat.add_mul, Nat.add_mul]; omega
  obtain ⟨hbc, hbr⟩ := nttCoreLazy_big hv hK ((k + 2) * Q.getD i 0) (by rw [hq]; omega)
    (row (modUp P Q levelP levelQ (coeffRows P levelP X)) i) hBlt
  have hb1 : ∀ y ∈ nttCoreLazy (tab TQ i) (row (modUp P Q levelP levelQ (coeffRows P levelP X)) i),
      y + 2 * (tab TQ i).q < W := by
    intro y hy
    have h1 := hbr y hy
    have h8 := hv.h8
    rw [hq] at h1 h8 ⊢
    have : max ((k + 2) * Q.getD i 0) (4 * Q.getD i 0) ≤ (k + 2) * Q.getD i 0 + 4 * Q.getD i 0 :=
      Nat.max_le.2 ⟨Nat.le_add_right _ _, Nat.le_add_left _ _⟩
    by_cases hk2 : k + 2 ≤ 4
    · have : (k + 2) * Q.getD i 0 ≤ 4 * Q.getD i 0 := Nat.mul_le_mul_right _ hk2
      have : max ((k + 2) * Q.getD i 0) (4 * Q.getD i 0) = 4 * Q.getD i 0 := Nat.max_eq_right this
      omega
    · have hle : 4 * Q.getD i 0 ≤ (k + 2) * Q.getD i 0 := Nat.mul_le_mul_right _ (by omega)
      have : max ((k + 2) * Q.getD i 0) (4 * Q.getD i 0) = (k + 2) * Q.getD i 0 := Nat.max_eq_left hle
      omega
  have hq2 : 2 * Q.getD i 0 ≤ W := by have := hv.h8; rw [hq] at this; omega
  have hcspec := modDownConst_spec (Q.getD i 0) (by rw [← hq]; exact hv.prime)
    (by rw [← hq]; exact hv.mont.odd) hq2 P levelP (by intro h; rw [h] at hlP; simp at hlP)
  -- NTT-domain side
  have hL : row (modDownQPtoQNTT TQ TP Q P levelQ levelP p1Q p1P) i
      = List.zipWith (fun b x => subthenmulscalarmontgomeryTwoModulusvec_lane b x
            (u64sub (Q.getD i 0) (modDownConst (Q.getD i 0) P levelP)) 0 (Q.getD i 0) (GenMRedConstant (Q.getD i 0)))
          (nttStdLazy (tab TQ i) (row (modUp P Q levelP levelQ (coeffRows P levelP X)) i))
          (nttStd (tab TQ i) (X.map (· % Q.getD i 0))) := by
    unfold modDownQPtoQNTT
    simp only []
    rw [hbuffP]
    unfold modDownRows modUpPtoQ
    rw [row_map_range _ _ i (by omega), row_map_range _ _ i (by omega), hQ i hi]
  -- coefficient-domain side
  have hR : row (modDownQPtoQ Q P levelQ levelP (coeffRows Q levelQ X) (coeffRows P levelP X)) i
      = List.zipWith (fun b x => modDownRes (Q.getD i 0) (pinvN (Q.getD i 0) (P.take (levelP + 1))) x b)
          (row (modUp P Q levelP levelQ (coeffRows P levelP X)) i) (X.map (· % Q.getD i 0)) := by
    unfold modDownQPtoQ modDownRows modUpPtoQ
    rw [row_map_range _ _ i (by omega), coeffRows_row Q levelQ X i hi]
    apply zipWith_congr_mem
    intro b hb x hx
    rw [List.mem_map] at hx
    obtain ⟨y, _, rfl⟩ := hx
    have hb' := hBlt b hb
    exact modDownLane_spec (Q.getD i 0) _ _ b _ (by rw [← hq]; exact hv.prime)
      (by rw [← hq]; exact hv.mont.odd) hq2 hcspec (Nat.mod_lt _ (by rw [← hq]; exact hv.q_pos)) (by omega)
  rw [hL, hR]
  have := modDownNTT_core (tab TQ i) K hv (pinvN (Q.getD i 0) (P.take (levelP + 1)))
    (modDownConst (Q.getD i 0) P levelP) (by rw [hq]; exact hcspec) X hX (· % Q.getD i 0)
    (fun x => by rw [hq]; exact Nat.mod_lt _ (by rw [← hq]; exact hv.q_pos))
    (row (modUp P Q levelP levelQ (coeffRows P levelP X)) i)
    (nttStdLazy (tab TQ i) (row (modUp P Q levelP levelQ (coeffRows P levelP X)) i))
    (by rw [hBlen, hX]) hbc hb1
  rw [hq] at this
  exact this

end Lattigo.BasisExt

#print axioms Lattigo.BasisExt.modDownNTT_core
#print axioms Lattigo.BasisExt.modDownQPtoQNTT_eq
