/-
  C19 — termination of the prime generator loops (after fixes C19-3/C19-4): with stop tests that
  fire outside the half-bit window (`StopComplete`) and enough fuel, no loop of the model ends in
  `hang`, hence neither `GenModuli` nor the literal constructors.
-/
import Lattigo.Proofs.ParamsGen
import Lattigo.Proofs.Params

namespace Lattigo.Params
open Lattigo

theorem u64sub_lt (a b : Nat) : u64sub a b < W := Nat.mod_lt _ (by decide)

/-- the two float tests fire (at the latest) outside the half-bit window -/
structure StopComplete (o : Oracle) : Prop where
  up : ∀ S c, 2 ^ (2 * S + 1) ≤ c * c → o.stopUp S c = true
  down : ∀ S c, 2 * (c * c) ≤ 2 ^ (2 * S) → o.stopDown S c = true

theorem exactOracle_stopComplete : StopComplete exactOracle := by
  constructor
  · intro S c h; simp [exactOracle, stopUpExact, h]
  · intro S c h; simp [exactOracle, stopDownExact, h]

/-- not stopped upstream ⇒ the candidate is below `2^(S+1)` -/
theorem lt_of_not_stopUp {o : Oracle} (hc : StopComplete o) {S c : Nat} (h : o.stopUp S c = false) :
    c < 2 ^ (S + 1) := by
  by_contra hge
  have hge : 2 ^ (S + 1) ≤ c := Nat.le_of_not_lt hge
  have h1 : 2 ^ (S + 1) * 2 ^ (S + 1) ≤ c * c := Nat.mul_le_mul hge hge
  have h2 : 2 ^ (2 * S + 1) ≤ 2 ^ (S + 1) * 2 ^ (S + 1) := by
    rw [← Nat.pow_add]; exact Nat.pow_le_pow_right (by decide) (by omega)
  have := hc.up S c (Nat.le_trans h2 h1)
  rw [h] at this; cases this

/-- the termination measure of `NextAlternatingPrime` -/
def altMeasure (S np pp : Nat) (cn cp : Bool) : Nat :=
  (if cn then (2 ^ (S + 1) - np) + 1 else 0) + (if cp then pp + 1 else 0)

theorem up_measure (B np r : Nat) (cn stU : Bool) (hr : 1 ≤ r)
    (hlt : cn = true → stU = false → np < B ∧ np + r < W) :
    (if (cn && !(cn && stU)) = true
        then (B - (if (cn && !(cn && stU)) = true then u64add np r else np)) + 1 else 0)
      + (if cn = true then 1 else 0) ≤ (if cn = true then (B - np) + 1 else 0) := by
  cases cn <;> cases stU
  · simp
  · simp
  · obtain ⟨h1, h2⟩ := hlt rfl rfl
    simp only [Bool.and_false, Bool.not_false, Bool.and_self, if_true]
    rw [u64add_small h2]
    omega
  · simp

theorem down_measure (pp r : Nat) (cp stD : Bool) (hr : 1 ≤ r) (hpp : pp < W)
    (hge : cp = true → stD = false → r ≤ pp) :
    (if (cp && !(cp && stD)) = true
        then (if (cp && !(cp && stD)) = true then u64sub pp r else pp) + 1 else 0)
      + (if cp = true then 1 else 0) ≤ (if cp = true then pp + 1 else 0) := by
  cases cp <;> cases stD
  · simp
  · simp
  · have h1 := hge rfl rfl
    simp only [Bool.and_false, Bool.not_false, Bool.and_self, if_true]
    rw [u64sub_small h1 hpp]
    omega
  · simp

theorem altLoop_ne_hang (o : Oracle) (hc : StopComplete o) (g : Gen) (hr : 1 ≤ g.nthRoot)
    (hrW : g.nthRoot < W) :
    ∀ (fuel np pp : Nat) (cn cp : Bool), pp < W → altMeasure g.size np pp cn cp < fuel →
      (altLoop o g fuel np pp cn cp).2 ≠ .hang := by
  intro fuel
  induction fuel with
  | zero => intro np pp cn cp _ h; omega
  | succ fuel ih =>
    intro np pp cn cp hpp hm
    unfold altLoop
    split
    · simp
    · rename_i hany
      dsimp only
      split
      · simp
      · split
        · simp
        · apply ih
          · split
            · exact u64sub_lt _ _
            · exact hpp
          · unfold altMeasure at hm ⊢
            have hU := up_measure (2 ^ (g.size + 1)) np g.nthRoot cn
              (o.stopUp g.size np || decide (np > W - 1 - g.nthRoot)) hr (by
                intro _ hst
                simp only [Bool.or_eq_false_iff, decide_eq_false_iff_not, not_lt] at hst
                refine ⟨lt_of_not_stopUp hc hst.1, ?_⟩
                have := hst.2
                unfold W at *; omega)
            have hD := down_measure pp g.nthRoot cp
              (o.stopDown g.size pp || decide (pp < g.nthRoot)) hr hpp (by
                intro _ hst
                simp only [Bool.or_eq_false_iff, decide_eq_false_iff_not, not_lt] at hst
                exact hst.2)
            have hany' : cn = true ∨ cp = true := by
              cases cn <;> cases cp <;> simp at hany ⊢
            rcases hany' with h1 | h1
            · subst h1
              simp only [if_true] at hU hm ⊢
              omega
            · subst h1
              simp only [if_true] at hD hm ⊢
              omega

/-- `NextAlternatingPrime` terminates on the generator states that occur -/
theorem nextAlt_ne_hang (o : Oracle) (hc : StopComplete o) (g : Gen) (hr : 1 ≤ g.nthRoot)
    (hrW : g.nthRoot < W) (hS : g.size ≤ 62) (hp : g.prev < W) (fuel : Nat) (hf : 2 ^ 65 ≤ fuel) :
    (nextAlt o fuel g).2 ≠ .hang := by
  unfold nextAlt
  apply altLoop_ne_hang o hc g hr hrW fuel _ _ _ _ hp
  unfold altMeasure
  have h1 : 2 ^ (g.size + 1) ≤ 2 ^ 63 := Nat.pow_le_pow_right (by decide) (by omega)
  have : (if g.checkNext = true then 2 ^ (g.size + 1) - g.next + 1 else 0) ≤ 2 ^ 63 + 1 := by
    split <;> omega
  have : (if g.checkPrev = true then g.prev + 1 else 0) ≤ W := by
    split <;> omega
  unfold W at *
  omega

/-! ### the generator state stays well-formed -/

theorem altLoop_state (o : Oracle) (g : Gen) (hg : g.prev < W) :
    ∀ (fuel np pp : Nat) (cn cp : Bool), pp < W →
      (altLoop o g fuel np pp cn cp).1.size = g.size ∧
      (altLoop o g fuel np pp cn cp).1.nthRoot = g.nthRoot ∧
      (altLoop o g fuel np pp cn cp).1.prev < W := by
  intro fuel
  induction fuel with
  | zero => intro np pp cn cp _; simp only [altLoop]; exact ⟨trivial, trivial, hg⟩
  | succ fuel ih =>
    intro np pp cn cp hpp
    unfold altLoop
    by_cases h0 : (!(cn || cp)) = true
    · simp only [h0, if_true]; exact ⟨by simp, by simp, by simpa using hg⟩
    · simp only [h0]
      by_cases h1 : (cn && !(cn && (o.stopUp g.size np || decide (np > W - 1 - g.nthRoot))) &&
          o.isPrime np) = true
      · simp only [h1, if_true]; exact ⟨by simp, by simp, by simpa using hpp⟩
      · simp only [h1]
        by_cases h2 : (cp && !(cp && (o.stopDown g.size pp || decide (pp < g.nthRoot))) &&
            o.isPrime pp) = true
        · simp only [h2, if_true]; exact ⟨by simp, by simp, by simpa using u64sub_lt _ _⟩
        · simp only [h2]
          apply ih
          split
          · exact u64sub_lt _ _
          · exact hpp

theorem downLoop_state (o : Oracle) (g : Gen) (hg : g.prev < W) :
    ∀ (fuel c : Nat),
      (downLoop o g fuel c).1.size = g.size ∧ (downLoop o g fuel c).1.nthRoot = g.nthRoot ∧
      (downLoop o g fuel c).1.prev < W := by
  intro fuel
  induction fuel with
  | zero => intro c; simp only [downLoop]; exact ⟨trivial, trivial, hg⟩
  | succ fuel ih =>
    intro c
    unfold downLoop
    by_cases h1 : (!g.checkPrev) = true
    · simp only [h1, if_true]; exact ⟨by simp, by simp, by simpa using hg⟩
    · simp only [h1]
      by_cases h2 : (o.stopDown g.size c || decide (c < g.nthRoot)) = true
      · simp only [h2, if_true]; exact ⟨by simp, by simp, by simpa using hg⟩
      · simp only [h2]
        by_cases h3 : o.isPrime c = true
        · simp only [h3, if_true]; exact ⟨by simp, by simp, by simpa using u64sub_lt _ _⟩
        · simp only [h3]; exact ih _

/-! ### NextDownstreamPrime -/

theorem downLoop_ne_hang (o : Oracle) (g : Gen) (hr : 1 ≤ g.nthRoot) :
    ∀ (fuel c : Nat), c < W → c + 1 < fuel → (downLoop o g fuel c).2 ≠ .hang := by
  intro fuel
  induction fuel with
  | zero => intro c _ h; omega
  | succ fuel ih =>
    intro c hc hm
    unfold downLoop
    split
    · simp
    · split
      · simp
      · rename_i hst
        simp only [Bool.or_eq_true, decide_eq_true_eq, not_or, Bool.not_eq_true, not_lt] at hst
        split
        · simp
        · rw [u64sub_small hst.2 hc]
          exact ih _ (by omega) (by omega)

/-! ### k primes, all sizes, GenModuli, the literal constructors -/

/-- the generator states that occur for the size `S` and the root order `r` -/
def GenState (S r : Nat) (g : Gen) : Prop := g.size = S ∧ g.nthRoot = r ∧ g.prev < W

theorem nextPrimes_ne_hang (S r : Nat) (step : Gen → Gen × Res Nat)
    (h1 : ∀ g, GenState S r g → (step g).2 ≠ .hang)
    (h2 : ∀ g, GenState S r g → GenState S r (step g).1) :
    ∀ k g, GenState S r g → (nextPrimes step k g).2 ≠ .hang := by
  intro k
  induction k with
  | zero => intro g _; simp [nextPrimes]
  | succ k ih =>
    intro g hg
    unfold nextPrimes
    split
    · rename_i g' p hst
      have hg' : GenState S r g' := by have := h2 g hg; rw [hst] at this; exact this
      split
      · simp
      · simp
      · simp
      · rename_i g'' hrec
        exact absurd (by rw [hrec]) (ih g' hg')
    · simp
    · simp
    · rename_i g' hst
      exact absurd (by rw [hst]) (h1 g hg)

theorem newGen_state (S r : Nat) : GenState S r (newGen S r) :=
  ⟨rfl, rfl, u64sub_lt _ _⟩

theorem genForSize_ne_hang (o : Oracle) (hc : StopComplete o) (fuel r S k : Nat) (hr : 1 ≤ r)
    (hrW : r < W) (hS : S ≤ 62) (hf : 2 ^ 65 ≤ fuel) : genForSize o fuel r S k ≠ .hang := by
  have hfuel : W + 1 < fuel := by unfold W; omega
  unfold genForSize genPrimes
  by_cases h61 : S = 61
  · simp only [h61, if_true, show (1 : Nat) ≠ 0 by decide, if_false]
    apply nextPrimes_ne_hang 61 r _ _ _ k _ (newGen_state 61 r)
    · intro g hg
      obtain ⟨g1, g2, g3⟩ := hg
      unfold nextDown
      exact downLoop_ne_hang o g (by rw [g2]; exact hr) fuel _ g3 (by omega)
    · intro g hg
      obtain ⟨g1, g2, g3⟩ := hg
      have := downLoop_state o g g3 fuel g.prev
      exact ⟨by rw [← g1]; exact this.1, by rw [← g2]; exact this.2.1, this.2.2⟩
  · simp only [h61, if_false, show (2 : Nat) ≠ 0 by decide, show (2 : Nat) ≠ 1 by decide]
    apply nextPrimes_ne_hang S r _ _ _ k _ (newGen_state S r)
    · intro g hg
      obtain ⟨g1, g2, g3⟩ := hg
      exact nextAlt_ne_hang o hc g (by rw [g2]; exact hr) (by rw [g2]; exact hrW) (by rw [g1]; exact hS)
        g3 fuel hf
    · intro g hg
      obtain ⟨g1, g2, g3⟩ := hg
      have := altLoop_state o g g3 fuel g.next g.prev g.checkNext g.checkPrev g3
      exact ⟨by rw [← g1]; exact this.1, by rw [← g2]; exact this.2.1, this.2.2⟩

theorem genAll_ne_hang (o : Oracle) (hc : StopComplete o) (fuel r : Nat) (req : List Nat)
    (hr : 1 ≤ r) (hrW : r < W) (hf : 2 ^ 65 ≤ fuel) :
    ∀ sizes, (∀ s ∈ sizes, s ≤ 62) → genAll o fuel r req sizes ≠ .hang := by
  intro sizes
  induction sizes with
  | nil => intro _; simp [genAll]
  | cons s rest ih =>
    intro hs
    unfold genAll
    split
    · split
      · simp
      · simp
      · simp
      · rename_i h; exact absurd h (ih (fun t ht => hs t (List.mem_cons_of_mem _ ht)))
    · simp
    · simp
    · rename_i h
      exact absurd h (genForSize_ne_hang o hc fuel r s _ hr hrW (hs s (List.mem_cons_self ..)) hf)

/-- `GenModuli` terminates -/
theorem genModuli_ne_hang (o : Oracle) (hc : StopComplete o) (fuel : Nat) (hf : 2 ^ 65 ≤ fuel)
    (l : Int) (logQ logP : List Int) : genModuli o fuel l logQ logP ≠ .hang := by
  intro h
  unfold genModuli at h
  split at h
  · cases h
  · rename_i hrange
    simp [MinLogN, MaxLogN] at hrange
    have hnlt := of_decide_eq_false hrange.1
    split at h
    · cases h
    · rename_i hsz
      obtain ⟨szQ, szP⟩ := checkModuliLogSize_none hsz
      split at h
      · cases h
      · dsimp only at h
        split at h
        · cases h
        · cases h
        · cases h
        · rename_i hh
          refine absurd hh (genAll_ne_hang o hc fuel _ _ (Nat.one_le_two_pow) ?_ hf _ ?_)
          · have : 2 ^ l.toNat ≤ 2 ^ 22 := Nat.pow_le_pow_right (by decide) (by omega)
            unfold W; omega
          · intro s hs
            have hs' := List.mem_eraseDups.mp hs
            rw [← List.map_append] at hs'
            obtain ⟨t, ht, rfl⟩ := List.mem_map.mp hs'
            rcases List.mem_append.mp ht with ht | ht
            · have := szQ t ht; omega
            · have := szP t ht; omega

/-- the literal constructor terminates -/
theorem newParametersFromLiteral_ne_hang (o : Oracle) (hc : StopComplete o) (fuel : Nat)
    (hf : 2 ^ 65 ≤ fuel) (lit : Literal) : newParametersFromLiteral o fuel lit ≠ .hang := by
  intro h
  unfold newParametersFromLiteral at h
  split at h
  · cases h
  · split at h
    · cases h
    · split at h
      · cases h
      · dsimp only at h
        split at h
        · cases h
        · cases h
        · rename_i hg
          split at hg
          · split at hg
            · cases hg
            · split at hg
              · split at hg
                · cases hg
                · cases hg
                · cases hg
                · rename_i hp; exact absurd hp (genModuli_ne_hang o hc fuel hf _ _ _)
              · cases hg
          · cases hg
        · rename_i q p _
          rcases newParameters_total o lit.logN ((q.orElse fun _ => lit.q).getD [])
            ((p.orElse fun _ => lit.p).getD []) lit.ringType lit.xsWeight0 lit.xeStd0 with ⟨a, ha⟩ | ⟨c, hc'⟩
          · rw [ha] at h; cases h
          · rw [hc'] at h; cases h

end Lattigo.Params
