/-
  C09 — the `Int` interpretation used by the driver satisfies the laws the alias-soundness theorems
  assume (non-vacuity of those hypotheses).
-/
import Lattigo.Proofs.StoreOps
import Lattigo.Proofs.StoreDeg
import Mathlib.Tactic.Ring
import Mathlib.Order.Defs.LinearOrder

namespace Lattigo.Store

theorem intI_tensorLaws_mform : TensorLaws intI .mform where
  comm := by intro x y; simp only [intI, intFn]; ring
  mulMAdd := by intro c y acc; simp only [intI, intFn]
  addComm := by intro x y; simp only [intI, intFn]; ring

theorem intI_tensorLaws_mulT : TensorLaws intI .mulT where
  comm := by intro x y; simp only [intI, intFn]; ring
  mulMAdd := by intro c y acc; simp only [intI, intFn]
  addComm := by intro x y; simp only [intI, intFn]; ring

theorem intI_tensorLaws_mformM : TensorLaws intI .mformM where
  comm := by intro x y; simp only [intI, intFn]; ring
  mulMAdd := by intro c y acc; simp only [intI, intFn]
  addComm := by intro x y; simp only [intI, intFn]; ring

theorem intI_scaleLaws : ScaleLaws intI where
  cmpRefl := by intro x; simp [intI]
  copyId := by intro x; simp [intI, intFn]
  maxIdem := by intro x; simp [intI, intFn]
  maxGt := by
    intro x y h
    simp only [intI, intFn] at *
    have : y < x := compare_gt_iff_gt.mp h
    exact max_eq_left (le_of_lt this)
  maxLt := by
    intro x y h
    simp only [intI, intFn] at *
    have : x < y := compare_lt_iff_lt.mp h
    exact max_eq_right (le_of_lt this)

theorem intI_degLaws (sub : Bool) : DegLaws intI sub where
  copyId := by intro x; simp [intI, intFn]
  scalZero := by intro r; simp [intI, intFn]
  evZeroR := by intro x; cases sub <;> simp [evOf, intI, intFn]
  evZeroL := by intro x; cases sub <;> simp [evOf, post, intI, intFn]

end Lattigo.Store
