/-
  C20 — the masks `Evaluate` derives from an LWE sample (`modSwitch … makeOdd`, `negRev`,
  `mulBySmallMonomial`, `slotMasks` of Model/BlindRot.lean) have entries `< 2N` that are odd or zero: exactly
  the hypothesis of `blindrot_exponent_mask`.  The model's modulus switch is exact integer rounding (no word
  size enters: the code uses `big.Int`), so there is no overflow hypothesis.
-/
import Lattigo.Model.BlindRot
import Mathlib.Tactic.Ring
import Mathlib.Tactic.Linarith

namespace Lattigo.RGSW.BlindRot

/-- entries `< M`, odd or zero -/
def GoodMask (M : Nat) (a : List Nat) : Prop := ∀ x ∈ a, x < M ∧ (x % 2 = 1 ∨ x = 0)

theorem modSwitch_lt (Q M : Nat) (mo : Bool) (x : Nat) (hM : 0 < M) (hev : M % 2 = 0) :
    modSwitch Q M mo x < M := by
  unfold modSwitch
  have ht : divRound (x * M) Q % M < M := Nat.mod_lt _ hM
  generalize divRound (x * M) Q % M = t at *
  simp only
  split
  · rename_i h
    simp only [Bool.and_eq_true, beq_iff_eq, bne_iff_ne, ne_eq] at h
    omega
  · exact ht

theorem modSwitch_odd_or_zero (Q M : Nat) (x : Nat) :
    modSwitch Q M true x % 2 = 1 ∨ modSwitch Q M true x = 0 := by
  unfold modSwitch
  generalize divRound (x * M) Q % M = t
  simp only
  split
  · rename_i h
    simp only [Bool.and_eq_true, beq_iff_eq, bne_iff_ne, ne_eq, Bool.true_and] at h
    left; omega
  · rename_i h
    simp only [Bool.and_eq_true, beq_iff_eq, bne_iff_ne, ne_eq, Bool.true_and, not_and, not_not] at h
    by_cases h2 : t % 2 = 0
    · right; exact h h2
    · left; omega

/-- `x ↦ −x mod M` keeps "below `M`, odd or zero" (`M` even) -/
theorem neg_good (M x : Nat) (hM : 0 < M) (hev : M % 2 = 0) (hx : x < M ∧ (x % 2 = 1 ∨ x = 0)) :
    (M - x % M) % M < M ∧ ((M - x % M) % M % 2 = 1 ∨ (M - x % M) % M = 0) := by
  refine ⟨Nat.mod_lt _ hM, ?_⟩
  obtain ⟨hlt, h⟩ := hx
  rw [Nat.mod_eq_of_lt hlt]
  rcases h with h | h
  · left
    have : M - x < M := by omega
    rw [Nat.mod_eq_of_lt this]; omega
  · right; subst h; simp

theorem goodMask_map_neg (M : Nat) (hM : 0 < M) (hev : M % 2 = 0) (a : List Nat) (h : GoodMask M a) :
    GoodMask M (a.map fun x => (M - x % M) % M) := by
  intro y hy
  simp only [List.mem_map] at hy
  obtain ⟨x, hx, rfl⟩ := hy
  exact neg_good M x hM hev (h x hx)

theorem goodMask_negRev (M : Nat) (hM : 0 < M) (hev : M % 2 = 0) (a : List Nat) (h : GoodMask M a) :
    GoodMask M (negRev M a) := by
  cases a with
  | nil => intro x hx; simp [negRev] at hx
  | cons a0 rest =>
    intro y hy
    simp only [negRev, List.mem_cons] at hy
    rcases hy with rfl | hy
    · exact h _ List.mem_cons_self
    · have hr : GoodMask M rest.reverse := by
        intro x hx; exact h x (List.mem_cons_of_mem _ (List.mem_reverse.mp hx))
      exact goodMask_map_neg M hM hev _ hr y hy

theorem goodMask_mulBySmallMonomial (M : Nat) (hM : 0 < M) (hev : M % 2 = 0) (a : List Nat) (n : Nat)
    (h : GoodMask M a) : GoodMask M (mulBySmallMonomial M a n) := by
  unfold mulBySmallMonomial
  split
  · exact h
  · intro y hy
    rcases List.mem_append.mp hy with hy | hy
    · have hd : GoodMask M (a.drop (a.length - n)) := fun x hx => h x (List.mem_of_mem_drop hx)
      exact goodMask_map_neg M hM hev _ hd y hy
    · exact h y (List.mem_of_mem_take hy)

theorem goodMask_prepMask (Q N : Nat) (hN : 0 < N) (c1 : List Nat) : GoodMask (2 * N) (prepMask Q N c1) := by
  unfold prepMask
  apply goodMask_negRev (2 * N) (by omega) (by omega)
  intro y hy
  simp only [List.mem_map] at hy
  obtain ⟨x, _, rfl⟩ := hy
  exact ⟨modSwitch_lt Q (2 * N) true x (by omega) (by omega), modSwitch_odd_or_zero Q (2 * N) x⟩

/-- every mask `Evaluate` hands to `BlindRotateCore` is good -/
theorem goodMask_slotMasks (N : Nat) (hN : 0 < N) (a0 : List Nat) (h0 : GoodMask (2 * N) a0) (idxs : List Nat) :
    ∀ ia ∈ slotMasks N a0 idxs, GoodMask (2 * N) ia.2 := by
  unfold slotMasks
  have key : ∀ (l : List Nat) (st : Nat × List Nat × List (Nat × List Nat)),
      GoodMask (2 * N) st.2.1 → (∀ ia ∈ st.2.2, GoodMask (2 * N) ia.2) →
      ∀ ia ∈ (l.foldl (fun (st : Nat × List Nat × List (Nat × List Nat)) idx =>
          let a := mulBySmallMonomial (2 * N) st.2.1 (idx - st.1)
          (idx, a, st.2.2 ++ [(idx, a)])) st).2.2, GoodMask (2 * N) ia.2 := by
    intro l
    induction l with
    | nil => intro st _ h2; simpa using h2
    | cons idx l ih =>
      intro st h1 h2
      simp only [List.foldl_cons]
      apply ih
      · exact goodMask_mulBySmallMonomial (2 * N) (by omega) (by omega) _ _ h1
      · intro ia hia
        rcases List.mem_append.mp hia with h | h
        · exact h2 ia h
        · simp only [List.mem_singleton] at h
          subst h
          exact goodMask_mulBySmallMonomial (2 * N) (by omega) (by omega) _ _ h1
  exact key idxs (0, a0, []) h0 (by simp)

/-- the form `blindrot_exponent_mask` asks for -/
theorem goodMask_getD (M : Nat) (a : List Nat) (h : GoodMask M a) :
    ∀ j, j < a.length → a.getD j 0 < M ∧ (a.getD j 0 % 2 = 1 ∨ a.getD j 0 = 0) := by
  intro j hj
  have : a.getD j 0 = a[j] := by simp [List.getD, hj]
  rw [this]
  exact h _ (List.getElem_mem hj)

end Lattigo.RGSW.BlindRot
