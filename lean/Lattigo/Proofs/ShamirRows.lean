/-
  C15: entry-wise description of the row/vector functions of `Lattigo.Model.Shamir`
  (what each output word is, as a scalar function of the input words).
-/
import Lattigo.Model.Shamir
import Lattigo.Proofs.ShamirScalar

namespace Lattigo.Proofs.Shamir
open Lattigo.Model.Shamir

/-! ### generic `getD` lemmas -/

theorem getD_zipWith {α β γ : Type} (f : α → β → γ) (l1 : List α) (l2 : List β) (i : ℕ)
    (d : γ) (d1 : α) (d2 : β) (h1 : i < l1.length) (h2 : i < l2.length) :
    (List.zipWith f l1 l2).getD i d = f (l1.getD i d1) (l2.getD i d2) := by
  induction l1 generalizing l2 i with
  | nil => simp at h1
  | cons a l1 ih =>
    cases l2 with
    | nil => simp at h2
    | cons b l2 =>
      cases i with
      | zero => simp
      | succ i =>
        simp only [List.zipWith_cons_cons, List.getD_cons_succ]
        exact ih l2 i (by simpa using h1) (by simpa using h2)

theorem getD_zip {α β : Type} (l1 : List α) (l2 : List β) (i : ℕ) (d1 : α) (d2 : β)
    (h1 : i < l1.length) (h2 : i < l2.length) :
    (List.zip l1 l2).getD i (d1, d2) = (l1.getD i d1, l2.getD i d2) := by
  unfold List.zip
  exact getD_zipWith _ l1 l2 i _ d1 d2 h1 h2

theorem getD_map' {α β : Type} (f : α → β) (l : List α) (i : ℕ) (d : β) (d' : α) (h : i < l.length) :
    (l.map f).getD i d = f (l.getD i d') := by
  induction l generalizing i with
  | nil => simp at h
  | cons a l ih =>
    cases i with
    | zero => simp
    | succ i => simp only [List.map_cons, List.getD_cons_succ]; exact ih i (by simpa using h)

/-! ### shapes and entries -/

/-- word `k` of row `m`. -/
def ent (rows : Rows) (m k : ℕ) : ℕ := (rows.getD m []).getD k 0

/-- `nr` rows of `N` words. -/
def Shaped (nr N : ℕ) (rows : Rows) : Prop :=
  rows.length = nr ∧ ∀ m, m < nr → (rows.getD m []).length = N

instance (nr N : ℕ) (rows : Rows) : Decidable (Shaped nr N rows) := by unfold Shaped; infer_instance

theorem list_ext_getD {α : Type} (a b : List α) (d : α) (hl : a.length = b.length)
    (h : ∀ i, i < a.length → a.getD i d = b.getD i d) : a = b := by
  apply List.ext_getElem hl
  intro i h1 h2
  have := h i h1
  simpa only [List.getD_eq_getElem?_getD, List.getElem?_eq_getElem h1, List.getElem?_eq_getElem h2,
    Option.getD_some] using this

theorem rows_ext {nr N : ℕ} {a b : Rows} (ha : Shaped nr N a) (hb : Shaped nr N b)
    (h : ∀ m k, m < nr → k < N → ent a m k = ent b m k) : a = b := by
  apply list_ext_getD a b [] (by rw [ha.1, hb.1])
  intro m hm
  rw [ha.1] at hm
  apply list_ext_getD _ _ 0 (by rw [ha.2 m hm, hb.2 m hm])
  intro k hk
  rw [ha.2 m hm] at hk
  exact h m k hm hk

/-- the modulus of row `m`. -/
def modAt (ms : List ℕ) (m : ℕ) : ℕ := ms.getD m 0

theorem modAt_mem (ms : List ℕ) (m : ℕ) (h : m < ms.length) : modAt ms m ∈ ms := by
  unfold modAt
  simp only [List.getD_eq_getElem?_getD, List.getElem?_eq_getElem h, Option.getD_some]
  exact List.getElem_mem h

/-! ### `addRows`, `mulScalarRows`, `scaleRows` -/

theorem row_addRows (ms : List ℕ) (a b : Rows) (m : ℕ) (hm : m < ms.length) (ha : m < a.length)
    (hb : m < b.length) :
    (addRows ms a b).getD m [] =
      List.zipWith (fun x y => (x + y) % modAt ms m) (a.getD m []) (b.getD m []) := by
  unfold addRows
  rw [getD_zipWith _ ms (List.zip a b) m [] 0 ([], []) hm (by simp [List.length_zip]; omega),
    getD_zip a b m [] [] ha hb]
  rfl

theorem shaped_addRows {nr N : ℕ} (ms : List ℕ) (a b : Rows) (hms : ms.length = nr)
    (ha : Shaped nr N a) (hb : Shaped nr N b) : Shaped nr N (addRows ms a b) := by
  constructor
  · unfold addRows; simp [List.length_zipWith, List.length_zip, ha.1, hb.1, hms]
  · intro m hm
    rw [row_addRows ms a b m (by omega) (by rw [ha.1]; exact hm) (by rw [hb.1]; exact hm)]
    rw [List.length_zipWith, ha.2 m hm, hb.2 m hm, Nat.min_self]

theorem ent_addRows {nr N : ℕ} (ms : List ℕ) (a b : Rows) (hms : ms.length = nr)
    (ha : Shaped nr N a) (hb : Shaped nr N b) (m k : ℕ) (hm : m < nr) (hk : k < N) :
    ent (addRows ms a b) m k = (ent a m k + ent b m k) % modAt ms m := by
  unfold ent
  rw [row_addRows ms a b m (by omega) (by rw [ha.1]; exact hm) (by rw [hb.1]; exact hm)]
  exact getD_zipWith _ _ _ k 0 0 0 (by rw [ha.2 m hm]; exact hk) (by rw [hb.2 m hm]; exact hk)

theorem row_mulScalarRows (ms : List ℕ) (x : ℕ) (a : Rows) (m : ℕ) (hm : m < ms.length)
    (ha : m < a.length) :
    (mulScalarRows ms x a).getD m [] = (a.getD m []).map fun w => w * (x % modAt ms m) % modAt ms m := by
  unfold mulScalarRows
  rw [getD_zipWith _ ms a m [] 0 [] hm ha]
  rfl

theorem shaped_mulScalarRows {nr N : ℕ} (ms : List ℕ) (x : ℕ) (a : Rows) (hms : ms.length = nr)
    (ha : Shaped nr N a) : Shaped nr N (mulScalarRows ms x a) := by
  constructor
  · unfold mulScalarRows; simp [List.length_zipWith, ha.1, hms]
  · intro m hm
    rw [row_mulScalarRows ms x a m (by omega) (by rw [ha.1]; exact hm), List.length_map]
    exact ha.2 m hm

theorem ent_mulScalarRows {nr N : ℕ} (ms : List ℕ) (x : ℕ) (a : Rows) (hms : ms.length = nr)
    (ha : Shaped nr N a) (m k : ℕ) (hm : m < nr) (hk : k < N) :
    ent (mulScalarRows ms x a) m k = ent a m k * (x % modAt ms m) % modAt ms m := by
  unfold ent
  rw [row_mulScalarRows ms x a m (by omega) (by rw [ha.1]; exact hm)]
  exact getD_map' _ _ k 0 0 (by rw [ha.2 m hm]; exact hk)

theorem row_scaleRows (ms : List ℕ) (a : Rows) (g : ℕ → ℕ) (m : ℕ) (hm : m < ms.length)
    (ha : m < a.length) :
    (scaleRows ms a (ms.map g)).getD m [] =
      (a.getD m []).map fun w => w * g (modAt ms m) % modAt ms m := by
  unfold scaleRows
  rw [getD_zipWith _ ms (List.zip a (ms.map g)) m [] 0 ([], 0) hm (by simp [List.length_zip]; omega),
    getD_zip a (ms.map g) m [] 0 ha (by simpa using hm), getD_map' g ms m 0 0 hm]
  rfl

theorem shaped_scaleRows {nr N : ℕ} (ms : List ℕ) (a : Rows) (g : ℕ → ℕ) (hms : ms.length = nr)
    (ha : Shaped nr N a) : Shaped nr N (scaleRows ms a (ms.map g)) := by
  constructor
  · unfold scaleRows; simp [List.length_zipWith, List.length_zip, ha.1, hms]
  · intro m hm
    rw [row_scaleRows ms a g m (by omega) (by rw [ha.1]; exact hm), List.length_map]
    exact ha.2 m hm

theorem ent_scaleRows {nr N : ℕ} (ms : List ℕ) (a : Rows) (g : ℕ → ℕ) (hms : ms.length = nr)
    (ha : Shaped nr N a) (m k : ℕ) (hm : m < nr) (hk : k < N) :
    ent (scaleRows ms a (ms.map g)) m k = ent a m k * g (modAt ms m) % modAt ms m := by
  unfold ent
  rw [row_scaleRows ms a g m (by omega) (by rw [ha.1]; exact hm)]
  exact getD_map' _ _ k 0 0 (by rw [ha.2 m hm]; exact hk)

/-! ### `evalPolyScalarRows` = Horner on every word -/

theorem evalPolyScalarRows_spec {nr N : ℕ} (ms : List ℕ) (x : ℕ) (hms : ms.length = nr)
    (polys : List Rows) (hne : polys ≠ []) (hsh : ∀ p ∈ polys, Shaped nr N p) :
    ∃ out, evalPolyScalarRows ms x polys = some out ∧ Shaped nr N out ∧
      ∀ m k, m < nr → k < N → ent out m k = horner (modAt ms m) x (polys.map fun p => ent p m k) := by
  induction polys with
  | nil => exact absurd rfl hne
  | cons p rest ih =>
    cases rest with
    | nil =>
      refine ⟨p, rfl, hsh p List.mem_cons_self, ?_⟩
      intro m k _ _
      simp [horner]
    | cons p' rest' =>
      obtain ⟨acc, hacc, hshacc, hent⟩ := ih (by simp) (fun c hc => hsh c (List.mem_cons_of_mem _ hc))
      have hp : Shaped nr N p := hsh p List.mem_cons_self
      refine ⟨addRows ms (mulScalarRows ms x acc) p, ?_, ?_, ?_⟩
      · rw [evalPolyScalarRows, hacc]
      · exact shaped_addRows ms _ _ hms (shaped_mulScalarRows ms x acc hms hshacc) hp
      · intro m k hm hk
        rw [ent_addRows ms _ _ hms (shaped_mulScalarRows ms x acc hms hshacc) hp m k hm hk,
          ent_mulScalarRows ms x acc hms hshacc m k hm hk, hent m k hm hk]
        simp [horner]

/-! ### the combiner's table and product loop -/

theorem lookup_table (own : ℕ) (g : ℕ → List ℕ) (others : List ℕ) (a : ℕ) (ha : a ∈ others)
    (hne : a ≠ own) :
    ((others.filter (· ≠ own)).map fun spk => (spk, g spk)).lookup a = some (g a) := by
  induction others with
  | nil => simp at ha
  | cons b rest ih =>
    by_cases hb : b ≠ own
    · rw [List.filter_cons_of_pos (by simpa using hb), List.map_cons, List.lookup_cons]
      by_cases hab : a = b
      · subst hab; simp
      · have : (a == b) = false := by simpa using hab
        rw [this]
        rcases List.mem_cons.mp ha with h | h
        · exact absurd h hab
        · exact ih h
    · rw [List.filter_cons_of_neg (by simpa using hb)]
      have hab : a ≠ b := by
        intro h; subst h; exact hb hne
      rcases List.mem_cons.mp ha with h | h
      · exact absurd h hab
      · exact ih h

theorem mulScalars_map (ms : List ℕ) (f g : ℕ → ℕ) :
    mulScalars ms (ms.map f) (ms.map g) = ms.map fun q => f q * g q % q := by
  unfold mulScalars
  induction ms with
  | nil => rfl
  | cons q ms ih => simp only [List.map_cons, List.zip_cons_cons, List.zipWith_cons_cons, ih]

/-- with the table of `newCombiner`, the vector loop is the scalar loop for every modulus; it does
not hit a missing entry as long as every active point other than `own` was among `others`, and
does not report a collision as long as no active point other than `own` is congruent to `own`
modulo a modulus. -/
theorem lagrangeProd_newCombiner (r : RingQP) (own : ℕ) (others : List ℕ) (t : Int) (acts : List ℕ)
    (hmem : ∀ a ∈ acts, a ≠ own → a ∈ others)
    (hnc : ∀ a ∈ acts, a ≠ own → pointsCollide r.ms own a = false) (f : ℕ → ℕ) :
    lagrangeProd r.ms (newCombiner r own others t).table own acts (r.ms.map f) =
      .ok (r.ms.map fun q => lagProdScalar q own acts (f q)) := by
  induction acts generalizing f with
  | nil => simp [lagrangeProd, lagProdScalar]
  | cons a rest ih =>
    have ihr := ih (fun b hb => hmem b (List.mem_cons_of_mem _ hb))
      (fun b hb => hnc b (List.mem_cons_of_mem _ hb))
    unfold lagrangeProd
    by_cases h : a ≠ own
    · rw [if_pos h]
      have hc : pointsCollide r.ms own a = false := hnc a List.mem_cons_self h
      rw [hc]
      have hl : (newCombiner r own others t).table.lookup a = some (r.ms.map fun q => lagrangeCoeff q own a) := by
        unfold newCombiner
        exact lookup_table own (fun spk => r.ms.map fun q => lagrangeCoeff q own spk) others a
          (hmem a List.mem_cons_self h) h
      rw [hl]
      simp only [Bool.false_eq_true, if_false]
      rw [mulScalars_map, ihr]
      congr 1
      apply List.map_congr_left
      intro q _
      simp [lagProdScalar, h]
    · rw [if_neg h, ihr]
      congr 1
      apply List.map_congr_left
      intro q _
      simp [lagProdScalar, h]

/-- a colliding active point is reported as `err` if no table miss precedes it (in particular if
there is no table miss at all). -/
theorem lagrangeProd_collide_err (ms : List ℕ) (table : List (ℕ × List ℕ)) (own : ℕ) (acts : List ℕ)
    (hm : ∀ a ∈ acts, a ≠ own → ∃ c, table.lookup a = some c)
    (hc : ∃ a ∈ acts, a ≠ own ∧ pointsCollide ms own a = true) (prod : List ℕ) :
    lagrangeProd ms table own acts prod = .err := by
  induction acts generalizing prod with
  | nil => obtain ⟨a, ha, _⟩ := hc; simp at ha
  | cons x rest ih =>
    unfold lagrangeProd
    by_cases hx : x ≠ own
    · rw [if_pos hx]
      by_cases hcx : pointsCollide ms own x = true
      · rw [if_pos hcx]
      · rw [if_neg hcx]
        obtain ⟨c, hcl⟩ := hm x List.mem_cons_self hx
        rw [hcl]
        simp only
        apply ih (fun b hb => hm b (List.mem_cons_of_mem _ hb))
        obtain ⟨a, ha, hne, hca⟩ := hc
        rcases List.mem_cons.mp ha with h | h
        · subst h; exact absurd hca hcx
        · exact ⟨a, h, hne, hca⟩
    · rw [if_neg hx]
      apply ih (fun b hb => hm b (List.mem_cons_of_mem _ hb))
      obtain ⟨a, ha, hne, hca⟩ := hc
      rcases List.mem_cons.mp ha with h | h
      · subst h; exact absurd hne hx
      · exact ⟨a, h, hne, hca⟩

/-- whatever the table: with a colliding active point the loop never produces a value. -/
theorem lagrangeProd_collide_not_ok (ms : List ℕ) (table : List (ℕ × List ℕ)) (own : ℕ) (acts : List ℕ)
    (hc : ∃ a ∈ acts, a ≠ own ∧ pointsCollide ms own a = true) (prod p : List ℕ) :
    lagrangeProd ms table own acts prod ≠ .ok p := by
  induction acts generalizing prod with
  | nil => obtain ⟨a, ha, _⟩ := hc; simp at ha
  | cons x rest ih =>
    unfold lagrangeProd
    by_cases hx : x ≠ own
    · rw [if_pos hx]
      by_cases hcx : pointsCollide ms own x = true
      · rw [if_pos hcx]; simp
      · rw [if_neg hcx]
        cases table.lookup x with
        | none => simp
        | some c =>
          simp only
          apply ih
          obtain ⟨a, ha, hne, hca⟩ := hc
          rcases List.mem_cons.mp ha with h | h
          · subst h; exact absurd hca hcx
          · exact ⟨a, h, hne, hca⟩
    · rw [if_neg hx]
      apply ih
      obtain ⟨a, ha, hne, hca⟩ := hc
      rcases List.mem_cons.mp ha with h | h
      · subst h; exact absurd hne hx
      · exact ⟨a, h, hne, hca⟩

/-- an `ok` result means: no table miss and no collision among the points gone through. -/
theorem lagrangeProd_ok_inv (ms : List ℕ) (table : List (ℕ × List ℕ)) (own : ℕ) (acts : List ℕ)
    (prod p : List ℕ) (h : lagrangeProd ms table own acts prod = .ok p) :
    ∀ a ∈ acts, a ≠ own → (∃ c, table.lookup a = some c) ∧ pointsCollide ms own a = false := by
  induction acts generalizing prod with
  | nil => intro a ha; simp at ha
  | cons x rest ih =>
    unfold lagrangeProd at h
    by_cases hx : x ≠ own
    · rw [if_pos hx] at h
      by_cases hcx : pointsCollide ms own x = true
      · rw [if_pos hcx] at h; exact absurd h (by simp)
      · rw [if_neg hcx] at h
        cases hl : table.lookup x with
        | none => rw [hl] at h; exact absurd h (by simp)
        | some c =>
          rw [hl] at h
          simp only at h
          intro a ha hne
          rcases List.mem_cons.mp ha with h' | h'
          · subst h'; exact ⟨⟨c, hl⟩, by simpa using hcx⟩
          · exact ih _ h a h' hne
    · rw [if_neg hx] at h
      intro a ha hne
      rcases List.mem_cons.mp ha with h' | h'
      · subst h'; exact absurd hne hx
      · exact ih _ h a h' hne

/-- distinct residues ⇒ `pointsCollide` is false. -/
theorem pointsCollide_false_of_distinct (ms : List ℕ) (S : List ℕ)
    (hdist : ∀ q ∈ ms, DistinctMod q S) (a b : ℕ) (ha : a ∈ S) (hb : b ∈ S) (hne : a ≠ b) :
    pointsCollide ms a b = false := by
  unfold pointsCollide
  rw [List.any_eq_false]
  intro q hq hc
  have heq : a % q = b % q := by simpa using hc
  exact hne (List.inj_on_of_nodup_map (hdist q hq) ha hb heq)

/-! ### ringqp level -/

/-- a `ringqp.Poly` at the (full) level of ring `r`, ring degree `N`. -/
def ShapedQP (r : RingQP) (N : ℕ) (x : QP) : Prop := x.nq = r.nq ∧ Shaped r.ms.length N x.rows

instance (r : RingQP) (N : ℕ) (x : QP) : Decidable (ShapedQP r N x) := by unfold ShapedQP; infer_instance

theorem atCounts_self (r : RingQP) :
    r.atCounts r.nq (r.ms.length - r.nq) = r := by
  unfold RingQP.atCounts
  have h1 : (r.ms.take r.nq).take r.nq = r.ms.take r.nq := by rw [List.take_take]; simp
  have h2 : (r.ms.drop r.nq).take (r.ms.length - r.nq) = r.ms.drop r.nq := by
    apply List.take_of_length_le; simp
  rw [h1, h2, List.take_append_drop, Nat.min_self]

theorem shapedQP_zero (r : RingQP) (N : ℕ) : ShapedQP r N (zeroQP r N) := by
  refine ⟨rfl, by simp [zeroQP], ?_⟩
  intro m hm
  simp only [zeroQP]
  rw [getD_map' _ r.ms m [] 0 hm]
  simp

theorem ent_zero (r : RingQP) (N m k : ℕ) (hm : m < r.ms.length) (hk : k < N) :
    ent (zeroQP r N).rows m k = 0 := by
  unfold ent zeroQP
  simp only
  rw [getD_map' _ r.ms m [] 0 hm]
  simp [List.getD_eq_getElem?_getD, hk]

theorem aggregateShares_ok (r : RingQP) (N : ℕ) (a b : QP)
    (ha : ShapedQP r N a) (hb : ShapedQP r N b) :
    aggregateShares r a b a = .ok (addQP r a b) := by
  unfold aggregateShares
  have : ¬ (a.nq ≠ b.nq ∨ a.nq ≠ a.nq ∨ a.rows.length - a.nq ≠ b.rows.length - b.nq ∨
      a.rows.length - a.nq ≠ a.rows.length - a.nq) := by
    rw [ha.1, hb.1, ha.2.1, hb.2.1]; simp
  rw [if_neg this, ha.1, ha.2.1, atCounts_self r]

theorem shapedQP_addQP (r : RingQP) (N : ℕ) (a b : QP) (ha : ShapedQP r N a) (hb : ShapedQP r N b) :
    ShapedQP r N (addQP r a b) :=
  ⟨rfl, shaped_addRows r.ms a.rows b.rows rfl ha.2 hb.2⟩

/-- `aggregateAll` succeeds on well-shaped shares and every word is the running sum mod `q`. -/
theorem aggregateAll_spec (r : RingQP) (N : ℕ) (l : List QP) (acc : QP)
    (hacc : ShapedQP r N acc) (hl : ∀ s ∈ l, ShapedQP r N s) :
    ∃ out, aggregateAll r acc l = .ok out ∧ ShapedQP r N out ∧
      ∀ m k, m < r.ms.length → k < N →
        ent out.rows m k = sumMod (modAt r.ms m) (ent acc.rows m k) (l.map fun s => ent s.rows m k) := by
  induction l generalizing acc with
  | nil => exact ⟨acc, rfl, hacc, fun m k _ _ => by simp [sumMod]⟩
  | cons s rest ih =>
    have hs := hl s List.mem_cons_self
    obtain ⟨out, ho, hsh, hent⟩ := ih (addQP r acc s) (shapedQP_addQP r N acc s hacc hs)
      (fun c hc => hl c (List.mem_cons_of_mem _ hc))
    refine ⟨out, ?_, hsh, ?_⟩
    · rw [aggregateAll, aggregateShares_ok r N acc s hacc hs]
      exact ho
    · intro m k hm hk
      rw [hent m k hm hk]
      simp only [addQP, List.map_cons, sumMod, List.foldl_cons]
      rw [ent_addRows r.ms acc.rows s.rows rfl hacc.2 hs.2 m k hm hk]

end Lattigo.Proofs.Shamir
