/-
  C11 proofs, part 10: `rotate_slots` — the automorphism `X ↦ X^g` acts on the *slots* of a
  polynomial (its values at the odd powers of a `2N`-th root of `-1`) by multiplying the exponent
  by `g`; for `g = GaloisElement(k) = 5^k` this is the cyclic rotation by `k` of each slot row, for
  `g = 2N-1` it swaps the two rows (BGV) / conjugates (CKKS).

  Part A — abstract, over any commutative ring `R` and any `ζ` with `ζ^N = -1`:
    `sigma N g a`  = coefficient list of `a(X^g) mod X^N+1`,
    `evalP_sigma`  : `(σ_g a)(x) = a(x^g)` whenever `x^N = -1`,
    `E ζ M a u`    = `a(ζ^u)` for `u : ZMod M` (`M = 2N`),   `E_sigma : E (σ_g a) u = E a (u·g)`,
    `rotate_slots`, `rotate_slots_neg`, `swap_slots`, `conj_slots`, `sigma_comp_slots`.
  Part B — the executable `RPoly.rowAut g q` (the model of `ring.Automorphism` on one RNS row in the
    coefficient domain) *is* `sigma` after reading the coefficients in any ring where `q = 0`.
  Part C — BGV layout: with the model's `permuteMatrix` indexing and the model's NTT over `Z_t`,
    `decodeRingTU` after `rowAut g t` is `slotAut .bgv` of `decodeRingTU`, for `g = GaloisElement(k)`
    (rotation of both rows by `k`) and `g = 2N-1` (row swap).
  Part D — `ring.AutomorphismNTT` (index table `AutomorphismNTTIndex`, applied in the NTT domain) is
    `NTT ∘ rowAut g ∘ NTT⁻¹` (`nttStd_rowAut`, `automorphismNTT_spec`).
  Part E — ciphertext level in the evaluation domain: C04's `automorphism_phase` instantiated with the
    slot permutation (`automorphism_slots`, `rotate_ciphertext_slots`).
-/
import Lattigo.Model.RPoly
import Lattigo.Model.EncoderT
import Lattigo.Model.InnerSum
import Lattigo.Proofs.GaloisDlog
import Lattigo.Proofs.GaloisNTTIndex
import Lattigo.Proofs.SlotLawful
import Lattigo.Proofs.NTTTables
import Lattigo.Proofs.KeySwitch
import Mathlib.Algebra.BigOperators.Ring.Finset
import Mathlib.Algebra.BigOperators.Intervals

namespace Lattigo.Proofs.RotateSlots
open Lattigo Lattigo.Model.Galois Lattigo.Proofs.Galois Lattigo.Proofs.SlotLawful
open Finset

/-! ## Part A: abstract statement -/

section Abstract
variable {R : Type} [CommRing R]

/-- value at `x` of the polynomial with coefficient list `a`: `Σ_i a_i x^i`. -/
def evalP (a : List R) (x : R) : R := ∑ i ∈ range a.length, a.getD i 0 * x ^ i

/-- coefficient `e` of `a(X^g) mod X^N+1`: `X^(i·g) = ± X^(i·g mod N)`, the sign being `-` iff
    `i·g mod 2N ≥ N`. -/
def sigmaCoeff (N g : ℕ) (a : List R) (e : ℕ) : R :=
  ∑ i ∈ range N,
    if i * g % (2 * N) = e then a.getD i 0
    else if i * g % (2 * N) = e + N then - a.getD i 0 else 0

/-- `σ_g a = a(X^g) mod X^N+1` on coefficient lists of length `N`. -/
def sigma (N g : ℕ) (a : List R) : List R := (List.range N).map (sigmaCoeff N g a)

@[simp] theorem sigma_length (N g : ℕ) (a : List R) : (sigma N g a).length = N := by
  simp [sigma]

theorem pow_mod_of_pow_eq_one {x : R} {M : ℕ} (h : x ^ M = 1) (n : ℕ) : x ^ (n % M) = x ^ n := by
  conv_rhs => rw [← Nat.div_add_mod n M, pow_add, pow_mul, h, one_pow, one_mul]

theorem sq_of_neg_one {x : R} {N : ℕ} (h : x ^ N = -1) : x ^ (2 * N) = 1 := by
  rw [mul_comm, pow_mul, h]; simp

/-- one monomial: `Σ_e c(i,e) x^e = x^(i·g)`. -/
theorem monomial_fold {x : R} {N : ℕ} (hN : 0 < N) (hx : x ^ N = -1) (c : R) (r : ℕ) (hr : r < 2 * N) :
    (∑ e ∈ range N, (if r = e then c else if r = e + N then -c else 0) * x ^ e) = c * x ^ r := by
  by_cases hlt : r < N
  · rw [Finset.sum_eq_single r]
    · simp
    · intro e _ hne
      have h1 : ¬ r = e := fun h => hne h.symm
      have h2 : ¬ r = e + N := by omega
      simp [h1, h2]
    · intro h; exact absurd (Finset.mem_range.mpr hlt) h
  · rw [Finset.sum_eq_single (r - N)]
    · have h1 : ¬ r = r - N := by omega
      have h2 : r = r - N + N := by omega
      rw [if_neg h1, if_pos h2]
      conv_rhs => rw [h2, pow_add, hx]
      ring
    · intro e he hne
      have h1 : ¬ r = e := by have := Finset.mem_range.mp he; omega
      have h2 : ¬ r = e + N := by omega
      simp [h1, h2]
    · intro h; exact absurd (Finset.mem_range.mpr (by omega)) h

/-- **evaluation of `σ_g a`**: at every root `x` of `X^N+1`, `(σ_g a)(x) = a(x^g)`.  No condition
    on `g`. -/
theorem evalP_sigma {N : ℕ} (g : ℕ) (a : List R) (ha : a.length = N) (x : R) (hx : x ^ N = -1) :
    evalP (sigma N g a) x = evalP a (x ^ g) := by
  rcases Nat.eq_zero_or_pos N with h0 | hN
  · subst h0; simp [evalP, sigma, ha]
  unfold evalP
  rw [sigma_length, ha]
  have hget : ∀ e ∈ range N, (sigma N g a).getD e 0 * x ^ e = sigmaCoeff N g a e * x ^ e := by
    intro e he
    have he' := Finset.mem_range.mp he
    simp [sigma, List.getD_eq_getElem?_getD, he']
  rw [Finset.sum_congr rfl hget]
  unfold sigmaCoeff
  simp only [Finset.sum_mul]
  rw [Finset.sum_comm]
  apply Finset.sum_congr rfl
  intro i _
  have hr : i * g % (2 * N) < 2 * N := Nat.mod_lt _ (by omega)
  rw [monomial_fold hN hx (a.getD i 0) _ hr, pow_mod_of_pow_eq_one (sq_of_neg_one hx), ← pow_mul,
    mul_comm g i]

/-- the slot function: `E ζ M a u = a(ζ^u)`, `u ∈ ZMod M` (`M = 2N`; only odd `u` are roots of
    `X^N+1`). -/
def E (ζ : R) (M : ℕ) (a : List R) (u : ZMod M) : R := evalP a (ζ ^ u.val)

theorem neg_one_pow_odd {n : ℕ} (h : n % 2 = 1) : (-1 : R) ^ n = -1 :=
  Odd.neg_one_pow (Nat.odd_iff.mpr h)

/-- **`X ↦ X^g` multiplies the slot exponent by `g`**: `(σ_g a)(ζ^u) = a(ζ^(u·g))` for odd `u`. -/
theorem E_sigma {N M : ℕ} [NeZero M] (hM : M = 2 * N) (ζ : R) (hζ : ζ ^ N = -1) (g : ℕ) (a : List R)
    (ha : a.length = N) (u : ZMod M) (hu : u.val % 2 = 1) :
    E ζ M (sigma N g a) u = E ζ M a (u * (g : ZMod M)) := by
  subst hM
  unfold E
  have hx : (ζ ^ u.val) ^ N = -1 := by
    rw [← pow_mul, mul_comm, pow_mul, hζ, neg_one_pow_odd hu]
  rw [evalP_sigma g a ha _ hx, ← pow_mul, ZMod.val_mul, ZMod.val_natCast, Nat.mul_mod_mod,
    pow_mod_of_pow_eq_one (sq_of_neg_one hζ)]

/-- units of `ZMod 2^m` are odd. -/
theorem unit_val_odd (m : ℕ) (hm : 1 ≤ m) (u : (ZMod (2 ^ m))ˣ) : (u : ZMod (2 ^ m)).val % 2 = 1 := by
  have hc := ZMod.val_coe_unit_coprime u
  obtain ⟨j, rfl⟩ : ∃ j, m = j + 1 := ⟨m - 1, by omega⟩
  have h2 : Nat.Coprime (u : ZMod (2 ^ (j + 1))).val 2 :=
    Nat.Coprime.coprime_dvd_right ⟨2 ^ j, by ring⟩ hc
  rcases Nat.mod_two_eq_zero_or_one (u : ZMod (2 ^ (j + 1))).val with h | h
  · exfalso
    have : 2 ∣ Nat.gcd (u : ZMod (2 ^ (j + 1))).val 2 :=
      Nat.dvd_gcd (Nat.dvd_of_mod_eq_zero h) (dvd_refl 2)
    rw [h2] at this; omega
  · exact h

variable {t : ℕ} (ζ : R)

/-- `nthRoot = 2^(t+3) = 2N`, `N = 2^(t+2)`, `N/2 = 2^(t+1)` slots per row. -/
theorem nthRoot_eq (t : ℕ) : 2 ^ (t + 3) = 2 * 2 ^ (t + 2) := by ring

/-- `σ_g` at a unit base point. -/
theorem E_sigma_unit (hζ : ζ ^ 2 ^ (t + 2) = -1) (g : ℕ) (a : List R) (ha : a.length = 2 ^ (t + 2))
    (u : (ZMod (2 ^ (t + 3)))ˣ) :
    E ζ (2 ^ (t + 3)) (sigma (2 ^ (t + 2)) g a) u
      = E ζ (2 ^ (t + 3)) a ((u : ZMod (2 ^ (t + 3))) * (g : ZMod (2 ^ (t + 3)))) :=
  E_sigma (nthRoot_eq t) ζ hζ g a ha _ (unit_val_odd _ (by omega) u)

/-- **`rotate_slots`, unit form**: `σ_{GaloisElement(k)}` moves the slot at `u` to the slot at
    `u·5^k`, for every Go `int` `k`. -/
theorem rotate_slots_unit (ht : t + 3 ≤ 64) (hζ : ζ ^ 2 ^ (t + 2) = -1) (a : List R)
    (ha : a.length = 2 ^ (t + 2)) (u : (ZMod (2 ^ (t + 3)))ˣ) (k : ℤ) :
    E ζ (2 ^ (t + 3)) (sigma (2 ^ (t + 2)) (galEl (2 ^ (t + 3)) k) a) u
      = E ζ (2 ^ (t + 3)) a ((u * five (t + 3) ^ k : (ZMod (2 ^ (t + 3)))ˣ) : ZMod (2 ^ (t + 3))) := by
  rw [E_sigma_unit ζ hζ _ a ha u, galEl_cast _ (by omega) ht, Units.val_mul]

/-- first slot row: `slot0 a j = a(ζ^(5^j))`; second row: `slot1 a j = a(ζ^(-5^j))`. -/
def slot0 (ζ : R) (M : ℕ) (a : List R) (j : ℕ) : R := E ζ M a ((5 : ZMod M) ^ j)
def slot1 (ζ : R) (M : ℕ) (a : List R) (j : ℕ) : R := E ζ M a (-(5 : ZMod M) ^ j)

/-- **`rotate_slots`** (first row): the slots of `σ_{GaloisElement(k)} a` are the slots of `a`
    rotated cyclically by `k`: slot `j` receives slot `(j + k) mod N/2`. -/
theorem rotate_slots (ht : t + 3 ≤ 64) (hζ : ζ ^ 2 ^ (t + 2) = -1) (a : List R)
    (ha : a.length = 2 ^ (t + 2)) (k : ℤ) (j : ℕ) :
    slot0 ζ (2 ^ (t + 3)) (sigma (2 ^ (t + 2)) (galEl (2 ^ (t + 3)) k) a) j
      = slot0 ζ (2 ^ (t + 3)) a (((j : ℤ) + k) % ((2 ^ (t + 1) : ℕ) : ℤ)).toNat := by
  unfold slot0
  have h := rotate_slots_unit ζ ht hζ a ha (five (t + 3) ^ j) k
  rw [five_pow_mul_zpow] at h
  simpa using h

/-- **`rotate_slots`** (second row / conjugate slots): same rotation. -/
theorem rotate_slots_neg (ht : t + 3 ≤ 64) (hζ : ζ ^ 2 ^ (t + 2) = -1) (a : List R)
    (ha : a.length = 2 ^ (t + 2)) (k : ℤ) (j : ℕ) :
    slot1 ζ (2 ^ (t + 3)) (sigma (2 ^ (t + 2)) (galEl (2 ^ (t + 3)) k) a) j
      = slot1 ζ (2 ^ (t + 3)) a (((j : ℤ) + k) % ((2 ^ (t + 1) : ℕ) : ℤ)).toNat := by
  unfold slot1
  have h := rotate_slots_unit ζ ht hζ a ha (-(five (t + 3) ^ j)) k
  rw [neg_mul, five_pow_mul_zpow] at h
  simpa using h

theorem orderTwo_cast (m : ℕ) : (((2 ^ m - 1 : ℕ)) : ZMod (2 ^ m)) = -1 := by
  have h1 : 1 ≤ 2 ^ m := Nat.one_le_two_pow
  rw [Nat.cast_sub h1]
  have := ZMod.natCast_self (2 ^ m)
  rw [this]; simp

/-- **the order-two element `2N-1`** exchanges the slot at `u` with the slot at `-u` … -/
theorem swap_slots_unit (hζ : ζ ^ 2 ^ (t + 2) = -1) (a : List R) (ha : a.length = 2 ^ (t + 2))
    (u : (ZMod (2 ^ (t + 3)))ˣ) :
    E ζ (2 ^ (t + 3)) (sigma (2 ^ (t + 2)) (2 ^ (t + 3) - 1) a) u
      = E ζ (2 ^ (t + 3)) a (-(u : ZMod (2 ^ (t + 3)))) := by
  rw [E_sigma_unit ζ hζ _ a ha u, orderTwo_cast]; simp

/-- … i.e. it swaps the two slot rows (BGV `RotateRows`). -/
theorem swap_slots (hζ : ζ ^ 2 ^ (t + 2) = -1) (a : List R) (ha : a.length = 2 ^ (t + 2)) (j : ℕ) :
    slot0 ζ (2 ^ (t + 3)) (sigma (2 ^ (t + 2)) (2 ^ (t + 3) - 1) a) j = slot1 ζ (2 ^ (t + 3)) a j
    ∧ slot1 ζ (2 ^ (t + 3)) (sigma (2 ^ (t + 2)) (2 ^ (t + 3) - 1) a) j = slot0 ζ (2 ^ (t + 3)) a j := by
  unfold slot0 slot1
  constructor
  · have h := swap_slots_unit ζ hζ a ha (five (t + 3) ^ j)
    simpa using h
  · have h := swap_slots_unit ζ hζ a ha (-(five (t + 3) ^ j))
    simpa using h

/-- **CKKS `Conjugate`**: if `c` is a ring endomorphism fixing the coefficients of `a` and sending
    `ζ` to `ζ⁻¹ = ζ^(2N-1)` (complex conjugation for real `a` and `ζ = e^{iπ/N}`), then every slot of
    `σ_{2N-1} a` is the conjugate of the corresponding slot of `a`. -/
theorem conj_slots (hζ : ζ ^ 2 ^ (t + 2) = -1) (a : List R) (ha : a.length = 2 ^ (t + 2))
    (c : R →+* R) (hc : ∀ i, c (a.getD i 0) = a.getD i 0) (hcζ : c ζ = ζ ^ (2 ^ (t + 3) - 1))
    (u : (ZMod (2 ^ (t + 3)))ˣ) :
    E ζ (2 ^ (t + 3)) (sigma (2 ^ (t + 2)) (2 ^ (t + 3) - 1) a) u = c (E ζ (2 ^ (t + 3)) a u) := by
  rw [E_sigma_unit ζ hζ _ a ha u]
  have h1 : ζ ^ (2 ^ (t + 3)) = 1 := by rw [nthRoot_eq]; exact sq_of_neg_one hζ
  unfold E evalP
  rw [map_sum]
  apply Finset.sum_congr rfl
  intro i _
  rw [map_mul, hc, map_pow, map_pow, hcζ, ZMod.val_mul, ZMod.val_natCast, Nat.mul_mod_mod,
    pow_mod_of_pow_eq_one h1, ← pow_mul, ← pow_mul, ← pow_mul]
  congr 2
  ring

/-- **composition**, on every slot: `σ_g ∘ σ_h` and `σ_{g·h mod 2N}` have the same slots (`g` odd).
    (The slots at the units `u` determine the polynomial whenever `N` is invertible and `ζ` is a
    primitive `2N`-th root: C01 `intt_ntt`.) -/
theorem sigma_comp_slots (hζ : ζ ^ 2 ^ (t + 2) = -1) (a : List R) (ha : a.length = 2 ^ (t + 2))
    (g h : ℕ) (hg : g % 2 = 1) (u : (ZMod (2 ^ (t + 3)))ˣ) :
    E ζ (2 ^ (t + 3)) (sigma (2 ^ (t + 2)) g (sigma (2 ^ (t + 2)) h a)) u
      = E ζ (2 ^ (t + 3)) (sigma (2 ^ (t + 2)) (g * h % 2 ^ (t + 3)) a) u := by
  have hgu : IsUnit ((g : ℕ) : ZMod (2 ^ (t + 3))) := by
    rw [ZMod.isUnit_iff_coprime]
    apply Nat.Coprime.pow_right
    rw [Nat.coprime_comm, Nat.Prime.coprime_iff_not_dvd Nat.prime_two]
    omega
  obtain ⟨gu, hgu⟩ := hgu
  rw [E_sigma_unit ζ hζ g _ (sigma_length _ _ _) u, ← hgu, ← Units.val_mul,
    E_sigma_unit ζ hζ h a ha (u * gu), E_sigma_unit ζ hζ _ a ha u, Units.val_mul, hgu,
    ZMod.natCast_mod, Nat.cast_mul, mul_assoc]

end Abstract

/-! ## Part B: the executable `RPoly.rowAut` is `sigma` -/

section RowAut

/-- a left fold of in-bounds writes at pairwise distinct positions: the array keeps its size and
    holds `val i` at `pos i`. -/
theorem foldl_set_spec {α : Type} (pos : ℕ → ℕ) (val : ℕ → α) (init : Array α) :
    ∀ n, (∀ i < n, ∀ j < n, pos i = pos j → i = j) → (∀ i < n, pos i < init.size) →
      ((List.range n).foldl (fun acc i => acc.setIfInBounds (pos i) (val i)) init).size = init.size ∧
      ∀ i < n, ((List.range n).foldl (fun acc i => acc.setIfInBounds (pos i) (val i)) init)[pos i]?
        = some (val i) := by
  intro n
  induction n with
  | zero => intro _ _; exact ⟨rfl, fun i hi => absurd hi (by omega)⟩
  | succ n ih =>
    intro hinj hlt
    obtain ⟨hsz, hget⟩ := ih (fun i hi j hj => hinj i (by omega) j (by omega)) (fun i hi => hlt i (by omega))
    rw [List.range_succ, List.foldl_append]
    simp only [List.foldl_cons, List.foldl_nil]
    refine ⟨by rw [Array.size_setIfInBounds, hsz], ?_⟩
    intro i hi
    rcases Nat.lt_or_ge i n with h | h
    · have hne : pos n ≠ pos i := fun he => by have := hinj n (by omega) i (by omega) he; omega
      rw [Array.getElem?_setIfInBounds_ne hne]
      exact hget i h
    · have : i = n := by omega
      subst this
      exact Array.getElem?_setIfInBounds_self_of_lt (by rw [hsz]; exact hlt i (by omega))

/-- target index and written value of the `i`-th turn of the loop of `rowAut`. -/
def autPos (N g i : ℕ) : ℕ := if i * g % (2 * N) < N then i * g % (2 * N) else i * g % (2 * N) - N
def autVal (N g q : ℕ) (x : List ℕ) (i : ℕ) : ℕ :=
  if i * g % (2 * N) < N then x[i]! else (q - x[i]! % q) % q

theorem rowAut_eq (g q : ℕ) (x : List ℕ) :
    RPoly.rowAut g q x = ((List.range x.length).foldl
      (fun acc i => acc.setIfInBounds (autPos x.length g i) (autVal x.length g q x i))
      (Array.replicate x.length 0)).toList := by
  unfold RPoly.rowAut
  simp only
  congr 1
  apply List.foldl_ext
  intro acc i _
  unfold autPos autVal
  split <;> rfl

theorem autPos_lt {N : ℕ} (hN : 0 < N) (g i : ℕ) : autPos N g i < N := by
  unfold autPos
  have : i * g % (2 * N) < 2 * N := Nat.mod_lt _ (by omega)
  split <;> omega

theorem autPos_mod {N : ℕ} (g i : ℕ) : autPos N g i % N = i * g % N := by
  unfold autPos
  have h2 : i * g % (2 * N) % N = i * g % N := Nat.mod_mod_of_dvd _ ⟨2, by ring⟩
  split
  · exact h2
  · next h =>
    have hge : N ≤ i * g % (2 * N) := by omega
    rw [← h2]
    conv_rhs => rw [← Nat.sub_add_cancel hge, Nat.add_mod_right]

theorem autPos_inj {N : ℕ} (g : ℕ) (hg : Nat.Coprime g (2 * N)) :
    ∀ i < N, ∀ j < N, autPos N g i = autPos N g j → i = j := by
  intro i hi j hj h
  have h1 : i * g % N = j * g % N := by rw [← autPos_mod, ← autPos_mod, h]
  have hc : Nat.gcd N g = 1 := by
    rw [Nat.gcd_comm]; exact Nat.Coprime.coprime_dvd_right ⟨2, by ring⟩ hg
  have h2 : i ≡ j [MOD N] := Nat.ModEq.cancel_right_of_coprime hc h1
  unfold Nat.ModEq at h2
  rwa [Nat.mod_eq_of_lt hi, Nat.mod_eq_of_lt hj] at h2

/-- every index `< N` is written exactly once. -/
theorem autPos_surj {N : ℕ} (hN : 0 < N) (g : ℕ) (hg : Nat.Coprime g (2 * N)) (e : ℕ) (he : e < N) :
    ∃ i < N, autPos N g i = e := by
  classical
  have himg : Finset.image (autPos N g) (range N) = range N := by
    apply Finset.eq_of_subset_of_card_le
    · intro y hy
      obtain ⟨i, _, rfl⟩ := Finset.mem_image.mp hy
      exact Finset.mem_range.mpr (autPos_lt hN g i)
    · rw [Finset.card_image_of_injOn]
      intro i hi j hj h
      exact autPos_inj g hg i (Finset.mem_range.mp hi) j (Finset.mem_range.mp hj) h
  have : e ∈ Finset.image (autPos N g) (range N) := by rw [himg]; exact Finset.mem_range.mpr he
  obtain ⟨i, hi, h⟩ := Finset.mem_image.mp this
  exact ⟨i, Finset.mem_range.mp hi, h⟩

variable {R : Type} [CommRing R]

theorem cast_neg_mod (q : ℕ) (hq : 0 < q) (hqR : (q : R) = 0) (v : ℕ) :
    (((q - v % q) % q : ℕ) : R) = -(v : R) := by
  have h1 : v % q < q := Nat.mod_lt _ hq
  have hq1 : ∀ n : ℕ, ((n % q : ℕ) : R) = (n : R) := by
    intro n
    conv_rhs => rw [← Nat.div_add_mod n q]
    push_cast
    rw [hqR]; ring
  rw [hq1, Nat.cast_sub (le_of_lt h1), hq1, hqR]; ring

/-- **`rowAut` is `σ_g`**: reading the coefficients of the row in any commutative ring in which the
    modulus `q` vanishes (e.g. `ZMod q`), `ring.Automorphism` in the coefficient domain is
    `a ↦ a(X^g) mod X^N+1`, for every `g` coprime to `2N`. -/
theorem rowAut_cast (q : ℕ) (hq : 0 < q) (hqR : (q : R) = 0) (g : ℕ) (x : List ℕ)
    (hg : Nat.Coprime g (2 * x.length)) :
    (RPoly.rowAut g q x).map (Nat.cast : ℕ → R) = sigma x.length g (x.map (Nat.cast : ℕ → R)) := by
  rcases Nat.eq_zero_or_pos x.length with h0 | hN
  · have : x = [] := List.eq_nil_of_length_eq_zero h0
    subst this; rfl
  set N := x.length with hNdef
  obtain ⟨hsz, hget⟩ := foldl_set_spec (autPos N g) (autVal N g q x) (Array.replicate N 0) N
    (autPos_inj g hg) (fun i _ => by rw [Array.size_replicate]; exact autPos_lt hN g i)
  rw [Array.size_replicate] at hsz
  apply List.ext_getElem
  · rw [List.length_map, rowAut_eq, Array.length_toList, ← hNdef, hsz, sigma_length]
  intro e he1 he2
  rw [sigma_length] at he2
  obtain ⟨i₀, hi₀, hpos⟩ := autPos_surj hN g hg e he2
  have hL : (RPoly.rowAut g q x)[e]? = some (autVal N g q x i₀) := by
    rw [rowAut_eq, Array.getElem?_toList, ← hNdef, ← hpos]
    exact hget i₀ hi₀
  have hL' : ((RPoly.rowAut g q x).map (Nat.cast : ℕ → R))[e]? = some ((autVal N g q x i₀ : ℕ) : R) := by
    rw [List.getElem?_map, hL]; rfl
  have hR : (sigma N g (x.map (Nat.cast : ℕ → R)))[e]? = some (sigmaCoeff N g (x.map (Nat.cast : ℕ → R)) e) := by
    simp [sigma, he2]
  have e1 : ((RPoly.rowAut g q x).map (Nat.cast : ℕ → R))[e] = ((autVal N g q x i₀ : ℕ) : R) := by
    have := List.getElem?_eq_getElem he1
    rw [hL'] at this; exact (Option.some.inj this).symm
  have e2 : (sigma N g (x.map (Nat.cast : ℕ → R)))[e] = sigmaCoeff N g (x.map (Nat.cast : ℕ → R)) e := by
    have := List.getElem?_eq_getElem (l := sigma N g (x.map (Nat.cast : ℕ → R))) (i := e)
      (by rw [sigma_length]; exact he2)
    rw [hR] at this; exact (Option.some.inj this).symm
  rw [e1, e2]
  -- the only contributing index is `i₀`
  unfold sigmaCoeff
  rw [Finset.sum_eq_single i₀]
  · have hxi : (x.map (Nat.cast : ℕ → R)).getD i₀ 0 = ((x[i₀]! : ℕ) : R) := by
      simp [List.getD_eq_getElem?_getD, hi₀, ← hNdef]
    have hr : i₀ * g % (2 * N) < 2 * N := Nat.mod_lt _ (by omega)
    unfold autPos at hpos
    unfold autVal
    rw [hxi]
    by_cases hlt : i₀ * g % (2 * N) < N
    · rw [if_pos hlt] at hpos
      rw [if_pos hlt, if_pos hpos]
    · rw [if_neg hlt] at hpos
      have h1 : ¬ i₀ * g % (2 * N) = e := by omega
      have h2 : i₀ * g % (2 * N) = e + N := by omega
      rw [if_neg hlt, if_neg h1, if_pos h2, cast_neg_mod q hq hqR]
  · intro i hi hne
    have hi' := Finset.mem_range.mp hi
    have hp : autPos N g i ≠ e := fun h => hne (autPos_inj g hg i hi' i₀ hi₀ (h.trans hpos.symm))
    have hr : i * g % (2 * N) < 2 * N := Nat.mod_lt _ (by omega)
    unfold autPos at hp
    have h1 : ¬ i * g % (2 * N) = e := by intro h; apply hp; rw [if_pos (by omega)]; exact h
    have h2 : ¬ i * g % (2 * N) = e + N := by intro h; apply hp; rw [if_neg (by omega)]; omega
    rw [if_neg h1, if_neg h2]
  · intro h; exact absurd (Finset.mem_range.mpr hi₀) h

end RowAut

/-! ## Part C: BGV layout — `permuteMatrix`, NTT over `Z_p`, `decodeRingTU` -/

section BGV
open Lattigo.NTT Lattigo.EncoderT Lattigo.Model.InnerSum

theorem rowAut_length (g q : ℕ) (x : List ℕ) : (RPoly.rowAut g q x).length = x.length := by
  rw [rowAut_eq, Array.length_toList]
  have key : ∀ (l : List ℕ) (init : Array ℕ),
      (l.foldl (fun acc i => acc.setIfInBounds (autPos x.length g i) (autVal x.length g q x i)) init).size
        = init.size := by
    intro l
    induction l with
    | nil => intro init; rfl
    | cons a l ih => intro init; rw [List.foldl_cons, ih, Array.size_setIfInBounds]
  rw [key, Array.size_replicate]

theorem powers5_closed (m : ℕ) : ∀ (k q : ℕ), q < m →
    powers5 m k q = (List.range k).map (fun j => q * 5 ^ j % m)
  | 0, _, _ => rfl
  | k + 1, q, hq => by
    have hm : 0 < m := by omega
    rw [powers5, powers5_closed m k (q * 5 % m) (Nat.mod_lt _ hm), List.range_succ_eq_map, List.map_cons,
      List.map_map]
    congr 1
    · simp [Nat.mod_eq_of_lt hq]
    · apply List.map_congr_left
      intro j _
      simp only [Function.comp]
      rw [pow_succ', ← mul_assoc, Nat.mod_mul_mod]

/-- `permuteMatrix` in closed form: entry `j < N/2` is `brv((5^j mod 2N) >> 1)`, entry `j + N/2` is
    `N - 1 -` that. -/
theorem permuteMatrix_closed (e : ℕ) :
    permuteMatrix (e + 2)
      = (List.range (2 ^ (e + 1))).map (fun j => NTT.bitRev (5 ^ j % 2 ^ (e + 3) / 2) (e + 2))
        ++ (List.range (2 ^ (e + 1))).map
            (fun j => 2 ^ (e + 2) - NTT.bitRev (5 ^ j % 2 ^ (e + 3) / 2) (e + 2) - 1) := by
  unfold permuteMatrix
  have h1 : 2 ^ (e + 2) / 2 = 2 ^ (e + 1) := by rw [pow_succ]; simp
  have h2 : 2 * 2 ^ (e + 2) = 2 ^ (e + 3) := by ring
  simp only [h1, h2]
  rw [powers5_closed _ _ 1 (Nat.one_lt_two_pow (by omega))]
  simp only [List.map_map, one_mul]
  rfl

/-- bit reversal of the complement is the complement of the bit reversal. -/
theorem bitRev_compl : ∀ (L i : ℕ), i < 2 ^ L → NTT.bitRev (2 ^ L - 1 - i) L = 2 ^ L - 1 - NTT.bitRev i L
  | 0, i, _ => by simp [NTT.bitRev_zero_len]
  | L + 1, i, hi => by
    have hi2 : i / 2 < 2 ^ L := by rw [pow_succ] at hi; omega
    have ih := bitRev_compl L (i / 2) hi2
    have hb := NTT.bitRev_lt L (i / 2)
    have hp : 2 ^ (L + 1) = 2 * 2 ^ L := by ring
    have hpos : 0 < 2 ^ L := by positivity
    rw [NTT.bitRev_succ_first L i, NTT.bitRev_succ_first L (2 ^ (L + 1) - 1 - i)]
    have hd : (2 ^ (L + 1) - 1 - i) / 2 = 2 ^ L - 1 - i / 2 := by omega
    have hm : (2 ^ (L + 1) - 1 - i) % 2 = 1 - i % 2 := by omega
    rw [hd, hm, ih]
    rcases Nat.mod_two_eq_zero_or_one i with h | h <;> rw [h] <;> simp <;> omega

variable (e p g₀ : ℕ)

/-- the `2N`-th root of unity of the generated plaintext tables, `ψ = g₀^((p-1)/2N)`. -/
noncomputable def psi : ZMod p := ((g₀ : ℕ) : ZMod p) ^ ((p - 1) / 2 ^ (e + 3))

/-- the polynomial actually transformed by `decodeRingTU`, read in `Z_p`. -/
noncomputable def scaled (scale : ℕ) (pT : List ℕ) : List (ZMod p) :=
  (mulScalar p (EncoderT.scaleInv p scale) pT).map (Nat.cast : ℕ → ZMod p)

theorem evalP_map_mul {R : Type} [CommRing R] (B : List R) (s x : R) :
    evalP (B.map (· * s)) x = evalP B x * s := by
  unfold evalP
  rw [List.length_map, Finset.sum_mul]
  apply Finset.sum_congr rfl
  intro i hi
  have hi' := Finset.mem_range.mp hi
  simp only [List.getD_eq_getElem?_getD, List.getElem?_map, List.getElem?_eq_getElem hi',
    Option.map_some, Option.getD_some]
  ring

theorem mulScalar_cast (q s : ℕ) (x : List ℕ) :
    (mulScalar q s x).map (Nat.cast : ℕ → ZMod q) = (x.map (Nat.cast : ℕ → ZMod q)).map (· * (s : ZMod q)) := by
  unfold mulScalar
  rw [List.map_map, List.map_map]
  apply List.map_congr_left
  intro a _
  simp [ZMod.natCast_mod]

variable {e p g₀}

/-- hypotheses on the plaintext modulus: prime, `8p ≤ 2^64`, `p ≡ 1 (mod 2N)`, `g₀` a non-residue
    (what `tables_invariant` needs; `g₀` is the primitive root the code found). -/
structure PlainOK (e p g₀ : ℕ) : Prop where
  prime : p.Prime
  h8 : 8 * p ≤ W
  hdiv : 2 ^ (e + 3) ∣ p - 1
  hg : g₀ ^ ((p - 1) / 2) % p = p - 1

theorem psi_pow (h : PlainOK e p g₀) : (psi e p g₀) ^ 2 ^ (e + 2) = -1 :=
  (mkTables_all (e + 2) p g₀ h.prime h.h8 h.hdiv h.hg).2.2.1

/-- entry `idx` of the NTT inside `decodeRingTU` is the slot at `2·brv(idx)+1`. -/
theorem ntt_entry (h : PlainOK e p g₀) (scale : ℕ) (pT : List ℕ) (hlen : pT.length = 2 ^ (e + 2))
    (idx : ℕ) (hidx : idx < 2 ^ (e + 2)) :
    (((nttStd (mkTables (2 ^ (e + 2)) p (2 ^ (e + 3)) g₀)
        (mulScalar p (EncoderT.scaleInv p scale) pT)).getD idx 0 : ℕ) : ZMod p)
      = E (psi e p g₀) (2 ^ (e + 3)) (scaled p scale pT)
          ((2 * NTT.bitRev idx (e + 2) + 1 : ℕ) : ZMod (2 ^ (e + 3))) := by
  have hp := h.prime.pos
  have hlen' : (mulScalar p (EncoderT.scaleInv p scale) pT).length = 2 ^ (e + 2) := by
    simp [mulScalar, hlen]
  have hlt : ∀ x ∈ mulScalar p (EncoderT.scaleInv p scale) pT, x < p := by
    intro x hx
    obtain ⟨y, _, rfl⟩ := List.mem_map.mp hx
    exact Nat.mod_lt _ hp
  have hev := nttStd_mkTables_eval (e + 2) p g₀ (by omega) h.prime h.h8 h.hdiv h.hg _ hlen' hlt
  have h1 : (((nttStd (mkTables (2 ^ (e + 2)) p (2 ^ (e + 3)) g₀)
        (mulScalar p (EncoderT.scaleInv p scale) pT)).getD idx 0 : ℕ) : ZMod p)
      = ((nttStd (mkTables (2 ^ (e + 2)) p (2 ^ (e + 3)) g₀)
        (mulScalar p (EncoderT.scaleInv p scale) pT)).map (Nat.cast : ℕ → ZMod p)).getD idx 0 := by
    rw [getD_map_cast]
  rw [h1, hev]
  simp only [List.getD_eq_getElem?_getD, List.getElem?_map, List.getElem?_range hidx, Option.map_some,
    Option.getD_some]
  have hb := NTT.bitRev_lt (e + 2) idx
  have hval : (((2 * NTT.bitRev idx (e + 2) + 1 : ℕ)) : ZMod (2 ^ (e + 3))).val
      = 2 * NTT.bitRev idx (e + 2) + 1 := by
    rw [ZMod.val_natCast, Nat.mod_eq_of_lt]
    have : 2 ^ (e + 3) = 2 * 2 ^ (e + 2) := by ring
    omega
  unfold E evalP scaled psi
  rw [hval, List.length_map, hlen']
  apply Finset.sum_congr rfl
  intro i _
  rw [getD_map_cast]
  rfl

/-- the two halves of `decodeRingTU` (full length `N`): row 0 reads the NTT at `brv(5^j >> 1)`,
    row 1 at `N - 1 -` that. -/
def dec0 (e p g₀ scale : ℕ) (pT : List ℕ) (j : ℕ) : ℕ :=
  (nttStd (mkTables (2 ^ (e + 2)) p (2 ^ (e + 3)) g₀) (mulScalar p (EncoderT.scaleInv p scale) pT)).getD
    (NTT.bitRev (5 ^ j % 2 ^ (e + 3) / 2) (e + 2)) 0
def dec1 (e p g₀ scale : ℕ) (pT : List ℕ) (j : ℕ) : ℕ :=
  (nttStd (mkTables (2 ^ (e + 2)) p (2 ^ (e + 3)) g₀) (mulScalar p (EncoderT.scaleInv p scale) pT)).getD
    (2 ^ (e + 2) - NTT.bitRev (5 ^ j % 2 ^ (e + 3) / 2) (e + 2) - 1) 0

theorem decode_eq (e p g₀ scale : ℕ) (pT : List ℕ) :
    decodeRingTU (mkTables (2 ^ (e + 2)) p (2 ^ (e + 3)) g₀) (permuteMatrix (e + 2)) scale pT (2 ^ (e + 2))
      = (List.range (2 ^ (e + 1))).map (dec0 e p g₀ scale pT)
        ++ (List.range (2 ^ (e + 1))).map (dec1 e p g₀ scale pT) := by
  have hlen : (permuteMatrix (e + 2)).length = 2 ^ (e + 2) := by
    rw [permuteMatrix_closed]; simp; ring
  unfold decodeRingTU
  simp only
  rw [List.take_of_length_le (le_of_eq hlen), permuteMatrix_closed, List.map_append, List.map_map, List.map_map]
  rfl

theorem five_mod_odd (e j : ℕ) : 5 ^ j % 2 ^ (e + 3) % 2 = 1 := by
  rw [Nat.mod_mod_of_dvd _ ⟨2 ^ (e + 2), by ring⟩, Nat.pow_mod]; norm_num

/-- **the decoded BGV slots are the two slot rows of Part A**: entry `j` of the first half is
    `a(ψ^(5^j))`, entry `j` of the second half is `a(ψ^(-5^j))` (`a` = the scaled plaintext
    polynomial read in `Z_p`). -/
theorem dec_slots (h : PlainOK e p g₀) (scale : ℕ) (pT : List ℕ) (hlen : pT.length = 2 ^ (e + 2)) (j : ℕ) :
    ((dec0 e p g₀ scale pT j : ℕ) : ZMod p) = slot0 (psi e p g₀) (2 ^ (e + 3)) (scaled p scale pT) j
    ∧ ((dec1 e p g₀ scale pT j : ℕ) : ZMod p) = slot1 (psi e p g₀) (2 ^ (e + 3)) (scaled p scale pT) j := by
  set P := 5 ^ j % 2 ^ (e + 3) with hP
  have hPlt : P < 2 ^ (e + 3) := Nat.mod_lt _ (by positivity)
  have hPodd : P % 2 = 1 := five_mod_odd e j
  have hM : 2 ^ (e + 3) = 2 * 2 ^ (e + 2) := by ring
  have hhalf : P / 2 < 2 ^ (e + 2) := by omega
  have hb := NTT.bitRev_lt (e + 2) (P / 2)
  have hPcast : ((P : ℕ) : ZMod (2 ^ (e + 3))) = (5 : ZMod (2 ^ (e + 3))) ^ j := by
    rw [hP, ZMod.natCast_mod]; push_cast; rfl
  constructor
  · unfold dec0 slot0
    rw [ntt_entry h scale pT hlen _ hb, NTT.bitRev_invol _ _ hhalf]
    have : 2 * (P / 2) + 1 = P := by omega
    rw [this, hPcast]
  · unfold dec1 slot1
    have hidx : 2 ^ (e + 2) - NTT.bitRev (P / 2) (e + 2) - 1 < 2 ^ (e + 2) := by omega
    rw [ntt_entry h scale pT hlen _ hidx]
    have hc : 2 ^ (e + 2) - NTT.bitRev (P / 2) (e + 2) - 1 = 2 ^ (e + 2) - 1 - NTT.bitRev (P / 2) (e + 2) := by
      omega
    rw [hc, bitRev_compl _ _ hb, NTT.bitRev_invol _ _ hhalf]
    have : 2 * (2 ^ (e + 2) - 1 - P / 2) + 1 = 2 ^ (e + 3) - P := by omega
    rw [this, Nat.cast_sub (le_of_lt hPlt), ZMod.natCast_self, zero_sub, hPcast]

theorem dec_lt (h : PlainOK e p g₀) (scale : ℕ) (pT : List ℕ) (j : ℕ) :
    dec0 e p g₀ scale pT j < p ∧ dec1 e p g₀ scale pT j < p := by
  have : Fact p.Prime := ⟨h.prime⟩
  have hp := h.prime.pos
  have hT := (mkTables_all (e + 2) p g₀ h.prime h.h8 h.hdiv h.hg).1
  have : Fact (mkTables (2 ^ (e + 2)) p (2 ^ (e + 2 + 1)) g₀).q.Prime := ⟨h.prime⟩
  have hlt : ∀ x ∈ mulScalar p (EncoderT.scaleInv p scale) pT, x < p := by
    intro x hx
    obtain ⟨y, _, rfl⟩ := List.mem_map.mp hx
    exact Nat.mod_lt _ hp
  have hall := (nttStd_cast hT (mulScalar p (EncoderT.scaleInv p scale) pT) hlt).2
  have key : ∀ idx, (nttStd (mkTables (2 ^ (e + 2)) p (2 ^ (e + 3)) g₀)
      (mulScalar p (EncoderT.scaleInv p scale) pT)).getD idx 0 < p := by
    intro idx
    rw [List.getD_eq_getElem?_getD]
    by_cases hi : idx < (nttStd (mkTables (2 ^ (e + 2)) p (2 ^ (e + 3)) g₀)
        (mulScalar p (EncoderT.scaleInv p scale) pT)).length
    · rw [List.getElem?_eq_getElem hi]
      exact hall _ (List.getElem_mem hi)
    · rw [List.getElem?_eq_none (Nat.le_of_not_lt hi)]; exact hp
  exact ⟨key _, key _⟩

/-- the slots of `rowAut g p pT` (scaled) are the slots of `pT` (scaled) at `u·g`. -/
theorem scaled_rowAut (h : PlainOK e p g₀) (scale g : ℕ) (hg : g % 2 = 1) (pT : List ℕ)
    (hlen : pT.length = 2 ^ (e + 2)) (u : (ZMod (2 ^ (e + 3)))ˣ) :
    E (psi e p g₀) (2 ^ (e + 3)) (scaled p scale (RPoly.rowAut g p pT)) u
      = E (psi e p g₀) (2 ^ (e + 3)) (scaled p scale pT)
          ((u : ZMod (2 ^ (e + 3))) * (g : ZMod (2 ^ (e + 3)))) := by
  have hcop : Nat.Coprime g (2 * pT.length) := by
    rw [hlen, ← nthRoot_eq]
    apply Nat.Coprime.pow_right
    rw [Nat.coprime_comm, Nat.Prime.coprime_iff_not_dvd Nat.prime_two]
    omega
  unfold scaled E
  rw [mulScalar_cast, mulScalar_cast, evalP_map_mul, evalP_map_mul,
    rowAut_cast p h.prime.pos (ZMod.natCast_self p) g pT hcop, hlen]
  have := E_sigma_unit (psi e p g₀) (psi_pow h) g (pT.map (Nat.cast : ℕ → ZMod p)) (by simp [hlen]) u
  unfold E at this
  rw [this]

theorem nat_eq_of_cast {p a b : ℕ} (ha : a < p) (hb : b < p)
    (hab : ((a : ℕ) : ZMod p) = ((b : ℕ) : ZMod p)) : a = b := by
  have := (ZMod.natCast_eq_natCast_iff' a b p).1 hab
  rwa [Nat.mod_eq_of_lt ha, Nat.mod_eq_of_lt hb] at this

/-- decoded entries after a rotation automorphism. -/
theorem dec_rowAut_galEl (h : PlainOK e p g₀) (he : e + 3 ≤ 64) (scale : ℕ) (pT : List ℕ)
    (hlen : pT.length = 2 ^ (e + 2)) (k : ℤ) (j : ℕ) :
    dec0 e p g₀ scale (RPoly.rowAut (galEl (2 ^ (e + 3)) k) p pT) j
        = dec0 e p g₀ scale pT ((j + kmod e k) % 2 ^ (e + 1))
    ∧ dec1 e p g₀ scale (RPoly.rowAut (galEl (2 ^ (e + 3)) k) p pT) j
        = dec1 e p g₀ scale pT ((j + kmod e k) % 2 ^ (e + 1)) := by
  have hodd : galEl (2 ^ (e + 3)) k % 2 = 1 := by
    have := galEl_mod_four (e + 3) (by omega) he k; omega
  have hlen' : (RPoly.rowAut (galEl (2 ^ (e + 3)) k) p pT).length = 2 ^ (e + 2) := by
    rw [rowAut_length, hlen]
  have h5 : ((five (e + 3) ^ j : (ZMod (2 ^ (e + 3)))ˣ) : ZMod (2 ^ (e + 3))) = (5 : ZMod (2 ^ (e + 3))) ^ j := by
    simp
  constructor
  · apply nat_eq_of_cast (dec_lt h _ _ _).1 (dec_lt h _ _ _).1
    rw [(dec_slots h scale _ hlen' j).1, (dec_slots h scale pT hlen _).1]
    unfold slot0
    have := scaled_rowAut h scale _ hodd pT hlen (five (e + 3) ^ j)
    rw [h5] at this
    rw [this, five_mul_galEl e he]
  · apply nat_eq_of_cast (dec_lt h _ _ _).2 (dec_lt h _ _ _).2
    rw [(dec_slots h scale _ hlen' j).2, (dec_slots h scale pT hlen _).2]
    unfold slot1
    have := scaled_rowAut h scale _ hodd pT hlen (-(five (e + 3) ^ j))
    rw [Units.val_neg, h5] at this
    rw [this, neg_mul, five_mul_galEl e he]

/-- decoded entries after the order-two automorphism: the rows are exchanged. -/
theorem dec_rowAut_orderTwo (h : PlainOK e p g₀) (scale : ℕ) (pT : List ℕ)
    (hlen : pT.length = 2 ^ (e + 2)) (j : ℕ) :
    dec0 e p g₀ scale (RPoly.rowAut (2 ^ (e + 3) - 1) p pT) j = dec1 e p g₀ scale pT j
    ∧ dec1 e p g₀ scale (RPoly.rowAut (2 ^ (e + 3) - 1) p pT) j = dec0 e p g₀ scale pT j := by
  have hodd : (2 ^ (e + 3) - 1) % 2 = 1 := by
    have : 2 ^ (e + 3) = 2 * 2 ^ (e + 2) := by ring
    have : 0 < 2 ^ (e + 2) := by positivity
    omega
  have hlen' : (RPoly.rowAut (2 ^ (e + 3) - 1) p pT).length = 2 ^ (e + 2) := by
    rw [rowAut_length, hlen]
  have h5 : ((five (e + 3) ^ j : (ZMod (2 ^ (e + 3)))ˣ) : ZMod (2 ^ (e + 3))) = (5 : ZMod (2 ^ (e + 3))) ^ j := by
    simp
  constructor
  · apply nat_eq_of_cast (dec_lt h _ _ _).1 (dec_lt h _ _ _).2
    rw [(dec_slots h scale _ hlen' j).1, (dec_slots h scale pT hlen _).2]
    unfold slot0 slot1
    have := scaled_rowAut h scale _ hodd pT hlen (five (e + 3) ^ j)
    rw [h5, orderTwo_cast] at this
    rw [this]; simp
  · apply nat_eq_of_cast (dec_lt h _ _ _).2 (dec_lt h _ _ _).1
    rw [(dec_slots h scale _ hlen' j).2, (dec_slots h scale pT hlen _).1]
    unfold slot0 slot1
    have := scaled_rowAut h scale _ hodd pT hlen (-(five (e + 3) ^ j))
    rw [Units.val_neg, h5, orderTwo_cast] at this
    rw [this]; simp

/-- **`rotate_slots` for the BGV model**: decoding (`decodeRingTU`, all `N` slots, the model's
    `permuteMatrix` and NTT over `Z_p`) after the plaintext automorphism `rowAut (GaloisElement k)` is
    the executable slot action `slotAut .bgv` applied to the decoded vector: both rows rotated left by
    `k mod N/2`.  For every Go `int` `k`, every `scale`, every plaintext polynomial of length `N`. -/
theorem decode_rowAut_galEl (h : PlainOK e p g₀) (he : e + 3 ≤ 64) (scale : ℕ) (pT : List ℕ)
    (hlen : pT.length = 2 ^ (e + 2)) (k : ℤ) :
    (decodeRingTU (mkTables (2 ^ (e + 2)) p (2 ^ (e + 3)) g₀) (permuteMatrix (e + 2)) scale
        (RPoly.rowAut (galEl (2 ^ (e + 3)) k) p pT) (2 ^ (e + 2))).map Int.ofNat
      = slotAut .bgv (2 ^ (e + 3)) (galEl (2 ^ (e + 3)) k)
          ((decodeRingTU (mkTables (2 ^ (e + 2)) p (2 ^ (e + 3)) g₀) (permuteMatrix (e + 2)) scale pT
            (2 ^ (e + 2))).map Int.ofNat) := by
  rw [decode_eq, decode_eq, List.map_append, List.map_append, List.map_map, List.map_map, List.map_map,
    List.map_map, slotAut_galEl_rows .bgv (by decide) e he k _ _ (by simp), rotL_map_range, rotL_map_range]
  congr 1
  · apply List.map_congr_left
    intro j _
    simp only [Function.comp]
    rw [(dec_rowAut_galEl h he scale pT hlen k j).1]
  · apply List.map_congr_left
    intro j _
    simp only [Function.comp]
    rw [(dec_rowAut_galEl h he scale pT hlen k j).2]

/-- … and after `rowAut (2N-1)` (`RotateRows`) the two rows are swapped. -/
theorem decode_rowAut_orderTwo (h : PlainOK e p g₀) (he : e + 3 ≤ 64) (scale : ℕ) (pT : List ℕ)
    (hlen : pT.length = 2 ^ (e + 2)) :
    (decodeRingTU (mkTables (2 ^ (e + 2)) p (2 ^ (e + 3)) g₀) (permuteMatrix (e + 2)) scale
        (RPoly.rowAut (2 ^ (e + 3) - 1) p pT) (2 ^ (e + 2))).map Int.ofNat
      = slotAut .bgv (2 ^ (e + 3)) (2 ^ (e + 3) - 1)
          ((decodeRingTU (mkTables (2 ^ (e + 2)) p (2 ^ (e + 3)) g₀) (permuteMatrix (e + 2)) scale pT
            (2 ^ (e + 2))).map Int.ofNat) := by
  rw [decode_eq, decode_eq, List.map_append, List.map_append, List.map_map, List.map_map, List.map_map,
    List.map_map, slotAut_orderTwo_bgv e he _ _ (by simp)]
  congr 1
  · apply List.map_congr_left
    intro j _
    simp only [Function.comp]
    rw [(dec_rowAut_orderTwo h scale pT hlen j).1]
  · apply List.map_congr_left
    intro j _
    simp only [Function.comp]
    rw [(dec_rowAut_orderTwo h scale pT hlen j).2]

/-- **keys-level corollary** (`bgv.Evaluator.RotateColumns(k)` on plaintexts): the model's `rotate`
    on the decoded slot vector requests exactly `GaloisElement(k)` (nothing when it is `1`) and
    returns the decoding of `rowAut (GaloisElement k)` of the plaintext polynomial — which is the
    decoded vector with both rows rotated left by `k mod N/2`. -/
theorem rotate_decode (h : PlainOK e p g₀) (he : e + 3 ≤ 64) (scale : ℕ) (pT : List ℕ)
    (hlen : pT.length = 2 ^ (e + 2)) (k : ℤ) :
    rotate (slotOps .bgv (2 ^ (e + 3)) p) (2 ^ (e + 3))
        ((decodeRingTU (mkTables (2 ^ (e + 2)) p (2 ^ (e + 3)) g₀) (permuteMatrix (e + 2)) scale pT
          (2 ^ (e + 2))).map Int.ofNat) k
      = .ok ((decodeRingTU (mkTables (2 ^ (e + 2)) p (2 ^ (e + 3)) g₀) (permuteMatrix (e + 2)) scale
              (RPoly.rowAut (galEl (2 ^ (e + 3)) k) p pT) (2 ^ (e + 2))).map Int.ofNat)
            (request false (galEl (2 ^ (e + 3)) k) [])
    ∧ (decodeRingTU (mkTables (2 ^ (e + 2)) p (2 ^ (e + 3)) g₀) (permuteMatrix (e + 2)) scale
          (RPoly.rowAut (galEl (2 ^ (e + 3)) k) p pT) (2 ^ (e + 2))).map Int.ofNat
        = rotL (kmod e k) ((List.range (2 ^ (e + 1))).map (fun j => Int.ofNat (dec0 e p g₀ scale pT j)))
          ++ rotL (kmod e k) ((List.range (2 ^ (e + 1))).map (fun j => Int.ofNat (dec1 e p g₀ scale pT j))) := by
  constructor
  · rw [decode_rowAut_galEl h he scale pT hlen k]; rfl
  · rw [decode_rowAut_galEl h he scale pT hlen k, decode_eq, List.map_append, List.map_map, List.map_map,
      slotAut_galEl_rows .bgv (by decide) e he k _ _ (by simp)]
    rfl

/-- same for `RotateRows` (`conjugate` of the model): requests `2N-1`, returns the decoding of
    `rowAut (2N-1)`, i.e. the rows swapped. -/
theorem conjugate_decode (h : PlainOK e p g₀) (he : e + 3 ≤ 64) (scale : ℕ) (pT : List ℕ)
    (hlen : pT.length = 2 ^ (e + 2)) :
    conjugate (slotOps .bgv (2 ^ (e + 3)) p) .standard (2 ^ (e + 3))
        ((decodeRingTU (mkTables (2 ^ (e + 2)) p (2 ^ (e + 3)) g₀) (permuteMatrix (e + 2)) scale pT
          (2 ^ (e + 2))).map Int.ofNat)
      = .ok ((decodeRingTU (mkTables (2 ^ (e + 2)) p (2 ^ (e + 3)) g₀) (permuteMatrix (e + 2)) scale
              (RPoly.rowAut (2 ^ (e + 3) - 1) p pT) (2 ^ (e + 2))).map Int.ofNat)
            (request false (2 ^ (e + 3) - 1) []) := by
  rw [decode_rowAut_orderTwo h he scale pT hlen]; rfl

end BGV

/-! ## Part D: the NTT-domain automorphism (`ring.AutomorphismNTT`) is `NTT ∘ σ_g ∘ NTT⁻¹` -/

section AutNTT
open Lattigo.NTT

/-- the two models of `utils.BitReverse64` agree. -/
theorem bitRev_eq : ∀ (b x : ℕ), Model.Galois.bitRev x b = NTT.bitRev x b
  | 0, x => by simp [Model.Galois.bitRev, Model.Galois.bitRevAux, NTT.bitRev_zero_len]
  | b + 1, x => by
    rw [Lattigo.Proofs.Galois.bitRev_succ, NTT.bitRev_succ_first, bitRev_eq b (x / 2)]; ring

/-- entry `idx` of `nttStd` (generated tables, any NTT-friendly prime `q`) is the value of the
    polynomial at `ψ^(2·brv(idx)+1)`. -/
theorem ntt_entry_gen (K q g₀ : ℕ) (hK : 1 ≤ K) (hq : q.Prime) (h8 : 8 * q ≤ W)
    (hdiv : 2 ^ (K + 1) ∣ q - 1) (hg₀ : g₀ ^ ((q - 1) / 2) % q = q - 1)
    (a : List ℕ) (hlen : a.length = 2 ^ K) (ha : ∀ x ∈ a, x < q) (idx : ℕ) (hidx : idx < 2 ^ K) :
    (((nttStd (mkTables (2 ^ K) q (2 ^ (K + 1)) g₀) a).getD idx 0 : ℕ) : ZMod q)
      = evalP (a.map (Nat.cast : ℕ → ZMod q))
          ((((g₀ : ℕ) : ZMod q) ^ ((q - 1) / 2 ^ (K + 1))) ^ (2 * NTT.bitRev idx K + 1)) := by
  have hev := nttStd_mkTables_eval K q g₀ hK hq h8 hdiv hg₀ a hlen ha
  rw [← getD_map_cast, hev]
  simp only [List.getD_eq_getElem?_getD, List.getElem?_map, List.getElem?_range hidx, Option.map_some,
    Option.getD_some]
  unfold evalP
  rw [List.length_map, hlen]
  apply Finset.sum_congr rfl
  intro i _
  rw [getD_map_cast]
  rfl

/-- **`AutomorphismNTT`**: `ring.AutomorphismNTTWithIndex` computes `out[i] = in[index[i]]` with the
    table `index = AutomorphismNTTIndex(N, 2N, g)` (the model's `nttIndexAt`).  Applied to the NTT of
    `a` this *is* the NTT of `σ_g a = rowAut g q a`: the index permutation of the evaluation domain is
    the automorphism `X ↦ X^g`.  All `N = 2^K ≤ 2^63`, every NTT-friendly prime `q`, every odd `g`. -/
theorem nttStd_rowAut (K q g₀ : ℕ) (hK : 1 ≤ K) (hK64 : K + 1 ≤ 64) (hq : q.Prime) (h8 : 8 * q ≤ W)
    (hdiv : 2 ^ (K + 1) ∣ q - 1) (hg₀ : g₀ ^ ((q - 1) / 2) % q = q - 1)
    (a : List ℕ) (hlen : a.length = 2 ^ K) (ha : ∀ x ∈ a, x < q) (g : ℕ) (hg : g % 2 = 1) :
    nttStd (mkTables (2 ^ K) q (2 ^ (K + 1)) g₀) (RPoly.rowAut g q a)
      = (List.range (2 ^ K)).map (fun i =>
          (nttStd (mkTables (2 ^ K) q (2 ^ (K + 1)) g₀) a).getD (nttIndexAt (2 ^ (K + 1)) g i) 0) := by
  have : Fact q.Prime := ⟨hq⟩
  have hqpos := hq.pos
  have hT := (mkTables_all K q g₀ hq h8 hdiv hg₀).1
  have hψ := (mkTables_all K q g₀ hq h8 hdiv hg₀).2.2.1
  have : Fact (mkTables (2 ^ K) q (2 ^ (K + 1)) g₀).q.Prime := ⟨hq⟩
  set ψ := ((g₀ : ℕ) : ZMod q) ^ ((q - 1) / 2 ^ (K + 1)) with hψdef
  have hM : 2 ^ (K + 1) = 2 * 2 ^ K := by ring
  have hψ2 : ψ ^ 2 ^ (K + 1) = 1 := by rw [hM]; exact sq_of_neg_one hψ
  -- entries of the rotated row are reduced
  have hcop : Nat.Coprime g (2 * a.length) := by
    rw [hlen, ← hM]
    apply Nat.Coprime.pow_right
    rw [Nat.coprime_comm, Nat.Prime.coprime_iff_not_dvd Nat.prime_two]
    omega
  have hrc := rowAut_cast (R := ZMod q) q hqpos (ZMod.natCast_self q) g a hcop
  have hrl : (RPoly.rowAut g q a).length = 2 ^ K := by rw [rowAut_length, hlen]
  -- both sides are lists of residues `< q`: compare in `ZMod q`
  have hlt_of : ∀ (b : List ℕ), (∀ x ∈ b, x < q) → ∀ y ∈ nttStd (mkTables (2 ^ K) q (2 ^ (K + 1)) g₀) b, y < q :=
    fun b hb => (nttStd_cast hT b hb).2
  -- entries of `rowAut` are `< q`
  have hra : ∀ x ∈ RPoly.rowAut g q a, x < q := by
    intro x hx
    obtain ⟨e, he, rfl⟩ := List.getElem_of_mem hx
    rw [hrl] at he
    obtain ⟨i₀, hi₀, hpos⟩ := autPos_surj (N := a.length) (by rw [hlen]; positivity) g hcop e (by rw [hlen]; exact he)
    have hsp := foldl_set_spec (autPos a.length g) (autVal a.length g q a) (Array.replicate a.length 0) a.length
      (autPos_inj g hcop) (fun i _ => by rw [Array.size_replicate]; exact autPos_lt (by rw [hlen]; positivity) g i)
    have hL : (RPoly.rowAut g q a)[e]? = some (autVal a.length g q a i₀) := by
      rw [rowAut_eq, Array.getElem?_toList, ← hpos]
      exact hsp.2 i₀ hi₀
    have hval : (RPoly.rowAut g q a)[e] = autVal a.length g q a i₀ := by
      have := List.getElem?_eq_getElem (l := RPoly.rowAut g q a) (i := e) (by rw [hrl]; exact he)
      rw [hL] at this; exact (Option.some.inj this).symm
    rw [hval]
    unfold autVal
    split
    · have : a[i₀]! = a[i₀] := by simp [hi₀]
      rw [this]; exact ha _ (List.getElem_mem hi₀)
    · exact Nat.mod_lt _ hqpos
  apply map_cast_inj (q := q) _ _ (hlt_of _ hra)
  · intro y hy
    obtain ⟨i, _, rfl⟩ := List.mem_map.mp hy
    rw [List.getD_eq_getElem?_getD]
    by_cases hi : nttIndexAt (2 ^ (K + 1)) g i < (nttStd (mkTables (2 ^ K) q (2 ^ (K + 1)) g₀) a).length
    · rw [List.getElem?_eq_getElem hi]; exact hlt_of a ha _ (List.getElem_mem hi)
    · rw [List.getElem?_eq_none (Nat.le_of_not_lt hi)]; exact hqpos
  -- pointwise
  rw [nttStd_mkTables_eval K q g₀ hK hq h8 hdiv hg₀ _ hrl hra, List.map_map]
  apply List.map_congr_left
  intro i hi
  have hi' := List.mem_range.mp hi
  simp only [Function.comp]
  -- right-hand side: the entry of `NTT a` at `index[i]`
  have hidx := nttIndexAt_eq (K + 1) (by omega) hK64 g i hg
  simp only [Nat.add_sub_cancel, bitRev_eq] at hidx
  set P := g * (2 * NTT.bitRev i K + 1) % 2 ^ (K + 1) with hP
  have hPlt : P < 2 ^ (K + 1) := Nat.mod_lt _ (by positivity)
  have hPodd : P % 2 = 1 := by
    have hd : 2 ∣ 2 ^ (K + 1) := dvd_pow_self 2 (by omega)
    rw [hP, Nat.mod_mod_of_dvd _ hd, Nat.mul_mod, hg]; simp [Nat.add_mod]
  have hhalf : (P - 1) / 2 < 2 ^ K := by omega
  rw [hidx, ntt_entry_gen K q g₀ hK hq h8 hdiv hg₀ a hlen ha _ (NTT.bitRev_lt K _),
    NTT.bitRev_invol K _ hhalf]
  have h2 : 2 * ((P - 1) / 2) + 1 = P := by omega
  rw [h2, hP, pow_mod_of_pow_eq_one hψ2]
  -- left-hand side: evaluate `σ_g a`
  have hx : (ψ ^ (2 * NTT.bitRev i K + 1)) ^ 2 ^ K = -1 := by
    rw [← pow_mul, mul_comm, pow_mul, hψ, neg_one_pow_odd (by omega)]
  have hL : (∑ j ∈ Finset.range (2 ^ K), (((RPoly.rowAut g q a).getD j 0 : ℕ) : ZMod q)
        * (ψ ^ (2 * NTT.bitRev i K + 1)) ^ j)
      = evalP ((RPoly.rowAut g q a).map (Nat.cast : ℕ → ZMod q)) (ψ ^ (2 * NTT.bitRev i K + 1)) := by
    unfold evalP
    rw [List.length_map, hrl]
    apply Finset.sum_congr rfl
    intro j _
    rw [getD_map_cast]
  rw [hL, hrc, hlen, evalP_sigma g _ (by simp [hlen]) _ hx, ← pow_mul, mul_comm g]

/-- the same with the table returned by the model of `ring.AutomorphismNTTIndex`. -/
theorem automorphismNTT_spec (K q g₀ : ℕ) (hK : 1 ≤ K) (hK64 : K + 1 ≤ 64) (hq : q.Prime) (h8 : 8 * q ≤ W)
    (hdiv : 2 ^ (K + 1) ∣ q - 1) (hg₀ : g₀ ^ ((q - 1) / 2) % q = q - 1)
    (a : List ℕ) (hlen : a.length = 2 ^ K) (ha : ∀ x ∈ a, x < q) (g : ℕ) (hg : g % 2 = 1) :
    ∃ idx, automorphismNTTIndex (2 ^ K) (2 ^ (K + 1)) g = some idx ∧
      nttStd (mkTables (2 ^ K) q (2 ^ (K + 1)) g₀) (RPoly.rowAut g q a)
        = idx.map (fun j => (nttStd (mkTables (2 ^ K) q (2 ^ (K + 1)) g₀) a).getD j 0) := by
  refine ⟨(List.range (2 ^ K)).map (nttIndexAt (2 ^ (K + 1)) g), ?_, ?_⟩
  · unfold automorphismNTTIndex
    rw [if_neg (by rw [Nat.and_two_pow_sub_one_eq_mod]; simp),
      if_neg (by rw [Nat.and_two_pow_sub_one_eq_mod]; simp)]
  · rw [nttStd_rowAut K q g₀ hK hK64 hq h8 hdiv hg₀ a hlen ha g hg, List.map_map]
    rfl

end AutNTT

/-! ## Part E: ciphertext level, evaluation domain

  Ciphertext components live in the NTT (= slot) domain, where the automorphism is the index
  permutation of Part D.  In the ring of slot vectors `(ZMod 2N)ˣ → R` (pointwise operations)
  `σ_g f = f(· g)` is a ring endomorphism, so C04's `automorphism_phase` applies: under the
  key-switch hypothesis (the gadget product with the Galois key of `g` re-encrypts `c1` from
  `σ_g⁻¹(s)` to … with noise `ν` — C04/C08), the phase of `Automorphism(ct, g)` is the phase of `ct`
  with slots moved by `g`, plus the moved noise. -/

section Ciphertext
open Lattigo.KS

variable {R : Type} [CommRing R] {M : ℕ}

/-- `σ_g` on slot vectors: `f ↦ f(· g)`, a ring endomorphism. -/
def slotPerm (g : (ZMod M)ˣ) : ((ZMod M)ˣ → R) →+* ((ZMod M)ˣ → R) :=
  RingHom.pi (fun u => Pi.evalRingHom (fun _ => R) (u * g))

@[simp] theorem slotPerm_apply (g : (ZMod M)ˣ) (f : (ZMod M)ˣ → R) (u : (ZMod M)ˣ) :
    slotPerm g f u = f (u * g) := rfl

/-- **ciphertext-level `rotate_slots`, up to the key-switch noise.**  `ks` = the (ModDown-ed) gadget
    product of `c1` with the Galois key of `g`; hypothesis `hks` is what key generation + gadget
    product guarantee (C04 `automorphism_phase`'s hypothesis).  Then slot `u` of the phase of
    `Automorphism(ct, g)` is slot `u·g` of the phase of `ct`, plus slot `u·g` of the noise. -/
theorem automorphism_slots (g : (ZMod M)ˣ) (ks ct : ((ZMod M)ˣ → R) × ((ZMod M)ˣ → R))
    (s ν : (ZMod M)ˣ → R) (hks : phase ks (slotPerm g⁻¹ s) = ct.2 * s + ν) (u : (ZMod M)ˣ) :
    phase (automorphism (slotPerm g) ks ct) s u = phase ct s (u * g) + ν (u * g) := by
  have hinv : slotPerm g (slotPerm g⁻¹ s) = s := by
    funext v; simp
  have := automorphism_phase (slotPerm g) (slotPerm g⁻¹) ks ct s ν hinv hks
  rw [this]; rfl

/-- for `g = GaloisElement(k)`: the decrypted slot `j` of either row of `Rotate(ct, k)` is the
    decrypted slot `(j + k) mod N/2` of the same row of `ct`, plus the key-switch noise there. -/
theorem rotate_ciphertext_slots {t : ℕ} (k : ℤ) (ks ct : ((ZMod (2 ^ (t + 3)))ˣ → R) × ((ZMod (2 ^ (t + 3)))ˣ → R))
    (s ν : (ZMod (2 ^ (t + 3)))ˣ → R)
    (hks : phase ks (slotPerm (five (t + 3) ^ k)⁻¹ s) = ct.2 * s + ν) (j : ℕ) (sgn : Bool) :
    let pt := fun (i : ℕ) => if sgn then -(five (t + 3) ^ i) else five (t + 3) ^ i
    phase (automorphism (slotPerm (five (t + 3) ^ k)) ks ct) s (pt j)
      = phase ct s (pt (((j : ℤ) + k) % ((2 ^ (t + 1) : ℕ) : ℤ)).toNat)
        + ν (pt (((j : ℤ) + k) % ((2 ^ (t + 1) : ℕ) : ℤ)).toNat) := by
  intro pt
  have h := automorphism_slots (five (t + 3) ^ k) ks ct s ν hks (pt j)
  have hp : pt j * five (t + 3) ^ k = pt (((j : ℤ) + k) % ((2 ^ (t + 1) : ℕ) : ℤ)).toNat := by
    simp only [pt]
    cases sgn
    · simp only [Bool.false_eq_true, if_false]; exact five_pow_mul_zpow t j k
    · simp only [if_true]; rw [neg_mul, five_pow_mul_zpow t j k]
  rw [hp] at h; exact h

end Ciphertext

end Lattigo.Proofs.RotateSlots
