/-
  C15: history independence.  `genAdditiveShareSt` / `runCalls` (the model with the Combiner's scratch
  buffer `tmp2` threaded from call to call, `copy(prod, cmb.one)` kept as a step) do not depend on
  the scratch content, hence on the calls made before: every result is the pure `genAdditiveShare`.
-/
import Lattigo.Proofs.ShamirRecv

namespace Lattigo.Proofs.Shamir
open Lattigo.Model.Shamir

/-- every table entry has one word per modulus (true of `newCombiner`). -/
def TableWF (cmb : Combiner) : Prop := ∀ e ∈ cmb.table, e.2.length = cmb.ring.ms.length

theorem tableWF_newCombiner (r : RingQP) (own : ℕ) (others : List ℕ) (t : Int) :
    TableWF (newCombiner r own others t) := by
  intro e he
  simp only [newCombiner, List.mem_map] at he
  obtain ⟨spk, _, rfl⟩ := he
  simp [newCombiner]

theorem lookup_mem {α : Type} (l : List (ℕ × α)) (k : ℕ) (v : α) (h : l.lookup k = some v) : (k, v) ∈ l := by
  induction l with
  | nil => simp at h
  | cons e rest ih =>
    rw [List.lookup_cons] at h
    by_cases hk : k == e.1
    · rw [hk] at h
      simp only [Option.some.injEq] at h
      have : k = e.1 := by simpa using hk
      subst h
      rw [this]
      exact List.mem_cons_self
    · have hk' : (k == e.1) = false := by simpa using hk
      rw [hk'] at h
      exact List.mem_cons_of_mem _ (ih h)

theorem mulScalars_length (ms a b : List ℕ) (ha : a.length = ms.length) (hb : b.length = ms.length) :
    (mulScalars ms a b).length = ms.length := by
  unfold mulScalars
  simp [List.length_zipWith, List.length_zip, ha, hb]

theorem lagrangeProdBuf_fst (ms : List ℕ) (table : List (ℕ × List ℕ)) (own : ℕ) (acts prod : List ℕ) :
    (lagrangeProdBuf ms table own acts prod).1 = lagrangeProd ms table own acts prod := by
  induction acts generalizing prod with
  | nil => rfl
  | cons a rest ih =>
    unfold lagrangeProdBuf lagrangeProd
    split
    · split
      · rfl
      · cases table.lookup a with
        | none => rfl
        | some c => exact ih _
    · exact ih _

theorem lagrangeProdBuf_length (ms : List ℕ) (table : List (ℕ × List ℕ)) (own : ℕ)
    (hwf : ∀ e ∈ table, e.2.length = ms.length) (acts prod : List ℕ) (hp : prod.length = ms.length) :
    (lagrangeProdBuf ms table own acts prod).2.length = ms.length := by
  induction acts generalizing prod with
  | nil => exact hp
  | cons a rest ih =>
    unfold lagrangeProdBuf
    split
    · split
      · exact hp
      · cases hl : table.lookup a with
        | none => exact hp
        | some c =>
          exact ih _ (mulScalars_length ms prod c hp (hwf _ (lookup_mem table a c hl)))
    · exact ih _ hp

/-- the result of a call does not depend on the scratch content; the scratch keeps its length. -/
theorem genAdditiveShareSt_spec (cmb : Combiner) (hwf : TableWF cmb) (tmp2 : List ℕ)
    (ht : tmp2.length = cmb.ring.ms.length) (actives : List ℕ) (ownPoint : ℕ) (share : QP) :
    (genAdditiveShareSt cmb tmp2 actives ownPoint share).1 = genAdditiveShare cmb actives ownPoint share ∧
    (genAdditiveShareSt cmb tmp2 actives ownPoint share).2.length = cmb.ring.ms.length := by
  unfold genAdditiveShareSt genAdditiveShare
  split
  · exact ⟨rfl, ht⟩
  · split
    · exact ⟨rfl, ht⟩
    · have hone : copyWords tmp2 (cmb.ring.ms.map fun q => 1 % q) = cmb.ring.ms.map fun q => 1 % q :=
        copyWords_eq _ _ (by rw [ht, List.length_map])
      constructor
      · simp only [hone, lagrangeProdBuf_fst]
      · simp only [hone]
        exact lagrangeProdBuf_length _ _ _ hwf _ _ (by rw [List.length_map])

/-- **history independence**: a sequence of calls on one Combiner, whatever its scratch buffer holds at
the start, returns exactly the results of the pure function, call by call. -/
theorem runCalls_eq_map (cmb : Combiner) (hwf : TableWF cmb) (calls : List Call) (tmp2 : List ℕ)
    (ht : tmp2.length = cmb.ring.ms.length) :
    runCalls cmb tmp2 calls = calls.map fun c => genAdditiveShare cmb c.actives c.ownPoint c.share := by
  induction calls generalizing tmp2 with
  | nil => rfl
  | cons c rest ih =>
    obtain ⟨h1, h2⟩ := genAdditiveShareSt_spec cmb hwf tmp2 ht c.actives c.ownPoint c.share
    simp only [runCalls, List.map_cons, h1]
    rw [ih _ h2]

end Lattigo.Proofs.Shamir
