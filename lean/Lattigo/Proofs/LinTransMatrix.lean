/-
  C12 — the diagonal method IS the matrix–vector product: `matVec` (what the evaluation algorithms
  are proved to return) equals `Σ_{c'} M[c][c'] · v[c']` for the matrix whose generalised diagonals
  are the given ones.
-/
import Lattigo.Proofs.LinTransKeys
import Mathlib.Algebra.BigOperators.Fin

namespace Lattigo.Model.LinTrans

open Finset

/-- the plaintext matrix (of row `r` of the packing) given by its generalised diagonals:
    `M[c][c'] = diag_d[c]` for `d = (c' - c) mod n` if `d` is one of the indices, else 0. -/
def matrixOf (n : Nat) (ds : List Int) (diag : Int → Slots n) (r : Nat) (c c' : Fin n) : Int :=
  if (((c'.val : Int) - (c.val : Int)) % (n : Int)) ∈ ds
  then diag (((c'.val : Int) - (c.val : Int)) % (n : Int)) r c else 0

theorem diagIdx_iff (n : Nat) (d : Int) (h0 : 0 ≤ d) (h1 : d < n) (c c' : Fin n) :
    (((c'.val : Int) - (c.val : Int)) % (n : Int) = d) ↔ c' = rotFin n d c := by
  have hc' : (0 : Int) ≤ (c'.val : Int) ∧ (c'.val : Int) < n := ⟨by omega, by have := c'.isLt; omega⟩
  constructor
  · intro h
    apply rotFin_ext
    rw [rotFin_val, ← h, Int.add_emod_emod]
    have : (c.val : Int) + ((c'.val : Int) - (c.val : Int)) = (c'.val : Int) := by ring
    rw [this, Int.emod_eq_of_lt hc'.1 hc'.2]
  · intro h
    have hv := rotFin_val n d c
    rw [← h] at hv
    rw [hv, Int.emod_sub_emod]
    have : (c.val : Int) + d - (c.val : Int) = d := by ring
    rw [this, Int.emod_eq_of_lt h0 h1]

/-- **`diag_method`** (concrete form): `(M v)[c] = Σ_{c'} M[c][c'] v[c']` with
    `diag_d[c] = M[c][(c+d) mod n]`, for every set of distinct diagonal indices in `[0, n)` -/
theorem matVec_eq_matrix (n : Nat) (ds : List Int) (hnd : ds.Nodup)
    (hr : ∀ d ∈ ds, 0 ≤ d ∧ d < (n : Int)) (diag : Int → Slots n) (v : Slots n) (r : Nat) (c : Fin n) :
    matVec n ds diag v r c = ∑ c' : Fin n, matrixOf n ds diag r c c' * v r c' := by
  induction ds with
  | nil => simp [matVec, matrixOf]
  | cons d ds ih =>
    rw [List.nodup_cons] at hnd
    have hd := hr d (List.mem_cons_self ..)
    have ih' := ih hnd.2 (fun x hx => hr x (List.mem_cons_of_mem _ hx))
    have hstep : matVec n (d :: ds) diag v r c
        = diag d r c * v r (rotFin n d c) + matVec n ds diag v r c := by
      simp [matVec]
    rw [hstep, ih']
    have hpt : ∀ c' : Fin n, matrixOf n (d :: ds) diag r c c' * v r c'
        = (if c' = rotFin n d c then diag d r c * v r c' else 0) + matrixOf n ds diag r c c' * v r c' := by
      intro c'
      unfold matrixOf
      by_cases h : c' = rotFin n d c
      · have hd' := (diagIdx_iff n d hd.1 hd.2 c c').2 h
        rw [if_pos h, hd', if_pos (List.mem_cons_self ..), if_neg hnd.1]
        ring
      · have hd' : ¬ (((c'.val : Int) - (c.val : Int)) % (n : Int) = d) :=
          fun e => h ((diagIdx_iff n d hd.1 hd.2 c c').1 e)
        rw [if_neg h]
        by_cases hm : (((c'.val : Int) - (c.val : Int)) % (n : Int)) ∈ ds
        · rw [if_pos (List.mem_cons_of_mem _ hm), if_pos hm]; ring
        · have : ¬ ((((c'.val : Int) - (c.val : Int)) % (n : Int)) ∈ d :: ds) := by
            intro e
            rcases List.mem_cons.1 e with e | e
            · exact hd' e
            · exact hm e
          rw [if_neg this, if_neg hm]; ring
    rw [Finset.sum_congr rfl (fun c' _ => hpt c'), Finset.sum_add_distrib]
    congr 1
    rw [Finset.sum_ite_eq' Finset.univ (rotFin n d c) (fun c' => diag d r c * v r c')]
    simp

end Lattigo.Model.LinTrans
