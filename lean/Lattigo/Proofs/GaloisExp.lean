/-
  C11 proofs, part 1: the two modular exponentiation loops compute powers.
-/
import Lattigo.Model.Galois
import Mathlib.Data.ZMod.Basic
import Mathlib.Tactic.Ring

namespace Lattigo.Proofs.Galois
open Lattigo Lattigo.Model.Galois

theorem shr_one (i : Nat) : i >>> 1 = i / 2 := by
  rw [Nat.shiftRight_eq_div_pow, pow_one]

/-- In `ZMod p` the loop multiplies the accumulator by `x^i` (any fuel that covers the bits of `i`). -/
theorem modExpLoop_cast (p : Nat) : ∀ (fuel i x r : Nat), i < 2 ^ fuel →
    ((modExpLoop p fuel i x r : Nat) : ZMod p) = (r : ZMod p) * (x : ZMod p) ^ i := by
  intro fuel
  induction fuel with
  | zero =>
    intro i x r hi
    have : i = 0 := by simpa using hi
    subst this; simp [modExpLoop]
  | succ f ih =>
    intro i x r hi
    unfold modExpLoop
    by_cases h0 : i = 0
    · simp [h0]
    · rw [if_neg h0, shr_one, ih]
      · have hdm := Nat.div_add_mod i 2
        rcases Nat.mod_two_eq_zero_or_one i with he | ho
        · have hi2 : i = 2 * (i / 2) := by omega
          rw [if_neg (by omega)]
          conv_rhs => rw [hi2, pow_mul]
          simp [ZMod.natCast_mod, pow_two]
        · have hi2 : i = 2 * (i / 2) + 1 := by omega
          rw [if_pos ho]
          conv_rhs => rw [hi2, pow_succ, pow_mul]
          simp [ZMod.natCast_mod, pow_two]
          ring
      · have : i / 2 < 2 ^ f := by
          rw [Nat.div_lt_iff_lt_mul (by norm_num)]
          rw [pow_succ] at hi; exact hi
        exact this

theorem modExpLoop_lt (p : Nat) (hp : 0 < p) : ∀ (fuel i x r : Nat), r < p →
    modExpLoop p fuel i x r < p := by
  intro fuel
  induction fuel with
  | zero => intro i x r hr; simpa [modExpLoop] using hr
  | succ f ih =>
    intro i x r hr
    unfold modExpLoop
    by_cases h0 : i = 0
    · simpa [h0] using hr
    · rw [if_neg h0]
      apply ih
      split
      · exact Nat.mod_lt _ hp
      · exact hr

/-- `ring.ModExp` computes `x^e mod p` (for a modulus `p > 1` and a 64-bit exponent). -/
theorem modExp_eq (x e p : Nat) (hp : 1 < p) (he : e < 2 ^ 64) : modExp x e p = x ^ e % p := by
  have h1 := modExpLoop_cast p 64 e x 1 he
  have h2 := modExpLoop_lt p (by omega) 64 e x 1 hp
  unfold modExp
  have h3 : ((modExpLoop p 64 e x 1 : Nat) : ZMod p) = ((x ^ e : Nat) : ZMod p) := by
    rw [h1]; simp
  rw [ZMod.natCast_eq_natCast_iff] at h3
  have := h3
  unfold Nat.ModEq at this
  rw [Nat.mod_eq_of_lt h2] at this
  exact this

/-- the wrapping loop, seen in `ZMod 2^64`. -/
theorem modExpPow2Loop_cast : ∀ (fuel i x r : Nat), i < 2 ^ fuel →
    ((modExpPow2Loop fuel i x r : Nat) : ZMod W) = (r : ZMod W) * (x : ZMod W) ^ i := by
  intro fuel
  induction fuel with
  | zero =>
    intro i x r hi
    have : i = 0 := by simpa using hi
    subst this; simp [modExpPow2Loop]
  | succ f ih =>
    intro i x r hi
    unfold modExpPow2Loop
    by_cases h0 : i = 0
    · simp [h0]
    · rw [if_neg h0, shr_one, ih]
      · rcases Nat.mod_two_eq_zero_or_one i with he | ho
        · have hi2 : i = 2 * (i / 2) := by omega
          rw [if_neg (by omega)]
          conv_rhs => rw [hi2, pow_mul]
          simp [u64mul, ZMod.natCast_mod, pow_two]
        · have hi2 : i = 2 * (i / 2) + 1 := by omega
          rw [if_pos ho]
          conv_rhs => rw [hi2, pow_succ, pow_mul]
          simp [u64mul, ZMod.natCast_mod, pow_two]
          ring
      · rw [Nat.div_lt_iff_lt_mul (by norm_num)]
        rw [pow_succ] at hi; exact hi

/-- `ring.ModExpPow2(x, e, 2^m)` computes `x^e mod 2^m` for `m ≤ 64`. -/
theorem modExpPow2_eq (x e m : Nat) (hm : m ≤ 64) (he : e < 2 ^ 64) :
    modExpPow2 x e (2 ^ m) = x ^ e % 2 ^ m := by
  unfold modExpPow2
  rw [Nat.and_two_pow_sub_one_eq_mod]
  have h1 := modExpPow2Loop_cast 64 e x 1 he
  have h3 : ((modExpPow2Loop 64 e x 1 : Nat) : ZMod W) = ((x ^ e : Nat) : ZMod W) := by
    rw [h1]; simp
  rw [ZMod.natCast_eq_natCast_iff] at h3
  have hd : 2 ^ m ∣ W := by
    rw [W_eq]; exact Nat.pow_dvd_pow 2 hm
  exact (Nat.ModEq.of_dvd hd h3)

end Lattigo.Proofs.Galois
