/-
  C19 — the parameter codecs as functions on field lists: `decode (encode x) = x`
  (`Lattigo.Model.Params`: `encodeDist`/`decodeDist`, `encodeRlweLit`/`decodeRlweLit`,
  `encodeBtp`/`decodeBtp`, `encodeBtpLit`/`decodeBtpLit`), and re-validation of an accepted object's literal.
-/
import Lattigo.Proofs.Params

namespace Lattigo.Params
open Lattigo

/-! ### lookups in an encoded object -/

@[simp] theorem Key.beq_eq (a b : Key) : (a == b) = decide (a = b) := rfl

@[simp] theorem omitIf_lookup (b : Bool) (k k' : Key) (v : JV) :
    (omitIf b k' v).lookup k = if b then none else if k = k' then some v else none := by
  unfold omitIf
  cases b <;> simp [List.lookup]
  split <;> simp_all

theorem lookup_append' (l₁ l₂ : JObj) (k : Key) :
    (l₁ ++ l₂).lookup k = (l₁.lookup k).or (l₂.lookup k) := List.lookup_append ..

/-! ### distributions -/

/-- **dist_roundtrip_proof** — `ParametersFromMap(MarshalJSON(d)) = d` for every Gaussian (zero `Sigma`/`Bound`
    included, fix C19-12), Uniform, and a Ternary with exactly one of `P`, `H` non-zero. -/
theorem dist_roundtrip_proof (d : Dist) (h : d.codecOK = true) : decodeDist (encodeDist d) = .ok d := by
  cases d with
  | uniform => rfl
  | gaussian s b => simp [encodeDist, decodeDist, JObj.get, List.lookup]
  | ternary p hh =>
    simp only [Dist.codecOK] at h
    by_cases hp : p = 0
    · have hh0 : hh ≠ 0 := by
        intro h0; subst hp; subst h0; simp at h
      subst hp
      have e2 : (hh == 0) = false := by simpa using hh0
      simp [encodeDist, decodeDist, JObj.get, List.lookup, omitIf, e2, hh0]
    · have hh0 : hh = 0 := by
        by_contra hne
        have e1 : (p != 0) = true := by simpa using hp
        have e2 : (hh != 0) = true := by simpa using hne
        rw [e1, e2] at h; simp at h
      subst hh0
      have e1 : (p == 0) = false := by simpa using hp
      simp [encodeDist, decodeDist, JObj.get, List.lookup, omitIf, e1, hp]

/-- the other distributions do NOT survive: a Ternary with `P = 0 ∧ H = 0` or with both set is refused by the decoder
    (`NewParameters` rejects "both set" since fix C19-13 and answers `P = H = 0` with the zero-weight warning) -/
theorem dist_roundtrip_fails_proof (d : Dist) (h : d.codecOK = false) : ∃ e, decodeDist (encodeDist d) = .error e := by
  cases d with
  | uniform => simp [Dist.codecOK] at h
  | gaussian s b => simp [Dist.codecOK] at h
  | ternary p hh =>
    simp only [Dist.codecOK] at h
    by_cases hp : p = 0
    · subst hp
      have hh0 : hh = 0 := by
        by_contra hne
        have e2 : (hh != 0) = true := by simpa using hne
        rw [e2] at h; simp at h
      subst hh0
      exact ⟨"ternary: exactly one of P, H", by simp [encodeDist, decodeDist, JObj.get, List.lookup, omitIf]⟩
    · have e1 : (p == 0) = false := by simpa using hp
      have hh0 : hh ≠ 0 := by
        intro h0; subst h0
        have : (p != 0) = true := by simpa using hp
        rw [this] at h; simp at h
      have e2 : (hh == 0) = false := by simpa using hh0
      have e3 : (p != 0) = (hh != 0) := by
        have a : (p != 0) = true := by simpa using hp
        have b : (hh != 0) = true := by simpa using hh0
        rw [a, b]
      exact ⟨"ternary: exactly one of P, H", by simp [encodeDist, decodeDist, JObj.get, List.lookup, omitIf, e1, e2, e3]⟩

theorem optDist_roundtrip (d : Option Dist) (h : ∀ x, d = some x → x.codecOK = true) :
    decodeOptDist (if d.isNone then none else some ((d.map encodeDist).getD .null)) = .ok d := by
  cases d with
  | none => rfl
  | some x =>
    have hx := dist_roundtrip_proof x (h x rfl)
    have hne : encodeDist x ≠ .null := by cases x <;> simp [encodeDist]
    simp only [Option.isNone_some, Bool.false_eq_true, if_false, Option.map_some, Option.getD_some]
    unfold decodeOptDist
    split
    · rename_i heq; cases heq
    · rename_i heq; injection heq with heq; exact absurd heq hne
    · rename_i v _ _ heq
      injection heq with heq
      subst heq
      rw [hx]; rfl

/-! ### rlwe.ParametersLiteral -/

theorem normSlice_spec {α} (x : Option (List α)) :
    (if emptyOpt x then none else some (x.getD [])) = normSlice x := by
  cases x with
  | none => rfl
  | some l => cases l <;> rfl

/-- **rlweLit_roundtrip_proof** — `UnmarshalJSON(Marshal(l)) = l` for `rlwe.ParametersLiteral`, every field incl.
    `LogNthRoot` (fix C19-8), up to what `omitempty` cannot express: an empty slice comes back as nil
    (`normalize`). Hypotheses: a valid ring type, distributions that survive their own codec. -/
theorem rlweLit_roundtrip_proof (l : RlweLit) (hrt : l.ringType ≤ 1)
    (hxs : ∀ d, l.xs = some d → d.codecOK = true) (hxe : ∀ d, l.xe = some d → d.codecOK = true) :
    decodeRlweLit (encodeRlweLit l) = .ok l.normalize := by
  have g1 : getNum (encodeRlweLit l) .LogN = .ok l.logN := by
    simp [getNum, encodeRlweLit, JObj.get, lookup_append', List.lookup]
  have g2 : getNum (encodeRlweLit l) .LogNthRoot = .ok l.logNthRoot := by
    by_cases h : l.logNthRoot = 0
    · simp [getNum, encodeRlweLit, JObj.get, lookup_append', List.lookup, h]
    · simp [getNum, encodeRlweLit, JObj.get, lookup_append', List.lookup, h]
  have g3 : getUNums (encodeRlweLit l) .Q = .ok (normSlice l.q) := by
    rw [← normSlice_spec]
    by_cases h : emptyOpt l.q = true
    · simp [getUNums, encodeRlweLit, JObj.get, lookup_append', List.lookup, h]
    · simp [getUNums, encodeRlweLit, JObj.get, lookup_append', List.lookup, h]
  have g4 : getUNums (encodeRlweLit l) .P = .ok (normSlice l.p) := by
    rw [← normSlice_spec]
    by_cases h : emptyOpt l.p = true
    · simp [getUNums, encodeRlweLit, JObj.get, lookup_append', List.lookup, h]
    · simp [getUNums, encodeRlweLit, JObj.get, lookup_append', List.lookup, h]
  have g5 : getNums (encodeRlweLit l) .LogQ = .ok (normSlice l.logQ) := by
    rw [← normSlice_spec]
    by_cases h : emptyOpt l.logQ = true
    · simp [getNums, encodeRlweLit, JObj.get, lookup_append', List.lookup, h]
    · simp [getNums, encodeRlweLit, JObj.get, lookup_append', List.lookup, h]
  have g6 : getNums (encodeRlweLit l) .LogP = .ok (normSlice l.logP) := by
    rw [← normSlice_spec]
    by_cases h : emptyOpt l.logP = true
    · simp [getNums, encodeRlweLit, JObj.get, lookup_append', List.lookup, h]
    · simp [getNums, encodeRlweLit, JObj.get, lookup_append', List.lookup, h]
  have g7 : decodeOptDist ((encodeRlweLit l).get .Xs) = .ok l.xs := by
    have e : (encodeRlweLit l).get .Xs = if l.xs.isNone then none else some ((l.xs.map encodeDist).getD .null) := by
      cases h : l.xs <;> simp [encodeRlweLit, JObj.get, lookup_append', List.lookup, h]
    rw [e]; exact optDist_roundtrip l.xs hxs
  have g8 : decodeOptDist ((encodeRlweLit l).get .Xe) = .ok l.xe := by
    have e : (encodeRlweLit l).get .Xe = if l.xe.isNone then none else some ((l.xe.map encodeDist).getD .null) := by
      cases h : l.xe <;> simp [encodeRlweLit, JObj.get, lookup_append', List.lookup, h]
    rw [e]; exact optDist_roundtrip l.xe hxe
  have g9 : (encodeRlweLit l).get .RingType = if l.ringType = 0 then none else some (.ring l.ringType) := by
    simp [encodeRlweLit, JObj.get, lookup_append', List.lookup]
  have g10 : (encodeRlweLit l).get .DefaultScale = some (.blob l.defaultScale) := by
    simp [encodeRlweLit, JObj.get, lookup_append', List.lookup]
  have g11 : (encodeRlweLit l).get .NTTFlag = if l.nttFlag = true then some (.bool true) else none := by
    cases h : l.nttFlag <;> simp [encodeRlweLit, JObj.get, lookup_append', List.lookup, h]
  unfold decodeRlweLit
  simp only [g1, g2, g3, g4, g5, g6, g7, g8, g9, g10, g11, bind, Except.bind, pure, Except.pure]
  cases l with
  | mk logN root q p logQ logP xe xs rt sc ntt =>
    simp only at hrt
    by_cases h0 : rt = 0
    · subst h0
      cases ntt <;> simp [RlweLit.normalize]
    · have h1 : rt = 1 := by omega
      subst h1
      cases ntt <;> simp [RlweLit.normalize]

/-- non-vacuity, and what `normalize` is about: `Q = []` comes back as nil, everything else is kept, a custom
    `LogNthRoot` included -/
example : decodeRlweLit (encodeRlweLit ⟨6, 9, some [], none, some [40, 30], some [41], some (.gaussian 5 7),
      some (.ternary 0 8), 1, 3, true⟩)
    = .ok ⟨6, 9, none, none, some [40, 30], some [41], some (.gaussian 5 7), some (.ternary 0 8), 1, 3, true⟩ := by
  rfl

/-! ### bootstrapping.Parameters -/

theorem iter_roundtrip (it : Option Iter) : decodeIter (some (encodeIter it)) = .ok it := by
  cases it with
  | none => rfl
  | some i =>
    cases i with
    | mk pr r =>
      cases pr with
      | none => simp [encodeIter, decodeIter, JObj.get, List.lookup, getNum, bind, Except.bind, pure, Except.pure]
      | some l => simp [encodeIter, decodeIter, JObj.get, List.lookup, getNum, bind, Except.bind, pure, Except.pure]

/-- **btp_roundtrip_proof** — `UnmarshalJSON(MarshalJSON(p)) = p` for `bootstrapping.Parameters`, exactly: all eight
    fields are always written and an absent field would be the zero value, so `EphemeralSecretWeight = 0`,
    `IterationsParameters = nil` and `CircuitOrder = 0` come back as they were (no defaulting). -/
theorem btp_roundtrip_proof (p : BtpParams) : decodeBtp (encodeBtp p) = .ok p := by
  have hi : decodeIter ((encodeBtp p).get .IterationsParameters) = .ok p.iterations := by
    have : (encodeBtp p).get .IterationsParameters = some (encodeIter p.iterations) := by
      simp [encodeBtp, JObj.get, List.lookup]
    rw [this, iter_roundtrip]
  unfold decodeBtp
  rw [hi]
  simp [encodeBtp, getBlob, getNum, JObj.get, List.lookup, bind, Except.bind, pure, Except.pure]

example : decodeBtp (encodeBtp ⟨1, 2, 3, 4, 5, none, 0, 0⟩) = .ok ⟨1, 2, 3, 4, 5, none, 0, 0⟩ := by rfl

/-! ### bootstrapping.ParametersLiteral -/

theorem ptr_roundtrip (o : JObj) (k : Key) (x : Option Int) (h : o.get k = some (encPtr x)) : decPtr o k = .ok x := by
  unfold decPtr
  rw [h]
  cases x <;> rfl

theorem optDist_roundtrip' (d : Option Dist) (h : ∀ x, d = some x → x.codecOK = true) :
    decodeOptDist (some ((d.map encodeDist).getD .null)) = .ok d := by
  cases d with
  | none => rfl
  | some x =>
    have := optDist_roundtrip (some x) h
    simpa using this

/-- **btpLit_roundtrip_proof** — `UnmarshalJSON(Marshal(l)) = l` for `bootstrapping.ParametersLiteral`, exactly: the
    sixteen fields have no `omitempty`, a nil pointer is `null`, a pointer to zero is `0`, `Xs`/`Xe` go
    through `ParametersFromMap` (fix C19-9). -/
theorem btpLit_roundtrip_proof (l : BtpLit)
    (hxs : ∀ d, l.xs = some d → d.codecOK = true) (hxe : ∀ d, l.xe = some d → d.codecOK = true) :
    decodeBtpLit (encodeBtpLit l) = .ok l := by
  have k1 := ptr_roundtrip (encodeBtpLit l) .LogN l.logN (by simp [encodeBtpLit, JObj.get, List.lookup])
  have k2 : getNums (encodeBtpLit l) .LogP = .ok l.logP := by
    cases h : l.logP <;> simp [getNums, encodeBtpLit, JObj.get, List.lookup, h]
  have k3 : decodeOptDist ((encodeBtpLit l).get .Xs) = .ok l.xs := by
    have e : (encodeBtpLit l).get .Xs = some ((l.xs.map encodeDist).getD .null) := by
      simp [encodeBtpLit, JObj.get, List.lookup]
    rw [e]; exact optDist_roundtrip' l.xs hxs
  have k4 : decodeOptDist ((encodeBtpLit l).get .Xe) = .ok l.xe := by
    have e : (encodeBtpLit l).get .Xe = some ((l.xe.map encodeDist).getD .null) := by
      simp [encodeBtpLit, JObj.get, List.lookup]
    rw [e]; exact optDist_roundtrip' l.xe hxe
  have k5 := ptr_roundtrip (encodeBtpLit l) .LogSlots l.logSlots (by simp [encodeBtpLit, JObj.get, List.lookup])
  have k6 : getNumss (encodeBtpLit l) .CoeffsToSlotsFactorizationDepthAndLogScales = .ok l.c2s := by
    cases h : l.c2s <;> simp [getNumss, encodeBtpLit, JObj.get, List.lookup, h]
  have k7 : getNumss (encodeBtpLit l) .SlotsToCoeffsFactorizationDepthAndLogScales = .ok l.s2c := by
    cases h : l.s2c <;> simp [getNumss, encodeBtpLit, JObj.get, List.lookup, h]
  have k8 := ptr_roundtrip (encodeBtpLit l) .EvalModLogScale l.evalModLogScale (by simp [encodeBtpLit, JObj.get, List.lookup])
  have k9 := ptr_roundtrip (encodeBtpLit l) .EphemeralSecretWeight l.ephemeralSecretWeight (by simp [encodeBtpLit, JObj.get, List.lookup])
  have k10 : decodeIter ((encodeBtpLit l).get .IterationsParameters) = .ok l.iterations := by
    have : (encodeBtpLit l).get .IterationsParameters = some (encodeIter l.iterations) := by
      simp [encodeBtpLit, JObj.get, List.lookup]
    rw [this, iter_roundtrip]
  have k11 : getNum (encodeBtpLit l) .Mod1Type = .ok l.mod1Type := by
    simp [getNum, encodeBtpLit, JObj.get, List.lookup]
  have k12 := ptr_roundtrip (encodeBtpLit l) .LogMessageRatio l.logMessageRatio (by simp [encodeBtpLit, JObj.get, List.lookup])
  have k13 := ptr_roundtrip (encodeBtpLit l) .K l.k (by simp [encodeBtpLit, JObj.get, List.lookup])
  have k14 := ptr_roundtrip (encodeBtpLit l) .Mod1Degree l.mod1Degree (by simp [encodeBtpLit, JObj.get, List.lookup])
  have k15 := ptr_roundtrip (encodeBtpLit l) .DoubleAngle l.doubleAngle (by simp [encodeBtpLit, JObj.get, List.lookup])
  have k16 := ptr_roundtrip (encodeBtpLit l) .Mod1InvDegree l.mod1InvDegree (by simp [encodeBtpLit, JObj.get, List.lookup])
  unfold decodeBtpLit
  simp only [k1, k2, k3, k4, k5, k6, k7, k8, k9, k10, k11, k12, k13, k14, k15, k16, bind, Except.bind, pure, Except.pure]

/-! ### Parameters objects: the codec is the literal codec followed by re-validation -/

/-- **params_revalidate_proof** — `Parameters.UnmarshalJSON` re-runs the constructor on the decoded literal
    (`ParametersLiteral()` of the object): for an object that was accepted, the constructor accepts its literal
    again and returns the same object (any oracle, any fuel). -/
theorem params_revalidate_proof (o : Oracle) (fuel fuel' : Nat) (lit : Literal) (a : Accepted)
    (h : newParametersFromLiteral o fuel lit = .ok a) :
    newParametersFromLiteral o fuel' a.literal = .ok a := by
  obtain ⟨q, p, h'⟩ := newParametersFromLiteral_ok h
  have f := newParameters_ok h'
  have hreq := requirements_of_ok h'
  have hc := newParameters_complete hreq
  have hl : (a.logN : Int) = lit.logN := f.logN_eq
  have ha : a = { logN := lit.logN.toNat, q := q, p := p, ringType := lit.ringType } := by
    cases a with
    | mk n aq ap art =>
      simp only at hl
      have h1 := f.q_eq; have h2 := f.p_eq; have h3 := f.rt_eq
      simp only at h1 h2 h3
      subst h1; subst h2; subst h3
      congr 1
      omega
  have hc' : newParameters o (a.logN : Int) a.q a.p a.ringType false false = .ok a := by
    rw [hl]
    have e1 : a.q = q := f.q_eq
    have e2 : a.p = p := f.p_eq
    have e3 : a.ringType = lit.ringType := f.rt_eq
    rw [e1, e2, e3, hc, ← ha]
  unfold newParametersFromLiteral Accepted.literal
  simp only [Option.isNone_some, Option.isSome_some, Option.isNone_none, Option.isSome_none, Bool.false_and,
    Bool.and_false, Bool.or_self, Bool.false_eq_true, if_false]
  simpa using hc'

end Lattigo.Params
