/-
  What `evaluateInPlace` computes for operands of different scales, at the level of decoded values.
-/
import Lattigo.Proofs.CKKSDyadic
import Lattigo.Proofs.CKKSMeta

namespace Lattigo.CKKS

/-- Decoded value of an aligned addition.  Operand `a` (value `va`, scale `Δa`), operand `b`
    (value `vb`, scale `Δb > Δa`), multiplier `k` applied to `a`, result recorded at scale `Δb`:
    the decoded result is `va + vb` minus `va` times the relative alignment error `(ρ − k)/ρ`,
    `ρ = Δb/Δa`. -/
theorem add_alignment_decoded (va vb Δa Δb : ℚ) (k : ℚ) (ha : 0 < Δa) (hb : 0 < Δb) :
    (k * (va * Δa) + vb * Δb) / Δb = (va + vb) - va * ((Δb / Δa - k) / (Δb / Δa)) := by
  have h1 : Δa ≠ 0 := ne_of_gt ha
  have h2 : Δb ≠ 0 := ne_of_gt hb
  field_simp
  ring

/-- With `k = ⌊ρ⌋ ≥ 1` the relative alignment error lies in `[0, 1/(k+1))` (so `< 1/2`) and vanishes
    exactly for integer ratios. -/
theorem align_rel_error (ρ : ℚ) (k : ℕ) (hk : (k : ℚ) ≤ ρ) (hk1 : ρ < k + 1) (h1 : 1 ≤ k) :
    0 ≤ (ρ - k) / ρ ∧ (ρ - k) / ρ < 1 / ((k : ℚ) + 1) ∧ ((ρ - k) / ρ = 0 ↔ ρ = k) := by
  have hk0 : (1 : ℚ) ≤ (k : ℚ) := by exact_mod_cast h1
  have hρ : 0 < ρ := by linarith
  refine ⟨div_nonneg (by linarith) hρ.le, ?_, ?_⟩
  · rw [div_lt_div_iff₀ hρ (by linarith)]
    nlinarith
  · constructor
    · intro h
      rcases (div_eq_zero_iff.mp h) with h | h
      · linarith
      · linarith
    · intro h; rw [h]; simp

/-- The multiplier the model (and the Go code) uses is the floor of the 128-bit rounded ratio. -/
theorem align_multiplier_floor (a b : Dy) :
    ((sdiv b a).toNat : ℚ) ≤ (sdiv b a).val ∧ (sdiv b a).val < (sdiv b a).toNat + 1 :=
  Dy.toNat_floor _

/-- the comparison used by `evaluateInPlace` (`Scale.Cmp`) is the comparison of the values. -/
theorem Dy.cmp_lt_iff (a b : Dy) : a.cmp b = .lt ↔ a.val < b.val := by
  unfold Dy.cmp Dy.val
  simp only
  set e0 := min a.e b.e with he0
  have ha : 0 ≤ a.e - e0 := by omega
  have hb : 0 ≤ b.e - e0 := by omega
  have h2 : (2 : ℚ) ≠ 0 := by norm_num
  have hT : (0 : ℚ) < (2 : ℚ) ^ e0 := zpow_pos (by norm_num) _
  have hva : (a.m : ℚ) * (2 : ℚ) ^ a.e = ((a.m * pow2 (a.e - e0) : ℕ) : ℚ) * (2 : ℚ) ^ e0 := by
    push_cast; rw [pow2_cast _ ha, mul_assoc, ← zpow_add₀ h2]; congr 2; ring
  have hvb : (b.m : ℚ) * (2 : ℚ) ^ b.e = ((b.m * pow2 (b.e - e0) : ℕ) : ℚ) * (2 : ℚ) ^ e0 := by
    push_cast; rw [pow2_cast _ hb, mul_assoc, ← zpow_add₀ h2]; congr 2; ring
  rw [hva, hvb, mul_lt_mul_iff_of_pos_right hT, Nat.cast_lt, compare_lt_iff_lt]

end Lattigo.CKKS
