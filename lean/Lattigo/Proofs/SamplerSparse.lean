/-
  C17 — the fixed-Hamming-weight ternary sampler (`sampleSparse`): the index list stays a
  permutation of the positions not yet selected, so the selected positions are distinct, exactly
  `H` coefficients are non-zero, all moduli see one integer vector, and `ReadAndAdd = add ∘ Read`.
-/
import Lattigo.Proofs.SamplerTernary
import Mathlib.Data.List.Perm.Basic
import Mathlib.Data.List.Nodup
import Mathlib.Data.List.Range
namespace Lattigo.Sampler
open Lattigo Lattigo.Gen

/-! ### `index[j] = index[len-1]; index = index[:len-1]` removes exactly `index[j]` -/

theorem getD_of_lt (l : List Nat) (j : Nat) (h : j < l.length) : l.getD j 0 = l[j] := by
  rw [List.getD_eq_getElem?_getD, List.getElem?_eq_getElem h]; rfl

theorem swapRemove_perm (l : List Nat) (j : Nat) (hj : j < l.length) :
    (l.getD j 0 :: swapRemove l j).Perm l := by
  rcases List.eq_nil_or_concat l with rfl | ⟨d, a, rfl⟩
  · simp at hj
  · rw [List.concat_eq_append] at hj ⊢
    have hlen : (d ++ [a]).length - 1 = d.length := by simp
    have hlast : (d ++ [a]).getD ((d ++ [a]).length - 1) 0 = a := by
      rw [hlen, getD_of_lt _ _ (by simp)]; simp
    unfold swapRemove
    rw [hlast]
    have pa : (a :: d).Perm (d ++ [a]) := (List.perm_append_singleton a d).symm
    by_cases hjd : j < d.length
    · have hset : ((d ++ [a]).set j a).dropLast = d.set j a := by
        rw [List.set_append_left _ _ hjd, List.dropLast_concat]
      have hx : (d ++ [a]).getD j 0 = d[j] := by
        rw [getD_of_lt _ _ hj, List.getElem_append_left hjd]
      rw [hset, hx]
      have p1 : (d.set j a).Perm (a :: d.eraseIdx j) := List.set_perm_cons_eraseIdx hjd _
      have p2 : (d[j] :: d.eraseIdx j).Perm d := List.getElem_cons_eraseIdx_perm hjd
      exact (((List.Perm.cons _ p1).trans (List.Perm.swap _ _ _)).trans (List.Perm.cons _ p2)).trans pa
    · have hjeq : j = d.length := by simp at hj; omega
      subst hjeq
      have hset : ((d ++ [a]).set d.length a).dropLast = d := by
        rw [List.set_append_right _ _ (Nat.le_refl _)]
        simp
      have hx : (d ++ [a]).getD d.length 0 = a := by
        rw [getD_of_lt _ _ (by simp)]; simp
      rw [hset, hx]
      exact pa

theorem swapRemove_length (l : List Nat) (j : Nat) (_hj : j < l.length) :
    (swapRemove l j).length = l.length - 1 := by
  unfold swapRemove
  rw [List.length_dropLast, List.length_set]

/-! ### the rejection loop returns an index below the bound -/

theorem drawBelow_lt (mask bound : Nat) : ∀ (fuel : Nat) (s s' : Bytes) (j : Nat),
    drawBelow mask bound fuel s = .ok (j, s') → j < bound := by
  intro fuel
  induction fuel with
  | zero => intro s s' j h; simp [drawBelow] at h
  | succ n ih =>
    intro s s' j h
    unfold drawBelow at h
    obtain ⟨⟨j1, s1⟩, _, h⟩ := Res.bind_eq_ok h
    dsimp only at h
    by_cases hb : j1 ≥ bound
    · rw [if_pos hb] at h
      exact ih _ _ _ h
    · rw [if_neg hb] at h
      injection h with h
      injection h with h1 _
      subst h1
      omega

/-! ### the selection loop -/

theorem sparseLoop_inv (fuel N : Nat) : ∀ (n i : Nat) (index rbs : List Nat) (s : Bytes)
    (sel : List (Nat × Nat)) (rest : List Nat) (s' : Bytes),
    index.length = N - i →
    sparseLoop fuel N n i index rbs s = .ok (sel, rest, s') →
    sel.length = n ∧ (sel.map Prod.fst ++ rest).Perm index ∧ ∀ pc ∈ sel, pc.2 ≤ 1 := by
  intro n
  induction n with
  | zero =>
    intro i index rbs s sel rest s' _ h
    simp only [sparseLoop] at h
    injection h with h
    injection h with h1 h2
    injection h2 with h2 _
    subst h1; subst h2
    exact ⟨rfl, by simp, by simp⟩
  | succ n ih =>
    intro i index rbs s sel rest s' hlen h
    simp only [sparseLoop] at h
    obtain ⟨⟨j, s1⟩, h1, h⟩ := Res.bind_eq_ok h
    dsimp only at h
    obtain ⟨⟨t, rest1, s2⟩, h2, h⟩ := Res.bind_eq_ok h
    simp only [Res.pure_eq] at h
    injection h with h
    injection h with h3 h4
    injection h4 with h4 _
    subst h3; subst h4
    have hj : j < index.length := by
      rw [hlen]; exact drawBelow_lt _ _ _ _ _ _ h1
    have hlen' : (swapRemove index j).length = N - (i + 1) := by
      rw [swapRemove_length _ _ hj, hlen]; omega
    obtain ⟨hl, hperm, hbits⟩ := ih (i + 1) (swapRemove index j) _ s1 t rest1 s2 hlen' h2
    refine ⟨by simp [hl], ?_, ?_⟩
    · simp only [List.map_cons, List.cons_append]
      exact (List.Perm.cons _ hperm).trans (swapRemove_perm index j hj)
    · intro pc hpc
      simp only [List.mem_cons] at hpc
      rcases hpc with rfl | hpc
      · exact and_one_le _
      · exact hbits pc hpc

/-! ### writing a row: every position is written exactly once -/

/-- the write operations of `sampleSparse` on one row, in order: the selected positions with their
    sign bit, then the remaining positions (tag `none`) -/
def sparseOps (sel : List (Nat × Nat)) (rest : List Nat) : List (Nat × Option Nat) :=
  sel.map (fun pc => (pc.1, some pc.2)) ++ rest.map (fun i => (i, none))

/-- what an operation writes, given the present coefficient `a` -/
def sparsePhi (m : Mode) (lut : List Nat) (q : Nat) : Option Nat → Nat → Nat
  | some c, a => m.f a (lut.getD (c + 1) 0) q
  | none, a => m.f a 0 q

theorem sparseRow_eq_ops (m : Mode) (lut : List Nat) (q : Nat) (sel : List (Nat × Nat))
    (rest row : List Nat) :
    sparseRow m lut q sel rest row =
      (sparseOps sel rest).foldl (fun r o => r.set o.1 (sparsePhi m lut q o.2 (r.getD o.1 0))) row := by
  unfold sparseRow sparseOps
  rw [List.foldl_append, List.foldl_map, List.foldl_map]
  rfl

theorem sparseOps_fst (sel : List (Nat × Nat)) (rest : List Nat) :
    (sparseOps sel rest).map Prod.fst = sel.map Prod.fst ++ rest := by
  unfold sparseOps
  simp [List.map_append, List.map_map, Function.comp_def]

theorem foldl_set_length {β : Type} (φ : β → Nat → Nat) :
    ∀ (ops : List (Nat × β)) (init : List Nat),
      (ops.foldl (fun r o => r.set o.1 (φ o.2 (r.getD o.1 0))) init).length = init.length := by
  intro ops
  induction ops with
  | nil => intro init; rfl
  | cons o ops ih => intro init; simp only [List.foldl_cons]; rw [ih]; simp

/-- pointwise description of a sequence of writes at distinct positions -/
theorem foldl_set_nodup {β : Type} (φ : β → Nat → Nat) :
    ∀ (ops : List (Nat × β)) (init : List Nat) (p : Nat),
      (ops.map Prod.fst).Nodup → p < init.length →
      (ops.foldl (fun r o => r.set o.1 (φ o.2 (r.getD o.1 0))) init).getD p 0 =
        match ops.find? (fun o => o.1 == p) with
        | some o => φ o.2 (init.getD p 0)
        | none => init.getD p 0 := by
  intro ops
  induction ops with
  | nil => intro init p _ _; rfl
  | cons o ops ih =>
    intro init p hnd hp
    simp only [List.map_cons, List.nodup_cons] at hnd
    obtain ⟨hnotin, hnd'⟩ := hnd
    simp only [List.foldl_cons]
    rw [ih _ p hnd' (by simpa using hp)]
    by_cases hop : o.1 = p
    · have hfind : ops.find? (fun o => o.1 == p) = none := by
        rw [List.find?_eq_none]
        intro x hx hxp
        apply hnotin
        have : x.1 = o.1 := by rw [hop]; simpa using hxp
        rw [← this]
        exact List.mem_map_of_mem hx
      rw [hfind]
      simp only [List.find?_cons, hop, beq_self_eq_true]
      rw [← hop, List.getD_eq_getElem?_getD, List.getElem?_set_self (by rw [hop]; exact hp)]
      rfl
    · have hne : (o.1 == p) = false := by simpa using hop
      simp only [List.find?_cons, hne]
      have hop' : o.1 ≠ p := hop
      have hget : (init.set o.1 (φ o.2 (init.getD o.1 0))).getD p 0 = init.getD p 0 := by
        rw [List.getD_eq_getElem?_getD, List.getElem?_set_ne hop', ← List.getD_eq_getElem?_getD]
      rw [hget]

/-- with distinct positions, looking an operation up by its own position finds it -/
theorem find_self {β : Type} : ∀ (ops : List (Nat × β)) (o : Nat × β),
    (ops.map Prod.fst).Nodup → o ∈ ops → ops.find? (fun x => x.1 == o.1) = some o := by
  intro ops
  induction ops with
  | nil => intro o _ h; simp at h
  | cons a ops ih =>
    intro o hnd hmem
    simp only [List.map_cons, List.nodup_cons] at hnd
    obtain ⟨hnotin, hnd'⟩ := hnd
    simp only [List.mem_cons] at hmem
    by_cases ha : a.1 = o.1
    · rcases hmem with rfl | hmem
      · simp
      · exfalso
        apply hnotin
        rw [ha]
        exact List.mem_map_of_mem hmem
    · have hne : (a.1 == o.1) = false := by simpa using ha
      rcases hmem with rfl | hmem
      · exact absurd rfl ha
      · simp only [List.find?_cons, hne]
        exact ih o hnd' hmem

/-! ### the sampled integer vector -/

/-- the integer sampled at position `p`: `+1` / `−1` for a selected position with sign bit 0 / 1,
    `0` for the others -/
def sparseVal (sel : List (Nat × Nat)) (rest : List Nat) (p : Nat) : Int :=
  match (sparseOps sel rest).find? (fun o => o.1 == p) with
  | some (_, some c) => if c = 0 then 1 else -1
  | _ => 0

/-- the sampled vector -/
def sparseVec (N : Nat) (sel : List (Nat × Nat)) (rest : List Nat) : List Int :=
  (List.range N).map (sparseVal sel rest)

section
variable {N : Nat} {sel : List (Nat × Nat)} {rest : List Nat}

theorem sparseOps_nodup (hperm : (sel.map Prod.fst ++ rest).Perm (List.range N)) :
    ((sparseOps sel rest).map Prod.fst).Nodup := by
  rw [sparseOps_fst]
  exact hperm.nodup_iff.mpr List.nodup_range

theorem sparseOps_cover (hperm : (sel.map Prod.fst ++ rest).Perm (List.range N)) (p : Nat) (hp : p < N) :
    ∃ o, o ∈ sparseOps sel rest ∧ o.1 = p := by
  have : p ∈ (sparseOps sel rest).map Prod.fst := by
    rw [sparseOps_fst]
    exact hperm.mem_iff.mpr (List.mem_range.mpr hp)
  obtain ⟨o, ho, rfl⟩ := List.mem_map.mp this
  exact ⟨o, ho, rfl⟩

theorem sparseOps_mem (o : Nat × Option Nat) (ho : o ∈ sparseOps sel rest) :
    (∃ pc ∈ sel, o = (pc.1, some pc.2)) ∨ (∃ i ∈ rest, o = (i, none)) := by
  unfold sparseOps at ho
  simp only [List.mem_append, List.mem_map] at ho
  rcases ho with ⟨pc, hpc, rfl⟩ | ⟨i, hi, rfl⟩
  · exact Or.inl ⟨pc, hpc, rfl⟩
  · exact Or.inr ⟨i, hi, rfl⟩

/-- every position of the row is written exactly once: pointwise value of the result -/
theorem sparseRow_getD (m : Mode) (lut : List Nat) (q : Nat) (row : List Nat)
    (hperm : (sel.map Prod.fst ++ rest).Perm (List.range N)) (hrow : row.length = N)
    (p : Nat) (hp : p < N) :
    ∃ o, o ∈ sparseOps sel rest ∧ o.1 = p ∧
      (sparseOps sel rest).find? (fun x => x.1 == p) = some o ∧
      (sparseRow m lut q sel rest row).getD p 0 = sparsePhi m lut q o.2 (row.getD p 0) := by
  obtain ⟨o, ho, hop⟩ := sparseOps_cover hperm p hp
  have hnd := sparseOps_nodup hperm
  have hfind : (sparseOps sel rest).find? (fun x => x.1 == p) = some o := by
    rw [← hop]; exact find_self _ o hnd ho
  refine ⟨o, ho, hop, hfind, ?_⟩
  rw [sparseRow_eq_ops, foldl_set_nodup _ _ _ p hnd (by omega), hfind]

theorem sparseRow_length (m : Mode) (lut : List Nat) (q : Nat) (row : List Nat) :
    (sparseRow m lut q sel rest row).length = row.length := by
  rw [sparseRow_eq_ops, foldl_set_length]

/-- `Read`, plain output: the row is the residue vector of the sampled integers -/
theorem sparseRow_read_plain (q : Nat) (hq : 2 ≤ q) (hqW : q < W) (row : List Nat)
    (hperm : (sel.map Prod.fst ++ rest).Perm (List.range N)) (hrow : row.length = N)
    (hbits : ∀ pc ∈ sel, pc.2 ≤ 1) :
    sparseRow .read (ternLut false q) q sel rest row = (sparseVec N sel rest).map (resOf q) := by
  apply List.ext_getElem
  · rw [sparseRow_length, hrow]; simp [sparseVec]
  · intro p h1 h2
    have hp : p < N := by rw [sparseRow_length, hrow] at h1; exact h1
    obtain ⟨o, ho, hop, hfind, hval⟩ := sparseRow_getD .read (ternLut false q) q row hperm hrow p hp
    rw [← getD_of_lt _ _ h1, hval]
    simp only [sparseVec, List.getElem_map, List.getElem_range, sparseVal, hfind]
    rcases sparseOps_mem o ho with ⟨pc, hpc, rfl⟩ | ⟨i, _, rfl⟩
    · have hc := hbits pc hpc
      have h01 : pc.2 = 0 ∨ pc.2 = 1 := by omega
      show (ternLut false q).getD (pc.2 + 1) 0 = _
      rw [ternLut_plain q hq hqW (pc.2 + 1) (by omega)]
      rcases h01 with h0 | h1'
      · simp [h0, ternVal]
      · simp [h1', ternVal]
    · show (0 : Nat) = resOf q 0
      simp [resOf]

/-- `ReadAndAdd(a) = a + Read()` row-wise -/
theorem sparseRow_add (lut : List Nat) (q : Nat) (row : List Nat)
    (hperm : (sel.map Prod.fst ++ rest).Perm (List.range N)) (hrow : row.length = N) :
    sparseRow .readAndAdd lut q sel rest row =
      List.zipWith (fun x w => CRed (u64add x w) q) row (sparseRow .read lut q sel rest row) := by
  apply List.ext_getElem
  · simp [sparseRow_length]
  · intro p h1 h2
    have hp : p < N := by rw [sparseRow_length, hrow] at h1; exact h1
    obtain ⟨o, _, _, hfind, hval⟩ := sparseRow_getD .readAndAdd lut q row hperm hrow p hp
    obtain ⟨o', _, _, hfind', hval'⟩ := sparseRow_getD .read lut q row hperm hrow p hp
    have hoo : o = o' := by rw [hfind] at hfind'; exact Option.some.inj hfind'
    subst hoo
    have hpr : p < row.length := by omega
    have hpr' : p < (sparseRow .read lut q sel rest row).length := by rw [sparseRow_length]; exact hpr
    rw [List.getElem_zipWith, ← getD_of_lt _ _ h1, hval, ← getD_of_lt _ _ hpr', hval', getD_of_lt _ _ hpr]
    cases o.2 <;> rfl

/-- exactly `sel.length` of the sampled integers are non-zero -/
theorem sparseVec_weight (hperm : (sel.map Prod.fst ++ rest).Perm (List.range N)) :
    (sparseVec N sel rest).countP (fun v => v ≠ 0) = sel.length := by
  have hnd := sparseOps_nodup hperm
  unfold sparseVec
  rw [List.countP_map]
  rw [← hperm.countP_eq, List.countP_append]
  have h1 : (sel.map Prod.fst).countP ((fun v => decide (v ≠ 0)) ∘ sparseVal sel rest) = (sel.map Prod.fst).length := by
    rw [List.countP_eq_length]
    intro p hp
    obtain ⟨pc, hpc, rfl⟩ := List.mem_map.mp hp
    have hmem : (pc.1, some pc.2) ∈ sparseOps sel rest := by
      unfold sparseOps
      exact List.mem_append_left _ (List.mem_map.mpr ⟨pc, hpc, rfl⟩)
    have hfind := find_self _ _ hnd hmem
    simp only [Function.comp, sparseVal, hfind]
    split <;> simp
  have h2 : rest.countP ((fun v => decide (v ≠ 0)) ∘ sparseVal sel rest) = 0 := by
    rw [List.countP_eq_zero]
    intro p hp
    have hmem : (p, (none : Option Nat)) ∈ sparseOps sel rest := by
      unfold sparseOps
      exact List.mem_append_right _ (List.mem_map.mpr ⟨p, hp, rfl⟩)
    have hfind := find_self _ _ hnd hmem
    simp only [Function.comp, sparseVal, hfind]
    simp
  rw [h1, h2]
  simp

theorem sparseVec_support (p : Int) (hp : p ∈ sparseVec N sel rest) : p = -1 ∨ p = 0 ∨ p = 1 := by
  unfold sparseVec at hp
  obtain ⟨i, _, rfl⟩ := List.mem_map.mp hp
  unfold sparseVal
  split
  · split <;> simp
  · simp

end

end Lattigo.Sampler
