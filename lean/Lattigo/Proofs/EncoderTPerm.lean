/-
  `permuteMatrix` (schemes/bgv/encoder.go:98) is a permutation of `[0, n)` for EVERY `n = 2^K`, `K ≥ 1`.

  The table is `perm[i] = brv_K((5^i mod 2n) >> 1)`, `perm[i + n/2] = n − 1 − perm[i]`, `i < n/2`.
  * `5` has order `n/2` modulo `2n` (`EncoderC.five_pow_injective`, the Nat form of C11's
    `orderOf_five`), so the `n/2` values `5^i mod 2n` are pairwise distinct;
  * they are `≡ 1 (mod 4)`, so `(5^i mod 2n) >> 1` is even and `< n`: its bit reversal on `K` bits has the
    top bit clear, i.e. the first row lies in `[0, n/2)` and is injective (`NTT.bitRev_inj`);
  * the second row `n − 1 − perm[i]` lies in `[n/2, n)` and is injective as well.
  (Equivalently: `±5^i` exhausts the odd residues modulo `2n`; the second row is the bit reversal of
  `((−5^i) mod 2n) >> 1`, `bitRev_compl`.)
-/
import Lattigo.Model.EncoderT
import Lattigo.Proofs.EncoderC
import Lattigo.Proofs.NTTTables
import Mathlib.Data.List.Perm.Subperm

namespace Lattigo.EncoderT
open Lattigo

theorem powers5_eq (m : ℕ) : ∀ (k p : ℕ), p < m →
    powers5 m k p = (List.range k).map (fun i => p * 5 ^ i % m)
  | 0, _, _ => rfl
  | k + 1, p, h => by
    have hm : 0 < m := by omega
    rw [powers5, powers5_eq m k (p * 5 % m) (Nat.mod_lt _ hm), List.range_succ_eq_map,
      List.map_cons, List.map_map]
    congr 1
    · simp [Nat.mod_eq_of_lt h]
    · apply List.map_congr_left
      intro i _
      simp only [Function.comp]
      rw [pow_succ, Nat.mod_mul_mod]
      congr 1; ring

/-- the first row of the table -/
def row0 (L : ℕ) : List ℕ :=
  (List.range (2 ^ L)).map fun i => NTT.bitRev (5 ^ i % 2 ^ (L + 2) / 2) (L + 1)

theorem permuteMatrix_eq (L : ℕ) :
    permuteMatrix (L + 1) = row0 L ++ (row0 L).map fun pos => 2 ^ (L + 1) - pos - 1 := by
  have h2 : 2 * 2 ^ (L + 1) = 2 ^ (L + 2) := by ring
  have hh : 2 ^ (L + 1) / 2 = 2 ^ L := by rw [pow_succ]; omega
  have h1 : 1 < 2 ^ (L + 2) := Nat.one_lt_two_pow (by omega)
  unfold permuteMatrix row0
  simp only [h2, hh]
  rw [powers5_eq _ _ _ h1, List.map_map]
  have : ((fun p => NTT.bitRev (p / 2) (L + 1)) ∘ fun i => 1 * 5 ^ i % 2 ^ (L + 2))
      = fun i => NTT.bitRev (5 ^ i % 2 ^ (L + 2) / 2) (L + 1) := by
    funext i; simp
  rw [this]

/-- `5^i mod 2^(L+2) ≡ 1 (mod 4)` -/
theorem pow5_mod4 (L i : ℕ) : 5 ^ i % 2 ^ (L + 2) % 4 = 1 := by
  have hd : 4 ∣ 2 ^ (L + 2) := ⟨2 ^ L, by ring⟩
  rw [Nat.mod_mod_of_dvd _ hd]
  exact EncoderC.five_pow_mod4 i

theorem pow5_half_lt (L i : ℕ) : 5 ^ i % 2 ^ (L + 2) / 2 < 2 ^ (L + 1) := by
  have : 5 ^ i % 2 ^ (L + 2) < 2 ^ (L + 2) := Nat.mod_lt _ (by positivity)
  have hpow : 2 ^ (L + 2) = 2 * 2 ^ (L + 1) := by rw [pow_succ]; ring
  generalize 5 ^ i % 2 ^ (L + 2) = p at *
  omega

/-- entries of the first row are `< n/2` -/
theorem row0_lt (L : ℕ) : ∀ x ∈ row0 L, x < 2 ^ L := by
  intro x hx
  unfold row0 at hx
  rw [List.mem_map] at hx
  obtain ⟨i, _, rfl⟩ := hx
  have h4 := pow5_mod4 L i
  rw [NTT.bitRev_succ_first]
  have : 5 ^ i % 2 ^ (L + 2) / 2 % 2 = 0 := by omega
  rw [this, Nat.zero_mul, Nat.zero_add]
  exact NTT.bitRev_lt L _

theorem row0_nodup (L : ℕ) : (row0 L).Nodup := by
  unfold row0
  apply List.Nodup.map_on _ List.nodup_range
  intro i hi j hj h
  have hi' : i < 2 ^ (L + 2 - 2) := by simpa using hi
  have hj' : j < 2 ^ (L + 2 - 2) := by simpa using hj
  have hh := NTT.bitRev_inj (L + 1) _ _ (pow5_half_lt L i) (pow5_half_lt L j) h
  have hi4 := pow5_mod4 L i
  have hj4 := pow5_mod4 L j
  exact EncoderC.five_pow_injective (L + 2) (by omega) i j hi' hj' (by omega)

theorem row0_length (L : ℕ) : (row0 L).length = 2 ^ L := by simp [row0]

theorem permuteMatrix_length' (L : ℕ) : (permuteMatrix (L + 1)).length = 2 ^ (L + 1) := by
  rw [permuteMatrix_eq, List.length_append, List.length_map, row0_length, pow_succ]; omega

theorem permuteMatrix_lt' (L : ℕ) : ∀ p ∈ permuteMatrix (L + 1), p < 2 ^ (L + 1) := by
  intro p hp
  rw [permuteMatrix_eq, List.mem_append] at hp
  have hpow : 2 ^ (L + 1) = 2 * 2 ^ L := by rw [pow_succ]; ring
  rcases hp with h | h
  · have := row0_lt L p h; omega
  · rw [List.mem_map] at h
    obtain ⟨x, hx, rfl⟩ := h
    have := row0_lt L x hx; omega

theorem permuteMatrix_nodup' (L : ℕ) : (permuteMatrix (L + 1)).Nodup := by
  rw [permuteMatrix_eq, List.nodup_append]
  have hpow : 2 ^ (L + 1) = 2 * 2 ^ L := by rw [pow_succ]; ring
  refine ⟨row0_nodup L, ?_, ?_⟩
  · apply List.Nodup.map_on _ (row0_nodup L)
    intro x hx y hy h
    have := row0_lt L x hx
    have := row0_lt L y hy
    omega
  · intro a ha b hb
    rw [List.mem_map] at hb
    obtain ⟨x, hx, rfl⟩ := hb
    have := row0_lt L a ha
    have := row0_lt L x hx
    omega

/-- **permuteMatrix_perm**: for every `K ≥ 1` the index table of the integer encoder is a
    permutation of `[0, 2^K)`. -/
theorem permuteMatrix_perm (K : ℕ) (hK : 1 ≤ K) : (permuteMatrix K).Perm (List.range (2 ^ K)) := by
  obtain ⟨L, rfl⟩ : ∃ L, K = L + 1 := ⟨K - 1, by omega⟩
  have hsub : permuteMatrix (L + 1) ⊆ List.range (2 ^ (L + 1)) :=
    fun p hp => List.mem_range.2 (permuteMatrix_lt' L p hp)
  exact (List.subperm_of_subset (permuteMatrix_nodup' L) hsub).perm_of_length_le
    (by rw [permuteMatrix_length', List.length_range])

theorem permuteMatrix_length (K : ℕ) (hK : 1 ≤ K) : (permuteMatrix K).length = 2 ^ K := by
  rw [(permuteMatrix_perm K hK).length_eq, List.length_range]

theorem permuteMatrix_nodup (K : ℕ) (hK : 1 ≤ K) : (permuteMatrix K).Nodup :=
  (permuteMatrix_perm K hK).nodup_iff.2 List.nodup_range

theorem permuteMatrix_lt (K : ℕ) (hK : 1 ≤ K) : ∀ p ∈ permuteMatrix K, p < 2 ^ K :=
  fun _ hp => List.mem_range.1 ((permuteMatrix_perm K hK).mem_iff.1 hp)

/-! ### the second row is the orbit of `−5^i`: `±5^i` exhausts the odd residues mod `2n` -/

/-- bit reversal commutes with the bitwise complement -/
theorem bitRev_compl : ∀ (L i : ℕ), i < 2 ^ L → NTT.bitRev (2 ^ L - 1 - i) L = 2 ^ L - 1 - NTT.bitRev i L
  | 0, i, h => by simp [NTT.bitRev_zero_len]
  | L + 1, i, h => by
    have hi2 : i / 2 < 2 ^ L := by rw [pow_succ] at h; omega
    have hb := NTT.bitRev_lt L (i / 2)
    have ih := bitRev_compl L (i / 2) hi2
    rw [NTT.bitRev_succ_first, NTT.bitRev_succ_first L i]
    have hpow : 2 ^ (L + 1) = 2 * 2 ^ L := by rw [pow_succ]; ring
    have hpos : 0 < 2 ^ L := by positivity
    have h1 : (2 ^ (L + 1) - 1 - i) / 2 = 2 ^ L - 1 - i / 2 := by omega
    have h2 : (2 ^ (L + 1) - 1 - i) % 2 = 1 - i % 2 := by omega
    rw [h1, h2, ih]
    rcases Nat.mod_two_eq_zero_or_one i with h0 | h0 <;> rw [h0] <;> simp <;> omega

/-- the second row, read through the complement: `perm[i + n/2] = brv_K(((2n − 5^i mod 2n)) >> 1)` -/
theorem row1_eq (L i : ℕ) :
    2 ^ (L + 1) - NTT.bitRev (5 ^ i % 2 ^ (L + 2) / 2) (L + 1) - 1
      = NTT.bitRev ((2 ^ (L + 2) - 5 ^ i % 2 ^ (L + 2)) / 2) (L + 1) := by
  have hlt := pow5_half_lt L i
  have h4 := pow5_mod4 L i
  have hp : 5 ^ i % 2 ^ (L + 2) < 2 ^ (L + 2) := Nat.mod_lt _ (by positivity)
  have hpow : 2 ^ (L + 2) = 2 * 2 ^ (L + 1) := by rw [pow_succ]; ring
  have : (2 ^ (L + 2) - 5 ^ i % 2 ^ (L + 2)) / 2 = 2 ^ (L + 1) - 1 - 5 ^ i % 2 ^ (L + 2) / 2 := by omega
  rw [this, bitRev_compl (L + 1) _ hlt]
  omega

end Lattigo.EncoderT
