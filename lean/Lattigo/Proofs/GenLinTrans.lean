/-
  C12 — the regenerated index arithmetic of `lintrans.BSGSIndex` (`Lattigo/Gen/LinTrans.lean`: the
  first three statements of the loop over the non-zero diagonals, printed by tools/go2lean on every
  run) against the hand-written model `Model/LinTrans.lean` (`normIdx`, `giant`, `baby`).
  `slots` and `N1` are powers of two (as everywhere in lattigo); `rot` is ANY Go `int`.
-/
import Lattigo.Gen.LinTrans
import Lattigo.Model.LinTrans
import Lattigo.Proofs.GenParams

namespace Lattigo.Proofs.GenLinTrans
open Lattigo Lattigo.Gen.LinTrans Lattigo.Model.LinTrans Lattigo.Proofs.GenParams

theorem u64and_mask (x a : Nat) : u64and x (2 ^ a - 1) = x % 2 ^ a := by
  unfold u64and; exact Nat.and_two_pow_sub_one_eq_mod x a

/-- the word of an `int`, masked with `2^a - 1` (`a ≤ 64`), is the non-negative remainder mod `2^a`. -/
theorem mask_cast (rot : Int) (a : Nat) (ha : a ≤ 64) :
    ((i64ofInt rot % 2 ^ a : Nat) : Int) = rot % ((2 ^ a : Nat) : Int) := by
  unfold i64ofInt
  have h64 : (18446744073709551616 : Int) = ((2 ^ 64 : Nat) : Int) := by norm_num
  have hpos : (0 : Int) ≤ rot % 18446744073709551616 := Int.emod_nonneg _ (by norm_num)
  rw [Int.natCast_mod, Int.toNat_of_nonneg hpos, h64]
  apply Int.emod_emod_of_dvd
  exact Int.natCast_dvd_natCast.2 (Nat.pow_dvd_pow 2 ha)

/-- **the index arithmetic of `BSGSIndex`, regenerated = model**: for `slots = 2^a`, `N1 = 2^b`
    (`a, b ≤ 62`) and every Go `int` `rot`, the three values computed for one diagonal are
    `normIdx`, `giant`, `baby` of the model. -/
theorem BSGSIndex_rot_eq (a b : Nat) (ha : a ≤ 62) (hb : b ≤ 62) (rot : Int) :
    let r := BSGSIndex_rot (2 ^ a) (2 ^ b) (i64ofInt rot)
    i64toInt r.1 = normIdx (2 ^ a) rot
    ∧ i64toInt r.2.1 = giant (2 ^ a) (2 ^ b) (normIdx (2 ^ a) rot)
    ∧ i64toInt r.2.2 = baby (2 ^ b) (normIdx (2 ^ a) rot) := by
  intro r
  have hA : 2 ^ a ≤ 2 ^ 62 := Nat.pow_le_pow_right (by norm_num) ha
  have hB : 2 ^ b ≤ 2 ^ 62 := Nat.pow_le_pow_right (by norm_num) hb
  have hApos : 0 < 2 ^ a := Nat.two_pow_pos a
  have hBpos : 0 < 2 ^ b := Nat.two_pow_pos b
  have hsA : u64sub (2 ^ a) 1 = 2 ^ a - 1 := u64sub_small _ _ hApos (by unfold W; omega)
  have hsB : u64sub (2 ^ b) 1 = 2 ^ b - 1 := u64sub_small _ _ hBpos (by unfold W; omega)
  -- the normalised rotation
  have hρ : r.1 = i64ofInt rot % 2 ^ a := by
    show u64and (i64ofInt rot) (u64sub (2 ^ a) 1) = _
    rw [hsA, u64and_mask]
  have hρlt : r.1 < 2 ^ a := by rw [hρ]; exact Nat.mod_lt _ hApos
  have hρcast : ((r.1 : Nat) : Int) = normIdx (2 ^ a) rot := by
    rw [hρ]; exact mask_cast rot a (by omega)
  have h1 : i64toInt r.1 = normIdx (2 ^ a) rot := by
    rw [i64toInt_small _ (by omega)]; exact hρcast
  refine ⟨h1, ?_, ?_⟩
  · have hg : r.2.1 = (r.1 / 2 ^ b * 2 ^ b) % 2 ^ a := by
      show u64and (u64mul (i64div r.1 (2 ^ b)) (2 ^ b)) (u64sub (2 ^ a) 1) = _
      rw [hsA, u64and_mask, i64div_small _ _ (by omega) (by omega)]
      have hle : r.1 / 2 ^ b * 2 ^ b ≤ r.1 := Nat.div_mul_le_self _ _
      unfold u64mul
      rw [Nat.mod_eq_of_lt (a := r.1 / 2 ^ b * 2 ^ b) (by unfold W; omega)]
    have hlt : r.2.1 < 2 ^ a := by rw [hg]; exact Nat.mod_lt _ hApos
    rw [i64toInt_small _ (by omega), hg]
    have hc : normIdx (2 ^ a) rot = ((r.1 : Nat) : Int) := hρcast.symm
    rw [hc]
    unfold giant normIdx
    push_cast
    rfl
  · have hb' : r.2.2 = r.1 % 2 ^ b := by
      show u64and r.1 (u64sub (2 ^ b) 1) = _
      rw [hsB, u64and_mask]
    have hlt : r.2.2 < 2 ^ b := by rw [hb']; exact Nat.mod_lt _ hBpos
    rw [i64toInt_small _ (by omega), hb']
    have hc : normIdx (2 ^ a) rot = ((r.1 : Nat) : Int) := hρcast.symm
    rw [hc]
    unfold baby
    push_cast
    rfl

end Lattigo.Proofs.GenLinTrans
