/-
  C09 — lemmas about the `Store` model: evaluation of `run`, frame lemma.
-/
import Lattigo.Model.Store

namespace Lattigo.Store

variable {α : Type}

@[simp] theorem Store.set_get (σ : Store α) (l : Loc) (v : α) (x : Loc) :
    (σ.set l v).get x = if x = l then v else σ.get x := rfl

@[simp] theorem run_nil (I : Interp α) (σ : Store α) : run I [] σ = σ := rfl

@[simp] theorem run_cons (I : Interp α) (s : Step) (p : Prog) (σ : Store α) :
    run I (s :: p) σ = run I p (s.exec I σ) := rfl

theorem run_append (I : Interp α) (p q : Prog) (σ : Store α) :
    run I (p ++ q) σ = run I q (run I p σ) := by
  simp [run, List.foldl_append]

/-- a location that is not the destination of any step keeps its value -/
theorem run_frame (I : Interp α) : ∀ (p : Prog) (σ : Store α) (l : Loc),
    (∀ s ∈ p, s.dst ≠ l) → (run I p σ).get l = σ.get l
  | [], _, _, _ => rfl
  | s :: p, σ, l, h => by
    rw [run_cons, run_frame I p _ l (fun t ht => h t (List.mem_cons_of_mem _ ht))]
    have : l ≠ s.dst := fun e => h s (List.mem_cons_self ..) e.symm
    simp [Step.exec, this]

theorem loc_ne_of_obj_ne {x : Loc} {o f : Nat} (h : x.obj ≠ o) : x ≠ ⟨o, f⟩ := by
  intro e; subst e; exact h rfl

end Lattigo.Store
