/-
  C13 — Chebyshev factorisation `p = q·T_n + r` as computed by `bignum.Polynomial.Factorize`
  (model: `factorize … true`), and Paterson–Stockmeyer in the Chebyshev basis.
-/
import Lattigo.Proofs.PolyEval
import Mathlib.Algebra.BigOperators.Intervals

namespace Lattigo.Model.PolyEval

open Finset

section
variable {R : Type} [CommRing R]

/-- the algebraic heart: with `2·t_j·t_n = t_{n+j} + t_{n-j}` (`1 ≤ j ≤ n`) and `t_0 = 1`,
    `Σ_{i ≤ 2n} P_i t_i = (P_n t_0 + Σ_{j=1}^{n} 2P_{n+j} t_j)·t_n + Σ_{i<n} (P_i − P_{2n−i}) t_i`. -/
theorem cheb_split (P t : ℕ → R) (n : ℕ) (ht0 : t 0 = 1)
    (ht : ∀ j, 1 ≤ j → j ≤ n → 2 * t j * t n = t (n + j) + t (n - j)) :
    ∑ i ∈ range (2 * n + 1), P i * t i
      = (P n * t 0 + ∑ j ∈ range n, (2 * P (n + 1 + j)) * t (1 + j)) * t n
        + ∑ i ∈ range n, (P i - P (2 * n - i)) * t i := by
  have h1 : ∑ i ∈ range (2 * n + 1), P i * t i
      = ∑ i ∈ range n, P i * t i + (∑ j ∈ range n, P (n + 1 + j) * t (n + 1 + j) + P n * t n) := by
    have : 2 * n + 1 = n + (n + 1) := by ring
    rw [this, Finset.sum_range_add, Finset.sum_range_succ']
    congr 2
    apply Finset.sum_congr rfl
    intro j _
    have : n + (j + 1) = n + 1 + j := by ring
    rw [this]
  have h2 : (∑ j ∈ range n, (2 * P (n + 1 + j)) * t (1 + j)) * t n
      = ∑ j ∈ range n, P (n + 1 + j) * t (n + 1 + j) + ∑ j ∈ range n, P (n + 1 + j) * t (n - (1 + j)) := by
    rw [Finset.sum_mul, ← Finset.sum_add_distrib]
    apply Finset.sum_congr rfl
    intro j hj
    have hj' := Finset.mem_range.1 hj
    have := ht (1 + j) (by omega) (by omega)
    have e : n + (1 + j) = n + 1 + j := by ring
    rw [e] at this
    linear_combination (P (n + 1 + j)) * this
  have h3 : ∑ j ∈ range n, P (n + 1 + j) * t (n - (1 + j)) = ∑ i ∈ range n, P (2 * n - i) * t i := by
    rw [← Finset.sum_range_reflect (fun i => P (2 * n - i) * t i) n]
    apply Finset.sum_congr rfl
    intro j hj
    have hj' := Finset.mem_range.1 hj
    have e2 : n - 1 - j = n - (1 + j) := by omega
    have e3 : 2 * n - (n - (1 + j)) = n + 1 + j := by omega
    simp only [e2, e3]
  have h4 : ∑ i ∈ range n, (P i - P (2 * n - i)) * t i
      = ∑ i ∈ range n, P i * t i - ∑ i ∈ range n, P (2 * n - i) * t i := by
    rw [← Finset.sum_sub_distrib]
    apply Finset.sum_congr rfl
    intro i _; ring
  rw [h1, add_mul, h2, h3, h4, ht0]
  ring

/-- `evalFrom` as a finite sum over `getD` -/
theorem evalFrom_eq_sum (cheb : Bool) (x : R) (k : ℕ) (l : List R) (N : ℕ) (hN : l.length ≤ N) :
    evalFrom (ringOps R) cheb x k l
      = ∑ i ∈ range N, l.getD i 0 * powVal (ringOps R) cheb x (k + i + 1) (k + i) := by
  induction l generalizing k N with
  | nil => simp [evalFrom, ringOps]
  | cons c cs ih =>
    obtain ⟨N', rfl⟩ : ∃ N', N = N' + 1 := ⟨N - 1, by simp at hN; omega⟩
    rw [Finset.sum_range_succ']
    simp only [evalFrom, List.getD_cons_zero, List.getD_cons_succ, Nat.add_zero]
    rw [ih (k + 1) N' (by simpa using hN)]
    simp only [ringOps]
    rw [add_comm]
    congr 1
    apply Finset.sum_congr rfl
    intro i _
    have : k + 1 + i = k + (i + 1) := by ring
    rw [this]

theorem getD_drop' (l : List R) (n j : ℕ) : (l.drop n).getD j 0 = l.getD (n + j) 0 := by
  simp [List.getD_eq_getElem?_getD, List.getElem?_drop]

/-- coefficients of the quotient -/
theorem factorize_cheb_q (n : ℕ) (p : List R) (j : ℕ) :
    (factorize (ringOps R) true n p).1.getD j 0
      = if j = 0 then p.getD n 0 else 2 * p.getD (n + j) 0 := by
  simp only [factorize, Bool.not_true, Bool.false_eq_true, if_false]
  have hd := getD_drop' p n
  cases hdr : p.drop n with
  | nil =>
    have h0 : ∀ j, p.getD (n + j) 0 = 0 := by intro j; rw [← hd, hdr]; simp
    have hn0 := h0 0
    simp only [Nat.add_zero] at hn0
    show ([] : List R).getD j 0 = _
    by_cases hj : j = 0
    · rw [if_pos hj, hn0]; simp
    · rw [if_neg hj, h0 j]; simp
  | cons c cs =>
    show (c :: cs.map fun x => (ringOps R).mul ((ringOps R).ofNat 2) x).getD j 0 = _
    cases j with
    | zero =>
      have h := hd 0
      rw [hdr] at h
      simp only [List.getD_cons_zero, Nat.add_zero] at h
      rw [if_pos rfl, List.getD_cons_zero]
      exact h
    | succ j' =>
      have h := hd (j' + 1)
      rw [hdr] at h
      simp only [List.getD_cons_succ] at h
      rw [if_neg (Nat.succ_ne_zero j'), List.getD_cons_succ, ← h]
      simp only [List.getD_eq_getElem?_getD, List.getElem?_map, ringOps, Nat.cast_ofNat]
      cases cs[j']? <;> simp

theorem factorize_cheb_q_length (n : ℕ) (p : List R) (hp : p.length ≤ 2 * n + 1) :
    (factorize (ringOps R) true n p).1.length ≤ n + 1 := by
  simp only [factorize, Bool.not_true, Bool.false_eq_true, if_false]
  have : (p.drop n).length ≤ n + 1 := by rw [List.length_drop]; omega
  cases hdr : p.drop n with
  | nil => simp
  | cons c cs => rw [hdr] at this; simpa using this

/-- coefficients of the remainder -/
theorem factorize_cheb_r (n : ℕ) (p : List R) (i : ℕ) (hi : i < n) :
    (factorize (ringOps R) true n p).2.getD i 0 = p.getD i 0 - p.getD (2 * n - i) 0 := by
  simp only [factorize, Bool.not_true, Bool.false_eq_true, if_false]
  rw [List.getD_eq_getElem?_getD, List.getElem?_map, List.getElem?_range hi]
  simp only [Option.map_some, Option.getD_some, ringOps, Nat.cast_zero]
  split
  · rfl
  · rename_i hc
    have hlen : p.length ≤ 2 * n - i := by omega
    have : p.getD (2 * n - i) 0 = 0 := by
      rw [List.getD_eq_getElem?_getD, List.getElem?_eq_none hlen]; rfl
    rw [this, sub_zero]

theorem factorize_cheb_r_length (n : ℕ) (p : List R) :
    (factorize (ringOps R) true n p).2.length = n := by
  simp [factorize]

open Polynomial in
/-- **factorize_spec (Chebyshev)**: `Σ p_i T_i(x) = (Σ q_j T_j(x))·T_n(x) + Σ r_i T_i(x)` with
    `(q, r) = Factorize(n)`, `r` of degree `< n`, for every coefficient list of degree `≤ 2n`
    (the code's callers guarantee `n ≥ ⌊deg/2⌋ + 1`) and `n ≥ 1` -/
theorem factorize_chebyshev (x : R) (n : ℕ) (p : List R) (hp : p.length ≤ 2 * n + 1) :
    evalBasis (ringOps R) true x p
      = evalBasis (ringOps R) true x (factorize (ringOps R) true n p).1
          * powVal (ringOps R) true x (n + 1) n
        + evalBasis (ringOps R) true x (factorize (ringOps R) true n p).2
    ∧ (factorize (ringOps R) true n p).2.length = n := by
  refine ⟨?_, factorize_cheb_r_length n p⟩
  let t : ℕ → R := fun m => (Chebyshev.T R (m : ℤ)).eval x
  have hB : ∀ m, powVal (ringOps R) true x (m + 1) m = t m :=
    fun m => powVal_chebyshev x (m + 1) m (by omega) (by omega)
  have hB0 : ∀ m, powVal (ringOps R) true x (0 + m + 1) (0 + m) = t m := by
    intro m; rw [Nat.zero_add]; exact hB m
  have ht0 : t 0 = 1 := by simp [t]
  have ht : ∀ j, 1 ≤ j → j ≤ n → 2 * t j * t n = t (n + j) + t (n - j) := by
    intro j _ hj
    have key := congrArg (Polynomial.eval x) (Chebyshev.T_mul_T R (j : ℤ) (n : ℤ))
    simp only [Polynomial.eval_mul, Polynomial.eval_add, Polynomial.eval_ofNat] at key
    have e1 : ((j : ℤ) + (n : ℤ)) = ((n + j : ℕ) : ℤ) := by push_cast; ring
    have e2 : Chebyshev.T R ((j : ℤ) - (n : ℤ)) = Chebyshev.T R (((n - j : ℕ)) : ℤ) := by
      rw [← Chebyshev.T_neg]; congr 1; omega
    rw [e1, e2] at key
    exact key
  simp only [evalBasis]
  rw [evalFrom_eq_sum true x 0 p (2 * n + 1) hp,
    evalFrom_eq_sum true x 0 _ (n + 1) (factorize_cheb_q_length n p hp),
    evalFrom_eq_sum true x 0 _ n (le_of_eq (factorize_cheb_r_length n p)), hB n]
  simp only [hB0]
  rw [cheb_split (fun i => p.getD i 0) t n ht0 ht]
  congr 1
  · congr 1
    rw [Finset.sum_range_succ']
    rw [factorize_cheb_q, if_pos rfl, add_comm]
    congr 1
    apply Finset.sum_congr rfl
    intro j _
    rw [factorize_cheb_q, if_neg (by omega)]
    have e1 : n + (j + 1) = n + 1 + j := by ring
    have e2 : j + 1 = 1 + j := by ring
    rw [e1, e2]
  · apply Finset.sum_congr rfl
    intro i hi
    rw [factorize_cheb_r n p i (Finset.mem_range.1 hi)]

/-- the loop of `recursePS` picks `nextPower ≥ ⌊deg/2⌋ + 1` -/
theorem nextPowerLoop_ge (deg fuel np : ℕ) (hnp : 1 ≤ np) (hf : deg / 2 + 1 ≤ np * 2 ^ fuel) :
    deg / 2 + 1 ≤ nextPowerLoop deg fuel np := by
  induction fuel generalizing np with
  | zero => simpa [nextPowerLoop] using hf
  | succ f ih =>
    unfold nextPowerLoop
    split
    · apply ih (2 * np) (by omega)
      rw [pow_succ] at hf
      calc deg / 2 + 1 ≤ np * (2 ^ f * 2) := hf
        _ = 2 * np * 2 ^ f := by ring
    · omega

theorem nextPower_ge (logSplit deg : ℕ) : deg / 2 + 1 ≤ nextPower logSplit deg := by
  unfold nextPower
  apply nextPowerLoop_ge deg (deg + 1) (2 ^ logSplit) Nat.one_le_two_pow
  have h1 : deg + 1 < 2 ^ (deg + 1) := Nat.lt_two_pow_self
  have h2 : 1 ≤ 2 ^ logSplit := Nat.one_le_two_pow
  calc deg / 2 + 1 ≤ deg + 1 := by omega
    _ ≤ 1 * 2 ^ (deg + 1) := by omega
    _ ≤ 2 ^ logSplit * 2 ^ (deg + 1) := Nat.mul_le_mul_right _ h2

/-- **ps_spec (Chebyshev)** -/
theorem psRec_chebyshev (logSplit : ℕ) (x : R) (fuel : ℕ) (p : List R) :
    psRec (ringOps R) true logSplit x fuel p = evalBasis (ringOps R) true x p := by
  apply psRec_of_factorize (ringOps R) rfl true logSplit x
  intro p _
  have hge := nextPower_ge logSplit (p.length - 1)
  exact (factorize_chebyshev x _ p (by omega)).1

end

end Lattigo.Model.PolyEval
