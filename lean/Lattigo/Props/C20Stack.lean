/-
  C20 ⟵ C02: the external product with division by `P`, the rounding hypotheses DISCHARGED.

  `Props/C20Ring.extprod_phase_div_rpoly` takes ABSTRACT `md`, `r`, `P`, `Pinv` with `P·md x = π x − r x` and
  `Pinv·P = 1` as hypotheses.  Here they are what the model (`RGSW.extProdR`) uses: `md = RGSW.modDown qs ps`
  (`ModDownQPtoQNTT`), `r x = π(remC x)` (`remC` = C02's `centeredRep P` of the CRT value of every coefficient of the
  `P` rows), `P = Π ps` as a constant of `R_Q`, `Pinv = KS.pinvElt` (`P⁻¹ mod q_i` by extended Euclid), and both
  identities are PROVED (`StackKS.rgsw_modDown_closed`, `StackKS.hP_closed`) for every chain `qs ++ ps` of pairwise
  coprime moduli `≥ 2`, every `n ≥ 1`, all well-formed inputs.  `RGSW.modDown` reconstructs with `RPoly.crt` (no
  floating point): there is NO hypothesis on any index.

  * `extprod_phase_closed` : `phase(out) = g·phase(ct) + P⁻¹·(π(Σ d e) − π(remC u₀) − π(remC u₁)·s)`,
    `remC u_i ≡ u_i (mod P)`, `2‖remC u_i‖∞ ≤ P` (for odd `P`).
    (still with the recombination `Σ_k d_k·(P·w_k) = Pc`, `π Pc = P·c` of ARBITRARY digit lists as hypotheses);
  * `extprod_phase_full` : the same for the model's own `RGSW.extProdR` / `encryptR` (what the driver's `extprod` handler
    prints, `hExtProd_calls`): digits `RGSW.digitsOf`, gadget vector `RGSW.pgList`, with the recombination PROVED
    (`StackKS.rgsw_recombine`: uncentred base-`2^w` digits through `digits_recombine_of_modulus`, centred RNS digits of
    `#P ≥ 2` primes through C02's `hps_sum_eq`).  Hypotheses left: well-formedness of the inputs and the number of
    samples (`= #gadget rows`).
-/
import Lattigo.Props.C20Ring
import Lattigo.Proofs.StackKSExact
import Lattigo.Proofs.StackKSRGSW

set_option linter.unusedSectionVars false
set_option linter.unusedSimpArgs false

namespace Lattigo.Props.C20Stack
open Lattigo Lattigo.RGSW Lattigo.RPolyRing Lattigo.Transport Lattigo.Props.C20Ring Lattigo.StackKS
open Lattigo.Scaling (prodN)

section closed
variable {qs ps : List ℕ} {n : ℕ} [hgq : Good qs n] [hg : Good (qs ++ ps) n]

theorem pinv_mul_P (hcop : ∀ q ∈ qs, Nat.Coprime (RPoly.prod ps) q) :
    KS.pinvElt qs ps n * constQ qs n (RPoly.prod ps) = rpOne qs n := by
  have h := hP_closed (qs := qs) (n := n) ps hcop
  obtain ⟨P, hP⟩ := exists_lift _ (constQ_wf (qs := qs) (n := n) (RPoly.prod ps))
  obtain ⟨I, hI⟩ := exists_lift _ (pinvElt_wf (qs := qs) (n := n) ps)
  rw [← hP, ← hI] at h ⊢
  have h' : P * I = 1 := val_injective h
  show val (I * P) = val (1 : WFPoly qs n)
  rw [mul_comm, h']

/-- the accumulator of the external product of well-formed values is well formed -/
theorem extProdLazy_wf (s g : RPoly) (pgs : List RPoly) (smp0 smp1 : List (RPoly × RPoly)) (d0 d1 : List RPoly)
    (hs : WFq (qs ++ ps) n s) (hgw : WFq (qs ++ ps) n g) (hpgs : WFlist (qs ++ ps) n pgs)
    (hw0 : WFplist (qs ++ ps) n smp0) (hw1 : WFplist (qs ++ ps) n smp1)
    (hd0 : WFlist (qs ++ ps) n d0) (hd1 : WFlist (qs ++ ps) n d1) :
    WFq (qs ++ ps) n (extProdLazy (RPoly.zero (qs ++ ps) n) d0 d1 (encrypt encZero s g pgs smp0 smp1)).1
      ∧ WFq (qs ++ ps) n (extProdLazy (RPoly.zero (qs ++ ps) n) d0 d1 (encrypt encZero s g pgs smp0 smp1)).2 := by
  obtain ⟨s, rfl⟩ := exists_lift s hs
  obtain ⟨g, rfl⟩ := exists_lift g hgw
  obtain ⟨pgs, rfl⟩ := exists_lift_list pgs hpgs
  obtain ⟨smp0, rfl⟩ := exists_lift_pairs smp0 hw0
  obtain ⟨smp1, rfl⟩ := exists_lift_pairs smp1 hw1
  obtain ⟨d0, rfl⟩ := exists_lift_list d0 hd0
  obtain ⟨d1, rfl⟩ := exists_lift_list d1 hd1
  have h := extProdLazy_push val_hom (0 : WFPoly (qs ++ ps) n) d0 d1 (encrypt encZero s g pgs smp0 smp1)
  rw [encrypt_push val_hom] at h
  have e0 : val (0 : WFPoly (qs ++ ps) n) = RPoly.zero (qs ++ ps) n := rfl
  rw [e0] at h
  rw [← h]
  exact ⟨val_wf _, val_wf _⟩

/-- **extprod_phase_closed.**  The external product followed by the model's rounded division by `P`
(`RGSW.modDown`), on well-formed inputs over pairwise coprime moduli: the phase of the result is `g` times the phase of
the input plus `P⁻¹·(π(Σ d_k e_k) − π(remC u₀) − π(remC u₁)·s)`, where `u` is the accumulator modulo `QP`, `remC u_i` its
exact centred remainder modulo `P`: `remC u_i ≡ u_i (mod P)`, `2‖remC u_i‖∞ ≤ P`. -/
theorem extprod_phase_closed (hps : ps ≠ []) (hco : (qs ++ ps).Pairwise Nat.Coprime)
    (hPodd : prodN ps % 2 = 1)
    (s g : RPoly) (pgs : List RPoly) (smp0 smp1 : List (RPoly × RPoly)) (d0 d1 : List RPoly)
    (Pc0 Pc1 : RPoly) (c0 c1 : RPoly)
    (hs : WFq (qs ++ ps) n s) (hgw : WFq (qs ++ ps) n g) (hpgs : WFlist (qs ++ ps) n pgs)
    (hw0 : WFplist (qs ++ ps) n smp0) (hw1 : WFplist (qs ++ ps) n smp1)
    (hd0 : WFlist (qs ++ ps) n d0) (hd1 : WFlist (qs ++ ps) n d1)
    (hc0w : WFq qs n c0) (hc1w : WFq qs n c1)
    (h0 : pgs.length = smp0.length) (h1 : pgs.length = smp1.length)
    (hrec0 : wsumZ (RPoly.zero (qs ++ ps) n) d0 pgs = Pc0) (hrec1 : wsumZ (RPoly.zero (qs ++ ps) n) d1 pgs = Pc1)
    (hc0 : takeRows qs.length Pc0 = constQ qs n (RPoly.prod ps) * c0)
    (hc1 : takeRows qs.length Pc1 = constQ qs n (RPoly.prod ps) * c1) :
    let π := takeRows qs.length
    let z := RPoly.zero (qs ++ ps) n
    let rg := encrypt encZero s g pgs smp0 smp1
    let u := extProdLazy z d0 d1 rg
    let E := wsumZ z d0 (smp0.map Prod.snd) + wsumZ z d1 (smp1.map Prod.snd)
    phase (extProd (RGSW.modDown qs ps) z d0 d1 rg) (π s)
        = π g * phase (c0, c1) (π s)
          + KS.pinvElt qs ps n * (π E - (π (remC qs ps u.1) + π (remC qs ps u.2) * π s))
      ∧ KS.partP qs.length (remC qs ps u.1) = KS.partP qs.length u.1
      ∧ KS.partP qs.length (remC qs ps u.2) = KS.partP qs.length u.2
      ∧ (∀ c ∈ cenZ (KS.partP qs.length u.1), 2 * c.natAbs ≤ prodN ps)
      ∧ (∀ c ∈ cenZ (KS.partP qs.length u.2), 2 * c.natAbs ≤ prodN ps) := by
  intro π z rg u E
  have hcop := coprime_prod_of_pairwise hco
  have hpsc := pairwise_right hco
  have hpge : ∀ p ∈ ps, 2 ≤ p := (good_right hg).q_ge
  have hclosed : ∀ x, WFq (qs ++ ps) n x →
      constQ qs n (RPoly.prod ps) * RGSW.modDown qs ps x
          = takeRows qs.length x - takeRows qs.length (remC qs ps x)
        ∧ WFq qs n (RGSW.modDown qs ps x) := fun x hx => rgsw_modDown_closed hps hcop hx
  have h := extprod_phase_div_rpoly (qs := qs) (ps := ps) (n := n) (RGSW.modDown qs ps)
    (fun x => takeRows qs.length (remC qs ps x)) (constQ qs n (RPoly.prod ps)) (KS.pinvElt qs ps n)
    (fun x hx => (hclosed x hx).2) (fun x hx => takeRows_wf (remC_wf hx hps)) (constQ_wf _) (pinvElt_wf ps)
    (fun x hx => (hclosed x hx).1) (pinv_mul_P hcop) s g pgs smp0 smp1 d0 d1 Pc0 Pc1 c0 c1 hs hgw hpgs hw0 hw1
    hd0 hd1 hc0w hc1w h0 h1 hrec0 hrec1 hc0 hc1
  have hPpos : 0 < prodN ps := BasisExt.prodN_pos ps (pos_of_ge2 hpge)
  obtain ⟨hu1, hu2⟩ := extProdLazy_wf s g pgs smp0 smp1 d0 d1 hs hgw hpgs hw0 hw1 hd0 hd1
  have hb : ∀ x, WFq (qs ++ ps) n x → ∀ c ∈ cenZ (KS.partP qs.length x), 2 * c.natAbs ≤ prodN ps := by
    intro x hx
    have hq : (KS.partP qs.length x).qs = ps := (partP_wf hx).1
    have := cenZ_bound (KS.partP qs.length x) (by rw [hq]; exact hPpos) (by rw [hq]; exact hPodd)
    rw [hq] at this
    exact this
  exact ⟨h, partP_remC hu1 hps hpsc hpge, partP_remC hu2 hps hpsc hpge, hb _ hu1, hb _ hu2⟩

/-- **extprod_phase_full.**  `RGSW.extProdR p ct (encryptR p s g smp0 smp1)` — the expression the driver's `extprod`
handler evaluates (`hExtProd_calls`, `extProdR_eq`, `encryptR_eq`) — for `p = ⟨qs, ps, n, w⟩` with `ps ≠ ∅`, pairwise
coprime moduli, well-formed inputs and the right number of samples.  No recombination, rounding or inverse hypothesis. -/
theorem extprod_phase_full (hqs : qs ≠ []) (hps : ps ≠ []) (hco : (qs ++ ps).Pairwise Nat.Coprime)
    (hPodd : prodN ps % 2 = 1) (w : ℕ)
    (s g : RPoly) (smp0 smp1 : List (RPoly × RPoly)) (c0 c1 : RPoly)
    (hs : WFq (qs ++ ps) n s) (hgw : WFq (qs ++ ps) n g)
    (hw0 : WFplist (qs ++ ps) n smp0) (hw1 : WFplist (qs ++ ps) n smp1)
    (hc0w : WFq qs n c0) (hc1w : WFq qs n c1)
    (h0 : (pgList ⟨qs, ps, n, w⟩).length = smp0.length) (h1 : (pgList ⟨qs, ps, n, w⟩).length = smp1.length) :
    let p : Par := ⟨qs, ps, n, w⟩
    let π := takeRows qs.length
    let z := RPoly.zero (qs ++ ps) n
    let rg := encryptR p s g smp0 smp1
    let u := extProdLazy z (digitsOf p c0) (digitsOf p c1) rg
    let E := wsumZ z (digitsOf p c0) (smp0.map Prod.snd) + wsumZ z (digitsOf p c1) (smp1.map Prod.snd)
    phase (extProdR p (c0, c1) rg) (π s)
        = π g * phase (c0, c1) (π s)
          + KS.pinvElt qs ps n * (π E - (π (remC qs ps u.1) + π (remC qs ps u.2) * π s))
      ∧ KS.partP qs.length (remC qs ps u.1) = KS.partP qs.length u.1
      ∧ KS.partP qs.length (remC qs ps u.2) = KS.partP qs.length u.2
      ∧ (∀ c ∈ cenZ (KS.partP qs.length u.1), 2 * c.natAbs ≤ prodN ps)
      ∧ (∀ c ∈ cenZ (KS.partP qs.length u.2), 2 * c.natAbs ≤ prodN ps) := by
  intro p π z rg u E
  have hcoq := pairwise_left hco
  obtain ⟨D0, G, hD0, hG, hr0⟩ := rgsw_recombine (qs := qs) (ps := ps) (n := n) hqs hcoq w hc0w
  obtain ⟨D1, G', hD1, hG', hr1⟩ := rgsw_recombine (qs := qs) (ps := ps) (n := n) hqs hcoq w hc1w
  have hGG : G' = G := by
    apply List.map_injective_iff.mpr val_injective
    rw [hG, hG']
  subst hGG
  have hd0 : WFlist (qs ++ ps) n (digitsOf p c0) := by
    intro x hx; rw [← hD0] at hx; exact wf_of_mem_map_val hx
  have hd1 : WFlist (qs ++ ps) n (digitsOf p c1) := by
    intro x hx; rw [← hD1] at hx; exact wf_of_mem_map_val hx
  have hpgs : WFlist (qs ++ ps) n (pgList p) := by
    intro x hx; rw [← hG] at hx; exact wf_of_mem_map_val hx
  have hc0 : takeRows qs.length (wsumZ z (digitsOf p c0) (pgList p))
      = constQ qs n (RPoly.prod ps) * c0 := by
    rw [← hD0, ← hG, ← val_wsum]
    exact congrArg val hr0
  have hc1 : takeRows qs.length (wsumZ z (digitsOf p c1) (pgList p))
      = constQ qs n (RPoly.prod ps) * c1 := by
    rw [← hD1, ← hG', ← val_wsum]
    exact congrArg val hr1
  have hnP : p.nP ≠ 0 := by
    show ps.length ≠ 0
    intro h; exact hps (List.length_eq_zero_iff.mp h)
  have hex : extProdR p (c0, c1) rg
      = extProd (RGSW.modDown qs ps) z (digitsOf p c0) (digitsOf p c1) rg := by
    rw [extProdR_eq]; simp only [hnP, if_false]; rfl
  rw [hex]
  exact extprod_phase_closed hps hco hPodd s g (pgList p) smp0 smp1 (digitsOf p c0) (digitsOf p c1) _ _ c0 c1
    hs hgw hpgs hw0 hw1 hd0 hd1 hc0w hc1w h0 h1 rfl rfl hc0 hc1

end closed

/-! ## A concrete instance: `Q = [97]`, `P = [193]`, `n = 8`, the driver's own gadget vector and digits -/

section concrete

instance : Good [97] 8 := ⟨by decide, by decide⟩
instance : Good ([97] ++ [193]) 8 := ⟨by decide, by decide⟩

def Pc08 : RPoly := wsumZ (RPoly.zero [97, 193] 8) d08 (pgList p8)
def Pc18 : RPoly := wsumZ (RPoly.zero [97, 193] 8) d18 (pgList p8)

theorem hyps8s : ([193] : List ℕ) ≠ [] ∧ ([97] ++ [193] : List ℕ).Pairwise Nat.Coprime ∧ prodN [193] % 2 = 1
    ∧ WFq ([97] ++ [193]) 8 s8 ∧ WFq ([97] ++ [193]) 8 g8 ∧ WFlist ([97] ++ [193]) 8 (pgList p8)
    ∧ WFplist ([97] ++ [193]) 8 smp08 ∧ WFplist ([97] ++ [193]) 8 smp18
    ∧ WFlist ([97] ++ [193]) 8 d08 ∧ WFlist ([97] ++ [193]) 8 d18 ∧ WFq [97] 8 ct8.1 ∧ WFq [97] 8 ct8.2
    ∧ (pgList p8).length = smp08.length ∧ (pgList p8).length = smp18.length
    ∧ takeRows 1 Pc08 = constQ [97] 8 (RPoly.prod [193]) * ct8.1
    ∧ takeRows 1 Pc18 = constQ [97] 8 (RPoly.prod [193]) * ct8.2 := by
  refine ⟨by decide, by decide, by decide, by decide +kernel, by decide +kernel, by decide +kernel,
    by decide +kernel, by decide +kernel, by decide +kernel, by decide +kernel, by decide +kernel,
    by decide +kernel, by decide +kernel, by decide +kernel, by decide +kernel, by decide +kernel⟩

/-- the instance obtained FROM THE THEOREM (recombination hypotheses checked by evaluation in `hyps8s`) -/
theorem instance8 :
    let π := takeRows 1
    let z := RPoly.zero ([97] ++ [193]) 8
    let rg := encrypt encZero s8 g8 (pgList p8) smp08 smp18
    let u := extProdLazy z d08 d18 rg
    let E := wsumZ z d08 (smp08.map Prod.snd) + wsumZ z d18 (smp18.map Prod.snd)
    phase (extProd (RGSW.modDown [97] [193]) z d08 d18 rg) (π s8)
        = π g8 * phase ct8 (π s8)
          + KS.pinvElt [97] [193] 8 * (π E - (π (remC [97] [193] u.1) + π (remC [97] [193] u.2) * π s8)) :=
  (extprod_phase_closed (qs := [97]) (ps := [193]) (n := 8) hyps8s.1 hyps8s.2.1 hyps8s.2.2.1 s8 g8 (pgList p8) smp08
    smp18 d08 d18 Pc08 Pc18 ct8.1 ct8.2 hyps8s.2.2.2.1 hyps8s.2.2.2.2.1 hyps8s.2.2.2.2.2.1 hyps8s.2.2.2.2.2.2.1
    hyps8s.2.2.2.2.2.2.2.1 hyps8s.2.2.2.2.2.2.2.2.1 hyps8s.2.2.2.2.2.2.2.2.2.1 hyps8s.2.2.2.2.2.2.2.2.2.2.1
    hyps8s.2.2.2.2.2.2.2.2.2.2.2.1 hyps8s.2.2.2.2.2.2.2.2.2.2.2.2.1 hyps8s.2.2.2.2.2.2.2.2.2.2.2.2.2.1 rfl rfl
    hyps8s.2.2.2.2.2.2.2.2.2.2.2.2.2.2.1 hyps8s.2.2.2.2.2.2.2.2.2.2.2.2.2.2.2).1

/-- TEST (kernel evaluation of the model: `extProdR` is what the driver's `extprod` handler prints, `hExtProd_calls`):
the same identity about `extProdR p8`, and the size of the rounding term -/
example :
    let π := takeRows 1
    let z := RPoly.zero ([97] ++ [193]) 8
    let rg := encryptR p8 s8 g8 smp08 smp18
    let u := extProdLazy z d08 d18 rg
    let E := wsumZ z d08 (smp08.map Prod.snd) + wsumZ z d18 (smp18.map Prod.snd)
    phase (extProdR p8 ct8 rg) (π s8)
        = π g8 * phase ct8 (π s8)
          + KS.pinvElt [97] [193] 8 * (π E - (π (remC [97] [193] u.1) + π (remC [97] [193] u.2) * π s8))
      ∧ (∀ c ∈ cenZ (KS.partP 1 u.1), 2 * c.natAbs ≤ 193) := by decide +kernel

/-- the instance of `extprod_phase_full` obtained FROM THE THEOREM: the driver's `extProdR p8` / `encryptR p8`, every
hypothesis discharged -/
theorem instance8_full :
    let π := takeRows 1
    let z := RPoly.zero ([97] ++ [193]) 8
    let rg := encryptR p8 s8 g8 smp08 smp18
    let u := extProdLazy z d08 d18 rg
    let E := wsumZ z d08 (smp08.map Prod.snd) + wsumZ z d18 (smp18.map Prod.snd)
    phase (extProdR p8 ct8 rg) (π s8)
        = π g8 * phase ct8 (π s8)
          + KS.pinvElt [97] [193] 8 * (π E - (π (remC [97] [193] u.1) + π (remC [97] [193] u.2) * π s8)) :=
  (extprod_phase_full (qs := [97]) (ps := [193]) (n := 8) (by decide) hyps8s.1 hyps8s.2.1 hyps8s.2.2.1 0 s8 g8 smp08
    smp18 ct8.1 ct8.2 hyps8s.2.2.2.1 hyps8s.2.2.2.2.1 hyps8s.2.2.2.2.2.2.1 hyps8s.2.2.2.2.2.2.2.1
    hyps8s.2.2.2.2.2.2.2.2.2.2.1 hyps8s.2.2.2.2.2.2.2.2.2.2.2.1 hyps8s.2.2.2.2.2.2.2.2.2.2.2.2.1
    hyps8s.2.2.2.2.2.2.2.2.2.2.2.2.2.1).1

/-- TWO special primes (`externalProductInPlaceMultipleP`: centred RNS digit of `{97, 193}`), base-`2^3` digits with one
special prime: instances of `extprod_phase_full`, hypotheses by evaluation -/
instance : Good [97, 193] 8 := ⟨by decide, by decide⟩
instance : Good ([97, 193] ++ [257, 769]) 8 := ⟨by decide, by decide⟩

def L4 : List ℕ := [97, 193] ++ [257, 769]
def s4 : RPoly := RPoly.ofInts L4 [1, -1, 0, 1, 0, 0, -1, 1]
def g4 : RPoly := RPoly.ofInts L4 [0, 1, 0, 0, 0, 0, 0, 0]
def smp04 : List (RPoly × RPoly) :=
  [(RPoly.ofInts L4 [123456, 7891011, 121314, 15161718, 192021, 22232425, 262728, 29303132],
    RPoly.ofInts L4 [1, 0, -1, 0, 2, 0, -2, 1])]
def smp14 : List (RPoly × RPoly) :=
  [(RPoly.ofInts L4 [998877, 665544, 332211, 9080706, 5040302, 1020304, 5060708, 9101112],
    RPoly.ofInts L4 [0, 1, 0, -1, 0, 1, 0, -1])]
def ct4 : RPoly × RPoly :=
  (RPoly.ofInts [97, 193] [9000, -8000, 7000, -6000, 5000, -4000, 3000, -2000],
   RPoly.ofInts [97, 193] [1, 2, 3, 4, 5, 6, 7, 8])

theorem hyps4 : ([97, 193] : List ℕ) ≠ [] ∧ ([257, 769] : List ℕ) ≠ []
    ∧ ([97, 193] ++ [257, 769] : List ℕ).Pairwise Nat.Coprime ∧ prodN [257, 769] % 2 = 1
    ∧ WFq ([97, 193] ++ [257, 769]) 8 s4 ∧ WFq ([97, 193] ++ [257, 769]) 8 g4
    ∧ WFplist ([97, 193] ++ [257, 769]) 8 smp04 ∧ WFplist ([97, 193] ++ [257, 769]) 8 smp14
    ∧ WFq [97, 193] 8 ct4.1 ∧ WFq [97, 193] 8 ct4.2
    ∧ (pgList ⟨[97, 193], [257, 769], 8, 0⟩).length = smp04.length
    ∧ (pgList ⟨[97, 193], [257, 769], 8, 0⟩).length = smp14.length := by
  refine ⟨by decide, by decide, by decide, by decide, by decide +kernel, by decide +kernel, by decide +kernel,
    by decide +kernel, by decide +kernel, by decide +kernel, by decide +kernel, by decide +kernel⟩

theorem instance4_full :
    let p : Par := ⟨[97, 193], [257, 769], 8, 0⟩
    let π := takeRows 2
    let z := RPoly.zero ([97, 193] ++ [257, 769]) 8
    let rg := encryptR p s4 g4 smp04 smp14
    let u := extProdLazy z (digitsOf p ct4.1) (digitsOf p ct4.2) rg
    let E := wsumZ z (digitsOf p ct4.1) (smp04.map Prod.snd) + wsumZ z (digitsOf p ct4.2) (smp14.map Prod.snd)
    phase (extProdR p ct4 rg) (π s4)
        = π g4 * phase ct4 (π s4)
          + KS.pinvElt [97, 193] [257, 769] 8
              * (π E - (π (remC [97, 193] [257, 769] u.1) + π (remC [97, 193] [257, 769] u.2) * π s4)) :=
  (extprod_phase_full (qs := [97, 193]) (ps := [257, 769]) (n := 8) hyps4.1 hyps4.2.1 hyps4.2.2.1 hyps4.2.2.2.1 0
    s4 g4 smp04 smp14 ct4.1 ct4.2 hyps4.2.2.2.2.1 hyps4.2.2.2.2.2.1 hyps4.2.2.2.2.2.2.1 hyps4.2.2.2.2.2.2.2.1
    hyps4.2.2.2.2.2.2.2.2.1 hyps4.2.2.2.2.2.2.2.2.2.1 hyps4.2.2.2.2.2.2.2.2.2.2.1 hyps4.2.2.2.2.2.2.2.2.2.2.2).1

/-- TEST (kernel evaluation): the conclusion of `instance4_full`, and the added noise is small -/
example :
    let p : Par := ⟨[97, 193], [257, 769], 8, 0⟩
    let π := takeRows 2
    let z := RPoly.zero ([97, 193] ++ [257, 769]) 8
    let rg := encryptR p s4 g4 smp04 smp14
    let u := extProdLazy z (digitsOf p ct4.1) (digitsOf p ct4.2) rg
    let E := wsumZ z (digitsOf p ct4.1) (smp04.map Prod.snd) + wsumZ z (digitsOf p ct4.2) (smp14.map Prod.snd)
    let ν := KS.pinvElt [97, 193] [257, 769] 8
      * (π E - (π (remC [97, 193] [257, 769] u.1) + π (remC [97, 193] [257, 769] u.2) * π s4))
    phase (extProdR p ct4 rg) (π s4) = π g4 * phase ct4 (π s4) + ν
      ∧ RPoly.infNorm (RPoly.toInts ν) ≤ 1 := by decide +kernel

end concrete

end Lattigo.Props.C20Stack

#print axioms Lattigo.Props.C20Stack.extprod_phase_closed
#print axioms Lattigo.Props.C20Stack.extprod_phase_full
#print axioms Lattigo.Props.C20Stack.instance8
#print axioms Lattigo.Props.C20Stack.instance8_full
#print axioms Lattigo.Props.C20Stack.instance4_full
