/-
  C10 — copies are complete, independent and safe to use concurrently.

  What the model is: `Lattigo/Model/Copy.lean`
    * `table`: for every copy constructor of the anchor list, the class of every field of the copy
      relative to the original.  The harness recomputes the observable part of this classification
      by a reflection walk (pointer identity of every slice / map / pointer, recursively) on the real
      objects and the two must agree line by line, so a field added later, or a copy that starts
      sharing a buffer, breaks the tie.
    * `applyCtor`: a copy constructor as a function on records with explicit addresses.
    * `Sched`, `runSched`, `proj`: agents (goroutines) executing steps `(reads, writes, f)` on one
      store `Loc → α`; a schedule is an arbitrary interleaving.

  What is proved: `copy_behaves_same` (general: two instances of one operation that share everything but their scratch
  and read scratch only after writing it give the same results; `copy_behaves_same_row`: from a table row whose fields are
  kept or `owned`), the OWNERSHIP DISCIPLINE makes interference impossible (`noninterference`), copy
  constructors following their row produce fresh, pairwise distinct addresses for `owned` fields
  (`copy_owned_fresh`), equal `config` fields (`copy_config_eq`), and deep copies share no address
  with the original (`deep_copy_disjoint`).

  Completeness of the table: every `table` line is produced by a reflection walk over ALL fields of the struct, so a field
  the model does not classify breaks the tie; `table_complete/*` probes scan the source under test for every copy
  constructor and require a row (or a listed exemption: slice / map receivers); `table_names_nodup`,
  `table_rows_strictly_sorted`.  Ring-level views (`AtLevel`, `ConjugateInvariantRing`, `StandardRing`, `ringqp.Ring.AtLevel`)
  have rows on the full ring and on views, and probes at every level.

  What the model CANNOT exhibit — named limits:
    * the Go memory model: `runSched` is sequentially consistent and steps are atomic.  A data race
      (two goroutines touching the same word without synchronisation, one of them writing; in
      particular concurrent writes to a Go `map`, which the runtime turns into a fatal error) has no
      counterpart in the model.  The theorem says: IF the footprints are disjoint and shared data
      is read-only THEN every interleaving equals the sequential runs; for the real code this
      hypothesis is exactly "no data race on the explored operations", which the harness checks by
      reflection (classification), by differential runs with 2…16 goroutines, and — as a supporting
      search only — under the race detector.
    * where the code LEAVES the discipline the theorem does not apply; these rows are listed by
      `not_concurrentSafe_rows` (every one of them is a constructor that shares scratch buffers or
      PRNG state and whose doc comment says "cannot be used concurrently": all `WithKey`,
      `Encryptor.WithPRNG`, samplers' `AtLevel`; exception: `rlwe.Encryptor.WithKey`, whose comment does
      not say so — known finding `C10/Encryptor.WithKey/shares-state-undocumented`).
    * history: before fix C10-4 `rlwe.Evaluator.ShallowCopy` shared the Go map `automorphismIndex`, which
      `CheckAndGetGaloisKey` filled lazily (`sharedCache`): the harness crashed a child process with
      "fatal error: concurrent map read and map write" and the race detector pointed at
      core/rlwe/evaluator.go:120/121.  With the fix the map is never written after construction
      (`sharedRO`) and the row is concurrent-safe; `noninterference_needs_readonly_counterexample`
      keeps the reason why the read-only hypothesis cannot be dropped.
    * fixed while building this property (rows are now complete): `EvaluationKey.CopyNew` dropped `Seed`
      (C10-1), `bgv.Evaluator.WithKey` dropped `ScaleInvariant` (C10-2),
      `mpckks.MaskedLinearTransformationProtocol.ShallowCopy` dropped `noise` (C10-3), `MetaData.CopyNew`
      shared `Scale`'s big numbers (C10-5: `Ciphertext/Plaintext.CopyNew` rows are now `owned`).
    * rows added for the circuits / ring-packing / blind-rotation / ringqp layers and the remaining multiparty
      constructors (second half of `table`).  `dft.Evaluator`, `mod1.Evaluator` and `blindrot.Evaluator` have no copy
      constructor: their rows describe the copy idiom (`NewEvaluator` over a shallow copy of the ckks evaluator / a second
      instance); `bootstrapping.Evaluator.ShallowCopy` rebuilds its dft and mod1 evaluators over the copy's own ckks
      evaluator (harness probe `internal_wiring/…`: pointer identity of every inner evaluator) and has one row per
      configuration of the optional fields (`[N1<N2]`: xPow2N1/xPow2InvN1 set, `[ConjugateInvariant]`: DomainSwitcher
      set, `[SkDebug]`).
    * findings of these rows, all fixed in /repo (the rows follow HEAD; the harness probes keep their keys):
        - `mpckks.MaskedLinearTransformationProtocol.WithParams` dropped `noise` (class `dropped`, then listed by
          `incomplete_rows_eq`): the re-targeted protocol could not be re-targeted again (nil distribution → panic).
          Key `C10/mpckks.MaskedLinearTransformationProtocol.WithParams/drops-noise`; fixed: 62bef1b (C10-7), row now `config`.
        - `ringqp.UniformSampler.AtLevel` shares buffers / read pointers / PRNG with the receiver (class `nestedScratch`,
          listed by `not_concurrentSafe_rows_eq`) while its comment called it "a shallow copy".
          Key `C10/ringqp.UniformSampler.AtLevel/shares-state-undocumented`; fixed: 0eeaffe (C10-9, documentation).
        - `ringqp.UniformSampler.WithPRNG` panicked on a sampler without Q part, which every other method supports.
          Key `C10/ringqp.UniformSampler.WithPRNG/nil-samplerQ`; fixed: 68cd377 (C10-8; the row is for the Q+P configuration).
        - not a copy defect, found on the way: `bootstrapping.Evaluator.BootstrapMany` panicked when it had to pack two or
          more ciphertexts above level 0 (the original and its copy alike).
          Key `C10/bootstrapping.BootstrapMany/packing-above-level-0-panics`; fixed: 582ab46 (C10-10).
    * known finding kept: `rlwe.Encryptor.ShallowCopy` builds a fresh encryptor and therefore forgets a
      PRNG installed with `WithPRNG` (`C10/Encryptor.ShallowCopy/drops-WithPRNG`; in the table this is the
      `rng` class of `prng` and the `nested` samplers: by construction a shallow copy has fresh randomness).
-/
import Lattigo.Proofs.Copy
import Lattigo.Proofs.CopyBehave

namespace Lattigo.Props.C10
open Lattigo.Copy

/-- `config` fields are equal in the copy. -/
theorem copy_config_eq (r : Row) (next fresh : Nat) (o : Obj) (k : Nat) (f : Field)
    (hf : o[k]? = some f) (hc : classOf r f.name = .config) :
    (applyCtor r next fresh o)[k]? = some f := copy_config_eq' r next fresh o k f hf hc

example : classOf [("prec", .config)] "prec" = .config := by decide

/-- `owned` fields of the copy live at fresh addresses: not below the allocator mark (hence not an
    address of the original or of any earlier copy), pairwise distinct, same content. -/
theorem copy_owned_fresh (r : Row) (next fresh : Nat) (o : Obj) (k k' : Nat) (f f' : Field)
    (hf : o[k]? = some f) (hc : classOf r f.name = .owned)
    (hf' : o[k']? = some f') (hc' : classOf r f'.name = .owned) (hk : k ≠ k') :
    ∃ g g', (applyCtor r next fresh o)[k]? = some g ∧ (applyCtor r next fresh o)[k']? = some g' ∧
      next ≤ g.addr ∧ next ≤ g'.addr ∧ g.addr ≠ g'.addr ∧ g.val = f.val ∧ g'.val = f'.val := by
  refine ⟨_, _, copy_owned_addr r next fresh o k f hf hc, copy_owned_addr r next fresh o k' f' hf' hc', ?_⟩
  simp; omega

example : ([⟨"a", 1, 5⟩, ⟨"b", 2, 6⟩] : Obj)[0]? = some ⟨"a", 1, 5⟩ ∧
    classOf [("a", .owned), ("b", .owned)] "a" = .owned := by decide

/-- a deep copy (`CopyNew` whose row is `owned` for every reference) shares no address with the
    original. -/
theorem deep_copy_disjoint (r : Row) (next fresh : Nat) (o : Obj)
    (hdeep : ∀ f ∈ o, classOf r f.name = .owned ∨
      f.addr = 0 ∧ (classOf r f.name = .config ∨ classOf r f.name = .absent))
    (hnext : ∀ f ∈ o, f.addr < next) :
    ∀ (k : Nat) (g : Field), (applyCtor r next fresh o)[k]? = some g → g.addr ≠ 0 →
      ∀ f ∈ o, g.addr ≠ f.addr := deep_copy_disjoint' r next fresh o hdeep hnext

example : ∀ f ∈ ([⟨"Value", 7, 1⟩] : Obj), classOf [("Value", .owned)] f.name = .owned ∨
    f.addr = 0 ∧ (classOf [("Value", .owned)] f.name = .config ∨ classOf [("Value", .owned)] f.name = .absent) := by
  intro f hf; simp at hf; subst hf; left; decide

/-- NON-INTERFERENCE.  Owned footprints pairwise disjoint and disjoint from the shared region,
    every step of agent `i` writes only what `i` owns, reads only what `i` owns or what is shared,
    and computes its written values from what it reads: then for EVERY schedule (interleaving) and
    every agent `i`, on everything `i` owns or shares, the final store equals the final store of
    `i`'s own step sequence run alone. -/
theorem noninterference {α : Type} {owned : Nat → Loc → Prop} {shared : Loc → Prop}
    (hdisj : ∀ i j l, i ≠ j → owned i l → ¬ owned j l)
    (hsh : ∀ i l, owned i l → ¬ shared l)
    (sch : Sched α) (hd : Disciplined owned shared sch) (i : Nat) (σ : State α) (l : Loc)
    (hv : owned i l ∨ shared l) :
    runSched sch σ l = runSched (proj i sch) σ l :=
  noninterference' hdisj hsh i sch hd σ l hv

/-- two agents, locations 10/11 owned by agent 0/1, location 0 shared and only read -/
def exStep (me : Nat) : Step Nat := ⟨[0, 10 + me], [10 + me], fun σ _ => σ 0 + σ (10 + me) + 1⟩
def exSched : Sched Nat := [(0, exStep 0), (1, exStep 1), (0, exStep 0), (1, exStep 1)]

/-- non-vacuity: the example schedule is disciplined -/
example : Disciplined (fun i l => l = 10 + i) (fun l => l = 0) exSched := by
  have hm' : ∀ i s, (i, s) ∈ exSched → s = exStep i := by
    intro i s hm
    simp [exSched] at hm
    rcases hm with ⟨rfl, rfl⟩ | ⟨rfl, rfl⟩ | ⟨rfl, rfl⟩ | ⟨rfl, rfl⟩ <;> rfl
  refine ⟨?_, ?_, ?_⟩
  · intro i s hm l hl
    rw [hm' i s hm] at hl
    simpa [exStep] using hl
  · intro i s hm l hl
    rw [hm' i s hm] at hl
    simp [exStep] at hl
    rcases hl with rfl | rfl
    · right; rfl
    · left; rfl
  · intro i s hm σ σ' h l _
    rw [hm' i s hm] at h ⊢
    simp [exStep] at h ⊢
    rw [h.1, h.2]

/-- the read-only hypothesis is NECESSARY: a lazily written shared cache (agent 1 fills location 0,
    agent 0 reads it) makes agent 0's result depend on the schedule — the result of the
    interleaving differs from agent 0's sequential run. -/
theorem noninterference_needs_readonly_counterexample :
    ∃ (sch : Sched Nat) (σ : State Nat) (l : Loc),
      (∀ t ∈ sch, t.1 = 1 → t.2.writes = [0]) ∧   -- agent 1 writes the shared location 0
      runSched sch σ l ≠ runSched (proj 0 sch) σ l := by
  refine ⟨[(1, ⟨[], [0], fun _ _ => 7⟩), (0, ⟨[0], [10], fun σ _ => σ 0⟩)], fun _ => 0, 10, ?_, ?_⟩
  · intro t ht h1
    simp at ht
    rcases ht with rfl | rfl
    · rfl
    · simp at h1
  · simp [runSched, proj, Step.apply]

/-- COPY BEHAVES SAME, general form (Proofs/CopyBehave.lean): an operation is a template program over symbolic objects
    (fields of the receiver, objects of the caller); the original and the copy are two INSTANCES `ρ1`, `ρ2` of it that
    refer to the same memory outside the scratch objects `S` (what `config` / `sharedRO` fields are) and to different
    scratch memory (what `owned` fields are).  If the operation reads scratch only after writing it, then on one shared
    store — whatever either scratch holds — every non-scratch location holds the same content after the two runs. -/
theorem copy_behaves_same {α : Type} (I : Store.Interp α) (T : Store.Prog) (S : Nat → Prop) (ρ1 ρ2 : Nat → Nat)
    (h1 : ∀ a b, ρ1 a = ρ1 b → a = b) (h2 : ∀ a b, ρ2 a = ρ2 b → a = b) (hsame : ∀ a, ¬ S a → ρ1 a = ρ2 a)
    (hreads : Store.Reads (fun x => ¬ S x.obj) T) (σ : Store.Store α) (x : Store.Loc)
    (hx : ¬ S x.obj ∨ Store.Written T x) :
    Store.run I (T.map (Store.Step.ren (Store.liftObj ρ1))) σ (Store.liftObj ρ1 x) =
    Store.run I (T.map (Store.Step.ren (Store.liftObj ρ2))) σ (Store.liftObj ρ2 x) :=
  Store.instances_behave_same I T S ρ1 ρ2 h1 h2 hsame hreads σ x hx

/-- … and for a ROW of the table: `o` an object, `applyCtor r next fresh o` its copy by a constructor that follows the
    row; every field is kept (`config`, `sharedRO`, `absent`, …: `FieldClass.keeps`) or is `owned` scratch; the operation
    reads scratch only after writing it.  Then the original and the copy leave the same content in every location of
    every kept field and of every object of the caller. -/
theorem copy_behaves_same_row {α : Type} (I : Store.Interp α) (r : Row) (next fresh : Nat) (o : Obj) (ext : Nat → Nat)
    (T : Store.Prog)
    (hcls : ∀ f ∈ o, (classOf r f.name).keeps = true ∨ classOf r f.name = .owned)
    (hinj : ∀ a b, instMap o ext a = instMap o ext b → a = b)
    (hinj' : ∀ a b, instMap (applyCtor r next fresh o) ext a = instMap (applyCtor r next fresh o) ext b → a = b)
    (hreads : Store.Reads (fun x => ¬ (∃ f, o[x.obj]? = some f ∧ classOf r f.name = .owned)) T)
    (σ : Store.Store α) (x : Store.Loc) (hx : ¬ (∃ f, o[x.obj]? = some f ∧ classOf r f.name = .owned)) :
    Store.run I (T.map (Store.Step.ren (Store.liftObj (instMap o ext)))) σ (Store.liftObj (instMap o ext) x) =
    Store.run I (T.map (Store.Step.ren (Store.liftObj (instMap (applyCtor r next fresh o) ext)))) σ
      (Store.liftObj (instMap (applyCtor r next fresh o) ext) x) :=
  row_copy_behaves_same I r next fresh o ext T hcls hinj hinj' hreads σ x hx

/-- non-vacuity: the row `rlwe.Decryptor.ShallowCopy` and Decrypt of a coefficient-domain ciphertext (the one operation
    that uses the Decryptor's scratch polynomial): all hypotheses hold, the caller's plaintext is the same. -/
example (α : Type) (I : Store.Interp α) (σ : Store.Store α) (f : Nat) :=
  exDec_behaves_same α I σ f

example : lookup "rlwe.Decryptor.ShallowCopy" = some exRow := by decide

/-- the hypothesis "scratch is written before it is read" cannot be dropped: an operation that READS the scratch field
    first returns whatever each scratch held. -/
theorem copy_behaves_same_needs_scratch_discipline :
    ∃ (σ : Store.Store Int),
      Store.run Store.intI ([Store.st (Store.L 5 0) .copy [Store.L 0 0]].map (Store.Step.ren (Store.liftObj (instMap exDec exExt)))) σ ⟨1003, 0⟩ ≠
      Store.run Store.intI ([Store.st (Store.L 5 0) .copy [Store.L 0 0]].map
        (Store.Step.ren (Store.liftObj (instMap (applyCtor exRow 300 0 exDec) exExt)))) σ ⟨1003, 0⟩ :=
  ⟨⟨fun l => l.obj⟩, by decide⟩

/-- every row lists its fields in strictly increasing order of name (the order the reflection walk prints): no field is
    classified twice.  (TEST by evaluation of the table.) -/
theorem table_rows_strictly_sorted : table.all (fun (_, r) => (r.map (·.1)).Pairwise (· < ·)) = true := by decide

/-- the rows of the table that leave the discipline (TEST by evaluation of the table, which is the
    model): exactly the constructors sharing scratch buffers or PRNG state; all shallow copies
    (`ShallowCopy`) and deep copies are concurrent-safe. -/
def not_concurrentSafe_rows : List String :=
  (table.filter fun (_, r) => !r.concurrentSafe).map (·.1)

theorem not_concurrentSafe_rows_eq : not_concurrentSafe_rows =
    ["rlwe.Evaluator.WithKey", "rlwe.Encryptor.WithKey",
     "rlwe.Encryptor.WithPRNG", "ring.UniformSampler.AtLevel", "ring.GaussianSampler.AtLevel",
     "bgv.Evaluator.WithKey", "ckks.Evaluator.WithKey",
     "ring.GaussianSampler.AtLevel[montgomery]", "ringqp.UniformSampler.AtLevel"] := by decide

/-- every constructor appears once: `lookup` (what the driver prints for a `table` line) is unambiguous.
    (TEST by evaluation of the table.) -/
theorem table_names_nodup : (table.map (·.1)).Nodup := by decide

/-- `lookup` returns a row of the table, and the first one with that name (with `table_names_nodup`: the one). -/
theorem lookup_mem (name : String) (r : Row) (h : lookup name = some r) : (name, r) ∈ table := by
  unfold lookup at h
  cases hf : table.find? (·.1 == name) with
  | none => simp [hf] at h
  | some p =>
    simp [hf] at h
    have hm := List.mem_of_find?_eq_some hf
    have hp := List.find?_some hf
    have : p.1 = name := by simpa using hp
    subst h
    rw [← this]
    exact hm

example : lookup "ringqp.Ring.AtLevel" = some [("RingP", .nested), ("RingQ", .nested)] := by decide

/-- the rows that are not complete copies (a field of the original is dropped or reset). -/
def incomplete_rows : List String := (table.filter fun (_, r) => !r.complete).map (·.1)

theorem incomplete_rows_eq : incomplete_rows =
    ["ring.Ring.AtLevel", "ring.Ring.AtLevel[view-of-view]"] := by decide   -- `level` is what AtLevel is meant to change;
    -- the siblings `ConjugateInvariantRing` / `StandardRing` of a view keep its level (rows `…[AtLevel(1)]`: `config`)
    -- (before fix C10-7 also "mpckks.MaskedLinearTransformationProtocol.WithParams": `noise` was dropped)

end Lattigo.Props.C10

#print axioms Lattigo.Props.C10.copy_config_eq
#print axioms Lattigo.Props.C10.copy_owned_fresh
#print axioms Lattigo.Props.C10.deep_copy_disjoint
#print axioms Lattigo.Props.C10.noninterference
#print axioms Lattigo.Props.C10.noninterference_needs_readonly_counterexample
#print axioms Lattigo.Props.C10.copy_behaves_same
#print axioms Lattigo.Props.C10.copy_behaves_same_row
#print axioms Lattigo.Props.C10.copy_behaves_same_needs_scratch_discipline
#print axioms Lattigo.Props.C10.table_rows_strictly_sorted
#print axioms Lattigo.Props.C10.table_names_nodup
#print axioms Lattigo.Props.C10.lookup_mem
#print axioms Lattigo.Props.C10.not_concurrentSafe_rows_eq
#print axioms Lattigo.Props.C10.incomplete_rows_eq
