/-
  C07 (integer half) and the plaintext ring.

  Unlike C03/C04/C05/C06/C11/C13/C14/C16/C20, the C07 theorems are NOT generic over a commutative ring:
  `encode_mul` (`Proofs/EncoderTMul.lean`, `Props/C07.lean`) is already a statement about the executable
  negacyclic row product `RPoly.rowMul t` of the plaintext ring `Z_t[Y]/(Y^n+1)` (only the auxiliary
  `fwdZ_smul` is generic, and it is used at `ZMod t`).  There is therefore nothing to instantiate.  What this
  file adds is the link with the ring of C01:

  * an encoded plaintext, read as the one-row `RPoly` `plainPoly t p = ⟨[t], [p]⟩`, is WELL FORMED
    (`encode_wf`), i.e. an element of the commutative ring `WFPoly [t] n` (`Proofs/RPolyRing.lean`);
  * `RPoly.rowMul t` IS the product of that ring (`plainPoly_mul`), hence `encode_mul_rpoly`: decoding the RING
    product of two encodings gives the slot-wise product — and, from the ring laws, the same for the
    product taken in the other order (`encode_mul_rpoly_comm`);
  * the driver's `decode` handler computes `decodeU` / `decodeI` on the parsed `RPoly` (`handleBgv_decode_calls`),
    the functions `Props.C07.decode_encode_*` are about;
  * a concrete instance (`t = 97`, `n = 8`).

  NOT done (the named gap of `Props/C07.lean`, unchanged): `encode_mul` for the lifted plaintexts in `R_Q`
  (needs the no-wrap bound `n·t² ≲ Q/2` on the integer product: arithmetic, not a ring identity).
-/
import Lattigo.Proofs.RPolyTransport
import Lattigo.Proofs.EncoderTMul
import Lattigo.Proofs.EncoderTPerm
import Lattigo.Proofs.NTTTables
import Driver.C07
import Mathlib.Tactic.NormNum.Prime

set_option linter.unusedSectionVars false
set_option linter.unusedSimpArgs false

namespace Lattigo.EncoderT.C07Ring
open Lattigo Lattigo.EncoderT Lattigo.NTT Lattigo.RPolyRing Lattigo.Transport

/-- a plaintext polynomial of `Z_t[Y]/(Y^n+1)` as a one-row `RPoly` -/
def plainPoly (t : ℕ) (p : List ℕ) : RPoly := ⟨[t], [p]⟩

/-- **the product of the ring is the row product `encode_mul` is about** -/
theorem plainPoly_mul (t : ℕ) (a b : List ℕ) :
    plainPoly t a * plainPoly t b = plainPoly t (RPoly.rowMul t a b) := rfl

theorem plainPoly_wf {t n : ℕ} {p : List ℕ} (hl : p.length = n) (hlt : ∀ e ∈ p, e < t) :
    WFq [t] n (plainPoly t p) := by
  refine ⟨rfl, rfl, fun i hi => ?_⟩
  have hi0 : i = 0 := by simpa [plainPoly] using hi
  subst hi0
  exact ⟨hl, hlt⟩

section
variable {T : Tables} {K : ℕ}

/-- the plaintext modulus and degree of valid tables are admissible ring parameters -/
theorem good_of_valid (hT : Valid T K) : Good [T.q] T.n :=
  ⟨by rw [hT.n_eq]; exact Nat.one_le_two_pow, fun q hq => by
    rw [List.mem_singleton] at hq; subst hq; exact hT.prime.two_le⟩

/-- **encode_wf.**  Whatever `EncodeRingT` returns (any values, scale, stale buffer of the right length) is a
well-formed element of the plaintext ring. -/
theorem encode_wf (hT : Valid T K) (perm u buf pu : List ℕ) (su : ℕ) (hbuf : buf.length = T.n)
    (henc : encodeRingTU T perm u su buf = some pu) : WFq [T.q] T.n (plainPoly T.q pu) := by
  have hq := hT.q_pos
  unfold encodeRingTU at henc
  split at henc
  · cases henc
  · simp only [Option.some.injEq] at henc
    subst henc
    have hxl : (slotsU T.q perm u buf).length = T.n := by rw [slotsU_length, hbuf]
    obtain ⟨_, hli, _⟩ := nttStd_inttStd hT _ hxl (slotsU_lt T.q hq perm u buf)
    exact plainPoly_wf (by rw [mulScalar_length]; exact hli) (mulScalar_lt _ _ hq _)

/-- **encode_mul_rpoly.**  For every pair of vectors encoded at scales `s₁`, `s₂` (any stale buffers) into
`p₁`, `p₂` — well-formed elements of the commutative ring `WFPoly [t] n` — and every decoding scale
`s ≡ s₁·s₂ (mod t)`, `t ∤ s`: decoding the product `p₁ * p₂` OF THE RING gives the slot-wise product. -/
theorem encode_mul_rpoly (hT : Valid T K) (hinv : TableInv (rho T.q T.rootsF) (2 ^ K)) (hK : 1 ≤ K)
    (u v buf1 buf2 pu pv : List ℕ) (su sv s len : ℕ)
    (hbuf1 : buf1.length = T.n) (hbuf2 : buf2.length = T.n)
    (hs : s % T.q = su * sv % T.q) (hsd : ¬ T.q ∣ s) (hlen : len ≤ T.n)
    (hencu : encodeRingTU T (permuteMatrix K) u su buf1 = some pu)
    (hencv : encodeRingTU T (permuteMatrix K) v sv buf2 = some pv) :
    WFq [T.q] T.n (plainPoly T.q pu) ∧ WFq [T.q] T.n (plainPoly T.q pv)
    ∧ decodeRingTU T (permuteMatrix K) s ((plainPoly T.q pu * plainPoly T.q pv).c.headD []) len
      = (List.zipWith (fun a b => a * b % T.q)
          ((u.map (· % T.q)) ++ List.replicate (T.n - u.length) 0)
          ((v.map (· % T.q)) ++ List.replicate (T.n - v.length) 0)).take len := by
  refine ⟨encode_wf hT _ u buf1 pu su hbuf1 hencu, encode_wf hT _ v buf2 pv sv hbuf2 hencv, ?_⟩
  have hl := permuteMatrix_length K hK
  have := encode_mul_T T K hT hinv (permuteMatrix K) u v buf1 buf2 pu pv su sv s len (permuteMatrix_nodup K hK)
    (by intro q hq; rw [hT.n_eq]; exact permuteMatrix_lt K hK q hq) hbuf1 hbuf2 hs hsd
    (by rw [hl, ← hT.n_eq]; exact hlen) hencu hencv
  rw [plainPoly_mul]
  show decodeRingTU T (permuteMatrix K) s (RPoly.rowMul T.q pu pv) len = _
  rw [this, hl, hT.n_eq]

/-- … and, the ring being commutative, for the product taken in the other order: the SAME plaintext. -/
theorem encode_mul_rpoly_comm (hT : Valid T K) (perm u v buf1 buf2 pu pv : List ℕ) (su sv : ℕ)
    (hbuf1 : buf1.length = T.n) (hbuf2 : buf2.length = T.n)
    (hencu : encodeRingTU T perm u su buf1 = some pu) (hencv : encodeRingTU T perm v sv buf2 = some pv) :
    plainPoly T.q pu * plainPoly T.q pv = plainPoly T.q pv * plainPoly T.q pu := by
  have : Good [T.q] T.n := good_of_valid hT
  obtain ⟨x, hx⟩ := exists_lift (qs := [T.q]) (n := T.n) _ (encode_wf hT perm u buf1 pu su hbuf1 hencu)
  obtain ⟨y, hy⟩ := exists_lift (qs := [T.q]) (n := T.n) _ (encode_wf hT perm v buf2 pv sv hbuf2 hencv)
  rw [← hx, ← hy]
  exact congrArg val (mul_comm x y)

end

/-! ## the driver -/

section driver
open Driver Driver.C07

/-- **the `decode` handler computes `decodeU` / `decodeI`** of the parsed `RPoly` `⟨P.qs, rows⟩` -/
theorem handleBgv_decode_calls (rest : List String) (P : Params) (scale batched len : ℕ) (kind : String)
    (rows : List (List ℕ))
    (h1 : params? rest = some P) (h2 : nat? rest "scale" = some scale) (h3 : nat? rest "batched" = some batched)
    (h4 : kv? rest "kind" = some kind) (h5 : nat? rest "len" = some len)
    (h6 : (kv? rest "rows").bind parseMat? = some rows) :
    handleBgv ("decode" :: rest)
      = some (if kind == "u" then showVec (decodeU P (batched == 1) scale { qs := P.qs, c := rows } len)
              else showIVec (decodeI P (batched == 1) scale { qs := P.qs, c := rows } len)) := by
  simp only [handleBgv, h1, h2, h3, h4, h5, h6, Option.bind_eq_bind, Option.bind_some, Option.pure_def]

end driver

/-! ## a concrete instance: `t = 97`, `n = 8` -/

section concrete

def T8 : Tables := mkTables (2 ^ 3) 97 (2 ^ (3 + 1)) 5

theorem T8_valid : Valid T8 3 ∧ TableInv (rho T8.q T8.rootsF) (2 ^ 3) :=
  have h := mkTables_all 3 97 5 (by norm_num) (by decide) (by decide) (by decide +kernel)
  ⟨h.1, h.2.1⟩

def pu8 : List ℕ := (encodeRingTU T8 (permuteMatrix 3) [3, 20, 16] 6 (List.replicate 8 9)).getD []
def pv8 : List ℕ := (encodeRingTU T8 (permuteMatrix 3) [2, 5, 16, 7] 15 (List.replicate 8 1)).getD []

/-- an instance of `encode_mul_rpoly` obtained FROM THE THEOREM (`s = 90 = 6·15`) -/
example : decodeRingTU T8 (permuteMatrix 3) 90 ((plainPoly 97 pu8 * plainPoly 97 pv8).c.headD []) 8
    = (List.zipWith (fun a b => a * b % 97)
        (([3, 20, 16] : List ℕ).map (· % 97) ++ List.replicate (8 - 3) 0)
        (([2, 5, 16, 7] : List ℕ).map (· % 97) ++ List.replicate (8 - 4) 0)).take 8 :=
  (encode_mul_rpoly T8_valid.1 T8_valid.2 (by norm_num) [3, 20, 16] [2, 5, 16, 7] (List.replicate 8 9)
    (List.replicate 8 1) pu8 pv8 6 15 90 8 rfl rfl (by decide) (by decide) (by decide)
    (by decide +kernel) (by decide +kernel)).2.2

/-- TEST (evaluation of the model): the decoded product is `[6, 3, 62, 0, …]`, the encodings are well formed -/
example : decodeRingTU T8 (permuteMatrix 3) 90 ((plainPoly 97 pu8 * plainPoly 97 pv8).c.headD []) 8
      = [6, 3, 62, 0, 0, 0, 0, 0]
    ∧ WFq [97] 8 (plainPoly 97 pu8) ∧ WFq [97] 8 (plainPoly 97 pv8) := by decide +kernel

end concrete

end Lattigo.EncoderT.C07Ring

#print axioms Lattigo.EncoderT.C07Ring.plainPoly_mul
#print axioms Lattigo.EncoderT.C07Ring.encode_wf
#print axioms Lattigo.EncoderT.C07Ring.encode_mul_rpoly
#print axioms Lattigo.EncoderT.C07Ring.encode_mul_rpoly_comm
#print axioms Lattigo.EncoderT.C07Ring.handleBgv_decode_calls
