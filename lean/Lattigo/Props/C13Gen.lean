/-
  Property C13 — the REGENERATED tie for the integer scheduling arithmetic of the polynomial evaluator.

  `Lattigo/Gen/PolySplit.lean` is printed by `tools/go2lean` on every `./check C13` from
      utils/bignum/polynomial.go                              OptimalSplit
      circuits/common/polynomial/power_basis.go               SplitDegree
      circuits/ckks/polynomial/polynomial_evaluator_sim.go    simEvaluator.PolynomialDepth
  (Go `int`s as two's-complement words, `panic(…)` as `none`, `bits.Len64` as `len64`, `1 << k` as
  `u64shl 1 k`, `d.levelsConsumedPerRescaling` as an explicit parameter).  Below: generated = the hand
  model `Model/PolyEval.lean`, and the arithmetic part of the depth statement transferred.  The
  driver ops `C13 split`, `C13 optsplit` execute the generated definitions.
  `bignum.Polynomial.Depth()` (`math.Ceil(math.Log2(float64(deg)))`) is float code outside the
  printed subset: it stays hand-modelled (`depthCheck`) and tied by the correspondence only.
-/
import Lattigo.Proofs.GenPolySplit

namespace Lattigo.Props.C13Gen
open Lattigo Lattigo.Gen.PolySplit Lattigo.Model.PolyEval

/-- `SplitDegree(n)`, regenerated = model, for every `1 ≤ n < 2^62`; `none` (panic) for `n ≤ 0`. -/
theorem splitDegree_gen (n : Nat) (h1 : 1 ≤ n) (h : n < 2 ^ 62) :
    SplitDegree n = some (splitDegree n) :=
  Proofs.GenPolySplit.SplitDegree_eq n h1 h

theorem splitDegree_panic_gen (n : Nat) (hW : n < W) (h : n = 0 ∨ 2 ^ 63 ≤ n) : SplitDegree n = none :=
  Proofs.GenPolySplit.SplitDegree_panic n hW h

example : SplitDegree 13 = some (7, 6) ∧ SplitDegree 8 = some (4, 4) ∧ SplitDegree (i64ofInt (-3)) = none := by
  decide

/-- transferred: the regenerated `SplitDegree(n)` returns two positive parts that ADD up to `n`
    (`n ≥ 2`; the Go doc comment says "a * b = n"). -/
theorem splitDegree_spec_gen (n : Nat) (hn : 2 ≤ n) (h : n < 2 ^ 62) :
    ∃ a b, SplitDegree n = some (a, b) ∧ a + b = n ∧ 1 ≤ a ∧ 1 ≤ b := by
  refine ⟨(splitDegree n).1, (splitDegree n).2, splitDegree_gen n (by omega) h, ?_⟩
  exact Lattigo.Model.PolyEval.splitDegree_spec n hn

/-- `OptimalSplit(logDegree)`, regenerated = model, for every value `bits.Len64` can take except `0`
    (`logDegree = 0` is `1 << -1` in Go: run-time panic). -/
theorem optimalSplit_gen : ∀ n, n < 65 → 1 ≤ n → OptimalSplit n = optimalSplit n :=
  Proofs.GenPolySplit.OptimalSplit_eq

example : OptimalSplit 5 = optimalSplit 5 := optimalSplit_gen 5 (by norm_num) (by norm_num)

/-- ckks `PolynomialDepth(degree)`, regenerated = `levelsConsumedPerRescaling · (bits.Len64(degree) − 1)`. -/
theorem polynomialDepth_gen (l d : Nat) (hl : l < 2 ^ 32) (h1 : 1 ≤ d) (hd : d < 2 ^ 63) :
    PolynomialDepth l d = some (l * polynomialDepth d) :=
  Proofs.GenPolySplit.PolynomialDepth_eq l d hl h1 hd

theorem polynomialDepth_panic_gen (l d : Nat) (hW : d < W) (h : d = 0 ∨ 2 ^ 63 ≤ d) : PolynomialDepth l d = none :=
  Proofs.GenPolySplit.PolynomialDepth_panic l d hW h

/-- **headline, transferred** (`depth_spec_partial`): with one level per rescaling the regenerated
    `PolynomialDepth(d)` plus the final rescale is `⌈log2(d+1)⌉`, for every degree `1 ≤ d < 2^63`. -/
theorem depth_gen (d : Nat) (h1 : 1 ≤ d) (hd : d < 2 ^ 63) :
    ∃ k, PolynomialDepth 1 d = some k ∧ k + 1 = Nat.clog 2 (d + 1) := by
  refine ⟨polynomialDepth d, ?_, Lattigo.Model.PolyEval.depth_arith d h1⟩
  rw [polynomialDepth_gen 1 d (by norm_num) h1 hd, Nat.one_mul]

example : PolynomialDepth 1 7 = some 2 ∧ PolynomialDepth 1 8 = some 3 ∧ PolynomialDepth 2 63 = some 10 := by decide

end Lattigo.Props.C13Gen

#print axioms Lattigo.Props.C13Gen.splitDegree_gen
#print axioms Lattigo.Props.C13Gen.splitDegree_panic_gen
#print axioms Lattigo.Props.C13Gen.splitDegree_spec_gen
#print axioms Lattigo.Props.C13Gen.optimalSplit_gen
#print axioms Lattigo.Props.C13Gen.polynomialDepth_gen
#print axioms Lattigo.Props.C13Gen.polynomialDepth_panic_gen
#print axioms Lattigo.Props.C13Gen.depth_gen
