/-
  C13 — homomorphic polynomial evaluation returns p(x) at the advertised depth and scale.

  STATUS (what each clause of the property text rests on).

  Proved for ALL inputs, layer (A) — the algebra over any commutative ring (driver: Int; `C13Ring`: the
  RNS polynomial ring `WFPoly` the schemes compute in):
    `powerbasis_spec_*`, `factorize_spec_*`, `ps_spec_*`   pb[n] = x^n / T_n(x); p = q·B_n + r; Paterson–
                                  Stockmeyer = p(x), both bases, every coefficient list, every split
    `chebEval_spec`, `change_of_basis_spec`, `change_of_basis_per_polynomial`   bignum `Evaluate` and the
                                  per-polynomial Chebyshev change of basis of a vector
    `goldschmidt_spec`, `interval_normalization_invariant`, `interval_normalization_steps`   the inverse
                                  circuit on values: x·a_k = 1 − (1−x)^(2^(k+1)); y = x·fac; step count
  Proved for ALL inputs, layer (B) — the machine `run` (operands = level, scale mod t, ciphertext degree,
  slot values; its op trace is tied line by line to the real evaluator):
    `too_few_levels(_clog)`       fewer than ⌈log2(d+1)⌉ levels ⇒ `err`, nothing executed (standard mode)
    `constant_polynomial_spec`    degree 0: no level, target scale, one op
    `run_levels_simulated`        levels/degrees/control flow do not depend on t, scales, coefficient
                                  values, slot values, mapping, and shift with the input level
    `unmapped_slot_evaluates_to_zero`   a slot outside every mapping list is 0 in the result (every degree,
                                  basis, mode, flags)
    `target_scale_bfv`, `sim_backpropagation_spec_bfv`   scale-invariant mode: out.scale = requested and
                                  out.level ≤ input, EVERY degree
    `sim_backpropagation_spec`, `target_scale_of_level`   standard mode, EVERY degree: the simulator's scales
                                  compose to the target; out.scale = requested GIVEN the documented level
  Proved with the degree bounded by a kernel evaluation (`depthOK_below_64` etc.: a closed check of the
  level-only run, NOT a general theorem — `depth_spec_of_check` is the general reduction to it):
    `depth_spec`, `depth_spec_level_only`, `depth_spec_bfv` (1 ≤ d < 64), `depth_spec_chebyshev` (d < 32),
    `target_scale` (d < 64).   OPEN: `∀ d ≥ 1, ∀ lazy, depthOK d lazy = true`.
  `depth_spec_partial` is only the arithmetic identity (coded depth + 1 = ⌈log2(d+1)⌉); kept under that name.
  Witnesses by kernel evaluation of the machine: `even_flag_evaluates`, `flags_cleared_general`,
  `bfv_no_level_consumed`, `bfv_below_depth_evaluates`, `partial_basis_regenerated`, `prefilled_basis`.
  Tied only (no general theorem): the ordered op trace of `eval` (all modes), `depth`, `cob`, `normiters`,
  `chebeval` agree with the real code on the explored inputs; `split`/`optsplit` run regenerated code (`C13Gen`).
  Probed only: decrypted values (bgv exact, ckks 2^-10), ckks scales (2^-30), composite circuits (inverse,
  sign/step, max/min, mod1) on their stated domains, two-levels-per-rescaling evaluation.
  Not covered: an error bound for the minimax sign composition and for mod1 (approximation theory; only
  probed); ckks noise ("within the noise-implied precision" is a probe threshold); the trace ↔ value link of
  layer (B) to layer (A) is through the ties (`ps=` equals the decrypted values), not a theorem.

  The model follows the code with the fixes C13-1 … C13-10 applied (`fixes/C13-*.diff`); C13-10: the parity of a
  VECTOR (`vecFlags`, `vector_parity_spec`) — a parity is skipped iff all members lack it.
-/
import Lattigo.Proofs.PolyEvalDepth
import Lattigo.Proofs.PolyEvalScale
import Lattigo.Proofs.PolyComposite
import Lattigo.Proofs.PolyEvalSlots
import Lattigo.Props.C13Gen
import Lattigo.Props.C13Ring
import Mathlib.Tactic.NormNum.Prime

namespace Lattigo.Props.C13
open Lattigo.Model.PolyEval
open Polynomial

/-- `SplitDegree(n)` for `n ≥ 2`: two positive parts that ADD up to `n` (the Go doc comment says
    "a * b = n") -/
theorem splitDegree_spec (n : Nat) (hn : 2 ≤ n) :
    (splitDegree n).1 + (splitDegree n).2 = n ∧ 1 ≤ (splitDegree n).1 ∧ 1 ≤ (splitDegree n).2 :=
  Lattigo.Model.PolyEval.splitDegree_spec n hn

example : splitDegree 7 = (3, 4) ∧ splitDegree 8 = (4, 4) ∧ splitDegree 13 = (7, 6) := by decide

/-- **powerbasis_spec (monomial)**: `pb[n] = x^n` for every `n`, any commutative ring -/
theorem powerbasis_spec_monomial {R : Type} [CommRing R] (x : R) (n : Nat) :
    powVal (ringOps R) false x (n + 1) n = x ^ n :=
  powVal_monomial x (n + 1) n (by omega) (by omega)

/-- **powerbasis_spec (Chebyshev)**: `pb[n] = T_n(x)` (`Polynomial.Chebyshev.T`) for every `n` -/
theorem powerbasis_spec_chebyshev {R : Type} [CommRing R] (x : R) (n : Nat) :
    powVal (ringOps R) true x (n + 1) n = (Chebyshev.T R (n : ℤ)).eval x :=
  powVal_chebyshev x (n + 1) n (by omega) (by omega)

/-- **factorize_spec (monomial)**: `p(x) = q(x)·x^n + r(x)`, `deg r < n`; every `p`, every `n` -/
theorem factorize_spec_monomial {R : Type} [CommRing R] (x : R) (n : Nat) (p : List R) :
    evalBasis (ringOps R) false x p
      = evalBasis (ringOps R) false x (factorize (ringOps R) false n p).1 * x ^ n
        + evalBasis (ringOps R) false x (factorize (ringOps R) false n p).2
    ∧ (factorize (ringOps R) false n p).2.length ≤ n :=
  factorize_monomial x n p

/-- **factorize_spec (Chebyshev)**: `p(x) = q(x)·T_n(x) + r(x)` in the Chebyshev basis, `r` has exactly
    `n` coefficients; every `p` with `deg p ≤ 2n` -/
theorem factorize_spec_chebyshev {R : Type} [CommRing R] (x : R) (n : Nat) (p : List R)
    (hp : p.length ≤ 2 * n + 1) :
    evalBasis (ringOps R) true x p
      = evalBasis (ringOps R) true x (factorize (ringOps R) true n p).1 * (Chebyshev.T R (n : ℤ)).eval x
        + evalBasis (ringOps R) true x (factorize (ringOps R) true n p).2
    ∧ (factorize (ringOps R) true n p).2.length = n := by
  have h := factorize_chebyshev x n p hp
  rw [powVal_chebyshev x (n + 1) n (by omega) (by omega)] at h
  exact h

/-- non-vacuity: degree 5 split at `n = 4` -/
example : ([1, 2, 3, 4, 5, 6] : List Int).length ≤ 2 * 4 + 1 := by decide

/-- **ps_spec (monomial)**: the Paterson–Stockmeyer recursion returns `p(x)`, for every coefficient list
    (zero leading/trailing coefficients, odd, even), every `logSplit`, every fuel -/
theorem ps_spec_monomial {R : Type} [CommRing R] (logSplit : Nat) (x : R) (fuel : Nat) (p : List R) :
    psRec (ringOps R) false logSplit x fuel p = evalBasis (ringOps R) false x p :=
  psRec_monomial logSplit x fuel p

/-- **ps_spec (Chebyshev)** -/
theorem ps_spec_chebyshev {R : Type} [CommRing R] (logSplit : Nat) (x : R) (fuel : Nat) (p : List R) :
    psRec (ringOps R) true logSplit x fuel p = evalBasis (ringOps R) true x p :=
  psRec_chebyshev logSplit x fuel p

/-- … on the integer instance the driver executes (`ps=` of every `eval` line) -/
theorem ps_spec_int (cheb : Bool) (logSplit : Nat) (x : Int) (fuel : Nat) (p : List Int) :
    psRec intOps cheb logSplit x fuel p = evalBasis intOps cheb x p := by
  rw [intOps_eq]
  cases cheb
  · exact psRec_monomial logSplit x fuel p
  · exact psRec_chebyshev logSplit x fuel p

/-- **depth_spec (arithmetic part)**: the recursion as coded targets level `input − (bits.Len64(d) − 1)` and
    ends with one `Rescale`: `⌈log2(d+1)⌉` levels for every degree `d ≥ 1`.  (That the real evaluator's
    output level is `input − ⌈log2(d+1)⌉` is the probe `level_doc`, degrees 1…63.) -/
theorem depth_spec_partial (d : Nat) (hd : 1 ≤ d) : polynomialDepth d + 1 = Nat.clog 2 (d + 1) :=
  depth_arith d hd

/-- **depth_spec** (machine level; monomial basis, standard mode, constructor flags): for every degree
    `1 ≤ d < 64`, EVERY polynomial (vector) with `d + 1` coefficients, every mapping, `Lazy` or not, every
    input level `L ≥ ⌈log2(d+1)⌉`, all scales and slot values, every plaintext modulus: the run returns an
    operand at level `L − ⌈log2(d+1)⌉` — or, for `t ≠ 0` only, stops with an error (a scale check of the
    exact-scale bgv instance; `depth_spec_level_only` excludes it for `t = 0`).
    Bounded in `d` only through `depthOK_below_64` (kernel evaluation of the level-only run at the
    minimal level); `depth_spec_of_check` is the same statement for every `d` on which that closed check
    succeeds.  What is missing for all `d`: `∀ d ≥ 1, ∀ lazy, depthOK d lazy = true`. -/
theorem depth_spec (env : Env) (hc : env.cheb = false) (hi : env.inv = false) (ho : env.odd = true)
    (he : env.even = true) (d : Nat) (hd1 : 1 ≤ d) (hd : d < 64)
    (polys : List (List Int)) (hp : (polys.headD []).length = d + 1) (mapping : Option (List (List Nat)))
    (lazy : Bool) (L : Nat) (hL : Nat.clog 2 (d + 1) ≤ L) (inScale tScale : Nat) (x : List Int) :
    (∃ tr o, run env polys mapping lazy L inScale tScale x = (tr, "ok", some o) ∧
        o.level = (L : Int) - Nat.clog 2 (d + 1)) ∨
    (¬ env.t = 0 ∧ ∃ tr er, run env polys mapping lazy L inScale tScale x = (tr, er, none)) := by
  have hok : levelRunOK env.cheb env.inv d lazy (bitLen d) 0 = true := by
    rw [hc, hi]
    have := depthOK_below_64 (d - 1) (by omega) lazy
    rwa [show d - 1 + 1 = d by omega] at this
  have hb := bitLen_eq_clog d hd1
  obtain ⟨kn, rfl⟩ : ∃ kn, L = bitLen d + kn := ⟨L - bitLen d, by omega⟩
  rcases levels_of_levelRunOK env ho he d lazy (bitLen d) 0 hok polys hp mapping kn inScale tScale x with
    ⟨tr, o, h1, h2⟩ | h
  · left; exact ⟨tr, o, h1, by rw [h2, ← hb]; push_cast; ring⟩
  · right; exact h

/-- non-vacuity: degree 37 at level 6 = ⌈log2 38⌉ -/
example : (1 : Nat) ≤ 37 ∧ 37 < 64 ∧ Nat.clog 2 (37 + 1) ≤ 6 ∧
    (([List.replicate 38 (1 : Int)] : List (List Int)).headD []).length = 37 + 1 := by decide

/-- **depth_spec_level_only**: on the level-only instance (`t = 0`, the ckks machine) the run always
    succeeds — "enough levels ⇒ no error" -/
theorem depth_spec_level_only (env : Env) (ht : env.t = 0) (hc : env.cheb = false) (hi : env.inv = false)
    (ho : env.odd = true) (he : env.even = true) (d : Nat) (hd1 : 1 ≤ d) (hd : d < 64)
    (polys : List (List Int)) (hp : (polys.headD []).length = d + 1) (mapping : Option (List (List Nat)))
    (lazy : Bool) (L : Nat) (hL : Nat.clog 2 (d + 1) ≤ L) (inScale tScale : Nat) (x : List Int) :
    ∃ tr o, run env polys mapping lazy L inScale tScale x = (tr, "ok", some o) ∧
        o.level = (L : Int) - Nat.clog 2 (d + 1) := by
  rcases depth_spec env hc hi ho he d hd1 hd polys hp mapping lazy L hL inScale tScale x with h | ⟨h, _⟩
  · exact h
  · exact absurd ht h

/-- **depth_spec_of_check**: the general form — any basis, mode, degree, starting level on which the
    closed level-only check succeeds: every run of that shape from `L0 + k` ends at `Lout + k` -/
theorem depth_spec_of_check (env : Env) (ho : env.odd = true) (he : env.even = true) (d : Nat) (lazy : Bool)
    (L0 : Nat) (Lout : Int) (hok : levelRunOK env.cheb env.inv d lazy L0 Lout = true)
    (polys : List (List Int)) (hp : (polys.headD []).length = d + 1)
    (mapping : Option (List (List Nat))) (kn : Nat) (inScale tScale : Nat) (x : List Int) :
    (∃ tr o, run env polys mapping lazy (L0 + kn) inScale tScale x = (tr, "ok", some o) ∧ o.level = Lout + kn) ∨
    (¬ env.t = 0 ∧ ∃ tr er, run env polys mapping lazy (L0 + kn) inScale tScale x = (tr, er, none)) :=
  levels_of_levelRunOK env ho he d lazy L0 Lout hok polys hp mapping kn inScale tScale x

/-- **depth_spec_bfv**: scale-invariant mode, `1 ≤ d < 64`: from EVERY input level `L` the run ends at
    level `L` — no level is consumed, none is required -/
theorem depth_spec_bfv (env : Env) (hc : env.cheb = false) (hi : env.inv = true) (ho : env.odd = true)
    (he : env.even = true) (d : Nat) (hd1 : 1 ≤ d) (hd : d < 64)
    (polys : List (List Int)) (hp : (polys.headD []).length = d + 1) (mapping : Option (List (List Nat)))
    (lazy : Bool) (L : Nat) (inScale tScale : Nat) (x : List Int) :
    (∃ tr o, run env polys mapping lazy L inScale tScale x = (tr, "ok", some o) ∧ o.level = (L : Int)) ∨
    (¬ env.t = 0 ∧ ∃ tr er, run env polys mapping lazy L inScale tScale x = (tr, er, none)) := by
  have hok : levelRunOK env.cheb env.inv d lazy 0 0 = true := by
    rw [hc, hi]
    have := bfvOK_below_64 (d - 1) (by omega) lazy
    rwa [show d - 1 + 1 = d by omega] at this
  rcases levels_of_levelRunOK env ho he d lazy 0 0 hok polys hp mapping L inScale tScale x with
    ⟨tr, o, h1, h2⟩ | h
  · left; exact ⟨tr, o, by simpa using h1, by rw [h2]; simp⟩
  · right; simpa using h

/-- **depth_spec_chebyshev**: Chebyshev basis, standard mode, `1 ≤ d < 32` -/
theorem depth_spec_chebyshev (env : Env) (hc : env.cheb = true) (hi : env.inv = false) (ho : env.odd = true)
    (he : env.even = true) (d : Nat) (hd1 : 1 ≤ d) (hd : d < 32)
    (polys : List (List Int)) (hp : (polys.headD []).length = d + 1) (mapping : Option (List (List Nat)))
    (lazy : Bool) (L : Nat) (hL : Nat.clog 2 (d + 1) ≤ L) (inScale tScale : Nat) (x : List Int) :
    (∃ tr o, run env polys mapping lazy L inScale tScale x = (tr, "ok", some o) ∧
        o.level = (L : Int) - Nat.clog 2 (d + 1)) ∨
    (¬ env.t = 0 ∧ ∃ tr er, run env polys mapping lazy L inScale tScale x = (tr, er, none)) := by
  have hok : levelRunOK env.cheb env.inv d lazy (bitLen d) 0 = true := by
    rw [hc, hi]
    have := chebOK_below_32 (d - 1) (by omega) lazy
    rwa [show d - 1 + 1 = d by omega] at this
  have hb := bitLen_eq_clog d hd1
  obtain ⟨kn, rfl⟩ : ∃ kn, L = bitLen d + kn := ⟨L - bitLen d, by omega⟩
  rcases levels_of_levelRunOK env ho he d lazy (bitLen d) 0 hok polys hp mapping kn inScale tScale x with
    ⟨tr, o, h1, h2⟩ | h
  · left; exact ⟨tr, o, h1, by rw [h2, ← hb]; push_cast; ring⟩
  · right; exact h

/-! ## the target scale (exact scales of the bgv instance) -/

/-- **sim_backpropagation_spec** (every degree): the scales `recursePS` assigns backwards from the target
    compose forwards to the target — with `L − T` levels of budget, the simulated evaluation of `p`
    towards (level `T`, scale `out`) comes back at level `T` with scale `out·q_T` for a leading
    sub-polynomial (the final `Rescale` is still to come) and `out` otherwise.  `t` prime, the `q_l`
    and the scales of the simulated powers units modulo `t` (`SimInv`). -/
theorem sim_backpropagation_spec (e : Env) [Fact e.t.Prime] (h64 : e.t < 2 ^ 64) (hinv : e.inv = false)
    (L : Int) (hq : ∀ l : Int, 0 ≤ l → l ≤ L → UnitS e (qAt e l))
    (pb : List (Nat × SimOpd)) (hpb : SimInv e L pb) (fuel s : Nat) (T : Int) (p : SubPoly) (out : Nat)
    (subs : List SubPoly) (res : SimOpd) (hs : 1 ≤ s) (hT : 0 ≤ T)
    (hbud : ((bitLen p.degree - 1 : Nat) : Int) ≤ L - T) (hout : out < e.t)
    (h : recursePS e pb fuel s T p out = some (subs, res)) :
    res.level = T ∧ res.scale = (if p.lead then mulS e out (qAt e T) else out) :=
  recursePS_scale e h64 hinv L hq pb hpb fuel s T p out subs res hs hT hbud hout h

/-- the simulated power basis `Evaluate` builds satisfies the hypothesis of `sim_backpropagation_spec` -/
theorem sim_powers_units (e : Env) [Fact e.t.Prime] (h64 : e.t < 2 ^ 64) (hinv : e.inv = false)
    (L : Int) (hq : ∀ l : Int, 0 ≤ l → l ≤ L → UnitS e (qAt e l)) (deg : Nat) (hdeg : 1 ≤ deg)
    (sc : Nat) (hsc : UnitS e sc) (hL : (bitLen deg : Int) ≤ L) : SimInv e L (simPowers e deg L sc) :=
  simInv_simPowers e h64 hinv L hq deg hdeg sc hsc hL

/-- **target_scale_of_level** (every degree `d ≥ 1`): a successful run that ends at the documented level
    `L − bits.Len64(d)` has exactly the requested scale -/
theorem target_scale_of_level (e : Env) [Fact e.t.Prime] (h64 : e.t < 2 ^ 64) (hinv : e.inv = false)
    (d : Nat) (hd1 : 1 ≤ d) (polys : List (List Int)) (hpl : (polys.headD []).length = d + 1)
    (mapping : Option (List (List Nat))) (lazy : Bool) (L : Nat) (hL : bitLen d ≤ L)
    (hq : ∀ l : Int, 0 ≤ l → l ≤ (L : Int) → UnitS e (qAt e l))
    (is : Nat) (his : UnitS e is) (ts : Nat) (hts : ts < e.t) (x : List Int) (tr : List String) (o : Opd)
    (hrun : run e polys mapping lazy L is ts x = (tr, "ok", some o))
    (hlev : o.level = (L : Int) - bitLen d) : o.scale = ts :=
  Lattigo.Model.PolyEval.target_scale_of_level e h64 hinv d hd1 polys hpl mapping lazy L hL hq is his ts hts x tr o hrun hlev

/-- **target_scale**: in the exact-scale model of the bgv instance (`t` prime; the input scale and the
    `q_l mod t`, `l ≤ L`, units modulo `t`; monomial basis, standard mode, constructor flags), for every
    degree `1 ≤ d < 64`, every polynomial (vector), mapping, `Lazy`, input level `L ≥ ⌈log2(d+1)⌉`, input
    scale and reduced target scale: whenever the evaluation succeeds, `out.scale = requested`.
    (Bounded in `d` only through `depth_spec`; `target_scale_of_level` holds for every `d`.) -/
theorem target_scale (e : Env) [Fact e.t.Prime] (h64 : e.t < 2 ^ 64) (hc : e.cheb = false) (hinv : e.inv = false)
    (ho : e.odd = true) (he : e.even = true) (d : Nat) (hd1 : 1 ≤ d) (hd : d < 64)
    (polys : List (List Int)) (hpl : (polys.headD []).length = d + 1)
    (mapping : Option (List (List Nat))) (lazy : Bool) (L : Nat) (hL : Nat.clog 2 (d + 1) ≤ L)
    (hq : ∀ l : Int, 0 ≤ l → l ≤ (L : Int) → UnitS e (qAt e l))
    (is : Nat) (his : UnitS e is) (ts : Nat) (hts : ts < e.t) (x : List Int) (tr : List String) (o : Opd)
    (hrun : run e polys mapping lazy L is ts x = (tr, "ok", some o)) : o.scale = ts := by
  have hb := bitLen_eq_clog d hd1
  refine Lattigo.Model.PolyEval.target_scale_of_level e h64 hinv d hd1 polys hpl mapping lazy L (by omega) hq is his
    ts hts x tr o hrun ?_
  rcases depth_spec e hc hinv ho he d hd1 hd polys hpl mapping lazy L hL is ts x with ⟨tr', o', h1, h2⟩ | ⟨_, tr', er, h1⟩
  · rw [hrun] at h1
    simp only [Prod.mk.injEq, Option.some.injEq] at h1
    rw [h1.2.2, h2, hb]
  · rw [hrun] at h1
    simp at h1

/-- **sim_backpropagation_spec_bfv** (every degree, every split): in the scale-invariant mode the simulated
    evaluation of ANY sub-polynomial towards (level `L`, scale `out`) comes back at level `L` with scale `out` -/
theorem sim_backpropagation_spec_bfv (e : Env) [Fact e.t.Prime] (h64 : e.t < 2 ^ 64) (hinv : e.inv = true)
    (L : Int) (hnq : UnitS e (negQ e L)) (pb : List (Nat × SimOpd)) (hpb : SimInvB e L pb) (fuel s : Nat)
    (p : SubPoly) (out : Nat) (subs : List SubPoly) (res : SimOpd) (hout : out < e.t)
    (h : recursePS e pb fuel s L p out = some (subs, res)) : res.level = L ∧ res.scale = out :=
  recursePS_scale_bfv e h64 hinv L hnq pb hpb fuel s p out subs res hout h

/-- **target_scale_bfv**: scale-invariant (BFV) mode, exact scales modulo the prime `t`, EVERY degree
    `d ≥ 1`, every polynomial (vector), mapping, `Lazy`, input level `L` and input scale (a unit, like
    `-Q_L mod t`), reduced target scale: whenever the evaluation succeeds, `out.scale = requested` and no
    level was gained (`out.level ≤ L`; `depth_spec_bfv`: `= L` for `d < 64`). -/
theorem target_scale_bfv (e : Env) [Fact e.t.Prime] (h64 : e.t < 2 ^ 64) (hinv : e.inv = true)
    (d : Nat) (hd1 : 1 ≤ d) (polys : List (List Int)) (hpl : (polys.headD []).length = d + 1)
    (mapping : Option (List (List Nat))) (lazy : Bool) (L : Nat) (hnq : UnitS e (negQ e (L : Int)))
    (is : Nat) (his : UnitS e is) (ts : Nat) (hts : ts < e.t) (x : List Int) (tr : List String) (o : Opd)
    (hrun : run e polys mapping lazy L is ts x = (tr, "ok", some o)) : o.scale = ts ∧ o.level ≤ (L : Int) :=
  Lattigo.Model.PolyEval.target_scale_bfv e h64 hinv d hd1 polys hpl mapping lazy L hnq is his ts hts x tr o hrun

/-- non-vacuity: for the harness's chain `-Q_2 mod t` is a unit (and the run of `bfv_no_level_consumed`
    is an instance: scale 9 requested, 9 returned) -/
example : negQ { t := 65537, q := [705, 16321, 16577], cheb := false, slots := 2, inv := true } 2 = 46481 ∧
    (46481 : ZMod 65537) ≠ 0 := by
  refine ⟨by decide +kernel, by decide⟩

/-- non-vacuity: `t = 65537` is prime, `q_l mod t` of the harness's chain and the scale 9 are units -/
example : Nat.Prime 65537 ∧ (705 : ZMod 65537) ≠ 0 ∧ (16321 : ZMod 65537) ≠ 0 ∧ (9 : ZMod 65537) ≠ 0 := by
  refine ⟨by norm_num, by decide, by decide, by decide⟩

/-- `bignum.Polynomial.Depth()` (`⌈log2 d⌉`, the multiplicative depth) is one short of the levels the
    evaluation consumes exactly for `d = 2^k`.  The evaluator's entry check used `Depth()` (finding C13-9:
    with two levels per rescaling a power-of-two degree then PANICKED in the level simulation instead of
    being refused); after the fix it uses `bits.Len64(d) = ⌈log2(d+1)⌉` — `too_few_levels` is exact. -/
theorem depth_guard_gap (k : Nat) (hk : 1 ≤ k) :
    depthCheck (2 ^ k) = k ∧ polynomialDepth (2 ^ k) + 1 = k + 1 :=
  Lattigo.Model.PolyEval.depth_guard_gap k hk

/-- **too_few_levels**: in the standard mode, with fewer than `⌈log2(d+1)⌉ = bits.Len64(d)` levels the
    machine refuses with `err` before emitting any operation — exactly below the levels `depth_spec` shows
    to be consumed (the scale-invariant mode consumes no level and has no guard: `bfv_below_depth_evaluates`) -/
theorem too_few_levels (env : Env) (hi : env.inv = false) (polys : List (List Int)) (mapping : Option (List (List Nat)))
    (lazy : Bool) (inLevel inScale tScale : Nat) (x : List Int)
    (h : inLevel < bitLen ((polys.headD []).length - 1)) :
    run env polys mapping lazy inLevel inScale tScale x = ([], "err", none) := by
  have hdeg : ¬ ((polys.headD []).length - 1 = 0) := by
    intro h0; rw [h0] at h; simp [bitLen] at h
  have h' : ((inLevel : Nat) : Int) < ((bitLen ((polys.headD []).length - 1) : Nat) : Int) := by
    exact_mod_cast h
  rw [run_eq]
  simp only [evaluate, evaluateFrom, ex_bind, ex_setP, ex_getP, List.find?, beq_self_eq_true, hdeg,
    if_false, h', hi, Bool.not_false, Bool.true_and, decide_true, if_true, ex_throw]

/-- … in terms of the documented depth: fewer than `⌈log2(d+1)⌉` levels, `d ≥ 1` -/
theorem too_few_levels_clog (env : Env) (hi : env.inv = false) (polys : List (List Int)) (d : Nat) (hd : 1 ≤ d)
    (hp : (polys.headD []).length = d + 1) (mapping : Option (List (List Nat)))
    (lazy : Bool) (inLevel inScale tScale : Nat) (x : List Int) (h : inLevel < Nat.clog 2 (d + 1)) :
    run env polys mapping lazy inLevel inScale tScale x = ([], "err", none) := by
  apply too_few_levels env hi
  rw [hp, show d + 1 - 1 = d by omega, bitLen_eq_clog d hd]; exact h

example : (4 : Nat) < bitLen (([List.replicate 17 (1 : Int)].headD []).length - 1) := by decide

/-- **constant_polynomial_spec**: a constant polynomial `c` (no mapping; any flags but odd-and-not-even,
    under which a constant is read as 0) is accepted at every input level, consumes no level, and yields
    one operation — the addition of the coefficient to a fresh zero ciphertext at the requested scale:
    level = input level, scale = target scale, value `c` in every slot (mod `t`). -/
theorem constant_polynomial_spec (env : Env) (hf : (env.even || !env.odd) = true) (c : Int) (lazy : Bool)
    (inLevel inScale tScale : Nat) (x : List Int) :
    run env [[c]] none lazy inLevel inScale tScale x
      = ([s!"add({showOpd env { level := inLevel, scale := tScale, deg := 1, val := [] }},c)"], "ok",
         some { level := inLevel, scale := tScale, deg := 1,
                val := zipV (fun a b => redV env (a + b)) (List.replicate env.slots 0)
                  (List.replicate env.slots c) }) := by
  rw [run_eq]
  simp [evaluate, evaluateFrom, evalFromPowerBasis, addConst, coeffVec, showOpd, hf,
    ex_bind, ex_getP, ex_map]

example : ({ t := 65537, q := [1], cheb := false, slots := 4 } : Env).odd = true := rfl

/-- **mulThenAdd_keeps_degree_two_part** (model of `Evaluator.MulThenAdd(ct, scalar|vector, acc)` after
    C13-1): the accumulator keeps the larger degree and takes the smaller level, so the degree-2 part
    accumulated from a lazily relinearised power survives the addition of the relinearised ones. -/
theorem mulThenAdd_keeps_degree_two_part (env : Env) (x res : Opd) (c : List Int) (st : St) :
    ∃ o st', (ExceptT.run (mulThenAddConst env x c res)).run st = (Except.ok o, st') ∧
      o.deg = max res.deg x.deg ∧ o.level = min res.level x.level ∧ o.scale = res.scale := by
  exact ⟨_, _, rfl, rfl, rfl, rfl⟩

/-- **factorize_guard_spec**: whatever passes the guard of `Factorize(n)` satisfies the hypothesis of
    `factorize_spec_chebyshev` (`deg ≤ 2n`): the guard is exactly strong enough -/
theorem factorize_guard_spec (n : Nat) (p : List Int) (h : factorizeGuard n p.length = false) :
    p.length ≤ 2 * n + 1 := by
  simp only [factorizeGuard, decide_eq_false_iff_not, not_lt] at h
  omega

example : factorizeGuard 3 8 = true ∧ factorizeGuard 4 8 = false := by decide

/-- slots outside every mapping receive the coefficient 0 of every power: they evaluate to 0 -/
theorem unmapped_slots_zero (env : Env) (m : List (List Nat)) (coeffs : List (List Int)) (k j : Nat)
    (hj : j < env.slots) (hun : ∀ l ∈ m, j ∉ l) :
    (coeffVec env (some m) coeffs k).getD j 0 = 0 :=
  coeffVec_unmapped env m coeffs k j hj hun

/-- **unmapped_slot_evaluates_to_zero** (machine level; every degree, basis, mode, flags, level, scale,
    coefficient list): evaluating a vector of polynomials under the mapping `m`, the result is 0 in every
    slot `j` that no list of `m` contains — whatever the input and the powers hold in that slot -/
theorem unmapped_slot_evaluates_to_zero (env : Env) (j : Nat) (m : List (List Nat)) (hun : ∀ l ∈ m, j ∉ l)
    (polys : List (List Int)) (lazy : Bool) (L inScale tScale : Nat) (x : List Int)
    (tr : List String) (o : Opd) (hrun : run env polys (some m) lazy L inScale tScale x = (tr, "ok", some o)) :
    o.val.getD j 0 = 0 :=
  run_unmapped_zero env j m hun polys lazy L inScale tScale x tr o hrun

/-- non-vacuity (kernel evaluation): two polynomials on slots {0} and {2}; slots 1 and 3 are 0, whatever `x` -/
example : (run { t := 65537, q := [705, 16321], cheb := false, slots := 4 } [[5, 7], [1, 2]] (some [[0], [2]]) false 1 1 1
    [2, 3, 4, 5]).2.2.map (·.val)
    = some [19, 0, 9, 0] := by decide +kernel

/-! ## vectors of polynomials with different parity flags -/

/-- **vector_parity_spec** (after fix C13-10): the odd-indexed (resp. even-indexed, constant included) coefficients are
    evaluated iff AT LEAST ONE member of the vector may have some — i.e. a parity is skipped iff ALL members
    are flagged as lacking it (the conjunction over the members; a member flagged both — the constructor's default —
    or neither is general) -/
theorem vector_parity_spec (fl : List (Bool × Bool)) :
    ((vecFlags fl).2 = false ↔ ∀ f ∈ fl, f = (true, false)) ∧
    ((vecFlags fl).1 = false ↔ ∀ f ∈ fl, f = (false, true)) := by
  unfold vecFlags
  simp only [List.any_eq_false, Bool.or_eq_true, Bool.not_eq_true', not_or, Bool.not_eq_true, Bool.not_eq_false]
  constructor
  · constructor
    · intro h f hf; obtain ⟨h1, h2⟩ := h f hf; exact Prod.ext h2 h1
    · intro h f hf; rw [h f hf]; exact ⟨rfl, rfl⟩
  · constructor
    · intro h f hf; obtain ⟨h1, h2⟩ := h f hf; exact Prod.ext h1 h2
    · intro h f hf; rw [h f hf]; exact ⟨rfl, rfl⟩

/-- one general member (flags equal) makes the whole vector general: every power is used and the constant
    is added — no slot of a general polynomial loses terms because another member is odd or even -/
theorem vector_with_general_member (fl : List (Bool × Bool)) (f : Bool × Bool) (hf : f ∈ fl) (hgen : f.1 = f.2) (k : Nat) :
    useIdx (vecFlags fl).1 (vecFlags fl).2 k = true ∧ ((vecFlags fl).2 || !(vecFlags fl).1) = true := by
  have h1 : (vecFlags fl).1 = true := by
    unfold vecFlags; simp only [List.any_eq_true]; refine ⟨f, hf, ?_⟩
    obtain ⟨a, b⟩ := f; simp only at hgen; subst hgen; cases a <;> rfl
  have h2 : (vecFlags fl).2 = true := by
    unfold vecFlags; simp only [List.any_eq_true]; refine ⟨f, hf, ?_⟩
    obtain ⟨a, b⟩ := f; simp only at hgen; subst hgen; cases a <;> rfl
  rw [h1, h2]
  refine ⟨?_, rfl⟩
  unfold useIdx
  rcases Nat.mod_two_eq_zero_or_one k with h | h <;> simp [h]

example : vecFlags [(false, false), (true, false)] = (true, true) ∧ vecFlags [(true, false), (true, false)] = (true, false) ∧
    vecFlags [(true, false), (false, true)] = (true, true) := by decide

/-- **mixed_parity_vector_evaluates** (kernel evaluation of the machine; the tie lines reproduce it on the real
    code): a GENERAL polynomial with both flags cleared on slot 0 and an ODD polynomial on slot 1, degree 3:
    each slot gets its own polynomial, `5+7x+11x²+13x³` at 2 and `7x+13x³` at 3 -/
theorem mixed_parity_vector_evaluates :
    (run { t := 65537, q := [705, 16321, 16577], cheb := false, slots := 2,
           odd := (vecFlags [(false, false), (true, false)]).1, even := (vecFlags [(false, false), (true, false)]).2,
           pflags := [(false, false), (true, false)] }
      [[5, 7, 11, 13], [0, 7, 0, 13]] (some [[0], [1]]) false 2 1 1 [2, 3]).2.2.map (·.val) = some [167, 372] := by
  decide +kernel

/-! ## lazy power generation: the relinearisation state of the stored powers -/

/-- the four modes of `genPowerCheck` for one `n` (`n = 0`: nothing to generate) -/
@[irreducible] def genPowerCheck4 (n : Nat) : Bool :=
  n == 0 || (genPowerCheck false n false && genPowerCheck false n true &&
    genPowerCheck true n false && genPowerCheck true n true)

set_option maxHeartbeats 40000000 in
theorem lazy_genpower_degrees_all : (List.range 65).all genPowerCheck4 = true := by
  decide +kernel

/-- **lazy_genpower_degrees** (kernel evaluation of the machine, every `n ≤ 64`, both bases, lazy and not): from a
    fresh basis `PowerBasis.GenPower(n, lazy)` is never refused — the machine refuses a product whose factors have
    total degree above 2, so every stored power of degree 2 is relinearised BEFORE it is used as a factor (both
    factors `a` and `b = n − a` of `SplitDegree`) — every stored power has degree at most 2, and `X^n` is stored.
    The tie lines `genpower` reproduce trace, status and the (level, degree) of every stored power on the real code. -/
theorem lazy_genpower_degrees (n : Nat) (h : n ≤ 64) (h1 : 1 ≤ n) (cheb lazy : Bool) :
    genPowerCheck cheb n lazy = true := by
  have h0 : genPowerCheck4 n = true :=
    List.all_eq_true.mp lazy_genpower_degrees_all n (List.mem_range.mpr (by omega))
  unfold genPowerCheck4 at h0
  have hn : (n == 0) = false := by
    cases hh : (n == 0) with
    | false => rfl
    | true => exact absurd (beq_iff_eq.mp hh) (by omega)
  rw [hn, Bool.false_or] at h0
  simp only [Bool.and_eq_true] at h0
  obtain ⟨⟨⟨a, b⟩, c⟩, d⟩ := h0
  cases cheb with
  | false => cases lazy with
    | false => exact a
    | true => exact b
  | true => cases lazy with
    | false => exact c
    | true => exact d

set_option maxHeartbeats 40000000 in
/-- … and for the powers the baby steps of degrees up to 255 need beyond 64 (spot values; every stored power is
    covered by the `eval` tie lines of the lazy evaluations of degrees 64 … 255) -/
theorem lazy_genpower_degrees_large :
    ([96, 100, 127, 128, 129, 192, 200, 255, 256].all fun n => genPowerCheck false n true && genPowerCheck true n true) = true := by
  decide +kernel

/-- a lazy power left at degree 2 and multiplied again without relinearisation is refused (what the check of
    `lazy_genpower_degrees` excludes): `mulOp` on operands of degrees 2 and 1 -/
example : (match ((ExceptT.run (mulOp { t := 0, q := [], cheb := false, slots := 0 } "mulnew" false
      { level := 3, scale := 0, deg := 2, val := [] } { level := 3, scale := 0, deg := 1, val := [] })).run ({} : St)).1 with
    | .error _ => true | .ok _ => false) = true := by decide +kernel

/-! ## user-set flags, the caller's basis, the scale-invariant mode (witnesses on the machine) -/

/-- with `IsOdd = IsEven` (both set, the constructor's default, or both cleared) `Factorize` skips nothing -/
theorem factorizeF_default {R : Type} (O : ValOps R) (cheb b : Bool) (n : Nat) (p : List R) :
    factorizeF O cheb b b n p = factorize O cheb n p := by
  simp [factorizeF]

/-- the bgv instance of the witnesses below: `t = 65537`, three levels -/
def envW (odd even inv : Bool) : Env :=
  { t := 65537, q := [705, 16321, 16577], cheb := false, slots := 2, odd := odd, even := even, inv := inv }

/-- **even_flag_evaluates** (after fix C13-5; formerly the counterexample `even_flag_refused`): the EVEN
    polynomial `5 + 11·X²`, truthfully flagged `IsOdd = false, IsEven = true`, evaluates to `5 + 11·x²`
    like the unflagged one.  (Before the fix `minimumDegreeNonZeroCoefficient` of the one-coefficient
    quotient `[11]` was decremented to -1, the accumulator allocated with ciphertext degree 0, and bgv's
    `Mul` refused it.)  Test by evaluation of the machine; the tie lines reproduce it on the real code. -/
theorem even_flag_evaluates :
    (run (envW false true false) [[5, 0, 11]] none false 2 1 1 [2, 3]).2.2.map (·.val) = some [49, 104] ∧
    (run (envW true true false) [[5, 0, 11]] none false 2 1 1 [2, 3]).2.2.map (·.val) = some [49, 104] := by
  decide +kernel

/-- **flags_cleared_general** (after fix C13-4; formerly `flags_cleared_drop_constants`): with
    `IsOdd = IsEven = false` — "neither odd nor even" — every power is used AND the constant coefficient of
    every baby step is added (`even || !odd`): `5 + 7·X` evaluates to `5 + 7·x`. -/
theorem flags_cleared_general :
    (run (envW false false false) [[5, 7]] none false 1 1 1 [2, 3]).2.2.map (·.val) = some [19, 26] ∧
    (run (envW false false false) [[5, 7, 11, 13, 17, 19]] none false 3 1 1 [2, 3]).2.2.map (·.val)
      = some [1047, 6470] := by
  decide +kernel

/-- **bfv_no_level_consumed**: in the scale-invariant mode the output level is the input level and the
    output scale the requested one (degree 3 at level 2; the standard mode ends at level 0) -/
theorem bfv_no_level_consumed :
    (run (envW true true true) [[5, 7, 11, 13]] none false 2 1 9 [2, 3]).2.2.map (fun o => (o.level, o.scale, o.val))
      = some (2, 9, [167, 476]) ∧
    (run (envW true true false) [[5, 7, 11, 13]] none false 2 1 9 [2, 3]).2.2.map (fun o => (o.level, o.scale, o.val))
      = some (0, 9, [167, 476]) := by
  decide +kernel

/-- **bfv_below_depth_evaluates** (after fix C13-6; formerly `bfv_refused_below_depth`): the
    scale-invariant mode consumes no level and accepts every input level: degree 3 (`Depth() = 2`) at
    level 1 and at level 0 -/
theorem bfv_below_depth_evaluates :
    (run (envW true true true) [[5, 7, 11, 13]] none false 1 1 9 [2, 3]).2.2.map (fun o => (o.level, o.scale, o.val))
      = some (1, 9, [167, 476]) ∧
    (run (envW true true true) [[5, 7, 11, 13]] none false 0 1 9 [2, 3]).2.2.map (fun o => (o.level, o.scale, o.val))
      = some (0, 9, [167, 476]) := by
  decide +kernel

/-- **partial_basis_regenerated** (after fix C13-7): `EvaluateFromPowerBasis` on a basis that holds `X⁴`
    but not `X²` (generated, then dropped by the caller), even polynomial flagged even-and-not-odd:
    `X²` — a baby-step power that no other power's generation brings back — is generated again; same
    result as `Evaluate`.  (Before the fix: nil dereference.) -/
theorem partial_basis_regenerated :
    (runFrom { envW false true false with q := [705, 16321, 16577, 15553] } [.gen 4 false, .del 2] [[3, 0, 4, 0, 1]]
        none false 3 1 1 [2, 3]).2.2.map (fun o => (o.level, o.scale, o.val)) = some (0, 1, [35, 120]) ∧
    (run { envW false true false with q := [705, 16321, 16577, 15553] } [[3, 0, 4, 0, 1]]
        none false 3 1 1 [2, 3]).2.2.map (fun o => (o.level, o.scale, o.val)) = some (0, 1, [35, 120]) := by
  decide +kernel

/-- **prefilled_basis**: `EvaluateFromPowerBasis` on a basis that already holds `X²` and a lazily
    generated `X³` returns the same operand as `Evaluate` and only emits what is left to do -/
theorem prefilled_basis :
    (runFrom { envW true true false with q := [705, 16321, 16577, 15553] } [.gen 2 false, .gen 3 true]
        [[5, 7, 11, 13, 17]] none true 3 1 1 [2, 3]).2.2.map (fun o => (o.level, o.scale, o.val))
      = some (0, 1, [439, 1853]) ∧
    (run { envW true true false with q := [705, 16321, 16577, 15553] }
        [[5, 7, 11, 13, 17]] none true 3 1 1 [2, 3]).2.2.map (fun o => (o.level, o.scale, o.val))
      = some (0, 1, [439, 1853]) ∧
    (runFrom { envW true true false with q := [705, 16321, 16577, 15553] } [.gen 2 false, .gen 3 true]
        [[5, 7, 11, 13, 17]] none true 3 1 1 [2, 3]).1.length
      < (run { envW true true false with q := [705, 16321, 16577, 15553] }
        [[5, 7, 11, 13, 17]] none true 3 1 1 [2, 3]).1.length := by
  decide +kernel

/-! ## composite circuits and changes of basis -/

/-- **interval_normalization_steps**: `inverse.IntervalNormalization` runs `normIters num den` compression
    steps for `log2max = num/den` (tied to the real loop through a counting bootstrapper), and that is THE
    least number of steps of factor 2.45 that covers `[-2^log2max, 2^log2max]`:
    `2.45^n ≥ 2^log2max` and no smaller `n` does -/
theorem interval_normalization_steps (num den : Nat) (hden : 1 ≤ den) :
    Covers num den (normIters num den) ∧ ∀ m < normIters num den, ¬ Covers num den m :=
  normIters_spec num den hden

/-- the step counts of the domains the harness sweeps; `int(log2max/log2(2.45) + 0.5)` (a former coding of
    the count) gives 2, 3, 5, 6 for `log2max = 3, 4, 7, 8`: one step short, not covering -/
theorem interval_normalization_steps_values :
    (List.map (fun m => normIters m 1) [1, 2, 3, 4, 5, 6, 7, 8, 9, 10]) = [1, 2, 3, 4, 4, 5, 6, 7, 7, 8] ∧
    ¬ Covers 3 1 2 ∧ ¬ Covers 4 1 3 ∧ ¬ Covers 7 1 5 ∧ ¬ Covers 8 1 6 := by
  decide

/-- **goldschmidt_spec** (the arithmetic of `inverse.GoldschmidtDivisionNew`, any commutative ring, every
    `x`, every number of steps): `x·a_k = 1 − (1−x)^(2^(k+1))` — `a_k` is `1/x` with relative error
    `(1−x)^(2^(k+1))`: the precision doubles per iteration on `(0, 2)` -/
theorem goldschmidt_spec {R : Type} [CommRing R] (x : R) (k : Nat) :
    x * (goldschmidt (ringOps R) x k).1 = 1 - (1 - x) ^ (2 ^ (k + 1)) ∧
    (goldschmidt (ringOps R) x k).2 = (1 - x) ^ (2 ^ k) :=
  Lattigo.Model.PolyEval.goldschmidt_spec x k

example : (goldschmidt intOps 3 2).1 = -85 ∧ (3 : Int) * (-85) = 1 - (1 - 3) ^ (2 ^ 3) := by decide

/-- **interval_normalization_invariant**: through any compression steps the normalised value is `x` times
    the accumulated factor (the factor the circuit multiplies the inverse of the normalised value with) -/
theorem interval_normalization_invariant {R : Type} [CommRing R] (x : R) (cs : List R) :
    let r := cs.foldl (fun s c => normStep (ringOps R) c s) (x, 1)
    r.1 = x * r.2 :=
  normStep_invariant x cs

/-- **change_of_basis_spec**: the change of basis of `[a, b]` maps `a ↦ -1`, `b ↦ 1` -/
theorem change_of_basis_spec (a b : Int) (hab : a < b) (h16 : (b - a) ∣ 16) (h8 : (b - a) ∣ 8 * (-a - b)) :
    (changeOfBasis8 (a, b)).1 * a + (changeOfBasis8 (a, b)).2 = -8 ∧
    (changeOfBasis8 (a, b)).1 * b + (changeOfBasis8 (a, b)).2 = 8 :=
  changeOfBasis8_spec a b hab h16 h8

example : ((2 : Int) < 6) ∧ ((6 : Int) - 2) ∣ 16 ∧ ((6 : Int) - 2) ∣ 8 * (-2 - 6) := by decide

/-- **change_of_basis_per_polynomial**: `PolynomialVector.ChangeOfBasis` gives every slot the change of
    basis of the interval of ITS polynomial (the one the mapping assigns it to), for any intervals of
    the other polynomials of the vector -/
theorem change_of_basis_per_polynomial (slots : Nat) (pre post : List (List Nat × (Int × Int)))
    (m : List Nat) (ab : Int × Int) (j : Nat) (hj : j < slots) (hm : j ∈ m) (hpost : ∀ mi ∈ post, j ∉ mi.1) :
    let r := changeOfBasisVec8 slots ((pre ++ (m, ab) :: post).map (·.1)) ((pre ++ (m, ab) :: post).map (·.2))
    r.1.getD j 0 = (changeOfBasis8 ab).1 ∧ r.2.getD j 0 = (changeOfBasis8 ab).2 :=
  changeOfBasisVec8_own slots pre post m ab j hj hm hpost

/-- the vector of the missed regression: polynomial 0 on `[-1, 1]`, polynomial 1 on `[2, 6]`; slot 1 (mapped
    to polynomial 1) gets `(1/2, -2)`, not polynomial 0's `(1, 0)` -/
example : changeOfBasisVec8 2 [[0], [1]] [(-1, 1), (2, 6)] = ([8, 4], [0, -16]) := by decide

/-- `bignum.Polynomial.Evaluate`, Chebyshev basis on `[a, b]` (after fix C13-8: the constant of the change of
    basis shifts the real part only): `Σ c_i·T_i(u)`, `u = (2x - a - b)/(b - a)` -/
theorem chebEval_spec (a b x : Int) (coeffs : List Int) :
    chebEval a b x coeffs = evalBasis (ringOps Int) true ((2 * x - a - b) / (b - a)) coeffs := rfl

example : chebEval 2 4 5 [1, 2, 3] = 1 + 2 * 2 + 3 * (2 * 2 * 2 - 1) := by decide

#print axioms splitDegree_spec
#print axioms powerbasis_spec_monomial
#print axioms powerbasis_spec_chebyshev
#print axioms factorize_spec_monomial
#print axioms factorize_spec_chebyshev
#print axioms ps_spec_monomial
#print axioms ps_spec_chebyshev
#print axioms ps_spec_int
#print axioms depth_spec_partial
#print axioms depth_guard_gap
#print axioms depth_spec
#print axioms depth_spec_level_only
#print axioms depth_spec_of_check
#print axioms depth_spec_bfv
#print axioms depth_spec_chebyshev
#print axioms sim_backpropagation_spec
#print axioms sim_powers_units
#print axioms target_scale_of_level
#print axioms target_scale
#print axioms too_few_levels
#print axioms too_few_levels_clog
#print axioms constant_polynomial_spec
#print axioms mulThenAdd_keeps_degree_two_part
#print axioms factorize_guard_spec
#print axioms unmapped_slots_zero
#print axioms unmapped_slot_evaluates_to_zero
#print axioms vector_parity_spec
#print axioms lazy_genpower_degrees
#print axioms lazy_genpower_degrees_large
#print axioms vector_with_general_member
#print axioms mixed_parity_vector_evaluates
#print axioms sim_backpropagation_spec_bfv
#print axioms target_scale_bfv
#print axioms goldschmidt_spec
#print axioms interval_normalization_invariant
#print axioms factorizeF_default
#print axioms even_flag_evaluates
#print axioms flags_cleared_general
#print axioms bfv_no_level_consumed
#print axioms bfv_below_depth_evaluates
#print axioms partial_basis_regenerated
#print axioms prefilled_basis
#print axioms interval_normalization_steps
#print axioms interval_normalization_steps_values
#print axioms change_of_basis_spec
#print axioms change_of_basis_per_polynomial
#print axioms chebEval_spec

end Lattigo.Props.C13
