/-
  C20 — RGSW external products and blind rotations compute the encrypted look-up.

  The theorems are about the definitions of `Lattigo/Model/RGSW.lean` and `Lattigo/Model/BlindRot.lean` (the ones the
  driver executes; the model follows /repo HEAD, i.e. with the fixes `/verif/fixes/C20-1 … C20-10`).  Companion files:
  `C20Ring` (transport to `RPoly` values over `WFPoly qs n`), `C20Noise` (norm bounds), `C20Stack` (`extprod_phase_full`:
  recombination, rounded division and `P⁻¹` discharged from C02).  STATUS, clause by clause of the property text:

  * "external product … decrypts to m·g with noise below the bound implied by the decomposition, every level, auxiliary
    modulus count and digit decomposition":
      PROVED for all inputs with an auxiliary modulus — `extprod_noise_closed` (this file; phase identity in `R_Q` with an
      integer noise polynomial and the closed bound `2P‖ν‖ ≤ 2nB(ΣD+ΣD) + P(1+h)`; no hypothesis beyond well-formedness,
      pairwise coprime moduli, `P` odd, errors/secret given as signed lists).  Generic identities for every commutative
      ring: `rgsw_rows_phase`, `extprod_phase`, `extprod_phase_div`, `extprod_phase_noP`.  WITHOUT auxiliary modulus the
      identity is `C20Ring.extprod_phase_rpoly` under the recombination hypothesis (discharged by
      `StackKS.rgsw_recombine` only inside `extprod_phase_full`, i.e. for `ps ≠ []`) and the bound
      `C20Noise.extprod_noise_bound_noP`; the composition for `ps = []` is not assembled (open).
      `rgsw_digit_partition`: the greedy partition of the Q primes into RNS digits.
  * "in the single-modulus 32-bit fast path as well as the general path": `path_eq`, `path_eq_guarded` (word level, one
    NTT slot: the guarded accumulator + `IMForm` is the general path's value), `path_eq_counterexample` (what the guard
    excludes); `extprod_lazy_no_wrap` (the lazy 64-bit accumulators of the multi-`P` path never wrap, per limb family).
    That the NTT-domain slot values assemble to the coefficient-domain `extProdR` is C01's NTT correctness: TIED
    (`ep32raw`, `eplazy`, `extprod`), not proved here.
  * "RGSW ciphertexts add and multiply by X^a−1 as their plaintexts do": `rgsw_add`, `rgsw_mulXminus1`,
    `rgsw_mulXminus1_add`, `rgsw_addPlain` (row-level equalities, every commutative ring; `C20Ring.*_rpoly` on values).
  * "blind rotation … returns an encryption of f(x) up to the discretisation step, whatever the Hamming weight":
      `blindrot_exponent`, `eff_spec`, `blindrot_exponent_mask`, `blindrot_exponent_model` (the schedule AS CODED ends at
      Galois index 1 and exponent `b + ⟨a,s⟩ mod 2N`, for every mask the model's mod-switch produces, all `N = 2^(k+1) ≥ 4`);
      `blindrot_invariant` (phases, abstract ring), `blindrot_end_to_end` and `blindrot_evalSlot_phase` (on `RPoly` values,
      for the model's own `evalSlot`/`coreR`: final phase `F·X^{b+⟨a,s⟩} + noiseRunG`);
      `blindrot_lookup`, `blindrot_lookup_all`, `blindrot_lookup_endpoint` (value read at EVERY exponent, both halves, sign).
      The size of `noiseRunG` is `C20Noise.blindrot_noise_bound` UNDER per-operation bounds `B_ks`, `B_ep` (named
      hypotheses): `extprod_noise_closed` provides `B_ep`; the key-switch error of `automorphismR` is NOT bounded here
      (C04's `keyswitch_noise_closed` is about `KS.gadgetProductR`; `BlindRot.gadgetProductR` is tied to the code by `br_eval`
      / `br_core` but not proved equal to it) — open.  The drift `|b̃ + ⟨ã,s⟩ − 2N·phase/Q| ≤ 1/2 + (3/2)‖s‖₁ + …` of the
      modulus switch (the "discretisation step") is PROBED (`blindrot_lookup`), not proved.
      `InitTestPolynomial`'s float pipeline is modelled in exact arithmetic (`scaleUpBits`, tied by `testpoly` incl. 55–61-bit
      primes and scales up to `Q/4`): `testpoly_limbs_consistent` (all limbs are residues of one integer, all inputs),
      `testpoly_exact`, `testpoly_exact_big` (that integer is the exact `⌊scale·|g|+½⌋` when nothing is rounded); otherwise it is
      the IEEE-rounded value (the API's `scale` is a float64).  The look-up theorems are about integer tables `y`.
  * "the generated keys contain exactly the Galois and RGSW keys the algorithm requests": `brk_keys_requested_subset`
    (requested ⊆ generated, all `N`, all masks); "generated ⊆ requested by some input" and "each RGSW key at most once"
    are PROBED (`brk_keys_exact`, statistics) only.
  * Not covered by any theorem: public-key RGSW encryption, serialisation, the evaluator's buffer aliasing /
    input-preservation and history behaviour (probes `*_inputs_unchanged`, `blindrot_history`, `blindrot_evaluate_twice`).
-/
import Lattigo.Proofs.RGSW
import Lattigo.Proofs.RGSW32
import Lattigo.Proofs.BlindRotPhase
import Lattigo.Proofs.BlindRotTable
import Lattigo.Proofs.BlindRotMask
import Lattigo.Proofs.RGSWShape
import Lattigo.Proofs.RGSWLazy
import Lattigo.Props.C20Ring
import Lattigo.Props.C20Noise
import Lattigo.Props.C20Stack
import Lattigo.Proofs.RGSWNoise
import Lattigo.Proofs.BlindRotE2E
import Lattigo.Proofs.BlindRotTestPoly

namespace Lattigo.Props.C20
open Lattigo Lattigo.RGSW

section rgsw
variable {α : Type} [CommRing α]

/-! ## RGSW ciphertext rows -/

/-- `rgsw_rows_phase`: with auxiliary modulus (`encZero`) row `k` of `Value[0]` decrypts to
    `P·w_k·g + e_k` and row `k` of `Value[1]` to `P·w_k·g·s + e'_k`. -/
theorem rgsw_rows_phase (s g : α) (pgs : List α) (smp0 smp1 : List (α × α)) :
    ((encrypt encZero s g pgs smp0 smp1).v0.map fun r => phase r s) =
        List.zipWith (fun pg e => e + pg * g) pgs (smp0.map Prod.snd) ∧
    ((encrypt encZero s g pgs smp0 smp1).v1.map fun r => phase r s) =
        List.zipWith (fun pg e => e + pg * g * s) pgs (smp1.map Prod.snd) := by
  have hn : ∀ smp : List (α × α), rowNoise encZero s smp = smp.map Prod.snd := by
    intro smp; simp only [rowNoise, phase_encZero]
  constructor
  · simp only [encrypt]; rw [rows0_phase, hn]
  · simp only [encrypt]; rw [rows1_phase, hn]

example : ((encrypt encZero (3 : ℤ) 5 [7, 11] [(1, 2), (4, -1)] [(0, 1), (2, 2)]).v0.map
    fun r => phase r 3) = [2 + 7 * 5, -1 + 11 * 5] := by decide

/-! ## External product -/

/-- `extprod_phase` (level QP, before the division by `P`).  `pgs` is the scaled gadget vector `P·w_k`,
    `d0`, `d1` the decompositions of `c0`, `c1`; hypotheses `hrec0`, `hrec1`: the gadget recombination
    `Σ_k d_k · P·w_k = P·c`.  Then
    `phase(ct ⊡ RGSW(g)) = g · P·phase(ct) + Σ_k d0_k e0_k + Σ_k d1_k e1_k`. -/
theorem extprod_phase (s g : α) (pgs : List α) (smp0 smp1 : List (α × α)) (d0 d1 : List α)
    (Pc0 Pc1 : α)
    (h0 : pgs.length = smp0.length) (h1 : pgs.length = smp1.length)
    (hrec0 : wsum d0 pgs = Pc0) (hrec1 : wsum d1 pgs = Pc1) :
    phase (extProdLazy 0 d0 d1 (encrypt encZero s g pgs smp0 smp1)) s =
      g * phase (Pc0, Pc1) s + (wsum d0 (smp0.map Prod.snd) + wsum d1 (smp1.map Prod.snd)) := by
  rw [extProdLazy_phase encZero s g pgs smp0 smp1 d0 d1 h0 h1, hrec0, hrec1]
  have hn : ∀ smp : List (α × α), rowNoise encZero s smp = smp.map Prod.snd := by
    intro smp; simp only [rowNoise, phase_encZero]
  rw [hn, hn]; rfl

example : phase (extProdLazy 0 [2, 1] [0, 3]
      (encrypt encZero (3 : ℤ) 5 [1, 4] [(1, 2), (4, -1)] [(0, 1), (2, 2)])) 3
    = 5 * phase ((6 : ℤ), 12) 3 + ((2 * 2 + 1 * -1) + (0 * 1 + 3 * 2)) := by decide

/-- `extprod_phase` after the division by `P`.  `π : α → β` is the projection `R_QP → R_Q`, `md` the
    rounded division (`ModDownQPtoQNTT`) with its defining property `P · md x = π x − r x` (`r x` the
    projection of the centred remainder `[x]_P`), `c0`, `c1` the input ciphertext (`π Pc_i = P·c_i`).
    Then `P · phase(out) = P · (g · phase(ct)) + π(Σ d e) − (r u0 + r u1 · s)`, and with `Pinv·P = 1`
    `phase(out) = g · phase(ct) + Pinv · (π(Σ d e) − r u0 − r u1·s)`: the explicit noise and rounding
    term. -/
theorem extprod_phase_div {β : Type} [CommRing β] (π : α →+* β) (md r : α → β) (P Pinv : β)
    (hmd : ∀ x, P * md x = π x - r x) (hPinv : Pinv * P = 1)
    (s g : α) (pgs : List α) (smp0 smp1 : List (α × α)) (d0 d1 : List α) (Pc0 Pc1 : α) (c0 c1 : β)
    (h0 : pgs.length = smp0.length) (h1 : pgs.length = smp1.length)
    (hrec0 : wsum d0 pgs = Pc0) (hrec1 : wsum d1 pgs = Pc1)
    (hc0 : π Pc0 = P * c0) (hc1 : π Pc1 = P * c1) :
    let rg := encrypt encZero s g pgs smp0 smp1
    let u := extProdLazy 0 d0 d1 rg
    let E := wsum d0 (smp0.map Prod.snd) + wsum d1 (smp1.map Prod.snd)
    phase (extProd md 0 d0 d1 rg) (π s) =
      π g * phase (c0, c1) (π s) + Pinv * (π E - (r u.1 + r u.2 * π s)) := by
  intro rg u E
  have hph := extprod_phase s g pgs smp0 smp1 d0 d1 Pc0 Pc1 h0 h1 hrec0 hrec1
  have hπ : π (phase u s) = π g * (P * c0 + P * c1 * π s) + π E := by
    show π (phase (extProdLazy 0 d0 d1 (encrypt encZero s g pgs smp0 smp1)) s) = _
    rw [hph]; simp only [phase, map_add, map_mul, hc0, hc1, E]
  have hP : P * phase (extProd md 0 d0 d1 rg) (π s) =
      P * (π g * phase (c0, c1) (π s)) + (π E - (r u.1 + r u.2 * π s)) := by
    have e1 : P * phase (extProd md 0 d0 d1 rg) (π s) = P * md u.1 + P * md u.2 * π s := by
      simp only [phase, extProd]; ring
    rw [e1, hmd, hmd]
    have e2 : π u.1 - r u.1 + (π u.2 - r u.2) * π s = π (phase u s) - (r u.1 + r u.2 * π s) := by
      simp only [phase, map_add, map_mul]; ring
    rw [e2, hπ]; simp only [phase]; ring
  calc phase (extProd md 0 d0 d1 rg) (π s)
      = (Pinv * P) * phase (extProd md 0 d0 d1 rg) (π s) := by rw [hPinv, one_mul]
    _ = Pinv * (P * phase (extProd md 0 d0 d1 rg) (π s)) := by ring
    _ = Pinv * (P * (π g * phase (c0, c1) (π s)) + (π E - (r u.1 + r u.2 * π s))) := by rw [hP]
    _ = (Pinv * P) * (π g * phase (c0, c1) (π s)) + Pinv * (π E - (r u.1 + r u.2 * π s)) := by ring
    _ = _ := by rw [hPinv, one_mul]

/-- non-vacuity: `α = β = ℤ × ℤ`-free toy instance `α = β = ℚ`-free: take `α = β = ZMod`-free…
    simply `α = β = ℤ`, `P = Pinv = 1`, `md = id`, `r = 0`. -/
example : phase (extProd (fun x : ℤ => x) 0 [2, 1] [0, 3]
      (encrypt encZero (3 : ℤ) 5 [1, 4] [(1, 2), (4, -1)] [(0, 1), (2, 2)])) 3
    = 5 * phase ((6 : ℤ), 12) 3 + 1 * (((2 * 2 + 1 * -1) + (0 * 1 + 3 * 2)) - (0 + 0 * 3)) := by
  decide

/-- without auxiliary modulus there is no division: `phase(out) = g·phase(ct) + Σ d e` -/
theorem extprod_phase_noP (s g : α) (pgs : List α) (smp0 smp1 : List (α × α))
    (d0 d1 : List α) (c0 c1 : α)
    (h0 : pgs.length = smp0.length) (h1 : pgs.length = smp1.length)
    (hrec0 : wsum d0 pgs = c0) (hrec1 : wsum d1 pgs = c1) :
    phase (extProdLazy 0 d0 d1 (encrypt encZero s g pgs smp0 smp1)) s =
      g * phase (c0, c1) s + (wsum d0 (smp0.map Prod.snd) + wsum d1 (smp1.map Prod.snd)) :=
  extprod_phase s g pgs smp0 smp1 d0 d1 c0 c1 h0 h1 hrec0 hrec1

/-! ## Homomorphisms -/

/-- `rgsw_add`: the sum of two RGSW ciphertexts is THE RGSW ciphertext of the sum of the plaintexts
    built from the sums of the samples. -/
theorem rgsw_add (s g1 g2 : α) (pgs : List α) (A0 A1 B0 B1 : List (α × α))
    (h0 : A0.length = B0.length) (h1 : A1.length = B1.length) :
    Ct.add (encrypt encZero s g1 pgs A0 A1) (encrypt encZero s g2 pgs B0 B1) =
      encrypt encZero s (g1 + g2) pgs (List.zipWith padd A0 B0) (List.zipWith padd A1 B1) := by
  simp only [Ct.add, encrypt]
  rw [rows0_add encZero s g1 g2 (encZero_add s) pgs A0 B0 h0,
    rows1_add encZero s g1 g2 (encZero_add s) pgs A1 B1 h1]

example : Ct.add (encrypt encZero (3 : ℤ) 5 [7] [(1, 2)] [(0, 1)]) (encrypt encZero 3 (-2) [7] [(4, 0)] [(1, 1)])
    = encrypt encZero 3 (5 + -2) [7] [(1 + 4, 2 + 0)] [(0 + 1, 1 + 1)] := by decide

/-- `rgsw_mulXminus1`: multiplying every stored polynomial by `x` (`= X^a − 1`) gives THE RGSW
    ciphertext of `g·x` built from the samples multiplied by `x`. -/
theorem rgsw_mulXminus1 (s g x : α) (pgs : List α) (A0 A1 : List (α × α)) :
    Ct.mulBy x (encrypt encZero s g pgs A0 A1) =
      encrypt encZero s (g * x) pgs (A0.map fun ae => (ae.1 * x, ae.2 * x))
        (A1.map fun ae => (ae.1 * x, ae.2 * x)) := by
  simp only [Ct.mulBy, encrypt]
  rw [rows0_mul encZero s g x (encZero_mul s x) pgs A0, rows1_mul encZero s g x (encZero_mul s x) pgs A1]

/-- `MulByXPowAlphaMinusOneThenAddLazy` -/
theorem rgsw_mulXminus1_add (s g h x : α) (pgs : List α) (A0 A1 B0 B1 : List (α × α))
    (h0 : B0.length = A0.length) (h1 : B1.length = A1.length) :
    Ct.mulByThenAdd x (encrypt encZero s g pgs A0 A1) (encrypt encZero s h pgs B0 B1) =
      encrypt encZero s (h + g * x) pgs
        (List.zipWith padd B0 (A0.map fun ae => (ae.1 * x, ae.2 * x)))
        (List.zipWith padd B1 (A1.map fun ae => (ae.1 * x, ae.2 * x))) := by
  simp only [Ct.mulByThenAdd]
  rw [rgsw_mulXminus1, rgsw_add] <;> simpa

/-- `AddLazy(*Plaintext)`: adding the gadget plaintext of `m` gives the RGSW ciphertext of `g + m` with
    the SAME samples (no noise added). -/
theorem rgsw_addPlain (s g m : α) (pgs : List α) (A0 A1 : List (α × α))
    (h0 : pgs.length = A0.length) (h1 : pgs.length = A1.length) :
    Ct.addPlain (encrypt encZero s g pgs A0 A1) (pgs.map (· * m)) =
      encrypt encZero s (g + m) pgs A0 A1 := by
  simp only [Ct.addPlain, encrypt]
  rw [rows0_addPlain encZero s g m pgs A0 h0, rows1_addPlain encZero s g m pgs A1 h1]

example : Ct.mulBy (2 : ℤ) (encrypt encZero 3 5 [7] [(1, 2)] [(0, 1)])
    = encrypt encZero 3 (5 * 2) [7] [(1 * 2, 2 * 2)] [(0 * 2, 1 * 2)] := by decide

end rgsw

/-! ## The 32-bit path -/

/-- `path_eq`: one NTT slot of `externalProduct32Bit` (`slot32`: 64-bit wrapping accumulator, then
    `IMForm`) equals the general path's value — the `y < q` with `y·2^64 ≡ Σ_k r_k c_k (mod q)` —
    under the explicit no-overflow hypothesis `Σ_k r_k c_k < 2^64` (`r_k < q` the stored row values,
    `c_k ≤ 6q − 2` the lazily transformed digits, `k` over the `2·⌈log q / w⌉` rows). -/
theorem path_eq (q mrc : Nat) (rs cs : List Nat) (hq1 : 1 < q) (hq : q < W)
    (hodd : Nat.gcd q W = 1) (hmrc : q * mrc % W = 1) (hsum : sum32 rs cs < W)
    (y : Nat) (hy : y < q) (hyspec : y * W % q = sum32 rs cs % q) :
    slot32 q mrc rs cs = y :=
  slot32_unique q mrc rs cs hq1 hq hodd hmrc hsum y hy hyspec

/-- non-vacuity (`q = 0x7fff801`, its Montgomery constant, two terms) -/
example : slot32 134215681 13887429451840489473 [5, 7] [11, 13] = 11475088 ∧
    134215681 * 13887429451840489473 % W = 1 ∧ 11475088 * W % 134215681 = (5 * 11 + 7 * 13) % 134215681 := by
  decide +kernel

/-- `path_eq` under the guard of the code (fix C20-4): when `acc32BitFits(q, d)` holds, for every slot with at
    most `2d` terms, stored values `≤ q − 1` and lazily transformed digits `≤ 6q − 2` (the documented range
    of `NTTLazy`), the 32-bit path returns the general path's value.  No separate overflow hypothesis. -/
theorem path_eq_guarded (q mrc d : Nat) (rs cs : List Nat) (hq1 : 1 < q) (hq : q < W)
    (hodd : Nat.gcd q W = 1) (hmrc : q * mrc % W = 1) (hfit : acc32Fits q d = true)
    (hlen : rs.length ≤ 2 * d) (hr : ∀ r ∈ rs, r ≤ q - 1) (hc : ∀ c ∈ cs, c ≤ 6 * q - 2)
    (y : Nat) (hy : y < q) (hyspec : y * W % q = sum32 rs cs % q) :
    slot32 q mrc rs cs = y :=
  path_eq q mrc rs cs hq1 hq hodd hmrc (acc32Fits_no_wrap q d hfit rs cs hlen hr hc) y hy hyspec

/-- non-vacuity: the blind-rotation test modulus `0x7fff801` with `w = 7` (`d = 4`) passes the guard, a 29-bit
    modulus with `w = 1` (`d = 29`) or `w = 4` (`d = 8`) does not, with `w = 6` (`d = 5`) it does -/
example : acc32Fits 134215681 4 = true ∧ acc32Fits 536870657 29 = false ∧
    acc32Fits 536870657 8 = false ∧ acc32Fits 536870657 5 = true := by decide +kernel

/-- what the guard excludes (`path_eq` fails without its hypothesis): `q = 536870657 < 2^29`, digit width 1
    (`2·29 = 58` rows), every stored value `q − 1` and every transformed digit `2q+1` (a legal output
    of `NTTLazy`, whose range is `[0, 6q−2]`): the exact sum `58·(q−1)·(2q+1) ≈ 2^64.86` wraps, and the
    accumulator + `IMForm` returns `413437105` where the general path returns `y = 413437106`.  The previous
    guard, `q < 2^29` ("log(Q)·(Q−1)² < 2^64"), counted neither the two gadget ciphertexts nor the lazy range
    and let this through (probe `path_eq_32` on the unpatched code). -/
theorem path_eq_counterexample :
    let q := 536870657
    let mrc := 7241964951080861953
    let rs := List.replicate 58 (q - 1)
    let cs := List.replicate 58 (2 * q + 1)
    q / 2 ^ 29 = 0 ∧ q * mrc % W = 1 ∧ ¬ sum32 rs cs < W ∧
      (413437106 * W % q = sum32 rs cs % q ∧ 413437106 < q) ∧
      slot32 q mrc rs cs ≠ 413437106 ∧ acc32Fits q 29 = false := by
  decide +kernel

/-- `BaseTwoDecomposition = 0` on the 32-bit path (fix C20-3): the single digit is the whole coefficient
    (`q = 97`, the trivial encryption `(5 + 3X, 0)` times a noise-free RGSW encryption of `1` is the
    ciphertext itself; it was `(0, 0)` with the zero mask). -/
example :
    let p : Par := { qsQ := [97], qsP := [], n := 2, w := 0 }
    let one : RPoly := { qs := [97], c := [[1, 0]] }
    let zero : RPoly := RPoly.zero [97] 2
    let rg : Ct RPoly := encryptR p zero one [(zero, zero)] [(zero, zero)]
    let ct : RPoly × RPoly := ({ qs := [97], c := [[5, 3]] }, zero)
    fast32 p = true ∧ extProdR p ct rg = ct := by
  decide +kernel

/-! ## Blind rotation -/

open Lattigo.RGSW.BlindRot

/-- `blindrot_invariant` (exponents, the algorithm AS CODED).  For `N = 2^(k+1) ≥ 4`, every mask `a` (any
    naturals), every secret `s` and every `b`: the operations `BlindRotateCore` performs (`coreSchedule`:
    classes by discrete log of 5 and sign, window 10, the `v` of the negative loop carried into the
    positive one) map the exponents `(t, u) = (2N−5, (2N−5)·b)` of the initial accumulator `φ_{−5}(F·X^b)`
    to `t ≡ 1`, `u ≡ b + Σ_j eff(a_j)·s_j (mod 2N)`, where `eff(a_j)` is the value the table of
    `getGaloisElementInverseMap` assigns to the coefficient (`±5^{dlog a_j}`, `−1` for the class `2N`, `0` for a
    skipped zero coefficient); `blindrot_exponent_mask` identifies it with `a_j`. -/
theorem blindrot_exponent (k : Nat) (hk : 1 ≤ k) (a : List Nat) (sI : Nat → Int) (b : Nat) :
    let N := 2 ^ (k + 1)
    let r := runExp sI (coreSchedule N a) (initExp N b)
    ((r.1 : Int) : ZMod (2 * N)) = 1 ∧
    ((r.2 : Int) : ZMod (2 * N)) =
      (b : ZMod (2 * N)) +
        ((List.range a.length).map fun j => effZ N (a.getD j 0) * ((sI j : Int) : ZMod (2 * N))).sum :=
  runExp_coreSchedule k hk a sI b

/-- non-vacuity / test: `N = 16`, the schedule on a concrete mask (`decide`, a test) -/
example : slotExp 16 [5, 27, 1, 13] 3 [1, -1, 0, 1] = (1, 26) ∧ ((3 + 5 * 1 + 27 * (-1) + 1 * 0 + 13 * 1 : Int) % 32 = 26) := by
  decide +kernel

/-- every odd mask coefficient is treated as itself, zero as zero (`N = 2^(k+1) ≥ 4`): `±5^i`, `i < N/2`,
    exhaust the odd residues modulo `2N`, and `2N − 1 = −5^0` is filed under its own class (fix C20-5) -/
theorem eff_spec (k : Nat) (hk : 1 ≤ k) (x : Nat) (hx : x < 2 * 2 ^ (k + 1)) (h : x % 2 = 1 ∨ x = 0) :
    effZ (2 ^ (k + 1)) x = (x : ZMod (2 * 2 ^ (k + 1))) := by
  rcases h with h | h
  · exact effZ_odd k hk x hx h
  · subst h; simp [effZ_zero]

/-- `blindrot_exponent` at full strength: for every mask as `modSwitchRLWETo2NLvl(…, makeOdd)` produces it
    (entries `< 2N`, odd or zero) the final exponent is `b + ⟨a, s⟩ (mod 2N)` and the automorphism index is 1:
    the accumulator decrypts to `F·X^{b + ⟨a,s⟩}`. -/
theorem blindrot_exponent_mask (k : Nat) (hk : 1 ≤ k) (a : List Nat) (sI : Nat → Int) (b : Nat)
    (ha : ∀ j, j < a.length → a.getD j 0 < 2 * 2 ^ (k + 1) ∧ (a.getD j 0 % 2 = 1 ∨ a.getD j 0 = 0)) :
    let N := 2 ^ (k + 1)
    let r := runExp sI (coreSchedule N a) (initExp N b)
    ((r.1 : Int) : ZMod (2 * N)) = 1 ∧
    ((r.2 : Int) : ZMod (2 * N)) =
      (b : ZMod (2 * N)) +
        ((List.range a.length).map fun j => ((a.getD j 0 : Nat) : ZMod (2 * N)) * ((sI j : Int) : ZMod (2 * N))).sum := by
  intro N r
  have h := blindrot_exponent k hk a sI b
  refine ⟨h.1, ?_⟩
  rw [h.2]
  congr 2
  apply List.map_congr_left
  intro j hj
  have hj' := ha j (List.mem_range.mp hj)
  rw [eff_spec k hk _ hj'.1 hj'.2]

/-- non-vacuity / regression of the two fixed classes: `N = 16`, a mask coefficient `31 = −1` now rotates by
    `−s`, a zero coefficient by nothing (they rotated by `+s` before fix C20-5) -/
example : slotExp 16 [31] 3 [1] = (1, 2) ∧ slotExp 16 [0] 3 [1] = (1, 3) ∧
    dlog 16 31 = 32 ∧ eff 16 31 = -1 ∧ eff 1024 2047 = -1 ∧ eff 16 0 = 0 := by
  decide +kernel

/-- `blindrot_invariant` (phases).  In any commutative ring with monomials `X^u` (`u ∈ ZMod (2N)`) and
    automorphisms `φ_g`: if the accumulator decrypts to `φ_t(F)·X^u + n`, then after `BlindRotateCore` it decrypts to
    `φ_{t'}(F)·X^{u'} + n'`, `(t', u')` as in `blindrot_exponent` and `n'` the accumulated noise
    (`noiseRun`: every automorphism permutes the noise and adds its key-switching error, every external
    product rotates it and adds the term of `extprod_phase_div`).

    The hypotheses on `φ` are required on a multiplicatively closed set `U` of indices containing the Galois
    elements of the schedule and the initial `t` — in `Z_q[X]/(X^N+1)` the odd residues modulo `2N`.  (Required for
    ALL `g : ZMod m` they cannot hold in that ring, `C20Ring.blindrot_hyps_unsatisfiable`; the instance in that
    ring, on `RPoly` values, is `C20Ring.blindrot_invariant_rpoly`.) -/
theorem blindrot_invariant {m : Nat} {R γ : Type} [CommRing R]
    (mono : ZMod m → R) (φ : ZMod m → R → R) (ph : γ → R)
    (autOp : Nat → γ → γ) (mulOp : Nat → γ → γ) (s : Nat → ZMod m)
    (U : ZMod m → Prop) (hU : ∀ g t, U g → U t → U (g * t))
    (hmono : ∀ u v, mono (u + v) = mono u * mono v)
    (hφadd : ∀ g, U g → ∀ x y, φ g (x + y) = φ g x + φ g y)
    (hφmul : ∀ g, U g → ∀ x y, φ g (x * y) = φ g x * φ g y)
    (hφφ : ∀ g t, U g → U t → ∀ x, φ g (φ t x) = φ (g * t) x)
    (hφmono : ∀ g, U g → ∀ u, φ g (mono u) = mono (g * u))
    (F : R) (st : List Step) (hst : ∀ g, Step.aut g ∈ st → U (g : ZMod m)) (x : γ) (t u : ZMod m) (ht : U t)
    (n : R) (h : ph x = φ t F * mono u + n) :
    ph (runSteps autOp mulOp st x) =
      φ (runZ s st (t, u)).1 F * mono (runZ s st (t, u)).2 + noiseRun mono φ ph autOp mulOp s st x n :=
  blindrot_phase mono φ ph autOp mulOp s U hU hmono hφadd hφmul hφφ hφmono F st hst x t u ht n h

/-- non-vacuity, NON-TRIVIAL: the hypotheses hold in `Z_Q[X]/(X^8+1)`, `Q = 97·193` (the commutative ring
    `WFPoly [97, 193] 8` of well-formed `RPoly`s), with the true monomials `X^u` (`monoW`), the true Galois maps
    `X ↦ X^g` (`phiW` = `RPoly.aut g`) and `U` = "odd" (`GalOK 8`): `X^u·X^v = X^{u+v}`, `φ_g` is a ring
    endomorphism for odd `g`, `φ_g ∘ φ_t = φ_{gt}`, `φ_g(X^u) = X^{gu}`. -/
example :
    (∀ g t : ZMod (2 * 8), C20Ring.GalOK 8 g.val → C20Ring.GalOK 8 t.val → C20Ring.GalOK 8 (g * t).val)
    ∧ (∀ u v : ZMod (2 * 8), C20Ring.monoW (qs := [97, 193]) (u + v) = C20Ring.monoW u * C20Ring.monoW v)
    ∧ (∀ g : ZMod (2 * 8), C20Ring.GalOK 8 g.val → ∀ x y : RPolyRing.WFPoly [97, 193] 8,
        C20Ring.phiW g (x * y) = C20Ring.phiW g x * C20Ring.phiW g y)
    ∧ (∀ g t : ZMod (2 * 8), C20Ring.GalOK 8 g.val → C20Ring.GalOK 8 t.val → ∀ x : RPolyRing.WFPoly [97, 193] 8,
        C20Ring.phiW g (C20Ring.phiW t x) = C20Ring.phiW (g * t) x)
    ∧ (∀ g : ZMod (2 * 8), C20Ring.GalOK 8 g.val → ∀ u : ZMod (2 * 8),
        C20Ring.phiW (qs := [97, 193]) g (C20Ring.monoW u) = C20Ring.monoW (g * u))
    ∧ C20Ring.monoW (qs := [97, 193]) ((8 : ℕ) : ZMod (2 * 8)) = -1 :=
  ⟨fun _ _ hg ht => C20Ring.galOK_zmul hg ht, C20Ring.monoW_add,
   fun g hg x y => by rw [C20Ring.phiW_ok g hg, C20Ring.phiW_ok g hg, C20Ring.phiW_ok g hg, map_mul],
   fun g t hg ht x => C20Ring.phiW_phiW g t hg ht x, fun g hg u => C20Ring.phiW_mono g hg u,
   C20Ring.monoW_half⟩

/-- …and an instance of the theorem itself in that ring, on `RPoly` values, for a concrete schedule:
    `C20Ring.blindrot_invariant_rpoly` applied to `[aut 5, mul 0, aut 11, mul 1]` (see `Props/C20Ring.lean`). -/
example := @C20Ring.blindrot_invariant_rpoly

/-- `blindrot_lookup`: the constant coefficient of `F·X^e`, `F` the test polynomial of the table `y`, is `y e`
    for every exponent `e ∈ [−N/2, N/2)` (`N = 2h`). -/
theorem blindrot_lookup (h : Nat) (hh : 0 < h) (y : Int → Int) (e : Int)
    (h1 : -(h : Int) ≤ e) (h2 : e < h) :
    lookup (2 * h) (testPolyInts (2 * h) y) e = y e :=
  lookup_testPoly h hh y e h1 h2

example : lookup 8 (testPolyInts 8 fun k => 10 * k) (-3) = -30 := by decide

/-- the right end point of the documented closed interval `[a, b]` is NOT served: the exponent `N/2` returns
    `−y(−N/2)` (the negated value at the left end point); only odd tables get `y(N/2)` there. -/
theorem blindrot_lookup_endpoint (h : Nat) (hh : 0 < h) (y : Int → Int) :
    lookup (2 * h) (testPolyInts (2 * h) y) (h : Int) = -(y (-(h : Int))) :=
  lookup_endpoint h hh y

/-- `keys_exact` (inclusion): every operation of the schedule is served by the generated key set
    (`5^1 … 5^10`, `2N − 5`, one RGSW key per LWE secret coefficient), for every `N` and every mask. -/
theorem brk_keys_requested_subset (N : Nat) (a : List Nat) :
    ∀ st ∈ coreSchedule N a, stepOk N a.length st :=
  coreSchedule_ok N a

example : stepOk 16 4 (Step.aut (galEl 16 3)) := Or.inl ⟨3, by decide, by decide, rfl⟩

/-- `blindrot_exponent` for the masks of the MODEL'S `Evaluate`, no hypothesis on the sample: for every LWE sample
    (`c1` any coefficients, any modulus `Q` — the modulus switch is exact integer rounding, `big.Int` in the
    code, so no word-size / no-overflow condition enters), every list of requested slots and every mask
    `slotMasks` derives from it, the schedule ends at `t ≡ 1`, `u ≡ b + ⟨a, s⟩ (mod 2N)`. -/
theorem blindrot_exponent_model (k : Nat) (hk : 1 ≤ k) (Q : Nat) (c1 : List Nat) (idxs : List Nat)
    (sI : Nat → Int) (b : Nat) :
    let N := 2 ^ (k + 1)
    ∀ ia ∈ slotMasks N (prepMask Q N c1) idxs,
      let a := ia.2
      let r := runExp sI (coreSchedule N a) (initExp N b)
      ((r.1 : Int) : ZMod (2 * N)) = 1 ∧
      ((r.2 : Int) : ZMod (2 * N)) =
        (b : ZMod (2 * N)) +
          ((List.range a.length).map fun j => ((a.getD j 0 : Nat) : ZMod (2 * N)) * ((sI j : Int) : ZMod (2 * N))).sum := by
  intro N ia hia
  have hN : 0 < N := Nat.pow_pos (by norm_num)
  have hgood := goodMask_slotMasks N hN _ (goodMask_prepMask Q N hN c1) idxs ia hia
  exact blindrot_exponent_mask k hk ia.2 sI b (goodMask_getD (2 * N) ia.2 hgood)

/-- non-vacuity: a 61-bit LWE modulus with `N = 16` (`q·2N > 2^64`: a 64-bit `c·2N` would wrap), one slot -/
example : (slotMasks 16 (prepMask 2305843009213693921 16 [2305843009213693920, 5, 1152921504606846960]) [0, 2]).length = 2 ∧
    modSwitch 2305843009213693921 32 true 2305843009213693920 = 0 ∧
    modSwitch 2305843009213693921 32 false 1152921504606846960 = 16 ∧
    2305843009213693921 * 32 ≥ 2 ^ 64 := by
  decide +kernel

/-- the digit partition of the Q primes (`Par.group`): greedy — row `k` is in digit `k / (levelP+1)` (`k / 1`
    without `P`), in no other, and that digit is among the `BaseRNSDecompositionVectorSize` digits.  The gadget
    vector (`pgElt`), the decompositions and `Ct.addPlain` (`AddLazy(*Plaintext)`) all use this partition. -/
theorem rgsw_digit_partition (p : Par) (k : Nat) (hk : k < p.qsQ.length) :
    k ∈ p.group (k / p.gw) ∧ k / p.gw < p.rnsSize ∧ ∀ i, k ∈ p.group i → i = k / p.gw :=
  p.group_partition k hk

example : (Par.group { qsQ := [3, 5, 7, 11], qsP := [13, 17, 19], n := 2, w := 0 } 1 = [3]) := by decide

/-- `extprod_lazy_no_wrap`: the unreduced 64-bit accumulation of `externalProductInPlaceMultipleP` (`lazySlot`:
    `acc = t_0`, `acc += t_k`, a `Reduce` every `F` accumulations and at the end), per limb FAMILY: for a prime `p` of
    the family `fam` (the Q primes, or the P primes, of the level; each `≤ 2^61`), stored values and digits `< p`, and
    the family's own margin `F = lazyMargin fam = ⌊(2^64−1)/max fam⌋ >> 1` (`QiOverflowMargin>>1` resp.
    `PiOverflowMargin>>1`), the accumulator never wraps — `(p−1) + F·(p + ⌊p²/2^64⌋) < 2^64`, number of accumulations
    between two reductions × largest lazy term + one residue (`lazyMargin_ok`, `mredLazy_le`, `accSched_eq`) — and
    the slot is the exact sum of the products modulo `p`, for ANY number of RNS digits. -/
theorem extprod_lazy_no_wrap (p mrc : Nat) (fam : List Nat) (hp : 0 < p) (hmem : p ∈ fam)
    (hfam : ∀ q ∈ fam, 8 * q ≤ W) (rs cs : List Nat) (hr : ∀ r ∈ rs, r < p) (hc : ∀ c ∈ cs, c < p) :
    lazySlot p mrc (lazyMargin fam) rs cs =
      (List.zipWith (fun r c => Gen.MRedLazy r c p mrc) rs cs).sum % p :=
  lazySlot_eq p mrc fam hp hmem hfam rs cs hr hc

/-- non-vacuity, and what a MERGED schedule does: 16 accumulations (8 RNS digits × 2 gadget ciphertexts) of the
    legal lazy value `p` on a 61-bit P limb: with the P family's own margin (`4`) the result is `16p mod p = 0`; driven
    by the margin of a 36-bit Q family (`134217726`, no reduction before the end) the sum `16p ≈ 2^65` wraps and the
    limb holds garbage (seeded regression 1 of round 3; probe `extprod_decrypts`, tie `eplazy`). -/
example :
    let p := 2305843009213693921
    lazyMargin [2305843009213693921, 2305843009213693153] = 4 ∧ lazyMargin [68719476577, 68719477313] = 134217726 ∧
    accSched p (lazyMargin [2305843009213693921, 2305843009213693153]) (List.replicate 16 p) = 0 ∧
    accSched p (lazyMargin [68719476577, 68719477313]) (List.replicate 16 p) ≠ 0 ∧
    8 * p ≤ W := by
  decide +kernel

/-- `blindrot_lookup` at EVERY exponent (`N = 2h`, `r = e mod 2N`): both halves of `InitTestPolynomial`'s table and the
    negacyclic sign convention: `y r` for `r < N/2`, `−y(r − N)` for `N/2 ≤ r < 3N/2`, `y(r − 2N)` for `r ≥ 3N/2` — for all `N`,
    all tables `y`, all integers `e`. -/
theorem blindrot_lookup_all (h : Nat) (hh : 0 < h) (y : Int → Int) (e : Int) :
    let r := (e % ((2 * (2 * h) : Nat) : Int)).toNat
    lookup (2 * h) (testPolyInts (2 * h) y) e =
      if r < h then y r else if r < 3 * h then -(y ((r : Int) - (2 * h : Nat))) else y ((r : Int) - (4 * h : Nat)) :=
  lookup_all h hh y e

example : lookup 8 (testPolyInts 8 fun k => 10 * k + 1) 5 = -(10 * (5 - 8) + 1) ∧
    lookup 8 (testPolyInts 8 fun k => 10 * k + 1) (-7) = -(10 * 1 + 1) ∧
    lookup 8 (testPolyInts 8 fun k => 10 * k + 1) 13 = 10 * (-3) + 1 := by decide

/-- `testpoly_limbs_consistent`: what `InitTestPolynomial` stores in limb `q` of a coefficient (`scaleUpBits`: the float64
    pipeline `fl(fl(scale·|g|) + 0.5)` truncated, in exact arithmetic — the function the driver's `testpoly` handler
    evaluates) is, for EVERY modulus `q > 0`, the residue of ONE integer `X = scaleUpAbs` (of `−X` for a negative value): the
    limbs are CRT-consistent whatever the size of the primes and of the scale. -/
theorem testpoly_limbs_consistent (v s Q : Nat) (hQ : 0 < Q) :
    (isNegBits v = false → scaleUpBits v s Q = scaleUpAbs v s % Q) ∧
    (isNegBits v = true → (scaleUpBits v s Q + scaleUpAbs v s) % Q = 0 ∧ 0 < scaleUpBits v s Q ∧ scaleUpBits v s Q ≤ Q) :=
  scaleUpBits_residue v s Q hQ

/-- `testpoly_exact`: `X` is the EXACT `⌊scale·|value| + 1/2⌋` (rational arithmetic, `roundHalfUp`) whenever nothing is
    rounded on the way: the product of the two (odd) significands and the significand of the exact sum with `1/2` fit 53
    bits.  (Otherwise `X` is the IEEE-rounded `fl(fl(scale·|value|)+0.5)`: `scale` is a `float64` in the API.) -/
theorem testpoly_exact (v s : Nat)
    (h1 : (decodeMag s).1 * (decodeMag v).1 < 2 ^ 53)
    (h2 : (addHalfExact ((decodeMag s).1 * (decodeMag v).1, (decodeMag s).2 + (decodeMag v).2)).1 < 2 ^ 53) :
    scaleUpAbs v s = roundHalfUp ((decodeMag s).1 * (decodeMag v).1) ((decodeMag s).2 + (decodeMag v).2) :=
  scaleUpAbs_exact v s h1 h2

/-- `testpoly_exact` for LARGE scales: product significand below `2^53` and product exponent `k ≥ 1` (`scale·|value|` an even
    integer `m·2^k`: e.g. `|value| ∈ {1, 1/2, 3/4}` and any scale `≥ 2^54`, the regime `scale ≈ Q/4` of multi-limb `Q`):
    the stored integer is the product itself. -/
theorem testpoly_exact_big (v s k : Nat) (hk : 1 ≤ k)
    (h1 : (decodeMag s).1 * (decodeMag v).1 < 2 ^ 53) (he : (decodeMag s).2 + (decodeMag v).2 = (k : Int)) :
    scaleUpAbs v s = (decodeMag s).1 * (decodeMag v).1 * 2 ^ k :=
  scaleUpAbs_exact_big v s k hk h1 he

/-- non-vacuity (instances FROM the theorems): `scale = 10^15`, `value = −1`: `X = 10^15`, limb modulo a 55-bit prime `q`
    is `q − 10^15`; `scale = 5·2^100`, `value = −0.75`: `X = 15·2^98`; and `scale = 10^15`, `value = 0.5`: `X = 5·10^14`. -/
example : scaleUpAbs 13830554455654793216 4831355200913801216 = 10 ^ 15
    ∧ scaleUpBits 13830554455654793216 4831355200913801216 36028797018963841 = 36028797018963841 - 10 ^ 15
    ∧ scaleUpAbs 13828302655841107968 5067675480698650624 = 15 * 2 ^ 98
    ∧ scaleUpAbs 4602678819172646912 4831355200913801216 = 5 * 10 ^ 14 := by
  refine ⟨?_, ?_, ?_, ?_⟩
  · rw [testpoly_exact _ _ (by decide +kernel) (by decide +kernel)]; decide +kernel
  · decide +kernel
  · rw [testpoly_exact_big _ _ 98 (by norm_num) (by decide +kernel) (by decide +kernel)]; decide +kernel
  · rw [testpoly_exact _ _ (by decide +kernel) (by decide +kernel)]; decide +kernel

/-- **blindrot_end_to_end** (`Z_Q[X]/(X^N+1)` on `RPoly`, `N = 2^(k+1) ≥ 4`).  For every LWE sample, every slot list and
every mask `a` the model's `Evaluate` derives, `BlindRotateCore` maps an accumulator of phase `φ_{2N−5}(F)·X^{(2N−5)b} + n₀`
(`evalSlot`'s `(φ_{2N−5}(F·X^b), 0)`) to one of phase `F·X^{b + ⟨a,s⟩} + noise`, `noise = noiseRunG …` the accumulated
key-switching / external-product errors (`C20Noise.blindrot_noise_bound`: `≤ ‖n₀‖ + #aut·B_ks + #mul·B_ep` under
per-operation bounds `B_ks`, `B_ep`; `extprod_noise_closed` is such a `B_ep`).  `ph`, `autOp`, `mulOp` are arbitrary:
the statement is the algebra of the schedule, mask preparation and discrete-log table, composed. -/
theorem blindrot_end_to_end (k : ℕ) (hk : 1 ≤ k) {qs : List ℕ} [hgd : RPolyRing.Good qs (2 ^ (k + 1))] {γ : Type}
    (ph : γ → RPoly) (hph : ∀ x, Transport.WFq qs (2 ^ (k + 1)) (ph x)) (autOp mulOp : Nat → γ → γ) (sI : Nat → ℤ)
    (F : RPoly) (hF : Transport.WFq qs (2 ^ (k + 1)) F) (Q : ℕ) (c1 idxs : List ℕ) (b : ℕ) (x : γ)
    (n0 : RPoly) (hn0 : Transport.WFq qs (2 ^ (k + 1)) n0) :
    let N := 2 ^ (k + 1)
    let s : Nat → ZMod (2 * N) := fun j => ((sI j : ℤ) : ZMod (2 * N))
    let t0 : ZMod (2 * N) := ((2 * N - galoisGen : ℕ) : ZMod (2 * N))
    ph x = C20Ring.phiR N t0 F * C20Ring.monoR qs N (t0 * (b : ZMod (2 * N))) + n0 →
    ∀ ia ∈ slotMasks N (prepMask Q N c1) idxs,
      ph (runSteps autOp mulOp (coreSchedule N ia.2) x) =
        F * C20Ring.monoR qs N ((b : ZMod (2 * N)) +
              ((List.range ia.2.length).map fun j => ((ia.2.getD j 0 : ℕ) : ZMod (2 * N)) * s j).sum)
          + C20Ring.noiseRunG (C20Ring.monoR qs N) (C20Ring.phiR N) ph autOp mulOp s (coreSchedule N ia.2) x n0 :=
  Lattigo.RGSW.BlindRot.blindrot_end_to_end k hk ph hph autOp mulOp sI F hF Q c1 idxs b x n0 hn0

/-- non-vacuity (`N = 8`, `Q = 97·193`, the ideal operations `x ↦ x(X^g)`, `x ↦ x·X^{s_j}` on plain polynomials, an LWE
sample of modulus 257, `b = 3`, two slots): the hypothesis on the initial accumulator holds by construction, the theorem
gives the phase of the final accumulator for both masks. -/
example :
    let sI : Nat → ℤ := fun j => if j % 3 = 0 then 1 else if j % 3 = 1 then -1 else 0
    let s : Nat → ZMod (2 * 8) := fun j => ((sI j : ℤ) : ZMod (2 * 8))
    let x0 := C20Ring.phiR 8 ((11 : ℕ) : ZMod 16) C20Ring.F8 * C20Ring.monoR [97, 193] 8 (((11 : ℕ) : ZMod 16) * ((3 : ℕ) : ZMod 16))
    ∀ ia ∈ slotMasks 8 (prepMask 257 8 [5, 200, 77, 130]) [0, 2],
      C20Ring.phR (runSteps (fun g x => x.aut g) (fun j x => x.mulMonomial ((s j).val : ℤ)) (coreSchedule 8 ia.2) x0) =
        C20Ring.F8 * C20Ring.monoR [97, 193] 8 (((3 : ℕ) : ZMod 16) +
              ((List.range ia.2.length).map fun j => ((ia.2.getD j 0 : ℕ) : ZMod 16) * s j).sum)
          + C20Ring.noiseRunG (C20Ring.monoR [97, 193] 8) (C20Ring.phiR 8) C20Ring.phR (fun g x => x.aut g)
              (fun j x => x.mulMonomial ((s j).val : ℤ)) s (coreSchedule 8 ia.2) x0 (RPoly.zero [97, 193] 8) := by
  intro sI s x0
  have : RPolyRing.Good [97, 193] (2 ^ (2 + 1)) := C20Ring.good8br
  exact blindrot_end_to_end 2 (by norm_num) (qs := [97, 193]) (hgd := (C20Ring.good8br : RPolyRing.Good [97, 193] (2 ^ (2 + 1)))) C20Ring.phR C20Ring.phR_wf _ _ sI C20Ring.F8 (by decide) 257
    [5, 200, 77, 130] [0, 2] 3 x0 _ Transport.WFq.zero (by decide +kernel)

/-- **blindrot_evalSlot_phase**: `blindrot_end_to_end` for the MODEL'S OWN `Evaluate` (`evalSlot`, what the driver's `br_eval`
handler prints; `coreR`, what `br_core` prints): accumulator `(φ_{2N−5}(F·X^b), 0)`, operations `automorphismR p gks` and
`extProdR p · brk_j`, phase read under any well-formed `sQ`.  For all key material (valid or not: the errors are in
`noiseRunG`), all LWE samples, slot lists and masks: `phase(evalSlot …) = F·X^{b + ⟨a,s⟩} + noise`. -/
theorem blindrot_evalSlot_phase (k : ℕ) (hk : 1 ≤ k) {qs : List ℕ} [hgd : RPolyRing.Good qs (2 ^ (k + 1))] (p : Par)
    (hpQ : p.qsQ = qs) (hpn : p.n = 2 ^ (k + 1)) (gks : List (Nat × List (RPoly × RPoly))) (brk : List (Ct RPoly))
    (sQ : RPoly) (hsQ : Transport.WFq qs (2 ^ (k + 1)) sQ) (sI : Nat → ℤ) (F : RPoly)
    (hF : Transport.WFq qs (2 ^ (k + 1)) F) (Q : ℕ) (c1 idxs : List ℕ) (b : ℕ) :
    let N := 2 ^ (k + 1)
    let s : Nat → ZMod (2 * N) := fun j => ((sI j : ℤ) : ZMod (2 * N))
    let ph : RPoly × RPoly → RPoly := fun ct => wfz qs N (phase ct sQ)
    let acc0 : RPoly × RPoly := (RPoly.aut (RPoly.mulMonomial F (b : ℤ)) (2 * N - galoisGen), RPoly.zero qs N)
    ∀ ia ∈ slotMasks N (prepMask Q N c1) idxs,
      ph (evalSlot p gks brk F ia.2 b) =
        F * C20Ring.monoR qs N ((b : ZMod (2 * N)) +
              ((List.range ia.2.length).map fun j => ((ia.2.getD j 0 : ℕ) : ZMod (2 * N)) * s j).sum)
          + C20Ring.noiseRunG (C20Ring.monoR qs N) (C20Ring.phiR N) ph (automorphismR p gks)
              (fun j ct => extProdR p ct (brk.getD j default)) s (coreSchedule N ia.2) acc0 (RPoly.zero qs N) :=
  evalSlot_phase k hk p hpQ hpn gks brk sQ hsQ sI F hF Q c1 idxs b

/-- non-vacuity: `N = 8`, `Q = 97·193`, no auxiliary modulus, empty key material (every operation error lands in the
noise term), the sample of the previous example -/
example := blindrot_evalSlot_phase 2 (by norm_num) (qs := [97, 193])
  (hgd := (C20Ring.good8br : RPolyRing.Good [97, 193] (2 ^ (2 + 1)))) ⟨[97, 193], [], 8, 7⟩ rfl rfl [] []
  C20Ring.F8 (by decide) (fun j => if j % 2 = 0 then 1 else -1) C20Ring.F8 (by decide) 257 [5, 200, 77, 130] [0, 2] 3

/-! ## The closed noise bound of the external product -/

section closed
open Lattigo.RPolyRing Lattigo.Transport Lattigo.Props.C20Ring Lattigo.StackKS Lattigo.ZPoly Lattigo.RGSWNoise
open Lattigo.Scaling (prodN)
variable {qs ps : List ℕ} {n : ℕ} [hgq : Good qs n] [hg : Good (qs ++ ps) n]

/-- **extprod_noise_closed** ("decrypts to `m·g` with noise below the bound implied by the decomposition", with an
auxiliary modulus, every level, every digit decomposition of the model).  For `p = ⟨qs, ps, n, w⟩`, pairwise coprime
moduli, `P` odd, well-formed inputs, the secret `s = ofInts s^Z` (`‖s^Z‖₁ ≤ h`) and row errors `e_k = ofInts e^Z_k`
(`‖e^Z_k‖∞ ≤ B`): there is an INTEGER polynomial `ν^Z` with

    `phase(extProdR p ct (encryptR p s g smp0 smp1)) = g·phase(ct) + ofInts ν^Z`   in `R_Q`, and
    `2·P·‖ν^Z‖∞ ≤ 2·n·B·(ΣD + ΣD) + P·(1 + h)`,   `D = digitBoundsR p` (`2^w − 1` | `q_i − 1` | `⌊Q_i/2⌋ + 1` per digit).

No recombination, rounding, inverse, divisibility or IEEE hypothesis is left (`Proofs/RGSWNoise.lean`). -/
theorem extprod_noise_closed (hqs : qs ≠ []) (hps : ps ≠ []) (hco : (qs ++ ps).Pairwise Nat.Coprime)
    (hPodd : prodN ps % 2 = 1) (w : ℕ) (sZ : List ℤ) (g : RPoly) (smp0 smp1 : List (RPoly × RPoly))
    (eZ0 eZ1 : List (List ℤ)) (c0 c1 : RPoly) (B h : ℕ)
    (hsZ : sZ.length = n) (hgw : WFq (qs ++ ps) n g)
    (hw0 : WFplist (qs ++ ps) n smp0) (hw1 : WFplist (qs ++ ps) n smp1)
    (hc0w : WFq qs n c0) (hc1w : WFq qs n c1)
    (h0 : (pgList ⟨qs, ps, n, w⟩).length = smp0.length) (h1 : (pgList ⟨qs, ps, n, w⟩).length = smp1.length)
    (he0 : smp0.map Prod.snd = eZ0.map (RPoly.ofInts (qs ++ ps)))
    (he1 : smp1.map Prod.snd = eZ1.map (RPoly.ofInts (qs ++ ps)))
    (hel0 : ∀ e ∈ eZ0, e.length = n) (hel1 : ∀ e ∈ eZ1, e.length = n)
    (heB0 : ∀ e ∈ eZ0, normInf e ≤ B) (heB1 : ∀ e ∈ eZ1, normInf e ≤ B) (hsn : norm1 sZ ≤ h) :
    let p : Par := ⟨qs, ps, n, w⟩
    let s := RPoly.ofInts (qs ++ ps) sZ
    ∃ νZ : List ℤ, νZ.length = n
      ∧ phase (extProdR p (c0, c1) (encryptR p s g smp0 smp1)) (takeRows qs.length s)
          = takeRows qs.length g * phase (c0, c1) (takeRows qs.length s) + RPoly.ofInts qs νZ
      ∧ 2 * (prodN ps * normInf νZ)
          ≤ 2 * (n * B * ((digitBoundsR p).sum + (digitBoundsR p).sum)) + prodN ps * (1 + h) :=
  Lattigo.RGSWNoise.extprod_noise_closed hqs hps hco hPodd w sZ g smp0 smp1 eZ0 eZ1 c0 c1 B h hsZ hgw hw0 hw1 hc0w
    hc1w h0 h1 he0 he1 hel0 hel1 heB0 heB1 hsn

end closed

/-- the instance obtained FROM THE THEOREM (`Q = [97]`, `P = [193]`, `n = 8`, `w = 0`, the driver's gadget vector and
digits, errors of size `≤ 2`, ternary secret of weight 5): every hypothesis discharged by evaluation; the digit bound is
`q − 1 = 96` per component, so `2·193·‖ν‖∞ ≤ 2·(8·2·192) + 193·6`, i.e. `‖ν‖∞ ≤ 18`. -/
example : ∃ νZ : List ℤ, νZ.length = 8
    ∧ phase (extProdR C20Ring.p8 C20Ring.ct8 (encryptR C20Ring.p8 C20Ring.s8 C20Ring.g8 C20Ring.smp08 C20Ring.smp18))
          (Transport.takeRows 1 C20Ring.s8)
        = Transport.takeRows 1 C20Ring.g8 * phase C20Ring.ct8 (Transport.takeRows 1 C20Ring.s8) + RPoly.ofInts [97] νZ
    ∧ 2 * (193 * ZPoly.normInf νZ) ≤ 2 * (8 * 2 * (96 + 96)) + 193 * (1 + 5) :=
  extprod_noise_closed (qs := [97]) (ps := [193]) (n := 8) (by decide) (by decide) (by decide) (by decide) 0
    [1, -1, 0, 1, 0, 0, -1, 1] C20Ring.g8 C20Ring.smp08 C20Ring.smp18 [[1, 0, -1, 0, 2, 0, -2, 1]]
    [[0, 1, 0, -1, 0, 1, 0, -1]] C20Ring.ct8.1 C20Ring.ct8.2 2 5 (by decide) (by decide +kernel) (by decide +kernel)
    (by decide +kernel) (by decide +kernel) (by decide +kernel) (by decide) (by decide) (by decide) (by decide)
    (by decide) (by decide) (by decide) (by decide) (by decide)

end Lattigo.Props.C20

#print axioms Lattigo.Props.C20.rgsw_rows_phase
#print axioms Lattigo.Props.C20.extprod_phase
#print axioms Lattigo.Props.C20.extprod_phase_div
#print axioms Lattigo.Props.C20.extprod_phase_noP
#print axioms Lattigo.Props.C20.rgsw_add
#print axioms Lattigo.Props.C20.rgsw_mulXminus1
#print axioms Lattigo.Props.C20.rgsw_mulXminus1_add
#print axioms Lattigo.Props.C20.rgsw_addPlain
#print axioms Lattigo.Props.C20.path_eq
#print axioms Lattigo.Props.C20.path_eq_guarded
#print axioms Lattigo.Props.C20.path_eq_counterexample
#print axioms Lattigo.Props.C20.blindrot_exponent
#print axioms Lattigo.Props.C20.eff_spec
#print axioms Lattigo.Props.C20.blindrot_exponent_mask
#print axioms Lattigo.Props.C20.blindrot_invariant
#print axioms Lattigo.Props.C20.blindrot_lookup
#print axioms Lattigo.Props.C20.blindrot_lookup_endpoint
#print axioms Lattigo.Props.C20.brk_keys_requested_subset
#print axioms Lattigo.Props.C20.blindrot_exponent_model
#print axioms Lattigo.Props.C20.rgsw_digit_partition
#print axioms Lattigo.Props.C20.extprod_lazy_no_wrap
#print axioms Lattigo.Props.C20.extprod_noise_closed
#print axioms Lattigo.Props.C20.blindrot_lookup_all
#print axioms Lattigo.Props.C20.blindrot_end_to_end
#print axioms Lattigo.Props.C20.blindrot_evalSlot_phase
#print axioms Lattigo.Props.C20.testpoly_limbs_consistent
#print axioms Lattigo.Props.C20.testpoly_exact
#print axioms Lattigo.Props.C20.testpoly_exact_big
