import Lattigo.Proofs.ModRed
import Lattigo.Proofs.Butterfly
import Lattigo.Proofs.Kernels
/-!
  # C01 — word level and lane level

  Property-level theorems about the REGENERATED definitions `Lattigo.Gen.*` (printed by
  `tools/go2lean` from `/repo/ring/modular_reduction.go`, `ring/ntt.go` (butterflies) and
  `ring/vec_ops.go` on every run), i.e. about what the Go source says today.

  * `W = 2^64`; `MontConst q qinv := (q * qinv) % W = 1`; `brc q` = `GenBRedConstant q`
    (`Model/BRedConst.lean`; math/big, hand-modelled).
  * A hypothesis `v < W` says "`v` is a uint64"; the other hypotheses are the input ranges.
    Bounds on `q` are the ones the proofs force (recorded next to each theorem):
      - Montgomery (`MRed`, `MRedLazy`, `IMForm`): `q` odd (via `MontConst`), `2q ≤ 2^64`
        (`IMForm`: `q < 2^64`), product `x·y < q·2^64`;
      - Barrett (`BRed`, `BRedLazy`, `MForm`): `2 ≤ q`, `2q ≤ 2^64`, ALL uint64 inputs;
        `BRedAdd(Lazy)`: `2 ≤ q` only.  `2q ≤ 2^64` is necessary for `BRed` (`BRed_large_q_counterexample`);
      - butterflies: `6q ≤ 2^64`; non-reducing NTT step from `< 6q`: `8q ≤ 2^64` (`q < 2^61`).
  * Discrepancies between doc comments and code, each with a witness proved below:
      - `negvec` (`SubRing.Neg`): `0 ↦ q` (not reduced)                        — `negvec_zero`;
      - `MulCoeffsMontgomeryThenSubLazy` doc range `[0, 2q-2]`, true max `2q-1` — `thenSubLazy_max`;
      - `MulCoeffsMontgomeryLazyThenNeg` doc range `[0, 2q-2]`, true max `2q-1` — `lazyThenNeg_max`;
      - `MRedLazy`/`MulCoeffsMontgomeryLazy`/`MulScalarMontgomeryLazy` doc `[0, 2q-1]`: `0` is never
        produced (true range `[1, 2q-1]`), harmless;
      - `IMFormLazy` doc `[0, 2q-1]`: true range `[1, q]`, `0 ↦ q`, harmless.
-/
namespace Lattigo.C01Words
open Lattigo Lattigo.Gen

/-! ## Concrete moduli for the non-vacuity examples -/

/-- `2^16 + 1`. -/
abbrev qA : Nat := 65537
/-- `2^60 - 399`, a 60-bit prime `≡ 1 (mod 16)`. -/
abbrev qB : Nat := 1152921504606846577

theorem montA : MontConst qA (GenMRedConstant qA) := (GenMRedConstant_spec qA (by decide) (by decide)).1
theorem montB : MontConst qB (GenMRedConstant qB) := (GenMRedConstant_spec qB (by decide) (by decide)).1

/-! ## 1–7: words -/

theorem MRedLazy_spec (x y q qinv : Nat) (hq : 2 * q ≤ W) (hm : MontConst q qinv)
    (hxy : x * y < q * W) :
    (MRedLazy x y q qinv * W) % q = (x * y) % q
    ∧ MRedLazy x y q qinv < 2 * q ∧ 0 < MRedLazy x y q qinv :=
  Lattigo.MRedLazy_spec x y q qinv hq hm hxy
example := MRedLazy_spec (W - 1) (qB - 1) qB _ (by decide) montB (by decide)

theorem MRed_spec (x y q qinv : Nat) (hq : 2 * q ≤ W) (hm : MontConst q qinv)
    (hxy : x * y < q * W) :
    (MRed x y q qinv * W) % q = (x * y) % q ∧ MRed x y q qinv < q :=
  Lattigo.MRed_spec x y q qinv hq hm hxy
example := MRed_spec (W - 1) (qB - 1) qB _ (by decide) montB (by decide)

theorem CRed_spec (a q : Nat) (hq : 0 < q) (ha : a < 2 * q) (haW : a < W) : CRed a q = a % q :=
  Lattigo.CRed_spec a q hq ha haW
example := CRed_spec (2 * qB - 1) qB (by decide) (by decide) (by decide)

theorem BRedAdd_spec (a q : Nat) (hq : 1 < q) (ha : a < W) : BRedAdd a q (brc q) = a % q :=
  Lattigo.BRedAdd_spec a q hq ha
example := BRedAdd_spec (W - 1) qB (by decide) (by decide)
example := BRedAdd_spec (W - 1) 2 (by decide) (by decide)

theorem BRedAddLazy_spec (x q : Nat) (hq : 1 < q) (hx : x < W) :
    BRedAddLazy x q (brc q) % q = x % q ∧ BRedAddLazy x q (brc q) < 2 * q :=
  Lattigo.BRedAddLazy_spec x q hq hx
example := BRedAddLazy_spec (W - 1) qB (by decide) (by decide)

theorem BRed_spec (x y q : Nat) (hq : 1 < q) (h2q : 2 * q ≤ W) (hx : x < W) (hy : y < W) :
    BRed x y q (brc q) = (x * y) % q :=
  Lattigo.BRed_spec x y q hq h2q hx hy
example := BRed_spec (W - 1) (W - 1) qB (by decide) (by decide) (by decide) (by decide)
example := BRed_spec (W - 1) (W - 1) (2 ^ 63) (by decide) (by decide) (by decide) (by decide)

theorem BRedLazy_spec (x y q : Nat) (hq : 1 < q) (h2q : 2 * q ≤ W) (hx : x < W) (hy : y < W) :
    BRedLazy x y q (brc q) % q = (x * y) % q ∧ BRedLazy x y q (brc q) < 2 * q :=
  Lattigo.BRedLazy_spec x y q hq h2q hx hy
example := BRedLazy_spec (W - 1) (W - 1) qB (by decide) (by decide) (by decide) (by decide)

/-- `2q ≤ 2^64` cannot be dropped from `BRed_spec`: for `q = 3·2^62 + 1` the Go algorithm returns a
wrong residue (such a `q` is far outside what lattigo accepts; this only shows the hypothesis is
not an artefact of the proof). This is a test by evaluation, not a general statement. -/
theorem BRed_large_q_counterexample :
    BRed 18446736666302210877 18446740518153995979 (3 * 2 ^ 62 + 1) (brc (3 * 2 ^ 62 + 1))
      ≠ (18446736666302210877 * 18446740518153995979) % (3 * 2 ^ 62 + 1) := by decide

theorem MForm_spec (a q : Nat) (hq : 1 < q) (h2q : 2 * q ≤ W) (ha : a < W) :
    MForm a q (brc q) = (a * W) % q :=
  Lattigo.MForm_spec a q hq h2q ha
example := MForm_spec (W - 1) qB (by decide) (by decide) (by decide)

theorem MFormLazy_spec (a q : Nat) (hq : 1 < q) (h2q : 2 * q ≤ W) (ha : a < W) :
    MFormLazy a q (brc q) % q = (a * W) % q ∧ MFormLazy a q (brc q) < 2 * q :=
  Lattigo.MFormLazy_spec a q hq h2q ha
example := MFormLazy_spec (W - 1) qB (by decide) (by decide) (by decide)

theorem IMForm_spec (a q qinv : Nat) (hqW : q < W) (hm : MontConst q qinv) (ha : a < W) :
    (IMForm a q qinv * W) % q = a % q ∧ IMForm a q qinv < q :=
  Lattigo.IMForm_spec a q qinv hqW hm ha
example := IMForm_spec (W - 1) qB _ (by decide) montB (by decide)

theorem IMFormLazy_spec (a q qinv : Nat) (hqW : q < W) (hm : MontConst q qinv) (ha : a < W) :
    (IMFormLazy a q qinv * W) % q = a % q
    ∧ 0 < IMFormLazy a q qinv ∧ IMFormLazy a q qinv ≤ q :=
  Lattigo.IMFormLazy_spec a q qinv hqW hm ha
example := IMFormLazy_spec (W - 1) qB _ (by decide) montB (by decide)

theorem GenMRedConstant_spec (q : Nat) (hodd : q % 2 = 1) (hq : q < W) :
    MontConst q (GenMRedConstant q) ∧ GenMRedConstant q < W :=
  Lattigo.GenMRedConstant_spec q hodd hq
example := GenMRedConstant_spec (W - 1) (by decide) (by decide)
/-- test by evaluation: the constants for the two example moduli. -/
example : GenMRedConstant qA = 18446462603027742721 ∧ GenMRedConstant qB = 10682583464991261329 := by
  decide +kernel
/-- `GenBRedConstant q` (model `brc`) holds the two base-`2^64` digits of `⌊2^128/q⌋`, for `q ≥ 2`. -/
theorem brc_spec (q : Nat) (hq : 1 < q) :
    (brc q).1 * W + (brc q).2 = W * W / q ∧ (brc q).1 < W ∧ (brc q).2 < W ∧ (brc q).1 = W / q :=
  ⟨brc_combine q hq, (brc_lt q).1, (brc_lt q).2, brc_fst q hq⟩
example := brc_spec 2 (by decide)
/-- `GenBRedConstant 1` wraps to `[0, 0]` (`big.Int.Uint64` of `2^64`); hence `1 < q` above. -/
example : brc 1 = (0, 0) := by decide
/-- test by evaluation: `GenBRedConstant`. -/
example : brc qA = (281470681808895, 281470681808895) ∧ brc qB = (16, 102144) := by decide

/-! ## 8: butterflies -/

theorem bfly_noreduce_range (U V' q B : Nat) (hU : U < B) (hV : V' < 2 * q) (hB : B + 2 * q ≤ W) :
    u64add U V' = U + V'
    ∧ u64sub (u64add U (2 * q)) V' = U + 2 * q - V'
    ∧ U + V' + 2 ≤ B + 2 * q
    ∧ U + 2 * q - V' < B + 2 * q
    ∧ (0 < V' → U + 2 * q - V' + 2 ≤ B + 2 * q) :=
  Lattigo.bfly_noreduce_range U V' q B hU hV hB
example := bfly_noreduce_range (6 * qB - 1) (2 * qB - 1) qB (6 * qB) (by decide) (by decide) (by decide)
example := bfly_noreduce_q (qB - 1) (2 * qB - 1) qB (by decide) (by decide) (by decide)
example := bfly_noreduce_3q (3 * qB - 1) (2 * qB - 1) qB (by decide) (by decide) (by decide)
example := bfly_noreduce_6q (6 * qB - 1) (2 * qB - 1) qB (by decide) (by decide) (by decide)

theorem butterfly_spec (U V Psi q qinv : Nat) (h6 : 6 * q ≤ W) (hm : MontConst q qinv)
    (hPsi : Psi < q) (hV : V < W) (hUW : U < W) (hU : U < 8 * q) :
    (butterfly U V Psi (2 * q) (4 * q) q qinv).1 + 2 ≤ 6 * q
    ∧ (butterfly U V Psi (2 * q) (4 * q) q qinv).2 + 2 ≤ 6 * q
    ∧ ((butterfly U V Psi (2 * q) (4 * q) q qinv).1 * W) % q = (U * W + V * Psi) % q
    ∧ ((butterfly U V Psi (2 * q) (4 * q) q qinv).2 * W + V * Psi) % q = (U * W) % q :=
  Lattigo.butterfly_spec U V Psi q qinv h6 hm hPsi hV hUW hU
example := butterfly_spec (8 * qB - 1) (8 * qB - 1) (qB - 1) qB _ (by decide) montB (by decide)
  (by decide) (by decide) (by decide)

theorem invbutterfly_spec (U V Psi q qinv : Nat) (h6 : 6 * q ≤ W) (hm : MontConst q qinv)
    (hPsi : Psi < q) (hU : U < 2 * q) (hV : V < 2 * q) :
    (invbutterfly U V Psi (2 * q) (4 * q) q qinv).1 < 2 * q
    ∧ (invbutterfly U V Psi (2 * q) (4 * q) q qinv).1 % q = (U + V) % q
    ∧ (invbutterfly U V Psi (2 * q) (4 * q) q qinv).2 < 2 * q
    ∧ 0 < (invbutterfly U V Psi (2 * q) (4 * q) q qinv).2
    ∧ ((invbutterfly U V Psi (2 * q) (4 * q) q qinv).2 * W) % q = ((U + 4 * q - V) * Psi) % q :=
  Lattigo.invbutterfly_spec U V Psi q qinv h6 hm hPsi hU hV
example := invbutterfly_spec (2 * qB - 1) 0 (qB - 1) qB _ (by decide) montB (by decide)
  (by decide) (by decide)

/-- The bound on `q` is real: with the 62-bit prime `4611686018427387617` (`4q < 2^64 < 6q`,
cf. the C19 candidate about 62-bit primes) the reducing butterfly wraps: `U = 4q - 1 < 8q`,
`V = 2^64 - 1`, `Psi = q - 1` gives `X ≠ U + MRedLazy V Psi` as integers. Test by evaluation. -/
theorem butterfly_62bit_wraps :
    let q := 4611686018427387617
    let qinv := GenMRedConstant q
    (butterfly (4 * q - 1) (W - 1) (q - 1) (2 * q) (4 * q) q qinv).1
      ≠ (4 * q - 1) + MRedLazy (W - 1) (q - 1) q qinv := by decide +kernel

/-! ## 9: the 38 kernels, lane level

  `Gen.K_uniform` (generated, `rfl`) states that the 8 printed lanes of kernel `K` are
  `lanes8 (fun k => K_lane …)`; `K_lane_spec` (Proofs/Kernels.lean) is the per-lane statement.
  One non-vacuity instance per kernel, at boundary inputs. -/

example := addvec_lane_spec (qB - 1) (qB - 1) 0 qB (by decide) (by decide) (by decide)
example := addlazyvec_lane_spec (W - 1) 1 0
example := subvec_lane_spec 0 (qB - 1) 0 qB (by decide) (by decide) (by decide) (by decide)
example := sublazyvec_lane_spec 0 qB 0 qB (by decide) (by decide)
example := negvec_lane_spec (qB - 1) 0 qB (by decide) (by decide)
example := reducevec_lane_spec (W - 1) 0 qB (by decide) (by decide)
example := reducelazyvec_lane_spec (W - 1) 0 qB (by decide) (by decide)
example := mulcoeffslazyvec_lane_spec (W - 1) (W - 1) 0
example := mulcoeffslazythenaddlazyvec_lane_spec (W - 1) (W - 1) (W - 1)
example := mulcoeffsbarrettvec_lane_spec (W - 1) (W - 1) 0 qB (by decide) (by decide) (by decide) (by decide)
example := mulcoeffsbarrettlazyvec_lane_spec (W - 1) (W - 1) 0 qB (by decide) (by decide) (by decide)
  (by decide)
example := mulcoeffsthenaddvec_lane_spec (W - 1) (W - 1) (qB - 1) qB (by decide) (by decide) (by decide)
  (by decide) (by decide)
example := mulcoeffsbarrettthenaddlazyvec_lane_spec (W - 1) (W - 1) (W - qB) qB (by decide) (by decide)
  (by decide) (by decide) (by decide)
example := mulcoeffsmontgomeryvec_lane_spec (qB - 1) (W - 1) 0 qB _ (by decide) montB (by decide)
example := mulcoeffsmontgomerylazyvec_lane_spec (qB - 1) (W - 1) 0 qB _ (by decide) montB (by decide)
example := mulcoeffsmontgomerythenaddvec_lane_spec (qB - 1) (W - 1) (qB - 1) qB _ (by decide) montB
  (by decide) (by decide)
example := mulcoeffsmontgomerythenaddlazyvec_lane_spec (qB - 1) (W - 1) (W - qB) qB _ (by decide) montB
  (by decide) (by decide)
example := mulcoeffsmontgomerylazythenaddlazyvec_lane_spec (qB - 1) (W - 1) (W - 2 * qB) qB _ (by decide)
  montB (by decide) (by decide)
example := mulcoeffsmontgomerythensubvec_lane_spec (qB - 1) (W - 1) (qB - 1) qB _ (by decide) montB
  (by decide) (by decide)
example := mulcoeffsmontgomerythensublazyvec_lane_spec (qB - 1) (W - 1) (qB - 1) qB _ (by decide) montB
  (by decide) (by decide)
example := mulcoeffsmontgomerylazythensublazyvec_lane_spec (qB - 1) (W - 1) (qB - 1) qB _ (by decide)
  montB (by decide) (by decide)
example := mulcoeffsmontgomerylazythenNegvec_lane_spec (qB - 1) (W - 1) 0 qB _ (by decide) montB
  (by decide)
example := addlazythenmulscalarmontgomeryvec_lane_spec (2 * qB - 1) (2 * qB - 1) (qB - 1) 0 qB _
  (by decide) montB (by decide) (by decide)
example := addscalarlazythenmulscalarmontgomeryvec_lane_spec (2 * qB - 1) (qB - 1) (qB - 1) 0 qB _
  (by decide) montB (by decide) (by decide)
example := addscalarvec_lane_spec (qB - 1) (qB - 1) 0 qB (by decide) (by decide) (by decide)
example := addscalarlazyvec_lane_spec (W - 1) (W - 1) 0
example := addscalarlazythenNegTwoModuluslazyvec_lane_spec (2 * qB) 0 0 qB (by decide) (by decide)
example := subscalarvec_lane_spec 0 (qB - 1) 0 qB (by decide) (by decide) (by decide) (by decide)
example := mulscalarmontgomeryvec_lane_spec (W - 1) (qB - 1) 0 qB _ (by decide) montB (by decide)
example := mulscalarmontgomerylazyvec_lane_spec (W - 1) (qB - 1) 0 qB _ (by decide) montB (by decide)
example := mulscalarmontgomerythenaddvec_lane_spec (W - 1) (qB - 1) (qB - 1) qB _ (by decide) montB
  (by decide) (by decide)
example := mulscalarmontgomerythenaddscalarvec_lane_spec (W - 1) (qB - 1) (qB - 1) 0 qB _ (by decide)
  montB (by decide) (by decide)
example := subthenmulscalarmontgomeryTwoModulusvec_lane_spec (2 * qB - 1) 0 (qB - 1) 0 qB _ (by decide)
  montB (by decide) (by decide) (by decide)
example := mformvec_lane_spec (W - 1) 0 qB (by decide) (by decide) (by decide)
example := mformlazyvec_lane_spec (W - 1) 0 qB (by decide) (by decide) (by decide)
example := imformvec_lane_spec (W - 1) 0 qB _ (by decide) montB (by decide)
example := ZeroVec_lane_spec 7
example := MaskVec_lane_spec (W - 1) 60 4 0

/-! ## Discrepancies between documentation and code (witnesses) -/

/-- `SubRing.Neg` ("p2 = -p1 (mod modulus)"): `negvec` maps `0` to `q`, which is not a reduced
residue. (`ring/vec_ops.go:103`.) -/
theorem negvec_zero (z q : Nat) (hW : q < W) : negvec_lane 0 z q = q :=
  negvec_lane_zero z q hW

/-- `SubRing.MulCoeffsMontgomeryThenSubLazy` documents `p3 ∈ [0, 2q-2]`; for every modulus,
`p1 = 0`, `p3 = q - 1` gives `2q - 1`. (`ring/subring_ops.go:136`.) -/
theorem thenSubLazy_max (q qinv : Nat) (hq : 2 * q ≤ W) (hm : MontConst q qinv) :
    mulcoeffsmontgomerythensublazyvec_lane 0 0 (q - 1) q qinv = 2 * q - 1 := by
  have hq0 := hm.pos
  rw [mulcoeffsmontgomerythensublazyvec_lane_max (q - 1) q qinv hq hm (by omega)]
  omega
example : mulcoeffsmontgomerythensublazyvec_lane 0 0 (qB - 1) qB (GenMRedConstant qB) = 2 * qB - 1 :=
  thenSubLazy_max qB _ (by decide) montB

/-- `SubRing.MulCoeffsMontgomeryLazyThenNeg` documents `p3 ∈ [0, 2q-2]`; for every modulus,
`p1 = 1`, `p2 = 2^64 mod q` gives `2q - 1`. (`ring/subring_ops.go:150`.) -/
theorem lazyThenNeg_max (z q qinv : Nat) (hq : 2 * q ≤ W) (hm : MontConst q qinv) :
    mulcoeffsmontgomerylazythenNegvec_lane 1 (W % q) z q qinv = 2 * q - 1 :=
  mulcoeffsmontgomerylazythenNegvec_lane_max z q qinv hq hm
example : mulcoeffsmontgomerylazythenNegvec_lane 1 6384 0 qB (GenMRedConstant qB) = 2 * qB - 1 :=
  lazyThenNeg_max 0 qB _ (by decide) montB

/-- The lower end `1` of `MRedLazy`'s true range `[1, 2q-1]` is attained for every modulus. -/
theorem MRedLazy_min (q qinv : Nat) (hq : 2 * q ≤ W) (hm : MontConst q qinv) :
    MRedLazy 1 (W % q) q qinv = 1 := MRedLazy_one q qinv hq hm

/-- `IMFormLazy 0 = q`. -/
theorem IMFormLazy_zero (q qinv : Nat) (hqW : q < W) : IMFormLazy 0 q qinv = q :=
  Lattigo.IMFormLazy_zero q qinv hqW

/-! ## Axioms -/

#print axioms MRedLazy_spec
#print axioms MRed_spec
#print axioms CRed_spec
#print axioms BRedAdd_spec
#print axioms BRedAddLazy_spec
#print axioms BRed_spec
#print axioms BRedLazy_spec
#print axioms BRed_large_q_counterexample
#print axioms MForm_spec
#print axioms MFormLazy_spec
#print axioms IMForm_spec
#print axioms IMFormLazy_spec
#print axioms GenMRedConstant_spec
#print axioms brc_spec
#print axioms bfly_noreduce_range
#print axioms Lattigo.bfly_noreduce_q
#print axioms Lattigo.bfly_noreduce_3q
#print axioms Lattigo.bfly_noreduce_6q
#print axioms butterfly_spec
#print axioms invbutterfly_spec
#print axioms butterfly_62bit_wraps
#print axioms negvec_zero
#print axioms thenSubLazy_max
#print axioms lazyThenNeg_max
#print axioms MRedLazy_min
#print axioms IMFormLazy_zero
#print axioms addvec_lane_spec
#print axioms addlazyvec_lane_spec
#print axioms subvec_lane_spec
#print axioms sublazyvec_lane_spec
#print axioms negvec_lane_spec
#print axioms reducevec_lane_spec
#print axioms reducelazyvec_lane_spec
#print axioms mulcoeffslazyvec_lane_spec
#print axioms mulcoeffslazythenaddlazyvec_lane_spec
#print axioms mulcoeffsbarrettvec_lane_spec
#print axioms mulcoeffsbarrettlazyvec_lane_spec
#print axioms mulcoeffsthenaddvec_lane_spec
#print axioms mulcoeffsbarrettthenaddlazyvec_lane_spec
#print axioms mulcoeffsmontgomeryvec_lane_spec
#print axioms mulcoeffsmontgomerylazyvec_lane_spec
#print axioms mulcoeffsmontgomerythenaddvec_lane_spec
#print axioms mulcoeffsmontgomerythenaddlazyvec_lane_spec
#print axioms mulcoeffsmontgomerylazythenaddlazyvec_lane_spec
#print axioms mulcoeffsmontgomerythensubvec_lane_spec
#print axioms mulcoeffsmontgomerythensublazyvec_lane_spec
#print axioms mulcoeffsmontgomerylazythensublazyvec_lane_spec
#print axioms mulcoeffsmontgomerylazythenNegvec_lane_spec
#print axioms addlazythenmulscalarmontgomeryvec_lane_spec
#print axioms addscalarlazythenmulscalarmontgomeryvec_lane_spec
#print axioms addscalarvec_lane_spec
#print axioms addscalarlazyvec_lane_spec
#print axioms addscalarlazythenNegTwoModuluslazyvec_lane_spec
#print axioms subscalarvec_lane_spec
#print axioms mulscalarmontgomeryvec_lane_spec
#print axioms mulscalarmontgomerylazyvec_lane_spec
#print axioms mulscalarmontgomerythenaddvec_lane_spec
#print axioms mulscalarmontgomerythenaddscalarvec_lane_spec
#print axioms subthenmulscalarmontgomeryTwoModulusvec_lane_spec
#print axioms mformvec_lane_spec
#print axioms mformlazyvec_lane_spec
#print axioms imformvec_lane_spec
#print axioms ZeroVec_lane_spec
#print axioms MaskVec_lane_spec

end Lattigo.C01Words
