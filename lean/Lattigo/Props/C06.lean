import Lattigo.Proofs.CKKSMeta
import Lattigo.Proofs.CKKSDyadic
import Lattigo.Proofs.CKKSAlign
import Lattigo.Proofs.CKKSPhase
import Lattigo.Proofs.CKKSDefects
import Lattigo.Proofs.CKKSFixedPoint
import Lattigo.Proofs.CKKSError
import Lattigo.Proofs.CKKSMetaTable
import Mathlib.Analysis.Normed.Field.Lemmas
import Lattigo.Props.C06Ring
/-!
# C06 — CKKS evaluation: scale / level bookkeeping, phase semantics, error bounds  (property theorems)

The executable model is `Lattigo.CKKS.step` (`Model/CKKS.lean`): for every public `ckks.Evaluator` call the output
metadata (level, degree, scale as an exact dyadic with `big.Float`'s 128-bit rounding, `LogDimensions.Cols`) and the
integer effect on every component of the result.  `Driver/C06.lean` executes it; `harness/c06.go` ties both, bit for
bit, to `schemes/ckks/evaluator.go` (metadata + multipliers read back from transparent ciphertexts).

State of the clauses of the property text
* "scale and level recorded on every output are exactly those the operation documents" —
  PROVED for all inputs on the model: `meta_spec_*` (every operation incl. the vector, `…ThenAdd` and receiver forms),
  `meta_New_*` (the `…New` forms: the receiver matters only through its level), `rescale_scale_exact(_two)`,
  `scale_mul/div_correctly_rounded` (the rounding of `Scale.Mul/Div` is a correct rounding, relative error ≤ 2^-128),
  `const_scale_*`, `lcpr_one_or_two`, `mulThenAdd_scale_*` (the scale-matching decision table of `MulThenAdd`).
  Where the code deviates from the documented behaviour the model follows the code and the deviation is a theorem with
  a concrete witness (`*_counterexample`: known findings, not repaired) or, after the fixes `C06-1…6`, a positive
  statement (`*_fixed`).
* "decrypting and decoding gives the slot-wise result … with an error no larger than the bound implied by the scales,
  the rescaling roundings and the accumulated noise" —
  PROVED in exact arithmetic for every operation as an explicit bound (`error_bound_*`, § error bounds): the value a
  ciphertext decodes to in one slot is `σ(phase)/Δ` for a coordinate `σ` of the canonical embedding (any ring
  homomorphism into a normed field); the bounds are composed from the phase identities `phase_*` (every commutative
  ring; on RNS polynomials: `Props/C06Ring.lean`), the rounding remainder of `Rescale` (`rescale_remainder`: ≤ 1/2 per
  coefficient after division; `embedding_bound`: ≤ N/2 per slot), the constant rounding (`rnsConst_error`) and the
  alignment error (`add_alignment_error`).  The noise terms themselves (fresh encryption, key switching) enter as the
  hypotheses `ea`, `‖σ eks‖`: they are C03/C04's theorems, not re-derived here.  NOT modelled: reduction modulo `Q`
  (the bounds hold as long as the message fits, which the probes check), the float64/`big.Float` FFT of the encoder
  (C07), so "decode" is the exact embedding.  The end-to-end statement on the real code is the probe
  `program_precision` (+ `history`, `rescale-chain`, `addelt-degree-scale`), with a bound of the same shape.
* rotation / conjugation: metadata only (`meta_spec_rotate`); slot semantics and keys are C11.

Tied only (no general theorem): the driver op `params` (`encodingPrecision`, `levelsConsumed` from the default scale;
only `lcpr_one_or_two` is proved); the integer effects of `mtaelt/mtasc/mtavec/setscale/addsc` (characterised by the
decision theorems `mulThenAdd_scale_*` and by witnesses, not by a closed per-component formula as for `addElt`
(`add_alignment`), `mulScalar`, `scaleUp`).  Every other driver op has a `meta_spec_*` statement.
Probed only: input immutability (`inputs_unchanged`), output independence (`output_independent`), no panics.
-/
namespace Lattigo.Props.C06
open Lattigo.CKKS

/-! ## meta_spec: level / degree / scale of every operation -/

/-- Add/Sub (element operand): min level, the larger degree of the operands, **max** scale. -/
theorem meta_spec_add {P : Params} {sub : Bool} {a b o : Meta} {r : Res} (h : step P (.addElt sub a b o) = .ok r) :
    r.md.level = min (min a.level b.level) o.level ∧ r.md.degree = max a.degree b.degree ∧
    r.md.scale = a.scale.max b.scale ∧ r.md.logSlots = max a.logSlots b.logSlots := addElt_meta h
example : ∃ r, step toyP (.addElt false ⟨2, 1, dy 48 0, 4⟩ ⟨2, 1, dy 16 0, 4⟩ ⟨2, 1, dy 16 0, 4⟩) = .ok r :=
  ⟨_, add_int_ratio_witness⟩

/-- Add/Sub (vector operand): encoded at the operand's scale. -/
theorem meta_spec_addVec {P : Params} {a o : Meta} {len : Nat} {r : Res} (h : step P (.addVec a o len) = .ok r) :
    r.md = ⟨min a.level o.level, a.degree, a.scale, a.logSlots⟩ ∧ len ≤ 2 ^ a.logSlots := addVec_meta h
example : step toyP (.addVec ⟨2, 1, dy 16 0, 3⟩ ⟨2, 1, dy 16 0, 4⟩ 8) = .ok ⟨⟨2, 1, dy 16 0, 3⟩, []⟩ := by decide +kernel

/-- Add/Sub (scalar operand): min level, the operand's degree, scale and dimensions — whatever the
    receiver was allocated with (fix C06-1). -/
theorem meta_spec_addScalar {P : Params} {sub : Bool} {a o : Meta} {re im : SD} {r : Res}
    (h : step P (.addScalar sub a o re im) = .ok r) :
    r.md.level = min a.level o.level ∧ r.md.degree = a.degree ∧ r.md.scale = a.scale ∧
    r.md.logSlots = a.logSlots := addScalar_meta h
/-- former counterexample: a receiver allocated at the default scale now gets the operand's scale. -/
theorem addScalar_scale_fixed :
    step toyP (.addScalar false ⟨2, 1, dy 64 0, 4⟩ ⟨2, 1, dy 16 0, 4⟩ (sd 1 0) (sd 0 0))
      = .ok ⟨⟨2, 1, dy 64 0, 4⟩, [64, 0, 1, 1]⟩ := addScalar_fresh_receiver_witness

/-- Add/Sub (scalar operand), in place: metadata unchanged. -/
theorem meta_spec_addScalar_inplace {P : Params} {sub : Bool} {a : Meta} {re im : SD} {r : Res}
    (h : step P (.addScalar sub a a re im) = .ok r) : r.md = a := addScalar_inplace h
example : ∃ r, step toyP (.addScalar false ⟨2, 1, dy 16 0, 4⟩ ⟨2, 1, dy 16 0, 4⟩ (sd 1 0) (sd 0 0)) = .ok r :=
  ⟨_, rfl⟩

/-- Mul / MulRelin (element operand): product of the scales (rounded to 128 bits), degree 2 without and
    1 with relinearisation. -/
theorem meta_spec_mul {P : Params} {relin : Bool} {a b o : Meta} {r : Res} (h : step P (.mulElt relin a b o) = .ok r) :
    r.md.level = min (min a.level b.level) o.level ∧ r.md.scale = smul a.scale b.scale ∧
    r.md.logSlots = max a.logSlots b.logSlots ∧
    r.md.degree = (if a.degree = 1 ∧ b.degree = 1 then (if relin then 1 else 2) else max a.degree b.degree) ∧
    0 < a.degree + b.degree ∧ a.degree + b.degree ≤ 2 := mulElt_meta h
example : step toyP (.mulElt true ⟨2, 1, dy 16 0, 4⟩ ⟨1, 1, dy 4 0, 3⟩ ⟨2, 1, dy 16 0, 4⟩) = .ok ⟨⟨1, 1, dy 64 0, 4⟩, []⟩ := by
  decide +kernel

/-- Mul (scalar): scale times `1` for Gaussian integers, times the `lcpr` current primes otherwise; the
    constants are the fixed-point conversions at that factor. -/
theorem meta_spec_mulScalar {P : Params} {a o : Meta} {re im : SD} {r : Res} (h : step P (.mulScalar a o re im) = .ok r) :
    ∃ s, scalarScale P (min a.level o.level) re im = .ok s ∧
      r.md = ⟨min a.level o.level, a.degree, smul a.scale s, a.logSlots⟩ ∧
      r.eff = perComp a.degree (fun _ => [centerMod (consts P re im s).1 (P.bigQ (min a.level o.level)),
               centerMod (consts P re im s).2 (P.bigQ (min a.level o.level))]) := mulScalar_meta h
example : ∃ r, step toyP (.mulScalar ⟨2, 1, dy 16 0, 4⟩ ⟨2, 1, dy 16 0, 4⟩ (sd 1 (-1)) (sd (-1) (-2))) = .ok r :=
  ⟨_, mulScalar_witness.2⟩

/-- the RNS constant of a scalar operand (`bigComplexToRNSScalar`): `round(c·S)` up to the floating-point
    error of `max(prec,128)` bits. -/
theorem rnsConst_error (xprec : ℕ) (x : SD) (scale : Dy) (hx : 0 < x.mag.m) (hs : 0 < scale.m) :
    ∃ n : ℕ, rnsConst xprec x scale = (if x.neg then -(n : ℤ) else (n : ℤ)) ∧
      |(n : ℚ) - x.mag.val * scale.val|
        ≤ 1 / 2 + 3 * (2 : ℚ) ^ (-((Nat.max xprec scalePrec : ℕ) : ℤ)) * (x.mag.val * scale.val + 1) :=
  fixedPoint_error _ x scale (le_trans (by decide : 1 ≤ scalePrec) (Nat.le_max_right _ _)) hx hs
example : rnsConst 53 (sd (-1) (-2)) (dy 1019 0) = -255 := by decide +kernel

/-- constant scaling factor: one prime, resp. two primes (PREC128). -/
theorem const_scale_one {P : Params} {level : Nat} (h : P.lcpr = 1) :
    primeScale P level = .ok (Dy.ofNat (P.q level)) := primeScale_one h
theorem const_scale_two {P : Params} {level : Nat} (h : P.lcpr = 2) (hl : 1 ≤ level) :
    primeScale P level = .ok (smul (Dy.ofNat (P.q level)) (Dy.ofNat (P.q (level - 1)))) := primeScale_two h hl
theorem lcpr_one_or_two (d : Dy) : levelsConsumed d = 1 ∨ levelsConsumed d = 2 := levelsConsumed_one_or_two d

/-- Rescale: `lcpr` levels, the scale divided successively by the consumed primes. -/
theorem meta_spec_rescale {P : Params} {a : Meta} {r : Res} (h : step P (.rescale a) = .ok r) :
    P.lcpr ≤ a.level ∧ r.md.level = a.level - P.lcpr ∧ r.md.degree = a.degree ∧ r.md.logSlots = a.logSlots ∧
    r.md.scale = (List.range P.lcpr).foldl (fun s i => sdiv s (Dy.ofNat (P.q (a.level - i)))) a.scale :=
  rescale_meta h
example : ∃ r, step toyP (.rescale ⟨2, 1, dy (16 * 1019) 0, 4⟩) = .ok r := ⟨_, rescale_witness.1⟩
theorem rescale_err_iff {P : Params} {a : Meta} : (∃ e, step P (.rescale a) = .error e) ↔ a.level < P.lcpr :=
  Lattigo.CKKS.rescale_err_iff

/-- **rescale_scale_exact** (one prime): new level = old − 1, new scale = the correctly rounded (128-bit,
    nearest-even) quotient `old / q_level`: relative error ≤ 2^-128. -/
theorem rescale_scale_exact {P : Params} {a : Meta} {r : Res} (h1 : P.lcpr = 1) (h : step P (.rescale a) = .ok r)
    (ha : 0 < a.scale.m) (hq : 0 < (Dy.ofNat (P.q a.level)).m) :
    r.md.level + 1 = a.level ∧ r.md.scale = sdiv a.scale (Dy.ofNat (P.q a.level)) ∧
    |r.md.scale.val - a.scale.val / (Dy.ofNat (P.q a.level)).val|
      ≤ a.scale.val / (Dy.ofNat (P.q a.level)).val * (2 : ℚ) ^ (-(128 : ℤ)) := by
  obtain ⟨hl, hs⟩ := rescale_scale_one h1 h
  exact ⟨hl, hs, hs ▸ sdiv_spec _ _ ha hq⟩
example : (Dy.ofNat (toyP.q 2)).m = 1019 ∧ (Dy.ofNat (toyP.q 2)).val = 1019 := by
  constructor
  · decide +kernel
  · rw [Dy.ofNat, Dy.norm_val]; norm_num [toyP, Params.q]

/-- two primes per rescale: two successive correctly rounded divisions. -/
theorem rescale_scale_exact_two {P : Params} {a : Meta} {r : Res} (h2 : P.lcpr = 2) (h : step P (.rescale a) = .ok r) :
    r.md.level + 2 = a.level ∧
    r.md.scale = sdiv (sdiv a.scale (Dy.ofNat (P.q a.level))) (Dy.ofNat (P.q (a.level - 1))) :=
  rescale_scale_two h2 h
example : ∃ r, step toyP2 (.rescale ⟨2, 1, dy (16 * 1019 * 1013) 0, 4⟩) = .ok r := ⟨_, rescale_witness.2.1⟩

/-- the rounding used by `Scale.Mul` / `Scale.Div` is correct (half an ulp at 128 bits). -/
theorem scale_mul_correctly_rounded (a b : Dy) (ha : 0 < a.m) (hb : 0 < b.m) :
    |(smul a b).val - a.val * b.val| ≤ a.val * b.val * (2 : ℚ) ^ (-(128 : ℤ)) := smul_spec a b ha hb
theorem scale_div_correctly_rounded (a b : Dy) (ha : 0 < a.m) (hb : 0 < b.m) :
    |(sdiv a b).val - a.val / b.val| ≤ a.val / b.val * (2 : ℚ) ^ (-(128 : ℤ)) := sdiv_spec a b ha hb
example : (0 : ℕ) < (dy 3 5).m := by decide +kernel

theorem meta_spec_rescaleTo {P : Params} {a : Meta} {m : Dy} {r : Res} (h : step P (.rescaleTo a m) = .ok r) :
    r.md.level ≤ a.level ∧ r.md.degree = a.degree ∧ r.md.logSlots = a.logSlots ∧
    r.eff = [((a.level - r.md.level : Nat) : Int)] ∧ 0 < a.level := rescaleTo_meta h
example : step toyP (.rescaleTo ⟨2, 1, dy (16 * 1019) 0, 4⟩ (dy 16 0)) = .ok ⟨⟨1, 1, dy 16 0, 4⟩, [1]⟩ := by decide +kernel

/-- SetScale records the requested scale (see `setScale_counterexample` for what the content does). -/
theorem meta_spec_setScale {P : Params} {a : Meta} {t : Dy} {r : Res} (h : step P (.setScale a t) = .ok r) :
    r.md.scale = t := setScale_scale h
example : ∃ r, step toyP (.setScale ⟨2, 1, dy 16 0, 4⟩ (dy 20 0)) = .ok r := ⟨_, setScale_ok_witness⟩

theorem meta_spec_dropLevel {P : Params} {a : Meta} {n : Nat} {r : Res} (h : step P (.dropLevel a n) = .ok r) :
    n ≤ a.level ∧ r.md = { a with level := a.level - n } := dropLevel_meta h
example : ∃ r, step toyP (.dropLevel ⟨2, 1, dy 16 0, 4⟩ 1) = .ok r := ⟨_, rfl⟩

/-- Rotate / Conjugate: degree 1 only, metadata of the input at the common level; a missing Galois key
    is an error; conjugation is an error in the conjugate-invariant ring. -/
theorem meta_spec_rotate {P : Params} {k : Int} {a o : Meta} {r : Res} (h : step P (.rotate k a o) = .ok r) :
    a.degree = 1 ∧ o.degree = 1 ∧ r.md.scale = a.scale ∧ r.md.degree = 1 ∧ r.md.logSlots = a.logSlots ∧
    r.md.level = (if galoisElement P k = 1 then a.level else min a.level o.level) ∧
    (galoisElement P k ≠ 1 → P.galEls.contains (galoisElement P k) = true) := automorphism_meta h
example : step toyP (.rotate 1 ⟨2, 1, dy 16 0, 4⟩ ⟨1, 1, dy 16 0, 4⟩) = .ok ⟨⟨1, 1, dy 16 0, 4⟩, []⟩ := by decide +kernel
theorem conjugate_conjInv_err {P : Params} {a o : Meta} (h : P.conjInv = true) :
    step P (.conjugate a o) = .error .err := conjugate_ci h
theorem meta_spec_relinearize {P : Params} {a o : Meta} {r : Res} (h : step P (.relinearize a o) = .ok r) :
    a.degree = 2 ∧ P.hasRlk = true ∧ r.md = { a with level := min a.level o.level, degree := 1 } :=
  relinearize_meta h
example : ∃ r, step toyP (.relinearize ⟨2, 2, dy 16 0, 4⟩ ⟨2, 1, dy 16 0, 4⟩) = .ok r := ⟨_, rfl⟩

theorem meta_spec_mulThenAdd {P : Params} {relin : Bool} {al : Alias} {a b o : Meta} {r : Res}
    (h : step P (.mtaElt relin al a b o) = .ok r) :
    al = .fresh ∧ 0 < a.degree + b.degree ∧ a.degree + b.degree ≤ 2 ∧
    r.md.level = min (min a.level b.level) o.level ∧ r.md.logSlots = max a.logSlots b.logSlots ∧
    (r.md.scale = o.scale ∨ r.md.scale = smul a.scale b.scale) := mulThenAddElt_meta h
example : ∃ r, step toyP (.mtaElt true .fresh ⟨2, 1, dy 16 0, 4⟩ ⟨2, 1, dy 4 0, 4⟩ ⟨2, 1, dy 16 0, 4⟩) = .ok r :=
  ⟨_, mulThenAdd_int_ratio_witness⟩

/-- MulThenAdd (scalar): min level, the receiver keeps its higher-degree terms, the receiver is not the
    operand, `op0.Scale ≤ opOut.Scale` (fixes C06-2, C06-3). -/
theorem meta_spec_mulThenAddScalar {P : Params} {al : Alias} {a o : Meta} {re im : SD} {r : Res}
    (h : step P (.mtaScalar al a o re im) = .ok r) :
    al = .fresh ∧ r.md.level = min a.level o.level ∧ r.md.degree = max a.degree o.degree ∧
    r.md.logSlots = a.logSlots ∧ a.scale.cmp o.scale ≠ .gt := mulThenAddScalar_meta h
/-- former counterexamples (receiver level kept / degree cut / receiver = operand accepted). -/
theorem mulThenAddScalar_fixed :
    step toyP (.mtaScalar .fresh ⟨1, 1, dy 16 0, 4⟩ ⟨2, 2, dy 16 0, 4⟩ (sd 3 0) (sd 0 0))
      = .ok ⟨⟨1, 2, dy 16 0, 4⟩, [1, 3, 0, 1, 3, 0, 1, 0, 0]⟩ ∧
    step toyP (.mtaScalar .out0 ⟨2, 1, dy 16 0, 4⟩ ⟨2, 1, dy 16 0, 4⟩ (sd 1 (-1)) (sd 0 0)) = .error .err :=
  ⟨mulThenAddScalar_level_degree_witness, mulThenAddScalar_alias_witness⟩

/-! ## add_alignment -/

/-- **add_alignment** (every component): for unequal scales the code computes `k0·a ± k1·b` recorded at the
    larger scale, `(k0, k1) = alignMult` (`⌊Δ_big/Δ_small⌋` — 128-bit rounded quotient, truncated, rounded to
    the encoding precision by `ToComplex` — on the operand of the *smaller* scale, `1` on the other).
    Component `i` of the result is `k0·a_i ± k1·b_i` up to the smaller degree and the **scale-matched**
    operand of higher degree alone above it; the receiver's previous content does not survive.
    (The harness reads exactly these integers from all components of transparent ciphertexts.) -/
theorem add_alignment {P : Params} {sub : Bool} {a b o : Meta} {r : Res} (h : step P (.addElt sub a b o) = .ok r) :
    r.md.scale = a.scale.max b.scale ∧
    r.eff = perComp (max a.degree b.degree) (fun i =>
      if i ≤ min a.degree b.degree then
        [centerMod (alignMult P a b).1 (P.bigQ r.md.level), centerMod (sgn sub (alignMult P a b).2) (P.bigQ r.md.level), 0]
      else if b.degree < a.degree then [centerMod (alignMult P a b).1 (P.bigQ r.md.level), 0, 0]
      else [0, centerMod (sgn sub (alignMult P a b).2) (P.bigQ r.md.level), 0]) :=
  ⟨(addElt_meta h).2.2.1, addElt_eff h⟩
/-- operands of different degree and integer scale ratio 3: every component of the higher-degree operand
    is multiplied by 3, including the ones the other operand does not have. -/
theorem add_alignment_higher_degree :
    step toyP (.addElt false ⟨2, 2, dy 16 0, 4⟩ ⟨2, 1, dy 48 0, 4⟩ ⟨2, 2, dy 16 0, 4⟩)
      = .ok ⟨⟨2, 2, dy 48 0, 4⟩, [3, 1, 0, 3, 1, 0, 3, 0, 0]⟩ ∧
    step toyP (.addElt true ⟨2, 0, dy 48 0, 4⟩ ⟨2, 1, dy 16 0, 4⟩ ⟨2, 1, dy 16 0, 4⟩)
      = .ok ⟨⟨2, 1, dy 48 0, 4⟩, [1, -3, 0, 0, -3, 0]⟩ := add_higher_degree_scaled_witness

/-- decoded value of the aligned sum and the relative error `(ρ − k)/ρ`, `ρ = Δ_b/Δ_a`, `k = ⌊ρ⌋`:
    zero iff the ratio is an integer, otherwise in `(0, 1/(k+1))`. -/
theorem add_alignment_error (va vb Δa Δb : ℚ) (k : ℕ) (ha : 0 < Δa) (hb : 0 < Δb)
    (hk : (k : ℚ) ≤ Δb / Δa) (hk1 : Δb / Δa < k + 1) (h1 : 1 ≤ k) :
    ((k : ℚ) * (va * Δa) + vb * Δb) / Δb = (va + vb) - va * ((Δb / Δa - k) / (Δb / Δa)) ∧
    0 ≤ (Δb / Δa - k) / (Δb / Δa) ∧ (Δb / Δa - k) / (Δb / Δa) < 1 / ((k : ℚ) + 1) ∧
    ((Δb / Δa - k) / (Δb / Δa) = 0 ↔ Δb / Δa = k) :=
  ⟨add_alignment_decoded va vb Δa Δb k ha hb, align_rel_error _ k hk hk1 h1⟩
example : ((1 : ℕ) : ℚ) ≤ (24 : ℚ) / 16 ∧ (24 : ℚ) / 16 < (1 : ℕ) + 1 := by norm_num

/-- non-integer ratio `1.5`: the model (and the code) multiply by `1`; the sum `0.25 + 0.5` decodes to
    `2/3` instead of `3/4` (relative alignment error `1/3` on the first operand).  Not documented on
    `Add`; finding `C06/add-noninteger-scale-ratio`. -/
theorem add_alignment_counterexample :
    step toyP (.addElt false ⟨2, 1, dy 24 0, 4⟩ ⟨2, 1, dy 16 0, 4⟩ ⟨2, 1, dy 16 0, 4⟩) = .ok ⟨⟨2, 1, dy 24 0, 4⟩, [1, 1, 0, 1, 1, 0]⟩
    ∧ ((1 : ℚ) * ((1 / 2) * 24) + 1 * ((1 / 4) * 16)) / 24 = 2 / 3 := ⟨add_nonint_ratio_witness, by norm_num⟩

/-! ## defects of the bookkeeping (negations, with witnesses on the model) -/

/-- `SetScale` with a non-integer ratio ≥ 2 (and, symmetrically, < 2/q): recorded scale = target, but the
    content is multiplied by `round(ratio·q)` and **not** divided by `q`. -/
theorem setScale_counterexample :
    step toyP (.setScale ⟨2, 1, dy 16 0, 4⟩ (dy 40 0)) = .ok ⟨⟨2, 1, dy 40 0, 4⟩, [2548, 2548]⟩ ∧
    step toyP (.setScale ⟨2, 1, dy 1 14, 4⟩ (dy 16 0)) = .ok ⟨⟨0, 1, dy 16 0, 4⟩, [0, 0]⟩ :=
  ⟨setScale_ratio_ge2_witness, setScale_ratio_small_witness⟩

/-- `MulThenAdd`/`MulRelinThenAdd` scale-up of the receiver with a non-integer ratio. -/
theorem mulThenAdd_counterexample :
    step toyP (.mtaElt true .fresh ⟨2, 1, dy 16 0, 4⟩ ⟨2, 1, dy 4 0, 4⟩ ⟨2, 1, dy 10 0, 4⟩)
      = .ok ⟨⟨2, 1, dy 64 0, 4⟩, [6522, 6522]⟩ := mulThenAdd_nonint_ratio_witness

theorem scaleUp_counterexample :
    step toyP (.scaleUp ⟨2, 1, dy 16 0, 4⟩ ⟨2, 1, dy 16 0, 4⟩ (dy 5 (-1))) = .ok ⟨⟨2, 1, dy 40 0, 4⟩, [2, 2]⟩ :=
  scaleUp_truncation_witness

/-- the former panics are documented errors / regular results (fixes C06-5, C06-6). -/
theorem no_panics_fixed :
    step toyP2 (.mulScalar ⟨0, 1, dy 16 0, 4⟩ ⟨0, 1, dy 16 0, 4⟩ (sd 1 (-1)) (sd 0 0)) = .error .err ∧
    step toyP (.rescaleTo ⟨1, 1, dy 1 30, 4⟩ (dy 1 0)) = .ok ⟨⟨0, 1, sdiv (dy 1 30) (dy 1013 0), 4⟩, [1]⟩ :=
  ⟨mulScalar_prec128_level0_errors, rescaleTo_stops_at_level0_witness⟩
/-- `RescaleTo` is total on ciphertexts of level ≥ 1 with positive scales. -/
theorem rescaleTo_total {P : Params} {a : Meta} {m : Dy} (hm : m.m ≠ 0) (hs : a.scale.m ≠ 0) (hl : a.level ≠ 0) :
    ∃ r, step P (.rescaleTo a m) = .ok r := Lattigo.CKKS.rescaleTo_total hm hs hl
example : (dy 1 0).m ≠ 0 := by decide +kernel
/-- constant scaling at a level that is too low is an error. -/
theorem const_scale_low_level_is_error {P : Params} (h : P.lcpr = 2) : primeScale P 0 = .error .err :=
  primeScale_low_level h


/-! ## the rest of the metadata table: vector operands, `…New` forms, `MulThenAdd` scale matching -/

/-- Mul (vector): encoded at the `lcpr` current primes; level / degree / dimensions as for a scalar. -/
theorem meta_spec_mulVec {P : Params} {a o : Meta} {len : Nat} {r : Res} (h : step P (.mulVec a o len) = .ok r) :
    ∃ s, primeScale P (min a.level o.level) = .ok s ∧
      r.md = ⟨min a.level o.level, a.degree, smul a.scale s, a.logSlots⟩ ∧ len ≤ 2 ^ a.logSlots ∧ 0 < a.degree :=
  mulVec_meta h
example : step toyP (.mulVec ⟨2, 1, dy 16 0, 3⟩ ⟨2, 1, dy 16 0, 4⟩ 8) = .ok ⟨⟨2, 1, ⟨1019, 4⟩, 3⟩, []⟩ := by
  decide +kernel

/-- MulThenAdd (vector): fresh receiver, minimum level, `op0`'s dimensions, length check, `op0.Scale ≤ opOut.Scale`. -/
theorem meta_spec_mulThenAddVec {P : Params} {al : Alias} {a o : Meta} {len : Nat} {r : Res}
    (h : step P (.mtaVec al a o len) = .ok r) :
    al = .fresh ∧ r.md.level = min a.level o.level ∧ r.md.logSlots = a.logSlots ∧ len ≤ 2 ^ a.logSlots ∧
    a.scale.cmp o.scale ≠ .gt := mulThenAddVec_meta h
example : step toyP (.mtaVec .fresh ⟨2, 1, dy 16 0, 3⟩ ⟨2, 1, dy 16 0, 3⟩ 8)
    = .ok ⟨⟨2, 1, ⟨1019, 4⟩, 3⟩, [1019, 1019]⟩ := by decide +kernel

theorem meta_spec_conjugate {P : Params} {a o : Meta} {r : Res} (h : step P (.conjugate a o) = .ok r) :
    P.conjInv = false ∧ a.degree = 1 ∧ o.degree = 1 ∧ r.md.scale = a.scale ∧ r.md.degree = 1 ∧
    r.md.logSlots = a.logSlots ∧ r.md.level = (if P.nthRoot - 1 = 1 then a.level else min a.level o.level) :=
  conjugate_meta h
example : step { toyP with galEls := [5, 25, 63] } (.conjugate ⟨2, 1, dy 16 0, 4⟩ ⟨1, 1, dy 16 0, 4⟩)
    = .ok ⟨⟨1, 1, dy 16 0, 4⟩, []⟩ := by decide +kernel

theorem meta_spec_scaleUp {P : Params} {a o : Meta} {s : Dy} {r : Res} (h : step P (.scaleUp a o s) = .ok r) :
    r.md = ⟨min a.level o.level, a.degree, smul a.scale s, a.logSlots⟩ ∧
    r.eff = perComp a.degree (fun _ => [centerMod (bigIntConst P s.toU64) (P.bigQ (min a.level o.level))]) :=
  scaleUp_meta h

/-- the `…New` forms (`AddNew`, `SubNew`, `MulNew`, `MulRelinNew`, `ScaleUpNew`, `RotateNew`, `ConjugateNew`,
    `RelinearizeNew`): the receiver enters the result only through its level (automorphisms: and its degree), so a
    receiver allocated as `NewCiphertext(op0.Degree(), op0.Level())` at ANY scale / dimensions gives the table above
    with `o.level = a.level`. -/
theorem meta_New_add {P : Params} {sub : Bool} {a b o o' : Meta} (h : o.level = o'.level) :
    step P (.addElt sub a b o) = step P (.addElt sub a b o') := addElt_receiver h
theorem meta_New_addScalar {P : Params} {sub : Bool} {a o o' : Meta} {re im : SD} (h : o.level = o'.level) :
    step P (.addScalar sub a o re im) = step P (.addScalar sub a o' re im) := addScalar_receiver h
theorem meta_New_addVec {P : Params} {a o o' : Meta} {len : Nat} (h : o.level = o'.level) :
    step P (.addVec a o len) = step P (.addVec a o' len) := addVec_receiver h
theorem meta_New_mul {P : Params} {relin : Bool} {a b o o' : Meta} (h : o.level = o'.level) :
    step P (.mulElt relin a b o) = step P (.mulElt relin a b o') := mulElt_receiver h
theorem meta_New_mulScalar {P : Params} {a o o' : Meta} {re im : SD} (h : o.level = o'.level) :
    step P (.mulScalar a o re im) = step P (.mulScalar a o' re im) := mulScalar_receiver h
theorem meta_New_mulVec {P : Params} {a o o' : Meta} {len : Nat} (h : o.level = o'.level) :
    step P (.mulVec a o len) = step P (.mulVec a o' len) := mulVec_receiver h
theorem meta_New_scaleUp {P : Params} {a o o' : Meta} {s : Dy} (h : o.level = o'.level) :
    step P (.scaleUp a o s) = step P (.scaleUp a o' s) := scaleUp_receiver h
theorem meta_New_rotate {P : Params} {k : Int} {a o o' : Meta} (h : o.level = o'.level) (hd : o.degree = o'.degree) :
    step P (.rotate k a o) = step P (.rotate k a o') := automorphism_receiver h hd
theorem meta_New_relinearize {P : Params} {a o o' : Meta} (h : o.level = o'.level) :
    step P (.relinearize a o) = step P (.relinearize a o') := relinearize_receiver h
/-- `AddNew/SubNew`, `MulNew/MulRelinNew`: the lower of the operands' levels; `AddNew(ct, scalar)`: `op0`'s metadata. -/
theorem meta_New_levels {P : Params} {sub relin : Bool} {a b : Meta} {ds : Dy} {lm : Nat} :
    (∀ r, step P (.addElt sub a b (newRecv a ds lm)) = .ok r → r.md.level = min a.level b.level) ∧
    (∀ r, step P (.mulElt relin a b (newRecv a ds lm)) = .ok r → r.md.level = min a.level b.level) ∧
    (∀ re im r, step P (.addScalar sub a (newRecv a ds lm) re im) = .ok r → r.md = a) :=
  ⟨fun _ h => addNew_level h, fun _ h => mulNew_level h, fun _ _ _ h => addScalarNew_meta h⟩
example : step toyP (.addScalar false ⟨2, 1, dy 64 0, 3⟩ (newRecv ⟨2, 1, dy 64 0, 3⟩ (dy 16 0) 4) (sd 1 0) (sd 0 0))
    = .ok ⟨⟨2, 1, dy 64 0, 3⟩, [64, 0, 1, 1]⟩ := by decide +kernel

/-- **MulThenAdd scale matching** (element operands): the receiver is left alone if its scale is not below the
    product scale or if the ratio is below 2; otherwise it is multiplied by the RNS constant of the ratio and
    recorded at the product scale. -/
theorem mulThenAdd_scale_ge {P : Params} {level : Nat} {a b o : Meta}
    (h : o.scale.lt (smul a.scale b.scale) = false) : mtaEltScale P level a b o = .ok (1, o.scale) := mtaEltScale_ge h
theorem mulThenAdd_scale_lt2 {P : Params} {level : Nat} {a b o : Meta} (h : o.scale.lt (smul a.scale b.scale) = true)
    (h2 : (toF64 (sdiv (smul a.scale b.scale) o.scale)).cmp (Dy.ofNat 2) = .lt) :
    mtaEltScale P level a b o = .ok (1, o.scale) := mtaEltScale_lt2 h h2
theorem mulThenAdd_scale_up {P : Params} {level : Nat} {a b o : Meta} {s : Dy}
    (h : o.scale.lt (smul a.scale b.scale) = true)
    (h2 : (toF64 (sdiv (smul a.scale b.scale) o.scale)).cmp (Dy.ofNat 2) ≠ .lt)
    (hs : scalarScale P level ⟨false, sdiv (smul a.scale b.scale) o.scale⟩ ⟨false, Dy.zero⟩ = .ok s) :
    mtaEltScale P level a b o
      = .ok ((consts P ⟨false, sdiv (smul a.scale b.scale) o.scale⟩ ⟨false, Dy.zero⟩ s).1, smul a.scale b.scale) :=
  mtaEltScale_scaleUp h h2 hs
example : mtaEltScale toyP 2 ⟨2, 1, dy 16 0, 4⟩ ⟨2, 1, dy 4 0, 4⟩ ⟨2, 1, dy 16 0, 4⟩ = .ok (4, dy 64 0) := by decide +kernel
/-- scalar / vector operands: equal scales and a Gaussian integer ↦ factor 1; equal scales otherwise ↦ receiver and
    constant scaled by the current prime(s); `op0.Scale < opOut.Scale` ↦ constant at the quotient; `>` ↦ error. -/
theorem mulThenAdd_scalar_scale {P : Params} {level : Nat} {a o : Meta} :
    (a.scale.cmp o.scale = .eq → mtaScale P level true a o = .ok (Dy.one, 1, o.scale)) ∧
    (∀ s, a.scale.cmp o.scale = .eq → primeScale P level = .ok s →
      mtaScale P level false a o = .ok (s, bigIntConst P s.toNat, smul (smul o.scale Dy.one) s)) ∧
    (∀ isInt, a.scale.cmp o.scale = .lt → mtaScale P level isInt a o = .ok (sdiv o.scale a.scale, 1, o.scale)) ∧
    (∀ isInt, a.scale.cmp o.scale = .gt → mtaScale P level isInt a o = .error .err) :=
  ⟨mtaScale_eq_int, fun _ h hs => mtaScale_eq_nonint h hs, fun _ h => mtaScale_lt h, fun _ h => mtaScale_gt h⟩
/-- in the `<` case the product lands at `op0.Scale·S`, equal to the receiver's scale up to a relative `2^-128`. -/
theorem mulThenAdd_scalar_scale_match (a o : Dy) (ha : 0 < a.m) (ho : 0 < o.m) :
    |a.val * (sdiv o a).val - o.val| ≤ o.val * (2 : ℚ) ^ (-(128 : ℤ)) := mtaScale_lt_match a o ha ho
example : (0 : ℕ) < (dy 3 5).m ∧ (0 : ℕ) < (dy 7 9).m := by decide +kernel

/-! ## error bounds (exact arithmetic; `σ` one coordinate of the canonical embedding, `decode σ s Δ c = σ(phase s c)/Δ`) -/
section
variable {α : Type*} [CommRing α] {K : Type*} [NormedField K] {σ : α →+* K}

theorem error_bound_Add {s : α} {Δ : K} {a b : Ct α} {va vb : K} {ea eb : ℝ}
    (ha : ‖decode σ s Δ a - va‖ ≤ ea) (hb : ‖decode σ s Δ b - vb‖ ≤ eb) :
    ‖decode σ s Δ (Ct.lin 1 1 a b) - (va + vb)‖ ≤ ea + eb := error_bound_add ha hb
theorem error_bound_Sub {s : α} {Δ : K} {a b : Ct α} {va vb : K} {ea eb : ℝ}
    (ha : ‖decode σ s Δ a - va‖ ≤ ea) (hb : ‖decode σ s Δ b - vb‖ ≤ eb) :
    ‖decode σ s Δ (Ct.lin 1 (-1) a b) - (va - vb)‖ ≤ ea + eb := error_bound_sub ha hb
/-- unequal scales: `κ = k·Δa/Δb`; the last term is the alignment error, zero iff `k·Δa = Δb`. -/
theorem error_bound_AddAligned {s k : α} {Δa Δb : K} {a b : Ct α} {va vb : K} {ea eb : ℝ} (hΔa : Δa ≠ 0) (hΔb : Δb ≠ 0)
    (ha : ‖decode σ s Δa a - va‖ ≤ ea) (hb : ‖decode σ s Δb b - vb‖ ≤ eb) :
    ‖decode σ s Δb (Ct.lin k 1 a b) - (va + vb)‖
      ≤ ‖σ k * Δa / Δb‖ * ea + eb + ‖va‖ * ‖σ k * Δa / Δb - 1‖ := error_bound_add_aligned hΔa hΔb ha hb
theorem error_bound_Mul {s : α} {Δa Δb : K} {a b : Ct α} {va vb : K} {ea eb : ℝ} (h2a : a.c2 = 0) (h2b : b.c2 = 0)
    (ha : ‖decode σ s Δa a - va‖ ≤ ea) (hb : ‖decode σ s Δb b - vb‖ ≤ eb) :
    ‖decode σ s (Δa * Δb) (Ct.tensor a b) - va * vb‖ ≤ ‖va‖ * eb + ‖vb‖ * ea + ea * eb :=
  error_bound_mul h2a h2b ha hb
theorem error_bound_MulRelin {s k0 k1 : α} {Δa Δb : K} {a b : Ct α} {va vb : K} {ea eb : ℝ}
    (h2a : a.c2 = 0) (h2b : b.c2 = 0) (ha : ‖decode σ s Δa a - va‖ ≤ ea) (hb : ‖decode σ s Δb b - vb‖ ≤ eb) :
    ‖decode σ s (Δa * Δb) (Ct.relin k0 k1 (Ct.tensor a b)) - va * vb‖
      ≤ ‖va‖ * eb + ‖vb‖ * ea + ea * eb + ‖σ (k0 + k1 * s - a.c1 * b.c1 * s ^ 2)‖ / ‖Δa * Δb‖ :=
  error_bound_mulRelin h2a h2b ha hb
theorem error_bound_MulScalar {s c : α} {Δ S : K} {a : Ct α} {va cv : K} {ea η : ℝ}
    (ha : ‖decode σ s Δ a - va‖ ≤ ea) (hc : ‖σ c / S - cv‖ ≤ η) :
    ‖decode σ s (Δ * S) (Ct.smul c a) - cv * va‖ ≤ ‖cv‖ * ea + ‖va‖ * η + η * ea := error_bound_mulScalar ha hc
theorem error_bound_AddScalar {s c : α} {Δ : K} {a : Ct α} {va cv : K} {ea η : ℝ}
    (ha : ‖decode σ s Δ a - va‖ ≤ ea) (hc : ‖σ c / Δ - cv‖ ≤ η) :
    ‖decode σ s Δ (Ct.addConst c a) - (va + cv)‖ ≤ ea + η := error_bound_addScalar ha hc
/-- Rescale with the scale divided by `q` exactly; `‖σ(r0 + r1·s)‖ ≤ N·(q/2)·(1 + ‖σ s‖)` by `rescale_remainder`,
    `embedding_bound` and `rescale_remainder_bound`, i.e. at most `N(1+‖σ s‖)/2` units of the new phase. -/
theorem error_bound_Rescale {s q c0 c1 c0' c1' r0 r1 : α} {Δ : K} {v : K} {e : ℝ}
    (h0 : q * c0' = c0 - r0) (h1 : q * c1' = c1 - r1) (h : ‖decode σ s Δ ⟨c0, c1, 0⟩ - v‖ ≤ e) :
    ‖decode σ s (Δ / σ q) ⟨c0', c1', 0⟩ - v‖ ≤ e + ‖σ (r0 + r1 * s)‖ / ‖Δ‖ := error_bound_rescale h0 h1 h
theorem rescale_remainder_bound {s r0 r1 : α} {R : ℝ} (h0 : ‖σ r0‖ ≤ R) (h1 : ‖σ r1‖ ≤ R) :
    ‖σ (r0 + r1 * s)‖ ≤ R * (1 + ‖σ s‖) := rescale_remainder_embedded h0 h1
theorem embedding_bound (N : ℕ) (r : ℕ → K) (ζ : K) (B : ℝ) (hζ : ‖ζ‖ = 1) (hr : ∀ i < N, ‖r i‖ ≤ B) :
    ‖∑ i ∈ Finset.range N, r i * ζ ^ i‖ ≤ N * B := Lattigo.CKKS.embedding_bound N r ζ B hζ hr
/-- decoding with the recorded (128-bit rounded) scale `Δ'` instead of the exact one. -/
theorem error_bound_RecordedScale {s : α} {Δ Δ' : K} {c : Ct α} {v : K} {e : ℝ} (hΔ : Δ ≠ 0)
    (h : ‖decode σ s Δ c - v‖ ≤ e) :
    ‖decode σ s Δ' c - v‖ ≤ ‖Δ / Δ'‖ * e + ‖v‖ * ‖Δ / Δ' - 1‖ := error_bound_recorded_scale hΔ h
theorem error_bound_MulThenAdd {s kOut : α} {Δo Δa Δb : K} {o a b : Ct α} {vo va vb : K} {eo ea eb : ℝ}
    (h2a : a.c2 = 0) (h2b : b.c2 = 0) (hΔo : Δo ≠ 0)
    (ho : ‖decode σ s Δo o - vo‖ ≤ eo) (ha : ‖decode σ s Δa a - va‖ ≤ ea) (hb : ‖decode σ s Δb b - vb‖ ≤ eb) :
    ‖decode σ s (Δa * Δb) (Ct.lin kOut 1 o (Ct.tensor a b)) - (vo + va * vb)‖
      ≤ ‖σ kOut * Δo / (Δa * Δb)‖ * eo + ‖vo‖ * ‖σ kOut * Δo / (Δa * Δb) - 1‖
        + (‖va‖ * eb + ‖vb‖ * ea + ea * eb) := error_bound_mulThenAdd h2a h2b hΔo ho ha hb
theorem error_bound_MulThenAddScalar {s kOut c : α} {Δo Δ S : K} {o a : Ct α} {vo va cv : K} {eo ea η : ℝ}
    (hΔo : Δo ≠ 0) (hΔ : Δ ≠ 0)
    (ho : ‖decode σ s Δo o - vo‖ ≤ eo) (ha : ‖decode σ s Δ a - va‖ ≤ ea) (hc : ‖σ c / S - cv‖ ≤ η) :
    ‖decode σ s (Δ * S) (Ct.lin kOut c o a) - (vo + cv * va)‖
      ≤ ‖σ kOut * Δo / (Δ * S)‖ * eo + ‖vo‖ * ‖σ kOut * Δo / (Δ * S) - 1‖
        + (‖cv‖ * ea + ‖va‖ * η + η * ea) := error_bound_mulThenAddScalar hΔo hΔ ho ha hc
end
/-- the hypotheses are satisfiable (`α = ℤ`, `K = ℝ`, `σ` the cast, secret `s = 1`): `(3,5)` decodes to `2` at
    scale 4 exactly, `(7,-1)` to `3` at scale 2 within `0`; the product bound then gives `6` within `0`. -/
example : ‖decode (Int.castRingHom ℝ) (1 : ℤ) ((4 : ℝ) * 2) (Ct.tensor ⟨3, 5, 0⟩ ⟨7, -1, 0⟩) - 2 * 3‖
    ≤ ‖(2 : ℝ)‖ * 0 + ‖(3 : ℝ)‖ * 0 + 0 * 0 :=
  error_bound_Mul rfl rfl (by simp [decode, phase]; norm_num) (by simp [decode, phase]; norm_num)

/-! ## phase-level semantics (any commutative ring) -/
section
variable {α : Type*} [CommRing α]

theorem phase_Add (s : α) (a b : Ct α) : phase s (Ct.lin 1 1 a b) = phase s a + phase s b := phase_add s a b
theorem phase_Sub (s : α) (a b : Ct α) : phase s (Ct.lin 1 (-1) a b) = phase s a - phase s b := phase_sub s a b
theorem phase_AddAligned (s k0 k1 : α) (a b : Ct α) :
    phase s (Ct.lin k0 k1 a b) = k0 * phase s a + k1 * phase s b := phase_lin s k0 k1 a b
theorem phase_Mul (s : α) (a b : Ct α) (ha : a.c2 = 0) (hb : b.c2 = 0) :
    phase s (Ct.tensor a b) = phase s a * phase s b := phase_tensor s a b ha hb
theorem phase_MulRelin (s k0 k1 : α) (a b : Ct α) (ha : a.c2 = 0) (hb : b.c2 = 0) :
    phase s (Ct.relin k0 k1 (Ct.tensor a b)) = phase s a * phase s b + (k0 + k1 * s - a.c1 * b.c1 * s ^ 2) :=
  phase_mulRelin s k0 k1 a b ha hb
theorem phase_MulScalar (s c : α) (a : Ct α) : phase s (Ct.smul c a) = c * phase s a := phase_smul s c a
theorem phase_AddScalar (s c : α) (a : Ct α) : phase s (Ct.addConst c a) = phase s a + c := phase_addConst s c a
theorem phase_MulThenAdd (s kOut : α) (o a b : Ct α) (ha : a.c2 = 0) (hb : b.c2 = 0) :
    phase s (Ct.lin kOut 1 o (Ct.tensor a b)) = kOut * phase s o + phase s a * phase s b :=
  phase_mulThenAdd s kOut o a b ha hb
theorem phase_Rescale (s q c0 c1 c0' c1' r0 r1 : α) (h0 : q * c0' = c0 - r0) (h1 : q * c1' = c1 - r1) :
    q * phase s ⟨c0', c1', 0⟩ = phase s ⟨c0, c1, 0⟩ - (r0 + r1 * s) := phase_rescale s q c0 c1 c0' c1' r0 r1 h0 h1
end
example : phase (2 : ℤ) (Ct.tensor ⟨3, 5, 0⟩ ⟨7, 11, 0⟩) = (3 + 5 * 2) * (7 + 11 * 2) := by
  rw [phase_Mul _ _ _ rfl rfl]; simp [phase]

/-- `Rescale` on one integer coefficient: `x = q·round(x/q) + r`, `−⌊q/2⌋ ≤ r < q − ⌊q/2⌋`, `|2r| ≤ q`. -/
theorem rescale_remainder (x : Int) (q : Nat) (hq : 0 < q) :
    (∃ r : Int, x = (q : Int) * divRound x q + r ∧ -((q / 2 : Nat) : Int) ≤ r ∧ r < (q : Int) - ((q / 2 : Nat) : Int)) ∧
    |2 * (x - (q : Int) * divRound x q)| ≤ (q : Int) := ⟨divRound_spec x q hq, divRound_abs x q hq⟩
example : divRound 2548 1019 = 3 ∧ divRound (-509) 1019 = 0 ∧ divRound (-510) 1019 = -1 := by decide

end Lattigo.Props.C06

#print axioms Lattigo.Props.C06.meta_spec_add
#print axioms Lattigo.Props.C06.meta_spec_addVec
#print axioms Lattigo.Props.C06.meta_spec_addScalar_inplace
#print axioms Lattigo.Props.C06.meta_spec_mul
#print axioms Lattigo.Props.C06.meta_spec_mulScalar
#print axioms Lattigo.Props.C06.rnsConst_error
#print axioms Lattigo.Props.C06.const_scale_one
#print axioms Lattigo.Props.C06.const_scale_two
#print axioms Lattigo.Props.C06.lcpr_one_or_two
#print axioms Lattigo.Props.C06.meta_spec_rescale
#print axioms Lattigo.Props.C06.rescale_err_iff
#print axioms Lattigo.Props.C06.rescale_scale_exact
#print axioms Lattigo.Props.C06.rescale_scale_exact_two
#print axioms Lattigo.Props.C06.scale_mul_correctly_rounded
#print axioms Lattigo.Props.C06.scale_div_correctly_rounded
#print axioms Lattigo.Props.C06.meta_spec_rescaleTo
#print axioms Lattigo.Props.C06.meta_spec_setScale
#print axioms Lattigo.Props.C06.meta_spec_dropLevel
#print axioms Lattigo.Props.C06.meta_spec_rotate
#print axioms Lattigo.Props.C06.conjugate_conjInv_err
#print axioms Lattigo.Props.C06.meta_spec_relinearize
#print axioms Lattigo.Props.C06.meta_spec_mulThenAdd
#print axioms Lattigo.Props.C06.meta_spec_mulThenAddScalar
#print axioms Lattigo.Props.C06.add_alignment
#print axioms Lattigo.Props.C06.add_alignment_higher_degree
#print axioms Lattigo.Props.C06.add_alignment_error
#print axioms Lattigo.Props.C06.add_alignment_counterexample
#print axioms Lattigo.Props.C06.meta_spec_addScalar
#print axioms Lattigo.Props.C06.addScalar_scale_fixed
#print axioms Lattigo.Props.C06.setScale_counterexample
#print axioms Lattigo.Props.C06.mulThenAdd_counterexample
#print axioms Lattigo.Props.C06.mulThenAddScalar_fixed
#print axioms Lattigo.Props.C06.scaleUp_counterexample
#print axioms Lattigo.Props.C06.no_panics_fixed
#print axioms Lattigo.Props.C06.rescaleTo_total
#print axioms Lattigo.Props.C06.const_scale_low_level_is_error
#print axioms Lattigo.Props.C06.phase_Add
#print axioms Lattigo.Props.C06.phase_Sub
#print axioms Lattigo.Props.C06.phase_AddAligned
#print axioms Lattigo.Props.C06.phase_Mul
#print axioms Lattigo.Props.C06.phase_MulRelin
#print axioms Lattigo.Props.C06.phase_MulScalar
#print axioms Lattigo.Props.C06.phase_AddScalar
#print axioms Lattigo.Props.C06.phase_MulThenAdd
#print axioms Lattigo.Props.C06.phase_Rescale
#print axioms Lattigo.Props.C06.rescale_remainder
#print axioms Lattigo.Props.C06.meta_spec_mulVec
#print axioms Lattigo.Props.C06.meta_spec_scaleUp
#print axioms Lattigo.Props.C06.meta_New_add
#print axioms Lattigo.Props.C06.meta_New_addScalar
#print axioms Lattigo.Props.C06.meta_New_addVec
#print axioms Lattigo.Props.C06.meta_New_mul
#print axioms Lattigo.Props.C06.meta_New_mulScalar
#print axioms Lattigo.Props.C06.meta_New_mulVec
#print axioms Lattigo.Props.C06.meta_New_scaleUp
#print axioms Lattigo.Props.C06.meta_New_rotate
#print axioms Lattigo.Props.C06.meta_New_relinearize
#print axioms Lattigo.Props.C06.meta_New_levels
#print axioms Lattigo.Props.C06.mulThenAdd_scale_ge
#print axioms Lattigo.Props.C06.mulThenAdd_scale_lt2
#print axioms Lattigo.Props.C06.mulThenAdd_scale_up
#print axioms Lattigo.Props.C06.mulThenAdd_scalar_scale
#print axioms Lattigo.Props.C06.mulThenAdd_scalar_scale_match
#print axioms Lattigo.Props.C06.error_bound_Add
#print axioms Lattigo.Props.C06.error_bound_Sub
#print axioms Lattigo.Props.C06.error_bound_AddAligned
#print axioms Lattigo.Props.C06.error_bound_Mul
#print axioms Lattigo.Props.C06.error_bound_MulRelin
#print axioms Lattigo.Props.C06.error_bound_MulScalar
#print axioms Lattigo.Props.C06.error_bound_AddScalar
#print axioms Lattigo.Props.C06.error_bound_Rescale
#print axioms Lattigo.Props.C06.rescale_remainder_bound
#print axioms Lattigo.Props.C06.embedding_bound
#print axioms Lattigo.Props.C06.error_bound_RecordedScale
#print axioms Lattigo.Props.C06.error_bound_MulThenAdd
#print axioms Lattigo.Props.C06.error_bound_MulThenAddScalar
#print axioms Lattigo.Props.C06.meta_spec_mulThenAddVec
#print axioms Lattigo.Props.C06.meta_spec_conjugate
