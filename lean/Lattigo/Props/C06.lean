import Lattigo.Proofs.CKKSMeta
import Lattigo.Proofs.CKKSDyadic
import Lattigo.Proofs.CKKSAlign
import Lattigo.Proofs.CKKSPhase
import Lattigo.Proofs.CKKSDefects
import Lattigo.Proofs.CKKSFixedPoint
import Lattigo.Props.C06Ring
/-!
# C06 — CKKS evaluation: scale / level bookkeeping and phase semantics  (property theorems)

All statements are about `Lattigo.CKKS.step` and its components, the definitions the driver executes
(`Driver/C06.lean`) and the harness ties bit-exactly to `schemes/ckks/evaluator.go` (`harness/c06.go`:
metadata *and* the integer effect of each call, read back from transparent ciphertexts).

Scope.  The theorems live at the metadata / coefficient-phase level.  "Decoded value within the bound
implied by scales and noise" is a measured probe (`program_precision`), not a theorem: noise and the
floating-point FFT are not modelled.  The property's second sentence ("the scale and level recorded on
every output are exactly those the operation documents … so that decoding with the recorded scale is
correct") was FALSE of the code as written for several calls.  The defects with a small, safe repair are
fixed in the repository (`/verif/fixes/C06-*.diff`); the model follows the patched code and the former
counterexamples are now positive statements (`*_fixed`).  The remaining ones need an API / documentation
decision; they are recorded as known findings and keep their `*_counterexample` witnesses.
-/
namespace Lattigo.Props.C06
open Lattigo.CKKS

/-! ## meta_spec: level / degree / scale of every operation -/

/-- Add/Sub (element operand): min level, the larger degree of the operands, **max** scale. -/
theorem meta_spec_add {P : Params} {sub : Bool} {a b o : Meta} {r : Res} (h : step P (.addElt sub a b o) = .ok r) :
    r.md.level = min (min a.level b.level) o.level ∧ r.md.degree = max a.degree b.degree ∧
    r.md.scale = a.scale.max b.scale ∧ r.md.logSlots = max a.logSlots b.logSlots := addElt_meta h
example : ∃ r, step toyP (.addElt false ⟨2, 1, dy 48 0, 4⟩ ⟨2, 1, dy 16 0, 4⟩ ⟨2, 1, dy 16 0, 4⟩) = .ok r :=
  ⟨_, add_int_ratio_witness⟩

/-- Add/Sub (vector operand): encoded at the operand's scale. -/
theorem meta_spec_addVec {P : Params} {a o : Meta} {len : Nat} {r : Res} (h : step P (.addVec a o len) = .ok r) :
    r.md = ⟨min a.level o.level, a.degree, a.scale, a.logSlots⟩ ∧ len ≤ 2 ^ a.logSlots := addVec_meta h
example : step toyP (.addVec ⟨2, 1, dy 16 0, 3⟩ ⟨2, 1, dy 16 0, 4⟩ 8) = .ok ⟨⟨2, 1, dy 16 0, 3⟩, []⟩ := by decide +kernel

/-- Add/Sub (scalar operand): min level, the operand's degree, scale and dimensions — whatever the
    receiver was allocated with (fix C06-1). -/
theorem meta_spec_addScalar {P : Params} {sub : Bool} {a o : Meta} {re im : SD} {r : Res}
    (h : step P (.addScalar sub a o re im) = .ok r) :
    r.md.level = min a.level o.level ∧ r.md.degree = a.degree ∧ r.md.scale = a.scale ∧
    r.md.logSlots = a.logSlots := addScalar_meta h
/-- former counterexample: a receiver allocated at the default scale now gets the operand's scale. -/
theorem addScalar_scale_fixed :
    step toyP (.addScalar false ⟨2, 1, dy 64 0, 4⟩ ⟨2, 1, dy 16 0, 4⟩ (sd 1 0) (sd 0 0))
      = .ok ⟨⟨2, 1, dy 64 0, 4⟩, [64, 0, 1, 1]⟩ := addScalar_fresh_receiver_witness

/-- Add/Sub (scalar operand), in place: metadata unchanged. -/
theorem meta_spec_addScalar_inplace {P : Params} {sub : Bool} {a : Meta} {re im : SD} {r : Res}
    (h : step P (.addScalar sub a a re im) = .ok r) : r.md = a := addScalar_inplace h
example : ∃ r, step toyP (.addScalar false ⟨2, 1, dy 16 0, 4⟩ ⟨2, 1, dy 16 0, 4⟩ (sd 1 0) (sd 0 0)) = .ok r :=
  ⟨_, rfl⟩

/-- Mul / MulRelin (element operand): product of the scales (rounded to 128 bits), degree 2 without and
    1 with relinearisation. -/
theorem meta_spec_mul {P : Params} {relin : Bool} {a b o : Meta} {r : Res} (h : step P (.mulElt relin a b o) = .ok r) :
    r.md.level = min (min a.level b.level) o.level ∧ r.md.scale = smul a.scale b.scale ∧
    r.md.logSlots = max a.logSlots b.logSlots ∧
    r.md.degree = (if a.degree = 1 ∧ b.degree = 1 then (if relin then 1 else 2) else max a.degree b.degree) ∧
    0 < a.degree + b.degree ∧ a.degree + b.degree ≤ 2 := mulElt_meta h
example : step toyP (.mulElt true ⟨2, 1, dy 16 0, 4⟩ ⟨1, 1, dy 4 0, 3⟩ ⟨2, 1, dy 16 0, 4⟩) = .ok ⟨⟨1, 1, dy 64 0, 4⟩, []⟩ := by
  decide +kernel

/-- Mul (scalar): scale times `1` for Gaussian integers, times the `lcpr` current primes otherwise; the
    constants are the fixed-point conversions at that factor. -/
theorem meta_spec_mulScalar {P : Params} {a o : Meta} {re im : SD} {r : Res} (h : step P (.mulScalar a o re im) = .ok r) :
    ∃ s, scalarScale P (min a.level o.level) re im = .ok s ∧
      r.md = ⟨min a.level o.level, a.degree, smul a.scale s, a.logSlots⟩ ∧
      r.eff = perComp a.degree (fun _ => [centerMod (consts P re im s).1 (P.bigQ (min a.level o.level)),
               centerMod (consts P re im s).2 (P.bigQ (min a.level o.level))]) := mulScalar_meta h
example : ∃ r, step toyP (.mulScalar ⟨2, 1, dy 16 0, 4⟩ ⟨2, 1, dy 16 0, 4⟩ (sd 1 (-1)) (sd (-1) (-2))) = .ok r :=
  ⟨_, mulScalar_witness.2⟩

/-- the RNS constant of a scalar operand (`bigComplexToRNSScalar`): `round(c·S)` up to the floating-point
    error of `max(prec,128)` bits. -/
theorem rnsConst_error (xprec : ℕ) (x : SD) (scale : Dy) (hx : 0 < x.mag.m) (hs : 0 < scale.m) :
    ∃ n : ℕ, rnsConst xprec x scale = (if x.neg then -(n : ℤ) else (n : ℤ)) ∧
      |(n : ℚ) - x.mag.val * scale.val|
        ≤ 1 / 2 + 3 * (2 : ℚ) ^ (-((Nat.max xprec scalePrec : ℕ) : ℤ)) * (x.mag.val * scale.val + 1) :=
  fixedPoint_error _ x scale (le_trans (by decide : 1 ≤ scalePrec) (Nat.le_max_right _ _)) hx hs
example : rnsConst 53 (sd (-1) (-2)) (dy 1019 0) = -255 := by decide +kernel

/-- constant scaling factor: one prime, resp. two primes (PREC128). -/
theorem const_scale_one {P : Params} {level : Nat} (h : P.lcpr = 1) :
    primeScale P level = .ok (Dy.ofNat (P.q level)) := primeScale_one h
theorem const_scale_two {P : Params} {level : Nat} (h : P.lcpr = 2) (hl : 1 ≤ level) :
    primeScale P level = .ok (smul (Dy.ofNat (P.q level)) (Dy.ofNat (P.q (level - 1)))) := primeScale_two h hl
theorem lcpr_one_or_two (d : Dy) : levelsConsumed d = 1 ∨ levelsConsumed d = 2 := levelsConsumed_one_or_two d

/-- Rescale: `lcpr` levels, the scale divided successively by the consumed primes. -/
theorem meta_spec_rescale {P : Params} {a : Meta} {r : Res} (h : step P (.rescale a) = .ok r) :
    P.lcpr ≤ a.level ∧ r.md.level = a.level - P.lcpr ∧ r.md.degree = a.degree ∧ r.md.logSlots = a.logSlots ∧
    r.md.scale = (List.range P.lcpr).foldl (fun s i => sdiv s (Dy.ofNat (P.q (a.level - i)))) a.scale :=
  rescale_meta h
example : ∃ r, step toyP (.rescale ⟨2, 1, dy (16 * 1019) 0, 4⟩) = .ok r := ⟨_, rescale_witness.1⟩
theorem rescale_err_iff {P : Params} {a : Meta} : (∃ e, step P (.rescale a) = .error e) ↔ a.level < P.lcpr :=
  Lattigo.CKKS.rescale_err_iff

/-- **rescale_scale_exact** (one prime): new level = old − 1, new scale = the correctly rounded (128-bit,
    nearest-even) quotient `old / q_level`: relative error ≤ 2^-128. -/
theorem rescale_scale_exact {P : Params} {a : Meta} {r : Res} (h1 : P.lcpr = 1) (h : step P (.rescale a) = .ok r)
    (ha : 0 < a.scale.m) (hq : 0 < (Dy.ofNat (P.q a.level)).m) :
    r.md.level + 1 = a.level ∧ r.md.scale = sdiv a.scale (Dy.ofNat (P.q a.level)) ∧
    |r.md.scale.val - a.scale.val / (Dy.ofNat (P.q a.level)).val|
      ≤ a.scale.val / (Dy.ofNat (P.q a.level)).val * (2 : ℚ) ^ (-(128 : ℤ)) := by
  obtain ⟨hl, hs⟩ := rescale_scale_one h1 h
  exact ⟨hl, hs, hs ▸ sdiv_spec _ _ ha hq⟩
example : (Dy.ofNat (toyP.q 2)).m = 1019 ∧ (Dy.ofNat (toyP.q 2)).val = 1019 := by
  constructor
  · decide +kernel
  · rw [Dy.ofNat, Dy.norm_val]; norm_num [toyP, Params.q]

/-- two primes per rescale: two successive correctly rounded divisions. -/
theorem rescale_scale_exact_two {P : Params} {a : Meta} {r : Res} (h2 : P.lcpr = 2) (h : step P (.rescale a) = .ok r) :
    r.md.level + 2 = a.level ∧
    r.md.scale = sdiv (sdiv a.scale (Dy.ofNat (P.q a.level))) (Dy.ofNat (P.q (a.level - 1))) :=
  rescale_scale_two h2 h
example : ∃ r, step toyP2 (.rescale ⟨2, 1, dy (16 * 1019 * 1013) 0, 4⟩) = .ok r := ⟨_, rescale_witness.2.1⟩

/-- the rounding used by `Scale.Mul` / `Scale.Div` is correct (half an ulp at 128 bits). -/
theorem scale_mul_correctly_rounded (a b : Dy) (ha : 0 < a.m) (hb : 0 < b.m) :
    |(smul a b).val - a.val * b.val| ≤ a.val * b.val * (2 : ℚ) ^ (-(128 : ℤ)) := smul_spec a b ha hb
theorem scale_div_correctly_rounded (a b : Dy) (ha : 0 < a.m) (hb : 0 < b.m) :
    |(sdiv a b).val - a.val / b.val| ≤ a.val / b.val * (2 : ℚ) ^ (-(128 : ℤ)) := sdiv_spec a b ha hb
example : (0 : ℕ) < (dy 3 5).m := by decide +kernel

theorem meta_spec_rescaleTo {P : Params} {a : Meta} {m : Dy} {r : Res} (h : step P (.rescaleTo a m) = .ok r) :
    r.md.level ≤ a.level ∧ r.md.degree = a.degree ∧ r.md.logSlots = a.logSlots ∧
    r.eff = [((a.level - r.md.level : Nat) : Int)] ∧ 0 < a.level := rescaleTo_meta h
example : step toyP (.rescaleTo ⟨2, 1, dy (16 * 1019) 0, 4⟩ (dy 16 0)) = .ok ⟨⟨1, 1, dy 16 0, 4⟩, [1]⟩ := by decide +kernel

/-- SetScale records the requested scale (see `setScale_counterexample` for what the content does). -/
theorem meta_spec_setScale {P : Params} {a : Meta} {t : Dy} {r : Res} (h : step P (.setScale a t) = .ok r) :
    r.md.scale = t := setScale_scale h
example : ∃ r, step toyP (.setScale ⟨2, 1, dy 16 0, 4⟩ (dy 20 0)) = .ok r := ⟨_, setScale_ok_witness⟩

theorem meta_spec_dropLevel {P : Params} {a : Meta} {n : Nat} {r : Res} (h : step P (.dropLevel a n) = .ok r) :
    n ≤ a.level ∧ r.md = { a with level := a.level - n } := dropLevel_meta h
example : ∃ r, step toyP (.dropLevel ⟨2, 1, dy 16 0, 4⟩ 1) = .ok r := ⟨_, rfl⟩

/-- Rotate / Conjugate: degree 1 only, metadata of the input at the common level; a missing Galois key
    is an error; conjugation is an error in the conjugate-invariant ring. -/
theorem meta_spec_rotate {P : Params} {k : Int} {a o : Meta} {r : Res} (h : step P (.rotate k a o) = .ok r) :
    a.degree = 1 ∧ o.degree = 1 ∧ r.md.scale = a.scale ∧ r.md.degree = 1 ∧ r.md.logSlots = a.logSlots ∧
    r.md.level = (if galoisElement P k = 1 then a.level else min a.level o.level) ∧
    (galoisElement P k ≠ 1 → P.galEls.contains (galoisElement P k) = true) := automorphism_meta h
example : step toyP (.rotate 1 ⟨2, 1, dy 16 0, 4⟩ ⟨1, 1, dy 16 0, 4⟩) = .ok ⟨⟨1, 1, dy 16 0, 4⟩, []⟩ := by decide +kernel
theorem conjugate_conjInv_err {P : Params} {a o : Meta} (h : P.conjInv = true) :
    step P (.conjugate a o) = .error .err := conjugate_ci h
theorem meta_spec_relinearize {P : Params} {a o : Meta} {r : Res} (h : step P (.relinearize a o) = .ok r) :
    a.degree = 2 ∧ P.hasRlk = true ∧ r.md = { a with level := min a.level o.level, degree := 1 } :=
  relinearize_meta h
example : ∃ r, step toyP (.relinearize ⟨2, 2, dy 16 0, 4⟩ ⟨2, 1, dy 16 0, 4⟩) = .ok r := ⟨_, rfl⟩

theorem meta_spec_mulThenAdd {P : Params} {relin : Bool} {al : Alias} {a b o : Meta} {r : Res}
    (h : step P (.mtaElt relin al a b o) = .ok r) :
    al = .fresh ∧ 0 < a.degree + b.degree ∧ a.degree + b.degree ≤ 2 ∧
    r.md.level = min (min a.level b.level) o.level ∧ r.md.logSlots = max a.logSlots b.logSlots ∧
    (r.md.scale = o.scale ∨ r.md.scale = smul a.scale b.scale) := mulThenAddElt_meta h
example : ∃ r, step toyP (.mtaElt true .fresh ⟨2, 1, dy 16 0, 4⟩ ⟨2, 1, dy 4 0, 4⟩ ⟨2, 1, dy 16 0, 4⟩) = .ok r :=
  ⟨_, mulThenAdd_int_ratio_witness⟩

/-- MulThenAdd (scalar): min level, the receiver keeps its higher-degree terms, the receiver is not the
    operand, `op0.Scale ≤ opOut.Scale` (fixes C06-2, C06-3). -/
theorem meta_spec_mulThenAddScalar {P : Params} {al : Alias} {a o : Meta} {re im : SD} {r : Res}
    (h : step P (.mtaScalar al a o re im) = .ok r) :
    al = .fresh ∧ r.md.level = min a.level o.level ∧ r.md.degree = max a.degree o.degree ∧
    r.md.logSlots = a.logSlots ∧ a.scale.cmp o.scale ≠ .gt := mulThenAddScalar_meta h
/-- former counterexamples (receiver level kept / degree cut / receiver = operand accepted). -/
theorem mulThenAddScalar_fixed :
    step toyP (.mtaScalar .fresh ⟨1, 1, dy 16 0, 4⟩ ⟨2, 2, dy 16 0, 4⟩ (sd 3 0) (sd 0 0))
      = .ok ⟨⟨1, 2, dy 16 0, 4⟩, [1, 3, 0, 1, 3, 0, 1, 0, 0]⟩ ∧
    step toyP (.mtaScalar .out0 ⟨2, 1, dy 16 0, 4⟩ ⟨2, 1, dy 16 0, 4⟩ (sd 1 (-1)) (sd 0 0)) = .error .err :=
  ⟨mulThenAddScalar_level_degree_witness, mulThenAddScalar_alias_witness⟩

/-! ## add_alignment -/

/-- **add_alignment** (every component): for unequal scales the code computes `k0·a ± k1·b` recorded at the
    larger scale, `(k0, k1) = alignMult` (`⌊Δ_big/Δ_small⌋` — 128-bit rounded quotient, truncated, rounded to
    the encoding precision by `ToComplex` — on the operand of the *smaller* scale, `1` on the other).
    Component `i` of the result is `k0·a_i ± k1·b_i` up to the smaller degree and the **scale-matched**
    operand of higher degree alone above it; the receiver's previous content does not survive.
    (The harness reads exactly these integers from all components of transparent ciphertexts.) -/
theorem add_alignment {P : Params} {sub : Bool} {a b o : Meta} {r : Res} (h : step P (.addElt sub a b o) = .ok r) :
    r.md.scale = a.scale.max b.scale ∧
    r.eff = perComp (max a.degree b.degree) (fun i =>
      if i ≤ min a.degree b.degree then
        [centerMod (alignMult P a b).1 (P.bigQ r.md.level), centerMod (sgn sub (alignMult P a b).2) (P.bigQ r.md.level), 0]
      else if b.degree < a.degree then [centerMod (alignMult P a b).1 (P.bigQ r.md.level), 0, 0]
      else [0, centerMod (sgn sub (alignMult P a b).2) (P.bigQ r.md.level), 0]) :=
  ⟨(addElt_meta h).2.2.1, addElt_eff h⟩
/-- operands of different degree and integer scale ratio 3: every component of the higher-degree operand
    is multiplied by 3, including the ones the other operand does not have. -/
theorem add_alignment_higher_degree :
    step toyP (.addElt false ⟨2, 2, dy 16 0, 4⟩ ⟨2, 1, dy 48 0, 4⟩ ⟨2, 2, dy 16 0, 4⟩)
      = .ok ⟨⟨2, 2, dy 48 0, 4⟩, [3, 1, 0, 3, 1, 0, 3, 0, 0]⟩ ∧
    step toyP (.addElt true ⟨2, 0, dy 48 0, 4⟩ ⟨2, 1, dy 16 0, 4⟩ ⟨2, 1, dy 16 0, 4⟩)
      = .ok ⟨⟨2, 1, dy 48 0, 4⟩, [1, -3, 0, 0, -3, 0]⟩ := add_higher_degree_scaled_witness

/-- decoded value of the aligned sum and the relative error `(ρ − k)/ρ`, `ρ = Δ_b/Δ_a`, `k = ⌊ρ⌋`:
    zero iff the ratio is an integer, otherwise in `(0, 1/(k+1))`. -/
theorem add_alignment_error (va vb Δa Δb : ℚ) (k : ℕ) (ha : 0 < Δa) (hb : 0 < Δb)
    (hk : (k : ℚ) ≤ Δb / Δa) (hk1 : Δb / Δa < k + 1) (h1 : 1 ≤ k) :
    ((k : ℚ) * (va * Δa) + vb * Δb) / Δb = (va + vb) - va * ((Δb / Δa - k) / (Δb / Δa)) ∧
    0 ≤ (Δb / Δa - k) / (Δb / Δa) ∧ (Δb / Δa - k) / (Δb / Δa) < 1 / ((k : ℚ) + 1) ∧
    ((Δb / Δa - k) / (Δb / Δa) = 0 ↔ Δb / Δa = k) :=
  ⟨add_alignment_decoded va vb Δa Δb k ha hb, align_rel_error _ k hk hk1 h1⟩
example : ((1 : ℕ) : ℚ) ≤ (24 : ℚ) / 16 ∧ (24 : ℚ) / 16 < (1 : ℕ) + 1 := by norm_num

/-- non-integer ratio `1.5`: the model (and the code) multiply by `1`; the sum `0.25 + 0.5` decodes to
    `2/3` instead of `3/4` (relative alignment error `1/3` on the first operand).  Not documented on
    `Add`; finding `C06/add-noninteger-scale-ratio`. -/
theorem add_alignment_counterexample :
    step toyP (.addElt false ⟨2, 1, dy 24 0, 4⟩ ⟨2, 1, dy 16 0, 4⟩ ⟨2, 1, dy 16 0, 4⟩) = .ok ⟨⟨2, 1, dy 24 0, 4⟩, [1, 1, 0, 1, 1, 0]⟩
    ∧ ((1 : ℚ) * ((1 / 2) * 24) + 1 * ((1 / 4) * 16)) / 24 = 2 / 3 := ⟨add_nonint_ratio_witness, by norm_num⟩

/-! ## defects of the bookkeeping (negations, with witnesses on the model) -/

/-- `SetScale` with a non-integer ratio ≥ 2 (and, symmetrically, < 2/q): recorded scale = target, but the
    content is multiplied by `round(ratio·q)` and **not** divided by `q`. -/
theorem setScale_counterexample :
    step toyP (.setScale ⟨2, 1, dy 16 0, 4⟩ (dy 40 0)) = .ok ⟨⟨2, 1, dy 40 0, 4⟩, [2548, 2548]⟩ ∧
    step toyP (.setScale ⟨2, 1, dy 1 14, 4⟩ (dy 16 0)) = .ok ⟨⟨0, 1, dy 16 0, 4⟩, [0, 0]⟩ :=
  ⟨setScale_ratio_ge2_witness, setScale_ratio_small_witness⟩

/-- `MulThenAdd`/`MulRelinThenAdd` scale-up of the receiver with a non-integer ratio. -/
theorem mulThenAdd_counterexample :
    step toyP (.mtaElt true .fresh ⟨2, 1, dy 16 0, 4⟩ ⟨2, 1, dy 4 0, 4⟩ ⟨2, 1, dy 10 0, 4⟩)
      = .ok ⟨⟨2, 1, dy 64 0, 4⟩, [6522, 6522]⟩ := mulThenAdd_nonint_ratio_witness

theorem scaleUp_counterexample :
    step toyP (.scaleUp ⟨2, 1, dy 16 0, 4⟩ ⟨2, 1, dy 16 0, 4⟩ (dy 5 (-1))) = .ok ⟨⟨2, 1, dy 40 0, 4⟩, [2, 2]⟩ :=
  scaleUp_truncation_witness

/-- the former panics are documented errors / regular results (fixes C06-5, C06-6). -/
theorem no_panics_fixed :
    step toyP2 (.mulScalar ⟨0, 1, dy 16 0, 4⟩ ⟨0, 1, dy 16 0, 4⟩ (sd 1 (-1)) (sd 0 0)) = .error .err ∧
    step toyP (.rescaleTo ⟨1, 1, dy 1 30, 4⟩ (dy 1 0)) = .ok ⟨⟨0, 1, sdiv (dy 1 30) (dy 1013 0), 4⟩, [1]⟩ :=
  ⟨mulScalar_prec128_level0_errors, rescaleTo_stops_at_level0_witness⟩
/-- `RescaleTo` is total on ciphertexts of level ≥ 1 with positive scales. -/
theorem rescaleTo_total {P : Params} {a : Meta} {m : Dy} (hm : m.m ≠ 0) (hs : a.scale.m ≠ 0) (hl : a.level ≠ 0) :
    ∃ r, step P (.rescaleTo a m) = .ok r := Lattigo.CKKS.rescaleTo_total hm hs hl
example : (dy 1 0).m ≠ 0 := by decide +kernel
/-- constant scaling at a level that is too low is an error. -/
theorem const_scale_low_level_is_error {P : Params} (h : P.lcpr = 2) : primeScale P 0 = .error .err :=
  primeScale_low_level h

/-! ## phase-level semantics (any commutative ring) -/
section
variable {α : Type*} [CommRing α]

theorem phase_Add (s : α) (a b : Ct α) : phase s (Ct.lin 1 1 a b) = phase s a + phase s b := phase_add s a b
theorem phase_Sub (s : α) (a b : Ct α) : phase s (Ct.lin 1 (-1) a b) = phase s a - phase s b := phase_sub s a b
theorem phase_AddAligned (s k0 k1 : α) (a b : Ct α) :
    phase s (Ct.lin k0 k1 a b) = k0 * phase s a + k1 * phase s b := phase_lin s k0 k1 a b
theorem phase_Mul (s : α) (a b : Ct α) (ha : a.c2 = 0) (hb : b.c2 = 0) :
    phase s (Ct.tensor a b) = phase s a * phase s b := phase_tensor s a b ha hb
theorem phase_MulRelin (s k0 k1 : α) (a b : Ct α) (ha : a.c2 = 0) (hb : b.c2 = 0) :
    phase s (Ct.relin k0 k1 (Ct.tensor a b)) = phase s a * phase s b + (k0 + k1 * s - a.c1 * b.c1 * s ^ 2) :=
  phase_mulRelin s k0 k1 a b ha hb
theorem phase_MulScalar (s c : α) (a : Ct α) : phase s (Ct.smul c a) = c * phase s a := phase_smul s c a
theorem phase_AddScalar (s c : α) (a : Ct α) : phase s (Ct.addConst c a) = phase s a + c := phase_addConst s c a
theorem phase_MulThenAdd (s kOut : α) (o a b : Ct α) (ha : a.c2 = 0) (hb : b.c2 = 0) :
    phase s (Ct.lin kOut 1 o (Ct.tensor a b)) = kOut * phase s o + phase s a * phase s b :=
  phase_mulThenAdd s kOut o a b ha hb
theorem phase_Rescale (s q c0 c1 c0' c1' r0 r1 : α) (h0 : q * c0' = c0 - r0) (h1 : q * c1' = c1 - r1) :
    q * phase s ⟨c0', c1', 0⟩ = phase s ⟨c0, c1, 0⟩ - (r0 + r1 * s) := phase_rescale s q c0 c1 c0' c1' r0 r1 h0 h1
end
example : phase (2 : ℤ) (Ct.tensor ⟨3, 5, 0⟩ ⟨7, 11, 0⟩) = (3 + 5 * 2) * (7 + 11 * 2) := by
  rw [phase_Mul _ _ _ rfl rfl]; simp [phase]

/-- `Rescale` on one integer coefficient: `x = q·round(x/q) + r`, `−⌊q/2⌋ ≤ r < q − ⌊q/2⌋`, `|2r| ≤ q`. -/
theorem rescale_remainder (x : Int) (q : Nat) (hq : 0 < q) :
    (∃ r : Int, x = (q : Int) * divRound x q + r ∧ -((q / 2 : Nat) : Int) ≤ r ∧ r < (q : Int) - ((q / 2 : Nat) : Int)) ∧
    |2 * (x - (q : Int) * divRound x q)| ≤ (q : Int) := ⟨divRound_spec x q hq, divRound_abs x q hq⟩
example : divRound 2548 1019 = 3 ∧ divRound (-509) 1019 = 0 ∧ divRound (-510) 1019 = -1 := by decide

end Lattigo.Props.C06

#print axioms Lattigo.Props.C06.meta_spec_add
#print axioms Lattigo.Props.C06.meta_spec_addVec
#print axioms Lattigo.Props.C06.meta_spec_addScalar_inplace
#print axioms Lattigo.Props.C06.meta_spec_mul
#print axioms Lattigo.Props.C06.meta_spec_mulScalar
#print axioms Lattigo.Props.C06.rnsConst_error
#print axioms Lattigo.Props.C06.const_scale_one
#print axioms Lattigo.Props.C06.const_scale_two
#print axioms Lattigo.Props.C06.lcpr_one_or_two
#print axioms Lattigo.Props.C06.meta_spec_rescale
#print axioms Lattigo.Props.C06.rescale_err_iff
#print axioms Lattigo.Props.C06.rescale_scale_exact
#print axioms Lattigo.Props.C06.rescale_scale_exact_two
#print axioms Lattigo.Props.C06.scale_mul_correctly_rounded
#print axioms Lattigo.Props.C06.scale_div_correctly_rounded
#print axioms Lattigo.Props.C06.meta_spec_rescaleTo
#print axioms Lattigo.Props.C06.meta_spec_setScale
#print axioms Lattigo.Props.C06.meta_spec_dropLevel
#print axioms Lattigo.Props.C06.meta_spec_rotate
#print axioms Lattigo.Props.C06.conjugate_conjInv_err
#print axioms Lattigo.Props.C06.meta_spec_relinearize
#print axioms Lattigo.Props.C06.meta_spec_mulThenAdd
#print axioms Lattigo.Props.C06.meta_spec_mulThenAddScalar
#print axioms Lattigo.Props.C06.add_alignment
#print axioms Lattigo.Props.C06.add_alignment_higher_degree
#print axioms Lattigo.Props.C06.add_alignment_error
#print axioms Lattigo.Props.C06.add_alignment_counterexample
#print axioms Lattigo.Props.C06.meta_spec_addScalar
#print axioms Lattigo.Props.C06.addScalar_scale_fixed
#print axioms Lattigo.Props.C06.setScale_counterexample
#print axioms Lattigo.Props.C06.mulThenAdd_counterexample
#print axioms Lattigo.Props.C06.mulThenAddScalar_fixed
#print axioms Lattigo.Props.C06.scaleUp_counterexample
#print axioms Lattigo.Props.C06.no_panics_fixed
#print axioms Lattigo.Props.C06.rescaleTo_total
#print axioms Lattigo.Props.C06.const_scale_low_level_is_error
#print axioms Lattigo.Props.C06.phase_Add
#print axioms Lattigo.Props.C06.phase_Sub
#print axioms Lattigo.Props.C06.phase_AddAligned
#print axioms Lattigo.Props.C06.phase_Mul
#print axioms Lattigo.Props.C06.phase_MulRelin
#print axioms Lattigo.Props.C06.phase_MulScalar
#print axioms Lattigo.Props.C06.phase_AddScalar
#print axioms Lattigo.Props.C06.phase_MulThenAdd
#print axioms Lattigo.Props.C06.phase_Rescale
#print axioms Lattigo.Props.C06.rescale_remainder
