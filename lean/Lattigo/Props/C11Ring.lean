/-
  C11 on the ring the ciphertexts live in.

  `Props/C11.lean` proves the rotate-and-accumulate specifications (`innerSum_spec`, `innerFunction_spec`,
  `replicate_spec`, `innerSumCKKS_spec`, `innerSumBGV_spec`, `trace_spec_*`) for the generic algorithms of
  `Model/InnerSum.lean` over EVERY carrier `α` with `[AddCommMonoid α]` and operations `S : Ops α` that are
  `Lawful S (2^m)` (`aut` an action of the residues mod `2^m` by additive maps), and the slot statements
  (`rotate_slots`, `orderTwo_swaps_rows`, `automorphismNTT_spec`, …) over every commutative ring `R` of slot values.
  Here:

  §1  the Galois action of the model on `RPoly`: for well-formed `a` and admissible `g, h` (`GalOK n g`: odd and
      coprime to `n`; for `n = 2^K`: odd) `RPoly.aut g` is a ring endomorphism, `aut g ∘ aut h = aut (g·h mod 2n)`,
      `aut g` only depends on `g mod 2n`, `aut 1 = id`, `aut g ∘ aut g⁻¹ = id`, and the rotations compose
      additively: `aut (GaloisElement a) ∘ aut (GaloisElement b) = aut (GaloisElement (a+b))`;
  §2  the carrier `WFPoly qs (2^K)` with `aut g = RPoly.aut g` on admissible `g` (and `0` elsewhere, which the
      algorithms never use) IS `Lawful` (`wfOps_lawful`) — the hypothesis of the generic theorems is satisfiable in the
      ring the code works in — while NO `Ops` whose `aut` is the model's `RPoly.aut` for ALL `g` is lawful
      (`lawful_raw_aut_false`: the composition law fails for even `g`);
  §3  the `…_rpoly` theorems: the algorithms run with the MODEL's operations on plain `RPoly` values
      (`rpolyOps`: `+`, `RPoly.aut g` for every `g`, multiplication by the constant `c⁻¹`) return the documented sums
      of rotated inputs (`rpSum`), under well-formedness of the inputs only;
  §4  slots: every RNS row of `p.aut g` is the NTT-domain permutation `AutomorphismNTTIndex` of the row of `p`
      (`automorphismNTT_rpoly`), and in any `ζ` with `ζ^n = −1` modulo `q_i` the slot rows of `p.aut (GaloisElement k)`
      are those of `p` rotated by `k` (`rotate_slots_rpoly`), swapped by `2n − 1` (`orderTwo_swaps_rows_rpoly`);
  §5  vacuity of `orderTwo_conjugates`: its hypothesis on the abstract endomorphism `c` (`c ζ = ζ⁻¹`, coefficients
      fixed) is UNSATISFIABLE when the slot ring is a prime field `ZMod q`, `q > 2`
      (`orderTwo_conjugates_hyps_unsatisfiable_zmod`: the only endomorphism is the identity) — it is meant for `ℂ`
      (CKKS) — but it IS satisfiable in characteristic `≠ 2`: instance in `ZMod 17 × ZMod 17` with the swap
      (`orderTwo_conjugates_instance`); the statement is kept as it is;
  §6  a concrete instance (`qs = [97, 193]`, `n = 8`, `2n = 16`).

  NOT transported (reason):
  * `trace_spec_ci` and the conjugate-invariant half of `trace_rejected`/`keys_sufficient_trace`: the
    conjugate-invariant ring (`nthRoot = 4N`, `RQ` with `ci = true`) is not covered by `WFPoly` (gap stated in C01Ring).
  * `rotate_slots_ciphertext`, `automorphism_slots_ciphertext`: statements about slot VECTORS `(ZMod 2N)ˣ → R`
    (evaluation domain); their hypothesis `hks` is the conclusion of C04's `automorphism_phase`, whose
    `RPoly` form is `C04Ring.automorphism_phase_rpoly`.
  * `keys_sufficient_*`, `*_rejected`, `rotateHoisted_*`: hold for EVERY `S : Ops α` without hypothesis, in
    particular for `rpolyOps` (nothing to transport); `galEl_*`, `modInv_*`, `dlog_*`, `nttIndex_perm`,
    `orderTwo_spec`, `slotOps_*`, `*_slots`, `rotate_slots_bgv`, `rotate_decode` are statements about
    `Nat`/`Int`/`List` data.
  * no `…_calls` theorem: `Driver/C11.lean` runs the algorithms on slot vectors (`slotOps`, `List Int`) and on
    `Nat` tables, never on `RPoly`.
-/
import Lattigo.Proofs.RPolyTransport
import Lattigo.Proofs.SlotLawful
import Lattigo.Proofs.RotateSlots
import Lattigo.Proofs.InnerSumTrace
import Lattigo.Proofs.InnerSumSchemes
import Mathlib.Data.ZMod.Basic
import Mathlib.Tactic.NormNum.Prime

set_option linter.unusedSectionVars false
set_option linter.unusedSimpArgs false

namespace Lattigo.Props.C11Ring
open Lattigo Lattigo.Model.Galois Lattigo.Model.InnerSum Lattigo.Proofs.InnerSum
open Lattigo.Proofs.SlotLawful Lattigo.RPolyRing Lattigo.Transport

/-! ## 1. The Galois action on `RPoly` -/

/-- admissible Galois indices: odd and coprime to `n` (for `n` a power of two: odd) -/
def GalOK (n g : ℕ) : Prop := Odd g ∧ Nat.Coprime g n

instance (n g : ℕ) : Decidable (GalOK n g) := by unfold GalOK; infer_instance

theorem galOK_one (n : ℕ) : GalOK n 1 := ⟨odd_one, Nat.coprime_one_left n⟩

theorem galOK_mod {n : ℕ} (g : ℕ) : GalOK n (g % (2 * n)) ↔ GalOK n g := by
  unfold GalOK
  have h1 : Odd (g % (2 * n)) ↔ Odd g := by
    rw [Nat.odd_iff, Nat.odd_iff, Nat.mod_mod_of_dvd g (dvd_mul_right 2 n)]
  have h2 : Nat.Coprime (g % (2 * n)) n ↔ Nat.Coprime g n := by
    have e : ∀ a : ℕ, Nat.gcd a n = Nat.gcd (a % n) n := fun a => by
      rw [Nat.gcd_comm a n, Nat.gcd_rec n a]
    unfold Nat.Coprime
    rw [e (g % (2 * n)), e g, Nat.mod_mod_of_dvd g (dvd_mul_left n 2)]
  rw [h1, h2]

theorem galOK_mul {n a b : ℕ} (ha : GalOK n a) (hb : GalOK n b) : GalOK n (a * b) :=
  ⟨ha.1.mul hb.1, Nat.Coprime.mul_left ha.2 hb.2⟩

theorem galOK_of_mul {n a b : ℕ} (h : GalOK n (a * b)) : GalOK n a ∧ GalOK n b :=
  ⟨⟨(Nat.odd_mul.1 h.1).1, Nat.Coprime.coprime_mul_right h.2⟩,
   ⟨(Nat.odd_mul.1 h.1).2, Nat.Coprime.coprime_mul_left h.2⟩⟩

theorem galOK_mulmod {n a b : ℕ} (ha : GalOK n a) (hb : GalOK n b) : GalOK n (a * b % (2 * n)) :=
  (galOK_mod _).2 (galOK_mul ha hb)

/-- for a power-of-two degree every odd index is admissible -/
theorem galOK_pow2 {K g : ℕ} (hg : Odd g) : GalOK (2 ^ K) g :=
  ⟨hg, Nat.Coprime.pow_right K (Nat.coprime_two_right.2 hg)⟩

/-- `GaloisElement(k)` is odd, for every Go `int` `k` -/
theorem galEl_odd (m : ℕ) (hm1 : 1 ≤ m) (hm : m ≤ 64) (k : ℤ) : Odd (galEl (2 ^ m) k) := by
  rw [Proofs.Galois.galEl_eq m hm1 hm k, Nat.odd_iff, Nat.mod_mod_of_dvd _ (dvd_pow_self 2 (by omega)),
    Nat.pow_mod]
  norm_num

theorem galOK_galEl {K : ℕ} (hK : K + 1 ≤ 64) (k : ℤ) : GalOK (2 ^ K) (galEl (2 ^ (K + 1)) k) :=
  galOK_pow2 (galEl_odd (K + 1) (by omega) hK k)

theorem galOK_orderTwo (K : ℕ) : GalOK (2 ^ K) (2 ^ (K + 1) - 1) := by
  apply galOK_pow2
  rw [Nat.odd_iff]
  have : 2 ^ (K + 1) = 2 * 2 ^ K := by rw [pow_succ]; ring
  have hp : 1 ≤ 2 ^ K := Nat.one_le_two_pow
  omega

section action
open Polynomial
variable {qs : List ℕ} {n : ℕ} [hgd : Good qs n]

theorem root_pow_2n (q : ℕ) : (AdjoinRoot.root (X ^ n + 1 : (ZMod q)[X])) ^ (2 * n) = 1 := by
  rw [mul_comm, pow_mul, root_pow_n]; norm_num

theorem root_pow_mod (q a : ℕ) :
    (AdjoinRoot.root (X ^ n + 1 : (ZMod q)[X])) ^ a = (AdjoinRoot.root (X ^ n + 1 : (ZMod q)[X])) ^ (a % (2 * n)) :=
  pow_eq_pow_mod a (root_pow_2n q)

/-- the Galois map only depends on `g mod 2n` -/
theorem autHom_congr (q g g' : ℕ) (hg : Odd g) (hg' : Odd g') (h : g % (2 * n) = g' % (2 * n)) :
    autHom q n g hg = autHom q n g' hg' := by
  apply AdjoinRoot.ringHom_ext
  · ext c
    simp only [RingHom.comp_apply, autHom_of]
  · rw [autHom_root, autHom_root, root_pow_mod q g, root_pow_mod q g', h]

theorem wf_aut_congr (g g' : ℕ) (hg : GalOK n g) (hg' : GalOK n g') (h : g % (2 * n) = g' % (2 * n))
    (x : WFPoly qs n) : WFPoly.aut g hg.2 x = WFPoly.aut g' hg'.2 x :=
  WFPoly.toProd_injective (by
    funext i
    rw [WFPoly.toProd_aut _ hg.1, WFPoly.toProd_aut _ hg'.1, autHom_congr _ g g' hg.1 hg'.1 h])

theorem wf_aut_aut (g h : ℕ) (hg : GalOK n g) (hh : GalOK n h) (x : WFPoly qs n) :
    WFPoly.aut g hg.2 (WFPoly.aut h hh.2 x) = WFPoly.aut (g * h % (2 * n)) (galOK_mulmod hg hh).2 x :=
  WFPoly.toProd_injective (by
    funext i
    rw [WFPoly.toProd_aut _ hg.1, WFPoly.toProd_aut _ hh.1, WFPoly.toProd_aut _ (galOK_mulmod hg hh).1]
    have := congrArg (fun f => f (WFPoly.toProd x i)) (autHom_comp (q := qs.get i) (n := n) h g hh.1 hg.1)
    simp only [RingHom.comp_apply] at this
    rw [this]
    congr 1
    apply autHom_congr
    rw [Nat.mod_mod, mul_comm])

theorem wf_aut_id (g : ℕ) (hg : GalOK n g) (h1 : g % (2 * n) = 1) (x : WFPoly qs n) :
    WFPoly.aut g hg.2 x = x :=
  WFPoly.toProd_injective (by
    funext i
    rw [WFPoly.toProd_aut _ hg.1, autHom_eq_id _ _ h1]; rfl)

/-- **aut_ringHom_rpoly.**  On well-formed values `RPoly.aut g` (`g` admissible) preserves `+ * − neg 0 1`. -/
theorem aut_ringHom_rpoly (a b : RPoly) (ha : WFq qs n a) (hb : WFq qs n b) (g : ℕ) (hg : GalOK n g) :
    (a + b).aut g = a.aut g + b.aut g ∧ (a * b).aut g = a.aut g * b.aut g
    ∧ (a - b).aut g = a.aut g - b.aut g ∧ (-a).aut g = -a.aut g
    ∧ (RPoly.zero qs n).aut g = RPoly.zero qs n ∧ (rpOne qs n).aut g = rpOne qs n := by
  obtain ⟨a, rfl⟩ := exists_lift a ha
  obtain ⟨b, rfl⟩ := exists_lift b hb
  exact ⟨congrArg val (map_add (WFPoly.autRingHom g hg.1 hg.2) a b),
    congrArg val (map_mul (WFPoly.autRingHom g hg.1 hg.2) a b),
    congrArg val (map_sub (WFPoly.autRingHom g hg.1 hg.2) a b),
    congrArg val (map_neg (WFPoly.autRingHom g hg.1 hg.2) a),
    congrArg val (map_zero (WFPoly.autRingHom (qs := qs) g hg.1 hg.2)),
    congrArg val (map_one (WFPoly.autRingHom (qs := qs) g hg.1 hg.2))⟩

/-- **aut_aut_rpoly** (composition): `σ_g ∘ σ_h = σ_{g·h mod 2n}` on well-formed values. -/
theorem aut_aut_rpoly (a : RPoly) (ha : WFq qs n a) (g h : ℕ) (hg : GalOK n g) (hh : GalOK n h) :
    (a.aut h).aut g = a.aut (g * h % (2 * n)) := by
  obtain ⟨a, rfl⟩ := exists_lift a ha
  exact congrArg val (wf_aut_aut g h hg hh a)

/-- **aut_congr_rpoly**: `σ_g` only depends on `g mod 2n`; in particular `σ_g ∘ σ_h = σ_{g·h}`. -/
theorem aut_congr_rpoly (a : RPoly) (ha : WFq qs n a) (g g' : ℕ) (hg : GalOK n g) (hg' : GalOK n g')
    (h : g % (2 * n) = g' % (2 * n)) : a.aut g = a.aut g' := by
  obtain ⟨a, rfl⟩ := exists_lift a ha
  exact congrArg val (wf_aut_congr g g' hg hg' h a)

theorem aut_aut_rpoly' (a : RPoly) (ha : WFq qs n a) (g h : ℕ) (hg : GalOK n g) (hh : GalOK n h) :
    (a.aut h).aut g = a.aut (g * h) := by
  rw [aut_aut_rpoly a ha g h hg hh]
  exact aut_congr_rpoly a ha _ _ (galOK_mulmod hg hh) (galOK_mul hg hh) (Nat.mod_mod _ _)

/-- **aut_id_rpoly**: `σ_g = id` for `g ≡ 1 (mod 2n)` -/
theorem aut_id_rpoly (a : RPoly) (ha : WFq qs n a) (g : ℕ) (hg : GalOK n g) (h1 : g % (2 * n) = 1) :
    a.aut g = a := by
  obtain ⟨a, rfl⟩ := exists_lift a ha
  exact congrArg val (wf_aut_id g hg h1 a)

/-- **aut_inv_rpoly**: `σ_g` is bijective on well-formed values, with inverse `σ_h` for `g·h ≡ 1 (mod 2n)`
(`h = ModInvGaloisElement(g)`) -/
theorem aut_inv_rpoly (a : RPoly) (ha : WFq qs n a) (g h : ℕ) (hg : GalOK n g) (hh : GalOK n h)
    (h1 : g * h % (2 * n) = 1) : (a.aut h).aut g = a ∧ (a.aut g).aut h = a := by
  refine ⟨?_, ?_⟩
  · rw [aut_aut_rpoly a ha g h hg hh]
    exact aut_id_rpoly a ha _ (galOK_mulmod hg hh) (by rw [Nat.mod_mod]; exact h1)
  · rw [aut_aut_rpoly a ha h g hh hg]
    exact aut_id_rpoly a ha _ (galOK_mulmod hh hg) (by rw [Nat.mod_mod, mul_comm]; exact h1)

end action

/-- **rotations compose additively**: `rot a ∘ rot b = rot (a + b)` and `rot 0 = id`, with
`rot k = RPoly.aut (GaloisElement k)`, `nthRoot = 2n = 2^(K+1)`, every Go `int` `a`, `b`. -/
theorem rot_add_rpoly {qs : List ℕ} {K : ℕ} [Good qs (2 ^ K)] (hK : K + 1 ≤ 64) (x : RPoly)
    (hx : WFq qs (2 ^ K) x) (a b : ℤ) :
    (x.aut (galEl (2 ^ (K + 1)) b)).aut (galEl (2 ^ (K + 1)) a) = x.aut (galEl (2 ^ (K + 1)) (a + b))
    ∧ x.aut (galEl (2 ^ (K + 1)) 0) = x := by
  have e : 2 * 2 ^ K = 2 ^ (K + 1) := by rw [pow_succ]; ring
  refine ⟨?_, ?_⟩
  · rw [aut_aut_rpoly x hx _ _ (galOK_galEl hK a) (galOK_galEl hK b), e,
      Proofs.Galois.galEl_add (K + 1) (by omega) hK a b]
  · rw [Proofs.Galois.galEl_zero (K + 1) (by omega) hK]
    exact aut_id_rpoly x hx 1 (galOK_one _) (Nat.mod_eq_of_lt (by
      have : 1 ≤ 2 ^ K := Nat.one_le_two_pow
      omega))

/-! ## 2. `WFPoly qs (2^K)` is a lawful carrier -/

section lawful
variable {qs : List ℕ} {n : ℕ} [hgd : Good qs n]

/-- the operations on the ring `WFPoly qs n`: the model's `+`; the model's `RPoly.aut g` for admissible `g`
(inadmissible — even — indices are never used by the algorithms: mapped to `0`, which keeps the action laws);
`scaleInv c` = multiplication by the constant polynomial `(c⁻¹ mod q)_q` -/
noncomputable def wfOps (qs : List ℕ) (n : ℕ) [Good qs n] : Ops (WFPoly qs n) where
  add := (· + ·)
  aut g x := if h : GalOK n g then WFPoly.aut g h.2 x else 0
  scaleInv c x := x * WFPoly.constNat (fun q => RPoly.modInv c q)

theorem wfOps_aut_ok (g : ℕ) (hg : GalOK n g) (x : WFPoly qs n) :
    (wfOps qs n).aut g x = WFPoly.autRingHom g hg.1 hg.2 x := by
  show (if h : GalOK n g then WFPoly.aut g h.2 x else 0) = _
  rw [dif_pos hg]; rfl

theorem wfOps_aut_bad (g : ℕ) (hg : ¬ GalOK n g) (x : WFPoly qs n) : (wfOps qs n).aut g x = 0 := by
  show (if h : GalOK n g then WFPoly.aut g h.2 x else 0) = _
  rw [dif_neg hg]

/-- **wfOps_lawful.**  The hypothesis `Lawful S N` of the generic C11 theorems holds in the ring the code
works in (`N = 2n`). -/
theorem wfOps_lawful (N : ℕ) (hN : N = 2 * n) : Lawful (wfOps qs n) N where
  add_eq _ _ := rfl
  aut_add g a b := by
    by_cases hg : GalOK n g
    · rw [wfOps_aut_ok g hg, wfOps_aut_ok g hg, wfOps_aut_ok g hg, map_add]
    · rw [wfOps_aut_bad g hg, wfOps_aut_bad g hg, wfOps_aut_bad g hg, add_zero]
  aut_zero g := by
    by_cases hg : GalOK n g
    · rw [wfOps_aut_ok g hg, map_zero]
    · rw [wfOps_aut_bad g hg]
  aut_one a := by
    rw [wfOps_aut_ok 1 (galOK_one n)]
    exact wf_aut_id 1 (galOK_one n) (Nat.mod_eq_of_lt (by have := hgd.n_pos; omega)) a
  aut_mul g h a := by
    subst hN
    by_cases hg : GalOK n g
    · by_cases hh : GalOK n h
      · rw [wfOps_aut_ok g hg, wfOps_aut_ok h hh, wfOps_aut_ok _ (galOK_mulmod hg hh)]
        exact wf_aut_aut g h hg hh a
      · have hb : ¬ GalOK n (g * h % (2 * n)) := fun hc => hh (galOK_of_mul ((galOK_mod _).1 hc)).2
        rw [wfOps_aut_bad h hh, wfOps_aut_bad _ hb, wfOps_aut_ok g hg, map_zero]
    · have hb : ¬ GalOK n (g * h % (2 * n)) := fun hc => hg (galOK_of_mul ((galOK_mod _).1 hc)).1
      rw [wfOps_aut_bad g hg, wfOps_aut_bad _ hb]

end lawful

/-- the model's operations on plain `RPoly` values: `+`, `RPoly.aut g` for EVERY `g`, multiplication by the
constant polynomial `(c⁻¹ mod q)_q` (`RPoly.modInv`) -/
def constInvR (qs : List ℕ) (n c : ℕ) : RPoly :=
  { qs := qs, c := qs.map fun q => scalarRow q n (RPoly.modInv c q) }

def rpolyOps (qs : List ℕ) (n : ℕ) : Ops RPoly where
  add := (· + ·)
  aut g x := x.aut g
  scaleInv c x := x * constInvR qs n c

/-- **`val` is a homomorphism of carriers** from the lawful `wfOps` to the model's `rpolyOps`, for `add`, `scaleInv`
and `aut g`, `g` admissible -/
theorem sim_val {qs : List ℕ} {n : ℕ} [Good qs n] :
    Sim (wfOps qs n) (rpolyOps qs n) (val (qs := qs) (n := n)) (GalOK n) where
  add _ _ := rfl
  aut g hg a := by rw [wfOps_aut_ok g hg]; rfl
  scaleInv _ _ := rfl

/-- **lawful_raw_aut_false.**  The restriction to admissible indices in `wfOps` is necessary: NO operations on the
ring `WFPoly [97, 193] 8` whose `aut g` is the model's `RPoly.aut g` for ALL `g` satisfy `Lawful · 16` — the
composition law `aut_mul` fails at `g = h = 2` (`rowAut` with an even index overwrites coefficients). -/
theorem lawful_raw_aut_false [Good [97, 193] 8] (S : Ops (WFPoly [97, 193] 8))
    (hS : ∀ g x, val (S.aut g x) = (val x).aut g) : ¬ Lawful S 16 := by
  intro hL
  let x : WFPoly [97, 193] 8 :=
    lift ⟨[97, 193], [[1, 2, 3, 4, 5, 6, 7, 8], [10, 20, 30, 40, 50, 60, 70, 80]]⟩ (by decide +kernel)
  have h := congrArg val (hL.aut_mul 2 2 x)
  rw [hS, hS, hS] at h
  revert h
  show ¬ _
  decide +kernel

/-! ## 3. The sum specifications on `RPoly` values -/

/-- `Σ_{r<k} F r` with the model's `+`, starting from `RPoly.zero qs n` -/
def rpSum (qs : List ℕ) (n : ℕ) : ℕ → (ℕ → RPoly) → RPoly
  | 0, _ => RPoly.zero qs n
  | k + 1, F => rpSum qs n k F + F k

section sums
variable {qs : List ℕ} {K : ℕ} [hgd : Good qs (2 ^ K)]

theorem val_sum {n : ℕ} [Good qs n] (f : ℕ → WFPoly qs n) : ∀ k : ℕ,
    val (∑ r ∈ Finset.range k, f r) = rpSum qs n k (fun r => val (f r))
  | 0 => by rw [Finset.sum_range_zero]; rfl
  | k + 1 => by rw [Finset.sum_range_succ, val_add, val_sum f k]; rfl

theorem rpSum_congr {n : ℕ} (k : ℕ) (F G : ℕ → RPoly) (h : ∀ r < k, F r = G r) :
    rpSum qs n k F = rpSum qs n k G := by
  induction k with
  | zero => rfl
  | succ k ih => simp only [rpSum]; rw [ih (fun r hr => h r (by omega)), h k (by omega)]

theorem rpSum_wf {n : ℕ} [Good qs n] (k : ℕ) (F : ℕ → RPoly) (h : ∀ r < k, WFq qs n (F r)) :
    WFq qs n (rpSum qs n k F) := by
  induction k with
  | zero => exact WFq.zero
  | succ k ih => exact (ih (fun r hr => h r (by omega))).add (h k (by omega))

theorem two_mul_pow (K : ℕ) : 2 ^ (K + 1) = 2 * 2 ^ K := by rw [pow_succ]; ring

/-- the lawful carrier, `nthRoot = 2^(K+1)` -/
theorem lawfulK : Lawful (wfOps qs (2 ^ K)) (2 ^ (K + 1)) := wfOps_lawful _ (two_mul_pow K)

theorem val_rot (hK : K + 1 ≤ 64) (k : ℤ) (v : WFPoly qs (2 ^ K)) :
    val (rot (wfOps qs (2 ^ K)) (2 ^ (K + 1)) k v) = (val v).aut (galEl (2 ^ (K + 1)) k) :=
  sim_val.aut _ (galOK_galEl hK k) v

theorem val_sum_rot (hK : K + 1 ≤ 64) (ks : ℕ → ℤ) (v : WFPoly qs (2 ^ K)) (k : ℕ) :
    val (∑ r ∈ Finset.range k, rot (wfOps qs (2 ^ K)) (2 ^ (K + 1)) (ks r) v)
      = rpSum qs (2 ^ K) k (fun r => (val v).aut (galEl (2 ^ (K + 1)) (ks r))) := by
  rw [val_sum]
  exact rpSum_congr k _ _ (fun r _ => val_rot hK (ks r) v)

/-- **innerSum_spec_rpoly.**  `PartialTracesSum` (= `RotateAndAdd`) run with the model's operations on
well-formed `RPoly` values, `nthRoot = 2n = 2^(K+1)`, every `offset ≠ 0`, every `n ≥ 1` (Go `int`s), returns
`Σ_{r<n} (ct).aut(GaloisElement(r·offset))` — independently of the stale (well-formed) buffers. -/
theorem innerSum_spec_rpoly (hK : K + 1 ≤ 64) (v out0 acc0 : RPoly) (hv : WFq qs (2 ^ K) v)
    (hout : WFq qs (2 ^ K) out0) (hacc : WFq qs (2 ^ K) acc0) (offset n : ℤ) (hn : 1 ≤ n)
    (hn63 : n < 9223372036854775808) (hoff : offset ≠ 0) :
    (partialTracesSum (rpolyOps qs (2 ^ K)) (2 ^ (K + 1)) true v out0 acc0 offset n).val?
      = some (rpSum qs (2 ^ K) n.toNat (fun r => v.aut (galEl (2 ^ (K + 1)) ((r : ℤ) * offset)))) := by
  obtain ⟨v, rfl⟩ := exists_lift v hv
  obtain ⟨out0, rfl⟩ := exists_lift out0 hout
  obtain ⟨acc0, rfl⟩ := exists_lift acc0 hacc
  rw [partialTracesSum_sim sim_val _ (galOK_galEl hK) true v out0 acc0 offset n,
    mapRes_val (partialTracesSum_spec lawfulK (by omega) hK v out0 acc0 offset n hn hn63 hoff),
    val_sum_rot hK]

/-- **innerFunction_spec_rpoly** (`InnerFunction` with `f = Add`): every `batchSize`, every `n ≥ 1`. -/
theorem innerFunction_spec_rpoly (hK : K + 1 ≤ 64) (v out0 acc0 : RPoly) (hv : WFq qs (2 ^ K) v)
    (hout : WFq qs (2 ^ K) out0) (hacc : WFq qs (2 ^ K) acc0) (batch n : ℤ) (hn : 1 ≤ n)
    (hn63 : n < 9223372036854775808) :
    (innerFunction (rpolyOps qs (2 ^ K)) (rpolyOps qs (2 ^ K)).add (2 ^ (K + 1)) v out0 acc0 batch n).val?
      = some (rpSum qs (2 ^ K) n.toNat (fun r => v.aut (galEl (2 ^ (K + 1)) ((r : ℤ) * batch)))) := by
  obtain ⟨v, rfl⟩ := exists_lift v hv
  obtain ⟨out0, rfl⟩ := exists_lift out0 hout
  obtain ⟨acc0, rfl⟩ := exists_lift acc0 hacc
  rw [innerFunction_sim sim_val _ (galOK_galEl hK) v out0 acc0 batch n,
    mapRes_val (innerFunction_add_spec lawfulK (by omega) hK v out0 acc0 batch n hn hn63),
    val_sum_rot hK]

/-- **replicate_spec_rpoly.**  `Replicate(ct, batch, n) = Σ_{r<n} ct.aut(GaloisElement(−r·batch))`. -/
theorem replicate_spec_rpoly (hK : K + 1 ≤ 64) (v out0 acc0 : RPoly) (hv : WFq qs (2 ^ K) v)
    (hout : WFq qs (2 ^ K) out0) (hacc : WFq qs (2 ^ K) acc0) (batch n : ℤ) (hn : 1 ≤ n) (hb : batch ≠ 0)
    (hsmall : n * |batch| < 9223372036854775808) :
    (replicate (rpolyOps qs (2 ^ K)) (2 ^ (K + 1)) true v out0 acc0 batch n).val?
      = some (rpSum qs (2 ^ K) n.toNat (fun r => v.aut (galEl (2 ^ (K + 1)) (-((r : ℤ) * batch))))) := by
  obtain ⟨v, rfl⟩ := exists_lift v hv
  obtain ⟨out0, rfl⟩ := exists_lift out0 hout
  obtain ⟨acc0, rfl⟩ := exists_lift acc0 hacc
  rw [replicate_sim sim_val _ (galOK_galEl hK) true v out0 acc0 batch n,
    mapRes_val (replicate_spec lawfulK (by omega) hK v out0 acc0 batch n hn hb hsmall),
    val_sum_rot hK]

/-- **innerSumCKKS_spec_rpoly** (`ckks.Evaluator.InnerSum`): every accepted call returns the documented sum. -/
theorem innerSumCKKS_spec_rpoly (hK : K + 1 ≤ 64) (slots : ℕ) (v out0 acc0 : RPoly) (hv : WFq qs (2 ^ K) v)
    (hout : WFq qs (2 ^ K) out0) (hacc : WFq qs (2 ^ K) acc0) (batch n : ℤ) (hn : 0 < n) (hb : 0 < batch)
    (hnb : n * batch < 9223372036854775808) :
    ∀ y, (innerSumCKKS (rpolyOps qs (2 ^ K)) (2 ^ (K + 1)) slots true v out0 acc0 batch n).val? = some y →
      y = rpSum qs (2 ^ K) n.toNat (fun r => v.aut (galEl (2 ^ (K + 1)) ((r : ℤ) * batch))) := by
  obtain ⟨v, rfl⟩ := exists_lift v hv
  obtain ⟨out0, rfl⟩ := exists_lift out0 hout
  obtain ⟨acc0, rfl⟩ := exists_lift acc0 hacc
  intro y hy
  rw [innerSumCKKS_sim sim_val _ (galOK_galEl hK) slots true v out0 acc0 batch n, mapRes_val_iff] at hy
  obtain ⟨x, hx, rfl⟩ := hy
  rw [innerSumCKKS_spec lawfulK (by omega) hK slots v out0 acc0 batch n hn hb hnb x hx, val_sum_rot hK]

/-- **innerSumBGV_spec_rpoly** (`bgv.Evaluator.InnerSum`, two rows): row-wise sum, and for `n·batch = slots` the
sum over both rows obtained from `(batch, n/2)` plus the row swap `aut (2n − 1)`. -/
theorem innerSumBGV_spec_rpoly (hK : K + 1 ≤ 64) (slots : ℕ) (v out0 acc0 : RPoly) (hv : WFq qs (2 ^ K) v)
    (hout : WFq qs (2 ^ K) out0) (hacc : WFq qs (2 ^ K) acc0) (batch n : ℤ) (hn : 0 < n) (hb : 0 < batch)
    (hnb : n * batch < 9223372036854775808) :
    ∀ y, (innerSumBGV (rpolyOps qs (2 ^ K)) (2 ^ (K + 1)) slots true v out0 acc0 batch n).val? = some y →
      y = if n * batch = slots ∧ n ≠ 1 then
            (let u := rpSum qs (2 ^ K) (n / 2).toNat (fun r => v.aut (galEl (2 ^ (K + 1)) ((r : ℤ) * batch)))
             u + u.aut (2 ^ (K + 1) - 1))
          else rpSum qs (2 ^ K) n.toNat (fun r => v.aut (galEl (2 ^ (K + 1)) ((r : ℤ) * batch))) := by
  obtain ⟨v, rfl⟩ := exists_lift v hv
  obtain ⟨out0, rfl⟩ := exists_lift out0 hout
  obtain ⟨acc0, rfl⟩ := exists_lift acc0 hacc
  intro y hy
  rw [innerSumBGV_sim sim_val _ (galOK_galEl hK) (galOK_orderTwo K) slots true v out0 acc0 batch n,
    mapRes_val_iff] at hy
  obtain ⟨x, hx, rfl⟩ := hy
  rw [innerSumBGV_spec lawfulK (by omega) hK slots v out0 acc0 batch n hn hb hnb x hx]
  split
  · show val (_ + (wfOps qs (2 ^ K)).aut (2 ^ (K + 1) - 1) _) = _
    rw [val_add, sim_val.aut _ (galOK_orderTwo K), val_sum_rot hK]
    rfl
  · rw [val_sum_rot hK]

/-- **trace_spec_standard_rpoly** (`Trace`, standard ring of degree `2^K`, `0 < logN < K − 1`): normalised sum
over the rotations by multiples of `2^logN`; the normalisation is the multiplication by `constInvR`
(`gap⁻¹` modulo every `q_i`). -/
theorem trace_spec_standard_rpoly (hK : K ≤ 62) (v : RPoly) (hv : WFq qs (2 ^ K) v) (logN : ℕ)
    (h0 : 0 < logN) (hlt : logN + 1 < K) :
    (trace (rpolyOps qs (2 ^ K)) .standard K v (logN : ℤ)).val?
      = some (rpSum qs (2 ^ K) (2 ^ (K - 1 - logN)) (fun j =>
          (v * constInvR qs (2 ^ K) (2 ^ (K - 1 - logN))).aut
            (galEl (2 ^ (K + 1)) ((j : ℤ) * ((2 ^ logN : ℕ) : ℤ))))) := by
  obtain ⟨v, rfl⟩ := exists_lift v hv
  rw [trace_sim sim_val .standard K (galOK_galEl (by omega)) (fun _ => galOK_orderTwo K) v (logN : ℤ),
    mapRes_val (trace_spec_pos K lawfulK hK v logN h0 hlt), val_sum_rot (by omega)]
  rfl

/-- **trace_spec_zero_standard_rpoly** (`logN = 0`): all rotations, then the order-two element, normalised by `n`. -/
theorem trace_spec_zero_standard_rpoly (hK1 : 1 ≤ K) (hK : K ≤ 62) (v : RPoly) (hv : WFq qs (2 ^ K) v) :
    (trace (rpolyOps qs (2 ^ K)) .standard K v 0).val?
      = some (let u := rpSum qs (2 ^ K) (2 ^ (K - 1)) (fun j =>
                (v * constInvR qs (2 ^ K) (2 ^ K)).aut (galEl (2 ^ (K + 1)) ((j : ℤ) * ((2 ^ 0 : ℕ) : ℤ))))
              u + u.aut (2 ^ (K + 1) - 1)) := by
  obtain ⟨v, rfl⟩ := exists_lift v hv
  rw [trace_sim sim_val .standard K (galOK_galEl (by omega)) (fun _ => galOK_orderTwo K) v 0,
    mapRes_val (trace_spec_zero K lawfulK hK1 hK v)]
  show some (val (_ + (wfOps qs (2 ^ K)).aut (2 ^ (K + 1) - 1) _)) = _
  rw [val_add, sim_val.aut _ (galOK_orderTwo K), val_sum_rot (by omega)]
  rfl

/-- single rotations / conjugation with the model's operations: the value is `RPoly.aut` of the Galois element
(no hypothesis: by definition) -/
theorem rotate_rpoly (N : ℕ) (v : RPoly) (k : ℤ) :
    rotate (rpolyOps qs (2 ^ K)) N v k = .ok (v.aut (galEl N k)) (request false (galEl N k) []) := rfl

theorem conjugate_rpoly (N : ℕ) (v : RPoly) :
    conjugate (rpolyOps qs (2 ^ K)) .standard N v = .ok (v.aut (N - 1)) (request false (N - 1) []) := rfl

end sums

/-! ## 4. Slots of the RNS rows -/

section slots
open Lattigo.Proofs.RotateSlots
variable {qs : List ℕ}

/-- row `i` of `p.aut g` is `rowAut g q_i` of row `i` of `p` -/
theorem aut_row {n : ℕ} (p : RPoly) (hp : WFq qs n p) (g i : ℕ) (hi : i < qs.length) :
    (p.aut g).c.getD i [] = RPoly.rowAut g (qs.getD i 0) (p.c.getD i []) := by
  obtain ⟨h1, h2, _⟩ := hp
  have hi' : i < p.qs.length := by rw [h1]; exact hi
  have := mapRows_getD (RPoly.rowAut g) p h2 i hi'
  rw [show p.aut g = RPoly.mapRows (RPoly.rowAut g) p from rfl, this]
  congr 1
  subst h1
  simp [List.getD_eq_getElem?_getD, hi]

theorem row_length {n : ℕ} (p : RPoly) (hp : WFq qs n p) (i : ℕ) (hi : i < qs.length) :
    (p.c.getD i []).length = n ∧ ∀ x ∈ p.c.getD i [], x < qs.getD i 0 := by
  obtain ⟨h1, _, h3⟩ := hp
  have hi' : i < p.qs.length := by rw [h1]; exact hi
  have h := h3 i hi'
  subst h1
  have e : p.qs.getD i 0 = p.qs[i] := by simp [List.getD_eq_getElem?_getD, hi]
  rw [e]
  exact ⟨h.len, h.lt⟩

/-- **rotate_slots_rpoly.**  `n = 2^(t+2)`, `nthRoot = 2n`; `ζ` any element of a commutative ring `R` in which
`q_i = 0` (e.g. `ZMod q_i`) with `ζ^n = −1`.  The two slot rows `(a(ζ^(±5^j)))_j` of row `i` of
`p.aut (GaloisElement k)` are those of row `i` of `p` rotated cyclically by `k`; the order-two element `2n − 1`
swaps them.  Every Go `int` `k`, every well-formed `p`. -/
theorem rotate_slots_rpoly {R : Type} [CommRing R] {t : ℕ} (ht : t + 3 ≤ 64) (p : RPoly)
    (hp : WFq qs (2 ^ (t + 2)) p) (i : ℕ) (hi : i < qs.length) (hq0 : 0 < qs.getD i 0)
    (hqR : ((qs.getD i 0 : ℕ) : R) = 0) (ζ : R) (hζ : ζ ^ 2 ^ (t + 2) = -1) (k : ℤ) (j : ℕ) :
    slot0 ζ (2 ^ (t + 3)) (((p.aut (galEl (2 ^ (t + 3)) k)).c.getD i []).map (Nat.cast : ℕ → R)) j
      = slot0 ζ (2 ^ (t + 3)) ((p.c.getD i []).map (Nat.cast : ℕ → R))
          (((j : ℤ) + k) % ((2 ^ (t + 1) : ℕ) : ℤ)).toNat
    ∧ slot1 ζ (2 ^ (t + 3)) (((p.aut (galEl (2 ^ (t + 3)) k)).c.getD i []).map (Nat.cast : ℕ → R)) j
      = slot1 ζ (2 ^ (t + 3)) ((p.c.getD i []).map (Nat.cast : ℕ → R))
          (((j : ℤ) + k) % ((2 ^ (t + 1) : ℕ) : ℤ)).toNat := by
  obtain ⟨hlen, _⟩ := row_length p hp i hi
  have hc : Nat.Coprime (galEl (2 ^ (t + 3)) k) (2 * (p.c.getD i []).length) := by
    rw [hlen, ← two_mul_pow (t + 2)]
    exact Nat.Coprime.pow_right _ (Nat.coprime_two_right.2 (galEl_odd (t + 3) (by omega) ht k))
  rw [aut_row p hp _ i hi, rowAut_cast _ hq0 hqR _ _ hc, hlen]
  exact ⟨Proofs.RotateSlots.rotate_slots ζ ht hζ _ (by rw [List.length_map]; exact hlen) k j,
    rotate_slots_neg ζ ht hζ _ (by rw [List.length_map]; exact hlen) k j⟩

theorem orderTwo_swaps_rows_rpoly {R : Type} [CommRing R] {t : ℕ} (p : RPoly)
    (hp : WFq qs (2 ^ (t + 2)) p) (i : ℕ) (hi : i < qs.length) (hq0 : 0 < qs.getD i 0)
    (hqR : ((qs.getD i 0 : ℕ) : R) = 0) (ζ : R) (hζ : ζ ^ 2 ^ (t + 2) = -1) (j : ℕ) :
    slot0 ζ (2 ^ (t + 3)) (((p.aut (2 ^ (t + 3) - 1)).c.getD i []).map (Nat.cast : ℕ → R)) j
      = slot1 ζ (2 ^ (t + 3)) ((p.c.getD i []).map (Nat.cast : ℕ → R)) j
    ∧ slot1 ζ (2 ^ (t + 3)) (((p.aut (2 ^ (t + 3) - 1)).c.getD i []).map (Nat.cast : ℕ → R)) j
      = slot0 ζ (2 ^ (t + 3)) ((p.c.getD i []).map (Nat.cast : ℕ → R)) j := by
  obtain ⟨hlen, _⟩ := row_length p hp i hi
  have hc : Nat.Coprime (2 ^ (t + 3) - 1) (2 * (p.c.getD i []).length) := by
    rw [hlen, ← two_mul_pow (t + 2)]
    exact Nat.Coprime.pow_right _ (Nat.coprime_two_right.2 (galOK_orderTwo (t + 2)).1)
  rw [aut_row p hp _ i hi, rowAut_cast _ hq0 hqR _ _ hc, hlen]
  exact swap_slots ζ hζ _ (by rw [List.length_map]; exact hlen) j

/-- **automorphismNTT_rpoly** (the NTT-domain permutation).  `n = 2^K`; for every row `i` whose modulus `q_i` is an
NTT-friendly prime (`q_i ≡ 1 mod 2n`, `8q_i ≤ 2^64`, tables generated from the non-residue `g₀`): the NTT of row `i`
of `p.aut g` is the NTT of row `i` of `p` permuted by `ring.AutomorphismNTTIndex(n, 2n, g)` — `out[j] = in[idx[j]]`,
the SAME index table for every row.  Every odd `g`, every well-formed `p`. -/
theorem automorphismNTT_rpoly (K : ℕ) (hK : 1 ≤ K) (hK64 : K + 1 ≤ 64) (p : RPoly) (hp : WFq qs (2 ^ K) p)
    (g : ℕ) (hg : g % 2 = 1) :
    ∃ idx, automorphismNTTIndex (2 ^ K) (2 ^ (K + 1)) g = some idx ∧
      ∀ (i : ℕ) (g₀ : ℕ), i < qs.length → (qs.getD i 0).Prime → 8 * qs.getD i 0 ≤ W →
        2 ^ (K + 1) ∣ qs.getD i 0 - 1 → g₀ ^ ((qs.getD i 0 - 1) / 2) % qs.getD i 0 = qs.getD i 0 - 1 →
        NTT.nttStd (NTT.mkTables (2 ^ K) (qs.getD i 0) (2 ^ (K + 1)) g₀) ((p.aut g).c.getD i [])
          = idx.map (fun j =>
              (NTT.nttStd (NTT.mkTables (2 ^ K) (qs.getD i 0) (2 ^ (K + 1)) g₀) (p.c.getD i [])).getD j 0) := by
  obtain ⟨idx, hidx, _⟩ := Proofs.Galois.nttIndex_perm (K + 1) (by omega) hK64 g hg
  rw [Nat.add_sub_cancel] at hidx
  refine ⟨idx, hidx, fun i g₀ hi hq h8 hdiv hg₀ => ?_⟩
  obtain ⟨hlen, hlt⟩ := row_length p hp i hi
  obtain ⟨idx', hidx', h⟩ := automorphismNTT_spec K (qs.getD i 0) g₀ hK hK64 hq h8 hdiv hg₀ _ hlen hlt g hg
  rw [hidx] at hidx'
  injection hidx' with e
  rw [aut_row p hp g i hi, h, e]

end slots

/-! ## 5. `orderTwo_conjugates`: is the hypothesis on the abstract endomorphism `c` satisfiable? -/

section conj
open Lattigo.Proofs.RotateSlots

/-- **orderTwo_conjugates_hyps_unsatisfiable_zmod.**  In a prime field `ZMod q` (the BGV slot ring) the hypotheses
`ζ^N = −1`, `c ζ = ζ^(2N−1)` of `orderTwo_conjugates` force `q ∣ 2`: the only ring endomorphism of `ZMod q` is the
identity, so `ζ = ζ⁻¹`, `ζ² = 1`, `−1 = ζ^N = 1`.  (The statement is about CKKS, `R = ℂ`; for BGV the order-two
element swaps the rows: `orderTwo_swaps_rows`.) -/
theorem orderTwo_conjugates_hyps_unsatisfiable_zmod (q t : ℕ) [NeZero q] (ζ : ZMod q)
    (hζ : ζ ^ 2 ^ (t + 2) = -1) (c : ZMod q →+* ZMod q) (hcζ : c ζ = ζ ^ (2 ^ (t + 3) - 1)) : q ∣ 2 := by
  have hc : c = RingHom.id _ := Subsingleton.elim _ _
  rw [hc, RingHom.id_apply] at hcζ
  have h1 : ζ ^ 2 ^ (t + 3) = 1 := by
    rw [show 2 ^ (t + 3) = 2 ^ (t + 2) * 2 by rw [pow_succ], pow_mul, hζ]; norm_num
  have hpos : 1 ≤ 2 ^ (t + 3) := Nat.one_le_two_pow
  have h2 : ζ * ζ = 1 := by
    have : ζ * ζ ^ (2 ^ (t + 3) - 1) = 1 := by rw [← pow_succ', Nat.sub_add_cancel hpos, h1]
    rwa [← hcζ] at this
  have h3 : ζ ^ 2 ^ (t + 2) = 1 := by
    rw [show 2 ^ (t + 2) = 2 * 2 ^ (t + 1) by rw [pow_succ]; ring, pow_mul, pow_two, h2, one_pow]
  have h4 : (2 : ZMod q) = 0 := by
    have : (1 : ZMod q) = -1 := h3.symm.trans hζ
    calc (2 : ZMod q) = 1 + 1 := by norm_num
      _ = -1 + 1 := by rw [← this]
      _ = 0 := by ring
  have : ((2 : ℕ) : ZMod q) = 0 := by exact_mod_cast h4
  exact (ZMod.natCast_eq_zero_iff 2 q).1 this

/-- **orderTwo_conjugates_instance.**  The hypotheses ARE satisfiable in characteristic `≠ 2`: `R = Z_17 × Z_17`,
`c` the swap of the two factors, `ζ = (2, 2⁻¹) = (2, 9)` (`2^4 = −1` in `Z_17`), `N = 4`, coefficients on the
diagonal.  Obtained FROM the theorem (`Proofs.RotateSlots.conj_slots` = `Props.C11.orderTwo_conjugates`). -/
theorem orderTwo_conjugates_instance (u : (ZMod 8)ˣ) :
    let R := ZMod 17 × ZMod 17
    let a : List R := [(1, 1), (2, 2), (3, 3), (16, 16)]
    let c : R →+* R := (RingEquiv.prodComm : ZMod 17 × ZMod 17 ≃+* ZMod 17 × ZMod 17)
    E ((2, 9) : R) (2 ^ (0 + 3)) (sigma (2 ^ (0 + 2)) (2 ^ (0 + 3) - 1) a) u = c (E ((2, 9) : R) (2 ^ (0 + 3)) a u) := by
  intro R a c
  refine conj_slots (t := 0) ((2, 9) : R) (by decide) a rfl c (fun i => ?_) (by decide) u
  have : ∀ i, i < 4 → c (a.getD i 0) = a.getD i 0 := by decide
  by_cases hi : i < 4
  · exact this i hi
  · have : a.getD i 0 = 0 := by
      simp only [a, List.getD_eq_getElem?_getD]
      rw [List.getElem?_eq_none (by simp; omega)]; rfl
    rw [this, map_zero]

end conj

/-! ## 6. A concrete instance: `qs = [97, 193]`, `n = 8` (`K = 3`, `nthRoot = 16`) -/

section concrete

instance good8 : Good [97, 193] (2 ^ 3) := ⟨by decide, by decide⟩

def x8 : RPoly := ⟨[97, 193], [[1, 2, 3, 4, 5, 6, 7, 8], [10, 20, 30, 40, 50, 60, 70, 80]]⟩
def dirty8 : RPoly := ⟨[97, 193], [[9, 9, 9, 9, 9, 9, 9, 9], [5, 5, 5, 5, 5, 5, 5, 5]]⟩

theorem hyps8 : WFq [97, 193] (2 ^ 3) x8 ∧ WFq [97, 193] (2 ^ 3) dirty8 := by decide +kernel

/-- an instance of `innerSum_spec_rpoly` obtained FROM THE THEOREM (`offset = −3`, `n = 7`, dirty buffers) -/
example : (partialTracesSum (rpolyOps [97, 193] (2 ^ 3)) (2 ^ (3 + 1)) true x8 dirty8 dirty8 (-3) 7).val?
    = some (rpSum [97, 193] (2 ^ 3) (7 : ℤ).toNat (fun r => x8.aut (galEl (2 ^ (3 + 1)) ((r : ℤ) * (-3))))) :=
  innerSum_spec_rpoly (qs := [97, 193]) (K := 3) (by norm_num) x8 dirty8 dirty8 hyps8.1 hyps8.2 hyps8.2 (-3) 7
    (by norm_num) (by norm_num) (by norm_num)

/-- composition of two Galois maps, from the theorem: `σ_5 ∘ σ_13 = σ_{65 mod 16} = σ_1 = id` -/
example : (x8.aut 13).aut 5 = x8.aut (5 * 13 % (2 * 2 ^ 3)) :=
  aut_aut_rpoly (qs := [97, 193]) x8 hyps8.1 5 13 (by decide) (by decide)

/-- TEST (evaluation of the model on these values): the same sum; composition, inverse, rotation by `−3`;
the composition law FAILS for the even index `2` (`lawful_raw_aut_false`) -/
example : (partialTracesSum (rpolyOps [97, 193] 8) 16 true x8 dirty8 dirty8 (-3) 7).val?
    = some (rpSum [97, 193] 8 7 (fun r => x8.aut (galEl 16 ((r : ℤ) * (-3))))) := by decide +kernel
example : (x8.aut 13).aut 5 = x8 ∧ (x8.aut 3).aut 11 = x8.aut 1 ∧ x8.aut 17 = x8
    ∧ (x8.aut (galEl 16 2)).aut (galEl 16 (-3)) = x8.aut (galEl 16 (-1))
    ∧ (x8.aut 2).aut 2 ≠ x8.aut 4 := by decide +kernel

/-- the NTT-domain permutation on both rows (`q = 97`, `193`: primes `≡ 1 mod 16`, non-residue `5`), from the
theorem -/
example : ∃ idx, automorphismNTTIndex (2 ^ 3) (2 ^ (3 + 1)) 13 = some idx ∧
    NTT.nttStd (NTT.mkTables (2 ^ 3) 97 (2 ^ (3 + 1)) 5) ((x8.aut 13).c.getD 0 [])
      = idx.map (fun j => (NTT.nttStd (NTT.mkTables (2 ^ 3) 97 (2 ^ (3 + 1)) 5) (x8.c.getD 0 [])).getD j 0) ∧
    NTT.nttStd (NTT.mkTables (2 ^ 3) 193 (2 ^ (3 + 1)) 5) ((x8.aut 13).c.getD 1 [])
      = idx.map (fun j => (NTT.nttStd (NTT.mkTables (2 ^ 3) 193 (2 ^ (3 + 1)) 5) (x8.c.getD 1 [])).getD j 0) := by
  obtain ⟨idx, h1, h2⟩ := automorphismNTT_rpoly (qs := [97, 193]) 3 (by norm_num) (by norm_num) x8 hyps8.1 13
    (by norm_num)
  exact ⟨idx, h1,
    h2 0 5 (by decide) (by norm_num) (by decide) (by decide) (by decide +kernel),
    h2 1 5 (by decide) (by norm_num) (by decide) (by decide) (by decide +kernel)⟩

/-- the slots of row `0` modulo `97` at `ζ = 8` (`8^8 = −1`): rotation by `k = −3`, from the theorem -/
example (j : ℕ) :
    Proofs.RotateSlots.slot0 (8 : ZMod 97) (2 ^ (1 + 3))
        (((x8.aut (galEl (2 ^ (1 + 3)) (-3))).c.getD 0 []).map (Nat.cast : ℕ → ZMod 97)) j
      = Proofs.RotateSlots.slot0 (8 : ZMod 97) (2 ^ (1 + 3)) ((x8.c.getD 0 []).map (Nat.cast : ℕ → ZMod 97))
          (((j : ℤ) + (-3)) % ((2 ^ (1 + 1) : ℕ) : ℤ)).toNat :=
  (rotate_slots_rpoly (qs := [97, 193]) (t := 1) (by norm_num) x8 hyps8.1 0 (by decide) (by decide) (by decide)
    (8 : ZMod 97) (by decide) (-3) j).1

end concrete

end Lattigo.Props.C11Ring

#print axioms Lattigo.Props.C11Ring.aut_ringHom_rpoly
#print axioms Lattigo.Props.C11Ring.aut_aut_rpoly
#print axioms Lattigo.Props.C11Ring.aut_aut_rpoly'
#print axioms Lattigo.Props.C11Ring.aut_congr_rpoly
#print axioms Lattigo.Props.C11Ring.aut_id_rpoly
#print axioms Lattigo.Props.C11Ring.aut_inv_rpoly
#print axioms Lattigo.Props.C11Ring.rot_add_rpoly
#print axioms Lattigo.Props.C11Ring.wfOps_lawful
#print axioms Lattigo.Props.C11Ring.sim_val
#print axioms Lattigo.Props.C11Ring.lawful_raw_aut_false
#print axioms Lattigo.Props.C11Ring.innerSum_spec_rpoly
#print axioms Lattigo.Props.C11Ring.innerFunction_spec_rpoly
#print axioms Lattigo.Props.C11Ring.replicate_spec_rpoly
#print axioms Lattigo.Props.C11Ring.innerSumCKKS_spec_rpoly
#print axioms Lattigo.Props.C11Ring.innerSumBGV_spec_rpoly
#print axioms Lattigo.Props.C11Ring.trace_spec_standard_rpoly
#print axioms Lattigo.Props.C11Ring.trace_spec_zero_standard_rpoly
#print axioms Lattigo.Props.C11Ring.rotate_slots_rpoly
#print axioms Lattigo.Props.C11Ring.orderTwo_swaps_rows_rpoly
#print axioms Lattigo.Props.C11Ring.automorphismNTT_rpoly
#print axioms Lattigo.Props.C11Ring.orderTwo_conjugates_hyps_unsatisfiable_zmod
#print axioms Lattigo.Props.C11Ring.orderTwo_conjugates_instance
