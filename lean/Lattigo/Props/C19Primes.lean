/-
  Property C19, clause "moduli generated from bit-size requests are distinct primes of exactly the requested
  sizes congruent to 1 modulo the root order" — the NTT-friendly prime generator itself
  (`ring/primes.go`: `NewNTTFriendlyPrimesGenerator`, `NextUpstreamPrime(s)`, `NextDownstreamPrime(s)`,
  `NextAlternatingPrime(s)`), all three directions.  (`GenModuli`, which drives it, is in `Props/C19.lean`:
  `genModuli_spec`, `genModuli_total`.)

  Why this file is about the hand-written model `Lattigo.Model.Params.genPrimes` and not about a
  regenerated `Gen/Primes.lean`: the functions do not fit the typed printer of `tools/go2lean` — the loop
  conditions are `math.Log2(float64(x)) - Size >= 0.5` (a transcendental float function), primality is
  `big.Int.ProbablyPrime`, the state is a struct mutated through a pointer receiver and carrying a
  `float64` field.  The model takes the two float comparisons and the primality test as an `Oracle`; the
  driver instantiates them with a bit-exact port of Go's `math.Log2` and a deterministic Miller–Rabin test
  and the tie lines `gen`, `overlap`, `isprime` compare them with the real code (≈ 2,000 lines per quick run).

  Proved here, for all inputs (sizes `S ≤ 61`, root orders `r ≥ 2` dividing `2^S`, any count, any fuel):
    * `genPrimes_spec`   a returned list has the requested length; every element is accepted by the primality
                         oracle (`Nat.Prime` for a sound oracle), is `1 mod r`, lies in the half-bit window
                         `2^(S-1/2) < p < 2^(S+1/2)` (exact arithmetic), and the elements are pairwise distinct
                         — hypothesis `StopSound` (the float tests are read exactly)
    * `genPrimes_order`  upstream primes come in strictly increasing order above `2^S`, downstream primes in
                         strictly decreasing order at most `2^S + 1 − r`
    * `genPrimes_total`  no direction panics (any oracle) and none fails to terminate — hypotheses
                         `StopComplete` (the float tests fire outside the window), `fuel ≥ 2^65`
  Hypotheses `StopSound`/`StopComplete` are about the IEEE double evaluation of `math.Log2`; they are not
  discharged for `goOracle` (Lean's kernel cannot evaluate `Float`); they hold for `exactOracle`
  (`exactOracle_stopSound`, `exactOracle_stopComplete`), and the run-time probe `genmoduli_spec` checks the
  exact window on every generated modulus of the real generator.
-/
import Lattigo.Proofs.ParamsUp
import Mathlib.Data.Nat.Prime.Basic

namespace Lattigo.Params
open Lattigo

/-- **genPrimes_spec** — `Next{Upstream,Downstream,Alternating}Primes(k)` on a fresh generator
    (`dir = 0, 1, otherwise`): if the call returns primes then there are `k` of them, each one is prime,
    `≡ 1 mod r`, within half a bit of `2^S`, and they are pairwise distinct. -/
theorem genPrimes_spec (o : Oracle) (ho : ∀ n, o.isPrime n = true → Nat.Prime n) (hs : StopSound o)
    (fuel dir S r k : Nat) (hS : S ≤ 61) (hr : 2 ≤ r) (hd : r ∣ 2 ^ S) (ps : List Nat)
    (h : genPrimes o fuel dir S r k = .ok ps) :
    ps.length = k ∧ ps.Nodup ∧
    ∀ p ∈ ps, Nat.Prime p ∧ p % r = 1 ∧ 2 ^ (2 * S) < 2 * (p * p) ∧ p * p < 2 ^ (2 * S + 1) := by
  obtain ⟨i1, i2, i3, _, _⟩ := newGen_inv hS hr hd
  have hpow : 2 ^ S ≤ 2 ^ 61 := Nat.pow_le_pow_right (by decide) hS
  have hrle : r ≤ 2 ^ S := Nat.le_of_dvd (Nat.two_pow_pos S) hd
  have hroom : 2 ^ (S + 1) + r ≤ W := by rw [Nat.pow_succ]; unfold W; omega
  have hstep : StepSpec o S r (if dir = 0 then nextUp o fuel else if dir = 1 then nextDown o fuel else nextAlt o fuel) := by
    by_cases h0 : dir = 0
    · simp only [h0, if_true]; exact nextUp_stepSpec o hs fuel S r (by omega) hroom
    · by_cases h1 : dir = 1
      · simp only [h1, show (1 : Nat) ≠ 0 by decide, if_false, if_true]; exact nextDown_stepSpec o hs fuel S r
      · simp only [h0, h1, if_false]; exact nextAlt_stepSpec o hs fuel S r hr
  unfold genPrimes at h
  have := nextPrimes_ok o S r _ hstep k (newGen S r) _ ps i1 i2 i3 (by rw [Prod.ext_iff]; exact ⟨rfl, h⟩)
  exact ⟨this.1, this.2.2.1, fun p hp => ⟨ho p (this.2.1 p hp).prime, (this.2.1 p hp).ntt, (this.2.1 p hp).lo, (this.2.1 p hp).hi⟩⟩

/-- non-vacuity (tests on concrete calls; also what the order theorem says) -/
example : genPrimes exactOracle 1000 0 20 64 3 = .ok [1048897, 1049089, 1049281] ∧
    genPrimes exactOracle 1000 1 20 64 3 = .ok [1048193, 1048129, 1047041] := by
  constructor <;> decide +kernel

/-- **genPrimes_order** — the single-direction generators return their primes in order: upstream strictly
    increasing, all above `2^S`; downstream strictly decreasing, all at most `2^S + 1 − r`. -/
theorem genPrimes_order (o : Oracle) (hs : StopSound o) (fuel S r k : Nat) (hS : S ≤ 61) (hr : 2 ≤ r)
    (hd : r ∣ 2 ^ S) (ps : List Nat) :
    (genPrimes o fuel 0 S r k = .ok ps → ps.Pairwise (· < ·) ∧ ∀ p ∈ ps, 2 ^ S < p) ∧
    (genPrimes o fuel 1 S r k = .ok ps → ps.Pairwise (· > ·) ∧ ∀ p ∈ ps, p + r ≤ 2 ^ S + 1) := by
  obtain ⟨i1, i2, i3, _, _⟩ := newGen_inv hS hr hd
  have hpow : 2 ^ S ≤ 2 ^ 61 := Nat.pow_le_pow_right (by decide) hS
  have hrle : r ≤ 2 ^ S := Nat.le_of_dvd (Nat.two_pow_pos S) hd
  have hroom : 2 ^ (S + 1) + r ≤ W := by rw [Nat.pow_succ]; unfold W; omega
  have hbase : u64add (u64shl 1 S) 1 = 2 ^ S + 1 := by
    rw [u64shl_one (by omega)]
    apply u64add_small
    unfold W; omega
  have hnext : (newGen S r).next = 2 ^ S + 1 := by unfold newGen; simp only [hbase]
  have hprev : (newGen S r).prev = 2 ^ S + 1 - r := by
    unfold newGen; simp only [hbase]
    exact u64sub_small (by omega) (by unfold W; omega)
  constructor
  · intro h
    unfold genPrimes at h
    simp only [if_true] at h
    have := nextPrimes_increasing o S r _ (nextUp_stepSpec o hs fuel S r (by omega) hroom)
      (nextUp_ge o hs fuel S r (by omega) hroom) k (newGen S r) _ ps i1 i2 i3
      (by rw [Prod.ext_iff]; exact ⟨rfl, h⟩)
    refine ⟨this.1, fun p hp => ?_⟩
    have := this.2 p hp
    rw [hnext] at this
    omega
  · intro h
    unfold genPrimes at h
    simp only [show (1 : Nat) ≠ 0 by decide, if_false, if_true] at h
    have := nextPrimes_decreasing o S r _ (nextDown_stepSpec o hs fuel S r)
      (nextDown_le o hs fuel S r) k (newGen S r) _ ps i1 i2 i3
      (by rw [Prod.ext_iff]; exact ⟨rfl, h⟩)
    refine ⟨this.1, fun p hp => ?_⟩
    have := this.2 p hp
    rw [hprev] at this
    omega

/-- **genPrimes_total** — no direction panics, and with stop tests that fire outside the half-bit window
    (`StopComplete`) and `fuel ≥ 2^65` none runs out of fuel: the call returns primes or the exhaustion
    error.  (Before fix C19-4 the single-direction loops had no exit once their direction was disabled.) -/
theorem genPrimes_total (o : Oracle) (hc : StopComplete o) (fuel dir S r k : Nat) (hr : 1 ≤ r)
    (hS : S ≤ 61) (hrS : r ≤ 2 ^ S) (hf : 2 ^ 65 ≤ fuel) :
    (∃ ps, genPrimes o fuel dir S r k = .ok ps) ∨ (∃ c, genPrimes o fuel dir S r k = .err c) := by
  have h1 := genPrimes_ne_panic o fuel dir S r k
  have h2 := genPrimes_ne_hang o hc fuel dir S r k hr hS hrS hf
  cases h : genPrimes o fuel dir S r k with
  | ok ps => exact Or.inl ⟨ps, rfl⟩
  | err c => exact Or.inr ⟨c, rfl⟩
  | panic => exact absurd h h1
  | hang => exact absurd h h2

/-- non-vacuity of the hypotheses: the exact reading of the two float tests satisfies both -/
example : StopSound exactOracle ∧ StopComplete exactOracle := ⟨exactOracle_stopSound, exactOracle_stopComplete⟩

/-- exhaustion is an error, not a spin: a window too small for the request (size 8, root 16: five primes) -/
example : genPrimes exactOracle 1000 2 8 16 6 = .err "exhausted" ∧
    genPrimes exactOracle 1000 2 8 16 5 = .ok [257, 241, 193, 337, 353] := by
  constructor <;> decide +kernel

end Lattigo.Params

#print axioms Lattigo.Params.genPrimes_spec
#print axioms Lattigo.Params.genPrimes_order
#print axioms Lattigo.Params.genPrimes_total
