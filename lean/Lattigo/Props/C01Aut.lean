import Lattigo.Proofs.Aut
import Lattigo.Props.C01NTT
/-!
  # C01 — ring automorphisms `σ_g : a(X) ↦ a(X^g)` (property theorems)

  * `autIndex_spec` — closed form of the table of `ring.AutomorphismNTTIndex`; the definition it is
    about, `Gen.AutomorphismNTTIndex`, is REGENERATED from /repo/ring/automorphism.go by tools/go2lean
    on every `./check` (and is the one the driver executes for the op `autidx`); `bitRev64`
    (`utils.BitReverse64`, checked against utils/utils.go by the translator) is shown to be the
    `k`-bit reversal `NTT.bitRev`.
  * `autNTT_spec` — the NTT of `σ_g a` is the NTT of `a` permuted by that table
    (what `ring.AutomorphismNTTWithIndex` does: `out[i] = in[index[i]]`).
  * `aut_comp` — `σ_g ∘ σ_h = σ_{gh mod 2N}` for the coefficient-domain model `RPoly.rowAut` /
    `RPoly.aut` (`ring.Automorphism`).
-/
namespace Lattigo.Props.C01Aut
open Lattigo Lattigo.Gen Lattigo.NTT

/-- `utils.BitReverse64(x, k) = bits.Reverse64(x) >> (64 − k)` reverses the `k` low bits of `x`
(`k ≤ 64`, every `x`) -/
theorem bitRev64_spec (x k : ℕ) (hk : k ≤ 64) : bitRev64 x k = bitRev x k := bitRev64_eq x k hk

/-- **autIndex_spec** (any power-of-two `N = 2^K`, `NthRoot = 2^m`, `1 ≤ m ≤ 64`; `m = K+1` is the
standard ring, `m = K+2` the conjugate-invariant one), odd `GalEl`: `AutomorphismNTTIndex` returns no
error and `index[i] = brv((GalEl·(2·brv(i)+1) mod NthRoot − 1)/2)`, `brv` = reversal of `m−1` bits. -/
theorem autIndex_spec (K m gal : ℕ) (hK : K < 64) (hm1 : 1 ≤ m) (hm : m ≤ 64) (hodd : gal % 2 = 1) :
    AutomorphismNTTIndex (2 ^ K) (2 ^ m) gal
      = some ((List.range (2 ^ K)).map fun i =>
          bitRev ((gal * (2 * bitRev i (m - 1) + 1) % 2 ^ m - 1) / 2) (m - 1)) :=
  AutomorphismNTTIndex_eq K m gal hK hm1 hm hodd

/-- standard ring (`NthRoot = 2N`): entries are `< N` and
`2·brv(index[i]) + 1 ≡ GalEl·(2·brv(i)+1) (mod 2N)` — the table sends the exponent of the `i`-th NTT
evaluation point `ψ^{2·brv(i)+1}` to that exponent times `GalEl`. -/
theorem autIndex_std (K gal : ℕ) (hK : K < 63) (hodd : gal % 2 = 1) :
    ∃ index, AutomorphismNTTIndex (2 ^ K) (2 ^ (K + 1)) gal = some index
      ∧ index.length = 2 ^ K
      ∧ ∀ i, i < 2 ^ K → index.getD i 0 < 2 ^ K
          ∧ 2 * bitRev (index.getD i 0) K + 1 = gal * (2 * bitRev i K + 1) % 2 ^ (K + 1) := by
  refine ⟨_, AutomorphismNTTIndex_eq K (K + 1) gal (by omega) (by omega) (by omega) hodd, by simp, ?_⟩
  intro i hi
  have hget : ((List.range (2 ^ K)).map (autIdx (K + 1) gal)).getD i 0 = autIdx (K + 1) gal i := by
    rw [List.getD_eq_getElem?_getD, List.getElem?_eq_getElem (by simpa using hi)]; simp
  rw [hget]
  have h1 := autIdx_lt (K + 1) gal i
  have h2 := autIdx_exponent (K + 1) gal i (by omega) hodd
  simp only [Nat.add_sub_cancel] at h1 h2
  exact ⟨h1, h2⟩

/-- `ring.AutomorphismNTTWithIndex` on one row: `out[i] = in[index[i]]` -/
def permuteByIndex (index y : List ℕ) : List ℕ := index.map fun j => y.getD j 0

/-- **autNTT_spec**: with the tables the code generates for a prime `q ≡ 1 (mod 2N)`, `N = 2^K ≥ 2`,
and odd `gal`: the forward NTT of `σ_gal a` (`RPoly.rowAut gal q a`, the coefficient-domain
automorphism) is the forward NTT of `a` permuted by the table `AutomorphismNTTIndex(N, 2N, gal)`:
`NTT(σ_gal a) = [NTT(a)[index[0]], …, NTT(a)[index[N−1]]]`. -/
theorem autNTT_spec (K q g gal : ℕ) (hK : 1 ≤ K) (hq : q.Prime) (h8 : 8 * q ≤ W)
    (hdiv : 2 ^ (K + 1) ∣ q - 1) (hg : g ^ ((q - 1) / 2) % q = q - 1) (hgal : gal % 2 = 1)
    (a : List ℕ) (hlen : a.length = 2 ^ K) (ha : ∀ x ∈ a, x < q)
    (index : List ℕ) (hidx : AutomorphismNTTIndex (2 ^ K) (2 ^ (K + 1)) gal = some index) :
    nttStd (mkTables (2 ^ K) q (2 ^ (K + 1)) g) (RPoly.rowAut gal q a)
      = permuteByIndex index (nttStd (mkTables (2 ^ K) q (2 ^ (K + 1)) g) a) := by
  -- `2^(K+1) ≤ q − 1 < 2^61`
  have hK64 : K + 1 < 64 := by
    have h1 : 2 ^ (K + 1) ≤ q - 1 := Nat.le_of_dvd (by have := hq.two_le; omega) hdiv
    have h2 : 2 ^ (K + 1) < 2 ^ 64 := by unfold W at h8; omega
    exact (Nat.pow_lt_pow_iff_right (by norm_num)).1 h2
  rw [AutomorphismNTTIndex_eq K (K + 1) gal (by omega) (by omega) (by omega) hgal] at hidx
  obtain rfl := Option.some.inj hidx
  rw [nttStd_rowAut K q g gal hK hq h8 hdiv hg hgal a hlen ha]
  unfold permuteByIndex
  rw [List.map_map]; rfl

/-- **aut_comp** (one row): `σ_g(σ_h a) = σ_{g·h mod 2N} a` for odd `g, h`, `N = 2^K`, entries `< q`. -/
theorem aut_comp_row (K g h q : ℕ) (a : List ℕ) (hlen : a.length = 2 ^ K) (hg : g % 2 = 1)
    (hh : h % 2 = 1) (ha : ∀ v ∈ a, v < q) :
    RPoly.rowAut g q (RPoly.rowAut h q a) = RPoly.rowAut (g * h % (2 * 2 ^ K)) q a :=
  rowAut_comp K g h q a hlen hg hh ha

theorem mapRows_mapRows (F G : ℕ → List ℕ → List ℕ) (a : RPoly) :
    RPoly.mapRows F (RPoly.mapRows G a) = RPoly.mapRows (fun q x => F q (G q x)) a := by
  unfold RPoly.mapRows
  simp only [RPoly.mk.injEq, true_and]
  generalize a.qs = qs
  generalize a.c = c
  induction qs generalizing c with
  | nil => simp
  | cons q qs ih =>
    cases c with
    | nil => simp
    | cons x c => simp [ih c]

/-- **aut_comp** (RNS polynomial): on a well-formed `a` (every row of length `N = 2^K` with entries below
its modulus), `aut (aut a h) g = aut a (g·h mod 2N)`. -/
theorem aut_comp (K g h : ℕ) (a : RPoly) (hg : g % 2 = 1) (hh : h % 2 = 1)
    (hwf : ∀ p ∈ a.qs.zip a.c, p.2.length = 2 ^ K ∧ ∀ v ∈ p.2, v < p.1) :
    RPoly.aut (RPoly.aut a h) g = RPoly.aut a (g * h % (2 * 2 ^ K)) := by
  unfold RPoly.aut
  rw [mapRows_mapRows]
  unfold RPoly.mapRows
  simp only [RPoly.mk.injEq, true_and]
  apply List.map_congr_left
  intro p hp
  obtain ⟨hl, hv⟩ := hwf p hp
  exact rowAut_comp K g h p.1 p.2 hl hg hh hv

/-! ## non-vacuity and tests -/

/-- TEST (evaluation): the table for `N = 8`, `GalEl = 5` and `GalEl = 2N − 1 = 15` (conjugation) -/
example : AutomorphismNTTIndex 8 16 5 = some [2, 3, 1, 0, 7, 6, 4, 5] := by decide +kernel
example : AutomorphismNTTIndex 8 16 15 = some [7, 6, 5, 4, 3, 2, 1, 0] := by decide +kernel
/-- error returns: `N` resp. `NthRoot` not a power of two -/
example : AutomorphismNTTIndex 6 16 5 = none := by decide
example : AutomorphismNTTIndex 8 12 5 = none := by decide
/-- `bitRev64` on a full 64-bit word -/
example : bitRev64 1 64 = 2 ^ 63 := by decide

/-- non-vacuity of `autNTT_spec`: `q = q61`, `N = 16`, `g = 37` (hypotheses as in `C01NTT`) -/
example (gal : ℕ) (hgal : gal % 2 = 1) (a : List ℕ) (hlen : a.length = 2 ^ 4)
    (ha : ∀ x ∈ a, x < C01NTT.q61) (index : List ℕ)
    (hidx : AutomorphismNTTIndex (2 ^ 4) (2 ^ 5) gal = some index) :
    nttStd (mkTables (2 ^ 4) C01NTT.q61 (2 ^ 5) 37) (RPoly.rowAut gal C01NTT.q61 a)
      = permuteByIndex index (nttStd (mkTables (2 ^ 4) C01NTT.q61 (2 ^ 5) 37) a) :=
  autNTT_spec 4 C01NTT.q61 37 gal (by decide) C01NTT.q61_prime (by decide) (by decide)
    C01NTT.q61_nonresidue hgal a hlen ha index hidx

/-- TEST (evaluation, Fermat prime `65537`, `N = 16`, `gal = 5`): both sides computed -/
example : nttStd (mkTables 16 65537 32 3) (RPoly.rowAut 5 65537 ((List.range 16).map (· + 1)))
    = permuteByIndex ((AutomorphismNTTIndex 16 32 5).getD [])
        (nttStd (mkTables 16 65537 32 3) ((List.range 16).map (· + 1))) := by decide +kernel

/-- non-vacuity of `aut_comp`: a 2-row polynomial of degree 8 -/
example : RPoly.aut (RPoly.aut { qs := [97, 193], c := [[1, 2, 3, 4, 5, 6, 7, 8], [8, 7, 6, 5, 4, 3, 2, 1]] } 3) 5
    = RPoly.aut { qs := [97, 193], c := [[1, 2, 3, 4, 5, 6, 7, 8], [8, 7, 6, 5, 4, 3, 2, 1]] } (5 * 3 % (2 * 2 ^ 3)) :=
  aut_comp 3 5 3 _ (by decide) (by decide) (by decide)

/-- the hypothesis "entries `< q`" of `aut_comp` is needed: on the non-reduced row `[q, 0]` a double
negation does not give the entry back (`σ_3 σ_3 = σ_1` on `N = 2`) -/
example : RPoly.rowAut 3 5 (RPoly.rowAut 3 5 [0, 5]) ≠ RPoly.rowAut (3 * 3 % (2 * 2 ^ 1)) 5 [0, 5] := by
  decide

end Lattigo.Props.C01Aut

#print axioms Lattigo.Props.C01Aut.bitRev64_spec
#print axioms Lattigo.Props.C01Aut.autIndex_spec
#print axioms Lattigo.Props.C01Aut.autIndex_std
#print axioms Lattigo.Props.C01Aut.autNTT_spec
#print axioms Lattigo.Props.C01Aut.aut_comp_row
#print axioms Lattigo.Props.C01Aut.mapRows_mapRows
#print axioms Lattigo.Props.C01Aut.aut_comp
