/-
  Property C04 — the decomposition sizes the key-switch model uses are the REGENERATED ones.

  `Props/C04.lean` is stated about `Lattigo.KS` (`Model/Gadget.lean`), whose digit counts
  `baseRNSDecompositionVectorSize`, `baseTwoDecompositionVectorSize` (and `gadgetShape` built from them)
  were transcribed by hand from `core/rlwe/params.go`.  `Lattigo/Gen/Params.lean` is printed from that
  file on every `./check C04`; below, the hand-written counts are proved equal to the generated ones
  for all inputs (levels and bases below `2^62`, moduli below `2^64`), so a change of the Go formulas
  breaks an obligation here.
-/
import Lattigo.Proofs.GenParams

namespace Lattigo.Props.C04Gen
open Lattigo Lattigo.Gen.Params Lattigo.Proofs.GenParams

/-- the RNS digit count of the C04 model is the regenerated `BaseRNSDecompositionVectorSize`
    (`levelP` = the word of the `int` `nP - 1`; `nP = 0`: no `P`, `levelP = -1`). -/
theorem baseRNSDecompositionVectorSize_gen (levelQ nP : Nat) (hq : levelQ < 2 ^ 62) (hp : nP < 2 ^ 62) :
    KS.baseRNSDecompositionVectorSize levelQ nP
      = BaseRNSDecompositionVectorSize levelQ (i64ofInt ((nP : Int) - 1)) :=
  (BaseRNS_eq levelQ nP hq hp).symm

example : KS.baseRNSDecompositionVectorSize 6 3 = BaseRNSDecompositionVectorSize 6 (i64ofInt 2) :=
  baseRNSDecompositionVectorSize_gen 6 3 (by norm_num) (by norm_num)

/-- the power-of-two digit counts of the C04 model are the regenerated
    `BaseTwoDecompositionVectorSize`. -/
theorem baseTwoDecompositionVectorSize_gen (qs : List Nat) (levelQ nP w : Nat) (hp : nP < 2 ^ 62)
    (hw : w < 2 ^ 62) (hqs : ∀ q ∈ qs, q < W) :
    KS.baseTwoDecompositionVectorSize qs nP w
      = BaseTwoDecompositionVectorSize qs levelQ (i64ofInt ((nP : Int) - 1)) w :=
  (BaseTwo_eq qs levelQ nP w hp hw hqs).symm

example : KS.baseTwoDecompositionVectorSize [65537, 1152921504606847009] 1 10
    = BaseTwoDecompositionVectorSize [65537, 1152921504606847009] 1 (i64ofInt 0) 10 :=
  baseTwoDecompositionVectorSize_gen _ 1 1 10 (by norm_num) (by norm_num) (by decide)

/-- the shape of a gadget ciphertext (`NewGadgetCiphertext`: rows × digits) of the C04 model, from the
    regenerated counts. -/
theorem gadgetShape_gen (qs : List Nat) (levelQ nP w : Nat) (hq : levelQ < 2 ^ 62) (hp : nP < 2 ^ 62)
    (hw : w < 2 ^ 62) (hqs : ∀ q ∈ qs, q < W) :
    KS.gadgetShape qs levelQ nP w
      = (List.range (BaseRNSDecompositionVectorSize levelQ (i64ofInt ((nP : Int) - 1)))).map fun i =>
          (BaseTwoDecompositionVectorSize qs levelQ (i64ofInt ((nP : Int) - 1)) w).getD i 0 := by
  unfold KS.gadgetShape
  rw [baseRNSDecompositionVectorSize_gen levelQ nP hq hp,
    baseTwoDecompositionVectorSize_gen qs levelQ nP w hp hw hqs]

end Lattigo.Props.C04Gen

#print axioms Lattigo.Props.C04Gen.baseRNSDecompositionVectorSize_gen
#print axioms Lattigo.Props.C04Gen.baseTwoDecompositionVectorSize_gen
#print axioms Lattigo.Props.C04Gen.gadgetShape_gen
