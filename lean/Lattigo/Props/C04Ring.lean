/-
  C04 on the carrier the driver executes.

  `Props/C04.lean` proves `gadget_row`, `expand_eq`, `keyswitch_phase_QP`, `keyswitch_phase`,
  `keyswitch_decrypts`, `relin_phase`, `automorphism_phase`, `automorphismHoistedLazy_phase` for the
  generic functions of `Model/Gadget.lean`, `Model/KeySwitch.lean` over EVERY commutative ring; the
  driver (`Driver/C04.lean`) runs them on plain `RPoly` values.  Here they are instantiated at the
  commutative ring `WFPoly qs n` (`Proofs/RPolyRing.lean`) and transported to `RPoly`:

    hypotheses = well-formedness of the INPUTS (`WFq qs n a` : `a.qs = qs ∧ a.WF n`) + the hypotheses
                 (G), (R) of the generic theorems, stated on the `RPoly` values;
    conclusion = the same identity between `RPoly` values computed by the model functions
                 (`0` is `RPoly.zero qs n`, `1` is `rpOne qs n`, `σ_g` is `RPoly.aut g`, `π` keeps the `Q` rows).

  1. naturality (`…_push`) of every generic function w.r.t. maps preserving `+ * − neg`;
  2. generic statements whose proof lives only in `Props/C04.lean` (`…_gen`, same statement and proof;
     `Props/C04.lean` imports this file, so they cannot be imported);
  3. the `…_rpoly` theorems;
  4. the driver: `gadgetProductR` (ops `gp`, `apply`, `relin`, `aut`) IS `modDown ∘ dotMat ∘ decompose`
     (`gadgetProductR_eq`, `modDownR_eq`), the `apply` handler computes `applyEvaluationKey` of it
     (`handleKs_apply_calls`), the driver's gadget vector `pgElt` is well formed (`pgElt_wf`), and for that
     expression the phase theorem holds with the driver's own digits / `P⁻¹` / centred remainders
     (`driver_apply_phase`);
  5. a concrete instance (`qs = [97, 193]`, `n = 8`).

  NOT transported / left as hypotheses (reason):
  * (G) `Σ d_ij·P·g_ij = P·c` for the digits `decompose` produces and (R)
    `π E − ρ₀ − ρ₁·s = P·ν` for `ρ = modUpPtoQ` (centred remainder; `floatIndex` uses IEEE doubles)
    are hypotheses on the `RPoly` values, as in the generic theorems: they are arithmetic of C02 /
    `gadget_identity`, not ring identities.  `π P · pinv = 1` likewise (it holds for `pinvElt` when the
    moduli are pairwise coprime; not proved here).
  * `degree_up_phase` / `degree_down_phase` need `embedR` to be a ring hom between rings of different
    degree and `projectR` a linear retraction: not available from `RPolyRing`; not transported.
  * `gadget_identity`, `digits_*`, `digitCount_*`, `noP_*`, `hoisted_eq_plain_R` are already statements
    about `Nat`/`RPoly` (nothing to transport).
-/
import Lattigo.Proofs.RPolyTransport
import Lattigo.Proofs.KeySwitch
import Lattigo.Proofs.KeySwitchHoisted
import Driver.C04

set_option linter.unusedSectionVars false
set_option linter.unusedSimpArgs false

namespace Lattigo.KS.C04Ring
open Lattigo Lattigo.KS Lattigo.RPolyRing Lattigo.Transport

/-! ## 1. Naturality of the model functions (push a map inside) -/

section naturality
variable {α β : Type} [Add α] [Mul α] [Neg α] [Sub α] [Add β] [Mul β] [Neg β] [Sub β]
variable {φ : α → β} (hφ : OpsHom φ)
include hφ

theorem phase_push (ct : α × α) (s : α) : φ (phase ct s) = phase (Prod.map φ φ ct) (φ s) := by
  simp only [phase, Prod.map, hφ.add, hφ.mul]

theorem encZero_push (a e s : α) : Prod.map φ φ (encZero a e s) = encZero (φ a) (φ e) (φ s) := by
  simp only [encZero, Prod.map, hφ.sub, hφ.mul]

theorem evkRow_push (a e sOut pgs : α) :
    Prod.map φ φ (evkRow a e sOut pgs) = evkRow (φ a) (φ e) (φ sOut) (φ pgs) := by
  simp only [evkRow, encZero, Prod.map, hφ.add, hφ.sub, hφ.mul]

theorem genRowFrom_push (pg : Nat → Nat → α) (sIn sOut : α) (i : Nat) :
    ∀ (j : Nat) (row : List (α × α)),
      (genRowFrom pg sIn sOut i j row).map (Prod.map φ φ)
        = genRowFrom (fun i j => φ (pg i j)) (φ sIn) (φ sOut) i j (row.map (Prod.map φ φ))
  | _, [] => rfl
  | j, (a, e) :: rest => by
      simp only [genRowFrom, List.map_cons, evkRow_push hφ, hφ.mul, Prod.map_apply]
      rw [genRowFrom_push pg sIn sOut i (j + 1) rest]

theorem genFrom_push (pg : Nat → Nat → α) (sIn sOut : α) :
    ∀ (i : Nat) (m : List (List (α × α))),
      (genFrom pg sIn sOut i m).map (List.map (Prod.map φ φ))
        = genFrom (fun i j => φ (pg i j)) (φ sIn) (φ sOut) i (m.map (List.map (Prod.map φ φ)))
  | _, [] => rfl
  | i, row :: rest => by
      simp only [genFrom, List.map_cons, genRowFrom_push hφ]
      rw [genFrom_push pg sIn sOut (i + 1) rest]

theorem genEvaluationKey_push (pg : Nat → Nat → α) (sIn sOut : α) (m : List (List (α × α))) :
    (genEvaluationKey pg sIn sOut m).map (List.map (Prod.map φ φ))
      = genEvaluationKey (fun i j => φ (pg i j)) (φ sIn) (φ sOut) (m.map (List.map (Prod.map φ φ))) :=
  genFrom_push hφ pg sIn sOut 0 m

theorem genRelinearizationKey_push (pg : Nat → Nat → α) (s : α) (m : List (List (α × α))) :
    (genRelinearizationKey pg s m).map (List.map (Prod.map φ φ))
      = genRelinearizationKey (fun i j => φ (pg i j)) (φ s) (m.map (List.map (Prod.map φ φ))) := by
  simp only [genRelinearizationKey, genEvaluationKey_push hφ, hφ.mul]

theorem genGaloisKey_push (σ : α → α) (σ' : β → β) (hσ : ∀ x, φ (σ x) = σ' (φ x))
    (pg : Nat → Nat → α) (s : α) (m : List (List (α × α))) :
    (genGaloisKey σ pg s m).map (List.map (Prod.map φ φ))
      = genGaloisKey σ' (fun i j => φ (pg i j)) (φ s) (m.map (List.map (Prod.map φ φ))) := by
  simp only [genGaloisKey, genEvaluationKey_push hφ, hσ]

theorem dotRow_push (z : α) : ∀ (d : List α) (k : List (α × α)),
    Prod.map φ φ (dotRow z d k) = dotRow (φ z) (d.map φ) (k.map (Prod.map φ φ))
  | [], _ => by simp [dotRow]
  | _ :: _, [] => by simp [dotRow]
  | x :: xs, (b, a) :: ks => by
      have ih := dotRow_push z xs ks
      simp only [Prod.map, Prod.ext_iff] at ih
      simp only [dotRow, List.map_cons, Prod.map, hφ.add, hφ.mul, ih.1, ih.2]

theorem dotMat_push (z : α) : ∀ (d : List (List α)) (k : List (List (α × α))),
    Prod.map φ φ (dotMat z d k) = dotMat (φ z) (d.map (List.map φ)) (k.map (List.map (Prod.map φ φ)))
  | [], _ => by simp [dotMat]
  | _ :: _, [] => by simp [dotMat]
  | di :: ds, ei :: es => by
      have ih := dotMat_push z ds es
      have hr := dotRow_push hφ z di ei
      simp only [Prod.map, Prod.ext_iff] at ih hr
      simp only [dotMat, List.map_cons, Prod.map, hφ.add, ih.1, ih.2, hr.1, hr.2]

theorem dotMat_push_fst (z : α) (d : List (List α)) (k : List (List (α × α))) :
    φ (dotMat z d k).1 = (dotMat (φ z) (d.map (List.map φ)) (k.map (List.map (Prod.map φ φ)))).1 :=
  congrArg Prod.fst (dotMat_push hφ z d k)

theorem dotMat_push_snd (z : α) (d : List (List α)) (k : List (List (α × α))) :
    φ (dotMat z d k).2 = (dotMat (φ z) (d.map (List.map φ)) (k.map (List.map (Prod.map φ φ)))).2 :=
  congrArg Prod.snd (dotMat_push hφ z d k)

theorem wsumRow_push (z : α) : ∀ (x y : List α),
    φ (wsumRow z x y) = wsumRow (φ z) (x.map φ) (y.map φ)
  | [], _ => by simp [wsumRow]
  | _ :: _, [] => by simp [wsumRow]
  | x :: xs, y :: ys => by simp only [wsumRow, List.map_cons, hφ.add, hφ.mul, wsumRow_push z xs ys]

theorem wsumMat_push (z : α) : ∀ (x y : List (List α)),
    φ (wsumMat z x y) = wsumMat (φ z) (x.map (List.map φ)) (y.map (List.map φ))
  | [], _ => by simp [wsumMat]
  | _ :: _, [] => by simp [wsumMat]
  | x :: xs, y :: ys => by
      simp only [wsumMat, List.map_cons, hφ.add, wsumRow_push hφ, wsumMat_push z xs ys]

theorem modDown_push (pinv xQ rho : α) : φ (modDown pinv xQ rho) = modDown (φ pinv) (φ xQ) (φ rho) := by
  simp only [modDown, hφ.mul, hφ.sub]

theorem applyEvaluationKey_push (ks ct : α × α) :
    Prod.map φ φ (applyEvaluationKey ks ct) = applyEvaluationKey (Prod.map φ φ ks) (Prod.map φ φ ct) := by
  simp only [applyEvaluationKey, Prod.map, hφ.add]

theorem relinearize_push (ks : α × α) (ct : α × α × α) :
    Prod.map φ φ (relinearize ks ct)
      = relinearize (Prod.map φ φ ks) (φ ct.1, φ ct.2.1, φ ct.2.2) := by
  simp only [relinearize, Prod.map, hφ.add]

theorem automorphism_push (σ : α → α) (σ' : β → β) (hσ : ∀ x, φ (σ x) = σ' (φ x)) (ks ct : α × α) :
    Prod.map φ φ (automorphism σ ks ct) = automorphism σ' (Prod.map φ φ ks) (Prod.map φ φ ct) := by
  simp only [automorphism, Prod.map, hσ, hφ.add]

theorem automorphismHoistedLazy_push (σ : α → α) (σ' : β → β) (hσ : ∀ x, φ (σ x) = σ' (φ x))
    (x : α × α) (pc0 : α) :
    Prod.map φ φ (automorphismHoistedLazy σ x pc0) = automorphismHoistedLazy σ' (Prod.map φ φ x) (φ pc0) := by
  simp only [automorphismHoistedLazy, Prod.map, hσ, hφ.add]

end naturality

/-! ### the spec-side views -/

section views
variable {α β γ δ : Type}

theorem idxRowFrom_push (φ : α → β) (f : Nat → Nat → α) (i : Nat) : ∀ (j : Nat) (row : List γ),
    (idxRowFrom f i j row).map φ = idxRowFrom (fun i j => φ (f i j)) i j row
  | _, [] => rfl
  | j, _ :: rest => by simp only [idxRowFrom, List.map_cons, idxRowFrom_push φ f i (j + 1) rest]

theorem idxMatFrom_push (φ : α → β) (f : Nat → Nat → α) : ∀ (i : Nat) (m : List (List γ)),
    (idxMatFrom f i m).map (List.map φ) = idxMatFrom (fun i j => φ (f i j)) i m
  | _, [] => rfl
  | i, row :: rest => by
      simp only [idxMatFrom, List.map_cons, idxRowFrom_push, idxMatFrom_push φ f (i + 1) rest]

theorem pgMat_push (φ : α → β) (pg : Nat → Nat → α) (m : List (List γ)) :
    (pgMat pg m).map (List.map φ) = pgMat (fun i j => φ (pg i j)) m := idxMatFrom_push φ pg 0 m

theorem idxRowFrom_shape (g : γ → δ) (f : Nat → Nat → α) (i : Nat) : ∀ (j : Nat) (row : List γ),
    idxRowFrom f i j (row.map g) = idxRowFrom f i j row
  | _, [] => rfl
  | j, _ :: rest => by simp only [idxRowFrom, List.map_cons, idxRowFrom_shape g f i (j + 1) rest]

theorem idxMatFrom_shape (g : γ → δ) (f : Nat → Nat → α) : ∀ (i : Nat) (m : List (List γ)),
    idxMatFrom f i (m.map (List.map g)) = idxMatFrom f i m
  | _, [] => rfl
  | i, row :: rest => by
      simp only [idxMatFrom, List.map_cons, idxRowFrom_shape, idxMatFrom_shape g f (i + 1) rest]

/-- `pgMat` only looks at the shape of the sample matrix -/
theorem pgMat_shape (g : γ → δ) (pg : Nat → Nat → α) (m : List (List γ)) :
    pgMat pg (m.map (List.map g)) = pgMat pg m := idxMatFrom_shape g pg 0 m

theorem eMat_push (φ : α → β) (m : List (List (α × α))) :
    (eMat m).map (List.map φ) = eMat (m.map (List.map (Prod.map φ φ))) := by
  simp [eMat, Function.comp_def]

theorem aMat_push (φ : α → β) (m : List (List (α × α))) :
    (aMat m).map (List.map φ) = aMat (m.map (List.map (Prod.map φ φ))) := by
  simp [aMat, Function.comp_def]

end views

/-! ## 2. Generic statements proved in `Props/C04.lean` (same statements, same proofs) -/

section gen

theorem gadget_row_gen {α : Type} [CommRing α] (pg : Nat → Nat → α) (sIn sOut : α)
    (samples : List (List (α × α))) :
    (genEvaluationKey pg sIn sOut samples).map (fun r => r.map fun k => phase k sOut)
      = List.zipWith (fun pr er => List.zipWith (fun p e => p * sIn + e) pr er)
          (pgMat pg samples) (eMat samples) := by
  suffices h : ∀ (i : Nat) (m : List (List (α × α))),
      (genFrom pg sIn sOut i m).map (fun r => r.map fun k => phase k sOut)
        = List.zipWith (fun pr er => List.zipWith (fun p e => p * sIn + e) pr er)
            (idxMatFrom pg i m) (eMat m) from h 0 samples
  have hrow : ∀ (i j : Nat) (row : List (α × α)),
      (genRowFrom pg sIn sOut i j row).map (fun k => phase k sOut)
        = List.zipWith (fun p e => p * sIn + e) (idxRowFrom pg i j row) (row.map Prod.snd) := by
    intro i j row
    induction row generalizing j with
    | nil => rfl
    | cons ae rest ih =>
      obtain ⟨a, e⟩ := ae
      simp only [genRowFrom, idxRowFrom, List.map_cons, List.zipWith_cons_cons, KS.gadget_row, ih]
  intro i m
  induction m generalizing i with
  | nil => rfl
  | cons row rest ih =>
    simp only [genFrom, idxMatFrom, eMat, List.map_cons, List.zipWith_cons_cons, hrow] at ih ⊢
    rw [ih]

theorem keyswitch_decrypts_gen {A B : Type} [CommRing A] [CommRing B] (π : A →+* B)
    (pg : Nat → Nat → A) (P c1 sIn sOut : A) (samples : List (List (A × A))) (d : List (List A))
    (pinv rho0 rho1 ν c0 : B)
    (hG : wsumMat 0 d (pgMat pg samples) = P * c1) (hP : π P * pinv = 1)
    (hR : π (wsumMat 0 d (eMat samples)) - (rho0 + rho1 * π sOut) = π P * ν) :
    let x := dotMat 0 d (genEvaluationKey pg sIn sOut samples)
    let ks := (modDown pinv (π x.1) rho0, modDown pinv (π x.2) rho1)
    phase (applyEvaluationKey ks (c0, π c1)) (π sOut) = phase (c0, π c1) (π sIn) + ν := by
  intro x ks
  exact applyEvaluationKey_phase ks (c0, π c1) (π sIn) (π sOut) ν
    (KS.keyswitch_phase π pg P c1 sIn sOut samples d pinv rho0 rho1 ν hG hP hR)

theorem relin_phase_gen {A B : Type} [CommRing A] [CommRing B] (π : A →+* B)
    (pg : Nat → Nat → A) (P c2 s : A) (samples : List (List (A × A))) (d : List (List A))
    (pinv rho0 rho1 ν c0 c1 : B)
    (hG : wsumMat 0 d (pgMat pg samples) = P * c2) (hP : π P * pinv = 1)
    (hR : π (wsumMat 0 d (eMat samples)) - (rho0 + rho1 * π s) = π P * ν) :
    let x := dotMat 0 d (genRelinearizationKey pg s samples)
    let ks := (modDown pinv (π x.1) rho0, modDown pinv (π x.2) rho1)
    phase (relinearize ks (c0, c1, π c2)) (π s) = c0 + c1 * π s + π c2 * (π s * π s) + ν := by
  intro x ks
  have h := KS.keyswitch_phase π pg P c2 (s * s) s samples d pinv rho0 rho1 ν hG hP hR
  simp only [map_mul] at h
  exact KS.relin_phase ks (c0, c1, π c2) (π s) ν h

theorem automorphism_phase_gen {A B : Type} [CommRing A] [CommRing B] (π : A →+* B) (σB : B →+* B)
    (σinvA : A → A) (pg : Nat → Nat → A) (P c1 s : A) (samples : List (List (A × A)))
    (d : List (List A)) (pinv rho0 rho1 ν c0 : B)
    (hσ : σB (π (σinvA s)) = π s)
    (hG : wsumMat 0 d (pgMat pg samples) = P * c1) (hP : π P * pinv = 1)
    (hR : π (wsumMat 0 d (eMat samples)) - (rho0 + rho1 * π (σinvA s)) = π P * ν) :
    let x := dotMat 0 d (genGaloisKey σinvA pg s samples)
    let ks := (modDown pinv (π x.1) rho0, modDown pinv (π x.2) rho1)
    phase (automorphism σB ks (c0, π c1)) (π s) = σB (phase (c0, π c1) (π s)) + σB ν := by
  intro x ks
  have h := KS.keyswitch_phase π pg P c1 s (σinvA s) samples d pinv rho0 rho1 ν hG hP hR
  exact KS.automorphism_phase σB (fun _ => π (σinvA s)) ks (c0, π c1) (π s) ν hσ h

theorem automorphismHoistedLazy_phase_gen {α : Type} [CommRing α] (σ : α →+* α) (σinv : α → α)
    (pg : Nat → Nat → α) (P c0 c1 s : α) (samples : List (List (α × α))) (d : List (List α))
    (hσ : σ (σinv s) = s) (hG : wsumMat 0 d (pgMat pg samples) = P * c1) :
    phase (automorphismHoistedLazy σ (dotMat 0 d (genGaloisKey σinv pg s samples)) (P * c0)) s
      = σ (P * phase (c0, c1) s + wsumMat 0 d (eMat samples)) :=
  KS.automorphismHoistedLazy_phase σ σinv _ P c0 c1 s _ hσ
    (KS.keyswitch_phase_QP pg P c1 s (σinv s) samples d hG)

end gen

/-! ## 3. The theorems on `RPoly` values -/

/-- every entry of a matrix of polynomials / of sample pairs is well formed -/
def WFmat (qs : List ℕ) (n : ℕ) (d : List (List RPoly)) : Prop := ∀ r ∈ d, ∀ p ∈ r, WFq qs n p
def WFpairs (qs : List ℕ) (n : ℕ) (m : List (List (RPoly × RPoly))) : Prop :=
  ∀ r ∈ m, ∀ p ∈ r, WFq qs n p.1 ∧ WFq qs n p.2

instance (qs : List ℕ) (n : ℕ) (d : List (List RPoly)) : Decidable (WFmat qs n d) := by
  unfold WFmat; infer_instance
instance (qs : List ℕ) (n : ℕ) (m : List (List (RPoly × RPoly))) : Decidable (WFpairs qs n m) := by
  unfold WFpairs; infer_instance

section rpoly
variable {qs : List ℕ} {n : ℕ} [Good qs n]

theorem zipWith2_push {α β : Type} (φ : α → β) (f : α → α → α) (f' : β → β → β)
    (h : ∀ x y, φ (f x y) = f' (φ x) (φ y)) (A B : List (List α)) :
    (List.zipWith (fun pr er => List.zipWith f pr er) A B).map (List.map φ)
      = List.zipWith (fun pr er => List.zipWith f' pr er) (A.map (List.map φ)) (B.map (List.map φ)) := by
  simp only [List.map_zipWith, List.zipWith_map, h]

theorem map2_phase_push {α β : Type} [Add α] [Mul α] [Neg α] [Sub α] [Add β] [Mul β] [Neg β] [Sub β]
    {φ : α → β} (hφ : OpsHom φ) (s : α) (k : List (List (α × α))) :
    (k.map (fun r => r.map fun e => phase e s)).map (List.map φ)
      = (k.map (List.map (Prod.map φ φ))).map (fun r => r.map fun e => phase e (φ s)) := by
  simp only [List.map_map, Function.comp_def, phase_push hφ]

/-- **gadget_row_rpoly.**  `phase(evk[i][j], s_out) = P·g_ij·s_in + e_ij`, entry by entry, for the key the
model generates on `RPoly` values. -/
theorem gadget_row_rpoly (pg : Nat → Nat → RPoly) (sIn sOut : RPoly) (samples : List (List (RPoly × RPoly)))
    (hpg : ∀ i j, WFq qs n (pg i j)) (hsIn : WFq qs n sIn) (hsOut : WFq qs n sOut)
    (hsm : WFpairs qs n samples) :
    (genEvaluationKey pg sIn sOut samples).map (fun r => r.map fun k => phase k sOut)
      = List.zipWith (fun pr er => List.zipWith (fun p e => p * sIn + e) pr er)
          (pgMat pg samples) (eMat samples) := by
  obtain ⟨pg, rfl⟩ := exists_lift_fun2 pg hpg
  obtain ⟨sIn, rfl⟩ := exists_lift sIn hsIn
  obtain ⟨sOut, rfl⟩ := exists_lift sOut hsOut
  obtain ⟨samples, rfl⟩ := exists_lift_pairMat samples hsm
  have h := congrArg (List.map (List.map val)) (gadget_row_gen pg sIn sOut samples)
  rw [map2_phase_push val_hom, genEvaluationKey_push val_hom,
    zipWith2_push val (fun p e => p * sIn + e) (fun p e => p * val sIn + e)
      (fun x y => by rw [val_hom.add, val_hom.mul]),
    pgMat_push, eMat_push] at h
  rw [pgMat_shape]
  exact h

/-- **expand_eq_rpoly** — no hypothesis at all (the statement only uses the list structure) -/
theorem expand_eq_rpoly (pg : Nat → Nat → RPoly) (sIn sOut : RPoly) (samples : List (List (RPoly × RPoly))) :
    expand (compress (genEvaluationKey pg sIn sOut samples)) (aMat samples)
      = genEvaluationKey pg sIn sOut samples := KS.expand_eq pg sIn sOut samples

/-- **keyswitch_phase_QP_rpoly.**  Under (G), the inner product of the digit matrix with the generated key
has phase `P·c·s_in + Σ d_ij·e_ij` under `s_out` — an identity between `RPoly` values. -/
theorem keyswitch_phase_QP_rpoly (pg : Nat → Nat → RPoly) (P c sIn sOut : RPoly)
    (samples : List (List (RPoly × RPoly))) (d : List (List RPoly))
    (hpg : ∀ i j, WFq qs n (pg i j)) (hP : WFq qs n P) (hc : WFq qs n c) (hsIn : WFq qs n sIn)
    (hsOut : WFq qs n sOut) (hsm : WFpairs qs n samples) (hd : WFmat qs n d)
    (hG : wsumMat (RPoly.zero qs n) d (pgMat pg samples) = P * c) :
    phase (dotMat (RPoly.zero qs n) d (genEvaluationKey pg sIn sOut samples)) sOut
      = P * c * sIn + wsumMat (RPoly.zero qs n) d (eMat samples) := by
  obtain ⟨pg, rfl⟩ := exists_lift_fun2 pg hpg
  obtain ⟨P, rfl⟩ := exists_lift P hP
  obtain ⟨c, rfl⟩ := exists_lift c hc
  obtain ⟨sIn, rfl⟩ := exists_lift sIn hsIn
  obtain ⟨sOut, rfl⟩ := exists_lift sOut hsOut
  obtain ⟨samples, rfl⟩ := exists_lift_pairMat samples hsm
  obtain ⟨d, rfl⟩ := exists_lift_mat d hd
  rw [pgMat_shape] at hG
  have hG' : wsumMat 0 d (pgMat pg samples) = P * c := val_injective (by
    rw [wsumMat_push val_hom, pgMat_push, val_hom.mul]; exact hG)
  have h := congrArg val (KS.keyswitch_phase_QP pg P c sIn sOut samples d hG')
  rw [phase_push val_hom, dotMat_push val_hom, genEvaluationKey_push val_hom, val_hom.add, val_hom.mul,
    val_hom.mul, wsumMat_push val_hom, eMat_push] at h
  exact h

/-- **automorphismHoistedLazy_phase_rpoly.**  `σ = RPoly.aut g` (`g` odd, coprime to `n`), level `QP`. -/
theorem automorphismHoistedLazy_phase_rpoly (g : ℕ) (hg : Odd g) (hgc : Nat.Coprime g n)
    (σinv : RPoly → RPoly) (pg : Nat → Nat → RPoly) (P c0 c1 s : RPoly)
    (samples : List (List (RPoly × RPoly))) (d : List (List RPoly))
    (hσwf : ∀ x, WFq qs n x → WFq qs n (σinv x))
    (hpg : ∀ i j, WFq qs n (pg i j)) (hP : WFq qs n P) (hc0 : WFq qs n c0) (hc1 : WFq qs n c1)
    (hs : WFq qs n s) (hsm : WFpairs qs n samples) (hd : WFmat qs n d)
    (hσ : (σinv s).aut g = s)
    (hG : wsumMat (RPoly.zero qs n) d (pgMat pg samples) = P * c1) :
    phase (automorphismHoistedLazy (fun x => x.aut g)
        (dotMat (RPoly.zero qs n) d (genGaloisKey σinv pg s samples)) (P * c0)) s
      = (P * phase (c0, c1) s + wsumMat (RPoly.zero qs n) d (eMat samples)).aut g := by
  obtain ⟨pg, rfl⟩ := exists_lift_fun2 pg hpg
  obtain ⟨P, rfl⟩ := exists_lift P hP
  obtain ⟨c0, rfl⟩ := exists_lift c0 hc0
  obtain ⟨c1, rfl⟩ := exists_lift c1 hc1
  obtain ⟨s, rfl⟩ := exists_lift s hs
  obtain ⟨samples, rfl⟩ := exists_lift_pairMat samples hsm
  obtain ⟨d, rfl⟩ := exists_lift_mat d hd
  let σinv' : WFPoly qs n → WFPoly qs n := fun x => lift (σinv (val x)) (hσwf _ (val_wf x))
  rw [pgMat_shape] at hG
  have hG' : wsumMat 0 d (pgMat pg samples) = P * c1 := val_injective (by
    rw [wsumMat_push val_hom, pgMat_push, val_hom.mul]; exact hG)
  have hσ' : WFPoly.autRingHom g hg hgc (σinv' s) = s := val_injective hσ
  have h := congrArg val (automorphismHoistedLazy_phase_gen (WFPoly.autRingHom g hg hgc) σinv' pg P c0 c1 s
    samples d hσ' hG')
  rw [phase_push val_hom,
    automorphismHoistedLazy_push val_hom (WFPoly.autRingHom g hg hgc) (fun x => x.aut g) (fun _ => rfl),
    dotMat_push val_hom, genGaloisKey_push val_hom σinv' σinv (fun _ => rfl), val_hom.mul] at h
  refine h.trans ?_
  show ((P * phase (c0, c1) s + wsumMat 0 d (eMat samples)).1).aut g = _
  congr 1
  show val (P * phase (c0, c1) s + wsumMat 0 d (eMat samples)) = _
  rw [val_hom.add, val_hom.mul, phase_push val_hom, wsumMat_push val_hom, eMat_push]
  rfl

end rpoly

/-! ### after `ModDown`: two carriers `R_{QP}` (moduli `qs ++ ps`) and `R_Q` (moduli `qs`) -/

section withP
variable {qs ps : List ℕ} {n : ℕ} [Good qs n] [Good (qs ++ ps) n]

/-- lifting of the hypotheses (G), (P), (R) from `RPoly` to the rings `WFPoly` -/
theorem lift_hyps (pg : Nat → Nat → WFPoly (qs ++ ps) n) (P c sOut : WFPoly (qs ++ ps) n)
    (samples : List (List (WFPoly (qs ++ ps) n × WFPoly (qs ++ ps) n))) (d : List (List (WFPoly (qs ++ ps) n)))
    (pinv rho0 rho1 ν : WFPoly qs n)
    (hG : wsumMat (RPoly.zero (qs ++ ps) n) (d.map (List.map val)) (pgMat (fun i j => val (pg i j)) samples)
      = val P * val c)
    (hP : takeRows qs.length (val P) * val pinv = rpOne qs n)
    (hR : takeRows qs.length (wsumMat (RPoly.zero (qs ++ ps) n) (d.map (List.map val))
            (eMat (samples.map (List.map (Prod.map val val)))))
          - (val rho0 + val rho1 * takeRows qs.length (val sOut)) = takeRows qs.length (val P) * val ν) :
    wsumMat 0 d (pgMat pg samples) = P * c ∧ projQ (qs := qs) P * pinv = 1
      ∧ projQ (qs := qs) (wsumMat 0 d (eMat samples)) - (rho0 + rho1 * projQ (qs := qs) sOut)
          = projQ (qs := qs) P * ν := by
  refine ⟨val_injective ?_, val_injective hP, val_injective ?_⟩
  · rw [wsumMat_push val_hom, pgMat_push, val_hom.mul]; exact hG
  · show takeRows qs.length (val (wsumMat 0 d (eMat samples))) - _ = _
    rw [wsumMat_push val_hom, eMat_push]; exact hR

/-- **keyswitch_phase_rpoly.**  After `ModDown` (`π` keeps the `Q` rows), under (G), `π P·pinv = 1` and (R):
`phase(KS(c), s_out) = c·s_in + ν` in `R_Q`, as an identity between `RPoly` values. -/
theorem keyswitch_phase_rpoly (pg : Nat → Nat → RPoly) (P c sIn sOut : RPoly)
    (samples : List (List (RPoly × RPoly))) (d : List (List RPoly)) (pinv rho0 rho1 ν : RPoly)
    (hpg : ∀ i j, WFq (qs ++ ps) n (pg i j)) (hPw : WFq (qs ++ ps) n P) (hc : WFq (qs ++ ps) n c)
    (hsIn : WFq (qs ++ ps) n sIn) (hsOut : WFq (qs ++ ps) n sOut) (hsm : WFpairs (qs ++ ps) n samples)
    (hd : WFmat (qs ++ ps) n d) (hpinv : WFq qs n pinv) (hr0 : WFq qs n rho0) (hr1 : WFq qs n rho1)
    (hν : WFq qs n ν)
    (hG : wsumMat (RPoly.zero (qs ++ ps) n) d (pgMat pg samples) = P * c)
    (hP : takeRows qs.length P * pinv = rpOne qs n)
    (hR : takeRows qs.length (wsumMat (RPoly.zero (qs ++ ps) n) d (eMat samples))
          - (rho0 + rho1 * takeRows qs.length sOut) = takeRows qs.length P * ν) :
    let x := dotMat (RPoly.zero (qs ++ ps) n) d (genEvaluationKey pg sIn sOut samples)
    phase (modDown pinv (takeRows qs.length x.1) rho0, modDown pinv (takeRows qs.length x.2) rho1)
        (takeRows qs.length sOut)
      = takeRows qs.length c * takeRows qs.length sIn + ν := by
  obtain ⟨pg, rfl⟩ := exists_lift_fun2 pg hpg
  obtain ⟨P, rfl⟩ := exists_lift P hPw
  obtain ⟨c, rfl⟩ := exists_lift c hc
  obtain ⟨sIn, rfl⟩ := exists_lift sIn hsIn
  obtain ⟨sOut, rfl⟩ := exists_lift sOut hsOut
  obtain ⟨samples, rfl⟩ := exists_lift_pairMat samples hsm
  obtain ⟨d, rfl⟩ := exists_lift_mat d hd
  obtain ⟨pinv, rfl⟩ := exists_lift pinv hpinv
  obtain ⟨rho0, rfl⟩ := exists_lift rho0 hr0
  obtain ⟨rho1, rfl⟩ := exists_lift rho1 hr1
  obtain ⟨ν, rfl⟩ := exists_lift ν hν
  rw [pgMat_shape] at hG
  obtain ⟨hG', hP', hR'⟩ := lift_hyps pg P c sOut samples d pinv rho0 rho1 ν hG hP hR
  have h := congrArg val (KS.keyswitch_phase (projQ (qs := qs)) pg P c sIn sOut samples d pinv rho0 rho1 ν
    hG' hP' hR')
  rw [phase_push val_hom] at h
  simp only [Prod.map_apply, modDown_push val_hom, val_projQ, dotMat_push_fst val_hom,
    dotMat_push_snd val_hom, genEvaluationKey_push val_hom, val_hom.add, val_hom.mul] at h
  exact h

/-- **keyswitch_decrypts_rpoly** (`ApplyEvaluationKey`) -/
theorem keyswitch_decrypts_rpoly (pg : Nat → Nat → RPoly) (P c1 sIn sOut : RPoly)
    (samples : List (List (RPoly × RPoly))) (d : List (List RPoly)) (pinv rho0 rho1 ν c0 : RPoly)
    (hpg : ∀ i j, WFq (qs ++ ps) n (pg i j)) (hPw : WFq (qs ++ ps) n P) (hc : WFq (qs ++ ps) n c1)
    (hsIn : WFq (qs ++ ps) n sIn) (hsOut : WFq (qs ++ ps) n sOut) (hsm : WFpairs (qs ++ ps) n samples)
    (hd : WFmat (qs ++ ps) n d) (hpinv : WFq qs n pinv) (hr0 : WFq qs n rho0) (hr1 : WFq qs n rho1)
    (hν : WFq qs n ν) (hc0 : WFq qs n c0)
    (hG : wsumMat (RPoly.zero (qs ++ ps) n) d (pgMat pg samples) = P * c1)
    (hP : takeRows qs.length P * pinv = rpOne qs n)
    (hR : takeRows qs.length (wsumMat (RPoly.zero (qs ++ ps) n) d (eMat samples))
          - (rho0 + rho1 * takeRows qs.length sOut) = takeRows qs.length P * ν) :
    let x := dotMat (RPoly.zero (qs ++ ps) n) d (genEvaluationKey pg sIn sOut samples)
    let ks := (modDown pinv (takeRows qs.length x.1) rho0, modDown pinv (takeRows qs.length x.2) rho1)
    phase (applyEvaluationKey ks (c0, takeRows qs.length c1)) (takeRows qs.length sOut)
      = phase (c0, takeRows qs.length c1) (takeRows qs.length sIn) + ν := by
  obtain ⟨pg, rfl⟩ := exists_lift_fun2 pg hpg
  obtain ⟨P, rfl⟩ := exists_lift P hPw
  obtain ⟨c1, rfl⟩ := exists_lift c1 hc
  obtain ⟨sIn, rfl⟩ := exists_lift sIn hsIn
  obtain ⟨sOut, rfl⟩ := exists_lift sOut hsOut
  obtain ⟨samples, rfl⟩ := exists_lift_pairMat samples hsm
  obtain ⟨d, rfl⟩ := exists_lift_mat d hd
  obtain ⟨pinv, rfl⟩ := exists_lift pinv hpinv
  obtain ⟨rho0, rfl⟩ := exists_lift rho0 hr0
  obtain ⟨rho1, rfl⟩ := exists_lift rho1 hr1
  obtain ⟨ν, rfl⟩ := exists_lift ν hν
  obtain ⟨c0, rfl⟩ := exists_lift c0 hc0
  rw [pgMat_shape] at hG
  obtain ⟨hG', hP', hR'⟩ := lift_hyps pg P c1 sOut samples d pinv rho0 rho1 ν hG hP hR
  have h := congrArg val (keyswitch_decrypts_gen (projQ (qs := qs)) pg P c1 sIn sOut samples d pinv rho0 rho1 ν
    c0 hG' hP' hR')
  rw [phase_push val_hom, applyEvaluationKey_push val_hom] at h
  simp only [Prod.map_apply, modDown_push val_hom, val_projQ, dotMat_push_fst val_hom,
    dotMat_push_snd val_hom, genEvaluationKey_push val_hom, val_hom.add, phase_push val_hom] at h
  exact h

/-- **relin_phase_rpoly.**  With `genRelinearizationKey` (input key `s²`, output key `s`) the relinearised
ciphertext decrypts under `π s` to `c0 + c1·s + c2·s² + ν`. -/
theorem relin_phase_rpoly (pg : Nat → Nat → RPoly) (P c2 s : RPoly)
    (samples : List (List (RPoly × RPoly))) (d : List (List RPoly)) (pinv rho0 rho1 ν c0 c1 : RPoly)
    (hpg : ∀ i j, WFq (qs ++ ps) n (pg i j)) (hPw : WFq (qs ++ ps) n P) (hc : WFq (qs ++ ps) n c2)
    (hs : WFq (qs ++ ps) n s) (hsm : WFpairs (qs ++ ps) n samples)
    (hd : WFmat (qs ++ ps) n d) (hpinv : WFq qs n pinv) (hr0 : WFq qs n rho0) (hr1 : WFq qs n rho1)
    (hν : WFq qs n ν) (hc0 : WFq qs n c0) (hc1 : WFq qs n c1)
    (hG : wsumMat (RPoly.zero (qs ++ ps) n) d (pgMat pg samples) = P * c2)
    (hP : takeRows qs.length P * pinv = rpOne qs n)
    (hR : takeRows qs.length (wsumMat (RPoly.zero (qs ++ ps) n) d (eMat samples))
          - (rho0 + rho1 * takeRows qs.length s) = takeRows qs.length P * ν) :
    let x := dotMat (RPoly.zero (qs ++ ps) n) d (genRelinearizationKey pg s samples)
    let ks := (modDown pinv (takeRows qs.length x.1) rho0, modDown pinv (takeRows qs.length x.2) rho1)
    phase (relinearize ks (c0, c1, takeRows qs.length c2)) (takeRows qs.length s)
      = c0 + c1 * takeRows qs.length s
        + takeRows qs.length c2 * (takeRows qs.length s * takeRows qs.length s) + ν := by
  obtain ⟨pg, rfl⟩ := exists_lift_fun2 pg hpg
  obtain ⟨P, rfl⟩ := exists_lift P hPw
  obtain ⟨c2, rfl⟩ := exists_lift c2 hc
  obtain ⟨s, rfl⟩ := exists_lift s hs
  obtain ⟨samples, rfl⟩ := exists_lift_pairMat samples hsm
  obtain ⟨d, rfl⟩ := exists_lift_mat d hd
  obtain ⟨pinv, rfl⟩ := exists_lift pinv hpinv
  obtain ⟨rho0, rfl⟩ := exists_lift rho0 hr0
  obtain ⟨rho1, rfl⟩ := exists_lift rho1 hr1
  obtain ⟨ν, rfl⟩ := exists_lift ν hν
  obtain ⟨c0, rfl⟩ := exists_lift c0 hc0
  obtain ⟨c1, rfl⟩ := exists_lift c1 hc1
  rw [pgMat_shape] at hG
  obtain ⟨hG', hP', hR'⟩ := lift_hyps pg P c2 s samples d pinv rho0 rho1 ν hG hP hR
  have h := congrArg val (relin_phase_gen (projQ (qs := qs)) pg P c2 s samples d pinv rho0 rho1 ν c0 c1
    hG' hP' hR')
  rw [phase_push val_hom, relinearize_push val_hom] at h
  simp only [Prod.map_apply, modDown_push val_hom, val_projQ, dotMat_push_fst val_hom,
    dotMat_push_snd val_hom, genRelinearizationKey_push val_hom, val_hom.add, val_hom.mul] at h
  exact h

/-- **automorphism_phase_rpoly.**  `σ_g = RPoly.aut g` on `R_Q` (`g` odd, coprime to `n`); the Galois key
re-encrypts `s` under `σinvA s` (any well-formedness-preserving map on `R_{QP}` with
`σ_g(π(σinvA s)) = π s`, e.g. `RPoly.aut g⁻¹`):
`phase(Aut_g ct, s) = σ_g(phase(ct, s)) + σ_g(ν)`. -/
theorem automorphism_phase_rpoly (g : ℕ) (hg : Odd g) (hgc : Nat.Coprime g n) (σinvA : RPoly → RPoly)
    (pg : Nat → Nat → RPoly) (P c1 s : RPoly)
    (samples : List (List (RPoly × RPoly))) (d : List (List RPoly)) (pinv rho0 rho1 ν c0 : RPoly)
    (hσwf : ∀ x, WFq (qs ++ ps) n x → WFq (qs ++ ps) n (σinvA x))
    (hpg : ∀ i j, WFq (qs ++ ps) n (pg i j)) (hPw : WFq (qs ++ ps) n P) (hc : WFq (qs ++ ps) n c1)
    (hs : WFq (qs ++ ps) n s) (hsm : WFpairs (qs ++ ps) n samples)
    (hd : WFmat (qs ++ ps) n d) (hpinv : WFq qs n pinv) (hr0 : WFq qs n rho0) (hr1 : WFq qs n rho1)
    (hν : WFq qs n ν) (hc0 : WFq qs n c0)
    (hσ : (takeRows qs.length (σinvA s)).aut g = takeRows qs.length s)
    (hG : wsumMat (RPoly.zero (qs ++ ps) n) d (pgMat pg samples) = P * c1)
    (hP : takeRows qs.length P * pinv = rpOne qs n)
    (hR : takeRows qs.length (wsumMat (RPoly.zero (qs ++ ps) n) d (eMat samples))
          - (rho0 + rho1 * takeRows qs.length (σinvA s)) = takeRows qs.length P * ν) :
    let x := dotMat (RPoly.zero (qs ++ ps) n) d (genGaloisKey σinvA pg s samples)
    let ks := (modDown pinv (takeRows qs.length x.1) rho0, modDown pinv (takeRows qs.length x.2) rho1)
    phase (automorphism (fun y => y.aut g) ks (c0, takeRows qs.length c1)) (takeRows qs.length s)
      = (phase (c0, takeRows qs.length c1) (takeRows qs.length s)).aut g + ν.aut g := by
  obtain ⟨pg, rfl⟩ := exists_lift_fun2 pg hpg
  obtain ⟨P, rfl⟩ := exists_lift P hPw
  obtain ⟨c1, rfl⟩ := exists_lift c1 hc
  obtain ⟨s, rfl⟩ := exists_lift s hs
  obtain ⟨samples, rfl⟩ := exists_lift_pairMat samples hsm
  obtain ⟨d, rfl⟩ := exists_lift_mat d hd
  obtain ⟨pinv, rfl⟩ := exists_lift pinv hpinv
  obtain ⟨rho0, rfl⟩ := exists_lift rho0 hr0
  obtain ⟨rho1, rfl⟩ := exists_lift rho1 hr1
  obtain ⟨ν, rfl⟩ := exists_lift ν hν
  obtain ⟨c0, rfl⟩ := exists_lift c0 hc0
  let σ' : WFPoly (qs ++ ps) n → WFPoly (qs ++ ps) n := fun x => lift (σinvA (val x)) (hσwf _ (val_wf x))
  rw [pgMat_shape] at hG
  obtain ⟨hG', hP', hR'⟩ := lift_hyps pg P c1 (σ' s) samples d pinv rho0 rho1 ν hG hP hR
  have hσ' : WFPoly.autRingHom g hg hgc (projQ (qs := qs) (σ' s)) = projQ (qs := qs) s := val_injective hσ
  have h := congrArg val (automorphism_phase_gen (projQ (qs := qs)) (WFPoly.autRingHom g hg hgc) σ' pg P c1 s
    samples d pinv rho0 rho1 ν c0 hσ' hG' hP' hR')
  rw [phase_push val_hom,
    automorphism_push val_hom (WFPoly.autRingHom g hg hgc) (fun y => y.aut g) (fun _ => rfl)] at h
  simp only [Prod.map_apply, modDown_push val_hom, val_projQ, dotMat_push_fst val_hom,
    dotMat_push_snd val_hom, genGaloisKey_push val_hom σ' σinvA (fun _ => rfl), val_hom.add] at h
  refine h.trans ?_
  show (val (phase (c0, projQ (qs := qs) c1) (projQ (qs := qs) s))).aut g + (val ν).aut g = _
  rw [phase_push val_hom]
  rfl

end withP

/-! ## 4. The driver -/

section driver
open Driver.C04

/-- `gadgetProductR` (ops `gp`, `apply`, `relin`, `aut`, `applyup`, `applydown`) is `ModDown` of the inner
product `dotMat` of the digit matrix `decompose` with the key — the expression the theorems are about -/
theorem gadgetProductR_eq (qsP : List ℕ) (w nQkey : ℕ) (evk : List (List (RPoly × RPoly))) (c : RPoly) :
    gadgetProductR qsP w nQkey evk c
      = (modDownR c.qs.length
          (dotMat (RPoly.zero (c.qs ++ qsP) (c.c.headD []).length)
            (decompose qsP w (evk.map List.length) c) (evkAtLevel nQkey (c.qs.length - 1) evk)).1,
         modDownR c.qs.length
          (dotMat (RPoly.zero (c.qs ++ qsP) (c.c.headD []).length)
            (decompose qsP w (evk.map List.length) c) (evkAtLevel nQkey (c.qs.length - 1) evk)).2) := rfl

/-- with a non-empty `P` part, `Evaluator.ModDown` is the generic `modDown` with `π = ` first `nQ` rows,
`pinv = pinvElt`, `ρ = modUpPtoQ` of the `P` rows -/
theorem modDownR_eq (nQ : ℕ) (x : RPoly) (h : (x.qs.drop nQ).isEmpty = false) :
    modDownR nQ x
      = modDown (pinvElt (x.qs.take nQ) (x.qs.drop nQ) ((x.c.take nQ).headD []).length) (takeRows nQ x)
          (modUpPtoQ (x.qs.take nQ) (partP nQ x)) := by
  simp only [modDownR, partQ, partP, h, Bool.false_eq_true, if_false]
  rfl

/-- **the `apply` handler calls `applyEvaluationKey ∘ gadgetProductR`** on the parsed `RPoly` values -/
theorem handleKs_apply_calls (n q p lq lp w isNTT galEl nbPi shape evk ct : String)
    (nv : ℕ) (Q P : List ℕ) (lqv : ℕ) (lpv : ℤ) (wv gv nbv : ℕ) (shapev : List ℕ)
    (evkP ctP : List (List (List ℕ))) (c0 c1 : RPoly)
    (h1 : n.toNat? = some nv) (h2 : Driver.parseVec? q = some Q) (h3 : Driver.parseVec? p = some P)
    (h4 : lq.toNat? = some lqv) (h5 : lp.toInt? = some lpv) (h6 : w.toNat? = some wv)
    (h7 : galEl.toNat? = some gv) (h8 : nbPi.toNat? = some nbv) (h9 : Driver.parseVec? shape = some shapev)
    (h10 : parsePolys? evk = some evkP) (h11 : parsePolys? ct = some ctP)
    (hct : ctP.map (mkPoly (Q.take (ctP.headD []).length)) = [c0, c1]) :
    handleKs "apply" [n, q, p, lq, lp, w, isNTT, galEl, nbPi, shape, evk, ct]
      = some (showPolys
          [(applyEvaluationKey (gadgetProductR (levels Q P lqv lpv).2 wv (levels Q P lqv lpv).1.length
              (reshape shapev (pairs (evkP.map (mkPoly ((levels Q P lqv lpv).1 ++ (levels Q P lqv lpv).2))))) c1)
              (c0, c1)).1,
           (applyEvaluationKey (gadgetProductR (levels Q P lqv lpv).2 wv (levels Q P lqv lpv).1.length
              (reshape shapev (pairs (evkP.map (mkPoly ((levels Q P lqv lpv).1 ++ (levels Q P lqv lpv).2))))) c1)
              (c0, c1)).2]) := by
  simp only [handleKs, h1, h2, h3, h4, h5, h6, h7, h8, h9, h10, h11, hct, Option.bind_eq_bind,
    Option.bind_some]

/-- the driver's constant polynomials are well formed -/
theorem constPoly_wf (qs : List ℕ) (n : ℕ) (vals : List ℕ) (hn : 1 ≤ n) (hl : vals.length = qs.length)
    (hq : ∀ q ∈ qs, 0 < q) : WFq qs n (constPoly qs n vals) := by
  refine ⟨rfl, by simp [constPoly, hl], fun i hi => ?_⟩
  have hi' : i < qs.length := hi
  have hv : i < vals.length := by omega
  have e : (constPoly qs n vals).c.getD i [] = (vals[i] % qs[i]) :: List.replicate (n - 1) 0 := by
    simp [constPoly, List.getD_eq_getElem?_getD, hi', hv]
  rw [e]
  show RowWF qs[i] n _
  have hqi : 0 < qs[i] := hq _ (List.getElem_mem hi')
  refine ⟨by simp; omega, fun x hx => ?_⟩
  rcases List.mem_cons.1 hx with rfl | hx
  · exact Nat.mod_lt _ hqi
  · rw [List.eq_of_mem_replicate hx]; exact hqi

/-- **the driver's gadget vector `P·g_ij` (`pgElt`) is well formed**, for all `i j` -/
theorem pgElt_wf (qsQ qsP : List ℕ) (n w i j : ℕ) [hg : Good (qsQ ++ qsP) n] :
    WFq (qsQ ++ qsP) n (pgElt qsQ qsP n w i j) := by
  unfold pgElt
  exact constPoly_wf _ _ _ hg.n_pos (by simp) (fun q hq => by have := hg.q_ge q hq; omega)

end driver

section driverPhase
variable {qs ps : List ℕ} {n : ℕ} [Good qs n] [Good (qs ++ ps) n]

/-- closure: the inner product of well-formed digits with a key generated from well-formed data is well
formed -/
theorem dotMat_gen_wf {qs : List ℕ} {n : ℕ} [Good qs n] (pg : Nat → Nat → RPoly) (sIn sOut : RPoly)
    (samples : List (List (RPoly × RPoly))) (d : List (List RPoly))
    (hpg : ∀ i j, WFq qs n (pg i j)) (hsIn : WFq qs n sIn) (hsOut : WFq qs n sOut)
    (hsm : WFpairs qs n samples) (hd : WFmat qs n d) :
    WFq qs n (dotMat (RPoly.zero qs n) d (genEvaluationKey pg sIn sOut samples)).1
      ∧ WFq qs n (dotMat (RPoly.zero qs n) d (genEvaluationKey pg sIn sOut samples)).2 := by
  obtain ⟨pg, rfl⟩ := exists_lift_fun2 pg hpg
  obtain ⟨sIn, rfl⟩ := exists_lift sIn hsIn
  obtain ⟨sOut, rfl⟩ := exists_lift sOut hsOut
  obtain ⟨samples, rfl⟩ := exists_lift_pairMat samples hsm
  obtain ⟨d, rfl⟩ := exists_lift_mat d hd
  have h := dotMat_push val_hom (0 : WFPoly qs n) d (genEvaluationKey pg sIn sOut samples)
  rw [genEvaluationKey_push val_hom] at h
  have e : val (0 : WFPoly qs n) = RPoly.zero qs n := rfl
  rw [e] at h
  rw [← h]
  exact ⟨val_wf _, val_wf _⟩

theorem headD_length_of_wf {qs : List ℕ} {n : ℕ} {p : RPoly} (h : WFq qs n p) (hne : qs ≠ []) :
    (p.c.headD []).length = n := by
  obtain ⟨h1, h2, h3⟩ := h
  have hpos : 0 < p.qs.length := by rw [h1]; exact List.length_pos_of_ne_nil hne
  have := (h3 0 hpos).len
  have e : p.c.headD [] = p.c.getD 0 [] := by cases p.c <;> rfl
  rw [e]; exact this

theorem polyAtLevel_self (k : ℕ) (hk : 1 ≤ k) (a : RPoly) : polyAtLevel k (k - 1) a = a := by
  unfold polyAtLevel
  rw [Nat.sub_add_cancel hk, List.take_append_drop, List.take_append_drop]

theorem evkAtLevel_self (k : ℕ) (hk : 1 ≤ k) (evk : List (List (RPoly × RPoly))) :
    evkAtLevel k (k - 1) evk = evk := by
  unfold evkAtLevel
  simp only [polyAtLevel_self k hk, List.map_id', Prod.mk.eta]

/-- **driver_apply_phase** — the `apply` op of the driver (`handleKs_apply_calls`):
`applyEvaluationKey (gadgetProductR …) (c0, c1)` with the key `genEvaluationKey pg sIn sOut samples` at the
ciphertext's level, the driver's OWN digits `decompose`, `P⁻¹ = pinvElt` and centred remainders `modUpPtoQ`.
Under (G), `π P·pinv = 1`, (R) stated for these values, the output decrypts under `π s_out` to the input's phase
under `π s_in` plus `ν`. -/
theorem driver_apply_phase (hqs : qs ≠ []) (hps : ps ≠ []) (w : ℕ) (pg : Nat → Nat → RPoly)
    (P cQP sIn sOut : RPoly) (samples : List (List (RPoly × RPoly))) (c0 c1 ν : RPoly)
    (hpg : ∀ i j, WFq (qs ++ ps) n (pg i j)) (hPw : WFq (qs ++ ps) n P) (hcQP : WFq (qs ++ ps) n cQP)
    (hsIn : WFq (qs ++ ps) n sIn) (hsOut : WFq (qs ++ ps) n sOut) (hsm : WFpairs (qs ++ ps) n samples)
    (hc0 : WFq qs n c0) (hc1 : WFq qs n c1) (hν : WFq qs n ν) (hlift : takeRows qs.length cQP = c1) :
    let key := genEvaluationKey pg sIn sOut samples
    let d := decompose ps w (key.map List.length) c1
    let z := RPoly.zero (qs ++ ps) n
    let x := dotMat z d key
    let pinv := pinvElt qs ps n
    let rho0 := modUpPtoQ qs (partP qs.length x.1)
    let rho1 := modUpPtoQ qs (partP qs.length x.2)
    WFmat (qs ++ ps) n d → WFq qs n pinv → WFq qs n rho0 → WFq qs n rho1 →
    wsumMat z d (pgMat pg samples) = P * cQP →
    takeRows qs.length P * pinv = rpOne qs n →
    takeRows qs.length (wsumMat z d (eMat samples)) - (rho0 + rho1 * takeRows qs.length sOut)
        = takeRows qs.length P * ν →
    phase (applyEvaluationKey (gadgetProductR ps w qs.length key c1) (c0, c1)) (takeRows qs.length sOut)
      = phase (c0, c1) (takeRows qs.length sIn) + ν := by
  intro key d z x pinv rho0 rho1 hd hpinv hr0 hr1 hG hP hR
  have hk : 1 ≤ qs.length := List.length_pos_of_ne_nil hqs
  have hc1qs : c1.qs = qs := hc1.1
  have hn1 : (c1.c.headD []).length = n := headD_length_of_wf hc1 hqs
  obtain ⟨hx1, hx2⟩ := dotMat_gen_wf pg sIn sOut samples d hpg hsIn hsOut hsm hd
  -- the driver's product is the `modDown` form
  have hmd : ∀ y : RPoly, WFq (qs ++ ps) n y →
      modDownR qs.length y = modDown pinv (takeRows qs.length y) (modUpPtoQ qs (partP qs.length y)) := by
    intro y hy
    have hyq : y.qs = qs ++ ps := hy.1
    have hdrop : (y.qs.drop qs.length).isEmpty = false := by
      rw [hyq, List.drop_left']; cases ps with
      | nil => exact absurd rfl hps
      | cons _ _ => rfl
      · rfl
    rw [modDownR_eq qs.length y hdrop, hyq, List.take_left', List.drop_left']
    · have : ((y.c.take qs.length).headD []).length = n := headD_length_of_wf (takeRows_wf hy) hqs
      rw [this]
    · rfl
    · rfl
  have hgp : gadgetProductR ps w qs.length key c1
      = (modDown pinv (takeRows qs.length x.1) rho0, modDown pinv (takeRows qs.length x.2) rho1) := by
    rw [gadgetProductR_eq, hc1qs, hn1, evkAtLevel_self qs.length hk, hmd _ hx1, hmd _ hx2]
  rw [hgp]
  have h := keyswitch_decrypts_rpoly (qs := qs) (ps := ps) pg P cQP sIn sOut samples d pinv rho0 rho1 ν c0
    hpg hPw hcQP hsIn hsOut hsm hd hpinv hr0 hr1 hν hc0 hG hP hR
  simp only [hlift] at h
  exact h

end driverPhase

/-! ## 5. A concrete instance: `Q = [97]`, `P = [193]`, `n = 8`, the driver's own gadget vector and digits -/

section concrete

instance good8 : Good [97, 193] 8 := ⟨by decide, by decide⟩
instance good8Q : Good [97] 8 := ⟨by decide, by decide⟩
instance good8QP : Good ([97] ++ [193]) 8 := good8

def a8 : RPoly := ⟨[97, 193], [[1, 2, 3, 4, 5, 6, 7, 8], [10, 20, 30, 40, 50, 60, 70, 80]]⟩
def e8 : RPoly := ⟨[97, 193], [[1, 0, 96, 0, 2, 0, 95, 1], [1, 0, 192, 0, 2, 0, 191, 1]]⟩
def sIn8 : RPoly := ⟨[97, 193], [[1, 96, 0, 1, 0, 0, 96, 1], [1, 192, 0, 1, 0, 0, 192, 1]]⟩
def sOut8 : RPoly := ⟨[97, 193], [[0, 1, 1, 0, 96, 0, 0, 1], [0, 1, 1, 0, 192, 0, 0, 1]]⟩
/-- the ciphertext component to be switched, in `R_Q` -/
def c8 : RPoly := ⟨[97], [[90, 3, 50, 7, 0, 96, 48, 49]]⟩
/-- the driver's gadget vector `P·g_ij` and digit matrix for `c8` (`w = 0`: RNS digits) -/
def pg8 : Nat → Nat → RPoly := pgElt [97] [193] 8 0
def d8 : List (List RPoly) := decompose [193] 0 [1] c8
def samples8 : List (List (RPoly × RPoly)) := [[(a8, e8)]]

/-- hypotheses of `keyswitch_phase_QP_rpoly` on these values: well-formedness and (G) with
`P = pg8 0 0` (the constant `193`), `c = ` the centred lift of `c8` -/
theorem hyps8 : WFq [97, 193] 8 sIn8 ∧ WFq [97, 193] 8 sOut8
    ∧ WFpairs [97, 193] 8 samples8 ∧ WFmat [97, 193] 8 d8 ∧ WFq [97, 193] 8 ((d8.headD []).headD a8) := by
  decide +kernel

theorem hG8 : wsumMat (RPoly.zero [97, 193] 8) d8 (pgMat pg8 samples8) = pg8 0 0 * (d8.headD []).headD a8 := by
  decide +kernel

/-- an instance of `keyswitch_phase_QP_rpoly` obtained FROM THE THEOREM, all hypotheses discharged -/
example : phase (dotMat (RPoly.zero [97, 193] 8) d8 (genEvaluationKey pg8 sIn8 sOut8 samples8)) sOut8
    = pg8 0 0 * (d8.headD []).headD a8 * sIn8 + wsumMat (RPoly.zero [97, 193] 8) d8 (eMat samples8) :=
  keyswitch_phase_QP_rpoly (qs := [97, 193]) (n := 8) pg8 (pg8 0 0) _ sIn8 sOut8 samples8 d8
    (fun i j => pgElt_wf [97] [193] 8 0 i j) (pgElt_wf [97] [193] 8 0 0 0) hyps8.2.2.2.2 hyps8.1 hyps8.2.1
    hyps8.2.2.1 hyps8.2.2.2.1 hG8

/-- TEST (evaluation): `keyswitch_phase_QP` on these values -/
example : phase (dotMat (RPoly.zero [97, 193] 8) d8 (genEvaluationKey pg8 sIn8 sOut8 samples8)) sOut8
    = pg8 0 0 * (d8.headD []).headD a8 * sIn8 + wsumMat (RPoly.zero [97, 193] 8) d8 (eMat samples8) := by
  decide +kernel

/-- TEST (evaluation): `gadget_row` on these values -/
example : (genEvaluationKey pg8 sIn8 sOut8 samples8).map (fun r => r.map fun k => phase k sOut8)
    = [[pg8 0 0 * sIn8 + e8]] := by decide +kernel

end concrete

end Lattigo.KS.C04Ring

#print axioms Lattigo.KS.C04Ring.gadget_row_rpoly
#print axioms Lattigo.KS.C04Ring.expand_eq_rpoly
#print axioms Lattigo.KS.C04Ring.keyswitch_phase_QP_rpoly
#print axioms Lattigo.KS.C04Ring.keyswitch_phase_rpoly
#print axioms Lattigo.KS.C04Ring.keyswitch_decrypts_rpoly
#print axioms Lattigo.KS.C04Ring.relin_phase_rpoly
#print axioms Lattigo.KS.C04Ring.automorphism_phase_rpoly
#print axioms Lattigo.KS.C04Ring.automorphismHoistedLazy_phase_rpoly
#print axioms Lattigo.KS.C04Ring.gadgetProductR_eq
#print axioms Lattigo.KS.C04Ring.modDownR_eq
#print axioms Lattigo.KS.C04Ring.handleKs_apply_calls
#print axioms Lattigo.KS.C04Ring.driver_apply_phase
#print axioms Lattigo.KS.C04Ring.pgElt_wf
