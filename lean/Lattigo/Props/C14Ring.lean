/-
  C14 on the carrier the driver executes.

  `Props/C14.lean` proves `agg_perm`, `cpk_phase`, `cpk_eq_single`, `evk_row`, `evk_collective_eq_single`,
  `gal_collective_eq_single`, `rkg_round_*_collective`, `rkg_row` for the generic functions of
  `Model/MPShare.lean` over EVERY commutative ring (resp. additive commutative semigroup); the driver
  (`Driver/C14.lean`) runs them on plain `RPoly` values.  Here they are instantiated at the commutative
  ring `WFPoly qs n` (`Proofs/RPolyRing.lean`) and transported to `RPoly`:

    hypotheses = well-formedness of the INPUTS (`WFq qs n a` : `a.qs = qs ∧ a.WF n`);
    conclusion = the same identity between `RPoly` values / the same `Res` results.

  For the two "collective = single" theorems the structural part of the generic proof (validation of
  levels and shapes, `evalM`, `Deg0`) only needs `+ * −` and is used at `α := RPoly` directly; the part
  that needs the ring laws (`evk_tree_val`: the sum of the shares is the share of the sums) is the
  generic lemma instantiated at `WFPoly qs n` and transported (`evk_tree_val_rpoly`).

  NOT transported (reason):
  * `crs_determinism`, `mismatch_rejected_*`, `evk_key_assembled`, `genEvaluationKey_*`,
    `gal_share_eq_evk`: no ring law is used — they hold at `α := RPoly` as they are (`[Add β]` only);
  * the noise BOUND (norm of `Σ e_i`): not a ring identity (`Props/C14Noise.lean` works over `ZPoly`).
-/
import Lattigo.Proofs.RPolyTransport
import Lattigo.Proofs.MPKeys
import Driver.C14

set_option linter.unusedSectionVars false
set_option linter.unusedSimpArgs false

namespace Lattigo.Props.C14Ring
open Lattigo Lattigo.MP Lattigo.RPolyRing Lattigo.Transport

/-! ## 1. Naturality of the model functions -/

section naturality
variable {α β : Type} [Add α] [Mul α] [Neg α] [Sub α] [Add β] [Mul β] [Neg β] [Sub β]
variable {φ : α → β} (hφ : OpsHom φ)
include hφ

theorem phase_push (c0 c1 s : α) : φ (phase c0 c1 s) = phase (φ c0) (φ c1) (φ s) := by
  simp only [phase, hφ.add, hφ.mul]

theorem cpkShare_push (a s e : α) : φ (cpkShare a s e) = cpkShare (φ a) (φ s) (φ e) := by
  simp only [cpkShare, hφ.sub, hφ.mul]

theorem cpkAggregate_push (x y : α) : φ (cpkAggregate x y) = cpkAggregate (φ x) (φ y) := hφ.add x y

theorem evkShareRow_push (a sOut e w sIn : α) :
    φ (evkShareRow a sOut e w sIn) = evkShareRow (φ a) (φ sOut) (φ e) (φ w) (φ sIn) := by
  simp only [evkShareRow, hφ.add, hφ.sub, hφ.mul]

theorem rkgRoundOneRow_push (a s u e0 e1 w : α) :
    (rkgRoundOneRow a s u e0 e1 w).map φ = rkgRoundOneRow (φ a) (φ s) (φ u) (φ e0) (φ e1) (φ w) := by
  simp only [rkgRoundOneRow, List.map_cons, List.map_nil, hφ.add, hφ.sub, hφ.mul]

theorem rkgRoundTwoRow_push (h0 h1 s u e2 : α) :
    φ (rkgRoundTwoRow h0 h1 s u e2) = rkgRoundTwoRow (φ h0) (φ h1) (φ s) (φ u) (φ e2) := by
  simp only [rkgRoundTwoRow, hφ.add, hφ.sub, hφ.mul]

theorem rkgRoundTwoEntry_push (s u : α) (h : List α) (e2 : α) :
    (rkgRoundTwoEntry s u h e2).map φ = rkgRoundTwoEntry (φ s) (φ u) (h.map φ) (φ e2) := by
  match h with
  | [] => rfl
  | [_] => rfl
  | h0 :: h1 :: _ => simp only [rkgRoundTwoEntry, List.map_cons, List.map_nil, rkgRoundTwoRow_push hφ]

omit hφ in
theorem rkgKeyEntry_push (φ : α → β) (x y : List α) :
    (rkgKeyEntry x y).map φ = rkgKeyEntry (x.map φ) (y.map φ) := by
  match x, y with
  | [], _ => rfl
  | _ :: _, [] => rfl
  | _ :: _, [_] => rfl
  | r2 :: _, _ :: h1 :: _ => rfl

theorem evalCpk_push (t : AggTree) (f : Nat → α) :
    φ (t.eval cpkAggregate f) = t.eval cpkAggregate (fun i => φ (f i)) :=
  eval_push φ cpkAggregate cpkAggregate (cpkAggregate_push hφ) t f

theorem evalAdd_push (t : AggTree) (f : Nat → α) :
    φ (t.eval (· + ·) f) = t.eval (· + ·) (fun i => φ (f i)) :=
  eval_push φ (· + ·) (· + ·) hφ.add t f

theorem vecAdd_push (x y : List α) : (vecAdd x y).map φ = vecAdd (x.map φ) (y.map φ) := by
  simp only [vecAdd, List.map_zipWith, List.zipWith_map, hφ.add]

theorem matAdd_push (x y : Mat α) : (matAdd x y).map (List.map φ) = matAdd (x.map (List.map φ)) (y.map (List.map φ)) := by
  simp only [matAdd, List.map_zipWith, List.zipWith_map, vecAdd_push hφ]

theorem cubeAdd_push (x y : Mat (List α)) :
    (cubeAdd x y).map (List.map (List.map φ))
      = cubeAdd (x.map (List.map (List.map φ))) (y.map (List.map (List.map φ))) := by
  simp only [cubeAdd, List.map_zipWith, List.zipWith_map, vecAdd_push hφ]

theorem evalMatAdd_push (t : AggTree) (f : Nat → Mat α) :
    (t.eval matAdd f).map (List.map φ) = t.eval matAdd (fun i => (f i).map (List.map φ)) :=
  eval_push (List.map (List.map φ)) matAdd matAdd (matAdd_push hφ) t f

theorem evalCubeAdd_push (t : AggTree) (f : Nat → Mat (List α)) :
    (t.eval cubeAdd f).map (List.map (List.map φ))
      = t.eval cubeAdd (fun i => (f i).map (List.map (List.map φ))) :=
  eval_push (List.map (List.map (List.map φ))) cubeAdd cubeAdd (cubeAdd_push hφ) t f

end naturality

/-- `map3` and a map on each argument -/
theorem map3_push {β γ δ ε β' γ' δ' ε' : Type} (f : β → γ → δ → ε) (f' : β' → γ' → δ' → ε')
    (g : ε → ε') (φb : β → β') (φc : γ → γ') (φd : δ → δ')
    (h : ∀ b c d, g (f b c d) = f' (φb b) (φc c) (φd d)) :
    ∀ (B : List β) (C : List γ) (D : List δ),
      (map3 f B C D).map g = map3 f' (B.map φb) (C.map φc) (D.map φd)
  | [], _, _ => by simp [map3]
  | _ :: _, [], _ => by simp [map3]
  | _ :: _, _ :: _, [] => by simp [map3]
  | b :: B, c :: C, d :: D => by simp [map3, h, map3_push f f' g φb φc φd h B C D]

theorem matMap3_push {β γ δ ε β' γ' δ' ε' : Type} (f : β → γ → δ → ε) (f' : β' → γ' → δ' → ε')
    (g : ε → ε') (φb : β → β') (φc : γ → γ') (φd : δ → δ')
    (h : ∀ b c d, g (f b c d) = f' (φb b) (φc c) (φd d)) (B : Mat β) (C : Mat γ) (D : Mat δ) :
    (matMap3 f B C D).map (List.map g)
      = matMap3 f' (B.map (List.map φb)) (C.map (List.map φc)) (D.map (List.map φd)) := by
  unfold matMap3
  exact map3_push (map3 f) (map3 f') (List.map g) (List.map φb) (List.map φc) (List.map φd)
    (fun b c d => map3_push f f' g φb φc φd h b c d) B C D

/-! ## 2. Generic statements proved in `Props/C14.lean` (same statements, same proofs) -/

section gen
variable {α : Type} [CommRing α]

theorem cpk_phase_gen (a : α) (s e : Nat → α) (t : AggTree) :
    phase (t.eval cpkAggregate fun i => cpkShare a (s i) (e i)) a (t.eval (· + ·) s) =
      t.eval (· + ·) e := by
  have h : ∀ t : AggTree, (t.eval cpkAggregate fun i => cpkShare a (s i) (e i)) =
      cpkShare a (t.eval (· + ·) s) (t.eval (· + ·) e) := by
    intro t
    induction t with
    | leaf i => rfl
    | node l r ihl ihr => simp only [AggTree.eval, cpkAggregate, ihl, ihr, cpkShare_add]
  rw [h, cpk_phase_single]

theorem cpk_eq_single_gen (a : α) (s e : Nat → α) (t : AggTree) :
    genPublicKey (t.eval cpkAggregate fun i => cpkShare a (s i) (e i)) a =
      pkOf a (t.eval (· + ·) s) (t.eval (· + ·) e) := by
  unfold genPublicKey pkOf
  congr 1
  induction t with
  | leaf i => rfl
  | node l r ihl ihr => simp only [AggTree.eval, cpkAggregate, ihl, ihr, cpkShare_add]

end gen

/-! ## 3. The theorems on `RPoly` values -/

section rpoly
variable {qs : List ℕ} {n : ℕ} [Good qs n]

/-- **agg_perm_rpoly.**  The aggregate of well-formed shares along any two trees whose leaves are
permutations of each other is the same `RPoly` (hypothesis on the LEAVES only: the driver's `agg` op passes
`fun i => polys[i]!`). -/
theorem agg_perm_rpoly (t₁ t₂ : AggTree) (sh : Nat → RPoly) (h : t₁.leaves.Perm t₂.leaves)
    (hsh : ∀ i ∈ t₁.leaves, WFq qs n (sh i)) :
    t₁.eval (· + ·) sh = t₂.eval (· + ·) sh := by
  obtain ⟨sh', hsh'⟩ := exists_lift_leaves t₁ sh hsh
  rw [eval_congr _ t₁ sh (fun i => val (sh' i)) (fun i hi => (hsh' i hi).symm),
    eval_congr _ t₂ sh (fun i => val (sh' i)) (fun i hi => (hsh' i (h.mem_iff.mpr hi)).symm),
    ← evalAdd_push val_hom, ← evalAdd_push val_hom, AggTree.eval_perm t₁ t₂ sh' h]

/-- **cpk_phase_rpoly.**  `phase(cpk, Σ s_i) = Σ e_i`, for the aggregate along any tree. -/
theorem cpk_phase_rpoly (a : RPoly) (s e : Nat → RPoly) (t : AggTree) (ha : WFq qs n a)
    (hs : ∀ i, WFq qs n (s i)) (he : ∀ i, WFq qs n (e i)) :
    phase (t.eval cpkAggregate fun i => cpkShare a (s i) (e i)) a (t.eval (· + ·) s) =
      t.eval (· + ·) e := by
  obtain ⟨a, rfl⟩ := exists_lift a ha
  obtain ⟨s, rfl⟩ := exists_lift_fun s hs
  obtain ⟨e, rfl⟩ := exists_lift_fun e he
  have h := congrArg val (cpk_phase_gen a s e t)
  simp only [phase_push val_hom, evalCpk_push val_hom, evalAdd_push val_hom, cpkShare_push val_hom] at h
  exact h

/-- **cpk_eq_single_rpoly.**  `GenPublicKey` of the aggregate is exactly the single-party key for `Σ s_i`,
mask `a`, error `Σ e_i`. -/
theorem cpk_eq_single_rpoly (a : RPoly) (s e : Nat → RPoly) (t : AggTree) (ha : WFq qs n a)
    (hs : ∀ i, WFq qs n (s i)) (he : ∀ i, WFq qs n (e i)) :
    genPublicKey (t.eval cpkAggregate fun i => cpkShare a (s i) (e i)) a =
      pkOf a (t.eval (· + ·) s) (t.eval (· + ·) e) := by
  obtain ⟨a, rfl⟩ := exists_lift a ha
  obtain ⟨s, rfl⟩ := exists_lift_fun s hs
  obtain ⟨e, rfl⟩ := exists_lift_fun e he
  have h := congrArg (Prod.map val val) (cpk_eq_single_gen a s e t)
  simp only [genPublicKey, pkOf, Prod.map_apply, evalCpk_push val_hom, evalAdd_push val_hom,
    cpkShare_push val_hom] at h
  exact h

/-- **evk_row_rpoly.**  One row of an evaluation-key share: `phase = w·s_in + e`. -/
theorem evk_row_rpoly (a w sOut e sIn : RPoly) (ha : WFq qs n a) (hw : WFq qs n w) (hsOut : WFq qs n sOut)
    (he : WFq qs n e) (hsIn : WFq qs n sIn) :
    phase (evkShareRow a sOut e w sIn) a sOut = w * sIn + e := by
  obtain ⟨a, rfl⟩ := exists_lift a ha
  obtain ⟨w, rfl⟩ := exists_lift w hw
  obtain ⟨sOut, rfl⟩ := exists_lift sOut hsOut
  obtain ⟨e, rfl⟩ := exists_lift e he
  obtain ⟨sIn, rfl⟩ := exists_lift sIn hsIn
  have h := congrArg val (evk_row_phase a w sOut e sIn)
  simp only [phase_push val_hom, evkShareRow_push val_hom, val_hom.add, val_hom.mul] at h
  exact h

/-- **rkg_row_rpoly.**  After round two, the assembled relinearisation-key row encrypts `w·s²` under `s`
with the exact error `s·E0 + u·E1 + E2`. -/
theorem rkg_row_rpoly (a w s u E0 E1 E2 : RPoly) (ha : WFq qs n a) (hw : WFq qs n w) (hs : WFq qs n s)
    (hu : WFq qs n u) (h0 : WFq qs n E0) (h1 : WFq qs n E1) (h2 : WFq qs n E2) :
    ∃ b c, rkgKeyEntry (rkgRoundTwoEntry s u (rkgRoundOneRow a s u E0 E1 w) E2)
             (rkgRoundOneRow a s u E0 E1 w) = [b, c] ∧
           phase b c s = w * (s * s) + (s * E0 + u * E1 + E2) ∧ WFq qs n b ∧ WFq qs n c := by
  obtain ⟨a, rfl⟩ := exists_lift a ha
  obtain ⟨w, rfl⟩ := exists_lift w hw
  obtain ⟨s, rfl⟩ := exists_lift s hs
  obtain ⟨u, rfl⟩ := exists_lift u hu
  obtain ⟨E0, rfl⟩ := exists_lift E0 h0
  obtain ⟨E1, rfl⟩ := exists_lift E1 h1
  obtain ⟨E2, rfl⟩ := exists_lift E2 h2
  refine ⟨val (rkgRoundTwoRow ((E0 + w * s) - u * a) (E1 + s * a) s u E2), val (E1 + s * a), ?_, ?_,
    val_wf _, val_wf _⟩
  · simp only [rkgRoundOneRow, rkgRoundTwoEntry, rkgKeyEntry, rkgRoundTwoRow_push val_hom, val_hom.add,
      val_hom.sub, val_hom.mul]
  · have h := congrArg val (rkg_row_phase a w s u E0 E1 E2)
    simp only [phase_push val_hom, val_hom.add, val_hom.mul] at h
    exact h

/-! ### evaluation / Galois key: collective = single party -/

theorem exists_lift_fun_mat (e : Nat → Mat RPoly) (h : ∀ i, ∀ r ∈ e i, ∀ p ∈ r, WFq qs n p) :
    ∃ e' : Nat → Mat (WFPoly qs n), (fun i => (e' i).map (List.map val)) = e :=
  ⟨fun i => (exists_lift_mat (e i) (h i)).choose, funext fun i => (exists_lift_mat (e i) (h i)).choose_spec⟩

/-- the value array written by `evkGenShare` -/
def evkValR (sIn sOut : RPoly) (crp w e : Mat RPoly) : Mat (List RPoly) :=
  matMap3 (fun a w e => [evkShareRow a sOut e w sIn]) crp w e

theorem evkVal_push (sIn sOut : WFPoly qs n) (crp w e : Mat (WFPoly qs n)) :
    (evkVal sIn sOut crp w e).map (List.map (List.map val))
      = evkValR (val sIn) (val sOut) (crp.map (List.map val)) (w.map (List.map val)) (e.map (List.map val)) := by
  unfold evkVal evkValR
  exact matMap3_push _ _ (List.map val) val val val
    (fun a w e => by simp only [List.map_cons, List.map_nil, evkShareRow_push val_hom]) crp w e

/-- **the sum of the parties' share arrays is the share array of the summed secrets and errors** — the
ring-law part of `evk_collective_eq_single`, from the generic `evk_tree_val` at `WFPoly qs n` -/
theorem evk_tree_val_rpoly (t : AggTree) (sIn sOut : Nat → RPoly) (e : Nat → Mat RPoly) (crp w : Mat RPoly)
    (hsIn : ∀ i, WFq qs n (sIn i)) (hsOut : ∀ i, WFq qs n (sOut i))
    (he : ∀ i, ∀ r ∈ e i, ∀ p ∈ r, WFq qs n p)
    (hcrp : ∀ r ∈ crp, ∀ p ∈ r, WFq qs n p) (hw : ∀ r ∈ w, ∀ p ∈ r, WFq qs n p) :
    t.eval cubeAdd (fun i => evkValR (sIn i) (sOut i) crp w (e i)) =
      evkValR (t.eval (· + ·) sIn) (t.eval (· + ·) sOut) crp w (t.eval matAdd e) := by
  obtain ⟨sIn, rfl⟩ := exists_lift_fun sIn hsIn
  obtain ⟨sOut, rfl⟩ := exists_lift_fun sOut hsOut
  obtain ⟨e, rfl⟩ := exists_lift_fun_mat e he
  obtain ⟨crp, rfl⟩ := exists_lift_mat crp hcrp
  obtain ⟨w, rfl⟩ := exists_lift_mat w hw
  have h := congrArg (List.map (List.map (List.map val))) (evk_tree_val t sIn sOut e crp w)
  rw [evalCubeAdd_push val_hom, evkVal_push, evalAdd_push val_hom, evalAdd_push val_hom,
    evalMatAdd_push val_hom] at h
  simp only [evkVal_push] at h
  exact h

/-- **evk_collective_eq_single_rpoly.**  Every party `i` calls `GenShare` with `(sIn i, sOut i)` and its
errors `e i` on the same CRP; the shares are aggregated along `t` (each step into the receiver `recv x`).
Then every call succeeds and the aggregate is EXACTLY what the single-party generator writes for
`(Σ sIn, Σ sOut, Σ e)` — on `RPoly` values. -/
theorem evk_collective_eq_single_rpoly (lvIn lvOut : Nat) (lvInP lvOutP : Int) (crp w : Mat RPoly)
    (out : GShare RPoly) (sIn sOut : Nat → RPoly) (e : Nat → Mat RPoly) (t : AggTree)
    (hl : out.levelQ ≤ min lvIn lvOut) (hlp : out.levelP ≤ min lvInP lvOutP)
    (hs : shapeOf out.val = shapeOf crp)
    (hw : shapeOf w = shapeOf crp) (he : ∀ i ∈ t.leaves, shapeOf (e i) = shapeOf crp)
    (recv : GShare RPoly → GShare RPoly)
    (hrecv : ∀ s, Compat out.levelQ out.levelP out.base2 (shapeOf crp) s →
      Compat out.levelQ out.levelP out.base2 (shapeOf crp) (recv s))
    (hsInW : ∀ i, WFq qs n (sIn i)) (hsOutW : ∀ i, WFq qs n (sOut i))
    (heW : ∀ i, ∀ r ∈ e i, ∀ p ∈ r, WFq qs n p)
    (hcrpW : ∀ r ∈ crp, ∀ p ∈ r, WFq qs n p) (hwW : ∀ r ∈ w, ∀ p ∈ r, WFq qs n p) :
    ∃ shares : Nat → GShare RPoly,
      (∀ i, evkGenShare lvIn lvOut lvInP lvOutP (sIn i) (sOut i) crp w (e i) out = .ok (shares i)) ∧
      ∃ g, t.evalM (fun x y => evkAggregate x y (recv x)) shares = .ok g ∧
        g.levelQ = out.levelQ ∧ g.levelP = out.levelP ∧
        evkGenShare lvIn lvOut lvInP lvOutP (t.eval (· + ·) sIn) (t.eval (· + ·) sOut) crp w
            (t.eval matAdd e) out
          = .ok { out with val := g.val } := by
  refine ⟨fun i => { out with val := evkValR (sIn i) (sOut i) crp w (e i) }, ?_, ?_⟩
  · intro i
    exact evkGenShare_ok lvIn lvOut lvInP lvOutP (sIn i) (sOut i) crp w (e i) out hl hlp hs
  · have hc : ∀ i ∈ t.leaves, Compat out.levelQ out.levelP out.base2 (shapeOf crp)
        ({ out with val := evkValR (sIn i) (sOut i) crp w (e i) } : GShare RPoly) := by
      intro i hi
      exact ⟨rfl, rfl, rfl, deg0_evkVal (sIn i) (sOut i) (shapeOf crp) crp w (e i) rfl hw (he i hi)⟩
    obtain ⟨g, hg, cg, vg⟩ := evk_evalM_compat recv hrecv _ t hc
    refine ⟨g, hg, cg.hq, cg.hp, ?_⟩
    rw [evkGenShare_ok _ _ _ _ _ _ _ _ _ _ hl hlp hs, vg]
    have := evk_tree_val_rpoly t sIn sOut e crp w hsInW hsOutW heW hcrpW hwW
    simp only at this ⊢
    rw [this]
    rfl

/-- an additive map commutes with aggregation: `Σ σ⁻¹(s_i) = σ⁻¹(Σ s_i)` for `σ⁻¹ = RPoly.aut g` -/
theorem tree_aut_rpoly (g : ℕ) (hg : Odd g) (hgc : Nat.Coprime g n) (t : AggTree) (s : Nat → RPoly)
    (hs : ∀ i, WFq qs n (s i)) :
    t.eval (· + ·) (fun i => (s i).aut g) = (t.eval (· + ·) s).aut g := by
  obtain ⟨s, rfl⟩ := exists_lift_fun s hs
  have h := congrArg val (tree_map_add (WFPoly.autRingHom g hg hgc) t s)
  rw [evalAdd_push val_hom] at h
  refine h.trans ?_
  show (val (t.eval (· + ·) s)).aut g = _
  rw [evalAdd_push val_hom]

/-- **gal_collective_eq_single_rpoly.**  `σ⁻¹ = RPoly.aut ginv` (`ginv` odd, coprime to `n`: the driver's
`galInv galEl n`): the aggregate of the parties' Galois shares is exactly the single-party share for
`Σ s_i` (output secret `σ⁻¹(Σ s_i)`), tagged with `galEl` — for every `LevelP ≥ −1`. -/
theorem gal_collective_eq_single_rpoly (ginv : ℕ) (hg : Odd ginv) (hgc : Nat.Coprime ginv n)
    (skLvl bufLvl : Nat) (skLvlP bufLvlP : Int) (galEl : Nat) (crp w : Mat RPoly)
    (out : GalShare RPoly) (s : Nat → RPoly) (e : Nat → Mat RPoly) (t : AggTree)
    (hl : out.sh.levelQ ≤ min skLvl bufLvl) (hlp : out.sh.levelP ≤ min skLvlP bufLvlP)
    (hs : shapeOf out.sh.val = shapeOf crp)
    (hw : shapeOf w = shapeOf crp) (he : ∀ i ∈ t.leaves, shapeOf (e i) = shapeOf crp)
    (hsW : ∀ i, WFq qs n (s i)) (heW : ∀ i, ∀ r ∈ e i, ∀ p ∈ r, WFq qs n p)
    (hcrpW : ∀ r ∈ crp, ∀ p ∈ r, WFq qs n p) (hwW : ∀ r ∈ w, ∀ p ∈ r, WFq qs n p) :
    ∃ shares : Nat → GalShare RPoly,
      (∀ i, galGenShare (fun p => p.aut ginv) skLvl bufLvl skLvlP bufLvlP (s i) galEl crp w (e i) out
          = .ok (shares i)) ∧
      ∃ g, t.evalM (fun x y => galAggregate x y x) shares = .ok g ∧ g.galEl = galEl ∧
        galGenShare (fun p => p.aut ginv) skLvl bufLvl skLvlP bufLvlP (t.eval (· + ·) s) galEl crp w
            (t.eval matAdd e) out
          = .ok ⟨galEl, { out.sh with val := g.sh.val }⟩ := by
  have hgal : ∀ (s : RPoly) (e : Mat RPoly),
      galGenShare (fun p => p.aut ginv) skLvl bufLvl skLvlP bufLvlP s galEl crp w e out
        = .ok ⟨galEl, { out.sh with val := evkValR s (s.aut ginv) crp w e }⟩ := by
    intro s e
    show (evkGenShare skLvl bufLvl skLvlP bufLvlP s (s.aut ginv) crp w e out.sh).bind _ = _
    rw [evkGenShare_ok _ _ _ _ _ _ _ _ _ _ hl hlp hs]
    rfl
  refine ⟨fun i => ⟨galEl, { out.sh with val := evkValR (s i) ((s i).aut ginv) crp w (e i) }⟩,
    fun i => hgal (s i) (e i), ?_⟩
  have hc : ∀ i ∈ t.leaves,
      (⟨galEl, { out.sh with val := evkValR (s i) ((s i).aut ginv) crp w (e i) }⟩ : GalShare RPoly).galEl = galEl ∧
      Compat out.sh.levelQ out.sh.levelP out.sh.base2 (shapeOf crp)
        ({ out.sh with val := evkValR (s i) ((s i).aut ginv) crp w (e i) } : GShare RPoly) := by
    intro i hi
    exact ⟨rfl, rfl, rfl, rfl, deg0_evkVal (s i) ((s i).aut ginv) (shapeOf crp) crp w (e i) rfl hw (he i hi)⟩
  obtain ⟨g, hg', tg, _, vg⟩ := gal_evalM_compat galEl (fun x => x) (fun _ h => h) _ t hc
  refine ⟨g, hg', tg, ?_⟩
  rw [hgal, vg]
  have h1 := evk_tree_val_rpoly t s (fun i => (s i).aut ginv) e crp w hsW
    (fun i => (hsW i).aut ginv hgc) heW hcrpW hwW
  rw [tree_aut_rpoly ginv hg hgc t s hsW] at h1
  simp only at h1 ⊢
  rw [h1]

end rpoly

/-! ## 4. The driver -/

section driver
open Driver.C14

/-- **the `cpk_share` handler calls `cpkShare`** on `RPoly` values: the CRP as parsed, the secret and the
error as residues of the integer vectors (`RPoly.ofInts`, well formed by `ofInts_wf`) -/
theorem handle_cpk_share_calls (qs ps n a s e : String) (qsv psv : List ℕ) (am : List (List ℕ))
    (sv ev : List ℤ)
    (h1 : Driver.parseVec? qs = some qsv) (h2 : Driver.parseVec? ps = some psv)
    (h3 : Driver.parseMat? a = some am) (h4 : Driver.parseIVec? s = some sv)
    (h5 : Driver.parseIVec? e = some ev) :
    handleOpt ["cpk_share", qs, ps, n, a, s, e]
      = some (Driver.showMat (cpkShare (⟨qsv ++ psv, am⟩ : RPoly) (RPoly.ofInts (qsv ++ psv) sv)
          (RPoly.ofInts (qsv ++ psv) ev)).c) := by
  have h : handleOpt ["cpk_share", qs, ps, n, a, s, e] = (do
      let ms := (← Driver.parseVec? qs) ++ (← Driver.parseVec? ps)
      let a : RPoly := ⟨ms, ← Driver.parseMat? a⟩
      let s := RPoly.ofInts ms (← Driver.parseIVec? s)
      let e := RPoly.ofInts ms (← Driver.parseIVec? e)
      some (Driver.showMat (cpkShare a s e).c)) := rfl
  rw [h]
  simp only [h1, h2, h3, h4, h5, Option.bind_eq_bind, Option.bind_some]

/-- **the `evk_agg` handler calls `evkAggregate`** on the three parsed shares -/
theorem handle_evk_agg_calls (qs ps n : String) (rest : List String) (qsv psv : List ℕ)
    (g1 g2 g3 : GShare RPoly) (r1 r2 : List String)
    (h1 : Driver.parseVec? qs = some qsv) (h2 : Driver.parseVec? ps = some psv)
    (h3 : parseG? qsv psv rest = some (g1, r1)) (h4 : parseG? qsv psv r1 = some (g2, r2))
    (h5 : parseG? qsv psv r2 = some (g3, [])) :
    handleOpt ("evk_agg" :: qs :: ps :: n :: rest) = some (showRes (evkAggregate g1 g2 g3)) := by
  have h : handleOpt ("evk_agg" :: qs :: ps :: n :: rest) = (do
      let qs ← Driver.parseVec? qs
      let ps ← Driver.parseVec? ps
      let (g1, rest) ← parseG? qs ps rest
      let (g2, rest) ← parseG? qs ps rest
      let (g3, rest) ← parseG? qs ps rest
      if !rest.isEmpty then none
      some (showRes (evkAggregate g1 g2 g3))) := rfl
  rw [h]
  simp [h1, h2, h3, h4, h5]

end driver

/-! ## 5. A concrete instance: `qs = [97, 193]`, `n = 8`, three parties -/

section concrete

instance good8 : Good [97, 193] 8 := ⟨by decide, by decide⟩

def a8 : RPoly := ⟨[97, 193], [[1, 2, 3, 4, 5, 6, 7, 8], [10, 20, 30, 40, 50, 60, 70, 80]]⟩
def s8 (i : Nat) : RPoly := RPoly.ofInts [97, 193] [1, -1, 0, (i : ℤ) % 2, 0, 0, -1, 1]
def e8 (i : Nat) : RPoly := RPoly.ofInts [97, 193] [1, 0, -1, 0, 2, 0, -2, (i : ℤ) % 3]
def t8 : AggTree := .node (.node (.leaf 0) (.leaf 1)) (.leaf 2)
def t8' : AggTree := .node (.leaf 2) (.node (.leaf 1) (.leaf 0))

/-- instances obtained FROM THE THEOREMS, all hypotheses discharged -/
example : phase (t8.eval cpkAggregate fun i => cpkShare a8 (s8 i) (e8 i)) a8 (t8.eval (· + ·) s8)
    = t8.eval (· + ·) e8 :=
  cpk_phase_rpoly (qs := [97, 193]) (n := 8) a8 s8 e8 t8 (by decide) (fun _ => ofInts_wf _ rfl)
    (fun _ => ofInts_wf _ rfl)

example : t8.eval (· + ·) (fun i => cpkShare a8 (s8 i) (e8 i)) = t8'.eval (· + ·) (fun i => cpkShare a8 (s8 i) (e8 i)) :=
  agg_perm_rpoly (qs := [97, 193]) (n := 8) t8 t8' _ (by decide)
    (fun i _ => by
      have : WFq [97, 193] 8 a8 := by decide
      have hs : WFq [97, 193] 8 (s8 i) := ofInts_wf _ rfl
      have he : WFq [97, 193] 8 (e8 i) := ofInts_wf _ rfl
      unfold cpkShare
      exact he.sub (hs.mul this))

/-- TEST (evaluation of the model on these values) -/
example : phase (t8.eval cpkAggregate fun i => cpkShare a8 (s8 i) (e8 i)) a8 (t8.eval (· + ·) s8)
    = t8.eval (· + ·) e8 := by decide +kernel

example : (t8.eval (· + ·) e8).c = [[3, 0, 94, 0, 6, 0, 91, 3], [3, 0, 190, 0, 6, 0, 187, 3]] := by
  decide +kernel

end concrete

end Lattigo.Props.C14Ring

#print axioms Lattigo.Props.C14Ring.agg_perm_rpoly
#print axioms Lattigo.Props.C14Ring.cpk_phase_rpoly
#print axioms Lattigo.Props.C14Ring.cpk_eq_single_rpoly
#print axioms Lattigo.Props.C14Ring.evk_row_rpoly
#print axioms Lattigo.Props.C14Ring.rkg_row_rpoly
#print axioms Lattigo.Props.C14Ring.evk_tree_val_rpoly
#print axioms Lattigo.Props.C14Ring.evk_collective_eq_single_rpoly
#print axioms Lattigo.Props.C14Ring.gal_collective_eq_single_rpoly
#print axioms Lattigo.Props.C14Ring.handle_cpk_share_calls
#print axioms Lattigo.Props.C14Ring.handle_evk_agg_calls
