/-
  C04 — "noise below the bound implied by the key's decomposition parameters".

  `Props/C04.lean` proves the EXACT phase identity `phase(KS(c), s_out) = c·s_in + ν` with
  `P·ν = Σ_{i,j} d_ij·e_ij − ρ₀ − ρ₁·s_out` (hypothesis (R) there: `ρ₀, ρ₁` the centred remainders modulo `P`
  of the two accumulators).  Here the size of `ν`, over the integer ring `Z[X]/(X^N+1)` = `Lattigo.ZPoly`
  (coefficient lists; the carrier in which the noise lives once `|ν| < Q/2`):

      ‖ν‖∞ ≤ (N·B·Σ_{i,j} D_ij)/P + (1 + h)/2          (exactly: 2P‖ν‖∞ ≤ 2N·B·ΣD + P(1+h))

  with `N` the ring degree, `B ≥ ‖e_ij‖∞` the error bound, `h ≥ ‖s_out‖₁` (Hamming weight for a ternary secret),
  and `D_ij ≥ ‖d_ij‖∞` the digit magnitude, which the decomposition parameters fix:

      D_ij = q_i − ⌊q_i/2⌋ = ⌈q_i/2⌉   single-prime RNS digit (copy branch of `DecomposeAndSplit`, `centerSingle`),
      D_ij = ⌊Q_i/2⌋                   multi-prime RNS digit, `Q_i = Π` of the ≤ `nbPi` primes of digit `i`
                                       (HPS branch with the exact index, `centeredRep`; an index error `δ` of the
                                       float path adds `|δ|·Q_i`, see `Props/C02.decompose_multi_limbs`),
      D_ij = 2^w − 1                   base-`2^w` digit (`MaskVec`, unsigned).

  Without auxiliary modulus (`P = 1`, no division): `‖ν‖∞ ≤ N·B·ΣD` (`keyswitch_noise_bound_noP`).

  Relation to the harness: `c04PS.ksNoiseBound` (harness/c04_util.go) tests
      N·(B_e+1)·Σ D'_ij / P + (N+1)/2 + 2    with D' = ⌊Q_i/2⌋ + 1 (RNS) resp. 2^w (base two), secret weight ≤ N;
  every term is ≥ the corresponding term of `keyswitch_noise_bound_div` (`⌊Q_i/2⌋+1 ≥ ⌈q_i/2⌉`, `2^w ≥ 2^w−1`,
  `(N+1)/2 + 2 ≥ ⌊(1+h)/2⌋ + 1` for `h ≤ N`), so the probe's bound is ≥ the theorem's: no false alarm possible.

  Gap that remains: `ZPoly` is not registered as a `CommRing` instance, so the hypothesis `hrel` below is the
  ZPoly reading of (R), not derived from `Props/C04.keyswitch_phase` (same situation as C03's `noise_upper_pk_P`).
-/
import Lattigo.Proofs.NoiseNorm
import Lattigo.Model.KeySwitch
import Lattigo.Props.C02

namespace Lattigo.KS.C04
open Lattigo Lattigo.ZPoly

/-! ## 1. The digit ranges `D_ij`, from the decomposition -/

/-- copy branch (`centerSingle`, the model's single-prime digit): `|d| ≤ q − ⌊q/2⌋ = ⌈q/2⌉` -/
theorem centerSingle_natAbs_le (q x : Nat) (hx : x < q) : (centerSingle q x).natAbs ≤ q - q / 2 := by
  unfold centerSingle
  split <;> omega

/-- the same through C02's `copy_digit` (`digitA` of the limb-level twin is the same function) -/
theorem centerSingle_eq_digitA (q x : Nat) : centerSingle q x = Decomp.digitA q x := by
  unfold centerSingle Decomp.digitA
  rfl

theorem digitA_natAbs_le (q x : Nat) (hx : x < q) : (Decomp.digitA q x).natAbs ≤ q - q / 2 := by
  have h := (Lattigo.Props.C02.copy_digit q x hx).2
  omega

/-- HPS branch with the exact index (C02 `centred_digit`): `|d| ≤ ⌊Q_d/2⌋` -/
theorem centeredRep_natAbs_le (Qd x : Nat) (hQ : 0 < Qd) : (BasisExt.centeredRep Qd x).natAbs ≤ Qd / 2 := by
  have h := (Lattigo.Props.C02.centred_digit Qd x hQ).2
  omega

/-- HPS branch with an index error `δ` of the float path (`hpsV − fidx`, C02 `decompose_multi_limbs`): the value the
    limbs are congruent to is `centeredRep + δ·Q_d`, so `|d| ≤ ⌊Q_d/2⌋ + |δ|·Q_d` (`δ = 0` for the exact index; the
    float index is exact except within `~2^-50·Q_d` of a multiple of `Q_d`, where `|δ| = 1`) -/
theorem centeredRep_err_natAbs_le (Qd x : Nat) (δ : Int) (hQ : 0 < Qd) :
    (BasisExt.centeredRep Qd x + δ * (Qd : Int)).natAbs ≤ Qd / 2 + δ.natAbs * Qd := by
  have h1 := Int.natAbs_add_le (BasisExt.centeredRep Qd x) (δ * (Qd : Int))
  have h2 := centeredRep_natAbs_le Qd x hQ
  rw [Int.natAbs_mul, Int.natAbs_natCast] at h1
  omega

/-- the model's `bitDigit` is C02's `pow2Digit` (`MaskVec`) -/
theorem bitDigit_eq_pow2Digit (w j x : Nat) : bitDigit w j x = Decomp.pow2Digit w j x := by
  unfold bitDigit Decomp.pow2Digit Gen.MaskVec_lane u64and u64shr
  rw [Nat.shiftRight_eq_div_pow]

/-- base-`2^w` digit (C02 `pow2_digit_lt`): `0 ≤ d ≤ 2^w − 1` -/
theorem bitDigit_le (w j x : Nat) : bitDigit w j x ≤ 2 ^ w - 1 := by
  have h := Lattigo.Props.C02.pow2_digit_lt w j x
  rw [bitDigit_eq_pow2Digit]
  omega

/-- the signed coefficient list `decomposeRNS` hands to `ofInts` for a single-prime digit -/
def rnsDigitZ (q : Nat) (row : List Nat) : List Int := row.map (centerSingle q)

/-- the coefficient list `decomposeBits` hands to `ofInts` -/
def bitDigitZ (w j : Nat) (row : List Nat) : List Int := row.map fun x => ((bitDigit w j x : Nat) : Int)

/-- multi-prime digit with the exact index, from the CRT values `xs` of the digit's residues -/
def hpsDigitZ (Qd : Nat) (xs : List Nat) : List Int := xs.map (BasisExt.centeredRep Qd)

theorem normInf_rnsDigitZ (q : Nat) (row : List Nat) (h : ∀ x ∈ row, x < q) :
    normInf (rnsDigitZ q row) ≤ q - q / 2 :=
  normInf_map_le _ _ _ fun x hx => centerSingle_natAbs_le q x (h x hx)

theorem normInf_bitDigitZ (w j : Nat) (row : List Nat) : normInf (bitDigitZ w j row) ≤ 2 ^ w - 1 :=
  normInf_map_le _ _ _ fun x _ => by
    have := bitDigit_le w j x
    omega

theorem normInf_hpsDigitZ (Qd : Nat) (xs : List Nat) (hQ : 0 < Qd) : normInf (hpsDigitZ Qd xs) ≤ Qd / 2 :=
  normInf_map_le _ _ _ fun x _ => centeredRep_natAbs_le Qd x hQ

/-- digit matrix of `gadgetProductSinglePAndBitDecompLazy` with `BaseTwoDecomposition = 0` (one single-prime digit
    per row, `decompose … w = 0` with one entry per row) and its bound matrix `D_i0 = q_i − ⌊q_i/2⌋` -/
theorem digitsBounded_rns (N : Nat) (qs : List Nat) (rows : List (List Nat))
    (h : List.Forall₂ (fun q row => row.length ≤ N ∧ ∀ x ∈ row, x < q) qs rows) :
    DigitsBounded N (List.zipWith (fun q row => [rnsDigitZ q row]) qs rows) (qs.map fun q => [q - q / 2]) := by
  unfold DigitsBounded
  induction h with
  | nil => exact List.Forall₂.nil
  | @cons q row qs rows hq _ ih =>
    refine List.Forall₂.cons (List.Forall₂.cons ⟨?_, normInf_rnsDigitZ q row hq.2⟩ List.Forall₂.nil) ih
    simpa [rnsDigitZ] using hq.1

/-- … with multi-prime digits (`gadgetProductMultiplePLazy`, exact index): `D_i0 = ⌊Q_i/2⌋` -/
theorem digitsBounded_hps (N : Nat) (Qs : List Nat) (cols : List (List Nat))
    (h : List.Forall₂ (fun Q xs => xs.length ≤ N ∧ 0 < Q) Qs cols) :
    DigitsBounded N (List.zipWith (fun Q xs => [hpsDigitZ Q xs]) Qs cols) (Qs.map fun Q => [Q / 2]) := by
  unfold DigitsBounded
  induction h with
  | nil => exact List.Forall₂.nil
  | @cons Q xs Qs cols hq _ ih =>
    refine List.Forall₂.cons (List.Forall₂.cons ⟨?_, normInf_hpsDigitZ Q xs hq.2⟩ List.Forall₂.nil) ih
    simpa [hpsDigitZ] using hq.1

theorem bitRow_bounded (N w : Nat) (row : List Nat) (hl : row.length ≤ N) (js : List Nat) :
    List.Forall₂ (fun d D => d.length ≤ N ∧ normInf d ≤ D) (js.map fun j => bitDigitZ w j row)
      (List.replicate js.length (2 ^ w - 1)) := by
  induction js with
  | nil => exact List.Forall₂.nil
  | cons j js ih =>
    exact List.Forall₂.cons ⟨by simpa [bitDigitZ] using hl, normInf_bitDigitZ w j row⟩ ih

/-- … with base-`2^w` digits, row `i` carrying `nJ_i` digits: `D_ij = 2^w − 1` -/
theorem digitsBounded_pow2 (N w : Nat) (nJ : List Nat) (rows : List (List Nat))
    (h : List.Forall₂ (fun (_ : Nat) (row : List Nat) => row.length ≤ N) nJ rows) :
    DigitsBounded N (List.zipWith (fun n row => (List.range n).map fun j => bitDigitZ w j row) nJ rows)
      (nJ.map fun n => List.replicate n (2 ^ w - 1)) := by
  unfold DigitsBounded
  induction h with
  | nil => exact List.Forall₂.nil
  | @cons n row nJ rows hq _ ih =>
    refine List.Forall₂.cons ?_ ih
    have := bitRow_bounded N w row hq (List.range n)
    simpa using this

theorem sumSum_rns (qs : List Nat) : sumSum (qs.map fun q => [q - q / 2]) = (qs.map fun q => q - q / 2).sum := by
  simp [sumSum, Function.comp_def]

theorem sumSum_hps (Qs : List Nat) : sumSum (Qs.map fun Q => [Q / 2]) = (Qs.map fun Q => Q / 2).sum := by
  simp [sumSum, Function.comp_def]

theorem sumSum_pow2 (w : Nat) (nJ : List Nat) :
    sumSum (nJ.map fun n => List.replicate n (2 ^ w - 1)) = nJ.sum * (2 ^ w - 1) := by
  induction nJ with
  | nil => simp [sumSum]
  | cons n ns ih =>
    simp only [sumSum, List.map_cons, List.sum_cons] at ih ⊢
    rw [ih, sum_replicate_nat, Nat.add_mul]

/-! ## 2. The key-switching noise bound -/

/-- **keyswitch_noise_bound.**  `P·ν = Σ_{i,j} d_ij·e_ij − ρ₀ − s·ρ₁` with centred remainders (`2‖ρ‖∞ ≤ P`),
    digits `‖d_ij‖∞ ≤ D_ij` on `≤ N` coefficients, errors `‖e_ij‖∞ ≤ B`, output secret `‖s‖₁ ≤ h`:
    `2P·‖ν‖∞ ≤ 2·N·B·Σ D_ij + P·(1 + h)`, i.e. `‖ν‖∞ ≤ (N·B·ΣD)/P + (1 + h)/2`. -/
theorem keyswitch_noise_bound (N P B h : Nat) (ds es : List (List (List Int))) (Dss : List (List Nat))
    (ν ρ0 ρ1 s : List Int) (hd : DigitsBounded N ds Dss) (he : ErrBounded B es)
    (hrel : smul P ν = sub (sub (dotMatZ N ds es) ρ0) (mul s ρ1))
    (h0 : 2 * normInf ρ0 ≤ P) (h1 : 2 * normInf ρ1 ≤ P) (hs : norm1 s ≤ h) :
    2 * (P * normInf ν) ≤ 2 * (N * B * sumSum Dss) + P * (1 + h) :=
  rounding_bound P ν _ ρ0 ρ1 s _ h hrel h0 h1 (normInf_dotMatZ_le_of_bounds N B ds es Dss hd he) hs

/-- floor form: `‖ν‖∞ ≤ ⌊N·B·ΣD / P⌋ + ⌊(1 + h)/2⌋ + 1` -/
theorem keyswitch_noise_bound_div (N P B h : Nat) (ds es : List (List (List Int))) (Dss : List (List Nat))
    (ν ρ0 ρ1 s : List Int) (hP : 0 < P) (hd : DigitsBounded N ds Dss) (he : ErrBounded B es)
    (hrel : smul P ν = sub (sub (dotMatZ N ds es) ρ0) (mul s ρ1))
    (h0 : 2 * normInf ρ0 ≤ P) (h1 : 2 * normInf ρ1 ≤ P) (hs : norm1 s ≤ h) :
    normInf ν ≤ N * B * sumSum Dss / P + (1 + h) / 2 + 1 :=
  le_div_of_two_mul P _ _ h hP (keyswitch_noise_bound N P B h ds es Dss ν ρ0 ρ1 s hd he hrel h0 h1 hs)

/-- key without auxiliary modulus (no division, `keyswitch_phase_QP` read in `R_Q`): `‖Σ d_ij e_ij‖∞ ≤ N·B·ΣD` -/
theorem keyswitch_noise_bound_noP (N B : Nat) (ds es : List (List (List Int))) (Dss : List (List Nat))
    (hd : DigitsBounded N ds Dss) (he : ErrBounded B es) :
    normInf (dotMatZ N ds es) ≤ N * B * sumSum Dss :=
  normInf_dotMatZ_le_of_bounds N B ds es Dss hd he

/-- single-prime RNS digits (`BaseTwoDecomposition = 0`, at most one special prime): `D_i = ⌈q_i/2⌉` -/
theorem keyswitch_noise_bound_rns (N P B h : Nat) (qs : List Nat) (rows : List (List Nat))
    (es : List (List (List Int))) (ν ρ0 ρ1 s : List Int)
    (hrows : List.Forall₂ (fun q row => row.length ≤ N ∧ ∀ x ∈ row, x < q) qs rows) (he : ErrBounded B es)
    (hrel : smul P ν = sub (sub (dotMatZ N (List.zipWith (fun q row => [rnsDigitZ q row]) qs rows) es) ρ0) (mul s ρ1))
    (h0 : 2 * normInf ρ0 ≤ P) (h1 : 2 * normInf ρ1 ≤ P) (hs : norm1 s ≤ h) :
    2 * (P * normInf ν) ≤ 2 * (N * B * (qs.map fun q => q - q / 2).sum) + P * (1 + h) := by
  rw [← sumSum_rns]
  exact keyswitch_noise_bound N P B h _ es _ ν ρ0 ρ1 s (digitsBounded_rns N qs rows hrows) he hrel h0 h1 hs

/-- multi-prime RNS digits (≥ 2 special primes, exact HPS index): `D_i = ⌊Q_i/2⌋`, `Q_i` the digit modulus -/
theorem keyswitch_noise_bound_hps (N P B h : Nat) (Qs : List Nat) (cols : List (List Nat))
    (es : List (List (List Int))) (ν ρ0 ρ1 s : List Int)
    (hcols : List.Forall₂ (fun Q xs => xs.length ≤ N ∧ 0 < Q) Qs cols) (he : ErrBounded B es)
    (hrel : smul P ν = sub (sub (dotMatZ N (List.zipWith (fun Q xs => [hpsDigitZ Q xs]) Qs cols) es) ρ0) (mul s ρ1))
    (h0 : 2 * normInf ρ0 ≤ P) (h1 : 2 * normInf ρ1 ≤ P) (hs : norm1 s ≤ h) :
    2 * (P * normInf ν) ≤ 2 * (N * B * (Qs.map fun Q => Q / 2).sum) + P * (1 + h) := by
  rw [← sumSum_hps]
  exact keyswitch_noise_bound N P B h _ es _ ν ρ0 ρ1 s (digitsBounded_hps N Qs cols hcols) he hrel h0 h1 hs

/-- base-`2^w` digits, `nJ_i` per row (`Σ nJ_i` digits in total): `D_ij = 2^w − 1` -/
theorem keyswitch_noise_bound_pow2 (N P B h w : Nat) (nJ : List Nat) (rows : List (List Nat))
    (es : List (List (List Int))) (ν ρ0 ρ1 s : List Int)
    (hrows : List.Forall₂ (fun (_ : Nat) (row : List Nat) => row.length ≤ N) nJ rows) (he : ErrBounded B es)
    (hrel : smul P ν = sub (sub (dotMatZ N
        (List.zipWith (fun n row => (List.range n).map fun j => bitDigitZ w j row) nJ rows) es) ρ0) (mul s ρ1))
    (h0 : 2 * normInf ρ0 ≤ P) (h1 : 2 * normInf ρ1 ≤ P) (hs : norm1 s ≤ h) :
    2 * (P * normInf ν) ≤ 2 * (N * B * (nJ.sum * (2 ^ w - 1))) + P * (1 + h) := by
  rw [← sumSum_pow2]
  exact keyswitch_noise_bound N P B h _ es _ ν ρ0 ρ1 s (digitsBounded_pow2 N w nJ rows hrows) he hrel h0 h1 hs

/-! ## 3. Relinearisation and automorphism -/

/-- **relin_noise_bound**: `relin_phase` is `keyswitch_phase` with input key `s²` and output key `s`; the noise
    `ν` added to `c0 + c1·s + c2·s²` obeys the same bound with `h ≥ ‖s‖₁` (the digits are those of `c2`). -/
theorem relin_noise_bound (N P B h : Nat) (ds es : List (List (List Int))) (Dss : List (List Nat))
    (ν ρ0 ρ1 s : List Int) (hd : DigitsBounded N ds Dss) (he : ErrBounded B es)
    (hrel : smul P ν = sub (sub (dotMatZ N ds es) ρ0) (mul s ρ1))
    (h0 : 2 * normInf ρ0 ≤ P) (h1 : 2 * normInf ρ1 ≤ P) (hs : norm1 s ≤ h) :
    2 * (P * normInf ν) ≤ 2 * (N * B * sumSum Dss) + P * (1 + h) :=
  keyswitch_noise_bound N P B h ds es Dss ν ρ0 ρ1 s hd he hrel h0 h1 hs

/-- **automorphism_noise_bound**: in `automorphism_phase` the key switch goes to `σ_{g'}(s)` (`g' = g⁻¹`) and the
    noise that appears is `σ_g(ν)`.  `σ` does not increase `‖·‖₁` nor `‖·‖∞`, so the bound is the key-switching
    bound with the weight of `s` itself. -/
theorem automorphism_noise_bound (N P B h g g' : Nat) (ds es : List (List (List Int))) (Dss : List (List Nat))
    (ν ρ0 ρ1 s : List Int) (hd : DigitsBounded N ds Dss) (he : ErrBounded B es)
    (hrel : smul P ν = sub (sub (dotMatZ N ds es) ρ0) (mul (autZ g' s) ρ1))
    (h0 : 2 * normInf ρ0 ≤ P) (h1 : 2 * normInf ρ1 ≤ P) (hs : norm1 s ≤ h) :
    2 * (P * normInf (autZ g ν)) ≤ 2 * (N * B * sumSum Dss) + P * (1 + h) := by
  have hb := keyswitch_noise_bound N P B h ds es Dss ν ρ0 ρ1 (autZ g' s) hd he hrel h0 h1
    (Nat.le_trans (norm1_autZ_le g' s) hs)
  have := Nat.mul_le_mul_left P (normInf_autZ_le g ν)
  omega

/-! ## 4. Non-vacuity (small numbers) -/

/-- `N = 2`, `Q = 7·11`, `P = 5`, `B = 1`, ternary `s = 1` (`h = 1`): digits of `c = (5, 2 | 10, 3)` are
    `[-2, 2]`, `[-1, 3]` (`D = 4, 6`), errors `[1,-1]`, `[-1,1]`: `Σ d e = [-2, 0] = 5·[-1, 0] + [2, 2] + 1·[1, -2]`;
    the theorem gives `2·5·‖ν‖∞ = 10 ≤ 2·(2·1·10) + 5·2 = 50`. -/
example :
    let qs := [7, 11]
    let rows := [[5, 2], [10, 3]]
    let es : List (List (List Int)) := [[[1, -1]], [[-1, 1]]]
    List.Forall₂ (fun q row => row.length ≤ 2 ∧ ∀ x ∈ row, x < q) qs rows ∧ ErrBounded 1 es ∧
    smul (5 : Nat) [-1, 0] = sub (sub (dotMatZ 2 (List.zipWith (fun q row => [rnsDigitZ q row]) qs rows) es) [2, 2])
      (mul [1, 0] [1, -2]) ∧
    2 * normInf [2, 2] ≤ 5 ∧ 2 * normInf [1, -2] ≤ 5 ∧ norm1 [1, 0] ≤ 1 ∧
    2 * (5 * normInf [-1, 0]) ≤ 2 * (2 * 1 * ([7, 11].map fun q => q - q / 2).sum) + 5 * (1 + 1) := by
  refine ⟨?_, ?_, by decide, by decide, by decide, by decide, by decide⟩
  · exact List.Forall₂.cons (by decide) (List.Forall₂.cons (by decide) List.Forall₂.nil)
  · unfold ErrBounded; decide

/-- base-4 digits (`w = 2`) of the row `[11, 6]` modulo `13`: `[3, 2]`, `[2, 1]`, all `≤ 2^2 − 1` -/
example : (List.range 2).map (fun j => bitDigitZ 2 j [11, 6]) = [[3, 2], [2, 1]]
    ∧ sumSum ([2].map fun n => List.replicate n (2 ^ 2 - 1)) = 6 := by decide

/-- `σ_3` on `N = 4`: `‖σ_3 ν‖∞ = ‖ν‖∞` and the secret keeps its weight -/
example : normInf (autZ 3 [1, -2, 0, 1]) = 2 ∧ norm1 (autZ 3 [1, 0, -1, 0]) = 2 := by decide

end Lattigo.KS.C04

#print axioms Lattigo.KS.C04.centerSingle_natAbs_le
#print axioms Lattigo.KS.C04.centeredRep_natAbs_le
#print axioms Lattigo.KS.C04.centeredRep_err_natAbs_le
#print axioms Lattigo.KS.C04.bitDigit_le
#print axioms Lattigo.KS.C04.keyswitch_noise_bound
#print axioms Lattigo.KS.C04.keyswitch_noise_bound_div
#print axioms Lattigo.KS.C04.keyswitch_noise_bound_noP
#print axioms Lattigo.KS.C04.keyswitch_noise_bound_rns
#print axioms Lattigo.KS.C04.keyswitch_noise_bound_hps
#print axioms Lattigo.KS.C04.keyswitch_noise_bound_pow2
#print axioms Lattigo.KS.C04.relin_noise_bound
#print axioms Lattigo.KS.C04.automorphism_noise_bound
