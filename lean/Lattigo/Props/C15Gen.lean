/-
  Property C15 — the REGENERATED tie for the RNS-scalar arithmetic under `Combiner.lagrangeCoeff`.

  `Lattigo/Gen/Scalar.lean` is printed by `tools/go2lean` (typed mode) from the Go source on every
  `./check C15`:

      ring/utils.go   ModexpMontgomery   (`for i := e; i > 0; i >>= 1`, `e`/`i` Go `int`s: `i64gt`,
                                          `i64shr`; `loopWhile 64`, rule S)
      ring/scalar.go  the BODY of `for i, s := range r.SubRings[:r.level+1]` in
                      NewRNSScalarFromUInt64, MFormRNSScalar, NegRNSScalar, SubRNSScalar,
                      MulRNSScalar, Inverse — as functions `…_body Modulus MRedConstant BRedConstant …`
                      of the sub-ring constants and the `[i]`-th words

  (struct-heavy `multiparty/threshold.go` and the polynomial Horner loop `ring.EvalPolyScalar` stay
  hand-modelled and tied by the correspondence check.)

  `Model/Shamir.lean` works on canonical residues, the code on Montgomery words.  The theorems below
  say the residue-level functions `subMod`, `powMod`/`inverse`, `mulScalars`, `lagrangeCoeff` are
  REFINED by the regenerated bodies under the relation `Mont q a x : x % q = (a·2^64) % q`
  ("`x` is a Montgomery representative of `a`"), using C01's word-level specifications
  (`MRed_spec`, `MRedLazy_spec`, `MForm_spec`, themselves about regenerated code).
  Hypotheses: `MontConst q qinv` (`q·qinv ≡ 1 mod 2^64`: `q` odd, `qinv = s.MRedConstant`),
  `2q ≤ 2^64` (`MRed`), `4q ≤ 2^64` for products of lazily reduced words, `BRedConstant = brc q`.
-/
import Lattigo.Proofs.GenScalar
import Mathlib.Tactic.NormNum.Prime

namespace Lattigo.Props.C15
open Lattigo Lattigo.Model.Shamir Lattigo.Proofs.GenScalar

/-- `2^16 + 1` and its Montgomery constant, for the non-vacuity examples. -/
abbrev qF : Nat := 65537
theorem montF : MontConst qF (Gen.GenMRedConstant qF) := (GenMRedConstant_spec qF (by decide) (by decide)).1
instance : Fact (Nat.Prime qF) := ⟨by norm_num⟩

/-- `NewRNSScalarFromUInt64`: the regenerated body is `v % q` (as `lagrangeCoeff` reduces its keys). -/
theorem newRNSScalar_gen (q mrc : Nat) (bc : Nat × Nat) (v : Nat) :
    Gen.NewRNSScalarFromUInt64_body q mrc bc v = v % q :=
  NewRNSScalarFromUInt64_body_eq q mrc bc v

/-- **`subMod` is the regenerated body of `SubRNSScalar`** on reduced operands. -/
theorem subMod_gen (q mrc : Nat) (bc : Nat × Nat) (a b o : Nat) (hqW : q ≤ W) (ha : a < q) (hb : b < q) :
    Gen.SubRNSScalar_body q mrc bc a b o = subMod q a b :=
  SubRNSScalar_body_eq q mrc bc a b o hqW ha hb

example : Gen.SubRNSScalar_body qF 0 (0, 0) 3 65536 7 = subMod qF 3 65536 :=
  subMod_gen qF 0 (0, 0) 3 65536 7 (by decide) (by decide) (by decide)

/-- word-level specification of the regenerated `ModexpMontgomery`, non-negative `int` exponent:
    `R < q` and `R·W^e ≡ W·x^e (mod q)`. -/
theorem modexpMontgomery_spec_gen (x e q qinv : Nat) (hq : 1 < q) (h2q : 2 * q ≤ W) (hm : MontConst q qinv)
    (hx : x < q) (he : e < 2 ^ 63) :
    Gen.ModexpMontgomery x e q qinv (brc q) < q ∧
    (Gen.ModexpMontgomery x e q qinv (brc q) * W ^ e) % q = (W * x ^ e) % q :=
  Modexp_spec x e q qinv hq h2q hm hx he

example := modexpMontgomery_spec_gen 65536 (2 ^ 63 - 1) qF _ (by decide) (by decide) montF (by decide) (by decide)

/-- a negative exponent leaves `MForm(1)`: the loop `for i := e; i > 0; …` does not run. -/
theorem modexpMontgomery_neg_gen (x e q qinv : Nat) (bc : Nat × Nat) (he : 2 ^ 63 ≤ e) (heW : e < W) :
    Gen.ModexpMontgomery x e q qinv bc = Gen.MForm 1 q bc :=
  Modexp_neg x e q qinv bc he heW

/-- **`powMod` is refined by the regenerated `ModexpMontgomery`.** -/
theorem powMod_gen (x a e q qinv : Nat) (hq : 1 < q) (h2q : 2 * q ≤ W) (hm : MontConst q qinv)
    (hx : x < q) (he : e < 2 ^ 63) (hxa : Mont q a x) :
    Gen.ModexpMontgomery x e q qinv (brc q) < q ∧
    Mont q (powMod q a e) (Gen.ModexpMontgomery x e q qinv (brc q)) :=
  powMod_refines x a e q qinv hq h2q hm hx he hxa

/-- `x = 7·2^64 mod q` represents `7`. -/
example := powMod_gen (7 * W % qF) 7 12345 qF _ (by decide) (by decide) montF (by decide) (by decide)
  (by unfold Mont; rw [Nat.mod_mod])

/-- **`inverse` is refined by the regenerated body of `Inverse`.** -/
theorem inverse_gen (x a q qinv : Nat) (hq : 2 ≤ q) (h2q : 2 * q ≤ W) (hm : MontConst q qinv)
    (hx : x < q) (hxa : Mont q a x) :
    Gen.Inverse_body q qinv (brc q) x < q ∧ Mont q (inverse q a) (Gen.Inverse_body q qinv (brc q) x) :=
  inverse_refines x a q qinv hq h2q hm hx hxa

example := inverse_gen (7 * W % qF) 7 qF _ (by decide) (by decide) montF (by decide)
  (by unfold Mont; rw [Nat.mod_mod])

/-- **one entry of `mulScalars` (`a·b % q`) is refined by the regenerated body of `MulRNSScalar`**
    on lazily reduced Montgomery representatives. -/
theorem mulScalars_gen (q qinv : Nat) (bc : Nat × Nat) (s1 s2 o a b : Nat) (h4q : 4 * q ≤ W)
    (hm : MontConst q qinv) (h1 : s1 < 2 * q) (h2 : s2 < 2 * q) (ha : Mont q a s1) (hb : Mont q b s2) :
    Gen.MulRNSScalar_body q qinv bc s1 s2 o < 2 * q ∧
    Mont q (a * b % q) (Gen.MulRNSScalar_body q qinv bc s1 s2 o) :=
  mulScalars_refines q qinv bc s1 s2 o a b h4q hm h1 h2 ha hb

example := mulScalars_gen qF _ (0, 0) (7 * W % qF + qF) (9 * W % qF) 0 7 9 (by decide) montF (by decide) (by decide)
  (by unfold Mont; rw [Nat.add_mod_right, Nat.mod_mod]) (by unfold Mont; rw [Nat.mod_mod])

/-- `mulScalars` is entrywise that product. -/
theorem mulScalars_entry_gen (ms a b : List Nat) (i : Nat) (h : i < (mulScalars ms a b).length) :
    ∃ (hm : i < ms.length) (ha : i < a.length) (hb : i < b.length),
      (mulScalars ms a b)[i] = a[i] * b[i] % ms[i] :=
  mulScalars_entry ms a b i h

/-- **`lagrangeCoeff` is refined by the regenerated code**, composed as `Combiner.lagrangeCoeff`
    composes it (`NewRNSScalarFromUInt64` twice, `SubRNSScalar`, `Inverse`, `MulRNSScalar`): for every
    prime `2 < q`, `2q ≤ 2^64` and ALL `uint64` keys the stored word is `< 2q` and a Montgomery
    representative of `lagrangeCoeff q thisKey thatKey`. -/
theorem lagrangeCoeff_gen (q qinv : Nat) [Fact q.Prime] (h2 : 2 < q) (h2q : 2 * q ≤ W)
    (hm : MontConst q qinv) (thisKey thatKey : Nat) :
    lagrangeCoeffWord q qinv (brc q) thisKey thatKey < 2 * q ∧
    Mont q (lagrangeCoeff q thisKey thatKey) (lagrangeCoeffWord q qinv (brc q) thisKey thatKey) :=
  lagrangeCoeff_refines q qinv h2 h2q hm thisKey thatKey

example := lagrangeCoeff_gen qF _ (by decide) (by decide) montF (W - 1) 4294967299

/-- test by evaluation (kernel): the regenerated word for keys `1, 3` mod `65537` and the model value
    `3/(3-1) = 32770`: `word ≡ 32770·2^64`. -/
example : lagrangeCoeffWord qF (Gen.GenMRedConstant qF) (brc qF) 1 3 % qF = (lagrangeCoeff qF 1 3 * W) % qF
    ∧ lagrangeCoeff qF 1 3 = 32770 := by
  decide +kernel

/-- the fuel 64 of the printed `ModexpMontgomery` loop is adequate (rule S checked). -/
theorem modexpMontgomery_fuel_gen (q qinv e r x : Nat) (he : e < W) (fuel : Nat) (hf : 64 ≤ fuel) :
    loopWhile fuel mexpCond (mexpBody q qinv) (e, r, x) = loopWhile 64 mexpCond (mexpBody q qinv) (e, r, x) :=
  Modexp_fuel q qinv e r x he fuel hf

end Lattigo.Props.C15

#print axioms Lattigo.Props.C15.montF
#print axioms Lattigo.Props.C15.newRNSScalar_gen
#print axioms Lattigo.Props.C15.subMod_gen
#print axioms Lattigo.Props.C15.modexpMontgomery_spec_gen
#print axioms Lattigo.Props.C15.modexpMontgomery_neg_gen
#print axioms Lattigo.Props.C15.powMod_gen
#print axioms Lattigo.Props.C15.inverse_gen
#print axioms Lattigo.Props.C15.mulScalars_gen
#print axioms Lattigo.Props.C15.mulScalars_entry_gen
#print axioms Lattigo.Props.C15.lagrangeCoeff_gen
#print axioms Lattigo.Props.C15.modexpMontgomery_fuel_gen
