/-
  C20 on the carrier the driver executes.

  `Props/C20.lean` proves `rgsw_rows_phase`, `extprod_phase`, `extprod_phase_noP`, `extprod_phase_div`,
  `rgsw_add`, `rgsw_mulXminus1`, `rgsw_mulXminus1_add`, `rgsw_addPlain`, `blindrot_invariant` for the
  generic functions of `Model/RGSW.lean` / `Model/BlindRot.lean` over EVERY commutative ring; the driver
  (`Driver/C20.lean`) runs them on plain `RPoly` values.  Here they are instantiated at the commutative
  ring `WFPoly qs n` (`Proofs/RPolyRing.lean`) and transported to `RPoly`:

    hypotheses = well-formedness of the INPUTS (`WFq qs n a` : `a.qs = qs ∧ a.WF n`) + the gadget
                 recombination hypotheses of the generic theorems, stated on the `RPoly` values;
    conclusion = the same identity between `RPoly` values (`Σ_k d_k x_k` is `wsumZ (RPoly.zero qs n)`).

  NOT transported / left as hypotheses (reason):
  * `extprod_phase_div`: `md` (rounded division by `P`) and `r` (projection of the centred remainder) are not
    ring operations; they are ABSTRACT functions on `RPoly` subject to closure and `P·md x = π x − r x` on
    well-formed `x` (`extprod_phase_div_rpoly`).  That the driver's `RGSW.modDown` satisfies it is C02's
    arithmetic (CRT reconstruction), not proved here.  The recombination hypotheses `Σ d_k·P w_k = P·c` for the
    digits `digitsOf` produces are hypotheses, as in the generic theorem.
  * `blindrot_invariant` AS ORIGINALLY STATED could not be instantiated at `WFPoly qs n` (nor at any ring
    `Z_q[X]/(X^n+1)`, `q > 2`): its hypotheses `hφmul`, `hφmono` quantified over ALL `g : ZMod m`, and for even `g` no multiplicative
    additive map with `φ_g(X^u) = X^{g u}` exists (`φ_g(X)^n = φ_g(−1) = −1` but `(X^g)^n = 1`), see
    `blindrot_hyps_unsatisfiable`.  `Proofs/BlindRotPhase.blindrot_phase` and `Props.C20.blindrot_invariant`
    have therefore been RESTATED with the hypotheses restricted to a multiplicatively closed set `U` of
    indices containing the schedule's Galois elements and the initial `t` (the odd residues; same proof), and
    that form is instantiated here: `blindrot_invariant_rpoly`.
  * `path_eq*`, `blindrot_exponent*`, `eff_spec`, `blindrot_lookup*`, `brk_keys_requested_subset` are
    statements about `Nat`/`Int`/`ZMod` (nothing to transport).
-/
import Lattigo.Proofs.RPolyTransport
import Lattigo.Proofs.RGSW
import Lattigo.Proofs.BlindRotPhase
import Driver.C20
import Mathlib.Data.ZMod.Basic

set_option linter.unusedSectionVars false
set_option linter.unusedSimpArgs false

namespace Lattigo.Props.C20Ring
open Lattigo Lattigo.RGSW Lattigo.RPolyRing Lattigo.Transport

/-! ## 1. Naturality of the model functions -/

/-- `Σ_k d_k·x_k` with an explicit zero (`Proofs/RGSW.wsum` for a carrier that is not a ring) -/
def wsumZ {α : Type} [Add α] [Mul α] (z : α) : List α → List α → α
  | d :: ds, x :: xs => d * x + wsumZ z ds xs
  | _, _ => z

def ctMap {α β : Type} (φ : α → β) (c : Ct α) : Ct β :=
  { v0 := c.v0.map (Prod.map φ φ), v1 := c.v1.map (Prod.map φ φ) }

theorem zipWith_push {α β γ α' β' γ' : Type} (f : α → β → γ) (f' : α' → β' → γ') (φa : α → α') (φb : β → β')
    (φc : γ → γ') (h : ∀ x y, φc (f x y) = f' (φa x) (φb y)) (a : List α) (b : List β) :
    (List.zipWith f a b).map φc = List.zipWith f' (a.map φa) (b.map φb) := by
  simp only [List.map_zipWith, List.zipWith_map, h]

section naturality
variable {α β : Type} [Add α] [Mul α] [Neg α] [Sub α] [Add β] [Mul β] [Neg β] [Sub β]
variable {φ : α → β} (hφ : OpsHom φ)
include hφ

theorem phase_push (ct : α × α) (s : α) : φ (phase ct s) = phase (Prod.map φ φ ct) (φ s) := by
  simp only [phase, Prod.map, hφ.add, hφ.mul]

theorem encZero_push (a e s : α) : Prod.map φ φ (encZero a e s) = encZero (φ a) (φ e) (φ s) := by
  simp only [encZero, Prod.map, hφ.sub, hφ.mul]

theorem addMsg0_push (z : α × α) (m : α) : Prod.map φ φ (addMsg0 z m) = addMsg0 (Prod.map φ φ z) (φ m) := by
  simp only [addMsg0, Prod.map, hφ.add]

theorem addMsg1_push (z : α × α) (m : α) : Prod.map φ φ (addMsg1 z m) = addMsg1 (Prod.map φ φ z) (φ m) := by
  simp only [addMsg1, Prod.map, hφ.add]

theorem rows0_push (s g : α) : ∀ (pgs : List α) (smp : List (α × α)),
    (rows0 encZero s g pgs smp).map (Prod.map φ φ)
      = rows0 encZero (φ s) (φ g) (pgs.map φ) (smp.map (Prod.map φ φ))
  | [], _ => by simp [rows0]
  | _ :: _, [] => by simp [rows0]
  | pg :: pgs, (a, e) :: rest => by
      simp only [rows0, List.map_cons, Prod.map_apply, addMsg0_push hφ, encZero_push hφ, hφ.mul,
        rows0_push s g pgs rest]

theorem rows1_push (s g : α) : ∀ (pgs : List α) (smp : List (α × α)),
    (rows1 encZero s g pgs smp).map (Prod.map φ φ)
      = rows1 encZero (φ s) (φ g) (pgs.map φ) (smp.map (Prod.map φ φ))
  | [], _ => by simp [rows1]
  | _ :: _, [] => by simp [rows1]
  | pg :: pgs, (a, e) :: rest => by
      simp only [rows1, List.map_cons, Prod.map_apply, addMsg1_push hφ, encZero_push hφ, hφ.mul,
        rows1_push s g pgs rest]

theorem encrypt_push (s g : α) (pgs : List α) (smp0 smp1 : List (α × α)) :
    ctMap φ (encrypt encZero s g pgs smp0 smp1)
      = encrypt encZero (φ s) (φ g) (pgs.map φ) (smp0.map (Prod.map φ φ)) (smp1.map (Prod.map φ φ)) := by
  simp only [ctMap, encrypt, rows0_push hφ, rows1_push hφ]

theorem dot_push : ∀ (ds : List α) (rows : List (α × α)) (z : α × α),
    Prod.map φ φ (dot z ds rows) = dot (Prod.map φ φ z) (ds.map φ) (rows.map (Prod.map φ φ))
  | [], rows, z => by cases rows <;> simp [dot]
  | _ :: _, [], z => by simp [dot]
  | d :: ds, r :: rs, z => by
      simp only [dot, List.map_cons]
      rw [dot_push ds rs]
      simp only [Prod.map, hφ.add, hφ.mul]

theorem extProdLazy_push (zero : α) (d0 d1 : List α) (rg : Ct α) :
    Prod.map φ φ (extProdLazy zero d0 d1 rg) = extProdLazy (φ zero) (d0.map φ) (d1.map φ) (ctMap φ rg) := by
  simp only [extProdLazy, dot_push hφ, ctMap, Prod.map_apply]

theorem padd_push (x y : α × α) : Prod.map φ φ (padd x y) = padd (Prod.map φ φ x) (Prod.map φ φ y) := by
  simp only [padd, Prod.map, hφ.add]

theorem pscale_push (c : α) (x : α × α) : Prod.map φ φ (pscale c x) = pscale (φ c) (Prod.map φ φ x) := by
  simp only [pscale, Prod.map, hφ.mul]

theorem ctAdd_push (A B : Ct α) : ctMap φ (Ct.add A B) = Ct.add (ctMap φ A) (ctMap φ B) := by
  simp only [ctMap, Ct.add, zipWith_push padd padd _ _ _ (padd_push hφ)]

theorem ctMulBy_push (x : α) (A : Ct α) : ctMap φ (Ct.mulBy x A) = Ct.mulBy (φ x) (ctMap φ A) := by
  simp only [ctMap, Ct.mulBy, List.map_map, Function.comp_def, pscale_push hφ]

theorem ctMulByThenAdd_push (x : α) (A out : Ct α) :
    ctMap φ (Ct.mulByThenAdd x A out) = Ct.mulByThenAdd (φ x) (ctMap φ A) (ctMap φ out) := by
  simp only [Ct.mulByThenAdd, ctAdd_push hφ, ctMulBy_push hφ]

theorem ctAddPlain_push (A : Ct α) (pgm : List α) :
    ctMap φ (Ct.addPlain A pgm) = Ct.addPlain (ctMap φ A) (pgm.map φ) := by
  simp only [ctMap, Ct.addPlain, zipWith_push addMsg0 addMsg0 _ _ _ (addMsg0_push hφ),
    zipWith_push addMsg1 addMsg1 _ _ _ (addMsg1_push hφ)]

end naturality

theorem wsum_push {α β : Type} [CommRing α] [Add β] [Mul β] [Neg β] [Sub β] {φ : α → β} (hφ : OpsHom φ) :
    ∀ (ds xs : List α), φ (wsum ds xs) = wsumZ (φ 0) (ds.map φ) (xs.map φ)
  | [], xs => by cases xs <;> simp [wsumZ]
  | _ :: _, [] => by simp [wsumZ]
  | d :: ds, x :: xs => by
      simp only [wsum_cons, List.map_cons, wsumZ, hφ.add, hφ.mul, wsum_push hφ ds xs]

/-! ## 2. Generic statements proved in `Props/C20.lean` (same statements, same proofs) -/

section gen
variable {α : Type} [CommRing α]

theorem rgsw_rows_phase_gen (s g : α) (pgs : List α) (smp0 smp1 : List (α × α)) :
    ((encrypt encZero s g pgs smp0 smp1).v0.map fun r => phase r s) =
        List.zipWith (fun pg e => e + pg * g) pgs (smp0.map Prod.snd) ∧
    ((encrypt encZero s g pgs smp0 smp1).v1.map fun r => phase r s) =
        List.zipWith (fun pg e => e + pg * g * s) pgs (smp1.map Prod.snd) := by
  have hn : ∀ smp : List (α × α), rowNoise encZero s smp = smp.map Prod.snd := by
    intro smp; simp only [rowNoise, phase_encZero]
  constructor
  · simp only [encrypt]; rw [rows0_phase, hn]
  · simp only [encrypt]; rw [rows1_phase, hn]

theorem extprod_phase_gen (s g : α) (pgs : List α) (smp0 smp1 : List (α × α)) (d0 d1 : List α)
    (Pc0 Pc1 : α)
    (h0 : pgs.length = smp0.length) (h1 : pgs.length = smp1.length)
    (hrec0 : wsum d0 pgs = Pc0) (hrec1 : wsum d1 pgs = Pc1) :
    phase (extProdLazy 0 d0 d1 (encrypt encZero s g pgs smp0 smp1)) s =
      g * phase (Pc0, Pc1) s + (wsum d0 (smp0.map Prod.snd) + wsum d1 (smp1.map Prod.snd)) := by
  rw [extProdLazy_phase encZero s g pgs smp0 smp1 d0 d1 h0 h1, hrec0, hrec1]
  have hn : ∀ smp : List (α × α), rowNoise encZero s smp = smp.map Prod.snd := by
    intro smp; simp only [rowNoise, phase_encZero]
  rw [hn, hn]; rfl

theorem extprod_phase_div_gen {β : Type} [CommRing β] (π : α →+* β) (md r : α → β) (P Pinv : β)
    (hmd : ∀ x, P * md x = π x - r x) (hPinv : Pinv * P = 1)
    (s g : α) (pgs : List α) (smp0 smp1 : List (α × α)) (d0 d1 : List α) (Pc0 Pc1 : α) (c0 c1 : β)
    (h0 : pgs.length = smp0.length) (h1 : pgs.length = smp1.length)
    (hrec0 : wsum d0 pgs = Pc0) (hrec1 : wsum d1 pgs = Pc1)
    (hc0 : π Pc0 = P * c0) (hc1 : π Pc1 = P * c1) :
    let rg := encrypt encZero s g pgs smp0 smp1
    let u := extProdLazy 0 d0 d1 rg
    let E := wsum d0 (smp0.map Prod.snd) + wsum d1 (smp1.map Prod.snd)
    phase (extProd md 0 d0 d1 rg) (π s) =
      π g * phase (c0, c1) (π s) + Pinv * (π E - (r u.1 + r u.2 * π s)) := by
  intro rg u E
  have hph := extprod_phase_gen s g pgs smp0 smp1 d0 d1 Pc0 Pc1 h0 h1 hrec0 hrec1
  have hπ : π (phase u s) = π g * (P * c0 + P * c1 * π s) + π E := by
    show π (phase (extProdLazy 0 d0 d1 (encrypt encZero s g pgs smp0 smp1)) s) = _
    rw [hph]; simp only [phase, map_add, map_mul, hc0, hc1, E]
  have hP : P * phase (extProd md 0 d0 d1 rg) (π s) =
      P * (π g * phase (c0, c1) (π s)) + (π E - (r u.1 + r u.2 * π s)) := by
    have e1 : P * phase (extProd md 0 d0 d1 rg) (π s) = P * md u.1 + P * md u.2 * π s := by
      simp only [phase, extProd]; ring
    rw [e1, hmd, hmd]
    have e2 : π u.1 - r u.1 + (π u.2 - r u.2) * π s = π (phase u s) - (r u.1 + r u.2 * π s) := by
      simp only [phase, map_add, map_mul]; ring
    rw [e2, hπ]; simp only [phase]; ring
  calc phase (extProd md 0 d0 d1 rg) (π s)
      = (Pinv * P) * phase (extProd md 0 d0 d1 rg) (π s) := by rw [hPinv, one_mul]
    _ = Pinv * (P * phase (extProd md 0 d0 d1 rg) (π s)) := by ring
    _ = Pinv * (P * (π g * phase (c0, c1) (π s)) + (π E - (r u.1 + r u.2 * π s))) := by rw [hP]
    _ = (Pinv * P) * (π g * phase (c0, c1) (π s)) + Pinv * (π E - (r u.1 + r u.2 * π s)) := by ring
    _ = _ := by rw [hPinv, one_mul]

theorem rgsw_add_gen (s g1 g2 : α) (pgs : List α) (A0 A1 B0 B1 : List (α × α))
    (h0 : A0.length = B0.length) (h1 : A1.length = B1.length) :
    Ct.add (encrypt encZero s g1 pgs A0 A1) (encrypt encZero s g2 pgs B0 B1) =
      encrypt encZero s (g1 + g2) pgs (List.zipWith padd A0 B0) (List.zipWith padd A1 B1) := by
  simp only [Ct.add, encrypt]
  rw [rows0_add encZero s g1 g2 (encZero_add s) pgs A0 B0 h0,
    rows1_add encZero s g1 g2 (encZero_add s) pgs A1 B1 h1]

theorem rgsw_mulXminus1_gen (s g x : α) (pgs : List α) (A0 A1 : List (α × α)) :
    Ct.mulBy x (encrypt encZero s g pgs A0 A1) =
      encrypt encZero s (g * x) pgs (A0.map fun ae => (ae.1 * x, ae.2 * x))
        (A1.map fun ae => (ae.1 * x, ae.2 * x)) := by
  simp only [Ct.mulBy, encrypt]
  rw [rows0_mul encZero s g x (encZero_mul s x) pgs A0, rows1_mul encZero s g x (encZero_mul s x) pgs A1]

theorem rgsw_addPlain_gen (s g m : α) (pgs : List α) (A0 A1 : List (α × α))
    (h0 : pgs.length = A0.length) (h1 : pgs.length = A1.length) :
    Ct.addPlain (encrypt encZero s g pgs A0 A1) (pgs.map (· * m)) =
      encrypt encZero s (g + m) pgs A0 A1 := by
  simp only [Ct.addPlain, encrypt]
  rw [rows0_addPlain encZero s g m pgs A0 h0, rows1_addPlain encZero s g m pgs A1 h1]

end gen

/-! ## 3. The theorems on `RPoly` values -/

def WFlist (qs : List ℕ) (n : ℕ) (l : List RPoly) : Prop := ∀ p ∈ l, WFq qs n p
def WFplist (qs : List ℕ) (n : ℕ) (l : List (RPoly × RPoly)) : Prop := ∀ p ∈ l, WFq qs n p.1 ∧ WFq qs n p.2

instance (qs : List ℕ) (n : ℕ) (l : List RPoly) : Decidable (WFlist qs n l) := by
  unfold WFlist; infer_instance
instance (qs : List ℕ) (n : ℕ) (l : List (RPoly × RPoly)) : Decidable (WFplist qs n l) := by
  unfold WFplist; infer_instance

section rpoly
variable {qs : List ℕ} {n : ℕ} [Good qs n]

theorem map_snd_push {α β : Type} (φ : α → β) (l : List (α × α)) :
    (l.map Prod.snd).map φ = (l.map (Prod.map φ φ)).map Prod.snd := by
  simp only [List.map_map, Function.comp_def, Prod.map_snd]

theorem map_phase_push {α β : Type} [Add α] [Mul α] [Neg α] [Sub α] [Add β] [Mul β] [Neg β] [Sub β]
    {φ : α → β} (hφ : OpsHom φ) (s : α) (l : List (α × α)) :
    (l.map fun r => phase r s).map φ = (l.map (Prod.map φ φ)).map fun r => phase r (φ s) := by
  simp only [List.map_map, Function.comp_def, phase_push hφ]

theorem val_wsum : ∀ (ds xs : List (WFPoly qs n)),
    val (wsum ds xs) = wsumZ (RPoly.zero qs n) (ds.map val) (xs.map val)
  | [], xs => by cases xs <;> rfl
  | _ :: _, [] => rfl
  | d :: ds, x :: xs => by
      show val (d * x + wsum ds xs) = val d * val x + wsumZ _ (ds.map val) (xs.map val)
      rw [← val_wsum ds xs]; rfl

/-- **rgsw_rows_phase_rpoly.**  Row `k` of `Value[0]` decrypts to `P·w_k·g + e_k`, row `k` of `Value[1]` to
`P·w_k·g·s + e'_k` — for the RGSW ciphertext the model builds on `RPoly` values. -/
theorem rgsw_rows_phase_rpoly (s g : RPoly) (pgs : List RPoly) (smp0 smp1 : List (RPoly × RPoly))
    (hs : WFq qs n s) (hg : WFq qs n g) (hpgs : WFlist qs n pgs) (h0 : WFplist qs n smp0)
    (h1 : WFplist qs n smp1) :
    ((encrypt encZero s g pgs smp0 smp1).v0.map fun r => phase r s) =
        List.zipWith (fun pg e => e + pg * g) pgs (smp0.map Prod.snd) ∧
    ((encrypt encZero s g pgs smp0 smp1).v1.map fun r => phase r s) =
        List.zipWith (fun pg e => e + pg * g * s) pgs (smp1.map Prod.snd) := by
  obtain ⟨s, rfl⟩ := exists_lift s hs
  obtain ⟨g, rfl⟩ := exists_lift g hg
  obtain ⟨pgs, rfl⟩ := exists_lift_list pgs hpgs
  obtain ⟨smp0, rfl⟩ := exists_lift_pairs smp0 h0
  obtain ⟨smp1, rfl⟩ := exists_lift_pairs smp1 h1
  obtain ⟨ha, hb⟩ := rgsw_rows_phase_gen s g pgs smp0 smp1
  have ha' := congrArg (List.map val) ha
  have hb' := congrArg (List.map val) hb
  have hc := encrypt_push val_hom s g pgs smp0 smp1
  rw [map_phase_push val_hom,
    zipWith_push (fun pg e => e + pg * g) (fun pg e => e + pg * val g) val val val
      (fun x y => by rw [val_hom.add, val_hom.mul]), map_snd_push] at ha'
  rw [map_phase_push val_hom,
    zipWith_push (fun pg e => e + pg * g * s) (fun pg e => e + pg * val g * val s) val val val
      (fun x y => by rw [val_hom.add, val_hom.mul, val_hom.mul]), map_snd_push] at hb'
  rw [← hc]
  exact ⟨ha', hb'⟩

/-- **extprod_phase_rpoly** (level `QP`, before the division by `P`; also the statement without auxiliary
modulus, `extprod_phase_noP`): under the gadget recombination `Σ_k d_k·P w_k = P c`,
`phase(ct ⊡ RGSW(g)) = g·phase(Pc0, Pc1) + Σ d0_k e0_k + Σ d1_k e1_k`. -/
theorem extprod_phase_rpoly (s g : RPoly) (pgs : List RPoly) (smp0 smp1 : List (RPoly × RPoly))
    (d0 d1 : List RPoly) (Pc0 Pc1 : RPoly)
    (hs : WFq qs n s) (hg : WFq qs n g) (hpgs : WFlist qs n pgs) (hw0 : WFplist qs n smp0)
    (hw1 : WFplist qs n smp1) (hd0 : WFlist qs n d0) (hd1 : WFlist qs n d1)
    (h0 : pgs.length = smp0.length) (h1 : pgs.length = smp1.length)
    (hrec0 : wsumZ (RPoly.zero qs n) d0 pgs = Pc0) (hrec1 : wsumZ (RPoly.zero qs n) d1 pgs = Pc1) :
    phase (extProdLazy (RPoly.zero qs n) d0 d1 (encrypt encZero s g pgs smp0 smp1)) s =
      g * phase (Pc0, Pc1) s
        + (wsumZ (RPoly.zero qs n) d0 (smp0.map Prod.snd) + wsumZ (RPoly.zero qs n) d1 (smp1.map Prod.snd)) := by
  subst hrec0 hrec1
  obtain ⟨s, rfl⟩ := exists_lift s hs
  obtain ⟨g, rfl⟩ := exists_lift g hg
  obtain ⟨pgs, rfl⟩ := exists_lift_list pgs hpgs
  obtain ⟨smp0, rfl⟩ := exists_lift_pairs smp0 hw0
  obtain ⟨smp1, rfl⟩ := exists_lift_pairs smp1 hw1
  obtain ⟨d0, rfl⟩ := exists_lift_list d0 hd0
  obtain ⟨d1, rfl⟩ := exists_lift_list d1 hd1
  have h := congrArg val (extprod_phase_gen s g pgs smp0 smp1 d0 d1 _ _ (by simpa using h0) (by simpa using h1)
    rfl rfl)
  rw [phase_push val_hom, extProdLazy_push val_hom, encrypt_push val_hom, val_hom.add, val_hom.mul,
    phase_push val_hom, val_hom.add, val_wsum, val_wsum, map_snd_push, map_snd_push] at h
  simp only [Prod.map_apply, val_wsum, val_zero] at h
  exact h

/-- **rgsw_add_rpoly.** -/
theorem rgsw_add_rpoly (s g1 g2 : RPoly) (pgs : List RPoly) (A0 A1 B0 B1 : List (RPoly × RPoly))
    (hs : WFq qs n s) (hg1 : WFq qs n g1) (hg2 : WFq qs n g2) (hpgs : WFlist qs n pgs)
    (hA0 : WFplist qs n A0) (hA1 : WFplist qs n A1) (hB0 : WFplist qs n B0) (hB1 : WFplist qs n B1)
    (h0 : A0.length = B0.length) (h1 : A1.length = B1.length) :
    Ct.add (encrypt encZero s g1 pgs A0 A1) (encrypt encZero s g2 pgs B0 B1) =
      encrypt encZero s (g1 + g2) pgs (List.zipWith padd A0 B0) (List.zipWith padd A1 B1) := by
  obtain ⟨s, rfl⟩ := exists_lift s hs
  obtain ⟨g1, rfl⟩ := exists_lift g1 hg1
  obtain ⟨g2, rfl⟩ := exists_lift g2 hg2
  obtain ⟨pgs, rfl⟩ := exists_lift_list pgs hpgs
  obtain ⟨A0, rfl⟩ := exists_lift_pairs A0 hA0
  obtain ⟨A1, rfl⟩ := exists_lift_pairs A1 hA1
  obtain ⟨B0, rfl⟩ := exists_lift_pairs B0 hB0
  obtain ⟨B1, rfl⟩ := exists_lift_pairs B1 hB1
  have h := congrArg (ctMap val) (rgsw_add_gen s g1 g2 pgs A0 A1 B0 B1 (by simpa using h0) (by simpa using h1))
  rw [ctAdd_push val_hom, encrypt_push val_hom, encrypt_push val_hom, encrypt_push val_hom, val_hom.add,
    zipWith_push padd padd _ _ _ (padd_push val_hom), zipWith_push padd padd _ _ _ (padd_push val_hom)] at h
  exact h

/-- **rgsw_mulXminus1_rpoly.**  Multiplying every stored polynomial by `x` (`= X^a − 1`) gives THE RGSW
ciphertext of `g·x` built from the samples multiplied by `x`. -/
theorem rgsw_mulXminus1_rpoly (s g x : RPoly) (pgs : List RPoly) (A0 A1 : List (RPoly × RPoly))
    (hs : WFq qs n s) (hg : WFq qs n g) (hx : WFq qs n x) (hpgs : WFlist qs n pgs)
    (hA0 : WFplist qs n A0) (hA1 : WFplist qs n A1) :
    Ct.mulBy x (encrypt encZero s g pgs A0 A1) =
      encrypt encZero s (g * x) pgs (A0.map fun ae => (ae.1 * x, ae.2 * x))
        (A1.map fun ae => (ae.1 * x, ae.2 * x)) := by
  obtain ⟨s, rfl⟩ := exists_lift s hs
  obtain ⟨g, rfl⟩ := exists_lift g hg
  obtain ⟨x, rfl⟩ := exists_lift x hx
  obtain ⟨pgs, rfl⟩ := exists_lift_list pgs hpgs
  obtain ⟨A0, rfl⟩ := exists_lift_pairs A0 hA0
  obtain ⟨A1, rfl⟩ := exists_lift_pairs A1 hA1
  have h := congrArg (ctMap val) (rgsw_mulXminus1_gen s g x pgs A0 A1)
  rw [ctMulBy_push val_hom, encrypt_push val_hom, encrypt_push val_hom, val_hom.mul] at h
  simp only [List.map_map, Function.comp_def, Prod.map_apply, val_hom.mul] at h ⊢
  exact h

/-- **rgsw_addPlain_rpoly.** -/
theorem rgsw_addPlain_rpoly (s g m : RPoly) (pgs : List RPoly) (A0 A1 : List (RPoly × RPoly))
    (hs : WFq qs n s) (hg : WFq qs n g) (hm : WFq qs n m) (hpgs : WFlist qs n pgs)
    (hA0 : WFplist qs n A0) (hA1 : WFplist qs n A1)
    (h0 : pgs.length = A0.length) (h1 : pgs.length = A1.length) :
    Ct.addPlain (encrypt encZero s g pgs A0 A1) (pgs.map (· * m)) =
      encrypt encZero s (g + m) pgs A0 A1 := by
  obtain ⟨s, rfl⟩ := exists_lift s hs
  obtain ⟨g, rfl⟩ := exists_lift g hg
  obtain ⟨m, rfl⟩ := exists_lift m hm
  obtain ⟨pgs, rfl⟩ := exists_lift_list pgs hpgs
  obtain ⟨A0, rfl⟩ := exists_lift_pairs A0 hA0
  obtain ⟨A1, rfl⟩ := exists_lift_pairs A1 hA1
  have h := congrArg (ctMap val) (rgsw_addPlain_gen s g m pgs A0 A1 (by simpa using h0) (by simpa using h1))
  rw [ctAddPlain_push val_hom, encrypt_push val_hom, encrypt_push val_hom, val_hom.add] at h
  simp only [List.map_map, Function.comp_def, val_hom.mul] at h ⊢
  exact h

end rpoly

/-! ### after the division by `P` (two carriers) -/

section withP
variable {qs ps : List ℕ} {n : ℕ} [Good qs n] [Good (qs ++ ps) n]

/-- **extprod_phase_div_rpoly.**  `R_{QP}` = well-formed polynomials over `qs ++ ps`, `R_Q` over `qs`, `π` keeps
the `Q` rows.  `md`, `r` are ANY functions on `RPoly` respecting well-formedness with `P·md x = π x − r x` on
well-formed `x` (for the driver: `RGSW.modDown qs ps`; that it is of this form is C02's arithmetic, not
proved here).  Then `phase(out) = g·phase(ct) + Pinv·(π(Σ d e) − r u0 − r u1·s)`. -/
theorem extprod_phase_div_rpoly (md r : RPoly → RPoly) (P Pinv : RPoly)
    (hmdwf : ∀ x, WFq (qs ++ ps) n x → WFq qs n (md x)) (hrwf : ∀ x, WFq (qs ++ ps) n x → WFq qs n (r x))
    (hPw : WFq qs n P) (hPiw : WFq qs n Pinv)
    (hmd : ∀ x, WFq (qs ++ ps) n x → P * md x = takeRows qs.length x - r x)
    (hPinv : Pinv * P = rpOne qs n)
    (s g : RPoly) (pgs : List RPoly) (smp0 smp1 : List (RPoly × RPoly)) (d0 d1 : List RPoly)
    (Pc0 Pc1 : RPoly) (c0 c1 : RPoly)
    (hs : WFq (qs ++ ps) n s) (hg : WFq (qs ++ ps) n g) (hpgs : WFlist (qs ++ ps) n pgs)
    (hw0 : WFplist (qs ++ ps) n smp0) (hw1 : WFplist (qs ++ ps) n smp1)
    (hd0 : WFlist (qs ++ ps) n d0) (hd1 : WFlist (qs ++ ps) n d1)
    (hc0w : WFq qs n c0) (hc1w : WFq qs n c1)
    (h0 : pgs.length = smp0.length) (h1 : pgs.length = smp1.length)
    (hrec0 : wsumZ (RPoly.zero (qs ++ ps) n) d0 pgs = Pc0) (hrec1 : wsumZ (RPoly.zero (qs ++ ps) n) d1 pgs = Pc1)
    (hc0 : takeRows qs.length Pc0 = P * c0) (hc1 : takeRows qs.length Pc1 = P * c1) :
    let π := takeRows qs.length
    let z := RPoly.zero (qs ++ ps) n
    let rg := encrypt encZero s g pgs smp0 smp1
    let u := extProdLazy z d0 d1 rg
    let E := wsumZ z d0 (smp0.map Prod.snd) + wsumZ z d1 (smp1.map Prod.snd)
    phase (extProd md z d0 d1 rg) (π s) =
      π g * phase (c0, c1) (π s) + Pinv * (π E - (r u.1 + r u.2 * π s)) := by
  subst hrec0 hrec1
  obtain ⟨s, rfl⟩ := exists_lift s hs
  obtain ⟨g, rfl⟩ := exists_lift g hg
  obtain ⟨pgs, rfl⟩ := exists_lift_list pgs hpgs
  obtain ⟨smp0, rfl⟩ := exists_lift_pairs smp0 hw0
  obtain ⟨smp1, rfl⟩ := exists_lift_pairs smp1 hw1
  obtain ⟨d0, rfl⟩ := exists_lift_list d0 hd0
  obtain ⟨d1, rfl⟩ := exists_lift_list d1 hd1
  obtain ⟨c0, rfl⟩ := exists_lift c0 hc0w
  obtain ⟨c1, rfl⟩ := exists_lift c1 hc1w
  obtain ⟨P, rfl⟩ := exists_lift P hPw
  obtain ⟨Pinv, rfl⟩ := exists_lift Pinv hPiw
  let md' : WFPoly (qs ++ ps) n → WFPoly qs n := fun x => lift (md (val x)) (hmdwf _ (val_wf x))
  let r' : WFPoly (qs ++ ps) n → WFPoly qs n := fun x => lift (r (val x)) (hrwf _ (val_wf x))
  have hmd' : ∀ x, P * md' x = projQ (qs := qs) x - r' x := fun x => val_injective (hmd (val x) (val_wf x))
  have hPinv' : Pinv * P = 1 := val_injective hPinv
  have hc0' : projQ (qs := qs) (wsum d0 pgs) = P * c0 := val_injective (by
    show takeRows qs.length (val (wsum d0 pgs)) = _
    rw [val_wsum]; exact hc0)
  have hc1' : projQ (qs := qs) (wsum d1 pgs) = P * c1 := val_injective (by
    show takeRows qs.length (val (wsum d1 pgs)) = _
    rw [val_wsum]; exact hc1)
  have h := congrArg val (extprod_phase_div_gen (projQ (qs := qs)) md' r' P Pinv hmd' hPinv' s g pgs smp0 smp1
    d0 d1 _ _ c0 c1 (by simpa using h0) (by simpa using h1) rfl rfl hc0' hc1')
  have p1 : ∀ p : WFPoly (qs ++ ps) n × WFPoly (qs ++ ps) n, val p.1 = (Prod.map val val p).1 := fun _ => rfl
  have p2 : ∀ p : WFPoly (qs ++ ps) n × WFPoly (qs ++ ps) n, val p.2 = (Prod.map val val p).2 := fun _ => rfl
  have hmdv : ∀ x, val (md' x) = md (val x) := fun _ => rfl
  have hrv : ∀ x, val (r' x) = r (val x) := fun _ => rfl
  intro π z rg u E
  simp only [extProd, phase_push val_hom, Prod.map_apply, hmdv, hrv, val_projQ, val_hom.add, val_hom.mul,
    val_hom.sub] at h
  rw [p1, p2, extProdLazy_push val_hom, encrypt_push val_hom, val_wsum, val_wsum,
    map_snd_push, map_snd_push] at h
  exact h

end withP

/-! ## 4. Blind rotation: the loop invariant -/

section blindrot
open Lattigo.RGSW.BlindRot

/-- **The hypotheses of the generic `blindrot_invariant` are unsatisfiable in the ring the code works in.**
If `mono k = −1` for some `k` with `2k = 0` in `ZMod m` (in `Z_q[X]/(X^n+1)`, `m = 2n`: `mono n = X^n = −1`) and
`φ` satisfies `hφadd`, `hφmono` for ALL `g` (in particular `g = 2`), then `2 = 0` in the ring:
`φ_2(X^n) = φ_2(−1) = −1` but `φ_2(X^n) = X^{2n} = 1`. -/
theorem blindrot_hyps_unsatisfiable {m : Nat} {R : Type} [CommRing R] (mono : ZMod m → R) (φ : ZMod m → R → R)
    (hmono : ∀ u v, mono (u + v) = mono u * mono v)
    (hφadd : ∀ g x y, φ g (x + y) = φ g x + φ g y)
    (hφmono : ∀ g u, φ g (mono u) = mono (g * u))
    (k : ZMod m) (hk : (2 : ZMod m) * k = 0) (hX : mono k = -1) : (2 : R) = 0 := by
  have h0 : mono 0 = 1 := by
    have : mono (k + k) = 1 := by rw [hmono, hX]; ring
    rwa [← two_mul, hk] at this
  have hφ0 : φ 2 0 = 0 := by
    have := hφadd 2 0 0
    rw [add_zero] at this
    exact left_eq_add.mp this
  have hφ1 : φ 2 1 = 1 := by rw [← h0, hφmono, mul_zero]
  have hφn1 : φ 2 (-1) = -1 := by
    have := hφadd 2 1 (-1)
    rw [add_neg_cancel, hφ0, hφ1] at this
    exact (neg_eq_of_add_eq_zero_right this.symm).symm
  have h1 : φ 2 (mono k) = 1 := by rw [hφmono, hk, h0]
  rw [hX, hφn1] at h1
  have : (1 : R) + 1 = 0 := by
    calc (1 : R) + 1 = -1 + 1 := by rw [h1]
      _ = 0 := by ring
  rw [← one_add_one_eq_two]; exact this

/-- non-vacuity of the contradiction: `R = ZMod 3`-free example `R = ℤ`, `m = 2`, `mono = (−1)^·` -/
example : (2 : ZMod 2) * 1 = 0 := by decide

/-- **blindrot_invariant_on** — the loop invariant with the hypotheses on the automorphisms restricted to a
multiplicatively closed set `U` of indices (the odd residues) that contains the Galois elements of the schedule
and the initial index `t`: this is now the statement of `Proofs/BlindRotPhase.blindrot_phase` /
`Props.C20.blindrot_invariant` themselves (restated after `blindrot_hyps_unsatisfiable`); kept under this name
for reference. -/
theorem blindrot_invariant_on {m : Nat} {R γ : Type} [CommRing R]
    (mono : ZMod m → R) (φ : ZMod m → R → R) (ph : γ → R)
    (autOp : Nat → γ → γ) (mulOp : Nat → γ → γ) (s : Nat → ZMod m)
    (U : ZMod m → Prop) (hU : ∀ g t, U g → U t → U (g * t))
    (hmono : ∀ u v, mono (u + v) = mono u * mono v)
    (hφadd : ∀ g, U g → ∀ x y, φ g (x + y) = φ g x + φ g y)
    (hφmul : ∀ g, U g → ∀ x y, φ g (x * y) = φ g x * φ g y)
    (hφφ : ∀ g t, U g → U t → ∀ x, φ g (φ t x) = φ (g * t) x)
    (hφmono : ∀ g, U g → ∀ u, φ g (mono u) = mono (g * u))
    (F : R) (st : List Step) (hst : ∀ g, Step.aut g ∈ st → U (g : ZMod m)) (x : γ) (t u : ZMod m) (ht : U t)
    (n : R) (h : ph x = φ t F * mono u + n) :
    ph (runSteps autOp mulOp st x) =
      φ (runZ s st (t, u)).1 F * mono (runZ s st (t, u)).2 + noiseRun mono φ ph autOp mulOp s st x n :=
  blindrot_phase mono φ ph autOp mulOp s U hU hmono hφadd hφmul hφφ hφmono F st hst x t u ht n h

end blindrot

/-! ### instantiation in `Z_Q[X]/(X^n+1)`: `X^u`, `RPoly.aut g` -/

section brinst
open Lattigo.RGSW.BlindRot Polynomial
variable {qs : List ℕ} {n : ℕ} [hgd : Good qs n]

/-- `X^{2n} = 1` in `Z_q[X]/(X^n+1)` -/
theorem root_pow_2n (q : ℕ) : (AdjoinRoot.root (X ^ n + 1 : (ZMod q)[X])) ^ (2 * n) = 1 := by
  rw [mul_comm, pow_mul, root_pow_n]; norm_num

theorem root_pow_mod (q a : ℕ) :
    (AdjoinRoot.root (X ^ n + 1 : (ZMod q)[X])) ^ a = (AdjoinRoot.root (X ^ n + 1 : (ZMod q)[X])) ^ (a % (2 * n)) :=
  pow_eq_pow_mod a (root_pow_2n q)

/-- the Galois map only depends on `g mod 2n` -/
theorem autHom_congr (q g g' : ℕ) (hg : Odd g) (hg' : Odd g') (h : g % (2 * n) = g' % (2 * n)) :
    autHom q n g hg = autHom q n g' hg' := by
  apply AdjoinRoot.ringHom_ext
  · ext c
    simp only [RingHom.comp_apply, autHom_of]
  · rw [autHom_root, autHom_root, root_pow_mod q g, root_pow_mod q g', h]

/-- admissible Galois indices: odd and coprime to `n` (for `n` a power of two: odd) -/
def GalOK (n g : ℕ) : Prop := Odd g ∧ Nat.Coprime g n

instance (n g : ℕ) : Decidable (GalOK n g) := by unfold GalOK; infer_instance

theorem galOK_mod (g : ℕ) : GalOK n (g % (2 * n)) ↔ GalOK n g := by
  unfold GalOK
  have h1 : Odd (g % (2 * n)) ↔ Odd g := by
    rw [Nat.odd_iff, Nat.odd_iff, Nat.mod_mod_of_dvd g (dvd_mul_right 2 n)]
  have h2 : Nat.Coprime (g % (2 * n)) n ↔ Nat.Coprime g n := by
    have e : ∀ a : ℕ, Nat.gcd a n = Nat.gcd (a % n) n := fun a => by
      rw [Nat.gcd_comm a n, Nat.gcd_rec n a]
    unfold Nat.Coprime
    rw [e (g % (2 * n)), e g, Nat.mod_mod_of_dvd g (dvd_mul_left n 2)]
  rw [h1, h2]

theorem galOK_mul {a b : ℕ} (ha : GalOK n a) (hb : GalOK n b) : GalOK n (a * b) :=
  ⟨ha.1.mul hb.1, Nat.Coprime.mul_left ha.2 hb.2⟩

variable [NeZero (2 * n)]

/-- the monomial `X^u`, `u ∈ Z/2n`, as a ring element -/
noncomputable def monoW (u : ZMod (2 * n)) : WFPoly qs n := (1 : WFPoly qs n).mulMonomial (u.val : ℤ)

theorem toProd_monoW (u : ZMod (2 * n)) (i : Fin qs.length) :
    WFPoly.toProd (monoW (qs := qs) u) i = (AdjoinRoot.root (X ^ n + 1 : (ZMod (qs.get i))[X])) ^ u.val := by
  unfold monoW
  rw [WFPoly.toProd_mulMonomial, WFPoly.toProd_one, Pi.one_apply, mul_one, zpow_natCast,
    Units.val_pow_eq_pow_val]
  rfl

theorem monoW_add (u v : ZMod (2 * n)) : monoW (qs := qs) (u + v) = monoW u * monoW v :=
  WFPoly.toProd_injective (by
    funext i
    rw [WFPoly.toProd_mul, Pi.mul_apply, toProd_monoW, toProd_monoW, toProd_monoW, ← pow_add,
      ZMod.val_add, ← root_pow_mod])

/-- `X^n = −1` -/
theorem monoW_half : monoW (qs := qs) ((n : ℕ) : ZMod (2 * n)) = -1 :=
  WFPoly.toProd_injective (by
    funext i
    have hn := hgd.n_pos
    rw [toProd_monoW, ZMod.val_natCast, Nat.mod_eq_of_lt (by omega), root_pow_n]
    have : WFPoly.toProd (-1 : WFPoly qs n) = -1 := by
      rw [WFPoly.toProd_neg, WFPoly.toProd_one]
    rw [this]; rfl)

/-- the Galois map `φ_g`, `g ∈ Z/2n` (the identity on inadmissible indices, which never occur) -/
noncomputable def phiW (g : ZMod (2 * n)) (x : WFPoly qs n) : WFPoly qs n :=
  if h : GalOK n g.val then WFPoly.aut g.val h.2 x else x

theorem phiW_ok (g : ZMod (2 * n)) (h : GalOK n g.val) (x : WFPoly qs n) :
    phiW g x = WFPoly.autRingHom g.val h.1 h.2 x := by
  unfold phiW; rw [dif_pos h]; rfl

theorem galOK_zmul {g t : ZMod (2 * n)} (hg : GalOK n g.val) (ht : GalOK n t.val) : GalOK n (g * t).val := by
  rw [ZMod.val_mul, galOK_mod]; exact galOK_mul hg ht

theorem phiW_phiW (g t : ZMod (2 * n)) (hg : GalOK n g.val) (ht : GalOK n t.val) (x : WFPoly qs n) :
    phiW g (phiW t x) = phiW (g * t) x := by
  rw [phiW_ok g hg, phiW_ok t ht, phiW_ok (g * t) (galOK_zmul hg ht)]
  apply WFPoly.toProd_injective
  funext i
  show WFPoly.toProd (WFPoly.aut g.val hg.2 (WFPoly.aut t.val ht.2 x)) i
    = WFPoly.toProd (WFPoly.aut (g * t).val (galOK_zmul hg ht).2 x) i
  rw [WFPoly.toProd_aut _ hg.1, WFPoly.toProd_aut _ ht.1, WFPoly.toProd_aut _ (galOK_zmul hg ht).1]
  have := congrArg (fun f => f (WFPoly.toProd x i)) (autHom_comp (q := qs.get i) (n := n) t.val g.val ht.1 hg.1)
  simp only [RingHom.comp_apply] at this
  rw [this]
  congr 1
  apply autHom_congr
  rw [ZMod.val_mul, Nat.mod_mod, mul_comm]

theorem phiW_mono (g : ZMod (2 * n)) (hg : GalOK n g.val) (u : ZMod (2 * n)) :
    phiW (qs := qs) g (monoW u) = monoW (g * u) := by
  rw [phiW_ok g hg]
  apply WFPoly.toProd_injective
  funext i
  show WFPoly.toProd (WFPoly.aut g.val hg.2 (monoW u)) i = _
  rw [WFPoly.toProd_aut _ hg.1, toProd_monoW, toProd_monoW, map_pow, autHom_root, ← pow_mul, ZMod.val_mul,
    ← root_pow_mod]

/-! ### the same on `RPoly` values -/

/-- the monomial `X^u` and the Galois map `φ_g` as the model computes them on `RPoly` -/
def monoR (qs : List ℕ) (n : ℕ) (u : ZMod (2 * n)) : RPoly := (rpOne qs n).mulMonomial (u.val : ℤ)
def phiR (n : ℕ) (g : ZMod (2 * n)) (x : RPoly) : RPoly := if GalOK n g.val then x.aut g.val else x

theorem val_monoW (u : ZMod (2 * n)) : val (monoW (qs := qs) u) = monoR qs n u := rfl

theorem val_phiW (g : ZMod (2 * n)) (x : WFPoly qs n) : val (phiW g x) = phiR n g (val x) := by
  unfold phiW phiR
  by_cases h : GalOK n g.val
  · rw [dif_pos h, if_pos h]; rfl
  · rw [dif_neg h, if_neg h]

section noiseG
variable {m : ℕ} {R γ : Type} [Add R] [Mul R] [Sub R]

/-- `BlindRot.errAut`, `errMul`, `noiseRun` for a carrier that only has `+ * −` -/
def errAutG (φ : ZMod m → R → R) (ph : γ → R) (autOp : Nat → γ → γ) (g : Nat) (x : γ) : R :=
  ph (autOp g x) - φ (g : ZMod m) (ph x)
def errMulG (mono : ZMod m → R) (ph : γ → R) (mulOp : Nat → γ → γ) (s : Nat → ZMod m) (j : Nat) (x : γ) : R :=
  ph (mulOp j x) - ph x * mono (s j)
def noiseRunG (mono : ZMod m → R) (φ : ZMod m → R → R) (ph : γ → R) (autOp mulOp : Nat → γ → γ)
    (s : Nat → ZMod m) : List Step → γ → R → R
  | [], _, n => n
  | Step.aut g :: rest, x, n =>
      noiseRunG mono φ ph autOp mulOp s rest (autOp g x) (φ (g : ZMod m) n + errAutG φ ph autOp g x)
  | Step.mul j :: rest, x, n =>
      noiseRunG mono φ ph autOp mulOp s rest (mulOp j x) (n * mono (s j) + errMulG mono ph mulOp s j x)
end noiseG

theorem val_noiseRun {γ : Type} (ph : γ → WFPoly qs n) (autOp mulOp : Nat → γ → γ) (s : Nat → ZMod (2 * n)) :
    ∀ (st : List Step) (x : γ) (n0 : WFPoly qs n),
      val (noiseRun monoW phiW ph autOp mulOp s st x n0)
        = noiseRunG (monoR qs n) (phiR n) (fun y => val (ph y)) autOp mulOp s st x (val n0)
  | [], _, _ => rfl
  | Step.aut g :: rest, x, n0 => by
      simp only [noiseRun, noiseRunG]
      rw [val_noiseRun ph autOp mulOp s rest]
      congr 1
      simp only [errAut, errAutG, val_hom.add, val_hom.sub, val_phiW]
  | Step.mul j :: rest, x, n0 => by
      simp only [noiseRun, noiseRunG]
      rw [val_noiseRun ph autOp mulOp s rest]
      rfl

omit [NeZero (2 * n)] in
/-- **blindrot_invariant_rpoly.**  The loop invariant of `BlindRotateCore` on `RPoly` values, in
`Z_Q[X]/(X^n+1)`: `ph` reads the phase of the accumulator (well formed), the schedule only uses admissible
Galois elements (`GalOK n g`: odd, coprime to `n` — every `5^v`, `2N − 5`), `X^u = monoR`, `φ_g = RPoly.aut g`.
If the accumulator decrypts to `φ_t(F)·X^u + n₀`, after the operations `st` it decrypts to
`φ_{t'}(F)·X^{u'} + n'`, `(t', u') = runZ s st (t, u)`, `n'` the accumulated noise. -/
theorem blindrot_invariant_rpoly {γ : Type} (ph : γ → RPoly) (hph : ∀ x, WFq qs n (ph x))
    (autOp mulOp : Nat → γ → γ) (s : Nat → ZMod (2 * n)) (F : RPoly) (hF : WFq qs n F)
    (st : List Step) (hst : ∀ g, Step.aut g ∈ st → GalOK n g) (x : γ) (t u : ZMod (2 * n))
    (ht : GalOK n t.val) (n0 : RPoly) (hn0 : WFq qs n n0)
    (h : ph x = phiR n t F * monoR qs n u + n0) :
    ph (runSteps autOp mulOp st x) =
      phiR n (runZ s st (t, u)).1 F * monoR qs n (runZ s st (t, u)).2
        + noiseRunG (monoR qs n) (phiR n) ph autOp mulOp s st x n0 := by
  have : NeZero (2 * n) := ⟨by have := hgd.n_pos; omega⟩
  obtain ⟨F, rfl⟩ := exists_lift F hF
  obtain ⟨n0, rfl⟩ := exists_lift n0 hn0
  obtain ⟨ph, rfl⟩ := exists_lift_fun ph hph
  have hst' : ∀ g, Step.aut g ∈ st → GalOK n ((g : ZMod (2 * n))).val := fun g hg => by
    rw [ZMod.val_natCast, galOK_mod]; exact hst g hg
  have h' : ph x = phiW t F * monoW u + n0 := val_injective (by
    rw [val_hom.add, val_hom.mul, val_phiW, val_monoW]; exact h)
  have := congrArg val (blindrot_invariant_on monoW phiW ph autOp mulOp s (fun g => GalOK n g.val)
    (fun g t hg ht => galOK_zmul hg ht) monoW_add
    (fun g hg x y => by rw [phiW_ok g hg, phiW_ok g hg, phiW_ok g hg, map_add])
    (fun g hg x y => by rw [phiW_ok g hg, phiW_ok g hg, phiW_ok g hg, map_mul])
    (fun g t hg ht x => phiW_phiW g t hg ht x) (fun g hg u => phiW_mono g hg u)
    F st hst' x t u ht n0 h')
  rw [val_hom.add, val_hom.mul, val_phiW, val_monoW, val_noiseRun] at this
  exact this

end brinst

/-! a concrete schedule on `qs = [97, 193]`, `n = 8` (`2n = 16`): the accumulator is its own phase, the
"automorphism" is `RPoly.aut g`, the "external product" by key `j` the rotation by `X^{s_j}` -/
section brconcrete
open Lattigo.RGSW.BlindRot

instance good8br : Good [97, 193] 8 := ⟨by decide, by decide⟩
def F8 : RPoly := ⟨[97, 193], [[1, 2, 3, 4, 5, 6, 7, 8], [10, 20, 30, 40, 50, 60, 70, 80]]⟩
def phR (x : RPoly) : RPoly := if WFq [97, 193] 8 x then x else RPoly.zero [97, 193] 8
def sBr : Nat → ZMod (2 * 8) := fun j => if j = 0 then 3 else 1
def stBr : List Step := [Step.aut 5, Step.mul 0, Step.aut 11, Step.mul 1]

theorem phR_wf (x : RPoly) : WFq [97, 193] 8 (phR x) := by
  unfold phR; split
  · assumption
  · exact WFq.zero

/-- an instance of `blindrot_invariant_rpoly` obtained FROM THE THEOREM (`t = 1`, `u = 0`, no initial noise) -/
example : phR (runSteps (fun g x => x.aut g) (fun j x => x.mulMonomial ((sBr j).val : ℤ)) stBr F8) =
    phiR 8 (runZ sBr stBr (1, 0)).1 F8 * monoR [97, 193] 8 (runZ sBr stBr (1, 0)).2
      + noiseRunG (monoR [97, 193] 8) (phiR 8) phR (fun g x => x.aut g)
          (fun j x => x.mulMonomial ((sBr j).val : ℤ)) sBr stBr F8 (RPoly.zero [97, 193] 8) :=
  blindrot_invariant_rpoly (qs := [97, 193]) (n := 8) phR phR_wf _ _ sBr F8 (by decide) stBr
    (fun g hg => by
      simp only [stBr, List.mem_cons, Step.aut.injEq, List.mem_nil_iff, or_false, reduceCtorEq, false_or] at hg
      rcases hg with rfl | rfl <;> decide)
    F8 1 0 (by decide) _ WFq.zero (by decide +kernel)

/-- TEST (evaluation): the exponents of the schedule and the value of the accumulator -/
example : runZ sBr stBr (1, 0) = (7, 2) ∧
    phR (runSteps (fun g x => x.aut g) (fun j x => x.mulMonomial ((sBr j).val : ℤ)) stBr F8)
      = phiR 8 7 F8 * monoR [97, 193] 8 2 := by decide +kernel

end brconcrete

/-! ## 5. The driver -/

section driver
open Driver.C20

/-- `ExternalProduct` as the driver computes it IS the generic `extProd` with the driver's digits and rounded
division; `Encrypt` IS the generic `encrypt encZero` with the driver's gadget vector -/
theorem extProdR_eq (p : Par) (ct : RPoly × RPoly) (rg : Ct RPoly) :
    extProdR p ct rg
      = extProd (if p.nP = 0 then takeQ p.qsQ else RGSW.modDown p.qsQ p.qsP) (RPoly.zero p.qsQP p.n)
          (digitsOf p ct.1) (digitsOf p ct.2) rg := rfl

theorem encryptR_eq (p : Par) (s g : RPoly) (smp0 smp1 : List (RPoly × RPoly)) :
    encryptR p s g smp0 smp1 = encrypt encZero s g (pgList p) smp0 smp1 := rfl

/-- **the `extprod` handler calls `extProdR`** on the parsed `RPoly` values -/
theorem hExtProd_calls (toks : List String) (p : Par) (inpl : ℕ) (ct : RPoly × RPoly) (rg : Ct RPoly)
    (h1 : getPar toks = some p) (h2 : (Driver.kv? toks "inplace" >>= Driver.parseNat?) = some inpl)
    (h3 : getCt toks "c" p.qsQ = some ct) (h4 : getRGSW toks "r" p.qsQP = some rg) :
    hExtProd toks = some (showCt (extProdR p ct rg)) := by
  simp only [hExtProd, h1, h2, h3, h4, Option.bind_eq_bind, Option.bind_some, Option.pure_def]

theorem rgswConstPoly_wf (qs : List ℕ) (n : ℕ) (vals : List ℕ) (hn : 1 ≤ n) (hl : vals.length = qs.length)
    (hq : ∀ q ∈ qs, 0 < q) : WFq qs n (RGSW.constPoly qs n vals) := by
  refine ⟨rfl, by simp [RGSW.constPoly, hl], fun i hi => ?_⟩
  have hi' : i < qs.length := hi
  have hv : i < vals.length := by omega
  have e : (RGSW.constPoly qs n vals).c.getD i [] = (vals[i] % qs[i]) :: List.replicate (n - 1) 0 := by
    simp [RGSW.constPoly, List.getD_eq_getElem?_getD, hi', hv]
  rw [e]
  show RowWF qs[i] n _
  have hqi : 0 < qs[i] := hq _ (List.getElem_mem hi')
  refine ⟨by simp; omega, fun x hx => ?_⟩
  rcases List.mem_cons.1 hx with rfl | hx
  · exact Nat.mod_lt _ hqi
  · rw [List.eq_of_mem_replicate hx]; exact hqi

/-- **the driver's gadget vector `pgList p` is well formed** over `Q ++ P` -/
theorem pgList_wf (p : Par) [hg : Good p.qsQP p.n] : WFlist p.qsQP p.n (pgList p) := by
  intro x hx
  simp only [pgList, List.mem_map] at hx
  obtain ⟨⟨i, j⟩, _, rfl⟩ := hx
  unfold pgElt
  exact rgswConstPoly_wf _ _ _ hg.n_pos (by simp [Par.qsQP]) (fun q hq => by have := hg.q_ge q hq; omega)

end driver

/-! ## 6. A concrete instance: `Q = [97]`, `P = [193]`, `n = 8`, the driver's own gadget vector and digits -/

section concrete

instance good8 : Good [97, 193] 8 := ⟨by decide, by decide⟩

def p8 : Par := { qsQ := [97], qsP := [193], n := 8, w := 0 }
instance good8p : Good p8.qsQP p8.n := good8

def s8 : RPoly := RPoly.ofInts [97, 193] [1, -1, 0, 1, 0, 0, -1, 1]
def g8 : RPoly := RPoly.ofInts [97, 193] [0, 1, 0, 0, 0, 0, 0, 0]
def smp08 : List (RPoly × RPoly) :=
  [(⟨[97, 193], [[1, 2, 3, 4, 5, 6, 7, 8], [10, 20, 30, 40, 50, 60, 70, 80]]⟩,
    RPoly.ofInts [97, 193] [1, 0, -1, 0, 2, 0, -2, 1])]
def smp18 : List (RPoly × RPoly) :=
  [(⟨[97, 193], [[8, 7, 6, 5, 4, 3, 2, 1], [80, 70, 60, 50, 40, 30, 20, 10]]⟩,
    RPoly.ofInts [97, 193] [0, 1, 0, -1, 0, 1, 0, -1])]
def ct8 : RPoly × RPoly := (⟨[97], [[90, 3, 50, 7, 0, 96, 48, 49]]⟩, ⟨[97], [[5, 6, 7, 8, 9, 10, 11, 12]]⟩)
def d08 : List RPoly := digitsOf p8 ct8.1
def d18 : List RPoly := digitsOf p8 ct8.2

theorem hyps8 : WFq [97, 193] 8 s8 ∧ WFq [97, 193] 8 g8 ∧ WFplist [97, 193] 8 smp08 ∧ WFplist [97, 193] 8 smp18
    ∧ WFlist [97, 193] 8 d08 ∧ WFlist [97, 193] 8 d18
    ∧ (pgList p8).length = smp08.length ∧ (pgList p8).length = smp18.length := by decide +kernel

/-- an instance of `extprod_phase_rpoly` obtained FROM THE THEOREM, with the driver's gadget vector `pgList p8`
and digits `digitsOf p8 ·`, all hypotheses discharged -/
example : phase (extProdLazy (RPoly.zero [97, 193] 8) d08 d18 (encryptR p8 s8 g8 smp08 smp18)) s8 =
    g8 * phase (wsumZ (RPoly.zero [97, 193] 8) d08 (pgList p8), wsumZ (RPoly.zero [97, 193] 8) d18 (pgList p8)) s8
      + (wsumZ (RPoly.zero [97, 193] 8) d08 (smp08.map Prod.snd)
          + wsumZ (RPoly.zero [97, 193] 8) d18 (smp18.map Prod.snd)) :=
  extprod_phase_rpoly (qs := [97, 193]) (n := 8) s8 g8 (pgList p8) smp08 smp18 d08 d18 _ _
    hyps8.1 hyps8.2.1 (pgList_wf p8) hyps8.2.2.1 hyps8.2.2.2.1 hyps8.2.2.2.2.1 hyps8.2.2.2.2.2.1
    hyps8.2.2.2.2.2.2.1 hyps8.2.2.2.2.2.2.2 rfl rfl

/-- TEST (evaluation of the model on these values): the same identity, and `rgsw_rows_phase` -/
example : phase (extProdLazy (RPoly.zero [97, 193] 8) d08 d18 (encryptR p8 s8 g8 smp08 smp18)) s8 =
    g8 * phase (wsumZ (RPoly.zero [97, 193] 8) d08 (pgList p8), wsumZ (RPoly.zero [97, 193] 8) d18 (pgList p8)) s8
      + (wsumZ (RPoly.zero [97, 193] 8) d08 (smp08.map Prod.snd)
          + wsumZ (RPoly.zero [97, 193] 8) d18 (smp18.map Prod.snd)) := by decide +kernel

example : ((encryptR p8 s8 g8 smp08 smp18).v0.map fun r => phase r s8)
    = List.zipWith (fun pg e => e + pg * g8) (pgList p8) (smp08.map Prod.snd) := by decide +kernel

end concrete

end Lattigo.Props.C20Ring

#print axioms Lattigo.Props.C20Ring.rgsw_rows_phase_rpoly
#print axioms Lattigo.Props.C20Ring.extprod_phase_rpoly
#print axioms Lattigo.Props.C20Ring.extprod_phase_div_rpoly
#print axioms Lattigo.Props.C20Ring.rgsw_add_rpoly
#print axioms Lattigo.Props.C20Ring.rgsw_mulXminus1_rpoly
#print axioms Lattigo.Props.C20Ring.rgsw_addPlain_rpoly
#print axioms Lattigo.Props.C20Ring.blindrot_hyps_unsatisfiable
#print axioms Lattigo.Props.C20Ring.blindrot_invariant_on
#print axioms Lattigo.Props.C20Ring.blindrot_invariant_rpoly
#print axioms Lattigo.Props.C20Ring.hExtProd_calls
#print axioms Lattigo.Props.C20Ring.pgList_wf
